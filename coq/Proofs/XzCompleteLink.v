(* Tail and position independence of the LZMA2 decoder, and the link between the
   soundness theorem (XzSound.v: blk_ok) and the completeness theorem (XzComplete.v: blk_wf).

   If lzma2_decompress_top succeeds on a fault-free source s1 and consumes exactly the
   bytes [payload], then it succeeds with the same output on EVERY fault-free source
   whose remaining data begins with [payload], whatever follows the payload, whatever
   the position counter and whatever the fragmentation.

   Method: a one-sided simulation.  [PRel s1 s2]: both sources are fault free, have the
   same Take limit, and their remaining data are  c ++ t1  and  c ++ t2  for the same
   not-yet-consumed part [c] of the payload.  For every function F of the decoder stack
   we prove  TM F = Mono F /\ Tr F :
     Mono: F only advances the source;
     Tr:   if F x1 = (Done a, y1) and y1 has not gone past a bound b (b <= P, the end of
           the payload; b < P where end-of-input is tested) and x1, x2 are related, then
           F x2 = (Done a, y2) with y1, y2 related.
   Mono is what lets the bound, known for the END of the run only, be pushed back to
   every intermediate state. *)
From LZ Require Import Base.Prelude Base.Prog Model.Io Model.Tables Model.LzBuffer Model.RangeDec
  Model.Lzma Model.Lzma2 Model.Crc Model.Xz Proofs.ProgLemmas Proofs.IoLemmas Proofs.FragIo
  Proofs.FragLzma Proofs.FragLzma2 Proofs.FragIndep Proofs.IoInv Proofs.SrcMono Proofs.XzSound
  Proofs.XzComplete.
From Coq Require Import ZifyBool ZifyNat ZifyN.
Local Open Scope prog_scope.

Ltac Zify.zify_post_hook ::= Z.div_mod_to_equations.

(* ---------- generic: monotone functions that transfer successful runs ---------- *)
Definition obind {X A B} (r : outcome A * X) (G : A -> X -> outcome B * X) : outcome B * X :=
  match r with
  | (Done a, x) => G a x
  | (Failed e, x) => (Failed e, x)
  | (Panicked p, x) => (Panicked p, x)
  end.

Section Generic.
  Context {X : Type} (pos : X -> N) (Rel : X -> X -> Prop) (b : N).

  Definition Mono {A} (F : X -> outcome A * X) : Prop := forall x, pos x <= pos (snd (F x)).
  Definition Tr {A} (F : X -> outcome A * X) : Prop :=
    forall x1 x2 a y1, F x1 = (Done a, y1) -> pos y1 <= b -> Rel x1 x2 ->
      exists y2, F x2 = (Done a, y2) /\ Rel y1 y2.
  Definition TM {A} (F : X -> outcome A * X) : Prop := Mono F /\ Tr F.

  Lemma TM_ext {A} (F F' : X -> outcome A * X) : (forall x, F x = F' x) -> TM F -> TM F'.
  Proof.
    intros E (M & T). split.
    - intros x. rewrite <- E. apply M.
    - intros x1 x2 a y1 H. rewrite <- E in H. rewrite <- E. apply T. exact H.
  Qed.

  Lemma TM_ret {A} (a : A) : TM (fun x => (Done a, x)).
  Proof.
    split.
    - intros x. cbn [snd]. lia.
    - intros x1 x2 a' y1 H _ R. inversion H; subst. eauto.
  Qed.

  Lemma TM_fail {A} e : TM (fun x => (@Failed A e, x)).
  Proof. split; [intros x; cbn [snd]; lia|intros x1 x2 a' y1 H; discriminate H]. Qed.

  Lemma TM_panic {A} q : TM (fun x => (@Panicked A q, x)).
  Proof. split; [intros x; cbn [snd]; lia|intros x1 x2 a' y1 H; discriminate H]. Qed.

  Lemma TM_obind {A B} (F : X -> outcome A * X) (G : A -> X -> outcome B * X) :
    TM F -> (forall a, TM (G a)) -> TM (fun x => obind (F x) (fun a y => G a y)).
  Proof.
    intros (MF & TF) HG. split.
    - intros x. specialize (MF x). unfold obind. destruct (F x) as [[a|e|q] y]; cbn [snd] in *; try exact MF.
      destruct (HG a) as (MG & _). specialize (MG y). lia.
    - intros x1 x2 c z1 H Hpos R. unfold obind in *.
      destruct (F x1) as [[a|e|q] y1] eqn:E1; try discriminate H.
      destruct (HG a) as (MG & TG). pose proof (MG y1) as M1. rewrite H in M1. cbn [snd] in M1.
      destruct (TF x1 x2 a y1 E1 ltac:(lia) R) as (y2 & E2 & R2). rewrite E2.
      apply (TG y1 y2 c z1 H Hpos R2).
  Qed.

  Lemma TM_if {A} (c : bool) (F G : X -> outcome A * X) : TM F -> TM G -> TM (fun x => if c then F x else G x).
  Proof. destruct c; auto. Qed.
End Generic.

(* ---------- map_io_err does not change successful runs ---------- *)
Lemma map_io_err_done {A} e (p : iop A) : forall w a w',
  run_io (map_io_err e p) w = (Done a, w') <-> run_io p w = (Done a, w').
Proof.
  unfold run_io. induction p as [a0|e0|q|X o k IH]; intros w a w'; cbn [map_io_err interp].
  - reflexivity.
  - destruct e0; cbn [interp]; split; intros H; discriminate H.
  - reflexivity.
  - destruct (io_h X o w); [apply IH|reflexivity|reflexivity].
Qed.

Lemma sle_pos s s' : sle s s' -> s_pos s <= s_pos s'.
Proof. intros ((c & _ & E) & _). lia. Qed.

Section Tail.
(* P / P2: the position at which the payload ends in the first / second source;
   t1 / t2: what follows the payload there *)
Variables (P P2 : N) (t1 t2 : list N).

Definition PRel (s1 s2 : src) : Prop :=
  FaultFreeL s1 /\ FaultFreeL s2 /\ s_limit s1 = s_limit s2 /\
  exists c, s_rest s1 = c ++ t1 /\ s_rest s2 = c ++ t2 /\ s_pos s1 + nlen c = P /\ s_pos s2 + nlen c = P2.

Definition IRel (w1 w2 : io) : Prop := PRel (i_src w1) (i_src w2) /\ i_snk w1 = i_snk w2.
Definition ipos (w : io) : N := s_pos (i_src w).

Lemma PRel_set_limit s1 s2 l : PRel s1 s2 -> PRel (set_limit s1 l) (set_limit s2 l).
Proof.
  intros ((F1 & A1) & (F2 & A2) & EL & c & E1 & E2 & P1 & P2').
  unfold PRel, FaultFreeL, set_limit. cbn [s_rest s_pos s_limit s_fail s_avail].
  repeat split; try assumption. exists c. auto.
Qed.

(* ---------- programs over ioE ---------- *)
Definition TMio (b : N) {A} (p : iop A) : Prop := TM ipos IRel b (run_io p).

Lemma good_Mono {A} (p : iop A) : good p -> Mono ipos (run_io p).
Proof. intros G w. unfold ipos. apply sle_pos. apply G. Qed.

Lemma TMio_ret b {A} (a : A) : TMio b (Ret a).
Proof. apply (TM_ret ipos IRel b a). Qed.
Lemma TMio_fail b {A} e : TMio b (@Fail ioE A e).
Proof. apply (TM_fail ipos IRel b e). Qed.
Lemma TMio_panic b {A} q : TMio b (@Panic ioE A q).
Proof. apply (TM_panic ipos IRel b q). Qed.

Lemma TMio_bind b {A B} (p : iop A) (f : A -> iop B) :
  TMio b p -> (forall a, TMio b (f a)) -> TMio b (bind p f).
Proof.
  intros Hp Hf. unfold TMio.
  apply (TM_ext ipos IRel b (fun w => obind (run_io p w) (fun a y => run_io (f a) y))).
  - intros w. rewrite run_bind. reflexivity.
  - apply (TM_obind ipos IRel b (run_io p) (fun a => run_io (f a))); assumption.
Qed.

Lemma TMio_map b {A} e (p : iop A) : good p -> TMio b p -> TMio b (map_io_err e p).
Proof.
  intros G (_ & T). split.
  - apply good_Mono. apply good_map_io_err. exact G.
  - intros w1 w2 a y1 H Hpos R. apply map_io_err_done in H.
    destruct (T w1 w2 a y1 H Hpos R) as (y2 & E2 & R2). exists y2. split; [|exact R2].
    apply map_io_err_done. exact E2.
Qed.

(* read_exact: a successful read that stays inside the payload reads the same bytes *)
Lemma TMio_read_exact b n : b <= P -> TMio b (read_exact n).
Proof.
  intros Hb. split; [apply good_Mono, good_read_exact|].
  intros [s1 k1] [s2 k2] a [s1' k1'] H Hpos ((F1 & F2 & EL & c & E1 & E2 & P1 & P2') & EK).
  unfold ipos in Hpos. cbn [i_src i_snk] in *. subst k2.
  destruct (read_exact2 s1 n F1) as (u1 & R1 & A1). destruct (read_exact2 s2 n F2) as (u2 & R2 & A2).
  unfold run_io in *. rewrite interp_interp2, R1 in H. cbn [fst snd] in H.
  destruct (N.leb_spec n (cap s1)) as [Hn|Hn]; cbn [forget] in H; [|discriminate H].
  inversion H; subst a u1 k1'. clear H.
  replace (N.min n (cap s1)) with n in A1 by lia. destruct A1 as (B1 & B2 & B3 & B4).
  assert (Hnc : n <= nlen c) by lia.
  assert (Hc2 : n <= cap s2).
  { unfold cap in *. rewrite <- EL. rewrite E1 in Hn. rewrite E2. rewrite IoInv.nlen_app in *.
    destruct (s_limit s1); lia. }
  rewrite interp_interp2, R2. cbn [fst snd]. destruct (N.leb_spec n (cap s2)) as [_|Hx]; [|lia]. cbn [forget].
  replace (N.min n (cap s2)) with n in A2 by lia. destruct A2 as (C1 & C2 & C3 & C4).
  exists (mkIo u2 k1). split.
  - rewrite E1, E2, !nfirstn_app_le by exact Hnc. reflexivity.
  - split; [|reflexivity]. cbn [i_src]. split; [exact B4|]. split; [exact C4|]. split.
    + rewrite B3, C3. unfold lim_sub. rewrite EL. reflexivity.
    + exists (nskipn n c). rewrite B1, C1, E1, E2, !nskipn_app_le by exact Hnc.
      split; [reflexivity|]. split; [reflexivity|]. rewrite B2, C2, IoLemmas.nlen_nskipn. lia.
Qed.

(* is_eof strictly inside the payload: both sources still hold data *)
Lemma TMio_is_eof b : b < P -> TMio b is_eof.
Proof.
  intros Hb. split; [apply good_Mono, good_is_eof|].
  intros [s1 k1] [s2 k2] a [s1' k1'] H Hpos ((F1 & F2 & EL & c & E1 & E2 & P1 & P2') & EK).
  unfold ipos in Hpos. cbn [i_src i_snk] in *. subst k2.
  destruct (io_is_eof_specL s1 F1) as (u1 & R1 & A1 & A2 & A3 & A4).
  destruct (io_is_eof_specL s2 F2) as (u2 & R2 & B1 & B2 & B3 & B4).
  rewrite (R1 k1) in H. inversion H; subst u1 k1'. clear H.
  rewrite (R2 k1). exists (mkIo u2 k1).
  assert (Hc : c <> []) by (intros ->; rewrite IoInv.nlen_nil in P1; lia).
  split.
  - f_equal. f_equal. rewrite E1, E2, EL. destruct c as [|x c']; [congruence|reflexivity].
  - split; [|reflexivity]. cbn [i_src]. split; [exact A4|]. split; [exact B4|]. split; [congruence|].
    exists c. rewrite A1, B1, A2, B2. auto.
Qed.

(* fill_buf whose answer is not used *)
Lemma fill_tr s1 s2 b1 s1' : PRel s1 s2 -> src_run (icall FillBuf) s1 = (Done b1, s1') ->
  exists b2 s2', src_run (icall FillBuf) s2 = (Done b2, s2') /\ PRel s1' s2'.
Proof.
  intros (F1 & F2 & EL & c & E1 & E2 & P1 & P2') H.
  destruct (IoLemmas.src_fill_spec s1 F1) as (v1 & u1 & R1 & A1 & A2 & A3 & A4 & _).
  destruct (IoLemmas.src_fill_spec s2 F2) as (v2 & u2 & R2 & B1 & B2 & B3 & B4 & _).
  unfold src_run, run_io, call in *. cbn [interp io_h i_src i_snk] in *. rewrite R1 in H. rewrite R2.
  cbn [interp i_src] in *. inversion H; subst. eexists _, _. split; [reflexivity|].
  split; [exact A4|]. split; [exact B4|]. split; [congruence|]. exists c. rewrite A1, B1, A2, B2. auto.
Qed.

(* ---------- derived reads ---------- *)
Lemma TMio_read_u8 b : b <= P -> TMio b read_u8.
Proof.
  intros Hb. unfold read_u8. apply TMio_bind; [apply TMio_read_exact; exact Hb|].
  intros [|x [|y l]]; first [apply TMio_ret|apply TMio_panic].
Qed.
Lemma TMio_read_u16_be b : b <= P -> TMio b read_u16_be.
Proof. intros Hb. unfold read_u16_be. apply TMio_bind; [apply TMio_read_exact; exact Hb|intros; apply TMio_ret]. Qed.
Lemma TMio_read_u32_be b : b <= P -> TMio b read_u32_be.
Proof. intros Hb. unfold read_u32_be. apply TMio_bind; [apply TMio_read_exact; exact Hb|intros; apply TMio_ret]. Qed.

Lemma TMio_rc_new b : b <= P -> TMio b rc_new.
Proof.
  intros Hb. unfold rc_new. apply TMio_bind; [apply TMio_read_u8; exact Hb|intros _].
  apply TMio_bind; [apply TMio_read_u32_be; exact Hb|intros; apply TMio_ret].
Qed.
Lemma TMio_rc_normalize b r : b <= P -> TMio b (rc_normalize r).
Proof.
  intros Hb. unfold rc_normalize. destruct (r_range r <? 16777216); [|apply TMio_ret].
  apply TMio_bind; [apply TMio_read_u8; exact Hb|intros; apply TMio_ret].
Qed.
Lemma TMio_rc_get_bit b r : b <= P -> TMio b (rc_get_bit r).
Proof.
  intros Hb. unfold rc_get_bit. cbv zeta. apply TMio_bind; [apply TMio_rc_normalize; exact Hb|intros; apply TMio_ret].
Qed.
Lemma TMio_rc_get_loop b n : b <= P -> forall r res, TMio b (rc_get_loop n r res).
Proof.
  intros Hb. induction n as [|n IH]; intros r res; cbn [rc_get_loop]; [apply TMio_ret|].
  apply TMio_bind; [apply TMio_rc_get_bit; exact Hb|]. intros [x r']. apply IH.
Qed.
Lemma TMio_rc_get b count r : b <= P -> TMio b (rc_get count r).
Proof. intros Hb. apply TMio_rc_get_loop. exact Hb. Qed.
Lemma TMio_rc_decode_bit b r prob upd : b <= P -> TMio b (rc_decode_bit r prob upd).
Proof.
  intros Hb. unfold rc_decode_bit. cbv zeta.
  repeat match goal with |- TMio _ (if ?c then _ else _) => destruct c end; try apply TMio_panic;
    (apply TMio_bind; [apply TMio_rc_normalize; exact Hb|intros; apply TMio_ret]).
Qed.
Lemma TMio_rc_is_finished_ok b r : b < P -> TMio b (rc_is_finished_ok r).
Proof.
  intros Hb. unfold rc_is_finished_ok. destruct (r_code r =? 0); [apply TMio_is_eof; exact Hb|apply TMio_ret].
Qed.

(* ---------- from run_io to src_run ---------- *)
Definition TMsrc (b : N) {A} (p : iop A) : Prop := TM s_pos PRel b (src_run p).

Lemma TMio_src b {A} (p : iop A) : TMio b p -> TMsrc b p.
Proof.
  intros (M & T). split.
  - intros s. specialize (M (mkIo s vec_sink)). unfold src_run, ipos in *.
    destruct (run_io p (mkIo s vec_sink)) as [r w]. exact M.
  - intros s1 s2 a u1 H Hpos R. unfold src_run in *.
    destruct (run_io p (mkIo s1 vec_sink)) as [r w1] eqn:E1. inversion H; subst r u1. clear H.
    destruct (T (mkIo s1 vec_sink) (mkIo s2 vec_sink) a w1 E1 Hpos (conj R eq_refl)) as (w2 & E2 & R2 & _).
    rewrite E2. exists (i_src w2). split; [reflexivity|exact R2].
Qed.

(* ---------- the symbol decoder ---------- *)
Definition DRel (x1 x2 : dw) : Prop :=
  d_tabs x1 = d_tabs x2 /\ d_rc x1 = d_rc x2 /\ d_win x1 = d_win x2 /\ PRel (d_src x1) (d_src x2).

Lemma DRel_mk tabs r win s1 s2 : PRel s1 s2 -> DRel (mkDw tabs r s1 win) (mkDw tabs r s2 win).
Proof. intros H. unfold DRel. cbn [d_tabs d_rc d_win d_src]. auto. Qed.

Lemma dec_h_tr b X (o : decE X) x1 x2 x y1 : b < P ->
  dec_h X o x1 = HOk x y1 -> s_pos (d_src y1) <= b -> DRel x1 x2 ->
  exists y2, dec_h X o x2 = HOk x y2 /\ DRel y1 y2.
Proof.
  intros Hb. assert (Hb' : b <= P) by lia.
  destruct x1 as [tabs r s1 win], x2 as [tabs2 r2 s2 win2]. intros H Hpos (E1 & E2 & E3 & R).
  cbn [d_tabs d_rc d_win d_src] in *. subst tabs2 r2 win2.
  destruct o; cbn [dec_h d_tabs d_rc d_src d_win] in *.
  - (* Bit *)
    destruct (cell_get tabs c) as [prob|]; [|discriminate H].
    destruct (src_run (rc_decode_bit r prob upd) s1) as [[[[bt p'] r']|e|q] u1] eqn:ES; try discriminate H.
    inversion H; subst x y1. clear H. cbn [d_src] in Hpos.
    destruct (TMio_src b _ (TMio_rc_decode_bit b r prob upd Hb')) as (_ & T).
    destruct (T s1 s2 _ u1 ES Hpos R) as (u2 & ES2 & R2). rewrite ES2.
    eexists. split; [reflexivity|apply DRel_mk; exact R2].
  - (* Direct *)
    unfold lift_src in *. cbn [d_tabs d_rc d_src d_win] in *.
    destruct (src_run (rc_get count r) s1) as [[[v r']|e|q] u1] eqn:ES; try discriminate H.
    inversion H; subst x y1. clear H. cbn [d_src] in Hpos.
    destruct (TMio_src b _ (TMio_rc_get b count r Hb')) as (_ & T).
    destruct (T s1 s2 _ u1 ES Hpos R) as (u2 & ES2 & R2). rewrite ES2.
    eexists. split; [reflexivity|apply DRel_mk; exact R2].
  - (* FinishedOk *)
    destruct (src_run (rc_is_finished_ok r) s1) as [[v|e|q] u1] eqn:ES; try discriminate H.
    inversion H; subst x y1. clear H. cbn [d_src] in Hpos.
    destruct (TMio_src b _ (TMio_rc_is_finished_ok b r Hb)) as (_ & T).
    destruct (T s1 s2 _ u1 ES Hpos R) as (u2 & ES2 & R2). rewrite ES2.
    eexists. split; [reflexivity|apply DRel_mk; exact R2].
  - inversion H; subst x y1. eexists. split; [reflexivity|apply DRel_mk; exact R].
  - unfold lift_win in *. cbn [d_tabs d_rc d_src d_win] in *.
    destruct (win_last_or win d) as [[v|e|q] win']; try discriminate H.
    inversion H; subst x y1. eexists. split; [reflexivity|apply DRel_mk; exact R].
  - unfold lift_win in *. cbn [d_tabs d_rc d_src d_win] in *.
    destruct (win_last_n win dist) as [[v|e|q] win']; try discriminate H.
    inversion H; subst x y1. eexists. split; [reflexivity|apply DRel_mk; exact R].
  - unfold lift_win in *. cbn [d_tabs d_rc d_src d_win] in *.
    destruct (win_append_literal win b0) as [[v|e|q] win']; try discriminate H.
    inversion H; subst x y1. eexists. split; [reflexivity|apply DRel_mk; exact R].
  - unfold lift_win in *. cbn [d_tabs d_rc d_src d_win] in *.
    destruct (win_append_lz win len dist) as [[v|e|q] win']; try discriminate H.
    inversion H; subst x y1. eexists. split; [reflexivity|apply DRel_mk; exact R].
Qed.

Lemma dec_interp_tr b {A} (p : dprog A) : b < P -> forall x1 x2 a y1,
  interp dec_h p x1 = (Done a, y1) -> s_pos (d_src y1) <= b -> DRel x1 x2 ->
  exists y2, interp dec_h p x2 = (Done a, y2) /\ DRel y1 y2.
Proof.
  intros Hb. induction p as [a0|e|q|X o k IH]; intros x1 x2 a y1 H Hpos R; cbn [interp] in *.
  - inversion H; subst. eauto.
  - discriminate H.
  - discriminate H.
  - destruct (dec_h X o x1) as [x m1|e m1|q m1] eqn:E1; try discriminate H.
    pose proof (interp_dec_sle (k x) m1) as M. rewrite H in M. cbn [snd] in M. apply sle_pos in M.
    destruct (dec_h_tr b X o x1 x2 x m1 Hb E1 ltac:(lia) R) as (m2 & E2 & R2). rewrite E2.
    apply (IH x m1 m2 a y1 H Hpos R2).
Qed.

(* ---------- process_mode (FinishMode, empty partial input buffer) ---------- *)
Definition LRel (x1 x2 : lw) : Prop :=
  l_ds x1 = l_ds x2 /\ ds_pib (l_ds x1) = [] /\ l_rc x1 = l_rc x2 /\ l_win x1 = l_win x2 /\
  PRel (l_src x1) (l_src x2).
Definition lpos (w : lw) : N := s_pos (l_src w).

Lemma LRel_mk d r win s1 s2 : ds_pib d = [] -> PRel s1 s2 -> LRel (mkLw d r s1 win) (mkLw d r s2 win).
Proof. intros Hp H. unfold LRel. cbn [l_ds l_rc l_win l_src]. auto. Qed.

Lemma run_sym_tr b upd : b < P -> Tr lpos LRel b (run_sym upd).
Proof.
  intros Hb [d r s1 win] [d2 r2 s2 win2] st y1 H Hpos (E1 & Hp & E2 & E3 & R).
  cbn [l_ds l_rc l_win l_src] in *. subst d2 r2 win2. unfold run_sym in *. cbn [l_ds l_rc l_win l_src] in *.
  destruct (interp dec_h (process_next_inner (ds_props d) (mkSym (ds_state d) (ds_rep d)) upd)
              (mkDw (ds_tabs d) r s1 win)) as [[[st0 y]|e|q] m1] eqn:E; try discriminate H.
  inversion H; subst st0 y1. clear H. unfold lpos in Hpos. cbn [l_src] in Hpos.
  destruct (dec_interp_tr b _ Hb _ (mkDw (ds_tabs d) r s2 win) _ _ E Hpos (DRel_mk _ _ _ _ _ R))
    as (m2 & E' & T & Rr & W & S).
  rewrite E'. eexists. split; [reflexivity|]. rewrite T, Rr, W. apply LRel_mk; [exact Hp|exact S].
Qed.

Lemma fin_head_tr b : b < P -> Tr lpos LRel b fin_head.
Proof.
  intros Hb [d r s1 win] [d2 r2 s2 win2] a y1 H Hpos (E1 & Hp & E2 & E3 & R).
  cbn [l_ds l_rc l_win l_src] in *. subst d2 r2 win2. unfold fin_head in *. cbv zeta in *.
  cbn [l_ds l_rc l_win l_src] in *.
  destruct (ds_unpacked d).
  { inversion H; subst. eexists. split; [reflexivity|apply LRel_mk; assumption]. }
  destruct (rep0 (ds_rep d) =? 4294967295).
  2:{ inversion H; subst. eexists. split; [reflexivity|apply LRel_mk; assumption]. }
  destruct (src_run (rc_is_finished_ok r) s1) as [[v|e|q] u1] eqn:ES; try discriminate H.
  inversion H; subst a y1. clear H. unfold lpos in Hpos. cbn [l_src] in Hpos.
  destruct (TMio_src b _ (TMio_rc_is_finished_ok b r Hb)) as (_ & T).
  destruct (T s1 s2 _ u1 ES Hpos R) as (u2 & ES2 & R2). rewrite ES2.
  eexists. split; [reflexivity|apply LRel_mk; assumption].
Qed.

Definition step_le (w : lw) (st : step lw pm_result) : Prop :=
  match st with Next w' => lpos w <= lpos w' | Break r => lpos w <= lpos (snd r) end.

Lemma fin_tail_mono w : step_le w (fin_tail w).
Proof.
  unfold fin_tail, step_le, lpos.
  pose proof (src_run_sle (icall FillBuf) (l_src w) good_fill) as M1.
  destruct (src_run (icall FillBuf) (l_src w)) as [[buf|e|q] s]; cbn [snd l_src] in *; apply sle_pos in M1; try exact M1.
  pose proof (run_sym_sle true (mkLw (l_ds w) (l_rc w) s (l_win w))) as M2. apply sle_pos in M2.
  destruct (run_sym true _) as [[[|]|e|q] w3]; cbn [snd l_src] in *; lia.
Qed.

(* one-sided transfer of a loop step *)
Definition step_tr (b : N) (st1 st2 : step lw pm_result) : Prop :=
  match st1 with
  | Next y1 => lpos y1 <= b -> exists y2, st2 = Next y2 /\ LRel y1 y2
  | Break (Done u, y1) => lpos y1 <= b -> exists y2, st2 = Break (Done u, y2) /\ LRel y1 y2
  | Break _ => True
  end.

Lemma fin_tail_tr b x1 x2 : b < P -> LRel x1 x2 -> step_tr b (fin_tail x1) (fin_tail x2).
Proof.
  intros Hb. destruct x1 as [d r s1 win], x2 as [d2 r2 s2 win2]. intros (E1 & Hp & E2 & E3 & R).
  cbn [l_ds l_rc l_win l_src] in *. subst d2 r2 win2. unfold fin_tail. cbn [l_ds l_rc l_win l_src].
  destruct (src_run (icall FillBuf) s1) as [[b1|e|q] u1] eqn:EF; try exact I.
  destruct (fill_tr _ _ _ _ R EF) as (b2 & u2 & EF2 & R2). rewrite EF2.
  destruct (run_sym true (mkLw d r u1 win)) as [[st|e|q] y1] eqn:ER; try exact I.
  pose proof (run_sym_tr b true Hb (mkLw d r u1 win) (mkLw d r u2 win) st y1 ER) as T.
  destruct st; unfold step_tr; intros Hpos;
    (destruct (T Hpos (LRel_mk _ _ _ _ _ Hp R2)) as (y2 & ER2 & RR); rewrite ER2; eauto).
Qed.

Lemma pm_body_tr b x1 x2 : b < P -> LRel x1 x2 -> step_tr b (pm_body FinishMode x1) (pm_body FinishMode x2).
Proof.
  intros Hb R. assert (Hp1 : ds_pib (l_ds x1) = []) by apply R.
  assert (Hp2 : ds_pib (l_ds x2) = []) by (destruct R as (E & Hp & _); rewrite <- E; exact Hp).
  rewrite (pm_body_fin x1 Hp1), (pm_body_fin x2 Hp2).
  destruct (fin_head x1) as [[[|]|e|q] m1] eqn:EH; try exact I.
  - (* break *)
    unfold step_tr. intros Hpos.
    destruct (fin_head_tr b Hb x1 x2 true m1 EH Hpos R) as (m2 & EH2 & R2). rewrite EH2. eauto.
  - pose proof (fin_tail_mono m1) as M.
    assert (T : lpos m1 <= b -> exists m2, fin_head x2 = (Done false, m2) /\ LRel m1 m2)
      by (intros Hm; apply (fin_head_tr b Hb x1 x2 false m1 EH Hm R)).
    destruct (fin_tail m1) as [y1|[[u|e|q] y1]] eqn:ET; unfold step_tr, step_le in *; cbn [snd] in M; try exact I;
      intros Hpos; destruct (T ltac:(lia)) as (m2 & EH2 & R2); rewrite EH2;
      pose proof (fin_tail_tr b m1 m2 Hb R2) as TT; rewrite ET in TT; apply TT; exact Hpos.
Qed.

Lemma pm_iter_mono mode n w :
  match iter_step n (pm_body mode) w with Next w' => lpos w <= lpos w' | Break r => lpos w <= lpos (snd r) end.
Proof.
  apply (iter_step_inv (pm_body mode) (fun w' => lpos w <= lpos w') (fun r => lpos w <= lpos (snd r))).
  - intros s s' Hs E. pose proof (pm_body_sle mode s) as B. rewrite E in B. apply sle_pos in B. unfold lpos in *. lia.
  - intros s r Hs E. pose proof (pm_body_sle mode s) as B. rewrite E in B. apply sle_pos in B. unfold lpos in *. lia.
  - lia.
Qed.

Lemma pm_iter_tr b n : b < P -> forall x1 x2 u y1,
  iter_step n (pm_body FinishMode) x1 = Break (Done u, y1) -> lpos y1 <= b -> LRel x1 x2 ->
  exists y2, iter_step n (pm_body FinishMode) x2 = Break (Done u, y2) /\ LRel y1 y2.
Proof.
  intros Hb. induction n as [|n IH]; intros x1 x2 u y1 H Hpos R; cbn [iter_step] in *; [discriminate H|].
  pose proof (pm_body_tr b x1 x2 Hb R) as ST.
  destruct (pm_body FinishMode x1) as [m1|[r m1]] eqn:E1; unfold step_tr in ST.
  - pose proof (pm_iter_mono FinishMode n m1) as M. rewrite H in M. cbn [snd] in M.
    destruct (ST ltac:(lia)) as (m2 & E2 & R2). rewrite E2. apply (IH m1 m2 u y1 H Hpos R2).
  - inversion H; subst r m1. destruct (ST Hpos) as (y2 & E2 & R2). rewrite E2. eauto.
Qed.

Lemma process_mode_tr b fuel : b < P -> Tr lpos LRel b (process_mode FinishMode fuel).
Proof.
  intros Hb x1 x2 u y1 H Hpos R. unfold process_mode in *. rewrite loopN_iter in *.
  destruct (iter_step (Pos.to_nat fuel) (pm_body FinishMode) x1) as [m1|[[u1|e|q] m1]] eqn:E1; try discriminate H.
  assert (Em : m1 = y1).
  { destruct (ds_unpacked (l_ds m1)) as [len|]; [destruct (len =? win_len (l_win m1))|]; inversion H; reflexivity. }
  subst m1. destruct (pm_iter_tr b _ Hb x1 x2 u1 y1 E1 Hpos R) as (y2 & E2 & R2). rewrite E2.
  destruct R2 as (D & Hp & Rc & W & S). rewrite <- D, <- W.
  exists y2. split; [|exact (conj D (conj Hp (conj Rc (conj W S))))].
  destruct (ds_unpacked (l_ds y1)) as [len|]; [destruct (len =? win_len (l_win y1))|]; inversion H; reflexivity.
Qed.

(* ---------- LZMA2 chunks ---------- *)
Definition WRel (x1 x2 : w2) : Prop :=
  w_ds x1 = w_ds x2 /\ ds_pib (w_ds x1) = [] /\ w_acc x1 = w_acc x2 /\ PRel (w_src x1) (w_src x2).
Definition wpos (w : w2) : N := s_pos (w_src w).
Definition TMw (b : N) {A} (F : w2 -> outcome A * w2) : Prop := TM wpos WRel b F.

Lemma WRel_mk d a s1 s2 : ds_pib d = [] -> PRel s1 s2 -> WRel (mkW2 d s1 a) (mkW2 d s2 a).
Proof. intros Hp H. unfold WRel. cbn [w_ds w_acc w_src]. auto. Qed.

(* the steps of parse_lzma / parse_uncompressed *)
Definition stepA {A} (p : iop A) (w : w2) : outcome A * w2 :=
  w2_src w (src_run (map_io_err ELzma p) (w_src w)).
Definition step_rd (rd : bool) (w : w2) : outcome unit * w2 :=
  if rd then match accum_reset (w_acc w) with (r, a) => (r, mkW2 (w_ds w) (w_src w) a) end else (Done tt, w).
Definition step_props (pbyte : N) (w : w2) : outcome props * w2 :=
  if 225 <=? pbyte then (Failed ELzma, w) else
  let lc_ := pbyte mod 9 in let t := pbyte / 9 in
  let lp_ := t mod 5 in let pb_ := t / 5 in
  if 4 <? lc_ + lp_ then (Failed ELzma, w) else (Done (mkProps lc_ lp_ pb_), w).
Definition step_np (reset_props : bool) (w : w2) : outcome props * w2 :=
  if reset_props then obind (stepA read_u8 w) (fun pbyte w => step_props pbyte w)
  else (Done (ds_props (w_ds w)), w).
Definition step_reset (p : props) (w : w2) : outcome unit * w2 :=
  match reset_state (w_ds w) p with
  | (Done d, _) => (Done tt, mkW2 d (w_src w) (w_acc w))
  | (Failed e, _) => (Failed e, w)
  | (Panicked q, _) => (Panicked q, w)
  end.
Definition step_rs (reset_st reset_props : bool) (w : w2) : outcome unit * w2 :=
  if reset_st then obind (step_np reset_props w) (fun p w => step_reset p w) else (Done tt, w).
Definition step_chunk (fuel : positive) (unpacked_size packed_size : N) (w : w2) : outcome unit * w2 :=
  let d := set_unpacked_size (w_ds w) (Some (unpacked_size + a_len (w_acc w))) in
  let taken := set_limit (w_src w) (Some packed_size) in
  match src_run (map_io_err ELzma rc_new) taken with
  | (Failed e, s) => (Failed e, mkW2 d (set_limit s None) (w_acc w))
  | (Panicked p, s) => (Panicked p, mkW2 d (set_limit s None) (w_acc w))
  | (Done r, s) =>
      match process_mode FinishMode fuel (mkLw d r s (WAccum (w_acc w))) with
      | (res, x) =>
          (res, mkW2 (l_ds x) (set_limit (l_src x) None)
                     (match l_win x with WAccum a => a | WCirc _ => w_acc w end))
      end
  end.

Lemma parse_lzma_chain fuel status w :
  parse_lzma fuel status w =
  if N.land status 128 =? 0 then (Failed ELzma, w) else
  let cls := N.land (N.shiftr status 5) 3 in
  obind (stepA read_u16_be w) (fun us16 w =>
  obind (stepA read_u16_be w) (fun ps16 w =>
  obind (step_rd (cls =? 3) w) (fun _ w =>
  obind (step_rs (negb (cls =? 0)) ((cls =? 2) || (cls =? 3)) w) (fun _ w =>
  step_chunk fuel (N.lor (N.shiftl (N.land status 31) 16) us16 + 1) (ps16 + 1) w)))).
Proof. reflexivity. Qed.

Definition step_append (bs : list N) (w : w2) : outcome unit * w2 :=
  (Done tt, mkW2 (w_ds w) (w_src w) (accum_append_bytes (w_acc w) bs)).

Lemma parse_uncompressed_chain rd w :
  parse_uncompressed rd w =
  obind (stepA read_u16_be w) (fun us16 w =>
  obind (step_rd rd w) (fun _ w =>
  obind (stepA (read_exact (us16 + 1)) w) (fun bs w => step_append bs w))).
Proof. reflexivity. Qed.

Lemma TMw_stepA b {A} (p : iop A) : good p -> TMio b p -> TMw b (stepA p).
Proof.
  intros G H. destruct (TMio_src b _ (TMio_map b ELzma p G H)) as (M & T). split.
  - intros w. unfold stepA, w2_src, wpos. cbn [snd w_src]. apply M.
  - intros x1 x2 a y1 E Hpos (D & Hp & Ac & R). unfold stepA, w2_src in *.
    destruct (src_run (map_io_err ELzma p) (w_src x1)) as [r1 u1] eqn:E1. cbn [fst snd] in E.
    inversion E; subst r1 y1. clear E. unfold wpos in Hpos. cbn [w_src] in Hpos.
    destruct (T _ _ _ _ E1 Hpos R) as (u2 & E2 & R2). rewrite E2. cbn [fst snd].
    eexists. split; [reflexivity|]. rewrite <- D, <- Ac. apply WRel_mk; assumption.
Qed.

Lemma TMw_step_rd b rd : TMw b (step_rd rd).
Proof.
  split.
  - intros w. unfold step_rd, wpos. destruct rd; [|cbn [snd]; lia].
    destruct (accum_reset (w_acc w)) as [r a]. cbn [snd w_src]. lia.
  - intros x1 x2 u y1 E Hpos (D & Hp & Ac & R). unfold step_rd in *. destruct rd.
    + rewrite <- Ac, <- D. destruct (accum_reset (w_acc x1)) as [r a]. inversion E; subst r y1.
      eexists. split; [reflexivity|]. apply WRel_mk; assumption.
    + inversion E; subst. eexists. split; [reflexivity|]. exact (conj D (conj Hp (conj Ac R))).
Qed.

Lemma TMw_step_props b pbyte : TMw b (step_props pbyte).
Proof.
  unfold step_props. destruct (225 <=? pbyte); [apply TM_fail|]. cbv zeta.
  destruct (4 <? _); [apply TM_fail|apply TM_ret].
Qed.

Lemma TMw_step_np b rp : b <= P -> TMw b (step_np rp).
Proof.
  intros Hb. unfold step_np. destruct rp.
  - apply (TM_obind wpos WRel b (stepA read_u8) step_props).
    + apply TMw_stepA; [apply good_read_u8|apply TMio_read_u8; exact Hb].
    + intros pbyte. apply TMw_step_props.
  - split.
    + intros w. cbn [snd]. lia.
    + intros x1 x2 a y1 E Hpos R. inversion E; subst. exists x2. split; [|exact R].
      destruct R as (D & _). rewrite D. reflexivity.
Qed.

Lemma TMw_step_reset b p : TMw b (step_reset p).
Proof.
  split.
  - intros w. unfold step_reset, wpos. destruct (reset_state (w_ds w) p) as [[d|e|q] u]; cbn [snd w_src]; lia.
  - intros x1 x2 u y1 E Hpos (D & Hp & Ac & R). unfold step_reset in *. rewrite <- D, <- Ac.
    destruct (reset_state (w_ds x1) p) as [[d|e|q] u0] eqn:ER; try discriminate E.
    inversion E; subst u y1. eexists. split; [reflexivity|]. apply WRel_mk; [|exact R].
    rewrite (reset_state_pib _ _ _ _ ER). exact Hp.
Qed.

Lemma TMw_step_rs b rs rp : b <= P -> TMw b (step_rs rs rp).
Proof.
  intros Hb. unfold step_rs. destruct rs; [|apply TM_ret].
  apply (TM_obind wpos WRel b (step_np rp) step_reset).
  - apply TMw_step_np. exact Hb.
  - intros p. apply TMw_step_reset.
Qed.

Lemma TMw_step_append b bs : TMw b (step_append bs).
Proof.
  split.
  - intros w. unfold step_append, wpos. cbn [snd w_src]. lia.
  - intros x1 x2 u y1 E Hpos (D & Hp & Ac & R). unfold step_append in *. inversion E; subst u y1.
    eexists. split; [reflexivity|]. rewrite <- D, <- Ac. apply WRel_mk; assumption.
Qed.

Lemma set_limit_pos s l : s_pos (set_limit s l) = s_pos s.
Proof. reflexivity. Qed.

Lemma TMw_step_chunk b fuel us ps : b < P -> TMw b (step_chunk fuel us ps).
Proof.
  intros Hb. split.
  - intros w. unfold step_chunk, wpos. cbv zeta.
    pose proof (src_run_sle (map_io_err ELzma rc_new) (set_limit (w_src w) (Some ps))
                  (good_map_io_err ELzma rc_new good_rc_new)) as M1. apply sle_pos in M1. rewrite set_limit_pos in M1.
    destruct (src_run (map_io_err ELzma rc_new) (set_limit (w_src w) (Some ps))) as [[r|e|q] s]; cbn [snd w_src] in *;
      try (rewrite set_limit_pos; exact M1).
    match goal with |- context [process_mode FinishMode fuel ?x] =>
      pose proof (process_mode_sle FinishMode fuel x) as M2; destruct (process_mode FinishMode fuel x) as [res lx] end.
    cbn [snd w_src l_src] in *. apply sle_pos in M2. rewrite set_limit_pos. lia.
  - intros x1 x2 u y1 E Hpos (D & Hp & Ac & R). unfold step_chunk in *. cbv zeta in *.
    rewrite <- D, <- Ac.
    destruct (src_run (map_io_err ELzma rc_new) (set_limit (w_src x1) (Some ps))) as [[r|e|q] u1] eqn:E1; try discriminate E.
    set (d := set_unpacked_size (w_ds x1) (Some (us + a_len (w_acc x1)))) in *.
    assert (Hpd : ds_pib d = []) by exact Hp.
    destruct (process_mode FinishMode fuel (mkLw d r u1 (WAccum (w_acc x1)))) as [res lx1] eqn:E2.
    inversion E; subst res y1. clear E. unfold wpos in Hpos. cbn [w_src] in Hpos. rewrite set_limit_pos in Hpos.
    pose proof (process_mode_sle FinishMode fuel (mkLw d r u1 (WAccum (w_acc x1)))) as M2.
    rewrite E2 in M2. cbn [snd l_src] in M2. apply sle_pos in M2.
    destruct (TMio_src b _ (TMio_map b ELzma rc_new good_rc_new (TMio_rc_new b ltac:(lia)))) as (_ & T).
    destruct (T _ _ _ _ E1 ltac:(lia) (PRel_set_limit _ _ (Some ps) R)) as (u2 & E1' & R1). rewrite E1'.
    destruct (process_mode_tr b fuel Hb _ (mkLw d r u2 (WAccum (w_acc x1))) _ _ E2 Hpos (LRel_mk _ _ _ _ _ Hpd R1))
      as (lx2 & E2' & D2 & Hp2 & Rc2 & W2 & R2).
    rewrite E2'. eexists. split; [reflexivity|]. rewrite <- D2, <- W2.
    apply WRel_mk; [exact Hp2|apply PRel_set_limit; exact R2].
Qed.

Lemma TMw_parse_lzma b fuel status : b < P -> TMw b (parse_lzma fuel status).
Proof.
  intros Hb. assert (Hb' : b <= P) by lia.
  apply (TM_ext wpos WRel b _ _ (fun w => eq_sym (parse_lzma_chain fuel status w))).
  destruct (N.land status 128 =? 0); [apply TM_fail|]. cbv zeta.
  apply (TM_obind wpos WRel b (stepA read_u16_be)).
  { apply TMw_stepA; [apply good_read_u16_be|apply TMio_read_u16_be; exact Hb']. }
  intros us16. apply (TM_obind wpos WRel b (stepA read_u16_be)).
  { apply TMw_stepA; [apply good_read_u16_be|apply TMio_read_u16_be; exact Hb']. }
  intros ps16. apply (TM_obind wpos WRel b (step_rd _)); [apply TMw_step_rd|].
  intros _. apply (TM_obind wpos WRel b (step_rs _ _)); [apply TMw_step_rs; exact Hb'|].
  intros _. apply TMw_step_chunk. exact Hb.
Qed.

Lemma TMw_parse_uncompressed b rd : b <= P -> TMw b (parse_uncompressed rd).
Proof.
  intros Hb.
  apply (TM_ext wpos WRel b _ _ (fun w => eq_sym (parse_uncompressed_chain rd w))).
  apply (TM_obind wpos WRel b (stepA read_u16_be)).
  { apply TMw_stepA; [apply good_read_u16_be|apply TMio_read_u16_be; exact Hb]. }
  intros us16. apply (TM_obind wpos WRel b (step_rd _)); [apply TMw_step_rd|].
  intros _. apply (TM_obind wpos WRel b (stepA (read_exact (us16 + 1))) step_append).
  { apply TMw_stepA; [apply good_read_exact|apply TMio_read_exact; exact Hb]. }
  intros bs. apply TMw_step_append.
Qed.

(* ---------- the chunk loop ---------- *)
Definition chunk_of (fuel : positive) (status : N) (w : w2) : outcome unit * w2 :=
  if status =? 1 then parse_uncompressed true w
  else if status =? 2 then parse_uncompressed false w
  else parse_lzma fuel status w.

Lemma TMw_chunk_of b fuel status : b < P -> TMw b (chunk_of fuel status).
Proof.
  intros Hb. unfold chunk_of. destruct (status =? 1); [apply TMw_parse_uncompressed; lia|].
  destruct (status =? 2); [apply TMw_parse_uncompressed; lia|]. apply TMw_parse_lzma. exact Hb.
Qed.

Lemma l2_body_eq fuel w :
  l2_body fuel w =
  match stepA read_u8 w with
  | (Failed e, w) => Break (Failed e, w) | (Panicked p, w) => Break (Panicked p, w)
  | (Done status, w) =>
      if status =? 0 then Break (Done tt, w)
      else match chunk_of fuel status w with
           | (Done _, w') => Next w'
           | r' => Break r'
           end
  end.
Proof.
  unfold l2_body, stepA, chunk_of.
  destruct (w2_src w (src_run (map_io_err ELzma read_u8) (w_src w))) as [[status|e|q] m]; try reflexivity.
  destruct (status =? 0); [reflexivity|].
  destruct (if status =? 1 then parse_uncompressed true m
            else if status =? 2 then parse_uncompressed false m else parse_lzma fuel status m) as [[u|e|q] y]; reflexivity.
Qed.

Definition l2_step_tr (st1 st2 : step w2 (outcome unit * w2)) : Prop :=
  match st1 with
  | Next y1 => wpos y1 < P -> exists y2, st2 = Next y2 /\ WRel y1 y2
  | Break (Done u, y1) => wpos y1 <= P -> exists y2, st2 = Break (Done u, y2) /\ WRel y1 y2
  | Break _ => True
  end.

Lemma l2_body_tr fuel x1 x2 : WRel x1 x2 -> l2_step_tr (l2_body fuel x1) (l2_body fuel x2).
Proof.
  intros R. rewrite !l2_body_eq.
  destruct (stepA read_u8 x1) as [[status|e|q] m1] eqn:E1; try exact I.
  assert (TA : forall b, b <= P -> wpos m1 <= b -> exists m2, stepA read_u8 x2 = (Done status, m2) /\ WRel m1 m2).
  { intros b Hb Hm. destruct (TMw_stepA b read_u8 good_read_u8 (TMio_read_u8 b Hb)) as (_ & T).
    apply (T x1 x2 status m1 E1 Hm R). }
  destruct (status =? 0) eqn:E0.
  - unfold l2_step_tr. intros Hpos. destruct (TA P ltac:(lia) Hpos) as (m2 & E2 & R2). rewrite E2, E0. eauto.
  - destruct (chunk_of fuel status m1) as [[u|e|q] y1] eqn:E3; try exact I.
    unfold l2_step_tr. intros Hpos.
    destruct (TMw_chunk_of (wpos y1) fuel status Hpos) as (M & T).
    pose proof (M m1) as Mm. rewrite E3 in Mm. cbn [snd] in Mm.
    destruct (TA (wpos y1) ltac:(lia) Mm) as (m2 & E2 & R2). rewrite E2, E0.
    destruct (T m1 m2 u y1 E3 ltac:(lia) R2) as (y2 & E4 & R4). rewrite E4. eauto.
Qed.

(* every completed iteration consumes at least the control byte *)
Lemma l2_body_progress fuel w :
  match l2_body fuel w with
  | Next w' => wpos w + 1 <= wpos w'
  | Break (Done _, w') => wpos w + 1 <= wpos w'
  | Break _ => True
  end.
Proof.
  rewrite l2_body_eq. unfold stepA, w2_src.
  destruct (src_run (map_io_err ELzma read_u8) (w_src w)) as [r s] eqn:E. cbn [fst snd].
  destruct r as [status|e|q]; try exact I.
  assert (Hs : s_pos s = s_pos (w_src w) + 1).
  { unfold src_run in E. destruct (run_io (map_io_err ELzma read_u8) (mkIo (w_src w) vec_sink)) as [r0 w0] eqn:E0.
    inversion E; subst r0 s. apply map_io_err_done in E0. apply read_u8_inv in E0.
    apply reads_pos in E0. cbn [i_src] in E0. rewrite E0, IoInv.nlen_cons, IoInv.nlen_nil. lia. }
  destruct (status =? 0); [unfold wpos; cbn [w_src]; lia|].
  assert (M : wpos (mkW2 (w_ds w) s (w_acc w)) <= wpos (snd (chunk_of fuel status (mkW2 (w_ds w) s (w_acc w))))).
  { unfold chunk_of, wpos. apply sle_pos.
    destruct (status =? 1); [apply parse_uncompressed_sle|]. destruct (status =? 2); [apply parse_uncompressed_sle|].
    apply parse_lzma_sle. }
  destruct (chunk_of fuel status (mkW2 (w_ds w) s (w_acc w))) as [[u|e|q] y]; try exact I.
  unfold wpos in *. cbn [snd w_src] in *. lia.
Qed.

Lemma l2_iter_mono fuel n w :
  match iter_step n (l2_body fuel) w with Next w' => wpos w <= wpos w' | Break r => wpos w <= wpos (snd r) end.
Proof.
  apply (iter_step_inv (l2_body fuel) (fun w' => wpos w <= wpos w') (fun r => wpos w <= wpos (snd r))).
  - intros s s' Hs E. pose proof (l2_body_sle fuel s) as B. rewrite E in B. apply sle_pos in B. unfold wpos in *. lia.
  - intros s r Hs E. pose proof (l2_body_sle fuel s) as B. rewrite E in B. apply sle_pos in B. unfold wpos in *. lia.
  - lia.
Qed.

Lemma l2_iter_progress fuel n w u y :
  iter_step n (l2_body fuel) w = Break (Done u, y) -> wpos w + 1 <= wpos y.
Proof.
  destruct n as [|n]; cbn [iter_step]; [discriminate|]. intros H.
  pose proof (l2_body_progress fuel w) as Pg.
  destruct (l2_body fuel w) as [m|[r m]].
  - pose proof (l2_iter_mono fuel n m) as M. rewrite H in M. cbn [snd] in M. lia.
  - inversion H; subst r m. exact Pg.
Qed.

Lemma l2_iter_tr fuel n : forall x1 x2 u y1,
  iter_step n (l2_body fuel) x1 = Break (Done u, y1) -> wpos y1 <= P -> WRel x1 x2 ->
  exists y2, iter_step n (l2_body fuel) x2 = Break (Done u, y2) /\ WRel y1 y2.
Proof.
  induction n as [|n IH]; intros x1 x2 u y1 H Hpos R; cbn [iter_step] in *; [discriminate H|].
  pose proof (l2_body_tr fuel x1 x2 R) as ST.
  destruct (l2_body fuel x1) as [m1|[r m1]] eqn:E1; unfold l2_step_tr in ST.
  - pose proof (l2_iter_progress fuel n m1 u y1 H) as Pg.
    destruct (ST ltac:(lia)) as (m2 & E2 & R2). rewrite E2. apply (IH m1 m2 u y1 H Hpos R2).
  - inversion H; subst r m1. destruct (ST Hpos) as (y2 & E2 & R2). rewrite E2. eauto.
Qed.

(* ---------- lzma2_decompress, decode_filter ---------- *)
Lemma lzma2_decompress_tr fuel dec s1 s2 k u dec' w1' :
  ds_pib (l2_state dec) = [] ->
  lzma2_decompress fuel dec (mkIo s1 k) = (Done u, (dec', w1')) -> s_pos (i_src w1') <= P -> PRel s1 s2 ->
  exists w2', lzma2_decompress fuel dec (mkIo s2 k) = (Done u, (dec', w2')) /\
              PRel (i_src w1') (i_src w2') /\ i_snk w1' = i_snk w2'.
Proof.
  intros Hp H Hpos R. unfold lzma2_decompress in *. cbv zeta in *. cbn [i_src i_snk] in *.
  rewrite loopN_iter in *.
  set (a0 := accum_new k (USIZE - 1)) in *.
  destruct (iter_step (Pos.to_nat fuel) (l2_body fuel) (mkW2 (l2_state dec) s1 a0)) as [m1|[[u1|e|q] y1]] eqn:E1;
    try discriminate H.
  destruct (accum_finish (w_acc y1)) as [r k1] eqn:EA. inversion H; subst r dec' w1'. clear H. cbn [i_src i_snk] in *.
  destruct (l2_iter_tr fuel _ _ (mkW2 (l2_state dec) s2 a0) u1 y1 E1 Hpos (WRel_mk _ _ _ _ Hp R))
    as (y2 & E2 & D & _ & Ac & R2).
  rewrite E2, <- Ac, EA, <- D. eexists. split; [reflexivity|]. cbn [i_src i_snk]. split; [exact R2|reflexivity].
Qed.

Lemma lzma2_top_tr fuel s1 s2 k u w1' :
  lzma2_decompress_top fuel (mkIo s1 k) = (Done u, w1') -> s_pos (i_src w1') <= P -> PRel s1 s2 ->
  exists w2', lzma2_decompress_top fuel (mkIo s2 k) = (Done u, w2') /\
              PRel (i_src w1') (i_src w2') /\ i_snk w1' = i_snk w2'.
Proof.
  intros H Hpos R. unfold lzma2_decompress_top in *.
  destruct lzma2_new as [dec|e|q] eqn:En; try discriminate H.
  assert (Hp : ds_pib (l2_state dec) = []).
  { revert En. unfold lzma2_new, dstate_new. destruct (negb (props_valid props0)); [discriminate|].
    intros E. inversion E. reflexivity. }
  destruct (lzma2_decompress fuel dec (mkIo s1 k)) as [r [d1 v1]] eqn:E1. inversion H; subst r v1. clear H.
  destruct (lzma2_decompress_tr fuel dec s1 s2 k u d1 w1' Hp E1 Hpos R) as (w2' & E2 & R2 & K2).
  rewrite E2. eauto.
Qed.

End Tail.

(* ================= tail / position independence of the LZMA2 decoder ================= *)
Lemma app_same_tail {A} (c : list A) t : c ++ t = t -> c = [].
Proof.
  intros H. assert (L : length (c ++ t) = length t) by (rewrite H; reflexivity).
  rewrite app_length in L. destruct c; [reflexivity|cbn [length] in L; lia].
Qed.

Theorem lzma2_tail_indep fuel s1 k w1' payload :
  FaultFree s1 -> lzma2_decompress_top fuel (mkIo s1 k) = (Done tt, w1') ->
  s_rest s1 = payload ++ s_rest (i_src w1') ->
  forall s2 t2, FaultFree s2 -> s_rest s2 = payload ++ t2 ->
  exists w2', lzma2_decompress_top fuel (mkIo s2 k) = (Done tt, w2') /\ i_snk w2' = i_snk w1' /\
    FaultFree (i_src w2') /\ s_rest (i_src w2') = t2 /\ s_pos (i_src w2') = s_pos s2 + nlen payload.
Proof.
  intros F1 H Hr s2 t2 F2 Hr2.
  pose proof (lzma2_decompress_top_sle fuel (mkIo s1 k)) as S. rewrite H in S. cbn [snd i_src] in S.
  destruct S as ((c & Ec & Pc) & NL).
  assert (c = payload) by (rewrite Hr in Ec; apply app_inv_tail in Ec; congruence). subst c.
  set (t1 := s_rest (i_src w1')) in *.
  assert (R : PRel (s_pos s1 + nlen payload) (s_pos s2 + nlen payload) t1 t2 s1 s2).
  { split; [apply FaultFree_L; exact F1|]. split; [apply FaultFree_L; exact F2|].
    split; [destruct F1 as (_ & -> & _); destruct F2 as (_ & -> & _); reflexivity|].
    exists payload. auto. }
  destruct (lzma2_top_tr _ _ _ _ fuel s1 s2 k tt w1' H (N.eq_le_incl _ _ Pc) R) as (w2' & E2 & (G1 & G2 & EL & c & C1 & C2 & C3 & C4) & K).
  exists w2'. split; [exact E2|]. split; [symmetry; exact K|].
  assert (c = []) by (apply (app_same_tail c t1); symmetry; exact C1). subst c.
  rewrite IoInv.nlen_nil in C4. cbn [app] in C2.
  split; [|split; [exact C2|lia]].
  apply FaultFreeL_None; [exact G2|]. rewrite <- EL. apply NL. apply F1.
Qed.

Theorem decode_filter_tail_indep (crc32 crc64 : list N -> N) fuel f s1 s1' payload out :
  FaultFree s1 -> sadv s1 s1' payload ->
  decode_filter fuel f s1 = (Done (nlen payload, out), s1') ->
  forall s2 t2, FaultFree s2 -> s_rest s2 = payload ++ t2 ->
  exists s2', decode_filter fuel f s2 = (Done (nlen payload, out), s2').
Proof.
  intros F1 (Hr & _) H s2 t2 F2 Hr2.
  apply (decode_filter_inv crc32 crc64) in H. destruct H as (c & w1' & _ & _ & EP & ED & -> & ->).
  destruct (lzma2_tail_indep fuel s1 vec_sink w1' payload F1 ED Hr s2 t2 F2 Hr2) as (w2' & E2 & K & _ & _ & P2).
  unfold decode_filter. rewrite EP. change (1 =? 1) with true. cbn [negb]. cbv zeta. rewrite E2.
  eexists. f_equal. f_equal. f_equal; [lia|rewrite K; reflexivity].
Qed.

Print Assumptions lzma2_tail_indep.
Print Assumptions decode_filter_tail_indep.

(* ================= the link between blk_ok (XzSound.v) and blk_wf (XzComplete.v) ================= *)
Section WithCrc.
Variable crc32 : list N -> N.
Variable crc64 : list N -> N.

(* blk_ok of XzSound.v whose witness source is fault free *)
Definition blk_ok_ff_gen (fuel : positive) (ck : check_method) (count : N) (b : blk) : Prop :=
  b_hs b <> 0 /\
  nlen (b_hdr b) = 4 * b_hs b - 1 /\
  length (b_hcrc b) = 4%nat /\ le_num (b_hcrc b) = crc32 (b_hs b :: b_hdr b) /\
  (exists bh f0 fs out0 s1 s2,
     read_block_header (4 * b_hs b - 1) (b_hdr b) = Done bh /\ bh_filters bh = f0 :: fs /\
     FaultFree s1 /\ sadv s1 s2 (b_payload b) /\
     decode_filter fuel f0 s1 = (Done (nlen (b_payload b), out0), s2) /\
     later_filters fuel fs out0 = Done (b_out b) /\
     (forall e, bh_packed bh = Some e -> nlen (b_payload b) = e) /\
     (forall e, bh_unpacked bh = Some e -> nlen (b_out b) = e)) /\
  b_pad b = repeat 0 (N.to_nat (padding_of count)) /\
  check_field crc32 crc64 ck (b_out b) (b_chk b).

Definition blk_ok_ff (fuel : positive) (ck : check_method) (b : blk) : Prop :=
  blk_ok_ff_gen fuel ck (nlen (b_hs b :: b_hdr b ++ b_hcrc b ++ b_payload b)) b.

Theorem blk_ok_ff_ok fuel ck b : blk_ok_ff fuel ck b -> blk_ok crc32 crc64 fuel ck b.
Proof.
  intros (H1 & H2 & H3 & H4 & (bh & f0 & fs & out0 & s1 & s2 & G1 & G2 & _ & G3 & G4 & G5 & G6 & G7) & H6 & H7).
  unfold blk_ok, blk_ok_gen. repeat (split; [assumption|]). split; [|split; assumption].
  exists bh, f0, fs, out0, s1, s2. auto 10.
Qed.

Theorem blk_ok_ff_wf fuel ck b : blk_ok_ff fuel ck b -> blk_wf crc32 crc64 fuel ck b.
Proof.
  intros (H1 & H2 & H3 & H4 & (bh & f0 & fs & out0 & s1 & s2 & G1 & G2 & FF & G3 & G4 & G5 & G6 & G7) & H6 & H7).
  unfold blk_wf. repeat (split; [assumption|]). split; [|split; assumption].
  exists bh, f0, fs, out0. split; [exact G1|]. split; [exact G2|]. split; [|auto].
  intros s t Fs Hr. apply (decode_filter_tail_indep crc32 crc64 fuel f0 s1 s2 (b_payload b) out0 FF G3 G4 s t Fs Hr).
Qed.

Theorem blk_wf_ok_ff fuel ck b : blk_wf crc32 crc64 fuel ck b -> blk_ok_ff fuel ck b.
Proof.
  intros (H1 & H2 & H3 & H4 & (bh & f0 & fs & out0 & G1 & G2 & DF & G5 & G6 & G7) & H6 & H7).
  unfold blk_ok_ff, blk_ok_ff_gen. repeat (split; [assumption|]). split; [|split; assumption].
  pose proof (cursor_FaultFree (b_payload b)) as FF.
  destruct (DF (cursor_of (b_payload b)) [] FF) as (s2 & ED); [symmetry; apply app_nil_r|].
  destruct (decode_filter_ff crc32 crc64 fuel f0 _ (b_payload b) [] (nlen (b_payload b)) out0 s2 FF) as (F2 & E2 & P2);
    [symmetry; apply app_nil_r|reflexivity|exact ED|].
  exists bh, f0, fs, out0, (cursor_of (b_payload b)), s2.
  split; [exact G1|]. split; [exact G2|]. split; [exact FF|]. split; [|auto].
  split; [rewrite E2; symmetry; apply app_nil_r|]. split; [exact P2|]. intros _. apply F2.
Qed.

(* ================= C03 ================= *)
(* Every well-formed supported .xz stream is accepted, whatever the fragmentation of the
   (fault-free) source, its position counter, and the short-write behaviour of the sink. *)
Theorem xz_decompress_complete fuel w ck hdr blocks index footer :
  FaultFree (i_src w) -> k_wfail (i_snk w) = None ->
  s_rest (i_src w) = hdr ++ concat (map blk_bytes blocks) ++ index ++ footer ->
  header_bytes_ok crc32 ck hdr ->
  Forall (blk_ok_ff fuel ck) blocks ->
  index_bytes_ok crc32 (map blk_record blocks) index ->
  footer_bytes_ok crc32 ck (nlen index) footer ->
  (length blocks < Pos.to_nat fuel)%nat ->
  exists w', xz_decompress crc32 crc64 fuel w = (Done tt, w') /\
    snk_bytes (i_snk w') = snk_bytes (i_snk w) ++ concat (map b_out blocks) /\
    s_rest (i_src w') = [] /\
    s_pos (i_src w') = s_pos (i_src w) + nlen (s_rest (i_src w)).
Proof.
  intros Hs Hk Hr HOK FB IOK FOK Hfuel.
  apply (xz_decompress_complete_wf crc32 crc64 fuel w ck hdr blocks index footer); try assumption.
  apply Forall_forall. intros b Hb. apply blk_ok_ff_wf. revert b Hb. apply Forall_forall. exact FB.
Qed.

End WithCrc.

Print Assumptions blk_ok_ff_wf.
Print Assumptions blk_wf_ok_ff.
Print Assumptions xz_decompress_complete.

(* ================= non-vacuity ================= *)
(* the 60-byte stream of XzSound.v (python3: lzma.compress(b"hello", format=FORMAT_XZ, check=CHECK_CRC32))
   satisfies the hypotheses of xz_decompress_complete *)
Definition sample_hdr : list N := [253; 55; 122; 88; 90; 0; 0; 1; 105; 34; 222; 54].
Definition sample_blk : blk :=
  mkBlk 2 [0; 33; 1; 22; 0; 0; 0] [116; 47; 229; 163] [1; 0; 4; 104; 101; 108; 108; 111; 0] [0; 0; 0]
        [134; 166; 16; 54] [104; 101; 108; 108; 111].
Definition sample_index : list N := [0; 1; 25; 5; 188; 232; 236; 203].
Definition sample_footer : list N := [144; 66; 153; 13; 1; 0; 0; 0; 0; 1; 89; 90].

Lemma one_lt_big_fuel : (1 < Pos.to_nat big_fuel)%nat.
Proof. change 1%nat with (Pos.to_nat 1). apply Pos2Nat.inj_lt. reflexivity. Qed.

Example sample_xz_wellformed :
  sample_xz = sample_hdr ++ concat (map blk_bytes [sample_blk]) ++ sample_index ++ sample_footer /\
  header_bytes_ok crc32_exec CkCrc32 sample_hdr /\
  Forall (blk_ok_ff crc32_exec crc64_exec big_fuel CkCrc32) [sample_blk] /\
  index_bytes_ok crc32_exec (map blk_record [sample_blk]) sample_index /\
  footer_bytes_ok crc32_exec CkCrc32 (nlen sample_index) sample_footer /\
  (length [sample_blk] < Pos.to_nat big_fuel)%nat.
Proof.
  split; [reflexivity|]. split.
  { exists 1, [105; 34; 222; 54]. split; [reflexivity|]. split; [reflexivity|]. split; vm_compute; reflexivity. }
  split.
  { constructor; [|constructor]. unfold blk_ok_ff, blk_ok_ff_gen, sample_blk. cbn [b_hs b_hdr b_hcrc b_payload b_pad b_chk b_out].
    split; [discriminate|]. split; [reflexivity|]. split; [reflexivity|]. split; [vm_compute; reflexivity|].
    split; [|split; [vm_compute; reflexivity|split; [reflexivity|vm_compute; reflexivity]]].
    set (payload := [1; 0; 4; 104; 101; 108; 108; 111; 0]).
    exists (mkBH [mkFilter [22]] None None), (mkFilter [22]), [], [104; 101; 108; 108; 111], (cursor_of payload),
           (snd (decode_filter big_fuel (mkFilter [22]) (cursor_of payload))).
    split; [vm_compute; reflexivity|]. split; [reflexivity|]. split; [apply cursor_FaultFree|].
    split; [split; [vm_compute; reflexivity|split; [vm_compute; reflexivity|intros _; vm_compute; reflexivity]]|].
    split; [vm_compute; reflexivity|]. split; [reflexivity|]. split; intros e He; discriminate He. }
  split.
  { exists [1], [[25; 5]], [], [188; 232; 236; 203]. split; [reflexivity|].
    split; [split; [apply mbs_last; reflexivity|split; [cbn [length]; lia|vm_compute; reflexivity]]|].
    split.
    { constructor; [|constructor]. exists [25], [5]. split; [reflexivity|].
      split; (split; [apply mbs_last; reflexivity|split; [cbn [length]; lia|vm_compute; reflexivity]]). }
    split; [vm_compute; reflexivity|]. split; [reflexivity|vm_compute; reflexivity]. }
  split.
  { exists [144; 66; 153; 13], [1; 0; 0; 0], 1. split; [reflexivity|]. split; [reflexivity|]. split; [reflexivity|].
    split; [vm_compute; reflexivity|]. split; vm_compute; reflexivity. }
  exact one_lt_big_fuel.
Qed.

(* hence: whatever the fragmentation of the source and the short writes of the sink, it decodes to "hello" *)
Example sample_xz_any_fragmentation frag accept ffail :
  exists w', xz_decompress crc32_exec crc64_exec big_fuel
               (mkIo (src_of sample_xz frag None) (snk_new accept None ffail)) = (Done tt, w') /\
             snk_bytes (i_snk w') = [104; 101; 108; 108; 111] /\ s_rest (i_src w') = [].
Proof.
  destruct sample_xz_wellformed as (E & HOK & FB & IOK & FOK & LF).
  destruct (xz_decompress_complete crc32_exec crc64_exec big_fuel
              (mkIo (src_of sample_xz frag None) (snk_new accept None ffail))
              CkCrc32 sample_hdr [sample_blk] sample_index sample_footer
              (src_of_FaultFree _ _) eq_refl E HOK FB IOK FOK LF) as (w' & R & B & Z & _).
  exists w'. split; [exact R|]. split; [rewrite B; reflexivity|exact Z].
Qed.

Print Assumptions sample_xz_wellformed.
Print Assumptions sample_xz_any_fragmentation.
