(* C15, second part, layer 2: what the iterations of the abstract one-shot loop do to the window:
   the sink only grows (any sink), the represented history only grows (sinks whose writes do not fail, via
   WinCirc.CInv), the window length only grows; the iterations from a given start form a chain. *)
From LZ Require Import Base.Prelude Base.Prog Model.Io Model.Tables Model.LzBuffer Model.RangeDec Model.Lzma Model.Stream.
From LZ Require Import Proofs.ProgLemmas Proofs.IoLemmas Proofs.WinCirc Proofs.StreamLatch Proofs.StreamPrefix Proofs.StreamFinish Proofs.StreamInv.
From LZ Require Import Proofs.StreamSimAbs Proofs.StreamSimSym Proofs.StreamSimBody Proofs.StreamSimMark Proofs.StreamSimCall
  Proofs.StreamSimLoop Proofs.StreamSimData Proofs.StreamPrefix2Sync.
From Coq Require Import ZifyBool ZifyNat ZifyN.
Local Open Scope prog_scope.

Notation sext := StreamPrefix.ext.

(* ====================================================================== *)
(* One abstract symbol step, seen through the concrete run_sym              *)
(* ====================================================================== *)
Lemma arun_concrete upd a : nlen (x_in a) <= BIG ->
  fst (run_sym upd (to_lw a)) = fst (arun upd a) /\ l_win (snd (run_sym upd (to_lw a))) = x_win (snd (arun upd a)).
Proof. intros H. destruct (run_sym_abs upd _ _ _ (lw_abs_to_lw a H)) as [F (_ & _ & W & _)]. split; assumption. Qed.

Lemma arun_snk_ext upd a : nlen (x_in a) <= BIG -> sext (win_snk (x_win a)) (win_snk (x_win (snd (arun upd a)))).
Proof. intros H. destruct (arun_concrete upd a H) as [_ W]. rewrite <- W. apply (run_sym_ext upd (to_lw a)). Qed.

Lemma arun_cinv pre upd a st a' c h : nlen (x_in a) <= BIG -> x_win a = WCirc c -> CInv pre c h ->
  arun upd a = (Done st, a') -> exists c' t, x_win a' = WCirc c' /\ CInv pre c' (h ++ t).
Proof.
  intros H Ew HI E. destruct (arun_concrete upd a H) as [F W]. rewrite E in F, W. cbn [fst snd] in F, W.
  destruct (run_sym upd (to_lw a)) as [r w'] eqn:ER. cbn [fst snd] in F, W. subst r.
  destruct (StreamInv.run_sym_inv pre upd (to_lw a) st w' c h Ew HI ER) as (c' & t & E1 & E2).
  exists c', t. rewrite <- W. split; assumption.
Qed.

(* ---------- the window length never decreases ---------- *)
Lemma circ_set_len b i v : c_len (snd (circ_set b i v)) = c_len b.
Proof. unfold circ_set. destruct (_ <? _); [destruct (_ <=? _)|]; reflexivity. Qed.

Lemma circ_append_literal_len b lit : c_len b <= c_len (snd (circ_append_literal b lit)).
Proof.
  unfold circ_append_literal. pose proof (circ_set_len b (c_cursor b) lit) as H.
  destruct (circ_set b (c_cursor b) lit) as [[u|e|q] b1]; cbn [snd] in *; try lia.
  destruct (_ =? _); [destruct (snk_run _ _) as [[u'|e|q] k]|]; cbn [snd c_len]; lia.
Qed.

Lemma circ_lz_loop_len n : forall b offset, c_len b <= c_len (snd (circ_lz_loop n b offset)).
Proof.
  induction n as [|n IH]; intros b offset; cbn [circ_lz_loop]; [cbn [snd]; lia|].
  pose proof (circ_append_literal_len b (circ_get b offset)) as H.
  destruct (circ_append_literal b (circ_get b offset)) as [[u|e|q] b1]; cbn [snd] in *; try exact H.
  eapply N.le_trans; [exact H|apply IH].
Qed.

Lemma win_append_literal_len w b : win_len w <= win_len (snd (win_append_literal w b)).
Proof.
  destruct w as [c|a]; cbn [win_append_literal lift_c lift_a snd win_len].
  - apply circ_append_literal_len.
  - unfold accum_append_literal. destruct (_ <? _); cbn [snd a_len]; lia.
Qed.

Lemma win_append_lz_len w len dist : win_len w <= win_len (snd (win_append_lz w len dist)).
Proof.
  destruct w as [c|a]; cbn [win_append_lz lift_c lift_a snd win_len].
  - unfold circ_append_lz. destruct (_ <? _); [cbn [snd]; lia|]. destruct (_ <? _); [cbn [snd]; lia|].
    destruct (_ =? _); [cbn [snd]; lia|]. apply circ_lz_loop_len.
  - unfold accum_append_lz. destruct (_ <? _); [cbn [snd]; lia|]. destruct (_ && _)%bool; [cbn [snd]; lia|].
    destruct (accum_lz_loop _ _ _ _). cbn [snd a_len]. lia.
Qed.

Lemma run_sym_len_mono upd w : win_len (l_win w) <= win_len (l_win (snd (run_sym upd w))).
Proof.
  apply (run_sym_keep (fun v => win_len (l_win w) <= win_len v) true); [| |apply N.le_refl|right; reflexivity].
  - intros v b Hv _. eapply N.le_trans; [exact Hv|apply win_append_literal_len].
  - intros v len dist Hv _. eapply N.le_trans; [exact Hv|apply win_append_lz_len].
Qed.

Lemma arun_len_mono upd a : nlen (x_in a) <= BIG -> win_len (x_win a) <= win_len (x_win (snd (arun upd a))).
Proof. intros H. destruct (arun_concrete upd a H) as [_ W]. rewrite <- W. apply (run_sym_len_mono upd (to_lw a)). Qed.

(* ====================================================================== *)
(* One iteration of the one-shot loop                                       *)
(* ====================================================================== *)
Lemma obody_next_arun A A1 : ds_pib (x_ds A) = [] -> obody A = Next A1 -> arun true A = (Done Continue, A1).
Proof.
  intros Hp OB. rewrite (obody_unfold A Hp) in OB. destruct (ahead FinishMode A); [discriminate|].
  destruct (arun true A) as [[[|]|e|q] t]; inversion OB; reflexivity.
Qed.

Lemma obody_res A : ds_pib (x_ds A) = [] -> res_ast (obody A) = A \/ res_ast (obody A) = snd (arun true A).
Proof.
  intros Hp. rewrite (obody_unfold A Hp). destruct (ahead FinishMode A); [left; reflexivity|]. right.
  destruct (arun true A) as [[[|]|e|q] t]; reflexivity.
Qed.

Lemma obody_break_done A u A1 : ds_pib (x_ds A) = [] -> obody A = Break (Done u, A1) ->
  A1 = A \/ arun true A = (Done Finished, A1).
Proof.
  intros Hp OB. rewrite (obody_unfold A Hp) in OB. destruct (ahead FinishMode A); [inversion OB; left; reflexivity|].
  destruct (arun true A) as [[[|]|e|q] t]; inversion OB; subst. right. reflexivity.
Qed.

Lemma AInv_len A : AInv A -> nlen (x_in A) <= BIG.
Proof. intros [_ _ _ H _]. lia. Qed.

Lemma obody_next_inv A A1 : AInv A -> ds_pib (x_ds A) = [] -> obody A = Next A1 -> AInv A1 /\ ds_pib (x_ds A1) = [].
Proof.
  intros HI Hp OB. pose proof (obody_next_arun A A1 Hp OB) as E.
  pose proof (arun_inv true A HI) as Hinv. destruct (arun_ds true A) as (Dp & _).
  rewrite E in Hinv, Dp. cbn [snd] in Dp. split; [exact Hinv|congruence].
Qed.

Lemma osteps_inv A0 k A : AInv A0 -> ds_pib (x_ds A0) = [] -> osteps A0 k A -> AInv A /\ ds_pib (x_ds A) = [].
Proof.
  intros HI Hp H. induction H as [|k A A1 H IH OB]; [split; assumption|].
  destruct IH as [HI' Hp']. apply (obody_next_inv A A1 HI' Hp' OB).
Qed.

(* ---------- the chain ---------- *)
Lemma osteps_det A0 k : forall A A', osteps A0 k A -> osteps A0 k A' -> A = A'.
Proof.
  induction k as [|k IH]; intros A A' H1 H2.
  - inversion H1; inversion H2; subst. reflexivity.
  - inversion H1 as [|k1 B1 C1 G1 O1]; inversion H2 as [|k2 B2 C2 G2 O2]; subst.
    assert (E : B1 = B2) by (eapply IH; eassumption). subst. congruence.
Qed.

Lemma osteps_trans A0 j A : osteps A0 j A -> forall k A', osteps A k A' -> osteps A0 (j + k) A'.
Proof.
  intros H k A' H'. induction H' as [|k B B1 H' IH OB]; [rewrite Nat.add_0_r; exact H|].
  rewrite Nat.add_succ_r. eapply os_snoc; eassumption.
Qed.

Lemma osteps_le A0 k Ak : osteps A0 k Ak -> forall j Aj, osteps A0 j Aj -> (j <= k)%nat -> osteps Aj (k - j) Ak.
Proof.
  induction 1 as [|k A A1 H IH OB]; intros j Aj Hj Hle.
  - assert (j = 0)%nat by lia. subst j. inversion Hj; subst. constructor.
  - destruct (Nat.eq_dec j (S k)) as [->|Hne].
    + rewrite (osteps_det A0 (S k) Aj A1 Hj (os_snoc A0 k A A1 H OB)). rewrite Nat.sub_diag. constructor.
    + replace (S k - j)%nat with (S (k - j)) by lia. eapply os_snoc; [apply IH; [exact Hj|lia]|exact OB].
Qed.

Lemma osteps_oeval A0 k A : osteps A0 k A -> forall n R, oeval n A0 R -> (k < n)%nat /\ oeval (n - k) A R.
Proof.
  induction 1 as [|k A A1 H IH OB]; intros n R Hev.
  - pose proof (oeval_pos _ _ _ Hev). split; [lia|]. rewrite Nat.sub_0_r. exact Hev.
  - destruct (IH n R Hev) as [Hlt Hev']. inversion Hev' as [B R' OB' E1 E2|m B B' R' OB' Hev'' E1 E2 E3]; subst; [congruence|].
    rewrite OB in OB'. inversion OB'; subst B'. pose proof (oeval_pos _ _ _ Hev''). split; [lia|]. replace (n - S k)%nat with m by lia. exact Hev''.
Qed.

Lemma oeval_prepend A0 k A : osteps A0 k A -> forall m R, oeval m A R -> oeval (k + m) A0 R.
Proof.
  induction 1 as [|k A A1 H IH OB]; intros m R Hev; [exact Hev|].
  replace (S k + m)%nat with (k + S m)%nat by lia. apply IH. eapply oe_next; eassumption.
Qed.

(* a Break ends the chain *)
Lemma osteps_stop A0 k A r : osteps A0 k A -> obody A = Break r -> forall j Aj, osteps A0 j Aj -> (j <= k)%nat.
Proof.
  intros H OB j Aj Hj. destruct (Nat.le_gt_cases j k) as [|Hgt]; [assumption|exfalso].
  pose proof (osteps_le A0 j Aj Hj k A H ltac:(lia)) as H'.
  replace (j - k)%nat with (S (j - k - 1)) in H' by lia.
  clear -H' OB. remember (S (j - k - 1)) as m eqn:Em. revert Em. generalize (j - k - 1)%nat as i.
  induction H' as [|m B B1 H' IH OB']; intros i Em; [discriminate|].
  destruct m as [|m]; [inversion H'; subst; congruence|]. apply (IH m). reflexivity.
Qed.

(* ---------- the chain is the concrete loop of process_mode FinishMode ---------- *)
(* k iterations of the abstract loop from A0 = k iterations of the concrete loop body pm_body FinishMode from any
   concrete state that represents A0 (same decoder state, registers, window; a fully visible source with the same unread bytes) *)
Lemma osteps_concrete A0 k A : osteps A0 k A -> forall c W0, lw_abs c W0 A0 ->
  exists Wk, iter_step k (pm_body FinishMode) W0 = Next Wk /\ lw_abs c Wk A.
Proof.
  induction 1 as [|k A A1 H IH OB]; intros c W0 HW.
  - exists W0. split; [reflexivity|exact HW].
  - destruct (IH c W0 HW) as (Wk & E & HA).
    pose proof (pm_body_abs FinishMode c Wk A HA) as P. fold obody in P. rewrite OB in P. unfold step_rel in P.
    destruct (pm_body FinishMode Wk) as [W1|[r1 W1]] eqn:EB; [|contradiction].
    exists W1. split; [|exact P].
    replace (S k) with (k + 1)%nat by lia. rewrite iter_step_add, E. cbn [iter_step]. rewrite EB. reflexivity.
Qed.

(* ---------- along the chain ---------- *)
Lemma osteps_suffix A0 k A : AInv A0 -> ds_pib (x_ds A0) = [] -> osteps A0 k A -> suffix_of (x_in A) (x_in A0).
Proof.
  intros HI Hp H. induction H as [|k A A1 H IH OB]; [apply suffix_refl|].
  destruct (osteps_inv A0 k A HI Hp H) as [HI' Hp'].
  pose proof (arun_suffix true A) as S. rewrite (obody_next_arun A A1 Hp' OB) in S. cbn [snd] in S.
  eapply suffix_trans; eassumption.
Qed.

Lemma osteps_len_mono A0 k A : AInv A0 -> ds_pib (x_ds A0) = [] -> osteps A0 k A -> win_len (x_win A0) <= win_len (x_win A).
Proof.
  intros HI Hp H. induction H as [|k A A1 H IH OB]; [apply N.le_refl|].
  destruct (osteps_inv A0 k A HI Hp H) as [HI' Hp'].
  pose proof (arun_len_mono true A (AInv_len A HI')) as S. rewrite (obody_next_arun A A1 Hp' OB) in S. cbn [snd] in S. lia.
Qed.

Lemma osteps_snk_ext A0 k A : AInv A0 -> ds_pib (x_ds A0) = [] -> osteps A0 k A -> sext (win_snk (x_win A0)) (win_snk (x_win A)).
Proof.
  intros HI Hp H. induction H as [|k A A1 H IH OB]; [apply ext_refl|].
  destruct (osteps_inv A0 k A HI Hp H) as [HI' Hp'].
  pose proof (arun_snk_ext true A (AInv_len A HI')) as S. rewrite (obody_next_arun A A1 Hp' OB) in S. cbn [snd] in S.
  eapply ext_trans; eassumption.
Qed.

Lemma osteps_cinv pre A0 k A c0 h0 : AInv A0 -> ds_pib (x_ds A0) = [] -> osteps A0 k A ->
  x_win A0 = WCirc c0 -> CInv pre c0 h0 -> exists c t, x_win A = WCirc c /\ CInv pre c (h0 ++ t).
Proof.
  intros HI Hp H Ew HC. induction H as [|k A A1 H IH OB].
  - exists c0, []. rewrite app_nil_r. split; assumption.
  - destruct IH as (c & t & Ew' & HC'). destruct (osteps_inv A0 k A HI Hp H) as [HI' Hp'].
    destruct (arun_cinv pre true A Continue A1 c (h0 ++ t) (AInv_len A HI') Ew' HC' (obody_next_arun A A1 Hp' OB)) as (c' & t' & E1 & E2).
    exists c', (t ++ t'). rewrite app_assoc. split; assumption.
Qed.

(* ---------- to the end of the loop ---------- *)
Lemma oeval_snk_ext n A R : oeval n A R -> AInv A -> ds_pib (x_ds A) = [] -> sext (win_snk (x_win A)) (win_snk (x_win (snd R))).
Proof.
  induction 1 as [A R OB|n A A' R OB Hev IH]; intros HI Hp.
  - destruct (obody_res A Hp) as [E|E]; rewrite OB in E; destruct R as [r A1]; cbn [res_ast snd] in *; subst A1;
      [apply ext_refl|apply arun_snk_ext; apply AInv_len; exact HI].
  - destruct (obody_next_inv A A' HI Hp OB) as [HI' Hp'].
    pose proof (arun_snk_ext true A (AInv_len A HI)) as S. rewrite (obody_next_arun A A' Hp OB) in S. cbn [snd] in S.
    eapply ext_trans; [exact S|apply IH; assumption].
Qed.

Lemma oeval_len_mono n A R : oeval n A R -> AInv A -> ds_pib (x_ds A) = [] -> win_len (x_win A) <= win_len (x_win (snd R)).
Proof.
  induction 1 as [A R OB|n A A' R OB Hev IH]; intros HI Hp.
  - destruct (obody_res A Hp) as [E|E]; rewrite OB in E; destruct R as [r A1]; cbn [res_ast snd] in *; subst A1;
      [apply N.le_refl|apply arun_len_mono; apply AInv_len; exact HI].
  - destruct (obody_next_inv A A' HI Hp OB) as [HI' Hp'].
    pose proof (arun_len_mono true A (AInv_len A HI)) as S. rewrite (obody_next_arun A A' Hp OB) in S. cbn [snd] in S.
    specialize (IH HI' Hp'). lia.
Qed.

Lemma oeval_cinv pre n A R : oeval n A R -> AInv A -> ds_pib (x_ds A) = [] -> forall c h u, x_win A = WCirc c -> CInv pre c h ->
  fst R = Done u -> exists c' t, x_win (snd R) = WCirc c' /\ CInv pre c' (h ++ t).
Proof.
  induction 1 as [A R OB|n A A' R OB Hev IH]; intros HI Hp c h u Ew HC HR.
  - destruct R as [r A1]. cbn [fst snd] in *. subst r.
    destruct (obody_break_done A u A1 Hp OB) as [->|E].
    + exists c, []. rewrite app_nil_r. split; assumption.
    + apply (arun_cinv pre true A Finished A1 c h (AInv_len A HI) Ew HC E).
  - destruct (obody_next_inv A A' HI Hp OB) as [HI' Hp'].
    destruct (arun_cinv pre true A Continue A' c h (AInv_len A HI) Ew HC (obody_next_arun A A' Hp OB)) as (c1 & t1 & E1 & E2).
    destruct (IH HI' Hp' c1 (h ++ t1) u E1 E2 HR) as (c' & t & E3 & E4).
    exists c', (t1 ++ t). rewrite app_assoc. split; assumption.
Qed.

(* ====================================================================== *)
(* circ_finish on a window that represents a history                        *)
(* ====================================================================== *)
Lemma circ_finish_done_bytes pre b h u k : CInv pre b h -> circ_finish b = (Done u, k) -> snk_bytes k = pre ++ h.
Proof.
  intros HI E. destruct (k_ffail (c_snk b)) eqn:Hff.
  - exfalso. pose proof HI as (Hd & Hlen & Hc & Hbl & Hmem & Hfirst & Hwin & Hfin & Hwf).
    unfold circ_finish, snk_run, run_io in E. rewrite interp_bind in E.
    destruct (N.ltb_spec 0 (c_cursor b)) as [Hpos|Hz].
    + unfold write_all in E.
      destruct (write_all_loop_ok (length (map_slice (c_buf b) 0 (c_cursor b))) _
                  (mkIo (cursor_of []) (c_snk b)) (le_n _) Hwf) as (k' & E' & Hb & Hw' & Hff' & _).
      rewrite E' in E. rewrite interp_call in E. cbn [io_h i_snk i_src] in E. unfold snk_flush in E.
      cbn [i_snk] in Hff'. rewrite Hff', Hff in E. discriminate E.
    + cbn [interp] in E. rewrite interp_call in E. cbn [io_h i_snk i_src] in E. unfold snk_flush in E.
      rewrite Hff in E. discriminate E.
  - destruct (circ_finish_spec pre b h HI Hff) as (k' & E' & Hb & _). rewrite E in E'. inversion E'; subst. exact Hb.
Qed.
Print Assumptions osteps_concrete.
Print Assumptions oeval_cinv.
Print Assumptions oeval_snk_ext.
