(* C08, header clause: LzmaParams::read_header consumes 13 / 13 / 5 bytes depending on the
   UnpackedSize option and selects the size in effect; the size rules of process_mode
   (Proofs/SizeRules.v) lifted to lzma_decompress. *)
From LZ Require Import Base.Prelude Base.Prog Model.Io Model.Tables Model.LzBuffer Model.RangeDec Model.Lzma
  Proofs.ProgLemmas Proofs.IoLemmas Proofs.SizeRules Proofs.Lzma2Inv.
From Coq Require Import ZifyBool ZifyNat ZifyN.
Local Open Scope prog_scope.
Ltac Zify.zify_post_hook ::= Z.div_mod_to_equations.

(* ---------- what the header denotes ---------- *)
Definition U64MAX : N := 18446744073709551615.
Lemma U64MAX_eq : U64MAX = 2 ^ 64 - 1.
Proof. vm_compute. reflexivity. Qed.

(* lc = pbyte mod 9, lp = (pbyte / 9) mod 5, pb = pbyte / 45 *)
Definition hdr_props (pbyte : N) : props := mkProps (pbyte mod 9) ((pbyte / 9) mod 5) (pbyte / 45).

(* the size in effect, given the option and the value of the 8-byte header field (if it is read) *)
Definition size_in_effect (u : unpacked_size_opt) (field : N) : option N :=
  match u with
  | ReadFromHeader => if field =? U64MAX then None else Some field
  | ReadHeaderButUseProvided x => x
  | UseProvided x => x
  end.

(* number of bytes of the size field that are consumed *)
Definition size_field_len (u : unpacked_size_opt) : N :=
  match u with UseProvided _ => 0 | _ => 8 end.
Definition header_len (u : unpacked_size_opt) : N := 5 + size_field_len u.

Lemma header_len_cases u : header_len u = match u with UseProvided _ => 5 | _ => 13 end.
Proof. destruct u; reflexivity. Qed.

Theorem props_split_valid pbyte : pbyte < 225 ->
  pbyte mod 9 <= 8 /\ (pbyte / 9) mod 5 <= 4 /\ pbyte / 45 <= 4.
Proof. intros H. lia. Qed.

Lemma pb_div_div pbyte : pbyte / 9 / 5 = pbyte / 45.
Proof. rewrite N.div_div by discriminate. reflexivity. Qed.

Theorem hdr_props_valid pbyte : pbyte < 225 -> props_valid (hdr_props pbyte) = true.
Proof.
  intros H. destruct (props_split_valid pbyte H) as (H1 & H2 & H3).
  unfold props_valid, hdr_props. cbn [lc lp pb].
  apply N.leb_le in H1, H2, H3. rewrite H1, H2, H3. reflexivity.
Qed.

(* and conversely the byte is recovered from the three fields *)
Lemma hdr_props_inj pbyte : pbyte = (pb (hdr_props pbyte) * 5 + lp (hdr_props pbyte)) * 9 + lc (hdr_props pbyte).
Proof. unfold hdr_props. cbn [lc lp pb]. lia. Qed.

(* ---------- read_header as a composition of three reads ---------- *)
Definition read_size (u : unpacked_size_opt) : iop (option N) :=
  match u with
  | ReadFromHeader =>
      v <- read_u64_le ;;
      Ret (if v =? 18446744073709551615 then None else Some v)
  | ReadHeaderButUseProvided x => read_u64_le ;;; Ret x
  | UseProvided x => Ret x
  end.

Lemma read_header_eq o :
  read_header o =
  (pbyte <- read_u8 ;;
   if 225 <=? pbyte then Fail ELzma else
   dp <- read_u32_le ;;
   us <- read_size (o_unpacked o) ;;
   Ret (mkParams (mkProps (pbyte mod 9) ((pbyte / 9) mod 5) (pbyte / 9 / 5)) (if dp <? 4096 then 4096 else dp) us)).
Proof. reflexivity. Qed.

Lemma hdr_params_eq pbyte dp us :
  mkParams (mkProps (pbyte mod 9) ((pbyte / 9) mod 5) (pbyte / 9 / 5)) (if dp <? 4096 then 4096 else dp) us =
  mkParams (hdr_props pbyte) (N.max 4096 dp) us.
Proof.
  unfold hdr_props. rewrite pb_div_div. f_equal.
  destruct (N.ltb_spec dp 4096); lia.
Qed.

Lemma io_runs_fail {A} e s : io_runs (@Fail ioE A e) s (Failed e) s.
Proof. intros k. reflexivity. Qed.

Lemma io_read_u32_le_spec s bs t : FaultFree s -> s_rest s = bs ++ t -> nlen bs = 4 ->
  exists s', io_runs read_u32_le s (Done (le_num bs)) s' /\ s_rest s' = t /\ s_pos s' = s_pos s + 4 /\ FaultFree s'.
Proof.
  intros Hs Hr Hn. destruct (io_read_exact_spec s bs t 4 Hs Hr Hn) as (s' & Hrun & H').
  exists s'. split; [|exact H']. unfold read_u32_le. eapply io_runs_bind; [exact Hrun|apply io_runs_ret].
Qed.

Lemma io_read_u64_le_spec s bs t : FaultFree s -> s_rest s = bs ++ t -> nlen bs = 8 ->
  exists s', io_runs read_u64_le s (Done (le_num bs)) s' /\ s_rest s' = t /\ s_pos s' = s_pos s + 8 /\ FaultFree s'.
Proof.
  intros Hs Hr Hn. destruct (io_read_exact_spec s bs t 8 Hs Hr Hn) as (s' & Hrun & H').
  exists s'. split; [|exact H']. unfold read_u64_le. eapply io_runs_bind; [exact Hrun|apply io_runs_ret].
Qed.

Lemma io_read_u32_le_eof s : FaultFree s -> nlen (s_rest s) < 4 ->
  exists s', io_runs read_u32_le s (Failed EIo) s' /\ FaultFree s' /\ s_rest s' = [] /\ s_pos s' = s_pos s + nlen (s_rest s).
Proof.
  intros Hs Hn. destruct (io_read_exact_eof s 4 Hs Hn) as (s' & Hrun & H').
  exists s'. split; [|exact H']. unfold read_u32_le. apply io_runs_bind_fail. exact Hrun.
Qed.

Lemma io_read_u64_le_eof s : FaultFree s -> nlen (s_rest s) < 8 ->
  exists s', io_runs read_u64_le s (Failed EIo) s' /\ FaultFree s' /\ s_rest s' = [] /\ s_pos s' = s_pos s + nlen (s_rest s).
Proof.
  intros Hs Hn. destruct (io_read_exact_eof s 8 Hs Hn) as (s' & Hrun & H').
  exists s'. split; [|exact H']. unfold read_u64_le. apply io_runs_bind_fail. exact Hrun.
Qed.

(* the third read: 8 bytes or none, and the size it selects *)
Lemma io_read_size_spec u s ub t : FaultFree s -> s_rest s = ub ++ t -> nlen ub = size_field_len u ->
  exists s', io_runs (read_size u) s (Done (size_in_effect u (le_num ub))) s' /\
    s_rest s' = t /\ s_pos s' = s_pos s + size_field_len u /\ FaultFree s'.
Proof.
  intros Hs Hr Hn. destruct u as [|x|x]; cbn [size_field_len read_size size_in_effect] in *.
  - destruct (io_read_u64_le_spec s ub t Hs Hr Hn) as (s' & Hrun & H').
    exists s'. split; [|exact H']. eapply io_runs_bind; [exact Hrun|]. apply io_runs_ret.
  - destruct (io_read_u64_le_spec s ub t Hs Hr Hn) as (s' & Hrun & H').
    exists s'. split; [|exact H']. eapply io_runs_bind; [exact Hrun|]. apply io_runs_ret.
  - apply nlen_zero in Hn. subst ub. cbn [app] in Hr.
    exists s. split; [apply io_runs_ret|]. split; [exact Hr|]. split; [lia|exact Hs].
Qed.

Lemma io_read_size_eof u s : FaultFree s -> nlen (s_rest s) < size_field_len u ->
  exists s', io_runs (read_size u) s (Failed EIo) s' /\ FaultFree s' /\ s_rest s' = [] /\ s_pos s' = s_pos s + nlen (s_rest s).
Proof.
  intros Hs Hn. destruct u as [|x|x]; cbn [size_field_len read_size] in *.
  - destruct (io_read_u64_le_eof s Hs Hn) as (s' & Hrun & H').
    exists s'. split; [|exact H']. apply io_runs_bind_fail. exact Hrun.
  - destruct (io_read_u64_le_eof s Hs Hn) as (s' & Hrun & H').
    exists s'. split; [|exact H']. apply io_runs_bind_fail. exact Hrun.
  - lia.
Qed.

(* ---------- the header is well formed: 5 + (8 | 0) bytes are consumed ---------- *)
Lemma io_read_header_ok o s pbyte db ub t :
  FaultFree s -> s_rest s = pbyte :: db ++ ub ++ t -> nlen db = 4 -> nlen ub = size_field_len (o_unpacked o) ->
  pbyte < 225 ->
  exists s', io_runs (read_header o) s
               (Done (mkParams (hdr_props pbyte) (N.max 4096 (le_num db)) (size_in_effect (o_unpacked o) (le_num ub)))) s' /\
    s_rest s' = t /\ s_pos s' = s_pos s + header_len (o_unpacked o) /\ FaultFree s'.
Proof.
  intros Hs Hr Hdb Hub Hp.
  destruct (io_read_u8_spec s pbyte _ Hs Hr) as (s1 & Hrun1 & Hr1 & Hp1 & Hs1).
  destruct (io_read_u32_le_spec s1 db _ Hs1 Hr1 Hdb) as (s2 & Hrun2 & Hr2 & Hp2 & Hs2).
  destruct (io_read_size_spec (o_unpacked o) s2 ub t Hs2 Hr2 Hub) as (s3 & Hrun3 & Hr3 & Hp3 & Hs3).
  exists s3. split; [|split; [exact Hr3|split; [unfold header_len; lia|exact Hs3]]].
  rewrite read_header_eq. eapply io_runs_bind; [exact Hrun1|]. cbv beta.
  destruct (N.leb_spec 225 pbyte) as [Hge|_]; [lia|].
  eapply io_runs_bind; [exact Hrun2|]. cbv beta.
  eapply io_runs_bind; [exact Hrun3|]. cbv beta.
  rewrite hdr_params_eq. apply io_runs_ret.
Qed.

Lemma src_run_mapped_done {A} e' (p : iop A) s a s' : FaultFree s ->
  io_runs p s (Done a) s' -> src_run (map_io_err e' p) s = (Done a, s').
Proof.
  intros Hs H. rewrite src_run_map_io_err by (apply FaultFree_L; exact Hs).
  rewrite (io_runs_src_run _ _ _ _ H). reflexivity.
Qed.

Lemma src_run_mapped_eio {A} e' (p : iop A) s s' : FaultFree s ->
  io_runs p s (Failed EIo) s' -> src_run (map_io_err e' p) s = (Failed e', s').
Proof.
  intros Hs H. rewrite src_run_map_io_err by (apply FaultFree_L; exact Hs).
  rewrite (io_runs_src_run _ _ _ _ H). reflexivity.
Qed.

Lemma src_run_mapped_elzma {A} e' (p : iop A) s s' : FaultFree s ->
  io_runs p s (Failed ELzma) s' -> src_run (map_io_err e' p) s = (Failed ELzma, s').
Proof.
  intros Hs H. rewrite src_run_map_io_err by (apply FaultFree_L; exact Hs).
  rewrite (io_runs_src_run _ _ _ _ H). reflexivity.
Qed.

(* the general form: any option, the size field given as a list of the right length *)
Theorem read_header_ok o s pbyte db ub t :
  FaultFree s -> s_rest s = pbyte :: db ++ ub ++ t -> nlen db = 4 -> nlen ub = size_field_len (o_unpacked o) ->
  pbyte < 225 ->
  exists s', src_run (map_io_err EHeaderTooShort (read_header o)) s =
               (Done (mkParams (hdr_props pbyte) (N.max 4096 (le_num db)) (size_in_effect (o_unpacked o) (le_num ub))), s') /\
    s_rest s' = t /\ s_pos s' = s_pos s + header_len (o_unpacked o) /\ FaultFree s'.
Proof.
  intros Hs Hr Hdb Hub Hp.
  destruct (io_read_header_ok o s pbyte db ub t Hs Hr Hdb Hub Hp) as (s' & Hrun & H').
  exists s'. split; [|exact H']. apply src_run_mapped_done; assumption.
Qed.

(* ReadFromHeader: 13 bytes, the size is the header field (all ones = no size) *)
Theorem read_header_rfh mem ai s pbyte d0 d1 d2 d3 u0 u1 u2 u3 u4 u5 u6 u7 t :
  FaultFree s ->
  s_rest s = pbyte :: d0 :: d1 :: d2 :: d3 :: u0 :: u1 :: u2 :: u3 :: u4 :: u5 :: u6 :: u7 :: t ->
  pbyte < 225 ->
  exists s', src_run (map_io_err EHeaderTooShort (read_header (mkOptions ReadFromHeader mem ai))) s =
               (Done (mkParams (mkProps (pbyte mod 9) ((pbyte / 9) mod 5) (pbyte / 45))
                               (N.max 4096 (le_num [d0; d1; d2; d3]))
                               (if le_num [u0; u1; u2; u3; u4; u5; u6; u7] =? 2 ^ 64 - 1 then None
                                else Some (le_num [u0; u1; u2; u3; u4; u5; u6; u7]))), s') /\
    s_rest s' = t /\ s_pos s' = s_pos s + 13 /\ FaultFree s'.
Proof.
  intros Hs Hr Hp.
  exact (read_header_ok (mkOptions ReadFromHeader mem ai) s pbyte [d0; d1; d2; d3] [u0; u1; u2; u3; u4; u5; u6; u7] t
           Hs Hr eq_refl eq_refl Hp).
Qed.

(* ReadHeaderButUseProvided x: the same 13 bytes, but the size is x whatever the field contains *)
Theorem read_header_rhp x mem ai s pbyte d0 d1 d2 d3 u0 u1 u2 u3 u4 u5 u6 u7 t :
  FaultFree s ->
  s_rest s = pbyte :: d0 :: d1 :: d2 :: d3 :: u0 :: u1 :: u2 :: u3 :: u4 :: u5 :: u6 :: u7 :: t ->
  pbyte < 225 ->
  exists s', src_run (map_io_err EHeaderTooShort (read_header (mkOptions (ReadHeaderButUseProvided x) mem ai))) s =
               (Done (mkParams (mkProps (pbyte mod 9) ((pbyte / 9) mod 5) (pbyte / 45))
                               (N.max 4096 (le_num [d0; d1; d2; d3])) x), s') /\
    s_rest s' = t /\ s_pos s' = s_pos s + 13 /\ FaultFree s'.
Proof.
  intros Hs Hr Hp.
  exact (read_header_ok (mkOptions (ReadHeaderButUseProvided x) mem ai) s pbyte [d0; d1; d2; d3] [u0; u1; u2; u3; u4; u5; u6; u7] t
           Hs Hr eq_refl eq_refl Hp).
Qed.

(* UseProvided x: only 5 bytes, the size is x *)
Theorem read_header_up x mem ai s pbyte d0 d1 d2 d3 t :
  FaultFree s ->
  s_rest s = pbyte :: d0 :: d1 :: d2 :: d3 :: t ->
  pbyte < 225 ->
  exists s', src_run (map_io_err EHeaderTooShort (read_header (mkOptions (UseProvided x) mem ai))) s =
               (Done (mkParams (mkProps (pbyte mod 9) ((pbyte / 9) mod 5) (pbyte / 45))
                               (N.max 4096 (le_num [d0; d1; d2; d3])) x), s') /\
    s_rest s' = t /\ s_pos s' = s_pos s + 5 /\ FaultFree s'.
Proof.
  intros Hs Hr Hp.
  exact (read_header_ok (mkOptions (UseProvided x) mem ai) s pbyte [d0; d1; d2; d3] [] t
           Hs Hr eq_refl eq_refl Hp).
Qed.

(* ---------- malformed headers ---------- *)
(* properties byte out of range: one byte is consumed, the error is Error::LzmaError *)
Theorem read_header_bad_props o s pbyte t :
  FaultFree s -> s_rest s = pbyte :: t -> 225 <= pbyte ->
  exists s', src_run (map_io_err EHeaderTooShort (read_header o)) s = (Failed ELzma, s') /\
    s_rest s' = t /\ s_pos s' = s_pos s + 1 /\ FaultFree s'.
Proof.
  intros Hs Hr Hp.
  destruct (io_read_u8_spec s pbyte _ Hs Hr) as (s1 & Hrun1 & H').
  exists s1. split; [|exact H']. apply src_run_mapped_elzma; [exact Hs|].
  rewrite read_header_eq. eapply io_runs_bind; [exact Hrun1|]. cbv beta.
  destruct (N.leb_spec 225 pbyte) as [_|Hlt]; [|lia]. apply io_runs_fail.
Qed.

(* end of input inside the properties byte, the dictionary size or the size field *)
Theorem read_header_short_props o s :
  FaultFree s -> s_rest s = [] ->
  exists s', src_run (map_io_err EHeaderTooShort (read_header o)) s = (Failed EHeaderTooShort, s') /\
    s_rest s' = [] /\ s_pos s' = s_pos s /\ FaultFree s'.
Proof.
  intros Hs Hr.
  destruct (io_read_u8_eof s Hs Hr) as (s1 & Hrun1 & H').
  exists s1. split; [|exact H']. apply src_run_mapped_eio; [exact Hs|].
  rewrite read_header_eq. apply io_runs_bind_fail. exact Hrun1.
Qed.

Theorem read_header_short_dict o s pbyte t :
  FaultFree s -> s_rest s = pbyte :: t -> pbyte < 225 -> nlen t < 4 ->
  exists s', src_run (map_io_err EHeaderTooShort (read_header o)) s = (Failed EHeaderTooShort, s') /\
    s_rest s' = [] /\ s_pos s' = s_pos s + nlen (s_rest s) /\ FaultFree s'.
Proof.
  intros Hs Hr Hp Hn.
  destruct (io_read_u8_spec s pbyte _ Hs Hr) as (s1 & Hrun1 & Hr1 & Hp1 & Hs1).
  destruct (io_read_u32_le_eof s1 Hs1) as (s2 & Hrun2 & Hs2 & Hr2 & Hp2); [rewrite Hr1; exact Hn|].
  exists s2. split; [|split; [exact Hr2|split; [rewrite Hp2, Hp1, Hr1, Hr, nlen_cons; lia|exact Hs2]]].
  apply src_run_mapped_eio; [exact Hs|].
  rewrite read_header_eq. eapply io_runs_bind; [exact Hrun1|]. cbv beta.
  destruct (N.leb_spec 225 pbyte) as [Hge|_]; [lia|].
  apply io_runs_bind_fail. exact Hrun2.
Qed.

Theorem read_header_short_size o s pbyte db t :
  FaultFree s -> s_rest s = pbyte :: db ++ t -> nlen db = 4 -> pbyte < 225 ->
  nlen t < size_field_len (o_unpacked o) ->
  exists s', src_run (map_io_err EHeaderTooShort (read_header o)) s = (Failed EHeaderTooShort, s') /\
    s_rest s' = [] /\ s_pos s' = s_pos s + nlen (s_rest s) /\ FaultFree s'.
Proof.
  intros Hs Hr Hdb Hp Hn.
  destruct (io_read_u8_spec s pbyte _ Hs Hr) as (s1 & Hrun1 & Hr1 & Hp1 & Hs1).
  destruct (io_read_u32_le_spec s1 db _ Hs1 Hr1 Hdb) as (s2 & Hrun2 & Hr2 & Hp2 & Hs2).
  destruct (io_read_size_eof (o_unpacked o) s2 Hs2) as (s3 & Hrun3 & Hs3 & Hr3 & Hp3); [rewrite Hr2; exact Hn|].
  exists s3. split; [|split; [exact Hr3|split; [rewrite Hp3, Hp2, Hp1, Hr2, Hr, nlen_cons, nlen_app; lia|exact Hs3]]].
  apply src_run_mapped_eio; [exact Hs|].
  rewrite read_header_eq. eapply io_runs_bind; [exact Hrun1|]. cbv beta.
  destruct (N.leb_spec 225 pbyte) as [Hge|_]; [lia|].
  eapply io_runs_bind; [exact Hrun2|]. cbv beta.
  apply io_runs_bind_fail. exact Hrun3.
Qed.

(* all three at once: fewer bytes than the option requires (and no bad properties byte, which is
   reported first) gives Error::HeaderTooShort with the whole input consumed *)
Theorem read_header_short o s :
  FaultFree s -> nlen (s_rest s) < header_len (o_unpacked o) ->
  (forall b t, s_rest s = b :: t -> b < 225) ->
  exists s', src_run (map_io_err EHeaderTooShort (read_header o)) s = (Failed EHeaderTooShort, s') /\
    s_rest s' = [] /\ s_pos s' = s_pos s + nlen (s_rest s) /\ FaultFree s'.
Proof.
  intros Hs Hn Hb.
  destruct (s_rest s) as [|pbyte t] eqn:Hr.
  - destruct (read_header_short_props o s Hs Hr) as (s' & H1 & H2 & H3 & H4).
    exists s'. rewrite nlen_nil. split; [exact H1|split; [exact H2|split; [lia|exact H4]]].
  - specialize (Hb pbyte t eq_refl). rewrite <- Hr.
    destruct (N.ltb_spec (nlen t) 4) as [H4|H4].
    + exact (read_header_short_dict o s pbyte t Hs Hr Hb H4).
    + assert (Ht : t = nfirstn 4 t ++ nskipn 4 t) by (symmetry; apply nfirstn_nskipn).
      assert (Hdb : nlen (nfirstn 4 t) = 4) by (rewrite nlen_nfirstn; lia).
      rewrite Ht in Hr.
      apply (read_header_short_size o s pbyte (nfirstn 4 t) (nskipn 4 t) Hs Hr Hdb Hb).
      rewrite nlen_nskipn. rewrite nlen_cons in Hn. unfold header_len in Hn. lia.
Qed.

Print Assumptions props_split_valid.
Print Assumptions hdr_props_valid.
Print Assumptions read_header_ok.
Print Assumptions read_header_rfh.
Print Assumptions read_header_rhp.
Print Assumptions read_header_up.
Print Assumptions read_header_bad_props.
Print Assumptions read_header_short.

(* ====================================================================== *)
(* ---------- the size rules, end to end through lzma_decompress ---------- *)

(* LzmaDecoder::new keeps the parameters; the decoder state starts with the size selected by the header *)
Lemma lzma_decoder_new_inv p m dec : lzma_decoder_new p m = Done dec ->
  ld_params dec = p /\ ds_unpacked (ld_state dec) = pr_unpacked p /\ ds_props (ld_state dec) = pr_props p /\
  ds_rep (ld_state dec) = mkReps 0 0 0 0 /\ ds_pib (ld_state dec) = [] /\
  props_valid (pr_props p) = true /\ pr_dict p <> 0.
Proof.
  unfold lzma_decoder_new, dstate_new.
  destruct (N.eqb_spec (pr_dict p) 0) as [|Hd]; [discriminate|].
  destruct (props_valid (pr_props p)) eqn:Hv; cbn [negb]; [|discriminate].
  intros H. inversion H; subst. cbn [ld_params ld_state ds_unpacked ds_props ds_rep ds_pib].
  repeat split. exact Hd.
Qed.

(* a header that read_header accepts always yields a decoder *)
Lemma lzma_decoder_new_hdr pbyte dp us m : pbyte < 225 ->
  exists dec, lzma_decoder_new (mkParams (hdr_props pbyte) (N.max 4096 dp) us) m = Done dec /\
    ds_unpacked (ld_state dec) = us.
Proof.
  intros Hp. unfold lzma_decoder_new, dstate_new. cbn [pr_dict pr_props pr_unpacked].
  destruct (N.eqb_spec (N.max 4096 dp) 0) as [E|_]; [lia|].
  rewrite (hdr_props_valid pbyte Hp). cbn [negb].
  eexists. split; [reflexivity|]. reflexivity.
Qed.

(* the stages of a successful lzma_decompress: header, LzmaDecoder::new, RangeDecoder::new,
   process_mode(Finish) on a fresh circular window over the caller's sink, LzCircularBuffer::finish.
   [c] is the final circular buffer: [c_len c] is the number of bytes that went through the window. *)
Lemma lzma_decompress_success_inv fuel o w w' :
  lzma_decompress fuel o w = (Done tt, w') ->
  exists p s dec r s2 x c,
    src_run (map_io_err EHeaderTooShort (read_header o)) (i_src w) = (Done p, s) /\
    lzma_decoder_new p (o_memlimit o) = Done dec /\
    src_run (map_io_err ELzma rc_new) s = (Done r, s2) /\
    process_mode FinishMode fuel
      (mkLw (ld_state dec) r s2 (WCirc (circ_new (i_snk w) (pr_dict p) (ld_memlimit dec)))) = (Done tt, x) /\
    l_win x = WCirc c /\
    circ_finish c = (Done tt, i_snk w') /\
    i_src w' = l_src x.
Proof.
  unfold lzma_decompress.
  destruct (src_run (map_io_err EHeaderTooShort (read_header o)) (i_src w)) as [[p|e|q] s] eqn:Eh; try discriminate.
  destruct (lzma_decoder_new p (o_memlimit o)) as [dec|e|q] eqn:En; try discriminate.
  destruct (lzma_decoder_new_inv _ _ _ En) as (Hpar & _).
  unfold lzma_decoder_decompress. cbv zeta. cbn [i_src i_snk]. rewrite Hpar.
  destruct (src_run (map_io_err ELzma rc_new) s) as [[r|e|q] s2] eqn:Er; try discriminate.
  destruct (process_mode FinishMode fuel _) as [[u|e|q] x] eqn:Epm; try discriminate.
  destruct (l_win x) as [c|a] eqn:Ew; [|discriminate].
  destruct (circ_finish c) as [[u2|e|q] k] eqn:Ef; try discriminate.
  intros H. inversion H; subst w'. destruct u, u2.
  exists p, s, dec, r, s2, x, c. cbn [i_src i_snk]. repeat split; try assumption; reflexivity.
Qed.

(* C08 (b), end to end, keyed on what read_header returned: with a size in effect, success means
   that exactly that many bytes went through the (circular) window *)
Theorem lzma_decompress_sized_exact_gen fuel o w w' p s n :
  src_run (map_io_err EHeaderTooShort (read_header o)) (i_src w) = (Done p, s) ->
  pr_unpacked p = Some n ->
  lzma_decompress fuel o w = (Done tt, w') ->
  exists dec r s2 x c,
    lzma_decoder_new p (o_memlimit o) = Done dec /\
    src_run (map_io_err ELzma rc_new) s = (Done r, s2) /\
    process_mode FinishMode fuel
      (mkLw (ld_state dec) r s2 (WCirc (circ_new (i_snk w) (pr_dict p) (ld_memlimit dec)))) = (Done tt, x) /\
    l_win x = WCirc c /\ c_len c = n /\
    circ_finish c = (Done tt, i_snk w') /\ i_src w' = l_src x.
Proof.
  intros Eh Hn H.
  destruct (lzma_decompress_success_inv fuel o w w' H) as (p' & s' & dec & r & s2 & x & c & Eh' & En & Er & Epm & Ew & Ef & Es).
  rewrite Eh in Eh'. inversion Eh'; subst p' s'.
  exists dec, r, s2, x, c. repeat split; try assumption.
  destruct (lzma_decoder_new_inv _ _ _ En) as (_ & Hus & _).
  assert (Hl : win_len (l_win x) = n).
  { eapply sized_success_is_exact; [|exact Epm]. cbn [l_ds]. congruence. }
  rewrite Ew in Hl. exact Hl.
Qed.

(* C08 (c), end to end: with no size in effect, success means that the end marker was decoded
   (rep0 = 0xFFFFFFFF) and that the range coder ended with code = 0 *)
Theorem lzma_decompress_unsized_marker_gen fuel o w w' p s :
  src_run (map_io_err EHeaderTooShort (read_header o)) (i_src w) = (Done p, s) ->
  pr_unpacked p = None ->
  lzma_decompress fuel o w = (Done tt, w') ->
  exists dec r s2 x c,
    lzma_decoder_new p (o_memlimit o) = Done dec /\
    src_run (map_io_err ELzma rc_new) s = (Done r, s2) /\
    process_mode FinishMode fuel
      (mkLw (ld_state dec) r s2 (WCirc (circ_new (i_snk w) (pr_dict p) (ld_memlimit dec)))) = (Done tt, x) /\
    rep0 (ds_rep (l_ds x)) = MARK /\ r_code (l_rc x) = 0 /\
    l_win x = WCirc c /\ circ_finish c = (Done tt, i_snk w') /\ i_src w' = l_src x.
Proof.
  intros Eh Hn H.
  destruct (lzma_decompress_success_inv fuel o w w' H) as (p' & s' & dec & r & s2 & x & c & Eh' & En & Er & Epm & Ew & Ef & Es).
  rewrite Eh in Eh'. inversion Eh'; subst p' s'.
  destruct (lzma_decoder_new_inv _ _ _ En) as (_ & Hus & _).
  assert (Hmc : rep0 (ds_rep (l_ds x)) = MARK /\ r_code (l_rc x) = 0).
  { eapply unsized_success_needs_marker; [|exact Epm]. cbn [l_ds]. congruence. }
  destruct Hmc as (Hm & Hc).
  exists dec, r, s2, x, c. repeat split; assumption.
Qed.

(* The same two rules stated on the bytes of a fault-free source of any fragmentation: the header is
   [pbyte :: db ++ ub ++ t] where [ub] is the 8-byte size field (ReadFromHeader, ReadHeaderButUseProvided)
   or empty (UseProvided); the size in effect is [size_in_effect] of the option and the field.
   Success itself implies that the properties byte was in range. *)
Lemma lzma_decompress_header_done fuel o w w' pbyte db ub t :
  FaultFree (i_src w) -> s_rest (i_src w) = pbyte :: db ++ ub ++ t ->
  nlen db = 4 -> nlen ub = size_field_len (o_unpacked o) ->
  lzma_decompress fuel o w = (Done tt, w') ->
  pbyte < 225 /\
  exists s, src_run (map_io_err EHeaderTooShort (read_header o)) (i_src w) =
              (Done (mkParams (hdr_props pbyte) (N.max 4096 (le_num db)) (size_in_effect (o_unpacked o) (le_num ub))), s) /\
    s_rest s = t /\ s_pos s = s_pos (i_src w) + header_len (o_unpacked o) /\ FaultFree s.
Proof.
  intros Hs Hr Hdb Hub H.
  destruct (N.ltb_spec pbyte 225) as [Hp|Hp].
  - split; [exact Hp|]. exact (read_header_ok o (i_src w) pbyte db ub t Hs Hr Hdb Hub Hp).
  - exfalso. destruct (read_header_bad_props o (i_src w) pbyte _ Hs Hr Hp) as (s1 & E & _).
    unfold lzma_decompress in H. rewrite E in H. discriminate.
Qed.

Theorem lzma_decompress_sized_exact fuel o w w' pbyte db ub t n :
  FaultFree (i_src w) -> s_rest (i_src w) = pbyte :: db ++ ub ++ t ->
  nlen db = 4 -> nlen ub = size_field_len (o_unpacked o) ->
  size_in_effect (o_unpacked o) (le_num ub) = Some n ->
  lzma_decompress fuel o w = (Done tt, w') ->
  pbyte < 225 /\
  exists s dec r s2 x c,
    s_rest s = t /\ s_pos s = s_pos (i_src w) + header_len (o_unpacked o) /\
    lzma_decoder_new (mkParams (hdr_props pbyte) (N.max 4096 (le_num db)) (Some n)) (o_memlimit o) = Done dec /\
    src_run (map_io_err ELzma rc_new) s = (Done r, s2) /\
    process_mode FinishMode fuel
      (mkLw (ld_state dec) r s2 (WCirc (circ_new (i_snk w) (N.max 4096 (le_num db)) (ld_memlimit dec)))) = (Done tt, x) /\
    l_win x = WCirc c /\ c_len c = n /\
    circ_finish c = (Done tt, i_snk w') /\ i_src w' = l_src x.
Proof.
  intros Hs Hr Hdb Hub Hn H.
  destruct (lzma_decompress_header_done fuel o w w' pbyte db ub t Hs Hr Hdb Hub H) as (Hp & s & Eh & Hr' & Hp' & Hs').
  split; [exact Hp|]. rewrite Hn in Eh.
  destruct (lzma_decompress_sized_exact_gen fuel o w w' _ s n Eh eq_refl H) as (dec & r & s2 & x & c & En & Er & Epm & Ew & Hl & Ef & Es).
  exists s, dec, r, s2, x, c. cbn [pr_dict] in Epm. repeat split; assumption.
Qed.

Theorem lzma_decompress_unsized_marker fuel o w w' pbyte db ub t :
  FaultFree (i_src w) -> s_rest (i_src w) = pbyte :: db ++ ub ++ t ->
  nlen db = 4 -> nlen ub = size_field_len (o_unpacked o) ->
  size_in_effect (o_unpacked o) (le_num ub) = None ->
  lzma_decompress fuel o w = (Done tt, w') ->
  pbyte < 225 /\
  exists s dec r s2 x c,
    s_rest s = t /\ s_pos s = s_pos (i_src w) + header_len (o_unpacked o) /\
    lzma_decoder_new (mkParams (hdr_props pbyte) (N.max 4096 (le_num db)) None) (o_memlimit o) = Done dec /\
    src_run (map_io_err ELzma rc_new) s = (Done r, s2) /\
    process_mode FinishMode fuel
      (mkLw (ld_state dec) r s2 (WCirc (circ_new (i_snk w) (N.max 4096 (le_num db)) (ld_memlimit dec)))) = (Done tt, x) /\
    rep0 (ds_rep (l_ds x)) = MARK /\ r_code (l_rc x) = 0 /\
    l_win x = WCirc c /\ circ_finish c = (Done tt, i_snk w') /\ i_src w' = l_src x.
Proof.
  intros Hs Hr Hdb Hub Hn H.
  destruct (lzma_decompress_header_done fuel o w w' pbyte db ub t Hs Hr Hdb Hub H) as (Hp & s & Eh & Hr' & Hp' & Hs').
  split; [exact Hp|]. rewrite Hn in Eh.
  destruct (lzma_decompress_unsized_marker_gen fuel o w w' _ s Eh eq_refl H) as (dec & r & s2 & x & c & En & Er & Epm & Hm & Hc & Ew & Ef & Es).
  exists s, dec, r, s2, x, c. cbn [pr_dict] in Epm. repeat split; assumption.
Qed.

(* which option gives which size: the caller's value always overrides the header field *)
Lemma size_in_effect_rfh v : size_in_effect ReadFromHeader v = if v =? 2 ^ 64 - 1 then None else Some v.
Proof. reflexivity. Qed.
Lemma size_in_effect_rhp x v : size_in_effect (ReadHeaderButUseProvided x) v = x.
Proof. reflexivity. Qed.
Lemma size_in_effect_up x v : size_in_effect (UseProvided x) v = x.
Proof. reflexivity. Qed.

(* malformed headers, end to end: nothing reaches the sink *)
Theorem lzma_decompress_bad_props fuel o w pbyte t :
  FaultFree (i_src w) -> s_rest (i_src w) = pbyte :: t -> 225 <= pbyte ->
  exists s', lzma_decompress fuel o w = (Failed ELzma, mkIo s' (i_snk w)) /\ s_rest s' = t.
Proof.
  intros Hs Hr Hp. destruct (read_header_bad_props o (i_src w) pbyte t Hs Hr Hp) as (s' & E & Hr' & _).
  exists s'. split; [|exact Hr']. unfold lzma_decompress. rewrite E. reflexivity.
Qed.

Theorem lzma_decompress_header_short fuel o w :
  FaultFree (i_src w) -> nlen (s_rest (i_src w)) < header_len (o_unpacked o) ->
  (forall b t, s_rest (i_src w) = b :: t -> b < 225) ->
  exists s', lzma_decompress fuel o w = (Failed EHeaderTooShort, mkIo s' (i_snk w)) /\ s_rest s' = [].
Proof.
  intros Hs Hn Hb. destruct (read_header_short o (i_src w) Hs Hn Hb) as (s' & E & Hr' & _).
  exists s'. split; [|exact Hr']. unfold lzma_decompress. rewrite E. reflexivity.
Qed.

Print Assumptions lzma_decompress_success_inv.
Print Assumptions lzma_decompress_sized_exact_gen.
Print Assumptions lzma_decompress_unsized_marker_gen.
Print Assumptions lzma_decompress_sized_exact.
Print Assumptions lzma_decompress_unsized_marker.
Print Assumptions lzma_decompress_bad_props.
Print Assumptions lzma_decompress_header_short.

(* ---------- concrete checks (one byte per refill) ---------- *)
Definition hdr_demo : list N := [93; 0; 0; 1; 0; 255; 255; 255; 255; 255; 255; 255; 255; 7].
Definition run_hdr (u : unpacked_size_opt) (data : list N) :=
  let '(r, s) := src_run (map_io_err EHeaderTooShort (read_header (mkOptions u None false))) (src_of data (fun _ => 1) None) in
  (r, s_pos s, s_rest s).

Example demo_rfh : run_hdr ReadFromHeader hdr_demo = (Done (mkParams (mkProps 3 0 2) 65536 None), 13, [7]).
Proof. vm_compute. reflexivity. Qed.
Example demo_rhp : run_hdr (ReadHeaderButUseProvided (Some 3)) hdr_demo = (Done (mkParams (mkProps 3 0 2) 65536 (Some 3)), 13, [7]).
Proof. vm_compute. reflexivity. Qed.
Example demo_up : run_hdr (UseProvided (Some 3)) hdr_demo = (Done (mkParams (mkProps 3 0 2) 65536 (Some 3)), 5, [255; 255; 255; 255; 255; 255; 255; 255; 7]).
Proof. vm_compute. reflexivity. Qed.
Example demo_bad : run_hdr ReadFromHeader (225 :: tl hdr_demo) = (Failed ELzma, 1, tl hdr_demo).
Proof. vm_compute. reflexivity. Qed.
Example demo_short : run_hdr ReadFromHeader (firstn 12 hdr_demo) = (Failed EHeaderTooShort, 12, []).
Proof. vm_compute. reflexivity. Qed.
Example demo_short_up : run_hdr (UseProvided None) (firstn 4 hdr_demo) = (Failed EHeaderTooShort, 4, []).
Proof. vm_compute. reflexivity. Qed.
