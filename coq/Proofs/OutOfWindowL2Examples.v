(* C09 for LZMA2: an executable form of the hypotheses of lzma2_out_of_window_rejected
   ([oow_check], sound by [oow_check_sound]) and examples: copies reaching data from before a
   dictionary reset, the three kinds of copy, both declared sizes (produced + 1 and produced +
   length of the copy), and the contrast with the same payload in a chunk that does not reset
   the dictionary. *)
From LZ Require Import Base.Prelude Base.Prog Model.Io Model.Tables Model.LzBuffer Model.Lzma Model.Lzma2
  Format.RefEnc Format.Lzma2Fmt
  Proofs.SymDecode Proofs.LzmaExactLoop Proofs.LzmaExact
  Proofs.Lzma2ExactChunk Proofs.Lzma2ExactWf Proofs.Lzma2Exact Proofs.Lzma2ExactExamples
  Proofs.OutOfWindowSym Proofs.OutOfWindowL2Sym Proofs.OutOfWindowL2.
From Coq Require Import ZifyBool ZifyNat ZifyN.

(* ---------- the hypotheses of the main theorem, decided by computation ---------- *)
Definition bad_copy2b (h : hist) (s : sym) : bool :=
  match s with
  | Match dist len => len_ok len && (dist <=? 4294967295) && (h_len h <? dist)
  | ShortRep => h_len h <? h_r0 h + 1
  | Rep i len => (i <=? 3) && len_ok len && (h_len h <? rep0 (rot i h) + 1)
  | _ => false
  end.

Lemma bad_copy2b_spec h s : bad_copy2b h s = true -> bad_copy2 h s.
Proof.
  destruct s as [b|dist len| |i len|]; cbn [bad_copy2b bad_copy2]; try discriminate.
  - rewrite !andb_true_iff, N.leb_le, N.ltb_lt. tauto.
  - rewrite N.ltb_lt. tauto.
  - rewrite !andb_true_iff, N.leb_le, N.ltb_lt. tauto.
Qed.

(* Some (stream up to and including the bad chunk, what the sink will hold, the bytes of the
   history that stay in the window) when every hypothesis of the theorem holds *)
Definition oow_check (room : N) (cs1 : list chunk) (cls : N) (np : option fprops) (good : list sym) (bad : sym)
                     (delta : N) : option (list N * list N * list N) :=
  match ser_chunks_gen false l2state0 cs1 with
  | Some (b1, s1) =>
      match sem_from None (es_hist (c_es1 s1 cls np)) good,
            ser_lzma_room room s1 cls np (good ++ [bad]) delta,
            last_ienc s1 cls np (good ++ [bad]) with
      | Some (hg, _), Some (b2, s2), Some ie =>
          if wf_fromb false l2state0 cs1 && (negb (cls =? 0) || negb (need_after false cs1)) &&
             no_markerb good && bad_copy2b hg bad && (1 <=? room) && (delta <? i_range ie) &&
             (h_len hg <=? 18446744073709551615)
          then Some (b1 ++ b2, lrev (l2_flushed s2), lrev (h_bytes hg))
          else None
      | _, _, _ => None
      end
  | None => None
  end.

Theorem oow_check_sound room cs1 cls np good bad delta bytes flushed kept trail frag k fuel :
  oow_check room cs1 cls np good bad delta = Some (bytes, flushed, kept) ->
  k_wfail k = None -> k_ffail k = false ->
  fuel_ok fuel (cs1 ++ [CLzma cls np good delta]) ->
  exists w',
    lzma2_decompress_top fuel (mkIo (src_of (bytes ++ trail) frag None) k) = (Failed ELzma, w') /\
    snk_bytes (i_snk w') = snk_bytes k ++ flushed.
Proof.
  unfold oow_check. intros H Hkw Hkf Hfuel.
  destruct (ser_chunks_gen false l2state0 cs1) as [[b1 s1]|] eqn:E1; [|discriminate].
  destruct (sem_from None (es_hist (c_es1 s1 cls np)) good) as [[hg bflag]|] eqn:Es; [|discriminate].
  destruct (ser_lzma_room room s1 cls np (good ++ [bad]) delta) as [[b2 s2]|] eqn:E2; [|discriminate].
  destruct (last_ienc s1 cls np (good ++ [bad])) as [ie|] eqn:Ei; [|discriminate].
  match type of H with (if ?c then _ else _) = _ => destruct c eqn:Hc; [|discriminate] end.
  inversion H; subst bytes flushed kept. clear H.
  repeat (apply andb_true_iff in Hc; let X := fresh "C" in destruct Hc as [Hc X]).
  apply N.leb_le in C. apply N.ltb_lt in C0. apply N.leb_le in C1. apply bad_copy2b_spec in C2.
  apply no_markerb_spec in C3.
  destruct (lzma2_out_of_window_rejected cs1 cls np good bad delta room hg bflag b1 s1 b2 s2 trail frag k fuel)
    as (w' & Hrun & _ & Hs & _); try assumption.
  - intros ->. change (negb (0 =? 0)) with false in C4. cbn [orb] in C4.
    destruct (need_after false cs1); [discriminate|reflexivity].
  - unfold delta_ok. rewrite Ei. exact C0.
  - exists w'. split; assumption.
Qed.
Print Assumptions oow_check_sound.

Definition p0 : option fprops := Some (mkFProps 0 0 0).

(* ---------- 1.  U1:<8 bytes> / Z3: L, M(dist 5) ---------- *)
(* an uncompressed chunk of 8 bytes; then an LZMA chunk that resets the dictionary, a literal, and
   a match at distance 5: 9 bytes have been produced, but only 1 since the dictionary reset *)
Definition ex1_cs1 : list chunk := [CRaw true [1; 2; 3; 4; 5; 6; 7; 8]].
(* declared size 2 = 1 (literal) + 1 *)
Definition ex1_bytes_a : list N := [1; 0; 7; 1; 2; 3; 4; 5; 6; 7; 8; 224; 0; 1; 0; 6; 0; 0; 32; 194; 27; 0; 0; 0].
(* declared size 3 = 1 (literal) + 2 (the match): the copy would fit *)
Definition ex1_bytes_b : list N := [1; 0; 7; 1; 2; 3; 4; 5; 6; 7; 8; 224; 0; 2; 0; 6; 0; 0; 32; 194; 27; 0; 0; 0].

Example ex1_check_a : oow_check 1 ex1_cs1 3 p0 [Lit 65] (Match 5 2) 0 = Some (ex1_bytes_a, [1; 2; 3; 4; 5; 6; 7; 8], [65]).
Proof. vm_compute. reflexivity. Qed.
Example ex1_check_b : oow_check 2 ex1_cs1 3 p0 [Lit 65] (Match 5 2) 0 = Some (ex1_bytes_b, [1; 2; 3; 4; 5; 6; 7; 8], [65]).
Proof. vm_compute. reflexivity. Qed.
Example ex1_fuel : fuel_ok 8 (ex1_cs1 ++ [CLzma 3 p0 [Lit 65] 0]).
Proof. split; [vm_compute; lia|]. repeat constructor; vm_compute; lia. Qed.

(* the theorem applied: every fragmentation, every trailing bytes, every well-behaved sink *)
Example ex1_rejected_a trail frag k : k_wfail k = None -> k_ffail k = false ->
  exists w', lzma2_decompress_top 8 (mkIo (src_of (ex1_bytes_a ++ trail) frag None) k) = (Failed ELzma, w') /\
    snk_bytes (i_snk w') = snk_bytes k ++ [1; 2; 3; 4; 5; 6; 7; 8].
Proof. intros H1 H2. exact (oow_check_sound _ _ _ _ _ _ _ _ _ _ trail frag k 8 ex1_check_a H1 H2 ex1_fuel). Qed.
Example ex1_rejected_b trail frag k : k_wfail k = None -> k_ffail k = false ->
  exists w', lzma2_decompress_top 8 (mkIo (src_of (ex1_bytes_b ++ trail) frag None) k) = (Failed ELzma, w') /\
    snk_bytes (i_snk w') = snk_bytes k ++ [1; 2; 3; 4; 5; 6; 7; 8].
Proof. intros H1 H2. exact (oow_check_sound _ _ _ _ _ _ _ _ _ _ trail frag k 8 ex1_check_b H1 H2 ex1_fuel). Qed.

(* the same by running the model (3 bytes per refill, the end byte as trailing data): the sink
   holds the 8 uncompressed bytes and nothing else - neither the literal (still in the window)
   nor any byte for the match *)
Example ex1_run_a : run 8 (ex1_bytes_a ++ [0]) = (Failed ELzma, [1; 2; 3; 4; 5; 6; 7; 8], 24, [0], 0).
Proof. vm_compute. reflexivity. Qed.
Example ex1_run_b : run 8 (ex1_bytes_b ++ [0]) = (Failed ELzma, [1; 2; 3; 4; 5; 6; 7; 8], 24, [0], 0).
Proof. vm_compute. reflexivity. Qed.

(* contrast: the SAME range-coded payload in a chunk that resets only the state (control 160
   instead of 224; no properties byte) is a well-formed stream: the match at distance 5 then
   reaches into the uncompressed chunk and copies 5, 6 *)
Definition ex1_good : list chunk := ex1_cs1 ++ [CLzma 1 None [Lit 65; Match 5 2] 0].
Example ex1_good_ok :
  ser2 ex1_good = Some ([1; 0; 7; 1; 2; 3; 4; 5; 6; 7; 8; 160; 0; 2; 0; 6; 0; 32; 194; 27; 0; 0; 0; 0],
                        [1; 2; 3; 4; 5; 6; 7; 8; 65; 5; 6]) /\ wf_seq ex1_good /\
  run 8 [1; 0; 7; 1; 2; 3; 4; 5; 6; 7; 8; 160; 0; 2; 0; 6; 0; 32; 194; 27; 0; 0; 0; 0]
  = (Done tt, [1; 2; 3; 4; 5; 6; 7; 8; 65; 5; 6], 24, [], 1).
Proof. split; [vm_compute; reflexivity|]. split; vm_compute; reflexivity. Qed.

(* ---------- 2.  the dictionary reset is in the earlier chunks ---------- *)
(* U2:<5 bytes> / U1:<3 bytes> / Z1: L, M(dist 5): 9 bytes produced, 4 since the reset *)
Definition ex2_cs1 : list chunk := [CRaw false [1; 2; 3; 4; 5]; CRaw true [6; 7; 8]].
Definition ex2_bytes : list N := [2; 0; 4; 1; 2; 3; 4; 5; 1; 0; 2; 6; 7; 8; 160; 0; 2; 0; 6; 0; 32; 194; 27; 0; 0; 0].
Example ex2_check : oow_check 2 ex2_cs1 1 None [Lit 65] (Match 5 2) 0 = Some (ex2_bytes, [1; 2; 3; 4; 5], [6; 7; 8; 65]).
Proof. vm_compute. reflexivity. Qed.
Example ex2_fuel : fuel_ok 8 (ex2_cs1 ++ [CLzma 1 None [Lit 65] 0]).
Proof. split; [vm_compute; lia|]. repeat constructor; vm_compute; lia. Qed.
Example ex2_rejected trail frag k : k_wfail k = None -> k_ffail k = false ->
  exists w', lzma2_decompress_top 8 (mkIo (src_of (ex2_bytes ++ trail) frag None) k) = (Failed ELzma, w') /\
    snk_bytes (i_snk w') = snk_bytes k ++ [1; 2; 3; 4; 5].
Proof. intros H1 H2. exact (oow_check_sound _ _ _ _ _ _ _ _ _ _ trail frag k 8 ex2_check H1 H2 ex2_fuel). Qed.
Example ex2_run : run 8 (ex2_bytes ++ [0]) = (Failed ELzma, [1; 2; 3; 4; 5], 26, [0], 0).
Proof. vm_compute. reflexivity. Qed.
(* a match at distance 4 (the oldest byte since the reset) in the same position is fine *)
Example ex2_good_ok : exists bytes, ser2 (ex2_cs1 ++ [CLzma 1 None [Lit 65; Match 4 2] 0]) = Some (bytes, [1; 2; 3; 4; 5; 6; 7; 8; 65; 6; 7]) /\
  fst (fst (fst (fst (run 8 bytes)))) = Done tt.
Proof. eexists. split; [vm_compute; reflexivity|]. vm_compute. reflexivity. Qed.

(* ---------- 3.  short repeat and repeated match as the first symbol after a dictionary reset ---------- *)
Definition ex3_cs1 : list chunk := [CLzma 3 p0 [Lit 1; Lit 2] 0].
Definition ex3_bytes_short : list N := [224; 0; 1; 0; 6; 0; 0; 0; 128; 161; 177; 224; 0; 224; 0; 0; 0; 4; 0; 0; 191; 255; 252; 0].
Definition ex3_bytes_rep : list N := [224; 0; 1; 0; 6; 0; 0; 0; 128; 161; 177; 224; 0; 224; 0; 4; 0; 5; 0; 0; 241; 127; 252; 0; 0].
Example ex3_check_short : oow_check 1 ex3_cs1 3 p0 [] ShortRep 0 = Some (ex3_bytes_short, [1; 2], []).
Proof. vm_compute. reflexivity. Qed.
Example ex3_check_rep : oow_check 5 ex3_cs1 3 p0 [] (Rep 2 5) 0 = Some (ex3_bytes_rep, [1; 2], []).
Proof. vm_compute. reflexivity. Qed.
Example ex3_fuel : fuel_ok 8 (ex3_cs1 ++ [CLzma 3 p0 [] 0]).
Proof. split; [vm_compute; lia|]. repeat constructor; vm_compute; lia. Qed.
Example ex3_rejected_short trail frag k : k_wfail k = None -> k_ffail k = false ->
  exists w', lzma2_decompress_top 8 (mkIo (src_of (ex3_bytes_short ++ trail) frag None) k) = (Failed ELzma, w') /\
    snk_bytes (i_snk w') = snk_bytes k ++ [1; 2].
Proof. intros H1 H2. exact (oow_check_sound _ _ _ _ _ _ _ _ _ _ trail frag k 8 ex3_check_short H1 H2 ex3_fuel). Qed.
Example ex3_rejected_rep trail frag k : k_wfail k = None -> k_ffail k = false ->
  exists w', lzma2_decompress_top 8 (mkIo (src_of (ex3_bytes_rep ++ trail) frag None) k) = (Failed ELzma, w') /\
    snk_bytes (i_snk w') = snk_bytes k ++ [1; 2].
Proof. intros H1 H2. exact (oow_check_sound _ _ _ _ _ _ _ _ _ _ trail frag k 8 ex3_check_rep H1 H2 ex3_fuel). Qed.
Example ex3_run_short : run 8 (ex3_bytes_short ++ [0]) = (Failed ELzma, [1; 2], 24, [0], 0).
Proof. vm_compute. reflexivity. Qed.
Example ex3_run_rep : run 8 (ex3_bytes_rep ++ [0]) = (Failed ELzma, [1; 2], 25, [0], 0).
Proof. vm_compute. reflexivity. Qed.

(* ---------- 4.  the bad chunk is the first chunk ---------- *)
(* Z3: L, L, M(dist 3, len 3), declared 5 = 2 + 3: nothing has been flushed, the sink is empty *)
Definition ex4_bytes : list N := [224; 0; 4; 0; 7; 0; 0; 0; 128; 203; 172; 112; 238; 0].
Example ex4_check : oow_check 3 [] 3 p0 [Lit 1; Lit 2] (Match 3 3) 0 = Some (ex4_bytes, [], [1; 2]).
Proof. vm_compute. reflexivity. Qed.
Example ex4_rejected trail frag k : k_wfail k = None -> k_ffail k = false ->
  exists w', lzma2_decompress_top 8 (mkIo (src_of (ex4_bytes ++ trail) frag None) k) = (Failed ELzma, w') /\
    snk_bytes (i_snk w') = snk_bytes k ++ [].
Proof.
  intros H1 H2. apply (oow_check_sound _ _ _ _ _ _ _ _ _ _ trail frag k 8 ex4_check H1 H2).
  split; [vm_compute; lia|]. repeat constructor; vm_compute; lia.
Qed.
Example ex4_run : run 8 (ex4_bytes ++ [0]) = (Failed ELzma, [], 14, [0], 0).
Proof. vm_compute. reflexivity. Qed.

(* ---------- 5.  outside the theorem: no state reset after a dictionary reset by an uncompressed chunk ---------- *)
(* the hypothesis (cls = 0 -> need_after false cs1 = false) excludes a chunk of class 0 right after
   U1; such a chunk inherits repeat distances that point behind the emptied window.  The model
   rejects that too (the stale rep0 = 3 exceeds the single byte in the window), here by running it:
   Z3: L L L L M(4,2) / U1:<1 byte> / Z0: ShortRep *)
Definition ex5_cs : list chunk := [CLzma 3 p0 [Lit 1; Lit 2; Lit 3; Lit 4; Match 4 2] 0; CRaw true [9]].
Definition ex5_result :=
  match ser_chunks_gen false l2state0 ex5_cs with
  | Some (b1, s1) =>
      match ser_lzma_room 1 s1 0 None [ShortRep] 0 with
      | Some (b2, _) => Some (need_after false ex5_cs, fst (fst (fst (run 8 (b1 ++ b2 ++ [0])))))
      | None => None
      end
  | None => None
  end.
Example ex5_stale_rep_rejected : ex5_result = Some (true, (Failed ELzma, [1; 2; 3; 4; 1; 2])).
Proof. vm_compute. reflexivity. Qed.
