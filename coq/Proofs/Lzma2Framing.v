(* C17: malformed LZMA2 framing is rejected.
   Every statement is about an arbitrary [w2] state (any decoder state, any accumulated
   history), i.e. about a chunk at any position of the stream.  Sources are fault free with
   arbitrary fragmentation ([FaultFree]: no failing refill, any refill sizes); the sink never
   fails a write ([k_wfail = None]) - it may accept as few bytes per call as it likes. *)
From LZ Require Import Base.Prelude Base.Prog Model.Io Model.Tables Model.LzBuffer Model.RangeDec Model.Lzma Model.Lzma2
  Proofs.ProgLemmas Proofs.IoLemmas Proofs.SizeRules Proofs.WinCirc Proofs.Lzma2Inv.
From Coq Require Import ZifyBool ZifyNat ZifyN.
Ltac Zify.zify_post_hook ::= Z.div_mod_to_equations.
Local Open Scope prog_scope.

(* ================================================================== *)
(* reads with map_err(ELzma) on a fault-free source                    *)
(* ================================================================== *)
Lemma mapped_read_u8 s b t : FaultFree s -> s_rest s = b :: t ->
  exists s', src_run (map_io_err ELzma read_u8) s = (Done b, s') /\ s_rest s' = t /\ s_pos s' = s_pos s + 1 /\ FaultFree s'.
Proof.
  intros Hs Hr. destruct (src_read_u8_spec s b t Hs Hr) as (s' & E & H).
  exists s'. split; [|exact H]. rewrite src_run_map_io_err by (apply FaultFree_L; exact Hs). rewrite E. reflexivity.
Qed.

Lemma mapped_read_u8_eof s : FaultFree s -> s_rest s = [] ->
  exists s', src_run (map_io_err ELzma read_u8) s = (Failed ELzma, s') /\ s_rest s' = [] /\ s_pos s' = s_pos s /\ FaultFree s'.
Proof.
  intros Hs Hr. destruct (src_read_u8_eof s Hs Hr) as (s' & E & H).
  exists s'. split; [|exact H]. rewrite src_run_map_io_err by (apply FaultFree_L; exact Hs). rewrite E. reflexivity.
Qed.

Lemma mapped_read_exact s bs t n : FaultFree s -> s_rest s = bs ++ t -> nlen bs = n ->
  exists s', src_run (map_io_err ELzma (read_exact n)) s = (Done bs, s') /\ s_rest s' = t /\ s_pos s' = s_pos s + n /\ FaultFree s'.
Proof.
  intros Hs Hr Hn. destruct (src_read_exact_spec s bs t n Hs Hr Hn) as (s' & E & H).
  exists s'. split; [|exact H]. rewrite src_run_map_io_err by (apply FaultFree_L; exact Hs). rewrite E. reflexivity.
Qed.

Lemma mapped_read_exact_eof s n : FaultFree s -> nlen (s_rest s) < n ->
  exists s', src_run (map_io_err ELzma (read_exact n)) s = (Failed ELzma, s') /\ FaultFree s' /\ s_rest s' = [].
Proof.
  intros Hs Hn. destruct (src_read_exact_eof s n Hs Hn) as (s' & E & H1 & H2 & _).
  exists s'. split; [|split; assumption]. rewrite src_run_map_io_err by (apply FaultFree_L; exact Hs). rewrite E. reflexivity.
Qed.

Lemma mapped_read_u16 s a b t : FaultFree s -> s_rest s = a :: b :: t ->
  exists s', src_run (map_io_err ELzma read_u16_be) s = (Done (be_num [a; b]), s') /\ s_rest s' = t /\ FaultFree s'.
Proof.
  intros Hs Hr. destruct (io_read_exact_spec s [a; b] t 2 Hs Hr eq_refl) as (s' & E & H1 & _ & H2).
  exists s'. split; [|split; assumption]. rewrite src_run_map_io_err by (apply FaultFree_L; exact Hs).
  rewrite (io_runs_src_run read_u16_be s (Done (be_num [a; b])) s'); [reflexivity|].
  unfold read_u16_be. eapply io_runs_bind; [exact E|]. apply io_runs_ret.
Qed.

Lemma mapped_read_u16_eof s : FaultFree s -> nlen (s_rest s) < 2 ->
  exists s', src_run (map_io_err ELzma read_u16_be) s = (Failed ELzma, s') /\ FaultFree s' /\ s_rest s' = [].
Proof.
  intros Hs Hn. destruct (io_read_exact_eof s 2 Hs Hn) as (s' & E & H1 & H2 & _).
  exists s'. split; [|split; assumption]. rewrite src_run_map_io_err by (apply FaultFree_L; exact Hs).
  rewrite (io_runs_src_run read_u16_be s (Failed EIo) s'); [reflexivity|].
  unfold read_u16_be. apply io_runs_bind_fail. exact E.
Qed.

(* ================================================================== *)
(* bit facts about the control byte                                    *)
(* ================================================================== *)
Lemma land128_small c : c < 128 -> N.land c 128 = 0.
Proof.
  intros H. replace c with (N.land c (N.ones 7)) by (rewrite N.land_ones; apply N.mod_small; exact H).
  rewrite <- N.land_assoc. change (N.land (N.ones 7) 128) with 0. apply N.land_0_r.
Qed.

Lemma l2_cls_lt4 status : l2_cls status < 4.
Proof.
  unfold l2_cls. change 3 with (N.ones 2). rewrite N.land_ones. apply N.mod_lt. discriminate.
Qed.

(* ================================================================== *)
(* the objects alive between two chunks                                *)
(* ================================================================== *)
Definition W2ok (w : w2) : Prop := FaultFree (w_src w) /\ k_wfail (a_snk (w_acc w)) = None.

Lemma w2_src_ok {A} w (p : iop A) : W2ok w -> W2ok (snd (w2_src w (src_run p (w_src w)))).
Proof. intros [H1 H2]. split; [apply src_run_FaultFree; exact H1|exact H2]. Qed.

Lemma accum_reset_run a : k_wfail (a_snk a) = None ->
  exists a', accum_reset a = (Done tt, a') /\ k_wfail (a_snk a') = None /\ a_len a' = 0 /\ a_mem a' = a_mem a.
Proof.
  intros H. unfold accum_reset.
  destruct (snk_run_write_all (map_slice (a_buf a) 0 (a_blen a)) (a_snk a) H) as (k' & E & _ & Hw & _).
  rewrite E. eexists. split; [reflexivity|]. split; [exact Hw|split; reflexivity].
Qed.

Lemma accum_reset_done a u a' : accum_reset a = (Done u, a') -> a_len a' = 0.
Proof.
  unfold accum_reset. destruct (snk_run _ _) as [[v|e|q] k]; intros H; inversion H; reflexivity.
Qed.

Lemma pl_dict_run rd w : k_wfail (a_snk (w_acc w)) = None ->
  exists a', pl_dict rd w = (Done tt, mkW2 (w_ds w) (w_src w) a') /\ k_wfail (a_snk a') = None /\
             a_len a' = (if rd then 0 else a_len (w_acc w)).
Proof.
  intros H. unfold pl_dict. destruct rd.
  - destruct (accum_reset_run _ H) as (a' & E & H1 & H2 & _). rewrite E. exists a'. repeat split; assumption.
  - exists (w_acc w). destruct w; repeat split; assumption.
Qed.

Lemma pl_dict_done rd w u w' : pl_dict rd w = (Done u, w') ->
  w_src w' = w_src w /\ w_ds w' = w_ds w /\ a_len (w_acc w') = (if rd then 0 else a_len (w_acc w)).
Proof.
  unfold pl_dict. destruct rd.
  - destruct (accum_reset (w_acc w)) as [r a] eqn:E. intros H; inversion H; subst. cbn [w_src w_ds w_acc].
    repeat split. eapply accum_reset_done; exact E.
  - intros H; inversion H; subst. repeat split.
Qed.

Lemma pl_dict_ok rd w : W2ok w -> W2ok (snd (pl_dict rd w)).
Proof.
  intros [H1 H2]. destruct (pl_dict_run rd w H2) as (a' & E & H3 & _). rewrite E. split; assumption.
Qed.

Lemma pl_props_acc a b w : w_acc (snd (pl_props a b w)) = w_acc w.
Proof.
  unfold pl_props. destruct a; [|reflexivity]. cbv zeta. destruct b.
  - unfold w2_src. destruct (src_run _ _) as [[pbyte|e|q] s]; cbn [fst snd]; try reflexivity.
    destruct (225 <=? pbyte); [reflexivity|]. destruct (4 <? _); [reflexivity|].
    cbn [w_ds]. destruct (reset_state _ _) as [[d|e|q] u]; reflexivity.
  - destruct (reset_state _ _) as [[d|e|q] u]; reflexivity.
Qed.

Lemma pl_props_ok a b w : W2ok w -> W2ok (snd (pl_props a b w)).
Proof.
  intros Hw. unfold pl_props. destruct a; [|exact Hw]. cbv zeta. destruct b.
  - pose proof (w2_src_ok w (map_io_err ELzma read_u8) Hw) as H1.
    destruct (w2_src w _) as [[pbyte|e|q] w1]; cbn [snd] in *; try exact H1.
    destruct (225 <=? pbyte); [exact H1|]. destruct (4 <? _); [exact H1|].
    destruct (reset_state _ _) as [[d|e|q] u]; cbn [snd]; exact H1.
  - destruct (reset_state _ _) as [[d|e|q] u]; cbn [snd]; exact Hw.
Qed.

(* the payload stage *)
Lemma pl_payload_ok fuel us ps w : W2ok w -> W2ok (snd (pl_payload fuel us ps w)).
Proof.
  intros [H1 H2]. unfold pl_payload. cbv zeta.
  pose proof (src_run_FaultFreeL (map_io_err ELzma rc_new) (set_limit (w_src w) (Some ps))
                (set_limit_FaultFreeL _ _ (FaultFree_L _ H1))) as P.
  destruct (src_run (map_io_err ELzma rc_new) _) as [[r|e|q] s]; cbn [snd] in *;
    try (split; [apply set_limit_None_FaultFree; exact P|exact H2]).
  set (w0 := mkLw _ r s (WAccum (w_acc w))).
  destruct (process_mode_lzma2_inv FinishMode fuel w0 (w_acc w) P eq_refl) as (Q1 & a' & Q2 & Q3).
  destruct (process_mode FinishMode fuel w0) as [res x]. cbn [snd] in *.
  split; [apply set_limit_None_FaultFree; exact Q1|]. cbn [w_acc]. rewrite Q2, Q3. exact H2.
Qed.

(* unpacked_mismatch at the payload stage: success means the window grew by exactly [us] *)
Lemma pl_payload_done fuel us ps w w' : pl_payload fuel us ps w = (Done tt, w') ->
  a_len (w_acc w') = us + a_len (w_acc w) /\ a_snk (w_acc w') = a_snk (w_acc w).
Proof.
  unfold pl_payload. cbv zeta.
  destruct (src_run (map_io_err ELzma rc_new) _) as [[r|e|q] s]; try discriminate.
  set (w0 := mkLw _ r s (WAccum (w_acc w))).
  destruct (process_mode_accum_inv FinishMode fuel w0 (w_acc w) eq_refl) as (a' & Q2 & Q3).
  destruct (process_mode FinishMode fuel w0) as [res x] eqn:E. cbn [snd] in *.
  intros H; inversion H; subst. cbn [w_acc]. rewrite Q2. split; [|exact Q3].
  pose proof (sized_success_is_exact fuel w0 x (us + a_len (w_acc w)) eq_refl E) as S.
  rewrite Q2 in S. exact S.
Qed.

Lemma parse_lzma_ok fuel status w : W2ok w -> W2ok (snd (parse_lzma fuel status w)).
Proof.
  intros Hw. rewrite parse_lzma_eq. destruct (_ =? 0); [exact Hw|].
  pose proof (w2_src_ok w (map_io_err ELzma read_u16_be) Hw) as H1.
  destruct (w2_src w _) as [[us|e|q] w1]; cbn [snd] in *; try exact H1.
  pose proof (w2_src_ok w1 (map_io_err ELzma read_u16_be) H1) as H2.
  destruct (w2_src w1 _) as [[ps|e|q] w2]; cbn [snd] in *; try exact H2.
  pose proof (pl_dict_ok (l2_cls status =? 3) w2 H2) as H3.
  destruct (pl_dict _ w2) as [[u|e|q] w3]; cbn [snd] in *; try exact H3.
  pose proof (pl_props_ok (negb (l2_cls status =? 0)) ((l2_cls status =? 2) || (l2_cls status =? 3)) w3 H3) as H4.
  destruct (pl_props _ _ w3) as [[u'|e|q] w4]; cbn [snd] in *; try exact H4.
  apply pl_payload_ok. exact H4.
Qed.

Lemma parse_uncompressed_ok rd w : W2ok w -> W2ok (snd (parse_uncompressed rd w)).
Proof.
  intros Hw. unfold parse_uncompressed.
  pose proof (w2_src_ok w (map_io_err ELzma read_u16_be) Hw) as H1.
  destruct (w2_src w _) as [[us|e|q] w1]; cbn [snd] in *; try exact H1.
  pose proof (pl_dict_ok rd w1 H1) as H2. unfold pl_dict in H2.
  destruct (if rd then _ else _) as [[u|e|q] w2']; cbn [snd] in *; try exact H2.
  pose proof (w2_src_ok w2' (map_io_err ELzma (read_exact (us + 1))) H2) as H3.
  destruct (w2_src w2' _) as [[bs|e|q] w3]; cbn [snd] in *; exact H3.
Qed.

(* one iteration of the chunk loop keeps the world fault free *)
Theorem l2_body_ok fuel w w' : W2ok w -> l2_body fuel w = Next w' -> W2ok w'.
Proof.
  intros Hw H. unfold l2_body in H.
  pose proof (w2_src_ok w (map_io_err ELzma read_u8) Hw) as H1.
  destruct (w2_src w _) as [[c|e|q] w1]; cbn [snd] in *; try discriminate.
  destruct (c =? 0); [discriminate|].
  set (r := if c =? 1 then _ else _) in H.
  assert (Hr : W2ok (snd r)).
  { unfold r. destruct (c =? 1); [apply parse_uncompressed_ok; exact H1|].
    destruct (c =? 2); [apply parse_uncompressed_ok; exact H1|apply parse_lzma_ok; exact H1]. }
  clearbody r. destruct r as [[u|e|q] w'']; inversion H; subst. exact Hr.
Qed.

(* ================================================================== *)
(* the control byte                                                    *)
(* ================================================================== *)
(* what l2_body does after reading control byte [c] *)
Definition l2_dispatch (fuel : positive) (c : N) (w : w2) : step w2 (outcome unit * w2) :=
  if c =? 0 then Break (Done tt, w)
  else
    let r := if c =? 1 then parse_uncompressed true w
             else if c =? 2 then parse_uncompressed false w
             else parse_lzma fuel c w in
    match r with
    | (Done _, w') => Next w'
    | r' => Break r'
    end.

Lemma l2_body_read fuel w c t : FaultFree (w_src w) -> s_rest (w_src w) = c :: t ->
  exists s1, FaultFree s1 /\ s_rest s1 = t /\ s_pos s1 = s_pos (w_src w) + 1 /\
             l2_body fuel w = l2_dispatch fuel c (mkW2 (w_ds w) s1 (w_acc w)).
Proof.
  intros Hs Hr. destruct (mapped_read_u8 _ _ _ Hs Hr) as (s1 & E & H1 & H2 & H3).
  exists s1. split; [exact H3|]. split; [exact H1|]. split; [exact H2|].
  unfold l2_body, w2_src. rewrite E. reflexivity.
Qed.

(* 1. a control byte in 3..127 is rejected *)
Theorem bad_control_rejected fuel w c t :
  FaultFree (w_src w) -> s_rest (w_src w) = c :: t -> 3 <= c <= 127 ->
  exists w', l2_body fuel w = Break (Failed ELzma, w').
Proof.
  intros Hs Hr Hc. destruct (l2_body_read fuel w c t Hs Hr) as (s1 & _ & _ & _ & E).
  rewrite E. unfold l2_dispatch.
  destruct (N.eqb_spec c 0); [lia|]. destruct (N.eqb_spec c 1); [lia|]. destruct (N.eqb_spec c 2); [lia|].
  rewrite parse_lzma_eq. rewrite land128_small by lia. change (0 =? 0) with true. cbv iota.
  eexists. reflexivity.
Qed.
Print Assumptions bad_control_rejected.

(* 5. the source ends where a control byte is expected *)
Theorem missing_end_rejected fuel w :
  FaultFree (w_src w) -> s_rest (w_src w) = [] ->
  exists w', l2_body fuel w = Break (Failed ELzma, w').
Proof.
  intros Hs Hr. destruct (mapped_read_u8_eof _ Hs Hr) as (s1 & E & _).
  unfold l2_body, w2_src. rewrite E. eexists. reflexivity.
Qed.
Print Assumptions missing_end_rejected.

(* ================================================================== *)
(* uncompressed chunks                                                 *)
(* ================================================================== *)
(* 4. an uncompressed chunk declaring more bytes than remain *)
Theorem raw_chunk_short_rejected rd w u1 u0 t :
  W2ok w -> s_rest (w_src w) = u1 :: u0 :: t -> nlen t < be_num [u1; u0] + 1 ->
  exists w', parse_uncompressed rd w = (Failed ELzma, w').
Proof.
  intros [Hs Hk] Hr Hn. destruct (mapped_read_u16 _ _ _ _ Hs Hr) as (s1 & E1 & R1 & F1).
  unfold parse_uncompressed, w2_src. rewrite E1. cbn [fst snd w_ds w_src w_acc].
  destruct (pl_dict_run rd (mkW2 (w_ds w) s1 (w_acc w)) Hk) as (a' & E2 & _). unfold pl_dict in E2.
  cbn [w_ds w_src w_acc] in E2. rewrite E2. cbn [w_ds w_src w_acc].
  destruct (mapped_read_exact_eof s1 (be_num [u1; u0] + 1) F1) as (s2 & E3 & _); [rewrite R1; exact Hn|].
  rewrite E3. cbn [fst snd]. eexists. reflexivity.
Qed.
Print Assumptions raw_chunk_short_rejected.

(* ... or whose two size bytes are themselves missing *)
Theorem raw_chunk_header_short_rejected rd w :
  FaultFree (w_src w) -> nlen (s_rest (w_src w)) < 2 ->
  exists w', parse_uncompressed rd w = (Failed ELzma, w').
Proof.
  intros Hs Hn. destruct (mapped_read_u16_eof _ Hs Hn) as (s1 & E1 & _).
  unfold parse_uncompressed, w2_src. rewrite E1. cbn [fst snd]. eexists. reflexivity.
Qed.
Print Assumptions raw_chunk_header_short_rejected.

(* ================================================================== *)
(* compressed chunks                                                   *)
(* ================================================================== *)
(* the header of a compressed chunk on a fault-free source *)
Lemma parse_lzma_header fuel status w u1 u0 p1 p0 t :
  W2ok w -> N.land status 128 <> 0 -> s_rest (w_src w) = u1 :: u0 :: p1 :: p0 :: t ->
  exists s2 a', FaultFree s2 /\ s_rest s2 = t /\ k_wfail (a_snk a') = None /\
    a_len a' = (if l2_cls status =? 3 then 0 else a_len (w_acc w)) /\
    parse_lzma fuel status w =
    match pl_props (negb (l2_cls status =? 0)) ((l2_cls status =? 2) || (l2_cls status =? 3)) (mkW2 (w_ds w) s2 a') with
    | (Failed e, w) => (Failed e, w) | (Panicked p, w) => (Panicked p, w)
    | (Done _, w) => pl_payload fuel (l2_unpacked status (be_num [u1; u0])) (be_num [p1; p0] + 1) w
    end.
Proof.
  intros [Hs Hk] Hst Hr.
  destruct (mapped_read_u16 _ _ _ _ Hs Hr) as (s1 & E1 & R1 & F1).
  destruct (mapped_read_u16 _ _ _ _ F1 R1) as (s2 & E2 & R2 & F2).
  destruct (pl_dict_run (l2_cls status =? 3) (mkW2 (w_ds w) s2 (w_acc w)) Hk) as (a' & E3 & K3 & L3).
  cbn [w_ds w_src w_acc] in *.
  exists s2, a'. split; [exact F2|]. split; [exact R2|]. split; [exact K3|]. split; [exact L3|].
  rewrite parse_lzma_eq. destruct (N.eqb_spec (N.land status 128) 0) as [Z|_]; [contradiction|].
  unfold w2_src. rewrite E1. cbn [fst snd w_ds w_src w_acc]. rewrite E2. cbn [fst snd]. rewrite E3. reflexivity.
Qed.

Theorem lzma_chunk_header_short_rejected fuel status w :
  FaultFree (w_src w) -> N.land status 128 <> 0 -> nlen (s_rest (w_src w)) < 4 ->
  exists w', parse_lzma fuel status w = (Failed ELzma, w').
Proof.
  intros Hs Hst Hn. rewrite parse_lzma_eq. destruct (N.eqb_spec (N.land status 128) 0) as [Z|_]; [contradiction|].
  destruct (s_rest (w_src w)) as [|a [|b t]] eqn:Hr.
  - destruct (mapped_read_u16_eof _ Hs) as (s1 & E1 & _); [rewrite Hr; reflexivity|].
    unfold w2_src. rewrite E1. eexists. reflexivity.
  - destruct (mapped_read_u16_eof _ Hs) as (s1 & E1 & _); [rewrite Hr; reflexivity|].
    unfold w2_src. rewrite E1. eexists. reflexivity.
  - destruct (mapped_read_u16 _ _ _ _ Hs Hr) as (s1 & E1 & R1 & F1).
    destruct (mapped_read_u16_eof _ F1) as (s2 & E2 & _).
    { rewrite R1. rewrite !nlen_cons in Hn. lia. }
    unfold w2_src. rewrite E1. cbn [fst snd w_ds w_src w_acc]. rewrite E2. eexists. reflexivity.
Qed.
Print Assumptions lzma_chunk_header_short_rejected.

Lemma cls_ge2_flags status : 2 <= l2_cls status ->
  negb (l2_cls status =? 0) = true /\ ((l2_cls status =? 2) || (l2_cls status =? 3)) = true.
Proof.
  intros H. pose proof (l2_cls_lt4 status) as L.
  destruct (N.eqb_spec (l2_cls status) 0); [lia|].
  destruct (N.eqb_spec (l2_cls status) 2); [split; reflexivity|].
  destruct (N.eqb_spec (l2_cls status) 3); [split; reflexivity|lia].
Qed.

(* the property byte stage on a fault-free source *)
Lemma pl_props_read w pbyte t : FaultFree (w_src w) -> s_rest (w_src w) = pbyte :: t ->
  exists s1, FaultFree s1 /\ s_rest s1 = t /\
    pl_props true true w =
    (if 225 <=? pbyte then (Failed ELzma, mkW2 (w_ds w) s1 (w_acc w)) else
     if 4 <? pbyte mod 9 + (pbyte / 9) mod 5 then (Failed ELzma, mkW2 (w_ds w) s1 (w_acc w)) else
     match reset_state (w_ds w) (mkProps (pbyte mod 9) ((pbyte / 9) mod 5) (pbyte / 9 / 5)) with
     | (Done d, _) => (Done tt, mkW2 d s1 (w_acc w))
     | (Failed e, _) => (Failed e, mkW2 (w_ds w) s1 (w_acc w))
     | (Panicked q, _) => (Panicked q, mkW2 (w_ds w) s1 (w_acc w))
     end).
Proof.
  intros Hs Hr. destruct (mapped_read_u8 _ _ _ Hs Hr) as (s1 & E & R1 & _ & F1).
  exists s1. split; [exact F1|]. split; [exact R1|].
  unfold pl_props, w2_src. cbv zeta. rewrite E. cbn [fst snd].
  destruct (225 <=? pbyte); [reflexivity|]. destruct (4 <? _); reflexivity.
Qed.

(* 2. property byte >= 225 *)
Theorem props_ge_225_rejected fuel status w u1 u0 p1 p0 pbyte t :
  W2ok w -> N.land status 128 <> 0 -> 2 <= l2_cls status ->
  s_rest (w_src w) = u1 :: u0 :: p1 :: p0 :: pbyte :: t -> 225 <= pbyte ->
  exists w', parse_lzma fuel status w = (Failed ELzma, w').
Proof.
  intros Hw Hst Hc Hr Hp.
  destruct (parse_lzma_header fuel status w u1 u0 p1 p0 (pbyte :: t) Hw Hst Hr) as (s2 & a' & F2 & R2 & _ & _ & E).
  rewrite E. destruct (cls_ge2_flags status Hc) as [-> ->].
  destruct (pl_props_read (mkW2 (w_ds w) s2 a') pbyte t F2 R2) as (s3 & _ & _ & E3). rewrite E3.
  destruct (N.leb_spec 225 pbyte); [|lia]. eexists. reflexivity.
Qed.
Print Assumptions props_ge_225_rejected.

(* 3. property byte < 225 that decodes to lc + lp > 4 *)
Theorem props_lc_lp_rejected fuel status w u1 u0 p1 p0 pbyte t :
  W2ok w -> N.land status 128 <> 0 -> 2 <= l2_cls status ->
  s_rest (w_src w) = u1 :: u0 :: p1 :: p0 :: pbyte :: t ->
  pbyte < 225 -> 4 < pbyte mod 9 + (pbyte / 9) mod 5 ->
  exists w', parse_lzma fuel status w = (Failed ELzma, w').
Proof.
  intros Hw Hst Hc Hr Hp Hl.
  destruct (parse_lzma_header fuel status w u1 u0 p1 p0 (pbyte :: t) Hw Hst Hr) as (s2 & a' & F2 & R2 & _ & _ & E).
  rewrite E. destruct (cls_ge2_flags status Hc) as [-> ->].
  destruct (pl_props_read (mkW2 (w_ds w) s2 a') pbyte t F2 R2) as (s3 & _ & _ & E3). rewrite E3.
  destruct (N.leb_spec 225 pbyte); [lia|].
  destruct (N.ltb_spec 4 (pbyte mod 9 + (pbyte / 9) mod 5)); [|lia]. eexists. reflexivity.
Qed.
Print Assumptions props_lc_lp_rejected.

(* ... and the property byte itself missing *)
Theorem props_missing_rejected fuel status w u1 u0 p1 p0 :
  W2ok w -> N.land status 128 <> 0 -> 2 <= l2_cls status ->
  s_rest (w_src w) = [u1; u0; p1; p0] ->
  exists w', parse_lzma fuel status w = (Failed ELzma, w').
Proof.
  intros Hw Hst Hc Hr.
  destruct (parse_lzma_header fuel status w u1 u0 p1 p0 [] Hw Hst Hr) as (s2 & a' & F2 & R2 & _ & _ & E).
  rewrite E. destruct (cls_ge2_flags status Hc) as [-> ->].
  destruct (mapped_read_u8_eof s2 F2 R2) as (s3 & E3 & _).
  unfold pl_props, w2_src. cbv zeta. cbn [w_src]. rewrite E3. cbn [fst snd]. eexists. reflexivity.
Qed.
Print Assumptions props_missing_rejected.

(* the finite check behind 3: a byte below 225 is accepted exactly when it decodes to valid
   LZMA2 properties, so reset_state never sees (and never asserts on) an invalid triple *)
Definition props_of_byte (b : N) : props := mkProps (b mod 9) ((b / 9) mod 5) (b / 9 / 5).
Definition byte_accepted (b : N) : bool := negb (225 <=? b) && negb (4 <? b mod 9 + (b / 9) mod 5).

Lemma props_bytes_table :
  forallb (fun b => implb (byte_accepted b) (props_valid (props_of_byte b) && (lc (props_of_byte b) + lp (props_of_byte b) <=? 4)))
          (map N.of_nat (seq 0 256)) = true.
Proof. vm_compute. reflexivity. Qed.

Lemma In_bytes b : b < 256 -> In b (map N.of_nat (seq 0 256)).
Proof.
  intros H. rewrite <- (N2Nat.id b). apply in_map. apply in_seq. lia.
Qed.

Theorem accepted_props_valid b : b < 256 -> byte_accepted b = true ->
  props_valid (props_of_byte b) = true /\ lc (props_of_byte b) + lp (props_of_byte b) <= 4.
Proof.
  intros Hb Ha. pose proof props_bytes_table as T. rewrite forallb_forall in T.
  specialize (T b (In_bytes b Hb)). rewrite Ha in T. cbn [implb] in T.
  apply andb_prop in T. destruct T as [T1 T2]. split; [exact T1|]. apply N.leb_le. exact T2.
Qed.
Print Assumptions accepted_props_valid.

(* 6. unpacked-size mismatch: whenever a compressed chunk is accepted, the window has grown by
   exactly the declared unpacked size (so a payload that would overshoot it, or that ends -
   end marker - before reaching it, cannot be accepted).  No assumption on source or sink. *)
Theorem unpacked_mismatch_rejected fuel status w w' :
  parse_lzma fuel status w = (Done tt, w') ->
  exists us16 s1, src_run (map_io_err ELzma read_u16_be) (w_src w) = (Done us16, s1) /\
    a_len (w_acc w') = l2_unpacked status us16 + (if l2_cls status =? 3 then 0 else a_len (w_acc w)).
Proof.
  rewrite parse_lzma_eq. destruct (_ =? 0); [discriminate|].
  unfold w2_src at 1.
  destruct (src_run (map_io_err ELzma read_u16_be) (w_src w)) as [[us16|e|q] s1]; cbn [fst snd]; try discriminate.
  set (w1 := mkW2 (w_ds w) s1 (w_acc w)).
  unfold w2_src at 1.
  destruct (src_run (map_io_err ELzma read_u16_be) (w_src w1)) as [[ps16|e|q] s2]; cbn [fst snd]; try discriminate.
  set (w2' := mkW2 (w_ds w1) s2 (w_acc w1)).
  destruct (pl_dict _ w2') as [[u|e|q] w3] eqn:E3; try discriminate.
  apply pl_dict_done in E3. destruct E3 as (_ & _ & L3).
  pose proof (pl_props_acc (negb (l2_cls status =? 0)) ((l2_cls status =? 2) || (l2_cls status =? 3)) w3) as A4.
  destruct (pl_props _ _ w3) as [[u'|e|q] w4]; try discriminate. cbn [snd] in A4.
  intros H. apply pl_payload_done in H. destruct H as [H _].
  exists us16, s1. split; [reflexivity|]. rewrite H, A4, L3. reflexivity.
Qed.
Print Assumptions unpacked_mismatch_rejected.

(* the same with the declared size read off a fault-free source *)
Corollary unpacked_mismatch_rejected_bytes fuel status w w' u1 u0 t :
  FaultFree (w_src w) -> s_rest (w_src w) = u1 :: u0 :: t ->
  parse_lzma fuel status w = (Done tt, w') ->
  a_len (w_acc w') = l2_unpacked status (be_num [u1; u0]) + (if l2_cls status =? 3 then 0 else a_len (w_acc w)).
Proof.
  intros Hs Hr H. destruct (unpacked_mismatch_rejected _ _ _ _ H) as (us16 & s1 & E & L).
  destruct (mapped_read_u16 _ _ _ _ Hs Hr) as (s1' & E' & _). rewrite E in E'. inversion E'; subst. exact L.
Qed.
Print Assumptions unpacked_mismatch_rejected_bytes.

(* ================================================================== *)
(* the Take limit: packed size exhausted                               *)
(* ================================================================== *)
Lemma take_limit_fill s : s_limit s = Some 0 -> src_fill s = HOk (s_rest s, 0) s.
Proof. intros H. unfold src_fill. rewrite H. reflexivity. Qed.

(* any read of n > 0 bytes against an exhausted Take fails at once with UnexpectedEof;
   this holds for every source (failing or not) and every sink *)
Lemma take_limit_read_exact s k n : s_limit s = Some 0 -> 0 < n ->
  interp io_h (read_exact n) (mkIo s k) = (Failed EIo, mkIo (src_consume s 0) k).
Proof.
  intros Hl Hn. unfold read_exact. destruct (N.to_nat n) as [|f] eqn:Ef; [lia|].
  rewrite read_exact_loop_unfold. destruct (N.eqb_spec n 0) as [Z|_]; [lia|].
  rewrite interp_bind. unfold read_buf. destruct (N.eqb_spec n 0) as [Z|_]; [lia|].
  rewrite interp_bind, interp_call. cbn [io_h i_src i_snk]. rewrite (take_limit_fill s Hl).
  rewrite interp_bind, interp_call. cbn [io_h i_src i_snk fst snd]. rewrite N.min_0_r.
  unfold nfirstn. cbn [N.to_nat firstn]. reflexivity.
Qed.

Lemma src_consume_0 s : s_limit s = Some 0 ->
  s_rest (src_consume s 0) = s_rest s /\ s_pos (src_consume s 0) = s_pos s /\ s_limit (src_consume s 0) = Some 0.
Proof.
  intros Hl. unfold src_consume. cbn [s_rest s_pos s_limit]. rewrite Hl.
  split; [reflexivity|]. split; [apply N.add_0_r|reflexivity].
Qed.

(* 8. with s_limit = Some 0 every read_u8 fails with EIo, consumes nothing, and the limit stays
   exhausted: a decoder that still needs a byte after the declared packed size fails *)
Theorem take_limit_eof s k : s_limit s = Some 0 ->
  exists s', run_io read_u8 (mkIo s k) = (Failed EIo, mkIo s' k) /\
             s_rest s' = s_rest s /\ s_pos s' = s_pos s /\ s_limit s' = Some 0.
Proof.
  intros Hl. exists (src_consume s 0). split; [|apply src_consume_0; exact Hl].
  unfold run_io, read_u8. rewrite interp_bind. rewrite take_limit_read_exact by (assumption || lia). reflexivity.
Qed.
Print Assumptions take_limit_eof.

Corollary take_limit_eof_src s : s_limit s = Some 0 ->
  exists s', src_run read_u8 s = (Failed EIo, s') /\
             s_rest s' = s_rest s /\ s_pos s' = s_pos s /\ s_limit s' = Some 0.
Proof.
  intros Hl. destruct (take_limit_eof s vec_sink Hl) as (s' & E & R).
  exists s'. split; [|exact R]. unfold src_run. rewrite E. reflexivity.
Qed.

Corollary take_limit_read_exact_src s n : s_limit s = Some 0 -> 0 < n ->
  exists s', src_run (read_exact n) s = (Failed EIo, s') /\
             s_rest s' = s_rest s /\ s_pos s' = s_pos s /\ s_limit s' = Some 0.
Proof.
  intros Hl Hn. exists (src_consume s 0). split; [|apply src_consume_0; exact Hl].
  unfold src_run, run_io. rewrite take_limit_read_exact by assumption. reflexivity.
Qed.

(* the range decoder needing one more byte *)
Theorem take_limit_rc_normalize r s : s_limit s = Some 0 -> r_range r < 16777216 ->
  exists s', src_run (rc_normalize r) s = (Failed EIo, s') /\
             s_rest s' = s_rest s /\ s_pos s' = s_pos s /\ s_limit s' = Some 0.
Proof.
  intros Hl Hr. destruct (take_limit_eof s vec_sink Hl) as (s' & E & R).
  exists s'. split; [|exact R]. unfold rc_normalize. destruct (N.ltb_spec (r_range r) 16777216); [|lia].
  unfold src_run, run_io in *. rewrite interp_bind, E. reflexivity.
Qed.
Print Assumptions take_limit_rc_normalize.

(* a direct bit whose normalisation needs a byte *)
Theorem take_limit_rc_get_bit r s : s_limit s = Some 0 -> N.shiftr (r_range r) 1 < 16777216 ->
  exists s', src_run (rc_get_bit r) s = (Failed EIo, s') /\ s_limit s' = Some 0.
Proof.
  intros Hl Hr. unfold rc_get_bit. cbv zeta.
  set (r1 := mkRc _ _).
  destruct (take_limit_rc_normalize r1 s Hl Hr) as (s' & E & _ & _ & L).
  exists s'. split; [|exact L]. unfold src_run, run_io in *. rewrite interp_bind.
  destruct (interp io_h (rc_normalize r1) (mkIo s vec_sink)) as [[a|e|q] w']; inversion E; subst; reflexivity.
Qed.

(* the range decoder cannot even be initialised from fewer than 5 payload bytes *)
Lemma rc_new_short s : FaultFreeL s -> nlen (s_rest s) < 5 \/ lim_lt s 5 ->
  exists s', src_run rc_new s = (Failed EIo, s') /\ FaultFreeL s'.
Proof.
  intros Hs Hsh. unfold rc_new.
  destruct (s_rest s) as [|b t] eqn:Hr.
  - destruct (io_read_u8_eofL s Hs (or_introl Hr)) as (s' & E & F & _).
    exists s'. split; [|exact F]. apply io_runs_src_run. apply io_runs_bind_fail. exact E.
  - assert (Hcases : s_limit s = Some 0 \/ (lim_ge s 1 /\ (nlen t < 4 \/ exists l, s_limit s = Some l /\ l < 5))).
    { unfold lim_ge, lim_lt in *. rewrite nlen_cons in Hsh. destruct (s_limit s) as [l|].
      - destruct (N.eq_dec l 0) as [->|]; [left; reflexivity|]. right. split; [lia|].
        destruct Hsh as [H|H]; [left; lia|right; exists l; split; [reflexivity|exact H]].
      - right. split; [exact I|]. destruct Hsh as [H|[]]. left. lia. }
    destruct Hcases as [H0|[Hge Hsh']].
    + destruct (io_read_u8_eofL s Hs (or_intror H0)) as (s' & E & F & _).
      exists s'. split; [|exact F]. apply io_runs_src_run. apply io_runs_bind_fail. exact E.
    + destruct (io_read_u8_specL s b t Hs Hr Hge) as (s1 & E1 & R1 & _ & L1 & F1).
      destruct (io_read_exact_eofL s1 4 F1) as (s2 & E2 & F2 & _).
      { rewrite R1. destruct Hsh' as [H|(l & Hl & H)]; [left; exact H|right].
        unfold lim_lt, lim_sub in *. rewrite L1, Hl. lia. }
      exists s2. split; [|exact F2]. apply io_runs_src_run.
      eapply io_runs_bind; [exact E1|]. cbv beta. unfold read_u32_be.
      apply io_runs_bind_fail. apply io_runs_bind_fail. exact E2.
Qed.

Lemma pl_payload_short fuel us ps w :
  FaultFreeL (w_src w) -> ps < 5 \/ nlen (s_rest (w_src w)) < 5 ->
  exists w', pl_payload fuel us ps w = (Failed ELzma, w').
Proof.
  intros Hs Hsh. unfold pl_payload. cbv zeta.
  destruct (rc_new_short (set_limit (w_src w) (Some ps)) (set_limit_FaultFreeL _ _ Hs)) as (s' & E & _).
  { destruct Hsh as [H|H]; [right; unfold lim_lt; cbn [set_limit s_limit]; exact H|left; exact H]. }
  rewrite src_run_map_io_err by (apply set_limit_FaultFreeL; exact Hs). rewrite E. cbn [remap].
  eexists. reflexivity.
Qed.

(* 9. a compressed chunk whose declared packed size is below the 5 bytes the range decoder
   reads first, or whose payload is cut off inside those 5 bytes, is never accepted *)
Theorem packed_size_lt5_rejected fuel status w u1 u0 p1 p0 t :
  W2ok w -> N.land status 128 <> 0 -> s_rest (w_src w) = u1 :: u0 :: p1 :: p0 :: t ->
  be_num [p1; p0] + 1 < 5 \/ nlen t < 5 ->
  fst (parse_lzma fuel status w) <> Done tt.
Proof.
  intros Hw Hst Hr Hsh.
  destruct (parse_lzma_header fuel status w u1 u0 p1 p0 t Hw Hst Hr) as (s2 & a' & F2 & R2 & K2 & _ & E).
  rewrite E.
  assert (H3 : W2ok (mkW2 (w_ds w) s2 a')) by (split; assumption).
  pose proof (pl_props_ok (negb (l2_cls status =? 0)) ((l2_cls status =? 2) || (l2_cls status =? 3)) _ H3) as H4.
  assert (R4 : nlen (s_rest (w_src (snd (pl_props (negb (l2_cls status =? 0)) ((l2_cls status =? 2) || (l2_cls status =? 3))
                  (mkW2 (w_ds w) s2 a'))))) <= nlen t).
  { unfold pl_props. destruct (negb _); [|cbn [snd w_src]; rewrite R2; lia]. cbv zeta.
    destruct (_ || _).
    - cbn [w_src]. destruct (s_rest s2) as [|b t'] eqn:R2'.
      + destruct (mapped_read_u8_eof s2 F2 R2') as (s3 & E3 & R3 & _). unfold w2_src. cbn [w_src]. rewrite E3.
        cbn [fst snd w_src]. rewrite R3, nlen_nil. lia.
      + destruct (mapped_read_u8 s2 b t' F2 R2') as (s3 & E3 & R3 & _). unfold w2_src. cbn [w_src]. rewrite E3.
        cbn [fst snd]. assert (nlen t' <= nlen t) by (rewrite <- R2, nlen_cons; lia).
        destruct (225 <=? b); [cbn [snd w_src]; rewrite R3; assumption|].
        destruct (4 <? _); [cbn [snd w_src]; rewrite R3; assumption|].
        cbn [w_ds]. destruct (reset_state _ _) as [[d|e|q] u]; cbn [snd w_src]; rewrite R3; assumption.
    - destruct (reset_state _ _) as [[d|e|q] u]; cbn [snd w_src]; rewrite R2; lia. }
  destruct (pl_props _ _ _) as [[u|e|q] w4]; cbn [snd fst] in *; try discriminate.
  destruct (pl_payload_short fuel (l2_unpacked status (be_num [u1; u0])) (be_num [p1; p0] + 1) w4) as (w' & E').
  { apply FaultFree_L. apply H4. }
  { destruct Hsh as [H|H]; [left; exact H|right; lia]. }
  rewrite E'. cbn [fst]. discriminate.
Qed.
Print Assumptions packed_size_lt5_rejected.

(* ================================================================== *)
(* the chunk loop                                                      *)
(* ================================================================== *)
Lemma iter_step_break_inv {St Rs} (body : St -> step St Rs) : forall m s r,
  iter_step m body s = Break r ->
  exists n s1, (n < m)%nat /\ iter_step n body s = Next s1 /\ body s1 = Break r.
Proof.
  induction m as [|m IH]; intros s r H; cbn [iter_step] in H; [discriminate|].
  destruct (body s) as [s'|r'] eqn:E.
  - destruct (IH s' r H) as (n & s1 & Hn & H1 & H2). exists (S n), s1.
    split; [lia|]. split; [|exact H2]. cbn [iter_step]. rewrite E. exact H1.
  - inversion H; subst. exists 0%nat, s. split; [lia|]. split; [reflexivity|exact E].
Qed.

Lemma iter_step_prefix {St Rs} (body : St -> step St Rs) n i s sn :
  (i <= n)%nat -> iter_step n body s = Next sn ->
  exists si, iter_step i body s = Next si /\ iter_step (n - i) body si = Next sn.
Proof.
  intros Hi H. replace n with (i + (n - i))%nat in H by lia. rewrite iter_step_add in H.
  destruct (iter_step i body s) as [si|r]; [|discriminate]. exists si. split; [reflexivity|exact H].
Qed.

Lemma iter_step_succ {St Rs} (body : St -> step St Rs) i s :
  iter_step (S i) body s = match iter_step i body s with Next si => body si | Break r => Break r end.
Proof.
  replace (S i) with (i + 1)%nat by lia. rewrite iter_step_add.
  destruct (iter_step i body s) as [si|r]; [|reflexivity]. cbn [iter_step]. destruct (body si); reflexivity.
Qed.

(* a Break at iteration n is what the loop returns (if the fuel reaches that far) *)
Lemma loopN_break_at {St Rs} (body : St -> step St Rs) n s s1 r p :
  iter_step n body s = Next s1 -> body s1 = Break r ->
  if (n <? Pos.to_nat p)%nat then loopN p body s = Break r else exists s', loopN p body s = Next s'.
Proof.
  intros H1 H2. rewrite loopN_iter. destruct (Nat.ltb_spec n (Pos.to_nat p)) as [Hlt|Hge].
  - replace (Pos.to_nat p) with (n + S (Pos.to_nat p - S n))%nat by lia.
    rewrite iter_step_add, H1. cbn [iter_step]. rewrite H2. reflexivity.
  - destruct (iter_step_prefix body n (Pos.to_nat p) s s1 Hge H1) as (si & E & _). exists si. exact E.
Qed.

Definition l2_w0 (dec : lzma2_decoder) (io0 : io) : w2 :=
  mkW2 (l2_state dec) (i_src io0) (accum_new (i_snk io0) (USIZE - 1)).

Lemma l2_body_done_inv fuel w u w' : l2_body fuel w = Break (Done u, w') ->
  exists s', src_run (map_io_err ELzma read_u8) (w_src w) = (Done 0, s') /\ w' = mkW2 (w_ds w) s' (w_acc w).
Proof.
  unfold l2_body, w2_src.
  destruct (src_run (map_io_err ELzma read_u8) (w_src w)) as [[c|e|q] s']; cbn [fst snd]; try discriminate.
  destruct (N.eqb_spec c 0) as [->|Hc].
  - intros H; inversion H; subst. exists s'. split; reflexivity.
  - cbv zeta. set (r := if c =? 1 then _ else _). destruct r as [[u'|e|q] w'']; discriminate.
Qed.

(* 7. Done means: every iteration of l2_body before the last returned Next (no chunk at any
   position was rejected), the last control byte read was 0, and the final flush succeeded *)
Theorem lzma2_ok_means_all_chunks_ok fuel dec io0 x :
  lzma2_decompress fuel dec io0 = (Done tt, x) ->
  exists n wl s',
    (n < Pos.to_nat fuel)%nat /\
    iter_step n (l2_body fuel) (l2_w0 dec io0) = Next wl /\
    (forall i, (i < n)%nat -> exists wi wi',
        iter_step i (l2_body fuel) (l2_w0 dec io0) = Next wi /\ l2_body fuel wi = Next wi' /\
        iter_step (S i) (l2_body fuel) (l2_w0 dec io0) = Next wi') /\
    src_run (map_io_err ELzma read_u8) (w_src wl) = (Done 0, s') /\
    l2_body fuel wl = Break (Done tt, mkW2 (w_ds wl) s' (w_acc wl)) /\
    accum_finish (w_acc wl) = (Done tt, i_snk (snd x)) /\
    x = (mkL2 (w_ds wl), mkIo s' (i_snk (snd x))).
Proof.
  intros H. unfold lzma2_decompress in H. cbv zeta in H.
  change (mkW2 (l2_state dec) (i_src io0) (accum_new (i_snk io0) (USIZE - 1))) with (l2_w0 dec io0) in H.
  rewrite loopN_iter in H.
  destruct (iter_step (Pos.to_nat fuel) (l2_body fuel) (l2_w0 dec io0)) as [w|[[u|e|q] w]] eqn:EL; try discriminate.
  destruct (accum_finish (w_acc w)) as [r k] eqn:EF. inversion H; subst. clear H.
  destruct (iter_step_break_inv _ _ _ _ EL) as (n & wl & Hn & H1 & H2).
  destruct (l2_body_done_inv _ _ _ _ H2) as (s' & E & ->). destruct u.
  exists n, wl, s'. cbn [w_ds w_src w_acc snd i_snk] in *.
  split; [exact Hn|]. split; [exact H1|]. split; [|split; [exact E|split; [exact H2|split; [exact EF|reflexivity]]]].
  intros i Hi.
  destruct (iter_step_prefix (l2_body fuel) n i _ _ (Nat.lt_le_incl _ _ Hi) H1) as (wi & Ei & _).
  destruct (iter_step_prefix (l2_body fuel) n (S i) _ _ Hi H1) as (wi' & Ei' & _).
  exists wi, wi'. split; [exact Ei|]. split; [|exact Ei'].
  rewrite iter_step_succ, Ei in Ei'. exact Ei'.
Qed.
Print Assumptions lzma2_ok_means_all_chunks_ok.

(* a chunk rejected at position n makes the whole stream fail, with that very outcome *)
Theorem lzma2_rejected_at fuel dec io0 n w r w' :
  iter_step n (l2_body fuel) (l2_w0 dec io0) = Next w ->
  l2_body fuel w = Break (r, w') -> r <> Done tt ->
  fst (lzma2_decompress fuel dec io0) <> Done tt /\
  ((n < Pos.to_nat fuel)%nat -> fst (lzma2_decompress fuel dec io0) = r).
Proof.
  intros H1 H2 Hr. pose proof (loopN_break_at (l2_body fuel) n _ _ _ fuel H1 H2) as L.
  unfold lzma2_decompress. cbv zeta.
  change (mkW2 (l2_state dec) (i_src io0) (accum_new (i_snk io0) (USIZE - 1))) with (l2_w0 dec io0).
  destruct (Nat.ltb_spec n (Pos.to_nat fuel)) as [Hlt|Hge].
  - rewrite L. destruct r as [[]|e|q]; [contradiction| |]; cbn [fst]; (split; [discriminate|reflexivity]).
  - destruct L as (s' & ->). cbn [fst]. split; [discriminate|lia].
Qed.
Print Assumptions lzma2_rejected_at.

Corollary lzma2_done_no_rejection fuel dec io0 x :
  lzma2_decompress fuel dec io0 = (Done tt, x) ->
  forall n w, iter_step n (l2_body fuel) (l2_w0 dec io0) = Next w ->
  forall r w', l2_body fuel w = Break (r, w') -> r = Done tt.
Proof.
  intros H n w H1 r w' H2. destruct r as [[]|e|q]; [reflexivity| |].
  - destruct (lzma2_rejected_at fuel dec io0 n w (Failed e) w' H1 H2) as [C _]; [discriminate|].
    rewrite H in C. exfalso. apply C. reflexivity.
  - destruct (lzma2_rejected_at fuel dec io0 n w (Panicked q) w' H1 H2) as [C _]; [discriminate|].
    rewrite H in C. exfalso. apply C. reflexivity.
Qed.

(* every chunk position reached from a fault-free world is fault free *)
Lemma positions_ok fuel n w0 w : W2ok w0 -> iter_step n (l2_body fuel) w0 = Next w -> W2ok w.
Proof.
  intros H0 H.
  pose proof (iter_step_inv (l2_body fuel) W2ok (fun _ => True)
                (fun s s' Hs E => l2_body_ok fuel s s' Hs E) (fun _ _ _ _ => I) n w0 H0) as P.
  rewrite H in P. exact P.
Qed.

Lemma l2_w0_ok dec io0 : FaultFree (i_src io0) -> k_wfail (i_snk io0) = None -> W2ok (l2_w0 dec io0).
Proof. intros H1 H2. split; assumption. Qed.

(* ================================================================== *)
(* the malformations, read off the bytes at a chunk boundary           *)
(* ================================================================== *)
Inductive malformed_chunk : list N -> Prop :=
| mf_missing_end : malformed_chunk []
| mf_bad_control c t : 3 <= c <= 127 -> malformed_chunk (c :: t)
| mf_raw_header_short c t : c = 1 \/ c = 2 -> nlen t < 2 -> malformed_chunk (c :: t)
| mf_raw_short c u1 u0 t : c = 1 \/ c = 2 -> nlen t < be_num [u1; u0] + 1 -> malformed_chunk (c :: u1 :: u0 :: t)
| mf_lzma_header_short c t : N.land c 128 <> 0 -> nlen t < 4 -> malformed_chunk (c :: t)
| mf_props_missing c u1 u0 p1 p0 : N.land c 128 <> 0 -> 2 <= l2_cls c -> malformed_chunk [c; u1; u0; p1; p0]
| mf_props_225 c u1 u0 p1 p0 pbyte t : N.land c 128 <> 0 -> 2 <= l2_cls c -> 225 <= pbyte ->
    malformed_chunk (c :: u1 :: u0 :: p1 :: p0 :: pbyte :: t)
| mf_props_lc_lp c u1 u0 p1 p0 pbyte t : N.land c 128 <> 0 -> 2 <= l2_cls c ->
    pbyte < 225 -> 4 < pbyte mod 9 + (pbyte / 9) mod 5 ->
    malformed_chunk (c :: u1 :: u0 :: p1 :: p0 :: pbyte :: t)
| mf_packed_short c u1 u0 p1 p0 t : N.land c 128 <> 0 -> be_num [p1; p0] + 1 < 5 \/ nlen t < 5 ->
    malformed_chunk (c :: u1 :: u0 :: p1 :: p0 :: t).

Lemma l2_dispatch_raw fuel c w : c = 1 \/ c = 2 ->
  l2_dispatch fuel c w =
  match parse_uncompressed (c =? 1) w with (Done _, w') => Next w' | r' => Break r' end.
Proof.
  intros [->| ->]; unfold l2_dispatch.
  - change (1 =? 0) with false. change (1 =? 1) with true. cbv iota zeta.
    destruct (parse_uncompressed true w) as [[u|e|q] w']; reflexivity.
  - change (2 =? 0) with false. change (2 =? 1) with false. change (2 =? 2) with true. cbv iota zeta.
    destruct (parse_uncompressed false w) as [[u|e|q] w']; reflexivity.
Qed.

Lemma l2_dispatch_lzma fuel c w : N.land c 128 <> 0 ->
  l2_dispatch fuel c w =
  match parse_lzma fuel c w with (Done _, w') => Next w' | r' => Break r' end.
Proof.
  intros H. unfold l2_dispatch.
  destruct (N.eqb_spec c 0) as [->|_]; [exfalso; apply H; reflexivity|].
  destruct (N.eqb_spec c 1) as [->|_]; [exfalso; apply H; reflexivity|].
  destruct (N.eqb_spec c 2) as [->|_]; [exfalso; apply H; reflexivity|]. cbv zeta.
  destruct (parse_lzma fuel c w) as [[u|e|q] w']; reflexivity.
Qed.

Theorem malformed_chunk_rejected fuel w :
  W2ok w -> malformed_chunk (s_rest (w_src w)) ->
  exists r w', l2_body fuel w = Break (r, w') /\ r <> Done tt.
Proof.
  intros [Hs Hk] M.
  assert (FE : forall e w', l2_body fuel w = Break (Failed e, w') ->
               exists r w', l2_body fuel w = Break (r, w') /\ r <> Done tt).
  { intros e w' E. exists (Failed e), w'. split; [exact E|discriminate]. }
  remember (s_rest (w_src w)) as data eqn:Hd. symmetry in Hd.
  destruct M as [|c t Hc|c t Hc Hn|c u1 u0 t Hc Hn|c t Hc Hn|c u1 u0 p1 p0 Hc Hcl
                 |c u1 u0 p1 p0 pbyte t Hc Hcl Hp|c u1 u0 p1 p0 pbyte t Hc Hcl Hp Hl|c u1 u0 p1 p0 t Hc Hsh].
  - destruct (missing_end_rejected fuel w Hs Hd) as (w' & E). eapply FE; exact E.
  - destruct (bad_control_rejected fuel w c t Hs Hd Hc) as (w' & E). eapply FE; exact E.
  - destruct (l2_body_read fuel w c _ Hs Hd) as (s1 & F1 & R1 & _ & E).
    destruct (raw_chunk_header_short_rejected (c =? 1) (mkW2 (w_ds w) s1 (w_acc w)) F1) as (w' & E'); [cbn [w_src]; rewrite R1; exact Hn|].
    eapply FE. rewrite E, l2_dispatch_raw by exact Hc. rewrite E'. reflexivity.
  - destruct (l2_body_read fuel w c _ Hs Hd) as (s1 & F1 & R1 & _ & E).
    destruct (raw_chunk_short_rejected (c =? 1) (mkW2 (w_ds w) s1 (w_acc w)) u1 u0 t (conj F1 Hk) R1 Hn) as (w' & E').
    eapply FE. rewrite E, l2_dispatch_raw by exact Hc. rewrite E'. reflexivity.
  - destruct (l2_body_read fuel w c _ Hs Hd) as (s1 & F1 & R1 & _ & E).
    destruct (lzma_chunk_header_short_rejected fuel c (mkW2 (w_ds w) s1 (w_acc w)) F1 Hc) as (w' & E'); [cbn [w_src]; rewrite R1; exact Hn|].
    eapply FE. rewrite E, l2_dispatch_lzma by exact Hc. rewrite E'. reflexivity.
  - destruct (l2_body_read fuel w c _ Hs Hd) as (s1 & F1 & R1 & _ & E).
    destruct (props_missing_rejected fuel c (mkW2 (w_ds w) s1 (w_acc w)) u1 u0 p1 p0 (conj F1 Hk) Hc Hcl R1) as (w' & E').
    eapply FE. rewrite E, l2_dispatch_lzma by exact Hc. rewrite E'. reflexivity.
  - destruct (l2_body_read fuel w c _ Hs Hd) as (s1 & F1 & R1 & _ & E).
    destruct (props_ge_225_rejected fuel c (mkW2 (w_ds w) s1 (w_acc w)) u1 u0 p1 p0 pbyte t (conj F1 Hk) Hc Hcl R1 Hp) as (w' & E').
    eapply FE. rewrite E, l2_dispatch_lzma by exact Hc. rewrite E'. reflexivity.
  - destruct (l2_body_read fuel w c _ Hs Hd) as (s1 & F1 & R1 & _ & E).
    destruct (props_lc_lp_rejected fuel c (mkW2 (w_ds w) s1 (w_acc w)) u1 u0 p1 p0 pbyte t (conj F1 Hk) Hc Hcl R1 Hp Hl) as (w' & E').
    eapply FE. rewrite E, l2_dispatch_lzma by exact Hc. rewrite E'. reflexivity.
  - destruct (l2_body_read fuel w c _ Hs Hd) as (s1 & F1 & R1 & _ & E).
    pose proof (packed_size_lt5_rejected fuel c (mkW2 (w_ds w) s1 (w_acc w)) u1 u0 p1 p0 t (conj F1 Hk) Hc R1 Hsh) as N.
    rewrite E, l2_dispatch_lzma by exact Hc.
    destruct (parse_lzma fuel c _) as [[[]|e|q] w']; cbn [fst] in N.
    + exfalso. apply N. reflexivity.
    + exists (Failed e), w'. split; [reflexivity|discriminate].
    + exists (Panicked q), w'. split; [reflexivity|discriminate].
Qed.
Print Assumptions malformed_chunk_rejected.

(* C17: on a fault-free source of any fragmentation and a sink that does not fail writes, Done
   implies that none of the listed malformations occurs at any chunk position *)
Theorem lzma2_done_implies_wellformed fuel dec io0 x :
  FaultFree (i_src io0) -> k_wfail (i_snk io0) = None ->
  lzma2_decompress fuel dec io0 = (Done tt, x) ->
  forall n w, iter_step n (l2_body fuel) (l2_w0 dec io0) = Next w ->
    W2ok w /\ ~ malformed_chunk (s_rest (w_src w)).
Proof.
  intros Hs Hk H n w Hn.
  pose proof (positions_ok fuel n _ w (l2_w0_ok dec io0 Hs Hk) Hn) as Hw.
  split; [exact Hw|]. intros M.
  destruct (malformed_chunk_rejected fuel w Hw M) as (r & w' & E & Hr).
  apply Hr. eapply lzma2_done_no_rejection; eauto.
Qed.
Print Assumptions lzma2_done_implies_wellformed.

(* ... and conversely a malformation at any reachable position makes the stream fail *)
Theorem lzma2_malformed_fails fuel dec io0 n w :
  FaultFree (i_src io0) -> k_wfail (i_snk io0) = None ->
  iter_step n (l2_body fuel) (l2_w0 dec io0) = Next w ->
  malformed_chunk (s_rest (w_src w)) ->
  fst (lzma2_decompress fuel dec io0) <> Done tt.
Proof.
  intros Hs Hk Hn M.
  pose proof (positions_ok fuel n _ w (l2_w0_ok dec io0 Hs Hk) Hn) as Hw.
  destruct (malformed_chunk_rejected fuel w Hw M) as (r & w' & E & Hr).
  apply (lzma2_rejected_at fuel dec io0 n w r w' Hn E Hr).
Qed.
Print Assumptions lzma2_malformed_fails.

(* an accepted compressed chunk, at any position, grew the window by exactly its declared size *)
Theorem l2_body_lzma_chunk_exact fuel w w' c u1 u0 t :
  FaultFree (w_src w) -> s_rest (w_src w) = c :: u1 :: u0 :: t -> N.land c 128 <> 0 ->
  l2_body fuel w = Next w' ->
  a_len (w_acc w') = l2_unpacked c (be_num [u1; u0]) + (if l2_cls c =? 3 then 0 else a_len (w_acc w)).
Proof.
  intros Hs Hr Hc H. destruct (l2_body_read fuel w c _ Hs Hr) as (s1 & F1 & R1 & _ & E).
  rewrite E, l2_dispatch_lzma in H by exact Hc.
  destruct (parse_lzma fuel c _) as [[[]|e|q] w''] eqn:EP; inversion H; subst.
  exact (unpacked_mismatch_rejected_bytes fuel c (mkW2 (w_ds w) s1 (w_acc w)) w' u1 u0 t F1 R1 EP).
Qed.
Print Assumptions l2_body_lzma_chunk_exact.

(* the two framing errors with an exact outcome, at any position within the fuel *)
Corollary bad_control_fails_stream fuel dec io0 n w c t :
  iter_step n (l2_body fuel) (l2_w0 dec io0) = Next w -> (n < Pos.to_nat fuel)%nat ->
  FaultFree (w_src w) -> s_rest (w_src w) = c :: t -> 3 <= c <= 127 ->
  fst (lzma2_decompress fuel dec io0) = Failed ELzma.
Proof.
  intros Hn Hf Hs Hr Hc. destruct (bad_control_rejected fuel w c t Hs Hr Hc) as (w' & E).
  apply (lzma2_rejected_at fuel dec io0 n w (Failed ELzma) w' Hn E); [discriminate|exact Hf].
Qed.
Print Assumptions bad_control_fails_stream.

Corollary missing_end_fails_stream fuel dec io0 n w :
  iter_step n (l2_body fuel) (l2_w0 dec io0) = Next w -> (n < Pos.to_nat fuel)%nat ->
  FaultFree (w_src w) -> s_rest (w_src w) = [] ->
  fst (lzma2_decompress fuel dec io0) = Failed ELzma.
Proof.
  intros Hn Hf Hs Hr. destruct (missing_end_rejected fuel w Hs Hr) as (w' & E).
  apply (lzma2_rejected_at fuel dec io0 n w (Failed ELzma) w' Hn E); [discriminate|exact Hf].
Qed.
Print Assumptions missing_end_fails_stream.

(* ---------- the hypotheses are satisfiable: byte-at-a-time source, concrete streams ---------- *)
Definition c17_run (data : list N) : outcome unit * list N * N :=
  let '(r, w) := lzma2_decompress_top big_fuel (mkIo (src_of data (fun _ => 1) None) vec_sink) in
  (r, snk_bytes (i_snk w), s_pos (i_src w)).

Example c17_ok            : c17_run [1; 0; 2; 65; 66; 67; 0] = (Done tt, [65; 66; 67], 7).   Proof. vm_compute. reflexivity. Qed.
Example c17_bad_control   : c17_run [1; 0; 2; 65; 66; 67; 3] = (Failed ELzma, [], 7).        Proof. vm_compute. reflexivity. Qed.
Example c17_missing_end   : c17_run [1; 0; 2; 65; 66; 67] = (Failed ELzma, [], 6).           Proof. vm_compute. reflexivity. Qed.
Example c17_raw_short     : c17_run [1; 0; 2; 65; 66] = (Failed ELzma, [], 5).               Proof. vm_compute. reflexivity. Qed.
Example c17_props_225     : c17_run [224; 0; 0; 0; 9; 225; 0; 0; 0; 0; 0] = (Failed ELzma, [], 6). Proof. vm_compute. reflexivity. Qed.
Example c17_props_lc_lp   : c17_run [224; 0; 0; 0; 9; 44; 0; 0; 0; 0; 0] = (Failed ELzma, [], 6).  Proof. vm_compute. reflexivity. Qed.
Example c17_packed_short  : c17_run [224; 0; 0; 0; 3; 0; 0; 0; 0; 0; 0] = (Failed ELzma, [], 10).  Proof. vm_compute. reflexivity. Qed.
