(* C12 (a) for the streaming decoder (decode/stream.rs): I/O faults of the sink propagate.

   The sink of a Stream may fail at its j-th write call (k_wfail = Some j), may fail on flush
   (k_ffail = true) and may accept only a part of every write (k_accept).  Whatever the option
   set, the input and the sink behaviour:
   - the call of the Write interface during which the write fault is newly hit returns exactly
     Failed EIo - never Done, never Panicked, never another error ([stream_write_fault_propagates],
     [stream_finish_fault_propagates], and for whole call sequences [stream_fault_propagates],
     [stream_first_hit]);
   - flush reports a failing flush of the sink as Failed EIo and never panics ([stream_flush_fault]);
   - finish never reports success when the flush of the sink fails, and counts exactly one
     flush when it succeeds ([stream_finish_flush]).

   Method: the outcome-indexed invariants of Proofs/FaultProp.v ([process_mode_inv] for both
   modes, [circ_finish_inv]) are lifted once, for an abstract family Pk, to stream_read_data,
   stream_write and stream_finish ([Section StreamCore]); the source of a Stream is a fault-free
   cursor, so the source family is the trivial one ([trivP]).  Instances: [PkHit] and [PkFl].

   NOTE on evaluation: stream_write / stream_finish / stream_read_data contain
   [process_mode .. big_fuel ..]; no proof below lets simpl / cbn / discriminate / inversion look
   into such a term on abstract input. *)
From LZ Require Import Base.Prelude Base.Prog Model.Io Model.Tables Model.LzBuffer Model.RangeDec
  Model.Lzma Model.Enc Model.Stream Proofs.ProgLemmas Proofs.IoLemmas Proofs.FaultProp Proofs.FaultTheorems
  Proofs.FaultLockstep Proofs.StreamLatch Proofs.StreamPrefix Proofs.MemLimitStream.

(* ======================================================================= *)
(* 0. small facts about the Write interface                                *)
(* ======================================================================= *)

(* while the header is being read the sink is not touched (whatever the outcome) *)
Lemma write_header_sink s d k : st_state s = Some (SHeader k) ->
  stream_sink (snd (stream_write s d)) = k.
Proof.
  intros Es. destruct (stream_write s d) as [r s'] eqn:H. cbn [snd].
  unfold stream_write in H. rewrite Es in H.
  destruct (0 <? nlen (st_tmp s)).
  - set (n := N.min (nlen d) (MAX_TMP_LEN - nlen (st_tmp s))) in *. clearbody n.
    destruct (stream_read_header k (cursor_of (st_tmp s ++ nfirstn n d)) (st_opts s)) as [[[k'|r']|e|p] ts] eqn:E.
    + apply read_header_state in E. subst k'.
      destruct (nlen (st_tmp s ++ nfirstn n d) =? 0); inversion H; subst; reflexivity.
    + apply read_header_state in E. inversion H; subst. reflexivity.
    + inversion H; subst. reflexivity.
    + inversion H; subst. reflexivity.
  - destruct (stream_read_header k (cursor_of d) (st_opts s)) as [[[k'|r']|e|p] ts] eqn:E.
    + apply read_header_state in E. subst k'.
      destruct (nlen (st_tmp s) =? 0); inversion H; subst; reflexivity.
    + apply read_header_state in E. inversion H; subst. reflexivity.
    + inversion H; subst. reflexivity.
    + inversion H; subst. reflexivity.
Qed.

Lemma stream_sink_header s k : st_state s = Some (SHeader k) -> stream_sink s = k.
Proof. intros E. unfold stream_sink. rewrite E. reflexivity. Qed.
Lemma stream_sink_data s r : st_state s = Some (SData r) -> stream_sink s = c_snk (rs_out r).
Proof. intros E. unfold stream_sink. rewrite E. reflexivity. Qed.
Lemma stream_sink_dead s : st_state s = None -> stream_sink s = st_ghost s.
Proof. intros E. unfold stream_sink. rewrite E. reflexivity. Qed.

(* ======================================================================= *)
(* 1. the layered invariant, lifted to the Stream calls                    *)
(* ======================================================================= *)
Section StreamCore.
Variable Pk : ocls -> snk -> Prop.
Hypothesis Pk_any : forall b k, Pk KDone k -> Pk b k.
Hypothesis Pk_write : forall k bs, Pk KDone k ->
  match snk_write k bs with HOk _ k' => Pk KDone k' | HErr e k' => Pk (KFail e) k' | HPanic _ k' => Pk KPanic k' end.

Lemma process_mode_stream_inv mode input r :
  Pk KDone (c_snk (rs_out r)) ->
  let y := process_mode mode big_fuel (mkLw (rs_dec r) (rs_rc r) input (WCirc (rs_out r))) in
  Pk (cls (fst y)) (c_snk (match l_win (snd y) with WCirc c => c | WAccum _ => rs_out r end)).
Proof.
  intros Hk y.
  pose proof (process_mode_inv trivP Pk trivP_any Pk_any trivP_fill trivP_consume Pk_write mode big_fuel
                (mkLw (rs_dec r) (rs_rc r) input (WCirc (rs_out r))) (conj I Hk)) as H.
  pose proof (process_mode_is_circ mode big_fuel (mkLw (rs_dec r) (rs_rc r) input (WCirc (rs_out r))) I) as C.
  fold y in H, C. clearbody y. destruct y as [res x]. cbn [fst snd] in *.
  destruct H as [_ H]. destruct (l_win x) as [c|a]; [exact H|contradiction].
Qed.

Lemma read_data_inv r input : Pk KDone (c_snk (rs_out r)) ->
  Pk (cls (fst (stream_read_data r input))) (c_snk (rs_out (fst (snd (stream_read_data r input))))).
Proof.
  intros Hk. unfold stream_read_data.
  pose proof (process_mode_stream_inv Partial input r Hk) as H. cbv zeta in H.
  destruct (process_mode Partial big_fuel (mkLw (rs_dec r) (rs_rc r) input (WCirc (rs_out r)))) as [res x].
  cbn [fst snd rs_out] in *. exact H.
Qed.

Lemma write_phase2_inv s r1 input : Pk KDone (c_snk (rs_out r1)) ->
  Pk (cls (fst (write_phase2 s r1 input))) (stream_sink (snd (write_phase2 s r1 input))).
Proof.
  intros Hk. pose proof (read_data_inv r1 input Hk) as H. unfold write_phase2.
  destruct (stream_read_data r1 input) as [[[]|e|p] [r2 is]]; cbn [fst snd cls] in *;
    unfold stream_sink, dead; cbn [st_state st_ghost]; exact H.
Qed.

(* <Stream as Write>::write *)
Lemma stream_write_inv s d : Pk KDone (stream_sink s) ->
  Pk (cls (fst (stream_write s d))) (stream_sink (snd (stream_write s d))).
Proof.
  intros Hk. destruct (st_state s) as [[k|r]|] eqn:Es.
  - rewrite (write_header_sink s d k Es). apply Pk_any. rewrite (stream_sink_header s k Es) in Hk. exact Hk.
  - rewrite (stream_sink_data s r Es) in Hk. rewrite stream_write_split, Es.
    destruct (0 <? nlen (st_tmp s)); [|apply write_phase2_inv; exact Hk].
    pose proof (read_data_inv r (cursor_of (st_tmp s)) Hk) as H1.
    destruct (stream_read_data r (cursor_of (st_tmp s))) as [[[]|e|p] [r1 i1]]; cbn [fst snd cls] in H1.
    + apply write_phase2_inv. exact H1.
    + cbn [fst snd cls]. unfold stream_sink, dead. cbn [st_state st_ghost]. exact H1.
    + cbn [fst snd cls]. unfold stream_sink, dead. cbn [st_state st_ghost]. exact H1.
  - rewrite (write_when_dead s d Es). cbn [fst snd cls]. exact Hk.
Qed.

(* Stream::finish.  Only in the decoding state is anything written or flushed. *)
Definition StFinPost (s : stream) (r : outcome unit) (k : snk) : Prop :=
  match st_state s with
  | Some (SHeader k0) => k = k0 /\ (r = Done tt \/ r = Failed ELzma)
  | Some (SData _) => FinPost Pk r k
  | None => k = st_ghost s /\ r = Failed ELzma
  end.

Lemma stream_finish_inv s : Pk KDone (stream_sink s) ->
  StFinPost s (fst (stream_finish s)) (snd (stream_finish s)).
Proof.
  intros Hk. unfold StFinPost, stream_finish. destruct (st_state s) as [[k|r]|] eqn:Es.
  - destruct (0 <? nlen (st_tmp s)); cbn [fst snd]; auto.
  - rewrite (stream_sink_data s r Es) in Hk.
    destruct (negb (o_allow_incomplete (st_opts s))).
    + pose proof (process_mode_stream_inv FinishMode (cursor_of (st_tmp s)) r Hk) as H. cbv zeta in H.
      destruct (process_mode FinishMode big_fuel (mkLw (rs_dec r) (rs_rc r) (cursor_of (st_tmp s)) (WCirc (rs_out r)))) as [res x].
      cbn [fst snd] in H.
      set (c := match l_win x with WCirc c => c | WAccum _ => rs_out r end) in *. clearbody c.
      destruct res as [[]|e|p]; cbn [cls] in H.
      * apply (circ_finish_inv Pk Pk_any Pk_write c H).
      * cbn [fst snd FinPost cls]. exact H.
      * cbn [fst snd FinPost cls]. exact H.
    + apply (circ_finish_inv Pk Pk_any Pk_write (rs_out r) Hk).
  - cbn [fst snd]. auto.
Qed.
End StreamCore.

(* ======================================================================= *)
(* 2. Instance "the write fault has not been hit unless the result is Failed EIo" *)
(* ======================================================================= *)

(* the formulation, in the style of [Propagates] of FaultTheorems.v (the source of a Stream is a
   cursor over the caller's slice and has no faults, so only the sink matters) *)
Definition StreamPropagates {A} (k : snk) (r : outcome A) (k' : snk) : Prop :=
  snk_hit k = false -> snk_hit k' = false \/ r = Failed EIo.

Lemma PkHit_propagates {A} k (r : outcome A) k' :
  (PkHit KDone k -> PkHit (cls r) k') -> StreamPropagates k r k'.
Proof.
  intros H Hk. specialize (H Hk). destruct r as [a|[]|q]; cbn [cls PkHit] in H; auto.
Qed.

Lemma FinPost_hit {A} (r : outcome A) k : FinPost PkHit r k -> snk_hit k = false \/ r = Failed EIo.
Proof.
  destruct r as [a|[]|q]; cbn [FinPost cls PkHit]; auto.
  intros (k1 & B1 & B2). apply snk_flush_ok in B2. destruct B2 as [_ ->]. left. exact B1.
Qed.

(* ---- (1) write ---- *)
Theorem stream_write_fault_propagates s d r s' :
  stream_write s d = (r, s') -> StreamPropagates (stream_sink s) r (stream_sink s').
Proof.
  intros E. apply PkHit_propagates. intros Hk.
  pose proof (stream_write_inv PkHit PkHit_any PkHit_write s d Hk) as H. rewrite E in H. exact H.
Qed.
Print Assumptions stream_write_fault_propagates.

(* spelled out *)
Corollary stream_write_fault_propagates' s d r s' :
  stream_write s d = (r, s') -> snk_hit (stream_sink s) = false ->
  snk_hit (stream_sink s') = false \/ r = Failed EIo.
Proof. exact (stream_write_fault_propagates s d r s'). Qed.

(* a write that returns Ok, a panic, or any error other than Io has not hit the fault *)
Corollary stream_write_no_swallow s d r s' :
  stream_write s d = (r, s') -> snk_hit (stream_sink s) = false -> r <> Failed EIo ->
  snk_hit (stream_sink s') = false.
Proof. intros E Hk Hr. destruct (stream_write_fault_propagates s d r s' E Hk) as [A|A]; [exact A|contradiction]. Qed.

(* a single stream_read_data (one process_stream call in Partial mode) *)
Theorem stream_read_data_fault_propagates rs input :
  StreamPropagates (c_snk (rs_out rs)) (fst (stream_read_data rs input))
                   (c_snk (rs_out (fst (snd (stream_read_data rs input))))).
Proof. apply PkHit_propagates. apply (read_data_inv PkHit PkHit_any PkHit_write). Qed.

(* ---- (2) flush ---- *)
Theorem stream_flush_fault s r s' :
  stream_flush s = (r, s') ->
  (r = Done tt \/ r = Failed EIo) /\
  snk_hit (stream_sink s') = snk_hit (stream_sink s) /\
  (r = Failed EIo <-> exists rs, st_state s = Some (SData rs) /\ k_ffail (c_snk (rs_out rs)) = true) /\
  (r = Failed EIo -> s' = s) /\
  (r = Done tt -> forall rs, st_state s = Some (SData rs) ->
     k_ffail (c_snk (rs_out rs)) = false /\
     k_flushes (stream_sink s') = k_flushes (stream_sink s) + 1 /\
     snk_bytes (stream_sink s') = snk_bytes (stream_sink s)).
Proof.
  unfold stream_flush. intros H. destruct (st_state s) as [[k|rs]|] eqn:Es.
  - inversion H; subst. split; [left; reflexivity|]. split; [reflexivity|]. split; [split|split].
    + discriminate.
    + intros (rs & A & _). discriminate.
    + discriminate.
    + intros _ rs A. discriminate.
  - unfold snk_flush in H. destruct (k_ffail (c_snk (rs_out rs))) eqn:Ef; inversion H; subst.
    + split; [right; reflexivity|]. split; [reflexivity|]. split; [split|split].
      * intros _. exists rs. split; [reflexivity|exact Ef].
      * reflexivity.
      * reflexivity.
      * discriminate.
    + split; [left; reflexivity|]. split; [unfold stream_sink; cbn [st_state rs_out c_snk]; rewrite Es; reflexivity|].
      split; [split|split].
      * discriminate.
      * intros (rs' & A & B). inversion A; subst. congruence.
      * discriminate.
      * intros _ rs' A. inversion A; subst. split; [exact Ef|].
        unfold stream_sink; cbn [st_state rs_out c_snk]; rewrite Es. split; reflexivity.
  - inversion H; subst. split; [left; reflexivity|]. split; [reflexivity|]. split; [split|split].
    + discriminate.
    + intros (rs & A & _). discriminate.
    + discriminate.
    + intros _ rs A. discriminate.
Qed.
Print Assumptions stream_flush_fault.

Corollary stream_flush_propagates s r s' :
  stream_flush s = (r, s') -> StreamPropagates (stream_sink s) r (stream_sink s').
Proof. intros E Hk. left. destruct (stream_flush_fault s r s' E) as (_ & A & _). rewrite A. exact Hk. Qed.

Corollary stream_flush_never_panics s r s' : stream_flush s = (r, s') -> forall p, r <> Panicked p.
Proof. intros E p. destruct (stream_flush_fault s r s' E) as ([A|A] & _); rewrite A; discriminate. Qed.

(* ---- (3) finish ---- *)
Theorem stream_finish_fault_propagates s r k :
  stream_finish s = (r, k) -> StreamPropagates (stream_sink s) r k.
Proof.
  intros E Hk.
  pose proof (stream_finish_inv PkHit PkHit_any PkHit_write s Hk) as H. rewrite E in H. cbn [fst snd] in H.
  unfold StFinPost in H. destruct (st_state s) as [[k0|rs]|] eqn:Es.
  - destruct H as [-> _]. left. rewrite (stream_sink_header s k0 Es) in Hk. exact Hk.
  - apply FinPost_hit. exact H.
  - destruct H as [-> _]. left. rewrite (stream_sink_dead s Es) in Hk. exact Hk.
Qed.
Print Assumptions stream_finish_fault_propagates.

Corollary stream_finish_fault_propagates' s r k :
  stream_finish s = (r, k) -> snk_hit (stream_sink s) = false -> snk_hit k = false \/ r = Failed EIo.
Proof. exact (stream_finish_fault_propagates s r k). Qed.

(* the flush at finish: the counter moves exactly when finish succeeds, and a sink whose flush
   fails never lets finish report success (decoding state; see [finish_header_no_flush] below
   for the header state) *)
Definition StreamFlushPost (k0 : snk) (r : outcome unit) (k : snk) : Prop :=
  k_ffail k = k_ffail k0 /\
  match r with
  | Done _ => k_flushes k = k_flushes k0 + 1 /\ k_ffail k0 = false
  | _ => k_flushes k = k_flushes k0
  end.

Theorem stream_finish_flush_post s rs r k :
  stream_finish s = (r, k) -> st_state s = Some (SData rs) -> StreamFlushPost (c_snk (rs_out rs)) r k.
Proof.
  intros E Es. set (k0 := c_snk (rs_out rs)).
  assert (Hk : PkFl (k_flushes k0) (k_ffail k0) KDone (stream_sink s)).
  { rewrite (stream_sink_data s rs Es). split; reflexivity. }
  pose proof (stream_finish_inv (PkFl (k_flushes k0) (k_ffail k0)) (fun b k H => H) (PkFl_write _ _) s Hk) as H.
  rewrite E in H. cbn [fst snd] in H. unfold StFinPost in H. rewrite Es in H.
  unfold StreamFlushPost. destruct r as [u|e|q]; cbn [FinPost cls] in H; try (destruct H as [F1 F2]; split; assumption).
  destruct H as (k1 & [B1 B2] & F). apply snk_flush_ok in F. destruct F as [F1 ->]. cbn [k_flushes k_ffail].
  rewrite <- B2, <- B1. repeat split; assumption.
Qed.
Print Assumptions stream_finish_flush_post.

Theorem stream_finish_flush s rs r k :
  stream_finish s = (r, k) -> st_state s = Some (SData rs) ->
  (k_ffail (c_snk (rs_out rs)) = true -> r <> Done tt /\ k_flushes k = k_flushes (c_snk (rs_out rs))) /\
  (r = Done tt -> k_flushes k = k_flushes (c_snk (rs_out rs)) + 1 /\ k_ffail k = false).
Proof.
  intros E Es. destruct (stream_finish_flush_post s rs r k E Es) as [A B]. split.
  - intros Hf. destruct r as [[]|e|q]; [destruct B as [_ B]; congruence|split; [discriminate|exact B]..].
  - intros ->. destruct B as [B1 B2]. split; [exact B1|congruence].
Qed.
Print Assumptions stream_finish_flush.

(* MODEL FACT: in the header state finish does not flush the sink (and does not look at its
   flush switch): with an empty tmp buffer it returns Ok and hands the sink back untouched. *)
Theorem finish_header_no_flush s k0 :
  st_state s = Some (SHeader k0) ->
  stream_finish s = (if 0 <? nlen (st_tmp s) then Failed ELzma else Done tt, k0).
Proof. intros Es. unfold stream_finish. rewrite Es. destruct (0 <? nlen (st_tmp s)); reflexivity. Qed.

Example finish_header_no_flush_ex o :
  stream_finish (stream_new o (snk_new frag_all None true)) = (Done tt, snk_new frag_all None true).
Proof. reflexivity. Qed.

(* ======================================================================= *)
(* 3. configuration stability: a fault that has been hit stays hit         *)
(* ======================================================================= *)
Definition hit_mono (k0 k : snk) : Prop :=
  k_wfail k = k_wfail k0 /\ k_ffail k = k_ffail k0 /\ k_calls k0 <= k_calls k.

Lemma hit_mono_refl k : hit_mono k k.
Proof. repeat split; lia. Qed.
Lemma hit_mono_trans k0 k1 k2 : hit_mono k0 k1 -> hit_mono k1 k2 -> hit_mono k0 k2.
Proof. intros (A & B & C) (D & E & F). repeat split; try congruence; lia. Qed.
Lemma snk_write_mono k bs : hit_mono k (hst (snk_write k bs)).
Proof.
  unfold hit_mono, snk_write.
  destruct (match k_wfail k with Some j => j =? k_calls k | None => false end); cbv zeta; cbn [hst k_wfail k_ffail k_calls];
    repeat split; lia.
Qed.
Lemma snk_flush_mono k : hit_mono k (hst (snk_flush k)).
Proof. unfold hit_mono, snk_flush. destruct (k_ffail k) eqn:E; cbn [hst k_wfail k_ffail k_calls]; repeat split; try congruence; lia. Qed.

Lemma hit_mono_hit k0 k : hit_mono k0 k -> snk_hit k0 = true -> snk_hit k = true.
Proof.
  intros (A & _ & C). unfold snk_hit. rewrite A. destruct (k_wfail k0); [|auto]. rewrite !N.ltb_lt. lia.
Qed.
Lemma hit_mono_not_hit k0 k : hit_mono k0 k -> snk_hit k = false -> snk_hit k0 = false.
Proof.
  intros H Hk. destruct (snk_hit k0) eqn:E; [|reflexivity]. rewrite (hit_mono_hit k0 k H E) in Hk. discriminate.
Qed.

Theorem stream_write_mono s d r s' : stream_write s d = (r, s') -> hit_mono (stream_sink s) (stream_sink s').
Proof. apply (stream_write_rel hit_mono hit_mono_refl hit_mono_trans snk_write_mono snk_flush_mono). Qed.
Theorem stream_flush_mono s r s' : stream_flush s = (r, s') -> hit_mono (stream_sink s) (stream_sink s').
Proof. apply (stream_flush_rel hit_mono hit_mono_refl snk_flush_mono). Qed.
Theorem stream_finish_mono s r k : stream_finish s = (r, k) -> hit_mono (stream_sink s) k.
Proof. apply (stream_finish_rel hit_mono hit_mono_refl hit_mono_trans snk_write_mono snk_flush_mono). Qed.
Theorem run_calls_mono cs s : hit_mono (stream_sink s) (stream_sink (snd (run_calls s cs))).
Proof. apply (run_calls_rel hit_mono hit_mono_refl hit_mono_trans snk_write_mono snk_flush_mono). Qed.
Print Assumptions run_calls_mono.

(* once hit, hit for ever: along any calls and through finish *)
Theorem stream_hit_monotone s cs r k :
  stream_finish (snd (run_calls s cs)) = (r, k) ->
  snk_hit (stream_sink s) = true ->
  snk_hit (stream_sink (snd (run_calls s cs))) = true /\ snk_hit k = true.
Proof.
  intros E H. pose proof (hit_mono_hit _ _ (run_calls_mono cs s) H) as H1. split; [exact H1|].
  exact (hit_mono_hit _ _ (stream_finish_mono _ _ _ E) H1).
Qed.
Print Assumptions stream_hit_monotone.

(* ======================================================================= *)
(* 4. whole call sequences                                                  *)
(* ======================================================================= *)
Lemma run_calls_cons s c cs :
  run_calls s (c :: cs) =
  (fst (do_call s c) :: fst (run_calls (snd (do_call s c)) cs), snd (run_calls (snd (do_call s c)) cs)).
Proof.
  cbn [run_calls]. destruct (do_call s c) as [r s1]. cbn [fst snd]. destruct (run_calls s1 cs) as [rs s2]. reflexivity.
Qed.

Lemma run_calls_app s cs1 cs2 :
  run_calls s (cs1 ++ cs2) =
  (fst (run_calls s cs1) ++ fst (run_calls (snd (run_calls s cs1)) cs2), snd (run_calls (snd (run_calls s cs1)) cs2)).
Proof.
  revert s. induction cs1 as [|c cs1 IH]; intros s.
  - cbn [app run_calls fst snd]. destruct (run_calls s cs2); reflexivity.
  - rewrite <- app_comm_cons, !run_calls_cons, IH. cbn [fst snd]. reflexivity.
Qed.

(* one call of the Write interface *)
Lemma do_call_propagates s c :
  snk_hit (stream_sink s) = false ->
  snk_hit (stream_sink (snd (do_call s c))) = false \/
  (exists d, c = CWrite d) /\ fst (do_call s c) = RW (Failed EIo).
Proof.
  intros Hk. destruct c as [d|]; cbn [do_call].
  - destruct (stream_write s d) as [r s1] eqn:E. cbn [fst snd].
    destruct (stream_write_fault_propagates s d r s1 E Hk) as [A|A]; [left; exact A|right].
    split; [exists d; reflexivity|rewrite A; reflexivity].
  - destruct (stream_flush s) as [r s1] eqn:E. cbn [fst snd]. left.
    destruct (stream_flush_fault s r s1 E) as (_ & A & _). rewrite A. exact Hk.
Qed.

Definition StreamSeqPropagates (k : snk) (rs : list cres) (k' : snk) : Prop :=
  snk_hit k = false -> snk_hit k' = false \/ In (RW (Failed EIo)) rs.

(* the intermediate form: after any interleaving of write and flush calls, either the write
   fault has not been hit or one of the writes returned Failed EIo *)
Theorem run_calls_fault_propagates cs : forall s rs s',
  run_calls s cs = (rs, s') -> StreamSeqPropagates (stream_sink s) rs (stream_sink s').
Proof.
  induction cs as [|c cs IH]; intros s rs s' E Hk.
  - cbn [run_calls] in E. inversion E; subst. left. exact Hk.
  - rewrite run_calls_cons in E. inversion E; subst. clear E.
    destruct (do_call_propagates s c Hk) as [A|[_ A]].
    + destruct (IH (snd (do_call s c)) _ _ (surjective_pairing _) A) as [B|B]; [left; exact B|right; right; exact B].
    + right. left. exact A.
Qed.
Print Assumptions run_calls_fault_propagates.

(* the sharper "first hit" form: if the sink has been hit at the end of the calls, then the
   call during which it was hit for the first time is a write, that write returned exactly
   Failed EIo, the stream is dead from then on: every later write returns Ok(0), every later
   flush Ok(()) (the sink is not touched any more), and finish returns Err(LzmaError). *)
Theorem stream_first_hit cs : forall s,
  snk_hit (stream_sink s) = false ->
  snk_hit (stream_sink (snd (run_calls s cs))) = true ->
  exists cs1 d cs2,
    cs = cs1 ++ CWrite d :: cs2 /\
    snk_hit (stream_sink (snd (run_calls s cs1))) = false /\
    fst (do_call (snd (run_calls s cs1)) (CWrite d)) = RW (Failed EIo) /\
    snk_hit (stream_sink (snd (do_call (snd (run_calls s cs1)) (CWrite d)))) = true /\
    st_state (snd (do_call (snd (run_calls s cs1)) (CWrite d))) = None /\
    Forall quiet (fst (run_calls (snd (do_call (snd (run_calls s cs1)) (CWrite d))) cs2)) /\
    snd (run_calls s cs) = snd (do_call (snd (run_calls s cs1)) (CWrite d)) /\
    fst (stream_finish (snd (run_calls s cs))) = Failed ELzma.
Proof.
  induction cs as [|c cs IH]; intros s Hk Hh.
  - cbn [run_calls snd] in Hh. congruence.
  - rewrite run_calls_cons in Hh. cbn [snd] in Hh.
    destruct (snk_hit (stream_sink (snd (do_call s c)))) eqn:E1.
    + (* this call hits the fault *)
      destruct (do_call_propagates s c Hk) as [A|[[d ->] A]]; [congruence|].
      exists [], d, cs. cbn [app]. change (snd (run_calls s [])) with s. split; [reflexivity|]. split; [exact Hk|]. split; [exact A|].
      split; [exact E1|].
      assert (Hd : st_state (snd (do_call s (CWrite d))) = None).
      { cbn [do_call] in A |- *. destruct (stream_write s d) as [r s1] eqn:Ew. cbn [fst snd] in *.
        inversion A; subst. exact (write_failed_kills _ _ _ _ Ew). }
      split; [exact Hd|].
      destruct (dead_calls cs _ Hd) as [F Es]. split; [exact F|].
      rewrite run_calls_cons. cbn [snd]. split; [exact Es|]. rewrite Es, (finish_when_dead _ Hd). reflexivity.
    + destruct (IH (snd (do_call s c)) E1 Hh) as (cs1 & d & cs2 & -> & B1 & B2 & B3 & B4 & B5 & B6 & B7).
      exists (c :: cs1), d, cs2. rewrite !run_calls_cons. cbn [snd].
      split; [reflexivity|]. repeat (split; [assumption|]). assumption.
Qed.
Print Assumptions stream_first_hit.

(* MAIN THEOREM: any interleaving of write / flush calls followed by finish.  If the write
   fault of the sink was not hit before, then either it is still not hit at the end, or one
   of the writes returned Failed EIo, or finish returned Failed EIo. *)
Definition stream_fault_propagates_statement : Prop :=
  forall s cs rs s' r k,
    run_calls s cs = (rs, s') -> stream_finish s' = (r, k) ->
    snk_hit (stream_sink s) = false ->
    snk_hit k = false \/ In (RW (Failed EIo)) rs \/ r = Failed EIo.

Theorem stream_fault_propagates : stream_fault_propagates_statement.
Proof.
  intros s cs rs s' r k E F Hk.
  destruct (run_calls_fault_propagates cs s rs s' E Hk) as [A|A]; [|auto].
  destruct (stream_finish_fault_propagates s' r k F A) as [B|B]; auto.
Qed.
Print Assumptions stream_fault_propagates.

(* from a fresh stream *)
Corollary stream_new_fault_propagates o k0 cs rs s' r k :
  snk_hit k0 = false ->
  run_calls (stream_new o k0) cs = (rs, s') -> stream_finish s' = (r, k) ->
  snk_hit k = false \/ In (RW (Failed EIo)) rs \/ r = Failed EIo.
Proof. intros Hk E F. exact (stream_fault_propagates _ _ _ _ _ _ E F Hk). Qed.

(* a sink that is new (no call made yet) has not been hit *)
Lemma snk_new_not_hit a wf ff : snk_hit (snk_new a wf ff) = false.
Proof. unfold snk_hit, snk_new. cbn [k_wfail k_calls]. destruct wf as [j|]; [|reflexivity]. apply N.ltb_ge. lia. Qed.

(* no fault is swallowed: if no call reported Failed EIo the fault was never hit - in particular
   when every call returned Ok *)
Corollary stream_no_swallow s cs rs s' r k :
  run_calls s cs = (rs, s') -> stream_finish s' = (r, k) ->
  snk_hit (stream_sink s) = false ->
  ~ In (RW (Failed EIo)) rs -> r <> Failed EIo ->
  snk_hit k = false.
Proof.
  intros E F Hk N1 N2. destruct (stream_fault_propagates _ _ _ _ _ _ E F Hk) as [A|[A|A]]; [exact A|contradiction..].
Qed.

(* the complete picture when the fault is hit: exactly one of the two *)
Theorem stream_hit_cases s cs r k :
  stream_finish (snd (run_calls s cs)) = (r, k) ->
  snk_hit (stream_sink s) = false -> snk_hit k = true ->
  (snk_hit (stream_sink (snd (run_calls s cs))) = false /\ r = Failed EIo) \/
  (In (RW (Failed EIo)) (fst (run_calls s cs)) /\ r = Failed ELzma /\ k = stream_sink (snd (run_calls s cs))).
Proof.
  intros F Hk Hh. destruct (snk_hit (stream_sink (snd (run_calls s cs)))) eqn:E.
  - right. destruct (stream_first_hit cs s Hk E) as (cs1 & d & cs2 & -> & B1 & B2 & B3 & B4 & B5 & B6 & B7).
    rewrite F in B7. cbn [fst] in B7. split; [|split; [exact B7|]].
    + rewrite run_calls_app. cbn [fst]. apply in_or_app. right. rewrite run_calls_cons. cbn [fst]. left. exact B2.
    + rewrite B6 in F |- *. rewrite (finish_when_dead _ B4) in F. inversion F; subst.
      symmetry. apply stream_sink_dead. exact B4.
  - left. split; [reflexivity|]. destruct (stream_finish_fault_propagates _ r k F E) as [A|A]; [congruence|exact A].
Qed.
Print Assumptions stream_hit_cases.

(* ======================================================================= *)
(* 5. examples: the hypotheses are satisfiable and the faults do surface    *)
(* ======================================================================= *)
(* ex_stream (Proofs/StreamLatch.v): 13-byte header (lc=3 lp=0 pb=2, dict 4096, size 1) and a
   payload decoding one literal (byte 0).  With a dictionary of 4096 and one output byte the
   window reaches the sink only at finish, so that is where the faults surface.
   A write call of Stream consumes the 13 + 5 bytes of header and range-coder start only, so
   the caller (write_all) comes back with the rest: [ex_calls]. *)
Definition fs_run (wf : option N) (ff : bool) (cs : list call) :=
  let k0 := snk_new frag_all wf ff in
  let '(rs, s') := run_calls (stream_new ex_opts k0) cs in
  let '(r, k) := stream_finish s' in
  (rs, snk_hit (stream_sink s'), r, snk_bytes k, k_flushes k, snk_hit k).
Definition ex_calls : list call := [CWrite ex_stream; CWrite (nskipn 18 ex_stream)].

(* the hypothesis of the theorems holds for every new sink *)
Example fs_hyp o wf ff : snk_hit (stream_sink (stream_new o (snk_new frag_all wf ff))) = false.
Proof. apply snk_new_not_hit. Qed.

(* fault-free *)
Example fs_fault_free :
  fs_run None false ex_calls = ([RW (Done 18); RW (Done 1)], false, Done tt, [0], 1, false).
Proof. vm_compute. reflexivity. Qed.
(* a configured fault that is never reached changes nothing *)
Example fs_unreached :
  fs_run (Some 5) false ex_calls = ([RW (Done 18); RW (Done 1)], false, Done tt, [0], 1, false).
Proof. vm_compute. reflexivity. Qed.
(* the sink fails at its first write call: the writes still return Ok (nothing reaches the
   sink yet, and it is not hit), finish returns Failed EIo, nothing was accepted, no flush *)
Example fs_write_fails :
  fs_run (Some 0) false ex_calls = ([RW (Done 18); RW (Done 1)], false, Failed EIo, [], 0, true).
Proof. vm_compute. reflexivity. Qed.
(* the flush of the sink fails: finish returns Failed EIo although the byte was accepted *)
Example fs_flush_fails :
  fs_run None true ex_calls = ([RW (Done 18); RW (Done 1)], false, Failed EIo, [0], 0, false).
Proof. vm_compute. reflexivity. Qed.
(* the same with the input cut in pieces and flush calls in between; an explicit flush of the
   Stream in the decoding state reports the failing flush of the sink at once (and again) *)
Definition ex_calls2 : list call :=
  [CWrite (firstn 5 ex_stream); CFlush; CWrite (skipn 5 ex_stream); CFlush; CWrite (skipn 18 ex_stream); CFlush].
Example fs_chunked_fault_free :
  fs_run None false ex_calls2
  = ([RW (Done 5); RF (Done tt); RW (Done 13); RF (Done tt); RW (Done 1); RF (Done tt)], false, Done tt, [0], 3, false).
Proof. vm_compute. reflexivity. Qed.
Example fs_chunked_flush_fails :
  fs_run None true ex_calls2
  = ([RW (Done 5); RF (Done tt); RW (Done 13); RF (Failed EIo); RW (Done 1); RF (Failed EIo)], false, Failed EIo, [0], 0, false).
Proof. vm_compute. reflexivity. Qed.
Example fs_chunked_write_fails :
  fs_run (Some 0) false ex_calls2
  = ([RW (Done 5); RF (Done tt); RW (Done 13); RF (Done tt); RW (Done 1); RF (Done tt)], false, Failed EIo, [], 2, true).
Proof. vm_compute. reflexivity. Qed.

(* OBSERVATION: Failed EIo is also the verdict of finish for a truncated input (UnexpectedEof
   of the cursor over the tmp buffer), so the implications above have no converse: here no
   fault is configured at all. *)
Example fs_eio_without_fault :
  fs_run None false [CWrite ex_stream] = ([RW (Done 18)], false, Failed EIo, [], 0, false).
Proof. vm_compute. reflexivity. Qed.

(* ---- a fault that surfaces in a write call: the circular buffer wraps ----
   5000 bytes, encoded by the model of the dumb encoder (literals only; the payload does not
   depend on the dictionary size), with the dictionary size in the header patched to 4096:
   after 4096 output bytes the window is written to the sink inside stream_write. *)
Definition big_data : list N := concat (repeat (repeat 7 100) 50).
Definition big_comp : list N :=
  snk_bytes (i_snk (snd (lzma_compress 100000 (WriteToHeader (Some 5000)) (mkIo (cursor_of big_data) vec_sink)))).
Definition big_stream : list N := [93; 0; 16; 0; 0] ++ skipn 5 big_comp.
Definition big_calls : list call := [CWrite big_stream; CWrite (skipn 18 big_stream)].
Definition fs_sum (wf : option N) (ff : bool) (cs : list call) :=
  let '(rs, h, r, bs, fl, hk) := fs_run wf ff cs in (rs, h, r, nlen bs, fl, hk).

Example big_fault_free :
  fs_run None false big_calls = ([RW (Done 18); RW (Done 161)], false, Done tt, big_data, 1, false).
Proof. vm_compute. reflexivity. Qed.
(* write call 0 of the sink (the first lap of 4096 bytes) fails: the second stream_write
   returns Failed EIo, the stream is dead (later calls are no-ops returning Ok), finish returns
   Err(LzmaError) and nothing was accepted *)
Example big_write0_fails :
  fs_sum (Some 0) false (big_calls ++ [CFlush; CWrite [1; 2; 3]])
  = ([RW (Done 18); RW (Failed EIo); RF (Done tt); RW (Done 0)], true, Failed ELzma, 0, 0, true).
Proof. vm_compute. reflexivity. Qed.
(* write call 1 of the sink (the partial lap written by finish) fails: both writes return Ok,
   finish returns Failed EIo and the first lap is in the sink *)
Example big_write1_fails :
  fs_sum (Some 1) false big_calls = ([RW (Done 18); RW (Done 161)], false, Failed EIo, 4096, 0, true).
Proof. vm_compute. reflexivity. Qed.
(* the flush fails: all 5000 bytes were accepted, finish returns Failed EIo, no flush counted *)
Example big_flush_fails :
  fs_sum None true (big_calls ++ [CFlush])
  = ([RW (Done 18); RW (Done 161); RF (Failed EIo)], false, Failed EIo, 5000, 0, false).
Proof. vm_compute. reflexivity. Qed.
(* a short-writing sink (1 byte per call) whose 4096th call fails: 4096 bytes accepted *)
Example big_short_writes_fail :
  (let k0 := mkSnk [] 0 0 (fun _ => 1) (Some 4096) 0 false in
   let '(rs, s') := run_calls (stream_new ex_opts k0) big_calls in
   let '(r, k) := stream_finish s' in (rs, snk_hit (stream_sink s'), r, k_count k, k_calls k, snk_hit k))
  = ([RW (Done 18); RW (Done 161)], false, Failed EIo, 4096, 4097, true).
Proof. vm_compute. reflexivity. Qed.
