(* C02, layer 3: the decoding loop of one LZMA chunk of an LZMA2 stream (process_mode in
   FinishMode with a known unpacked size, accumulating window, source under a Take limit).
   Port of LzmaExactLoop.v; the final state also exposes the tables, the automaton state and
   the repeat distances, which the next chunk inherits. *)
From LZ Require Import Base.Prelude Base.Prog Model.Io Model.Tables Model.LzBuffer Model.RangeDec Model.Lzma Format.RefEnc
  Proofs.ProgLemmas Proofs.MapLemmas Proofs.IoLemmas Proofs.RangeLockstep Proofs.WinCirc Proofs.WinAccum Proofs.NoPanic Proofs.NoPanicWorld
  Proofs.SymOracle Proofs.SymCoders Proofs.SymLiteral Proofs.SymDecode Proofs.SymChain
  Proofs.LzmaExactSync Proofs.LzmaExactShape Proofs.LzmaExactRefine Proofs.LzmaExactLoop
  Proofs.Lzma2ExactIo Proofs.Lzma2ExactRefine.
From Coq Require Import ZifyBool ZifyNat ZifyN.
Local Open Scope prog_scope.

Section Loop2.
  Variables (fp : fprops) (p : props).
  Hypothesis Hpm : props_match p fp.
  Variables (pre : list N) (ief : ienc) (tf : ptabs) (delta : N) (trail : list N) (pos_end fl hmax : N).
  Hypothesis Hdelta : delta < i_range ief.
  Hypothesis Hmax : hmax <= 18446744073709551615.
  Variables (stf : N) (hf : hist).
  Hypothesis Hhf : h_len hf <= hmax.

  Notation lcp := (lc p + lp p).
  Notation REL := (Rel2 lcp pre ief tf delta trail pos_end fl).

  Definition LInv2 (prog : list sym) (x : lw) : Prop :=
    exists st h ho evs,
      ds_pib (l_ds x) = [] /\ ds_props (l_ds x) = p /\ ds_unpacked (l_ds x) = Some (h_len hf) /\
      ds_state (l_ds x) = st /\ ds_rep (l_ds x) = reps_of h /\
      st < 12 /\ Forall (fun b => b < 256) (h_bytes h) /\ rep0_ok None st h /\
      h_bytes ho = h_bytes h /\ h_len ho = h_len h /\
      prog_evs fp None st h prog = Some (evs, stf, hf) /\
      REL (mkDw (ds_tabs (l_ds x)) (l_rc x) (l_src x) (l_win x)) (evs ++ phantom2, ho).

  Definition Final2 (x : lw) : Prop :=
    ds_pib (l_ds x) = [] /\ ds_props (l_ds x) = p /\ ds_unpacked (l_ds x) = Some (h_len hf) /\
    ds_tabs (l_ds x) = tf /\ ds_state (l_ds x) = stf /\ ds_rep (l_ds x) = reps_of hf /\
    stf < 12 /\ Forall (fun b => b < 256) (h_bytes hf) /\ rep0_ok None stf hf /\
    TabsStd tf lcp /\ ProbsOk tf /\
    (exists ho, h_bytes ho = h_bytes hf /\ h_len ho = h_len hf /\ RelWin2 pre fl (l_win x) ho) /\
    TakeOk (l_src x) [] trail /\ s_pos (l_src x) = pos_end.

  Lemma pni_safe2 st r : st < 12 ->
    safe_prog (cell_in lcp) (psym_ok (fun _ => True)) (process_next_inner p (mkSym st r) true).
  Proof.
    intros Hst. destruct Hpm as (H1 & H2 & H3 & _).
    apply process_next_inner_safe; try assumption; [intros; exact I|].
    split; [exact Hst|]. repeat split.
  Qed.

  Lemma rel2_fill t r s wn o : REL (mkDw t r s wn) o ->
    exists buf s', src_run (icall FillBuf) s = (Done buf, s') /\ REL (mkDw t r s' wn) o.
  Proof.
    intros (real & Ef & HC & HW). cbn [d_tabs d_rc d_src d_win] in *.
    pose proof HC as (ie & rest & _ & _ & _ & _ & _ & HT & _).
    destruct (fill_take s rest trail HT) as (buf & s' & Hrun & HT' & Hp').
    exists buf, s'. split; [exact Hrun|]. exists real. cbn [d_tabs d_rc d_src d_win].
    split; [exact Ef|]. split; [|exact HW].
    apply (relcode2_src lcp ief tf delta trail pos_end t r s s' real HC); [|exact Hp'].
    intros rest0 (_ & Hr0 & Hl0). destruct HT as (_ & Hr & Hl). destruct HT' as (F' & Hr' & Hl').
    split; [exact F'|]. split; congruence.
  Qed.

  Lemma linv2_head x rest wv : LInv2 (x :: rest) wv -> x <> EndMarker -> head_cont wv.
  Proof.
    intros (st & h & ho & evs & Hpib & Hpr & Hus & Hst & Hrep & Hst12 & Hby & Hr0 & Eb & El & Hpe & HR) Hx.
    unfold head_cont. rewrite Hus.
    destruct HR as (real & _ & _ & HW). cbn [d_win snd] in HW.
    rewrite (relwin2_len _ _ _ _ HW), El.
    rewrite (prog_evs_cons fp None st h x rest Hx) in Hpe.
    destruct (sem_sym None h x) as [h'|] eqn:Es; [|discriminate].
    destruct (prog_evs fp None (snd (sym_evs fp st h x)) h' rest) as [[[l st2] h2]|] eqn:Ep; [|discriminate].
    inversion Hpe; subst. pose proof (sem_sym_len _ _ _ _ Es). pose proof (prog_evs_len _ _ _ _ _ _ _ _ Ep). lia.
  Qed.

  Lemma linv2_step x rest wv : LInv2 (x :: rest) wv -> x <> EndMarker -> head_cont wv ->
    exists wv', pm_body FinishMode wv = Next wv' /\ LInv2 rest wv'.
  Proof.
    intros (st & h & ho & evs & Hpib & Hpr & Hus & Hst & Hrep & Hst12 & Hby & Hr0 & Eb & El & Hpe & HR) Hx Hhead.
    rewrite (prog_evs_cons fp None st h x rest Hx) in Hpe.
    destruct (sem_sym None h x) as [h'|] eqn:Es; [|discriminate].
    destruct (sym_evs fp st h x) as [evx st'] eqn:Esym. cbn [fst snd] in Hpe.
    destruct (prog_evs fp None st' h' rest) as [[[l st2] h2]|] eqn:Ep; [|discriminate].
    inversion Hpe; subst evs st2 h2. clear Hpe.
    destruct (rel2_fill _ _ _ _ _ HR) as (buf & s' & Hfill & HR').
    rewrite (pm_body_step wv buf s' Hpib Hhead Hfill).
    destruct (process_next_inner_decodes_chain None p fp st h ho x h' evx st' (l ++ phantom2)
                Hpm Hr0 Eb El Hx Es Esym) as (ho' & Horc & Eb' & El').
    rewrite <- app_assoc in HR'.
    assert (Hbound : h_len (snd (l ++ phantom2, ho')) <= hmax).
    { cbn [snd]. rewrite El'. pose proof (prog_evs_len _ _ _ _ _ _ _ _ Ep). lia. }
    destruct (refine2_good lcp pre ief tf delta trail pos_end fl hmax Hdelta Hmax _ _
                (pni_safe2 st (reps_of h) Hst12) (shape_process_next_inner p _) _ _ _ _ HR' Horc Hbound)
      as (t1 & Hrun & HR1).
    unfold run_sym. cbn [l_ds l_rc l_src l_win]. rewrite Hpr, Hst, Hrep, Hrun.
    eexists. split; [reflexivity|].
    destruct (sym_step_invariants None fp st h x h' Hst12 Hby Es) as (I1 & I2 & I3). rewrite Esym in I1, I3. cbn [snd] in I1, I3.
    exists st', h', ho', l. cbn [l_ds l_rc l_src l_win ds_pib ds_props ds_unpacked ds_tabs ds_state ds_rep y_state y_rep].
    split; [exact Hpib|]. split; [reflexivity|]. split; [exact Hus|]. split; [reflexivity|]. split; [reflexivity|].
    split; [exact I1|]. split; [exact I2|]. split; [exact I3|].
    split; [exact Eb'|]. split; [exact El'|]. split; [exact Ep|].
    destruct t1; exact HR1.
  Qed.

  Lemma linv2_end wv : LInv2 [] wv -> pm_body FinishMode wv = Break (Done tt, wv) /\ Final2 wv.
  Proof.
    intros (st & h & ho & evs & Hpib & Hpr & Hus & Hst & Hrep & Hst12 & Hby & Hr0 & Eb & El & Hpe & HR).
    cbn [prog_evs] in Hpe. inversion Hpe as [[Ee Est Eh]]. subst evs. clear Hpe. cbn [app] in HR.
    destruct HR as (real & Ef & HC & HW). cbn [fst snd d_tabs d_rc d_src d_win] in *.
    assert (real = []).
    { destruct real as [|e r]; [reflexivity|]. exfalso. unfold phantom2 in Ef. cbn [app] in Ef.
      inversion Ef as [[E1 E2]]. destruct r; discriminate. }
    subst real.
    pose proof HC as (ie & rest & _ & Hstd & Hpo & _).
    destruct (relcode2_end lcp ief tf delta trail pos_end _ _ _ HC) as (Et & _ & HT & Hp).
    split.
    - apply (pm_body_break wv (h_len hf)); [exact Hus|].
      rewrite (relwin2_len _ _ _ _ HW), El, <- Eh. lia.
    - subst h st. rewrite Est in Hst12, Hr0.
      split; [exact Hpib|]. split; [exact Hpr|]. split; [exact Hus|]. split; [exact Et|].
      split; [exact Est|]. split; [exact Hrep|]. split; [exact Hst12|]. split; [exact Hby|]. split; [exact Hr0|].
      split; [rewrite <- Et; exact Hstd|]. split; [rewrite <- Et; exact Hpo|].
      split; [exists ho; repeat split; assumption|]. split; assumption.
  Qed.

  Theorem loop2_exact : forall prog wv, LInv2 prog wv -> Forall (fun x => x <> EndMarker) prog ->
    exists wv', iter_step (length prog + 1) (pm_body FinishMode) wv = Break (Done tt, wv') /\ Final2 wv'.
  Proof.
    induction prog as [|x rest IH]; intros wv HI HM.
    - destruct (linv2_end wv HI) as [Hb HF].
      exists wv. cbn [length Nat.add iter_step]. rewrite Hb. split; [reflexivity|exact HF].
    - inversion HM as [|? ? Hx HM']; subst.
      pose proof (linv2_head x rest wv HI Hx) as Hhead.
      destruct (linv2_step x rest wv HI Hx Hhead) as (wv1 & Hn & HI1).
      destruct (IH wv1 HI1 HM') as (wv' & Hit & HF).
      exists wv'. cbn [length Nat.add iter_step]. rewrite Hn. split; [exact Hit|exact HF].
  Qed.

  Theorem process_mode_exact2 prog wv fuel : LInv2 prog wv -> Forall (fun x => x <> EndMarker) prog ->
    (length prog + 1 <= Pos.to_nat fuel)%nat ->
    exists wv', process_mode FinishMode fuel wv = (Done tt, wv') /\ Final2 wv'.
  Proof.
    intros HI HM Hfuel. destruct (loop2_exact prog wv HI HM) as (wv' & Hit & HF).
    exists wv'. split; [|exact HF]. unfold process_mode. rewrite loopN_iter.
    rewrite (iter_step_break_mono _ _ _ _ _ Hit Hfuel).
    destruct HF as (_ & _ & Hus & _ & _ & _ & _ & _ & _ & _ & _ & (ho & Eb & El & HW) & _). rewrite Hus.
    rewrite (relwin2_len _ _ _ _ HW), El, N.eqb_refl. reflexivity.
  Qed.
End Loop2.

Print Assumptions process_mode_exact2.
