(* C05: more facts about the symbol that decodes the end marker, and about the window. *)
From LZ Require Import Base.Prelude Base.Prog Model.Io Model.Tables Model.LzBuffer Model.RangeDec Model.Lzma.
From LZ Require Import Proofs.ProgLemmas Proofs.IoLemmas Proofs.Bound20 Proofs.Bound20Run.
From LZ Require Import Proofs.NoPanic Proofs.NoPanicWorld Proofs.StreamSimAbs Proofs.StreamSimDry Proofs.StreamSimSym.
From Coq Require Import ZifyBool ZifyNat ZifyN.
Local Open Scope prog_scope.

(* ====================================================================== *)
(* Programs made of Bit / Direct only leave the window alone                *)
(* ====================================================================== *)
Fixpoint bitsonly {A} (p : dprog A) : Prop :=
  match p with
  | Vis o k => match o with Bit _ _ => True | Direct _ => True | _ => False end /\ forall x, bitsonly (k x)
  | _ => True
  end.

Lemma bitsonly_bind {A B} (p : dprog A) (f : A -> dprog B) : bitsonly p -> (forall a, bitsonly (f a)) -> bitsonly (bind p f).
Proof. induction p as [a|e|q|X o k IH]; cbn [bitsonly bind]; auto. intros [Ho Hk] Hf. split; auto. Qed.

Lemma bitsonly_win {A} (p : dprog A) : bitsonly p -> forall w, a_win (snd (interp ah p w)) = a_win w.
Proof.
  induction p as [a|e|q|X o k IH]; intros Hb w; cbn [interp snd bitsonly] in *; try reflexivity.
  destruct Hb as [Ho Hk]. destruct o as [cl upd|count| | |d|dist|b|len dist]; try contradiction; cbn [ah].
  - destruct (cell_get (a_tabs w) cl) as [prob|]; [|reflexivity].
    destruct (an_decode_bit (a_rc w) prob upd (a_in w)) as [[[[b p'] r']|e|q] i]; cbn [snd a_win]; try reflexivity.
    rewrite IH by apply Hk. reflexivity.
  - destruct (an_get count (a_rc w) (a_in w)) as [[[x r']|e|q] i]; cbn [snd a_win]; try reflexivity.
    rewrite IH by apply Hk. reflexivity.
Qed.

Lemma bitsonly_bit_tree_loop n mk upd : forall tmp, bitsonly (bit_tree_loop n mk upd tmp).
Proof. induction n as [|n IH]; intros tmp; cbn [bit_tree_loop bind call bitsonly]; auto. Qed.
Lemma bitsonly_parse_bit_tree nb mk upd : bitsonly (parse_bit_tree nb mk upd).
Proof.
  unfold parse_bit_tree. apply bitsonly_bind; [apply bitsonly_bit_tree_loop|].
  intros tmp. destruct (_ <? _); exact I.
Qed.
Lemma bitsonly_rev_bit_tree_loop n mk offset upd : forall i tmp result, bitsonly (rev_bit_tree_loop n i mk offset upd tmp result).
Proof. induction n as [|n IH]; intros i tmp result; cbn [rev_bit_tree_loop bind call bitsonly]; auto. Qed.
Lemma bitsonly_len_decode rep ps upd : bitsonly (len_decode rep ps upd).
Proof.
  unfold len_decode. cbn [bind call bitsonly]. split; [exact I|]. intros c1. destruct (negb c1).
  - apply bitsonly_parse_bit_tree.
  - cbn [bind call bitsonly]. split; [exact I|]. intros c2. destruct (negb c2);
      (apply bitsonly_bind; [apply bitsonly_parse_bit_tree|intros; exact I]).
Qed.
Lemma bitsonly_decode_distance len upd : bitsonly (decode_distance len upd).
Proof.
  unfold decode_distance. cbv zeta. apply bitsonly_bind; [apply bitsonly_parse_bit_tree|]. intros ps.
  destruct (ps <? 4); [exact I|]. destruct (ps <? 14).
  - destruct (_ <? ps); [exact I|]. apply bitsonly_bind; [apply bitsonly_rev_bit_tree_loop|intros; exact I].
  - cbn [bind call bitsonly]. split; [exact I|]. intros d.
    apply bitsonly_bind; [apply bitsonly_rev_bit_tree_loop|intros; exact I].
Qed.

Lemma ah_bit_win c upd w : a_win (hst (ah bool (Bit c upd) w)) = a_win w.
Proof.
  cbn [ah]. destruct (cell_get (a_tabs w) c) as [prob|]; [|reflexivity].
  destruct (an_decode_bit (a_rc w) prob upd (a_in w)) as [[[[b p'] r']|e|q] i]; reflexivity.
Qed.

(* ====================================================================== *)
(* The marker step: window untouched; with more input behind it, it fails   *)
(* ====================================================================== *)
(* sub-run bookkeeping: a successful sub-run of a bitsonly/nofin program inside a run that ends with rf down *)
Lemma sub_run_ext more {A} (p : dprog A) w1 w2 a t1 : ext more w1 w2 ->
  interp ah p w1 = (Done a, t1) -> a_rf t1 = false -> a_eo t1 = false ->
  exists t2, interp ah p w2 = (Done a, t2) /\ ext more t1 t2.
Proof.
  intros He E Hrf Heo. pose proof (prefix_stable more p w1 w2 He) as H. rewrite E in H. cbn [fst snd] in H.
  destruct (H Hrf Heo) as [F X]. destruct (interp ah p w2) as [r2 t2]. cbn [fst snd] in *. subst r2.
  exists t2. split; [reflexivity|exact X].
Qed.

Lemma match_arm_mark y ps w : a_eo w = false ->
  a_eo (snd (interp ah (match_arm y ps true) w)) = true ->
  a_win (snd (interp ah (match_arm y ps true) w)) = a_win w /\
  forall more w2, ext more w w2 -> more <> [] -> a_rf (snd (interp ah (match_arm y ps true) w)) = false ->
    fst (interp ah (match_arm y ps true) w2) = Failed ELzma.
Proof.
  intros H0. unfold match_arm. cbv zeta. rewrite interp_bind.
  pose proof (nofin_eo _ (nofin_len_decode false ps true) w) as E1.
  pose proof (bitsonly_win _ (bitsonly_len_decode false ps true) w) as W1.
  destruct (interp ah (len_decode false ps true) w) as [[l|e|q] w1] eqn:R1; cbn [fst snd] in *; try congruence.
  rewrite interp_bind.
  pose proof (nofin_eo _ (nofin_decode_distance l true) w1) as E2.
  pose proof (bitsonly_win _ (bitsonly_decode_distance l true) w1) as W2.
  destruct (interp ah (decode_distance l true) w1) as [[d|e|q] w2] eqn:R2; cbn [fst snd] in *; try congruence.
  assert (H2 : a_eo w2 = false) by congruence.
  destruct (N.eqb_spec d 4294967295) as [Ed|Ed].
  - rewrite interp_bind, interp_call. cbn [ah]. unfold an_finished_ok, an_eof, mret.
    destruct (N.eqb_spec (r_code (a_rc w2)) 0) as [Ec|Ec]; [|cbn [interp snd a_eo]; rewrite H2; discriminate].
    destruct (a_in w2) as [|b0 t0] eqn:Ei; cbn [interp fst snd a_eo a_win]; rewrite H2; cbn [orb]; [|discriminate].
    intros _. split; [congruence|].
    intros more v2 He Hne Hrf. cbn [a_rf] in Hrf.
    (* the same prefix on the longer input *)
    assert (Hrf1 : a_rf w1 = false).
    { destruct (a_rf w1) eqn:X; [|reflexivity]. pose proof (interp_ah_flags (decode_distance l true) w1) as [F _].
      rewrite R2 in F. cbn [snd] in F. rewrite (F X) in Hrf. discriminate. }
    destruct (sub_run_ext more _ _ _ _ _ He R1 Hrf1 ltac:(congruence)) as (v1 & S1 & He1).
    destruct (sub_run_ext more _ _ _ _ _ He1 R2 Hrf H2) as (v3 & S2 & He2).
    rewrite interp_bind, S1, interp_bind, S2.
    destruct (N.eqb_spec d 4294967295) as [_|]; [|contradiction].
    rewrite interp_bind, interp_call. cbn [ah]. unfold an_finished_ok, an_eof, mret.
    destruct He2 as (_ & Hr2 & _ & Hi2 & _). rewrite Hr2, Hi2, Ei. cbn [app].
    destruct (N.eqb_spec (r_code (a_rc w2)) 0) as [_|]; [|contradiction].
    destruct more as [|m0 mt]; [contradiction|]. reflexivity.
  - rewrite interp_bind, interp_call.
    pose proof (ah_eo_same unit (WAppendLz (l + 2) (d + 1)) w2 I) as E3.
    destruct (ah unit (WAppendLz (l + 2) (d + 1)) w2) as [u w3|e w3|q w3]; cbn [hst interp fst snd] in *; congruence.
Qed.

Theorem pni_mark p y w : a_eo w = false -> a_rf w = false ->
  a_eo (snd (interp ah (process_next_inner p y true) w)) = true ->
  a_win (snd (interp ah (process_next_inner p y true) w)) = a_win w /\
  forall more w2, ext more w w2 -> more <> [] -> a_rf (snd (interp ah (process_next_inner p y true) w)) = false ->
    fst (interp ah (process_next_inner p y true) w2) = Failed ELzma.
Proof.
  intros H0 Hr0. unfold process_next_inner. rewrite interp_bind, interp_call. cbn [ah].
  destruct (63 <? pb p) eqn:Epb; [cbn [interp snd]; congruence|]. cbv zeta.
  rewrite interp_bind, interp_call.
  set (c1 := CIsMatch _).
  pose proof (ah_eo_same bool (Bit c1 true) w I) as E1.
  pose proof (ah_bit_win c1 true w) as W1.
  destruct (ah bool (Bit c1 true) w) as [m w1|e w1|q w1] eqn:A1; cbn [hst fst snd] in *; try congruence.
  assert (H1 : a_eo w1 = false) by congruence.
  destruct m; cbn [negb].
  2:{ rewrite (nofin_eo _ (nofin_lit_arm p y true)). congruence. }
  rewrite interp_bind, interp_call.
  pose proof (ah_eo_same bool (Bit (CIsRep (y_state y)) true) w1 I) as E2.
  pose proof (ah_bit_win (CIsRep (y_state y)) true w1) as W2.
  destruct (ah bool (Bit (CIsRep (y_state y)) true) w1) as [r w2|e w2|q w2] eqn:A2; cbn [hst fst snd] in *; try congruence.
  assert (H2 : a_eo w2 = false) by congruence.
  destruct r.
  { rewrite (nofin_eo _ (nofin_rep_arm y _ true)). congruence. }
  intros Heo. destruct (match_arm_mark y _ w2 H2 Heo) as [HW HX].
  split; [congruence|].
  intros more v Hev Hne Hrf.
  (* replay the first three operations on the longer input *)
  rewrite interp_bind, interp_call. cbn [ah]. destruct Hev as (Ht & Hrc & Hwn & Hi & Hf & He).
  rewrite Hwn. cbv zeta. rewrite interp_bind, interp_call.
  assert (Hev : ext more w v) by (repeat split; assumption).
  assert (Hrf2 : a_rf w2 = false).
  { destruct (a_rf w2) eqn:X; [|reflexivity]. pose proof (interp_ah_flags (match_arm y (N.land (win_len (a_win w)) (N.shiftl 1 (pb p) - 1)) true) w2) as [F _].
    rewrite (F X) in Hrf. discriminate. }
  assert (Hrf1 : a_rf w1 = false).
  { destruct (a_rf w1) eqn:X; [|reflexivity]. pose proof (ah_flags bool (Bit (CIsRep (y_state y)) true) w1) as [F _].
    rewrite A2 in F. cbn [hst] in F. rewrite (F X) in Hrf2. discriminate. }
  pose proof (ext_step more bool (Bit c1 true) w v Hev) as S1. rewrite A1 in S1. cbn [hst] in S1.
  specialize (S1 Hrf1 H1). fold c1.
  destruct (ah bool (Bit c1 true) v) as [m' v1|e' v1|q' v1]; try contradiction. destruct S1 as [<- Hev1]. cbn [negb].
  rewrite interp_bind, interp_call.
  pose proof (ext_step more bool (Bit (CIsRep (y_state y)) true) w1 v1 Hev1) as S2. rewrite A2 in S2. cbn [hst] in S2.
  specialize (S2 Hrf2 H2).
  destruct (ah bool (Bit (CIsRep (y_state y)) true) v1) as [r' v2|e' v2|q' v2]; try contradiction. destruct S2 as [<- Hev2].
  apply (HX more v2 Hev2 Hne Hrf).
Qed.
Print Assumptions pni_mark.

(* on states *)
Theorem arun_mark a : aeo true a = true ->
  x_win (snd (arun true a)) = x_win a /\
  forall more, more <> [] -> fst (arun true (with_in a (x_in a ++ more))) = Failed ELzma.
Proof.
  intros Heo. unfold aeo, araw in Heo.
  destruct (pni_mark (ds_props (x_ds a)) (mkSym (ds_state (x_ds a)) (ds_rep (x_ds a))) (aw0 a) eq_refl eq_refl Heo) as [HW HX].
  fold (pni a true) in HW, HX.
  assert (Hrf : a_rf (snd (interp ah (pni a true) (aw0 a))) = false).
  { destruct (a_rf (snd (interp ah (pni a true) (aw0 a)))) eqn:X; [|reflexivity].
    pose proof (arf_aeo_excl a X) as Y. unfold aeo, araw in Y. congruence. }
  split.
  - unfold arun, araw. destruct (interp ah (pni a true) (aw0 a)) as [[[st y]|e|q] x]; exact HW.
  - intros more Hne.
    assert (He : ext more (aw0 a) (aw0 (with_in a (x_in a ++ more)))) by (unfold ext, aw0, with_in; cbn; repeat split).
    specialize (HX more _ He Hne Hrf). unfold arun, araw.
    change (pni (with_in a (x_in a ++ more)) true) with (pni a true).
    destruct (interp ah (pni a true) (aw0 (with_in a (x_in a ++ more)))) as [[[st y]|e|q] x]; cbn [fst] in *; congruence.
Qed.

(* ====================================================================== *)
(* The staged-input field is only carried along                             *)
(* ====================================================================== *)
Definition repib (a : ast) (p : list N) : ast := mkAst (set_pib (x_ds a) p) (x_rc a) (x_win a) (x_in a).

Lemma arun_repib upd a p : arun upd (repib a p) = (fst (arun upd a), repib (snd (arun upd a)) p).
Proof.
  unfold arun, araw, repib, pni, aw0. cbn [x_ds x_rc x_win x_in set_pib ds_props ds_state ds_rep ds_tabs].
  destruct (interp ah _ _) as [[[st y]|e|q] x]; reflexivity.
Qed.

Lemma arf_repib upd a p : arf upd (repib a p) = arf upd a.
Proof. reflexivity. Qed.
Lemma aeo_repib upd a p : aeo upd (repib a p) = aeo upd a.
Proof. reflexivity. Qed.

(* ====================================================================== *)
(* The dictionary size never changes                                        *)
(* ====================================================================== *)
Definition win_dict (v : win) : option N := match v with WCirc c => Some (c_dict c) | WAccum _ => None end.

Lemma circ_set_dict b i v : c_dict (snd (circ_set b i v)) = c_dict b.
Proof. unfold circ_set. destruct (_ <? _); [destruct (_ <=? _)|]; reflexivity. Qed.

Lemma circ_append_literal_dict b lit : c_dict (snd (circ_append_literal b lit)) = c_dict b.
Proof.
  unfold circ_append_literal. pose proof (circ_set_dict b (c_cursor b) lit) as H.
  destruct (circ_set b (c_cursor b) lit) as [[u|e|q] b1]; cbn [snd] in *; try exact H.
  destruct (_ =? _); [|exact H].
  destruct (snk_run _ _) as [[u'|e|q] k]; exact H.
Qed.

Lemma circ_lz_loop_dict n : forall b offset, c_dict (snd (circ_lz_loop n b offset)) = c_dict b.
Proof.
  induction n as [|n IH]; intros b offset; cbn [circ_lz_loop]; [reflexivity|].
  pose proof (circ_append_literal_dict b (circ_get b offset)) as H.
  destruct (circ_append_literal b (circ_get b offset)) as [[u|e|q] b1]; cbn [snd] in *; try exact H.
  rewrite IH. exact H.
Qed.

Lemma circ_append_lz_dict b len dist : c_dict (snd (circ_append_lz b len dist)) = c_dict b.
Proof.
  unfold circ_append_lz. destruct (_ <? _); [reflexivity|]. destruct (_ <? _); [reflexivity|].
  destruct (_ =? _); [reflexivity|]. apply circ_lz_loop_dict.
Qed.

Lemma ah_keeps_dict X (o : decE X) w : win_dict (a_win (hst (ah X o w))) = win_dict (a_win w).
Proof.
  destruct o as [cl upd|count| | |d|dist|b|len dist]; cbn [ah].
  - destruct (cell_get (a_tabs w) cl) as [prob|]; [|reflexivity].
    destruct (an_decode_bit (a_rc w) prob upd (a_in w)) as [[[[bb p'] r']|e|q] i]; reflexivity.
  - destruct (an_get count (a_rc w) (a_in w)) as [[[x r']|e|q] i]; reflexivity.
  - destruct (an_finished_ok (a_rc w) (a_in w)) as [[x|e|q] i]; reflexivity.
  - reflexivity.
  - destruct (a_win w) as [c|ac]; cbn [win_last_or]; unfold lift_c, lift_a.
    + pose proof (circ_last_or_same c d) as H. destruct (circ_last_or c d) as [[x|e|q] c']; cbn [fst snd alift_win hst a_win win_dict] in *; congruence.
    + destruct (accum_last_or ac d) as [[x|e|q] c']; reflexivity.
  - destruct (a_win w) as [c|ac]; cbn [win_last_n]; unfold lift_c, lift_a.
    + assert (H : snd (circ_last_n c dist) = c).
      { unfold circ_last_n. destruct (_ <? _); [reflexivity|]. destruct (_ <? _); [reflexivity|]. destruct (_ =? _); reflexivity. }
      destruct (circ_last_n c dist) as [[x|e|q] c']; cbn [fst snd alift_win hst a_win win_dict] in *; congruence.
    + destruct (accum_last_n ac dist) as [[x|e|q] c']; reflexivity.
  - destruct (a_win w) as [c|ac]; cbn [win_append_literal]; unfold lift_c, lift_a.
    + pose proof (circ_append_literal_dict c b) as H.
      destruct (circ_append_literal c b) as [[x|e|q] c']; cbn [fst snd alift_win hst a_win win_dict] in *; congruence.
    + destruct (accum_append_literal ac b) as [[x|e|q] c']; reflexivity.
  - destruct (a_win w) as [c|ac]; cbn [win_append_lz]; unfold lift_c, lift_a.
    + pose proof (circ_append_lz_dict c len dist) as H.
      destruct (circ_append_lz c len dist) as [[x|e|q] c']; cbn [fst snd alift_win hst a_win win_dict] in *; congruence.
    + destruct (accum_append_lz ac len dist) as [[x|e|q] c']; reflexivity.
Qed.

Lemma interp_ah_dict {A} (p : dprog A) : forall w, win_dict (a_win (snd (interp ah p w))) = win_dict (a_win w).
Proof.
  induction p as [a|e|q|X o k IH]; intros w; cbn [interp snd]; try reflexivity.
  pose proof (ah_keeps_dict X o w) as H.
  destruct (ah X o w) as [x t|e t|q t]; cbn [hst snd] in *; try exact H. rewrite IH. exact H.
Qed.

Lemma arun_dict upd a : win_dict (x_win (snd (arun upd a))) = win_dict (x_win a).
Proof.
  pose proof (interp_ah_dict (pni a upd) (aw0 a)) as H. unfold arun, araw.
  destruct (interp ah (pni a upd) (aw0 a)) as [[[st y]|e|q] x]; exact H.
Qed.
