(* Cut-short inputs, LZMA layer: the symbol decoder, process_mode (FinishMode), LzmaDecoder::decompress
   and lzma_decompress run on a truncated source ([tr], CutShortIo.v) and on the full source
   either proceed in lock step, or the truncated run fails, or the full run fails.
   Consequences (no hypothesis on the format): if a decoder accepts an input and has consumed n bytes
   of it, it REJECTS (Failed, not Done, not a panic) every prefix of the input shorter than n bytes. *)
From LZ Require Import Base.Prelude Base.Prog Model.Io Model.Tables Model.LzBuffer Model.RangeDec Model.Lzma Model.Lzma2
  Proofs.ProgLemmas Proofs.IoLemmas Proofs.FragIo Proofs.FragLzma Proofs.CutShortIo.
From Coq Require Import ZifyBool ZifyNat ZifyN.
Local Open Scope prog_scope.

(* ---------- three-way results ---------- *)
Definition failed {A S} (r : outcome A * S) : Prop := exists x, fst r = Failed x.
Definition tw3 {A S} (R : S -> S -> Prop) (r1 r2 : outcome A * S) : Prop :=
  (fst r1 = fst r2 /\ R (snd r1) (snd r2)) \/ failed r1 \/ failed r2.

(* ---------- the shape of the symbol decoder: the answer [false] to FinishedOk is followed by Fail ---------- *)
Definition fin_op {A X} (o : decE X) : (X -> dprog A) -> Prop :=
  match o in decE X return (X -> dprog A) -> Prop with
  | FinishedOk => fun k => exists x, k false = Fail x
  | _ => fun _ => True
  end.
Fixpoint fshape {A} (p : dprog A) : Prop :=
  match p with
  | Vis o k => fin_op o k /\ forall x, fshape (k x)
  | _ => True
  end.

Lemma fin_op_bind {A B X} (o : decE X) (k : X -> dprog A) (f : A -> dprog B) :
  fin_op o k -> fin_op o (fun x => bind (k x) f).
Proof.
  destruct o; cbn [fin_op]; try (intros H; exact H).
  intros [x Hx]. exists x. rewrite Hx. reflexivity.
Qed.

Lemma fshape_bind {A B} (p : dprog A) (f : A -> dprog B) :
  fshape p -> (forall a, fshape (f a)) -> fshape (bind p f).
Proof.
  induction p as [a|x|w|X o k IH]; intros Hp Hf; cbn [bind fshape] in *; try exact I.
  - apply Hf.
  - destruct Hp as [Ho Hk]. split; [apply fin_op_bind; exact Ho|].
    intros x. apply IH; [apply Hk|exact Hf].
Qed.

(* an operation other than FinishedOk followed by a well-shaped continuation *)
Definition plain {X} (o : decE X) : Prop :=
  match o with FinishedOk => False | _ => True end.
Lemma fshape_op {A X} (o : decE X) (k : X -> dprog A) :
  plain o -> (forall x, fshape (k x)) -> fshape (bind (dcall o) k).
Proof.
  intros Ho Hk. cbn [bind call fshape]. split; [|exact Hk].
  destruct o; cbn [fin_op plain] in *; try exact I. contradiction.
Qed.

Lemma fshape_bit_tree_loop n mk upd : forall tmp, fshape (bit_tree_loop n mk upd tmp).
Proof.
  induction n as [|n IH]; intros tmp; cbn [bit_tree_loop]; [exact I|].
  apply fshape_op; [exact I|]. intros b. apply IH.
Qed.
Lemma fshape_parse_bit_tree nb mk upd : fshape (parse_bit_tree nb mk upd).
Proof.
  unfold parse_bit_tree. apply fshape_bind; [apply fshape_bit_tree_loop|].
  intros tmp. destruct (tmp <? _); exact I.
Qed.
Lemma fshape_rev_bit_tree_loop n mk offset upd : forall i tmp result, fshape (rev_bit_tree_loop n i mk offset upd tmp result).
Proof.
  induction n as [|n IH]; intros i tmp result; cbn [rev_bit_tree_loop]; [exact I|].
  apply fshape_op; [exact I|]. intros b. apply IH.
Qed.
Lemma fshape_parse_reverse_bit_tree nb mk offset upd : fshape (parse_reverse_bit_tree nb mk offset upd).
Proof. apply fshape_rev_bit_tree_loop. Qed.

Lemma fshape_len_decode rep ps upd : fshape (len_decode rep ps upd).
Proof.
  unfold len_decode. apply fshape_op; [exact I|]. intros c1.
  destruct (negb c1); [apply fshape_parse_bit_tree|].
  apply fshape_op; [exact I|]. intros c2.
  destruct (negb c2); (apply fshape_bind; [apply fshape_parse_bit_tree|intros; exact I]).
Qed.

Lemma fshape_lit_matched_loop fuel row upd : forall mb result, fshape (lit_matched_loop fuel row upd mb result).
Proof.
  induction fuel as [|f IH]; intros mb result; cbn [lit_matched_loop]; [exact I|].
  destruct (256 <=? result); [exact I|]. cbv zeta.
  apply fshape_op; [exact I|]. intros b. destruct (_ =? _); [apply IH|exact I].
Qed.
Lemma fshape_lit_plain_loop fuel row upd : forall result, fshape (lit_plain_loop fuel row upd result).
Proof.
  induction fuel as [|f IH]; intros result; cbn [lit_plain_loop]; [exact I|].
  destruct (256 <=? result); [exact I|].
  apply fshape_op; [exact I|]. intros b. apply IH.
Qed.

Lemma fshape_decode_literal p y upd : fshape (decode_literal p y upd).
Proof.
  unfold decode_literal. apply fshape_op; [exact I|]. intros prev.
  apply fshape_op; [exact I|]. intros len.
  destruct (8 <? lc p); [exact I|]. cbv zeta.
  apply fshape_bind.
  - destruct (7 <=? y_state y); [|exact I].
    apply fshape_op; [exact I|]. intros mb. apply fshape_lit_matched_loop.
  - intros r1. apply fshape_bind; [apply fshape_lit_plain_loop|].
    intros r2. destruct (r2 <? 256); exact I.
Qed.

Lemma fshape_decode_distance len upd : fshape (decode_distance len upd).
Proof.
  unfold decode_distance. cbv zeta. apply fshape_bind; [apply fshape_parse_bit_tree|].
  intros slot. destruct (slot <? 4); [exact I|].
  destruct (slot <? 14).
  - destruct (_ <? slot); [exact I|].
    apply fshape_bind; [apply fshape_parse_reverse_bit_tree|intros; exact I].
  - apply fshape_op; [exact I|]. intros d.
    apply fshape_bind; [apply fshape_parse_reverse_bit_tree|intros; exact I].
Qed.

Lemma fshape_lit_arm p y upd : fshape (lit_arm p y upd).
Proof.
  unfold lit_arm. cbv zeta. apply fshape_bind; [apply fshape_decode_literal|].
  intros byte. destruct upd; [|exact I]. apply fshape_op; [exact I|]. intros; exact I.
Qed.

Lemma fshape_rep_select y ps upd : fshape (rep_select y ps upd).
Proof.
  unfold rep_select. cbv zeta. apply fshape_op; [exact I|]. intros g0.
  destruct (negb g0).
  - apply fshape_op; [exact I|]. intros l0. destruct (negb l0); [|exact I].
    destruct upd; [|exact I]. apply fshape_op; [exact I|]. intros; exact I.
  - apply fshape_op; [exact I|]. intros g1.
    apply fshape_bind.
    + destruct (negb g1); [exact I|]. apply fshape_op; [exact I|]. intros; exact I.
    + intros idx. destruct upd; exact I.
Qed.

Lemma fshape_rep_arm y ps upd : fshape (rep_arm y ps upd).
Proof.
  unfold rep_arm. cbv zeta. apply fshape_bind; [apply fshape_rep_select|].
  intros [res|r']; [exact I|].
  apply fshape_bind; [apply fshape_len_decode|].
  intros len. destruct upd; [|exact I]. apply fshape_op; [exact I|]. intros; exact I.
Qed.

Lemma fshape_match_arm y ps upd : fshape (match_arm y ps upd).
Proof.
  unfold match_arm. cbv zeta. apply fshape_bind; [apply fshape_len_decode|].
  intros len. apply fshape_bind; [apply fshape_decode_distance|].
  intros rep_0. destruct upd; [|exact I]. destruct (rep_0 =? 4294967295).
  - cbn [bind call fshape fin_op]. split; [exists ELzma; reflexivity|].
    intros x. destruct x; exact I.
  - apply fshape_op; [exact I|]. intros; exact I.
Qed.

Theorem fshape_process_next_inner p y upd : fshape (process_next_inner p y upd).
Proof.
  unfold process_next_inner.
  apply fshape_op; [exact I|]. intros len0.
  destruct (63 <? pb p); [exact I|]. cbv zeta.
  apply fshape_op; [exact I|]. intros is_m. destruct (negb is_m).
  - apply fshape_lit_arm.
  - apply fshape_op; [exact I|]. intros is_r. destruct is_r; [apply fshape_rep_arm|apply fshape_match_arm].
Qed.

(* ---------- the handler of the symbol decoder ---------- *)
Definition dwR (E e : N) (x1 x2 : dw) : Prop :=
  d_tabs x1 = d_tabs x2 /\ d_rc x1 = d_rc x2 /\ d_win x1 = d_win x2 /\ tr E e (d_src x1) (d_src x2).

Lemma dwR_mk E e tabs r win s1 s2 : tr E e s1 s2 -> dwR E e (mkDw tabs r s1 win) (mkDw tabs r s2 win).
Proof. intros H. unfold dwR. cbn [d_tabs d_rc d_win d_src]. repeat split; try reflexivity; apply H. Qed.

Definition finfalse {X} (o : decE X) : X -> Prop :=
  match o in decE X return X -> Prop with
  | FinishedOk => fun a => a = false
  | _ => fun _ => False
  end.

Lemma dec_h_step3 E e : forall X (o : decE X) x1 x2, dwR E e x1 x2 ->
  match dec_h X o x1, dec_h X o x2 with
  | HOk a1 t1, HOk a2 t2 => (a1 = a2 /\ dwR E e t1 t2) \/ finfalse o a2
  | HPanic w1 t1, HPanic w2 t2 => w1 = w2 /\ dwR E e t1 t2
  | HErr _ _, _ => True
  | _, _ => False
  end.
Proof.
  intros X o [tabs r s1 win] [tabs2 r2 s2 win2] (E1 & E2 & E3 & Htr).
  cbn [d_tabs d_rc d_win d_src] in *. subst tabs2 r2 win2.
  destruct o; cbn [dec_h d_tabs d_rc d_src d_win finfalse].
  - (* Bit *)
    destruct (cell_get tabs c) as [prob|]; [|split; [reflexivity|apply dwR_mk; exact Htr]].
    destruct (Tw2_src_run _ (Tw2_rc_decode_bit r prob upd) E e s1 s2 Htr) as [[Hf Hs]|[x Hx]].
    + destruct (src_run (rc_decode_bit r prob upd) s1) as [o1 t1].
      destruct (src_run (rc_decode_bit r prob upd) s2) as [o2 t2]. cbn [fst snd] in Hf, Hs. subst o2.
      destruct o1 as [[[b p'] r']|x|q]; [left; split; [reflexivity|apply dwR_mk; exact Hs]|exact I|split; [reflexivity|apply dwR_mk; exact Hs]].
    + destruct (src_run (rc_decode_bit r prob upd) s1) as [o1 t1]. cbn [fst] in Hx. subst o1. exact I.
  - (* Direct *)
    unfold lift_src. cbn [d_tabs d_rc d_src d_win].
    destruct (Tw2_src_run _ (Tw2_rc_get count r) E e s1 s2 Htr) as [[Hf Hs]|[x Hx]].
    + destruct (src_run (rc_get count r) s1) as [o1 t1].
      destruct (src_run (rc_get count r) s2) as [o2 t2]. cbn [fst snd] in Hf, Hs. subst o2.
      destruct o1 as [[v r']|x|q]; [left; split; [reflexivity|apply dwR_mk; exact Hs]|exact I|split; [reflexivity|apply dwR_mk; exact Hs]].
    + destruct (src_run (rc_get count r) s1) as [o1 t1]. cbn [fst] in Hx. subst o1. exact I.
  - (* FinishedOk *)
    destruct (eof3 E e r s1 s2 Htr) as (b1 & b2 & t1 & t2 & R1 & R2 & Hs & Hb). rewrite R1, R2.
    destruct Hb as [->| ->]; [left; split; [reflexivity|apply dwR_mk; exact Hs]|right; reflexivity].
  - left. split; [reflexivity|apply dwR_mk; exact Htr].
  - unfold lift_win. cbn [d_tabs d_rc d_src d_win].
    destruct (win_last_or win d) as [[x|x|q] v]; [left; split; [reflexivity|apply dwR_mk; exact Htr]|exact I|split; [reflexivity|apply dwR_mk; exact Htr]].
  - unfold lift_win. cbn [d_tabs d_rc d_src d_win].
    destruct (win_last_n win dist) as [[x|x|q] v]; [left; split; [reflexivity|apply dwR_mk; exact Htr]|exact I|split; [reflexivity|apply dwR_mk; exact Htr]].
  - unfold lift_win. cbn [d_tabs d_rc d_src d_win].
    destruct (win_append_literal win b) as [[x|x|q] v]; [left; split; [reflexivity|apply dwR_mk; exact Htr]|exact I|split; [reflexivity|apply dwR_mk; exact Htr]].
  - unfold lift_win. cbn [d_tabs d_rc d_src d_win].
    destruct (win_append_lz win len dist) as [[x|x|q] v]; [left; split; [reflexivity|apply dwR_mk; exact Htr]|exact I|split; [reflexivity|apply dwR_mk; exact Htr]].
Qed.

Theorem dec3 E e {A} (p : dprog A) : fshape p -> forall x1 x2, dwR E e x1 x2 ->
  tw3 (dwR E e) (interp dec_h p x1) (interp dec_h p x2).
Proof.
  induction p as [a|x|w|X o k IH]; intros Hsh x1 x2 HR; cbn [interp];
    try (left; cbn [fst snd]; split; [reflexivity|assumption]).
  destruct Hsh as [Hop Hk].
  pose proof (dec_h_step3 E e X o x1 x2 HR) as Hstep.
  destruct (dec_h X o x1) as [a1 t1|e1 t1|w1 t1]; destruct (dec_h X o x2) as [a2 t2|e2 t2|w2 t2]; try contradiction;
    try (right; left; exists e1; reflexivity).
  - destruct Hstep as [[-> HR']|Hff]; [apply IH; [apply Hk|exact HR']|].
    right; right. destruct o; cbn [finfalse fin_op] in *; try contradiction.
    subst a2. destruct Hop as [x Hx]. rewrite Hx. exists x. reflexivity.
  - destruct Hstep as [-> HR']. left. cbn [fst snd]. split; [reflexivity|exact HR'].
Qed.

(* ---------- the repeat distances of a symbol that continues are never 0xFFFFFFFF ---------- *)
Fixpoint leaves {A} (p : dprog A) (Q : A -> Prop) : Prop :=
  match p with
  | Ret a => Q a
  | Vis o k => forall x, leaves (k x) Q
  | _ => True
  end.

Lemma leaves_bind {A B} (p : dprog A) (f : A -> dprog B) (P : A -> Prop) Q :
  leaves p P -> (forall a, P a -> leaves (f a) Q) -> leaves (bind p f) Q.
Proof.
  induction p as [a|x|w|X o k IH]; intros Hp Hf; cbn [bind leaves] in *; try exact I.
  - apply Hf. exact Hp.
  - intros x. apply IH; [apply Hp|exact Hf].
Qed.

Lemma leaves_true {A} (p : dprog A) : leaves p (fun _ => True).
Proof. induction p as [a|x|w|X o k IH]; cbn [leaves]; try exact I. intros x. apply IH. Qed.

Lemma leaves_bind_any {A B} (p : dprog A) (f : A -> dprog B) Q :
  (forall a, leaves (f a) Q) -> leaves (bind p f) Q.
Proof. intros H. apply (leaves_bind p f (fun _ => True)); [apply leaves_true|intros a _; apply H]. Qed.

Lemma leaves_op {A X} (o : decE X) (k : X -> dprog A) Q :
  (forall x, leaves (k x) Q) -> leaves (bind (dcall o) k) Q.
Proof. intros H. cbn [bind call leaves]. exact H. Qed.

Lemma leaves_interp {A S} (h : handler decE S) (p : dprog A) Q : leaves p Q ->
  forall s a s', interp h p s = (Done a, s') -> Q a.
Proof.
  induction p as [a0|x|w|X o k IH]; intros Hl s a s' Hi; cbn [interp leaves] in *; try discriminate.
  - inversion Hi; subst. exact Hl.
  - destruct (h X o s) as [x t|x t|q t]; try discriminate. eapply IH; [apply Hl|exact Hi].
Qed.

Definition MARK : N := 4294967295.
Definition reps_ok (r : reps) : Prop := rep0 r <> MARK /\ rep1 r <> MARK /\ rep2 r <> MARK /\ rep3 r <> MARK.
Definition cont_ok (r : psym) : Prop := fst r = Continue -> reps_ok (y_rep (snd r)).

Lemma rep_get_ok r i : reps_ok r -> rep_get r i <> MARK.
Proof.
  intros (H0 & H1 & H2 & H3). unfold rep_get.
  destruct (i =? 0); [exact H0|]. destruct (i =? 1); [exact H1|]. destruct (i =? 2); [exact H2|exact H3].
Qed.

Lemma leaves_rep_select y ps : reps_ok (y_rep y) ->
  leaves (rep_select y ps true) (fun r => match r with inl res => cont_ok res | inr r' => reps_ok r' end).
Proof.
  intros Hy. unfold rep_select. cbv zeta. apply leaves_op. intros g0. destruct (negb g0).
  - apply leaves_op. intros l0. destruct (negb l0); [|exact Hy].
    apply leaves_op. intros _. cbn [leaves]. intros _. exact Hy.
  - apply leaves_op. intros g1. apply leaves_bind_any. intros idx. cbn [leaves].
    pose proof (rep_get_ok (y_rep y) idx Hy) as Hg. destruct Hy as (H0 & H1 & H2 & H3).
    destruct (idx =? 1); [|destruct (idx =? 2)]; unfold reps_ok; cbn [rep0 rep1 rep2 rep3]; repeat split; assumption.
Qed.

Lemma leaves_rep_arm y ps : reps_ok (y_rep y) -> leaves (rep_arm y ps true) cont_ok.
Proof.
  intros Hy. unfold rep_arm. cbv zeta.
  apply (leaves_bind _ _ _ _ (leaves_rep_select y ps Hy)).
  intros [res|r'] Hr; [exact Hr|].
  apply leaves_bind_any. intros len. apply leaves_op. intros _. cbn [leaves]. intros _. exact Hr.
Qed.

Lemma leaves_match_arm y ps : reps_ok (y_rep y) -> leaves (match_arm y ps true) cont_ok.
Proof.
  intros (H0 & H1 & H2 & H3). unfold match_arm. cbv zeta.
  apply leaves_bind_any. intros len. apply leaves_bind_any. intros rep_0.
  destruct (N.eqb_spec rep_0 4294967295) as [Em|Em].
  - apply leaves_op. intros fin. destruct fin; cbn [leaves]; [|exact I]. intros C. discriminate C.
  - apply leaves_op. intros _. cbn [leaves]. intros _. unfold reps_ok. cbn [snd y_rep rep0 rep1 rep2 rep3].
    repeat split; assumption.
Qed.

Lemma leaves_lit_arm p y : reps_ok (y_rep y) -> leaves (lit_arm p y true) cont_ok.
Proof.
  intros Hy. unfold lit_arm. cbv zeta. apply leaves_bind_any. intros byte.
  apply leaves_op. intros _. cbn [leaves]. intros _. exact Hy.
Qed.

Lemma leaves_process_next_inner p y : reps_ok (y_rep y) -> leaves (process_next_inner p y true) cont_ok.
Proof.
  intros Hy. unfold process_next_inner. apply leaves_op. intros len0.
  destruct (63 <? pb p); [exact I|]. cbv zeta.
  apply leaves_op. intros is_m. destruct (negb is_m); [apply leaves_lit_arm; exact Hy|].
  apply leaves_op. intros is_r. destruct is_r; [apply leaves_rep_arm|apply leaves_match_arm]; exact Hy.
Qed.

(* ---------- the objects of process_mode ---------- *)
(* the loop head of FinishMode looks at the end of the input only when no size is in effect and rep0 is the marker
   value: that never happens, because of the following invariant *)
Definition HeadInv (d : dstate) : Prop := ds_unpacked d = None -> reps_ok (ds_rep d).

Definition lwR0 (E e : N) (x1 x2 : lw) : Prop :=
  l_ds x1 = l_ds x2 /\ ds_pib (l_ds x1) = [] /\ l_rc x1 = l_rc x2 /\ l_win x1 = l_win x2 /\
  tr E e (l_src x1) (l_src x2).
Definition lwR (E e : N) (x1 x2 : lw) : Prop := lwR0 E e x1 x2 /\ HeadInv (l_ds x1).

Lemma lwR0_mk E e d r win s1 s2 : ds_pib d = [] -> tr E e s1 s2 -> lwR0 E e (mkLw d r s1 win) (mkLw d r s2 win).
Proof. intros Hp H. unfold lwR0. cbn [l_ds l_rc l_win l_src]. repeat split; try reflexivity; try assumption; apply H. Qed.

Lemma run_sym_inv x y : HeadInv (l_ds x) -> run_sym true x = (Done Continue, y) -> HeadInv (l_ds y).
Proof.
  intros Hi. unfold run_sym.
  destruct (interp dec_h _ _) as [[[st y']|x0|q] t] eqn:Ei; intros H; inversion H; subst. clear H.
  intros Hu. cbn [l_ds ds_unpacked ds_rep] in *. specialize (Hi Hu).
  pose proof (leaves_interp dec_h _ _ (leaves_process_next_inner (ds_props (l_ds x)) (mkSym (ds_state (l_ds x)) (ds_rep (l_ds x))) Hi) _ _ _ Ei) as Hc.
  apply Hc. reflexivity.
Qed.

Lemma run_sym3 E e x1 x2 : lwR0 E e x1 x2 -> tw3 (lwR0 E e) (run_sym true x1) (run_sym true x2).
Proof.
  destruct x1 as [d r s1 win], x2 as [d2 r2 s2 win2]. intros (E1 & Hp & E2 & E3 & Htr).
  cbn [l_ds l_rc l_win l_src] in *. subst d2 r2 win2.
  unfold run_sym. cbn [l_ds l_rc l_win l_src].
  pose proof (dec3 E e (process_next_inner (ds_props d) (mkSym (ds_state d) (ds_rep d)) true)
              (fshape_process_next_inner _ _ _)
              (mkDw (ds_tabs d) r s1 win) (mkDw (ds_tabs d) r s2 win) (dwR_mk _ _ _ _ _ _ _ Htr)) as H3.
  destruct (interp dec_h _ (mkDw (ds_tabs d) r s1 win)) as [o1 y1].
  destruct (interp dec_h _ (mkDw (ds_tabs d) r s2 win)) as [o2 y2].
  destruct H3 as [[Hf Hr]|[[x Hx]|[x Hx]]]; cbn [fst snd] in *.
  - subst o2. destruct Hr as (T & R & W & S). left.
    destruct o1 as [[st y]|x|q]; (split; cbn [fst snd]; [reflexivity|]);
      rewrite T, R, W; apply lwR0_mk; assumption.
  - subst o1. right; left. exists x. reflexivity.
  - subst o2. right; right. exists x. reflexivity.
Qed.

(* ---------- the body of process_mode ---------- *)
Lemma fin_head_inv x : HeadInv (l_ds x) -> exists b, fin_head x = (Done b, x) /\
  b = match ds_unpacked (l_ds x) with Some us => us <=? win_len (l_win x) | None => false end.
Proof.
  intros Hi. unfold fin_head. cbv zeta. destruct (ds_unpacked (l_ds x)) as [us|] eqn:Eu.
  - eexists. split; reflexivity.
  - destruct (Hi Eu) as (H0 & _). destruct (N.eqb_spec (rep0 (ds_rep (l_ds x))) 4294967295) as [Em|_]; [contradiction|].
    exists false. split; reflexivity.
Qed.

Definition sfailed {S A} (b : step S (outcome A * S)) : Prop := exists r, b = Break r /\ failed r.
Definition step3 {S A} (Rs Rr : S -> S -> Prop) (b1 b2 : step S (outcome A * S)) : Prop :=
  match b1, b2 with
  | Next t1, Next t2 => Rs t1 t2
  | Break r1, Break r2 => fst r1 = fst r2 /\ Rr (snd r1) (snd r2)
  | _, _ => False
  end \/ sfailed b1 \/ sfailed b2.

Lemma iter_step3 {S A} (b1 b2 : S -> step S (outcome A * S)) (Rs Rr : S -> S -> Prop)
  (Hb : forall s1 s2, Rs s1 s2 -> step3 Rs Rr (b1 s1) (b2 s2)) :
  forall n s1 s2, Rs s1 s2 -> step3 Rs Rr (iter_step n b1 s1) (iter_step n b2 s2).
Proof.
  induction n as [|n IH]; intros s1 s2 H; cbn [iter_step]; [left; exact H|].
  destruct (Hb s1 s2 H) as [Hrel|[(r & Er & Hr)|(r & Er & Hr)]].
  - destruct (b1 s1) as [t1|r1]; destruct (b2 s2) as [t2|r2]; try contradiction; [apply IH; exact Hrel|left; exact Hrel].
  - rewrite Er. right; left. exists r. split; [reflexivity|exact Hr].
  - rewrite Er. right; right. exists r. split; [reflexivity|exact Hr].
Qed.

Lemma loopN3 {S A} (b1 b2 : S -> step S (outcome A * S)) (Rs Rr : S -> S -> Prop)
  (Hb : forall s1 s2, Rs s1 s2 -> step3 Rs Rr (b1 s1) (b2 s2)) :
  forall p s1 s2, Rs s1 s2 -> step3 Rs Rr (loopN p b1 s1) (loopN p b2 s2).
Proof. intros p s1 s2 H. rewrite !loopN_iter. apply iter_step3; assumption. Qed.

Lemma fin_tail3 E e x1 x2 : lwR E e x1 x2 -> step3 (lwR E e) (lwR0 E e) (fin_tail x1) (fin_tail x2).
Proof.
  destruct x1 as [d r s1 win], x2 as [d2 r2 s2 win2]. intros ((E1 & Hp & E2 & E3 & Htr) & Hi).
  cbn [l_ds l_rc l_win l_src] in *. subst d2 r2 win2.
  unfold fin_tail. cbn [l_ds l_rc l_win l_src].
  destruct (fill3 E e s1 s2 Htr) as (b1 & b2 & t1 & t2 & R1 & R2 & Htr'). rewrite R1, R2.
  pose proof (run_sym3 E e (mkLw d r t1 win) (mkLw d r t2 win) (lwR0_mk _ _ _ _ _ _ _ Hp Htr')) as H3.
  pose proof (run_sym_inv (mkLw d r t1 win)) as Hinv. cbn [l_ds] in Hinv.
  destruct (run_sym true (mkLw d r t1 win)) as [o1 y1]. destruct (run_sym true (mkLw d r t2 win)) as [o2 y2].
  destruct H3 as [[Hf Hr]|[[x Hx]|[x Hx]]]; cbn [fst snd] in *.
  - subst o2. left.
    destruct o1 as [[|]|x|q]; cbn [fst snd]; try (split; [reflexivity|assumption]).
    split; [exact Hr|]. apply Hinv; [exact Hi|reflexivity].
  - subst o1. right; left. eexists. split; [reflexivity|]. exists x. reflexivity.
  - subst o2. right; right. eexists. split; [reflexivity|]. exists x. reflexivity.
Qed.

Lemma pm_body3 E e x1 x2 : lwR E e x1 x2 -> step3 (lwR E e) (lwR0 E e) (pm_body FinishMode x1) (pm_body FinishMode x2).
Proof.
  intros H. pose proof H as ((E1 & Hp1 & E2 & E3 & Htr) & Hi).
  assert (Hp2 : ds_pib (l_ds x2) = []) by (rewrite <- E1; exact Hp1).
  assert (Hi2 : HeadInv (l_ds x2)) by (rewrite <- E1; exact Hi).
  rewrite (pm_body_fin x1 Hp1), (pm_body_fin x2 Hp2).
  destruct (fin_head_inv x1 Hi) as (b1 & F1 & B1). destruct (fin_head_inv x2 Hi2) as (b2 & F2 & B2).
  rewrite F1, F2. assert (Eb : b1 = b2) by (rewrite B1, B2, E1, E3; reflexivity). clear B1 B2. subst b2.
  destruct b1.
  - left. cbn [fst snd]. split; [reflexivity|apply H].
  - apply fin_tail3. exact H.
Qed.

Theorem process_mode3 E e fuel x1 x2 : lwR E e x1 x2 ->
  tw3 (lwR0 E e) (process_mode FinishMode fuel x1) (process_mode FinishMode fuel x2).
Proof.
  intros H. unfold process_mode.
  match goal with
  | |- tw3 _ (match ?a with _ => _ end) (match ?b with _ => _ end) =>
      assert (L : step3 (lwR E e) (lwR0 E e) a b) by (apply loopN3; [apply pm_body3|exact H]);
      destruct a as [t1|[o1 y1]]; destruct b as [t2|[o2 y2]]
  end; destruct L as [L|[(r & Er & x & Hx)|(r & Er & x & Hx)]]; try contradiction; try discriminate Er;
    try (inversion Er; subst r; cbn [fst] in Hx; subst; first [right; left; exists x; reflexivity|right; right; exists x; reflexivity]).
  - left. split; [reflexivity|apply L].
  - destruct L as [Hf Hr]. cbn [fst snd] in Hf, Hr. subst o2. left.
    destruct o1 as [u|x|q]; try (split; [reflexivity|assumption]).
    pose proof Hr as (E1 & Hp & E2 & E3 & Htr). rewrite <- E1, <- E3.
    destruct (ds_unpacked (l_ds y1)) as [len|]; [|split; [reflexivity|assumption]].
    destruct (len =? win_len (l_win y1)); (split; [reflexivity|assumption]).
Qed.

(* ---------- LzmaDecoder::decompress ---------- *)
Definition src_of_res {A B} (r : outcome A * (B * io)) : src := i_src (snd (snd r)).

Theorem lzma_decoder_decompress3 E e fuel dec w1 w2 :
  ds_pib (ld_state dec) = [] -> HeadInv (ld_state dec) -> trio E e w1 w2 ->
  (fst (lzma_decoder_decompress fuel dec w1) = fst (lzma_decoder_decompress fuel dec w2) /\
   tr E e (src_of_res (lzma_decoder_decompress fuel dec w1)) (src_of_res (lzma_decoder_decompress fuel dec w2)))
  \/ failed (lzma_decoder_decompress fuel dec w1) \/ failed (lzma_decoder_decompress fuel dec w2).
Proof.
  destruct w1 as [s1 k1], w2 as [s2 k2]. intros Hp Hi [Htr Hk]. cbn [i_src i_snk] in *. subst k2.
  unfold lzma_decoder_decompress, src_of_res. cbv zeta. cbn [i_src i_snk].
  destruct (Tw2_src_run _ (Tw2_map ELzma _ Tw2_rc_new) E e s1 s2 Htr) as [[Hf Hs]|[x Hx]].
  2:{ destruct (src_run (map_io_err ELzma rc_new) s1) as [o1 t1]. cbn [fst] in Hx. subst o1.
      right; left. exists x. reflexivity. }
  destruct (src_run (map_io_err ELzma rc_new) s1) as [o t1].
  destruct (src_run (map_io_err ELzma rc_new) s2) as [o2 t2]. cbn [fst snd] in Hf, Hs. subst o2.
  destruct o as [r|x|q]; try (left; cbn [fst snd i_src]; split; [reflexivity|exact Hs]).
  set (win := WCirc (circ_new k1 (pr_dict (ld_params dec)) (ld_memlimit dec))).
  pose proof (process_mode3 E e fuel (mkLw (ld_state dec) r t1 win) (mkLw (ld_state dec) r t2 win)
              (conj (lwR0_mk _ _ _ _ _ _ _ Hp Hs) Hi)) as H3.
  destruct (process_mode FinishMode fuel (mkLw (ld_state dec) r t1 win)) as [o1 y1].
  destruct (process_mode FinishMode fuel (mkLw (ld_state dec) r t2 win)) as [o2 y2].
  destruct H3 as [[Hf Hr]|[[x Hx]|[x Hx]]]; cbn [fst snd] in *.
  - subst o2. destruct Hr as (E1 & _ & E2 & E3 & Hs2). rewrite <- E1, <- E3. left.
    destruct o1 as [u|x|q]; try (cbn [fst snd i_src]; split; [reflexivity|exact Hs2]).
    destruct (l_win y1) as [c|a].
    + destruct (circ_finish c) as [[u'|x|q] k]; cbn [fst snd i_src]; (split; [reflexivity|exact Hs2]).
    + cbn [fst snd i_src]. split; [reflexivity|exact Hs2].
  - subst o1. right; left. exists x. reflexivity.
  - subst o2. right; right. exists x. reflexivity.
Qed.

Lemma lzma_decoder_new_inv p m dec : lzma_decoder_new p m = Done dec ->
  ds_pib (ld_state dec) = [] /\ HeadInv (ld_state dec).
Proof.
  unfold lzma_decoder_new, dstate_new. destruct (pr_dict p =? 0); [discriminate|].
  destruct (negb (props_valid (pr_props p))); [discriminate|]. intros H. inversion H. cbn [ld_state ds_pib].
  split; [reflexivity|]. intros _. cbn [ds_rep]. unfold reps_ok, MARK. cbn [rep0 rep1 rep2 rep3]. repeat split; discriminate.
Qed.

(* ---------- lzma_decompress ---------- *)
Theorem lzma_decompress3 E e fuel o w1 w2 : trio E e w1 w2 ->
  (fst (lzma_decompress fuel o w1) = fst (lzma_decompress fuel o w2) /\
   tr E e (i_src (snd (lzma_decompress fuel o w1))) (i_src (snd (lzma_decompress fuel o w2))))
  \/ failed (lzma_decompress fuel o w1) \/ failed (lzma_decompress fuel o w2).
Proof.
  destruct w1 as [s1 k1], w2 as [s2 k2]. intros [Htr Hk]. cbn [i_src i_snk] in *. subst k2.
  unfold lzma_decompress. cbn [i_src i_snk].
  destruct (Tw2_src_run _ (Tw2_map EHeaderTooShort _ (Tw2_read_header o)) E e s1 s2 Htr) as [[Hf Hs]|[x Hx]].
  2:{ destruct (src_run (map_io_err EHeaderTooShort (read_header o)) s1) as [o1 t1]. cbn [fst] in Hx. subst o1.
      right; left. exists x. reflexivity. }
  destruct (src_run (map_io_err EHeaderTooShort (read_header o)) s1) as [r t1].
  destruct (src_run (map_io_err EHeaderTooShort (read_header o)) s2) as [r2 t2]. cbn [fst snd] in Hf, Hs. subst r2.
  destruct r as [p|x|q]; try (left; split; cbn [fst snd i_src]; [reflexivity|exact Hs]).
  destruct (lzma_decoder_new p (o_memlimit o)) as [dec|x|q] eqn:En;
    try (left; split; cbn [fst snd i_src]; [reflexivity|exact Hs]).
  destruct (lzma_decoder_new_inv _ _ _ En) as [Hp Hi].
  pose proof (lzma_decoder_decompress3 E e fuel dec (mkIo t1 k1) (mkIo t2 k1) Hp Hi (conj Hs eq_refl)) as H3.
  unfold src_of_res, failed in *.
  destruct (lzma_decoder_decompress fuel dec (mkIo t1 k1)) as [r1 [d1 v1]].
  destruct (lzma_decoder_decompress fuel dec (mkIo t2 k1)) as [r2 [d2 v2]].
  cbn [fst snd] in *. exact H3.
Qed.

(* ====================================================================== *)
(* General consequences: an accepted input cannot be cut inside its consumed part *)
(* ====================================================================== *)
Theorem lzma_cut_short_general fuel o D more frag frag' k w2' :
  lzma_decompress fuel o (mkIo (src_of (D ++ more) frag None) k) = (Done tt, w2') ->
  nlen D < s_pos (i_src w2') ->
  exists x w1', lzma_decompress fuel o (mkIo (src_of D frag' None) k) = (Failed x, w1').
Proof.
  intros Hrun Hlt.
  destruct (lzma_decompress3 (nlen D) (nlen D) fuel o (mkIo (src_of D frag' None) k) (mkIo (src_of (D ++ more) frag None) k))
    as [[Hf Hs]|[[x Hx]|[x Hx]]].
  - split; [apply tr_src_of|reflexivity].
  - rewrite Hrun in Hs. cbn [fst snd] in Hs. pose proof (tr_pos _ _ _ _ Hs). pose proof (tr_bound _ _ _ _ Hs). lia.
  - destruct (lzma_decompress fuel o (mkIo (src_of D frag' None) k)) as [r1 w1']. cbn [fst] in Hx. subst r1.
    exists x, w1'. reflexivity.
  - rewrite Hrun in Hx. discriminate Hx.
Qed.
Print Assumptions lzma_cut_short_general.

(* the raw decoder, on any fault-free source; the source may carry a Take limit (std::io::Take):
   [s1] is any truncation of [s2] in the sense of [tr], with e the last position [s1] can reach *)
Theorem raw_lzma_cut_short_general E e fuel dec s1 s2 k dec' w2' :
  ds_pib (ld_state dec) = [] -> HeadInv (ld_state dec) ->
  tr E e s1 s2 ->
  lzma_decoder_decompress fuel dec (mkIo s2 k) = (Done tt, (dec', w2')) ->
  e < s_pos (i_src w2') ->
  exists x y, lzma_decoder_decompress fuel dec (mkIo s1 k) = (Failed x, y).
Proof.
  intros Hp Hi Htr Hrun Hlt.
  destruct (lzma_decoder_decompress3 E e fuel dec (mkIo s1 k) (mkIo s2 k) Hp Hi (conj Htr eq_refl)) as [[Hf Hs]|[[x Hx]|[x Hx]]].
  - unfold src_of_res in Hs. rewrite Hrun in Hs. cbn [fst snd] in Hs.
    pose proof (tr_pos _ _ _ _ Hs). pose proof (tr_bound _ _ _ _ Hs). lia.
  - destruct (lzma_decoder_decompress fuel dec (mkIo s1 k)) as [r1 y]. cbn [fst] in Hx. subst r1.
    exists x, y. reflexivity.
  - rewrite Hrun in Hx. discriminate Hx.
Qed.
Print Assumptions raw_lzma_cut_short_general.
