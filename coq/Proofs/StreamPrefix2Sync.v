(* C15, second part, layer 1: the C05 simulation (StreamSimLoop / StreamSimData) once more, with the
   existentially hidden one-shot state exposed.  [osteps A0 k A]: [A] is the state of the abstract one-shot
   loop (StreamSimCall.obody = StreamSimBody.abody FinishMode) after [k] iterations from [A0].  [InSyncK A0 ..]
   is StreamSimLoop.InSync plus "the witness is reachable from A0".  The theorems are the ones of
   StreamSimLoop.partial_call and StreamSimData.call_state / write_ds / write_ds0 with this stronger invariant
   (the proofs are the same inductions; partial_iter, after_mark_call etc. are reused as they are). *)
From LZ Require Import Base.Prelude Base.Prog Model.Io Model.Tables Model.LzBuffer Model.RangeDec Model.Lzma Model.Stream.
From LZ Require Import Proofs.ProgLemmas Proofs.IoLemmas.
From LZ Require Import Proofs.StreamSimAbs Proofs.StreamSimSym Proofs.StreamSimBody Proofs.StreamSimMark Proofs.StreamSimCall
  Proofs.StreamSimLoop Proofs.StreamSimData.
From Coq Require Import ZifyBool ZifyNat ZifyN.
Local Open Scope prog_scope.

(* ====================================================================== *)
(* Iterations of the abstract one-shot loop                                 *)
(* ====================================================================== *)
Inductive osteps (A0 : ast) : nat -> ast -> Prop :=
| os_here : osteps A0 0 A0
| os_snoc k A A1 : osteps A0 k A -> obody A = Next A1 -> osteps A0 (S k) A1.

Definition InSyncK (A0 : ast) (n : nat) (a : ast) (unread : list N) (R : outcome unit * ast) : Prop :=
  exists A n' k, osteps A0 k A /\ (n' <= n)%nat /\ core_eq a A /\ AInv A /\ dict_ok (x_win A) /\ oeval n' A R /\
                 nlen (pibof a) <= 20 /\
                 (size_hit a = true \/ (x_in A = pibof a ++ unread /\ nlen (pibof a) < 20)).

Lemma InSyncK_InSync A0 n a u R : InSyncK A0 n a u R -> InSync n a u R.
Proof. intros (A & n' & k & _ & H). exists A, n'. exact H. Qed.

Lemma InSyncK_mono A0 n m a u R : InSyncK A0 n a u R -> (n <= m)%nat -> InSyncK A0 m a u R.
Proof. intros (A & n' & k & Hos & H & X) Hm. exists A, n', k. split; [exact Hos|]. split; [lia|exact X]. Qed.

Lemma InSyncK_with_in A0 n a i u R : InSyncK A0 n a u R -> InSyncK A0 n (with_in a i) u R.
Proof. intros (A & n' & k & H). exists A, n', k. exact H. Qed.

Lemma InSyncK_intro A0 n a u R A n' k : osteps A0 k A -> (n' <= n)%nat -> core_eq a A -> AInv A -> dict_ok (x_win A) -> oeval n' A R ->
  nlen (pibof a) <= 20 -> (size_hit a = true \/ (x_in A = pibof a ++ u /\ nlen (pibof a) < 20)) -> InSyncK A0 n a u R.
Proof. intros. exists A, n', k. tauto. Qed.

Lemma InSyncK_size A0 n a u u' R : InSyncK A0 n a u R -> size_hit a = true -> InSyncK A0 n a u' R.
Proof.
  intros (A & n' & k & Hos & Hn & Hc & HI & HD & Hev & Hp & _) Hsz.
  apply (InSyncK_intro A0 n a u' R A n' k); try assumption. left. exact Hsz.
Qed.

(* ====================================================================== *)
(* One call of process_mode Partial, in step                                *)
(* ====================================================================== *)
Theorem partial_call_k A0 N0 fut R : forall n' A, oeval n' A R -> forall k0 a, osteps A0 k0 A ->
  core_eq a A -> x_in A = pibof a ++ x_in a ++ fut -> AInv A -> dict_ok (x_win A) -> nlen (pibof a) <= 20 ->
  progress N0 a ->
  exists m res a', (1 <= m <= n')%nat /\ iter_step m (abody Partial) a = Break (res, a') /\
    ((res = Done tt /\ x_in a' = [] /\ size_hit a' = false /\ InSyncK A0 n' a' (x_in a' ++ fut) R) \/
     (res = Done tt /\ size_hit a' = true /\ InSyncK A0 n' a' (x_in a' ++ fut) R) \/
     (res = Done tt /\ (x_in a' = [] \/ nlen (x_in a') < N0) /\ AfterMark a' (x_in a' ++ fut) R) \/
     (is_failed res /\ is_failed (fst R))).
Proof.
  induction 1 as [A R OB|n A A1 R OB Hev IH]; intros k0 a Hos Hc Hi HI HD Hp Hpr.
  - pose proof (partial_iter a A fut Hc Hi HI HD Hp) as IP.
    destruct (abody Partial a) as [ax|[rx ax]] eqn:EB.
    + inversion IP; subst. congruence.
    + exists 1%nat, rx, ax. split; [lia|]. split; [apply body_break_iter; exact EB|].
      inversion IP as [| Hsz Heq | a1 C1 I1 E1 P1 S1 Heq | e a1 e' A' OB1 Heq | a1 PM Ep Hsuf Hpe Hst Alt Heq]; subst.
      * right; left. split; [reflexivity|]. split; [exact Hsz|].
        exists A, 1%nat, k0. split; [exact Hos|]. split; [lia|]. split; [exact Hc|]. split; [exact HI|]. split; [exact HD|].
        split; [apply oe_break; exact OB|]. split; [exact Hp|]. left. exact Hsz.
      * left. split; [reflexivity|]. split; [exact E1|]. split; [exact S1|].
        exists A, 1%nat, k0. split; [exact Hos|]. split; [lia|]. split; [exact C1|]. split; [exact HI|]. split; [exact HD|].
        split; [apply oe_break; exact OB|]. split; [lia|]. right. split; [exact I1|exact P1].
      * right; right; right. split; [exact I|]. rewrite OB in OB1. inversion OB1; subst. exact I.
      * right; right; left. split; [reflexivity|]. split.
        { eapply progress_mark; try eassumption. apply suffix_nlen. exact Hsuf. }
        eapply mark_package; try eassumption.
        destruct Alt as [[Em (A' & OB1 & C1)]|[Em (e' & A' & OB1)]]; rewrite OB in OB1; inversion OB1; subst.
        -- left. split; [exact Em|]. split; [reflexivity|exact C1].
        -- right. split; [exact Em|]. exists e'. reflexivity.
  - pose proof (partial_iter a A fut Hc Hi HI HD Hp) as IP.
    pose proof (oeval_pos _ _ _ Hev) as Hn1.
    destruct (abody Partial a) as [ax|[rx ax]] eqn:EB.
    + inversion IP as [a1 A1' OB1 C1 I1 HI1 HD1 P1 Q1 Q2 Q3 Heq| | | |]; subst.
      rewrite OB in OB1. inversion OB1; subst A1'.
      destruct (IH (S k0) ax (os_snoc A0 k0 A A1 Hos OB) C1 I1 HI1 HD1 P1 (progress_next N0 a ax Hpr Q1 Q2 Q3))
        as (m & res & a' & Hm & Hit & Post).
      exists (S m), res, a'. split; [lia|]. split; [cbn [iter_step]; rewrite EB; exact Hit|].
      destruct Post as [(E1 & E2 & E3 & E4)|[(E1 & E2 & E3)|[(E1 & E2 & E3)|E1]]].
      * left. split; [exact E1|]. split; [exact E2|]. split; [exact E3|]. eapply InSyncK_mono; [exact E4|lia].
      * right; left. split; [exact E1|]. split; [exact E2|]. eapply InSyncK_mono; [exact E3|lia].
      * right; right; left. split; [exact E1|]. split; [exact E2|exact E3].
      * right; right; right. exact E1.
    + exists 1%nat, rx, ax. split; [lia|]. split; [apply body_break_iter; exact EB|].
      assert (Hev' : oeval (S n) A R) by (eapply oe_next; eassumption).
      inversion IP as [| Hsz Heq | a1 C1 I1 E1 P1 S1 Heq | e a1 e' A' OB1 Heq | a1 PM Ep Hsuf Hpe Hst Alt Heq]; subst.
      * right; left. split; [reflexivity|]. split; [exact Hsz|].
        exists A, (S n), k0. split; [exact Hos|]. split; [lia|]. split; [exact Hc|]. split; [exact HI|]. split; [exact HD|].
        split; [exact Hev'|]. split; [exact Hp|]. left. exact Hsz.
      * left. split; [reflexivity|]. split; [exact E1|]. split; [exact S1|].
        exists A, (S n), k0. split; [exact Hos|]. split; [lia|]. split; [exact C1|]. split; [exact HI|]. split; [exact HD|].
        split; [exact Hev'|]. split; [lia|]. right. split; [exact I1|exact P1].
      * congruence.
      * destruct Alt as [[Em (A' & OB1 & C1)]|[Em (e' & A' & OB1)]]; congruence.
Qed.
Print Assumptions partial_call_k.

(* ====================================================================== *)
(* One write call, abstractly                                               *)
(* ====================================================================== *)
Definition StK (A0 : ast) (n : nat) (a : ast) (u : list N) (R : outcome unit * ast) : Prop :=
  InSyncK A0 n a u R \/ AfterMark a u R.

Lemma StK_St A0 n a u R : StK A0 n a u R -> St n a u R.
Proof. intros [H|H]; [left; eapply InSyncK_InSync; exact H|right; exact H]. Qed.

Lemma StK_with_in A0 n a i u R : StK A0 n a u R -> StK A0 n (with_in a i) u R.
Proof. intros [H|H]; [left; apply InSyncK_with_in; exact H|right; apply AfterMark_with_in; exact H]. Qed.

Inductive call_post_k (A0 : ast) (n : nat) (data fut : list N) (R : outcome unit * ast) : outcome unit -> ast -> Prop :=
| cpk_all a' : x_in a' = [] -> StK A0 n a' fut R -> call_post_k A0 n data fut R (Done tt) a'
| cpk_size a' : size_hit a' = true -> InSyncK A0 n a' [] R -> call_post_k A0 n data fut R (Done tt) a'
| cpk_mark a' : nlen (x_in a') < nlen data -> AfterMark a' (x_in a' ++ fut) R -> call_post_k A0 n data fut R (Done tt) a'
| cpk_fail e a' : is_failed (fst R) -> call_post_k A0 n data fut R (Failed e) a'.

Theorem call_state_k A0 F n a data fut R : x_in a = data -> StK A0 n a (data ++ fut) R -> (n <= Pos.to_nat F)%nat ->
  exists res a', aprocess Partial F a = (res, a') /\ suffix_of (x_in a') data /\ call_post_k A0 n data fut R res a'.
Proof.
  intros Ei [HS|HM] HF.
  - destruct HS as (A & n' & k & Hos & Hn & Hc & HI & HD & Hev & Hp & Alt).
    destruct Alt as [Hsz|[HiA Hp20]].
    + exists (Done tt), a. split.
      * apply (aprocess_partial F 1 a (Done tt) a); [cbn [iter_step]; rewrite (size_hit_call Partial a Hsz); reflexivity|lia].
      * split; [rewrite Ei; apply suffix_refl|]. apply cpk_size; [exact Hsz|].
        apply (InSyncK_intro A0 n a [] R A n' k); try assumption. left. exact Hsz.
    + rewrite <- Ei in HiA.
      assert (Hpr : progress (nlen data) a) by (right; right; right; split; [exact Hp20|rewrite Ei; lia]).
      destruct (partial_call_k A0 (nlen data) fut R n' A Hev k a Hos Hc HiA HI HD Hp Hpr) as (m & res & a' & Hm & Hit & Post).
      pose proof (iter_suffix Partial m a) as Hsuf. rewrite Hit in Hsuf. cbn [res_ast] in Hsuf. rewrite Ei in Hsuf.
      destruct Post as [(E1 & E2 & E3 & E4)|[(E1 & E2 & E3)|[(E1 & E2 & E3)|(E1 & E2)]]].
      * subst res. exists (Done tt), a'. split; [apply (aprocess_partial F m a (Done tt) a' Hit); lia|].
        split; [exact Hsuf|]. apply cpk_all; [exact E2|]. left. rewrite E2 in E4. cbn [app] in E4.
        eapply InSyncK_mono; [exact E4|lia].
      * subst res. exists (Done tt), a'. split; [apply (aprocess_partial F m a (Done tt) a' Hit); lia|].
        split; [exact Hsuf|]. apply cpk_size; [exact E2|]. eapply InSyncK_size; [eapply InSyncK_mono; [exact E3|lia]|exact E2].
      * subst res. exists (Done tt), a'. split; [apply (aprocess_partial F m a (Done tt) a' Hit); lia|].
        split; [exact Hsuf|]. destruct E2 as [E2|E2].
        -- apply cpk_all; [exact E2|]. right. rewrite E2 in E3. exact E3.
        -- apply cpk_mark; assumption.
      * destruct res as [u|e|q]; try contradiction. exists (Failed e), a'.
        split; [apply (aprocess_partial F m a (Failed e) a' Hit); lia|]. split; [exact Hsuf|]. apply cpk_fail. exact E2.
  - rewrite <- Ei in HM. destruct (after_mark_call a fut R HM) as (res & a' & EB & Post).
    pose proof (abody_suffix Partial a) as Hsuf. rewrite EB in Hsuf. cbn [res_ast] in Hsuf. rewrite Ei in Hsuf.
    assert (Hit : iter_step 1 (abody Partial) a = Break (res, a')) by (cbn [iter_step]; rewrite EB; reflexivity).
    destruct Post as [(E1 & E2 & E3)|(E1 & E2)].
    + subst res. exists (Done tt), a'. split; [apply (aprocess_partial F 1 a (Done tt) a' Hit); lia|].
      split; [exact Hsuf|]. apply cpk_all; [exact E2|]. right. rewrite E2 in E3. exact E3.
    + destruct res as [u|e|q]; try contradiction. exists (Failed e), a'.
      split; [apply (aprocess_partial F 1 a (Failed e) a' Hit); lia|]. split; [exact Hsuf|]. apply cpk_fail. exact E2.
Qed.
Print Assumptions call_state_k.

Theorem call_state_fresh_k A0 F n a tmp fut R : x_in a = tmp -> pibof a = [] -> InSyncK A0 n a (tmp ++ fut) R -> (n <= Pos.to_nat F)%nat ->
  exists res a', aprocess Partial F a = (res, a') /\
    ((res = Done tt /\ x_in a' = [] /\ StK A0 n a' fut R) \/ (res = Done tt /\ size_hit a' = true /\ InSyncK A0 n a' [] R) \/
     (is_failed res /\ is_failed (fst R))).
Proof.
  intros Ei Epb (A & n' & k & Hos & Hn & Hc & HI & HD & Hev & Hp & Alt) HF.
  destruct Alt as [Hsz|[HiA Hp20]].
  - exists (Done tt), a. split.
    + apply (aprocess_partial F 1 a (Done tt) a); [cbn [iter_step]; rewrite (size_hit_call Partial a Hsz); reflexivity|lia].
    + right; left. split; [reflexivity|]. split; [exact Hsz|].
      apply (InSyncK_intro A0 n a [] R A n' k); try assumption. left. exact Hsz.
  - rewrite <- Ei in HiA.
    assert (Hpr : progress 0 a) by (left; exact Epb).
    destruct (partial_call_k A0 0 fut R n' A Hev k a Hos Hc HiA HI HD Hp Hpr) as (m & res & a' & Hm & Hit & Post).
    destruct Post as [(E1 & E2 & E3 & E4)|[(E1 & E2 & E3)|[(E1 & E2 & E3)|(E1 & E2)]]].
    + subst res. exists (Done tt), a'. split; [apply (aprocess_partial F m a (Done tt) a' Hit); lia|].
      left. split; [reflexivity|]. split; [exact E2|]. left. rewrite E2 in E4. cbn [app] in E4. eapply InSyncK_mono; [exact E4|lia].
    + subst res. exists (Done tt), a'. split; [apply (aprocess_partial F m a (Done tt) a' Hit); lia|].
      right; left. split; [reflexivity|]. split; [exact E2|]. eapply InSyncK_size; [eapply InSyncK_mono; [exact E3|lia]|exact E2].
    + subst res. exists (Done tt), a'. split; [apply (aprocess_partial F m a (Done tt) a' Hit); lia|].
      destruct E2 as [E2|E2]; [|lia]. left. split; [reflexivity|]. split; [exact E2|]. right. rewrite E2 in E3. exact E3.
    + destruct res as [u|e|q]; try contradiction. exists (Failed e), a'.
      split; [apply (aprocess_partial F m a (Failed e) a' Hit); lia|]. right; right. split; [exact I|exact E2].
Qed.

(* ====================================================================== *)
(* The concrete write calls in the data state                               *)
(* ====================================================================== *)
(* states of the stream between write calls: data phase, nothing left in tmp *)
Definition DSK (A0 : ast) (o : options) (n : nat) (s : stream) (u : list N) (R : outcome unit * ast) : Prop :=
  exists r, st_state s = Some (SData r) /\ st_tmp s = [] /\ st_opts s = o /\ StK A0 n (ast_of_run r []) u R.
(* right after the header: bytes may be left over in tmp, nothing decoded yet *)
Definition DS0K (A0 : ast) (o : options) (n : nat) (s : stream) (u : list N) (R : outcome unit * ast) : Prop :=
  exists r, st_state s = Some (SData r) /\ st_opts s = o /\ ds_pib (rs_dec r) = [] /\ nlen (st_tmp s) <= 18 /\
            InSyncK A0 n (ast_of_run r []) (st_tmp s ++ u) R.
Definition DSgK (A0 : ast) (o : options) (n : nat) (s : stream) (u : list N) (R : outcome unit * ast) : Prop :=
  DSK A0 o n s u R \/ DS0K A0 o n s u R.

Lemma DS0K_DSK A0 o n s u R : DS0K A0 o n s u R -> st_tmp s = [] -> DSK A0 o n s u R.
Proof.
  intros (r & H1 & Ho & Hp & Hl & HS) Ht. exists r. rewrite Ht in HS. cbn [app] in HS.
  split; [exact H1|]. split; [exact Ht|]. split; [exact Ho|]. left. exact HS.
Qed.

Lemma StK_circ A0 n a u R : StK A0 n a u R -> is_circ (x_win a).
Proof. intros H. eapply St_circ. eapply StK_St. exact H. Qed.

Theorem write_ds_k A0 o n s data fut R : DSK A0 o n s (data ++ fut) R -> (n <= Pos.to_nat big_fuel)%nat -> nlen data <= BIG ->
  match stream_write s data with
  | (Done k, s') => k <= nlen data /\ DSK A0 o n s' (nskipn k data ++ fut) R
  | (Failed e, s') => st_state s' = None /\ is_failed (fst R)
  | (Panicked _, _) => False
  end.
Proof.
  intros (r & Hs & Ht & Ho & HSt) Hn Hl.
  destruct (call_state_k A0 big_fuel n (ast_of_run r data) data fut R eq_refl (StK_with_in A0 n _ data _ _ HSt) Hn)
    as (res & a' & EP & Hsuf & CP).
  unfold stream_write. rewrite Hs, Ht. cbn [nlen length N.of_nat]. change (0 <? 0) with false. cbv iota.
  assert (Hlen : nlen (x_in a') <= nlen data) by (apply suffix_nlen; exact Hsuf).
  inversion CP as [a1 Ei HS1 E1 E2|a1 Hsz HS1 E1 E2|a1 Hlt HM E1 E2|e a1 HRf E1 E2]; subst;
    destruct (read_data_abs r data _ a' Hl EP) as [RF RD].
  - pose proof (StK_circ _ _ _ _ _ HS1) as HC. destruct (x_win a') as [c'|] eqn:Ew; [|contradiction].
    destruct (RD c' eq_refl) as (s' & ER & Hp). rewrite ER. cbv beta iota. cbn [rs_out].
    assert (Ek : s_pos s' = nlen data) by (rewrite Ei in Hp; cbn in Hp; lia).
    split; [lia|]. rewrite Ek, nskipn_all. cbn [app].
    eexists. split; [reflexivity|]. split; [reflexivity|]. split; [reflexivity|].
    replace (ast_of_run (mkRun (x_ds a') (x_rc a') c') []) with (with_in a' []) by (unfold ast_of_run, with_in; cbn; rewrite Ew; reflexivity).
    apply StK_with_in. exact HS1.
  - pose proof (StK_circ A0 n _ _ _ (or_introl HS1)) as HC. destruct (x_win a') as [c'|] eqn:Ew; [|contradiction].
    destruct (RD c' eq_refl) as (s' & ER & Hp). rewrite ER. cbv beta iota. cbn [rs_out].
    split; [lia|].
    eexists. split; [reflexivity|]. split; [reflexivity|]. split; [reflexivity|].
    replace (ast_of_run (mkRun (x_ds a') (x_rc a') c') []) with (with_in a' []) by (unfold ast_of_run, with_in; cbn; rewrite Ew; reflexivity).
    left. apply InSyncK_with_in. eapply InSyncK_size; [exact HS1|exact Hsz].
  - pose proof (StK_circ A0 n _ _ _ (or_intror HM)) as HC. destruct (x_win a') as [c'|] eqn:Ew; [|contradiction].
    destruct (RD c' eq_refl) as (s' & ER & Hp). rewrite ER. cbv beta iota. cbn [rs_out].
    split; [lia|].
    eexists. split; [reflexivity|]. split; [reflexivity|]. split; [reflexivity|].
    replace (ast_of_run (mkRun (x_ds a') (x_rc a') c') []) with (with_in a' []) by (unfold ast_of_run, with_in; cbn; rewrite Ew; reflexivity).
    right. apply AfterMark_with_in.
    replace (s_pos s') with (nlen data - nlen (x_in a')) by lia. rewrite (nskipn_suffix data (x_in a') Hsuf). exact HM.
  - destruct (stream_read_data r (cursor_of data)) as [res0 [r2 is]]. cbn [fst] in RF. subst res0.
    split; [reflexivity|exact HRf].
Qed.
Print Assumptions write_ds_k.

Theorem write_ds0_k A0 o n s data fut R : DS0K A0 o n s (data ++ fut) R -> (n <= Pos.to_nat big_fuel)%nat -> nlen data <= BIG ->
  match stream_write s data with
  | (Done k, s') => k <= nlen data /\ DSK A0 o n s' (nskipn k data ++ fut) R
  | (Failed e, s') => st_state s' = None /\ is_failed (fst R)
  | (Panicked _, _) => False
  end.
Proof.
  intros HD0 Hn Hl.
  destruct (list_eq_dec N.eq_dec (st_tmp s) []) as [Et|Et].
  { apply write_ds_k; try assumption. apply DS0K_DSK; assumption. }
  destruct HD0 as (r & Hs & Ho & Hp & Hlt & HS).
  assert (Hlt' : nlen (st_tmp s) <= BIG) by (unfold BIG; lia).
  destruct (call_state_fresh_k A0 big_fuel n (ast_of_run r (st_tmp s)) (st_tmp s) (data ++ fut) R eq_refl Hp
              (InSyncK_with_in A0 n _ (st_tmp s) _ _ HS) Hn) as (res & a' & EP & Post).
  destruct (read_data_abs r (st_tmp s) res a' Hlt' EP) as [RF RD].
  assert (Hpos : (0 <? nlen (st_tmp s)) = true).
  { apply N.ltb_lt. destruct (st_tmp s); [contradiction|rewrite nlen_cons; lia]. }
  assert (Hrest : forall r1, fst (stream_read_data r (cursor_of (st_tmp s))) = Done tt ->
            fst (snd (stream_read_data r (cursor_of (st_tmp s)))) = r1 ->
            stream_write s data = stream_write (mkStream [] (Some (SData r1)) (st_opts s) (st_ghost s)) data).
  { clear RF RD. intros r1 F1 F2. unfold stream_write. rewrite Hs, Hpos. cbn [st_state st_tmp nlen length N.of_nat]. change (0 <? 0) with false. cbv iota.
    destruct (stream_read_data r (cursor_of (st_tmp s))) as [res0 [r0 s0]]. cbn [fst snd] in *. subst res0 r0.
    cbv beta iota. unfold dead. cbn [st_opts st_tmp st_state]. reflexivity. }
  destruct Post as [(E1 & E2 & E3)|[(E1 & E2 & E3)|(E1 & E2)]].
  - subst res. pose proof (StK_circ _ _ _ _ _ E3) as HC. destruct (x_win a') as [c'|] eqn:Ew; [|contradiction].
    destruct (RD c' eq_refl) as (s' & ER & _).
    rewrite (Hrest (mkRun (x_ds a') (x_rc a') c')) by (rewrite ER; reflexivity).
    apply write_ds_k; try assumption.
    eexists. split; [reflexivity|]. split; [reflexivity|]. split; [exact Ho|].
    replace (ast_of_run (mkRun (x_ds a') (x_rc a') c') []) with (with_in a' []) by (unfold ast_of_run, with_in; cbn; rewrite Ew; reflexivity).
    apply StK_with_in. exact E3.
  - subst res. pose proof (StK_circ A0 n _ _ _ (or_introl E3)) as HC. destruct (x_win a') as [c'|] eqn:Ew; [|contradiction].
    destruct (RD c' eq_refl) as (s' & ER & _).
    rewrite (Hrest (mkRun (x_ds a') (x_rc a') c')) by (rewrite ER; reflexivity).
    apply write_ds_k; try assumption.
    eexists. split; [reflexivity|]. split; [reflexivity|]. split; [exact Ho|].
    replace (ast_of_run (mkRun (x_ds a') (x_rc a') c') []) with (with_in a' []) by (unfold ast_of_run, with_in; cbn; rewrite Ew; reflexivity).
    left. apply InSyncK_with_in. eapply InSyncK_size; eassumption.
  - destruct res as [u|e|q]; try contradiction.
    unfold stream_write. rewrite Hs, Hpos.
    destruct (stream_read_data r (cursor_of (st_tmp s))) as [res0 [r0 s0]]. cbn [fst] in RF. subst res0.
    split; [reflexivity|exact E2].
Qed.
Print Assumptions write_ds0_k.

Theorem write_dsg_k A0 o n s data fut R : DSgK A0 o n s (data ++ fut) R -> (n <= Pos.to_nat big_fuel)%nat -> nlen data <= BIG ->
  match stream_write s data with
  | (Done k, s') => k <= nlen data /\ DSK A0 o n s' (nskipn k data ++ fut) R
  | (Failed e, s') => st_state s' = None /\ is_failed (fst R)
  | (Panicked _, _) => False
  end.
Proof. intros [H|H]; [apply write_ds_k|apply write_ds0_k]; exact H. Qed.
