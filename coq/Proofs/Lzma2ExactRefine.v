(* C02, layer 2: the concrete handler dec_h on (tables, range decoder registers, source under a
   Take limit, ACCUMULATING window) refines the event oracle of SymOracle.v with an unbounded
   window (LZMA2: the distance check is against the bytes since the last dictionary reset).
   Port of LzmaExactRefine.v:  CInv / circ  ->  AInv / accum,  FaultFree -> TakeOk,
   and the relation now also pins the probability tables reached at the end of the chunk. *)
From LZ Require Import Base.Prelude Base.Prog Model.Io Model.Tables Model.LzBuffer Model.RangeDec Model.Lzma Format.RefEnc
  Proofs.ProgLemmas Proofs.MapLemmas Proofs.IoLemmas Proofs.RangeLockstep Proofs.WinCirc Proofs.WinAccum Proofs.NoPanic Proofs.NoPanicWorld
  Proofs.SymOracle Proofs.SymCoders Proofs.SymLiteral Proofs.SymDecode Proofs.SymChain
  Proofs.LzmaExactSync Proofs.LzmaExactShape Proofs.LzmaExactRefine Proofs.Lzma2ExactIo.
From Coq Require Import ZifyBool ZifyNat ZifyN.
Local Open Scope prog_scope.

(* ---------- the oracle's history only grows ---------- *)
Lemma oracle_len_mono {A} w (p : dprog A) n s : n <= h_len (snd s) -> n <= h_len (snd (snd (interp (oracle w) p s))).
Proof.
  apply (interp_inv (oracle w) (fun s => n <= h_len (snd s))). clear.
  intros X o [evs h] H. cbn [snd] in H. destruct o; cbn [oracle fst snd].
  - destruct evs as [|[c' b|b] t]; cbn [snd]; try exact H. destruct (cell_eq_dec c' c); cbn [snd]; exact H.
  - destruct (pop_direct (N.to_nat count) 0 evs) as [[v t]|]; cbn [snd]; exact H.
  - exact H.
  - exact H.
  - exact H.
  - destruct (can_copy w h dist); cbn [snd]; exact H.
  - unfold hist_push. cbn [snd h_len]. lia.
  - destruct (can_copy w h dist); cbn [snd]; [unfold hist_copy; cbn [h_len]; lia|exact H].
Qed.

Lemma copy_back_nlen n d (l : list N) : nlen (copy_back n d l) = nlen l + N.of_nat n.
Proof.
  unfold nlen. revert d l. induction n as [|n IH]; intros d l; cbn [copy_back]; [lia|].
  rewrite IH. cbn [length]. lia.
Qed.

Lemma fold_ev_dir bits : forall ie t real,
  fold_left ienc_ev (map EvDirect bits ++ real) (ie, t)
  = fold_left ienc_ev real (fold_left ienc_rev (map RDir bits) ie, t).
Proof.
  induction bits as [|b bits IH]; intros ie t real; cbn [map app fold_left ienc_ev ienc_rev]; [reflexivity|].
  apply IH.
Qed.

Section Refine2.
  Variables (lcp : N) (pre : list N) (ief : ienc) (tf : ptabs) (delta : N) (trail : list N)
            (pos_end fl hmax : N).
  Hypothesis Hdelta : delta < i_range ief.
  Hypothesis Hmax : hmax <= 18446744073709551615.

  (* one event that no decoder operation can consume: FinishedOk is never answered [true] *)
  Definition phantom2 : list ev := [EvBit (CIsRep 12) false].

  Definition RelCode2 (t : ptabs) (r : rc) (s : src) (real : list ev) : Prop :=
    exists ie rest,
      wf_ienc ie /\ TabsStd t lcp /\ ProbsOk t /\
      fold_left ienc_ev real (ie, t) = (ief, tf) /\
      Sync ie r rest (i_low ief + delta) (i_norms ief) /\
      TakeOk s rest trail /\ s_pos s + nlen rest = pos_end.

  Definition RelWin2 (wn : win) (h : hist) : Prop :=
    exists a, wn = WAccum a /\ AInv pre a (List.rev (h_bytes h)) /\ a_mem a = 18446744073709551615 /\
      k_ffail (a_snk a) = false /\ k_flushes (a_snk a) = fl /\
      h_len h = nlen (h_bytes h) /\ Forall (fun b => b < 256) (h_bytes h).

  Definition Rel2 (x : dw) (o : ostate) : Prop :=
    exists real, fst o = real ++ phantom2 /\
      RelCode2 (d_tabs x) (d_rc x) (d_src x) real /\ RelWin2 (d_win x) (snd o).

  (* ---------- the coder side ---------- *)
  Lemma relcode2_bit t r s c b real : RelCode2 t r s (EvBit c b :: real) -> cell_in lcp c ->
    exists prob r' s', cell_get t c = Some prob /\
      src_run (rc_decode_bit r prob true) s = (Done (b, prob_upd prob b, r'), s') /\
      RelCode2 (cell_set t c (prob_upd prob b)) r' s' real.
  Proof.
    intros (ie & rest & Hwf & Hstd & Hpo & Hfold & Hsync & HT & Hpos) Hc.
    destruct (cell_get t c) as [prob|] eqn:Eg; [|exfalso; eapply cell_in_get; eassumption].
    assert (Hp : prob_ok prob) by (eapply cell_get_ProbsOk; eassumption).
    cbn [fold_left ienc_ev] in Hfold. rewrite Eg in Hfold.
    set (t' := cell_set t c (prob_upd prob b)) in *. set (ie1 := ienc_bit ie prob b) in *.
    assert (Hpo' : ProbsOk t') by (apply cell_set_ProbsOk; [|apply prob_upd_ok]; assumption).
    pose proof (f_equal fst Hfold) as Hfold'. cbn [fst] in Hfold'. rewrite fold_ev_rev in Hfold'.
    pose proof (to_revs_wf real t' Hpo') as Hwfr.
    assert (He : wf_rev (RBit prob b)) by exact Hp.
    destruct (ienc_rev_wf ie (RBit prob b) Hwf He) as [Hwf1 _]. cbn [ienc_rev] in Hwf1. fold ie1 in Hwf1.
    assert (HW : Within ie1 (i_low ief + delta) (i_norms ief)).
    { apply (within_back (to_revs t' real)); try assumption. rewrite Hfold'. apply within_final. exact Hdelta. }
    destruct (sync_steps [RBit prob b] ie r rest _ _ [] Hwf (Forall_cons _ He (Forall_nil _)) Hsync HW)
      as (c' & rest' & Hpd & Hsync').
    cbn [fold_left ienc_rev map bit_of] in Hpd, Hsync'. fold ie1 in Hpd, Hsync'.
    rewrite !app_nil_r in Hpd.
    apply pdec_single in Hpd. cbn [pdec_ev] in Hpd.
    assert (HRr : r_range r < 4294967296) by (destruct Hsync as [HR _]; rewrite HR; apply Hwf).
    assert (Hp48 : prob <= 2048) by (unfold prob_ok in Hp; lia).
    destruct (rc_decode_bit_take r prob true s rest trail _ _ _ HT HRr Hp48 Hpd) as (s' & Hrun & HT' & Hp').
    exists prob, (mkRc (i_range ie1) c'), s'. split; [reflexivity|]. split; [exact Hrun|].
    exists ie1, rest'. split; [exact Hwf1|]. split; [apply cell_set_TabsStd; exact Hstd|]. split; [exact Hpo'|].
    split; [exact Hfold|]. split; [exact Hsync'|]. split; [exact HT'|]. lia.
  Qed.

  Lemma relcode2_direct t r s bits real : RelCode2 t r s (map EvDirect bits ++ real) -> nlen bits <= 32 ->
    exists r' s', src_run (rc_get (nlen bits) r) s = (Done (msb_num bits, r'), s') /\ RelCode2 t r' s' real.
  Proof.
    intros (ie & rest & Hwf & Hstd & Hpo & Hfold & Hsync & HT & Hpos) Hn.
    pose proof (f_equal fst Hfold) as Hfold'. cbn [fst] in Hfold'.
    rewrite fold_ev_rev, to_revs_dir, fold_left_app in Hfold'.
    set (ie1 := fold_left ienc_rev (map RDir bits) ie) in *.
    assert (Hev : Forall wf_rev (map RDir bits)).
    { clear. induction bits; cbn [map]; constructor; [exact I|assumption]. }
    destruct (ienc_fold_wf _ ie Hwf Hev) as [Hwf1 _]. fold ie1 in Hwf1.
    pose proof (to_revs_wf real t Hpo) as Hwfr.
    assert (HW : Within ie1 (i_low ief + delta) (i_norms ief)).
    { apply (within_back (to_revs t real)); try assumption. rewrite Hfold'. apply within_final. exact Hdelta. }
    destruct (sync_steps (map RDir bits) ie r rest _ _ [] Hwf Hev Hsync HW) as (c' & rest' & Hpd & Hsync').
    fold ie1 in Hpd, Hsync'. rewrite map_bit_of_dir, pdec_dir_irrel, !app_nil_r in Hpd.
    assert (Hpg : pget (nlen bits) r rest = Some (msb_num bits, mkRc (i_range ie1) c', rest')).
    { rewrite (pget_value _ _ _ Hn). unfold nlen at 1. rewrite Nat2N.id, Hpd. reflexivity. }
    destruct (rc_get_take (nlen bits) r s rest trail _ _ _ HT Hpg) as (s' & Hrun & HT' & Hp').
    exists (mkRc (i_range ie1) c'), s'. split; [exact Hrun|].
    exists ie1, rest'. split; [exact Hwf1|]. split; [exact Hstd|]. split; [exact Hpo|].
    split.
    { rewrite fold_ev_dir in Hfold. exact Hfold. }
    split; [exact Hsync'|]. split; [exact HT'|]. lia.
  Qed.

  (* all events consumed: the registers hold delta, the tables are the final tables and the
     source is at the bytes that follow the chunk, with the Take limit used up *)
  Lemma relcode2_end t r s : RelCode2 t r s [] ->
    t = tf /\ r_code r = delta /\ TakeOk s [] trail /\ s_pos s = pos_end.
  Proof.
    clear Hdelta Hmax.
    intros (ie & rest & Hwf & Hstd & Hpo & Hfold & (HR & Hb & Hn & HV) & HT & Hpos).
    cbn [fold_left] in Hfold. inversion Hfold; subst ie t. clear Hfold.
    assert (rest = []) by (apply nlen_zero; clear - Hn; lia). subst rest.
    change (nlen (@nil N)) with 0 in *. change (be_num []) with 0 in HV. rewrite N.pow_0_r in HV.
    split; [reflexivity|]. split; [lia|]. split; [exact HT|lia].
  Qed.

  Lemma relcode2_src t r s s' real : RelCode2 t r s real ->
    (forall rest, TakeOk s rest trail -> TakeOk s' rest trail) -> s_pos s' = s_pos s -> RelCode2 t r s' real.
  Proof.
    intros (ie & rest & Hwf & Hstd & Hpo & Hfold & Hsync & HT & Hpos) F E2.
    exists ie, rest. rewrite E2. split; [exact Hwf|]. split; [exact Hstd|]. split; [exact Hpo|].
    split; [exact Hfold|]. split; [exact Hsync|]. split; [apply F; exact HT|exact Hpos].
  Qed.

  Lemma relcode2_finished t r s real : RelCode2 t r s real ->
    exists b s', src_run (rc_is_finished_ok r) s = (Done b, s') /\ RelCode2 t r s' real.
  Proof.
    intros H. pose proof H as (ie & rest & _ & _ & _ & _ & _ & (Hff & Hr & Hl) & _).
    unfold rc_is_finished_ok. destruct (r_code r =? 0).
    - destruct (src_is_eof_specL s Hff) as (s' & Hrun & E1 & E2 & E3 & F).
      eexists _, s'. split; [exact Hrun|]. apply (relcode2_src t r s s' real H); [|exact E2].
      intros rest0 (_ & Hr0 & Hl0). split; [exact F|]. split; congruence.
    - exists false, s. split; [apply io_runs_src_run, io_runs_ret|exact H].
  Qed.

  (* ---------- the window side ---------- *)
  Lemma relwin2_len wn h : RelWin2 wn h -> win_len wn = h_len h.
  Proof.
    intros (a & -> & HI & _ & _ & _ & Hl & _). cbn [win_len].
    destruct HI as (_ & Hlen & _). rewrite Hlen, nlen_rev. symmetry. exact Hl.
  Qed.

  Lemma relwin2_last_or wn h d : RelWin2 wn h ->
    win_last_or wn d = (Done (match h_bytes h with [] => d | x :: _ => x end), wn).
  Proof.
    intros (a & -> & HI & _). cbn [win_last_or]. rewrite (accum_last_or_spec pre a _ d HI).
    unfold lift_a. cbn [fst snd]. do 2 f_equal.
    destruct (h_bytes h) as [|x l]; [reflexivity|apply last_rev_cons].
  Qed.

  Lemma can_copy_none h dist : h_len h = nlen (h_bytes h) ->
    can_copy None h dist = (1 <=? dist) && (dist <=? nlen (h_bytes h)).
  Proof. intros E. unfold can_copy. rewrite E. apply andb_true_r. Qed.

  Lemma relwin2_last_n wn h dist : RelWin2 wn h -> can_copy None h dist = true ->
    win_last_n wn dist = (Done (nth (N.to_nat (dist - 1)) (h_bytes h) 0), wn).
  Proof.
    intros (a & -> & HI & _ & _ & _ & Hl & _) Hcc. rewrite (can_copy_none h dist Hl) in Hcc.
    apply andb_true_iff in Hcc. destruct Hcc as [H1 H2]. apply N.leb_le in H1. apply N.leb_le in H2.
    cbn [win_last_n]. rewrite (accum_last_n_spec pre a _ dist HI H1). rewrite nlen_rev.
    destruct (N.leb_spec dist (nlen (h_bytes h))) as [_|Hbad]; [|lia].
    unfold lift_a. cbn [fst snd]. do 2 f_equal. apply nth_rev_back; lia.
  Qed.

  Lemma relwin2_append_lit wn h b : RelWin2 wn h -> b < 256 -> h_len h + 1 <= hmax ->
    exists wn', win_append_literal wn b = (Done tt, wn') /\ RelWin2 wn' (hist_push h b).
  Proof.
    intros (a & -> & HI & Hm & Hff & Hfl & Hl & Hby) Hb Hbound.
    pose proof (accum_append_literal_spec pre a _ b HI) as SP. rewrite nlen_rev, Hm, <- Hl in SP.
    destruct (N.leb_spec (h_len h + 1) 18446744073709551615) as [_|Hbad]; [|lia].
    destruct SP as (a' & E & HI' & Hm').
    assert (Hs : a_snk a' = a_snk a).
    { unfold accum_append_literal in E. destruct (a_mem a <? a_len a + 1); inversion E; reflexivity. }
    exists (WAccum a'). cbn [win_append_literal]. rewrite E. split; [reflexivity|].
    exists a'. split; [reflexivity|]. unfold hist_push. cbn [h_bytes h_len List.rev].
    split; [exact HI'|]. split; [congruence|]. split; [congruence|]. split; [congruence|].
    split; [rewrite nlen_cons; lia|]. constructor; assumption.
  Qed.

  Lemma relwin2_append_lz wn h len dist : RelWin2 wn h -> can_copy None h dist = true ->
    exists wn', win_append_lz wn len dist = (Done tt, wn') /\ RelWin2 wn' (hist_copy h len dist).
  Proof.
    intros (a & -> & HI & Hm & Hff & Hfl & Hl & Hby) Hcc. rewrite (can_copy_none h dist Hl) in Hcc.
    apply andb_true_iff in Hcc. destruct Hcc as [H1 H2]. apply N.leb_le in H1. apply N.leb_le in H2.
    pose proof (accum_append_lz_spec pre a _ len dist HI H1) as SP. rewrite nlen_rev in SP.
    destruct (N.leb_spec dist (nlen (h_bytes h))) as [_|Hbad]; [|lia].
    destruct SP as (a' & E & HI' & Hm').
    assert (Hs : a_snk a' = a_snk a).
    { unfold accum_append_lz in E. destruct (a_blen a <? dist); [discriminate|].
      destruct ((dist =? 0) && (0 <? len)); [discriminate|].
      destruct (accum_lz_loop (N.to_nat len) (a_buf a) (a_blen a) (a_blen a - dist)) as [m bl].
      inversion E. reflexivity. }
    exists (WAccum a'). cbn [win_append_lz]. rewrite E. split; [reflexivity|].
    exists a'. split; [reflexivity|]. unfold hist_copy. cbn [h_bytes h_len].
    split.
    { rewrite <- (copy_back_lz_copy (N.to_nat len) (List.rev (h_bytes h)) dist H1) in HI'.
      - rewrite !rev_involutive in HI'. exact HI'.
      - rewrite rev_length. unfold nlen in H2. lia. }
    split; [congruence|]. split; [congruence|]. split; [congruence|].
    split; [rewrite copy_back_nlen, N2Nat.id; lia|].
    apply copy_back_forall; [reflexivity|exact Hby].
  Qed.

  (* ---------- one operation ---------- *)
  Lemma phantom2_head c b t real : cell_in lcp c -> EvBit c b :: t = real ++ phantom2 ->
    exists real', real = EvBit c b :: real' /\ t = real' ++ phantom2.
  Proof.
    intros Hc E. destruct real as [|e real'].
    - exfalso. unfold phantom2 in E. cbn [app] in E. inversion E; subst. cbn [cell_in] in Hc. lia.
    - cbn [app] in E. inversion E; subst. exists real'. split; reflexivity.
  Qed.

  Lemma phantom2_direct bits t real : map EvDirect bits ++ t = real ++ phantom2 ->
    exists real', real = map EvDirect bits ++ real' /\ t = real' ++ phantom2.
  Proof.
    revert real. induction bits as [|b bits IH]; intros real E; cbn [map app] in *.
    - exists real. split; [reflexivity|exact E].
    - destruct real as [|e real'].
      + exfalso. unfold phantom2 in E. cbn [app] in E. discriminate.
      + cbn [app] in E. inversion E; subst. destruct (IH real' H1) as (r2 & -> & ->).
        exists r2. split; reflexivity.
  Qed.

  Lemma step2_bit c x s1 s2 t2 : Rel2 s1 s2 -> cell_in lcp c ->
    oracle None _ (Bit c true) s2 = HOk x t2 ->
    exists t1, dec_h _ (Bit c true) s1 = HOk x t1 /\ Rel2 t1 t2.
  Proof.
    intros (real & Ef & HC & HW) Hc Ho. destruct s2 as [evs ho]. cbn [fst snd oracle] in *.
    destruct evs as [|[c' b|b] t]; try discriminate.
    destruct (cell_eq_dec c' c) as [->|]; [|discriminate]. inversion Ho; subst x t2. clear Ho.
    destruct (phantom2_head c b t real Hc Ef) as (real' & -> & ->).
    destruct (relcode2_bit _ _ _ c b real' HC Hc) as (prob & r' & s' & Eg & Hrun & HC').
    cbn [dec_h]. rewrite Eg, Hrun. eexists. split; [reflexivity|].
    exists real'. cbn [fst snd d_tabs d_rc d_src d_win]. split; [reflexivity|]. split; assumption.
  Qed.

  Lemma step2_direct n x s1 s2 t2 : Rel2 s1 s2 -> n <= 32 ->
    oracle None _ (Direct n) s2 = HOk x t2 ->
    x < 2 ^ n /\ exists t1, dec_h _ (Direct n) s1 = HOk x t1 /\ Rel2 t1 t2.
  Proof.
    intros (real & Ef & HC & HW) Hn Ho. destruct s2 as [evs ho]. cbn [fst snd oracle] in *.
    destruct (pop_direct (N.to_nat n) 0 evs) as [[v t]|] eqn:Ep; [|discriminate].
    inversion Ho; subst x t2. clear Ho.
    destruct (pop_direct_inv _ _ _ _ _ Ep) as (bits & -> & Hl & ->).
    assert (Hnb : nlen bits = n) by (unfold nlen; lia).
    destruct (phantom2_direct bits t real Ef) as (real' & -> & ->).
    destruct (relcode2_direct _ _ _ bits real' HC ltac:(lia)) as (r' & s' & Hrun & HC').
    split; [rewrite <- Hnb; apply msb_acc_lt|].
    cbn [dec_h]. rewrite <- Hnb, Hrun. unfold lift_src. eexists. split; [reflexivity|].
    exists real'. cbn [fst snd d_tabs d_rc d_src d_win]. split; [reflexivity|]. split; assumption.
  Qed.

  (* FinishedOk: the oracle always answers false (the phantom event is never consumed) *)
  Lemma step2_finished x s1 s2 t2 : Rel2 s1 s2 ->
    oracle None _ FinishedOk s2 = HOk x t2 -> x = false.
  Proof.
    intros (real & Ef & HC & HW) Ho. destruct s2 as [evs ho]. cbn [fst snd oracle] in *.
    inversion Ho; subst x t2. subst evs. unfold phantom2. destruct real; reflexivity.
  Qed.

  Lemma step2_win {X} (o : decE X) x s1 s2 t2 : Rel2 s1 s2 -> op_pre (cell_in lcp) o ->
    match o with Bit _ _ | Direct _ | FinishedOk => False | _ => True end ->
    oracle None _ o s2 = HOk x t2 -> h_len (snd t2) <= hmax ->
    ans_ok o x /\ exists t1, dec_h _ o s1 = HOk x t1 /\ Rel2 t1 t2.
  Proof.
    intros (real & Ef & HC & HW) Hpre Hk Ho Hbound. destruct s2 as [evs ho]. cbn [fst snd] in *. subst evs.
    destruct o; try contradiction; cbn [oracle fst snd op_pre ans_ok] in *.
    - (* WLen *) inversion Ho; subst. split; [exact I|].
      cbn [dec_h]. rewrite (relwin2_len _ _ HW). eexists. split; [reflexivity|].
      exists real. split; [reflexivity|]. split; assumption.
    - (* WLastOr *) inversion Ho; subst. split.
      { destruct HW as (c & _ & _ & _ & _ & _ & _ & Hby). destruct (h_bytes ho) as [|y l]; [exact Hpre|].
        inversion Hby; assumption. }
      cbn [dec_h]. rewrite (relwin2_last_or _ _ d HW). unfold lift_win. destruct s1 as [tb rr ss ww]. cbn [d_tabs d_rc d_src d_win] in *.
      eexists. split; [reflexivity|]. exists real. split; [reflexivity|]. split; assumption.
    - (* WLastN *) destruct (can_copy None ho dist) eqn:Hcc; [|discriminate]. inversion Ho; subst. split.
      { destruct HW as (c & _ & _ & _ & _ & _ & _ & Hby).
        destruct (nth_in_or_default (N.to_nat (dist - 1)) (h_bytes ho) 0) as [Hin|E]; [|rewrite E; lia].
        rewrite Forall_forall in Hby. apply Hby. exact Hin. }
      cbn [dec_h]. rewrite (relwin2_last_n _ _ dist HW Hcc). unfold lift_win. destruct s1 as [tb rr ss ww]. cbn [d_tabs d_rc d_src d_win] in *.
      eexists. split; [reflexivity|]. exists real. split; [reflexivity|]. split; assumption.
    - (* WAppendLit *) inversion Ho; subst. split; [exact I|].
      destruct (relwin2_append_lit _ _ b HW Hpre) as (wn' & E & HW').
      { unfold hist_push in Hbound. cbn [snd h_len] in Hbound. exact Hbound. }
      cbn [dec_h]. rewrite E. unfold lift_win. eexists. split; [reflexivity|].
      exists real. cbn [fst snd d_tabs d_rc d_src d_win]. split; [reflexivity|]. split; assumption.
    - (* WAppendLz *) destruct (can_copy None ho dist) eqn:Hcc; [|discriminate]. inversion Ho; subst.
      split; [exact I|].
      destruct (relwin2_append_lz _ _ len dist HW Hcc) as (wn' & E & HW').
      cbn [dec_h]. rewrite E. unfold lift_win. eexists. split; [reflexivity|].
      exists real. cbn [fst snd d_tabs d_rc d_src d_win]. split; [reflexivity|]. split; assumption.
  Qed.

  (* ---------- every safe, well-shaped program ---------- *)
  Theorem refine2_good {A} (Q : A -> Prop) (p : dprog A) :
    safe_prog (cell_in lcp) Q p -> shape p ->
    forall s1 s2 a t2, Rel2 s1 s2 -> interp (oracle None) p s2 = (Done a, t2) -> h_len (snd t2) <= hmax ->
    exists t1, interp dec_h p s1 = (Done a, t1) /\ Rel2 t1 t2.
  Proof.
    induction 1 as [a0 Ha|e|X o k Hpre Hk IH]; intros Hsh s1 s2 a t2 HR Hi Hb.
    - cbn [interp] in *. inversion Hi; subst. exists s1. split; [reflexivity|exact HR].
    - cbn [interp] in Hi. discriminate.
    - cbn [interp shape] in *. destruct Hsh as [Hop Hsh'].
      destruct (oracle None X o s2) as [x u2|e u2|w u2] eqn:E2; try discriminate.
      assert (Hu2 : h_len (snd u2) <= hmax).
      { pose proof (oracle_len_mono None (k x) (h_len (snd u2)) u2 (N.le_refl _)) as M. rewrite Hi in M.
        cbn [snd] in M. lia. }
      assert (STEP : ans_ok o x /\ exists u1, dec_h X o s1 = HOk x u1 /\ Rel2 u1 u2).
      { destruct o; cbn [op_shape op_pre ans_ok] in *.
        - subst upd. split; [exact I|]. exact (step2_bit c x s1 s2 u2 HR Hpre E2).
        - exact (step2_direct count x s1 s2 u2 HR Hop E2).
        - exfalso. rewrite (step2_finished x s1 s2 u2 HR E2) in Hi.
          destruct Hop as [e He]. rewrite He in Hi. cbn [interp] in Hi. discriminate.
        - exact (step2_win WLen x s1 s2 u2 HR Hpre I E2 Hu2).
        - exact (step2_win (WLastOr d) x s1 s2 u2 HR Hpre I E2 Hu2).
        - exact (step2_win (WLastN dist) x s1 s2 u2 HR Hpre I E2 Hu2).
        - exact (step2_win (WAppendLit b) x s1 s2 u2 HR Hpre I E2 Hu2).
        - exact (step2_win (WAppendLz len dist) x s1 s2 u2 HR Hpre I E2 Hu2). }
      destruct STEP as (Hans & u1 & E1 & HR'). rewrite E1.
      eapply IH; eauto.
  Qed.
End Refine2.

Print Assumptions refine2_good.
