(* C08 / C17: a stream cut short is rejected.
   T1  lzma_truncated_rejected (+ _all_options) : every strict prefix of a well-formed .lzma file is rejected
   T2  raw_lzma_truncated_rejected, raw_lzma_short_take_rejected : the same for the raw decoder; also under a Take limit
   T3  lzma2_truncated_rejected : every strict prefix of a well-formed LZMA2 stream is rejected
   T4  lzma2_short_packed_size_rejected : a compressed chunk (at any position) whose packed-size field is reduced below the
       length of its payload is rejected
   "rejected" = the decoder returns Failed (not Done, not a panic), for every fragmentation of the reader.
   All four follow from the exactness theorems (the accepted run consumes every byte) and the lock-step
   theorems of CutShortLzma.v / CutShortLzma2.v (a decoder that accepts an input after consuming n bytes
   rejects every truncation below n bytes). *)
From LZ Require Import Base.Prelude Base.Prog Model.Io Model.Tables Model.LzBuffer Model.RangeDec Model.Lzma Model.Lzma2
  Format.RefEnc Format.Lzma2Fmt
  Proofs.ProgLemmas Proofs.MapLemmas Proofs.IoLemmas Proofs.RangeLockstep Proofs.WinCirc Proofs.WinAccum Proofs.NoPanic Proofs.NoPanicWorld
  Proofs.SymOracle Proofs.SymCoders Proofs.SymLiteral Proofs.SymDecode Proofs.SymChain
  Proofs.Lzma2Inv Proofs.Lzma2Framing Proofs.ResetFresh2 Proofs.HeaderRules
  Proofs.LzmaExactSync Proofs.LzmaExactShape Proofs.LzmaExactRefine Proofs.LzmaExactLoop Proofs.LzmaExact Proofs.LzmaExactOpts
  Proofs.Lzma2ExactIo Proofs.Lzma2ExactRefine Proofs.Lzma2ExactLoop Proofs.Lzma2ExactChunk Proofs.Lzma2ExactPayload
  Proofs.Lzma2ExactLzmaChunk Proofs.Lzma2ExactWf Proofs.Lzma2Exact
  Proofs.FragIo Proofs.CutShortIo Proofs.CutShortLzma Proofs.CutShortLzma2.
From Coq Require Import ZifyBool ZifyNat ZifyN.
Local Open Scope prog_scope.

(* [cut] is a strict prefix of [B] *)
Definition cut_of (cut B : list N) : Prop := exists more, B = cut ++ more /\ more <> [].

Lemma cut_of_nlen cut B : cut_of cut B -> nlen cut < nlen B.
Proof.
  intros (more & -> & Hne). rewrite nlen_app. destruct more as [|b t]; [contradiction|]. rewrite nlen_cons. lia.
Qed.

(* ====================================================================== *)
(* T1: .lzma files                                                          *)
(* ====================================================================== *)
Definition cut_short_lzma_statement : Prop :=
  forall fp dict_field size_field prog bytes out delta ief frag k fuel cut,
  f_lc fp <= 8 -> f_lp fp <= 4 -> f_pb fp <= 4 -> dict_field < 2 ^ 32 ->
  enc_lzma_gen false fp dict_field size_field prog delta = Some (bytes, out) ->
  final_ienc fp (Some (N.max dict_field 4096)) prog = Some ief ->
  ( (size_field = 2 ^ 64 - 1 /\ ends_with_marker prog /\ delta = 0)
    \/ (size_field = nlen out /\ nlen out < 2 ^ 64 - 1 /\ no_marker prog /\ delta < i_range ief) ) ->
  k_wfail k = None -> k_ffail k = false ->
  (length prog + 1 <= Pos.to_nat fuel)%nat ->
  cut_of cut bytes ->
  exists x w', lzma_decompress fuel (mkOptions ReadFromHeader None false) (mkIo (src_of cut frag None) k) = (Failed x, w').

Theorem lzma_truncated_rejected : cut_short_lzma_statement.
Proof.
  intros fp dict_field size_field prog bytes out delta ief frag k fuel cut
         Hlc Hlp Hpb Hdf Henc Hfin Hcase Hkw Hkf Hfuel Hcut.
  destruct (lzma_decode_exact fp dict_field size_field prog bytes out delta [] ief frag k fuel Hlc Hlp Hpb Hdf Henc Hfin)
    as (w' & Hrun & _ & _ & Hpos & _); try assumption.
  { destruct Hcase as [(H1 & H2 & H3)|H]; [left; repeat split; assumption|right; exact H]. }
  rewrite app_nil_r in Hrun. pose proof (cut_of_nlen _ _ Hcut) as Hlt. destruct Hcut as (more & -> & _).
  apply (lzma_cut_short_general fuel _ cut more frag frag k w' Hrun). rewrite Hpos. exact Hlt.
Qed.
Print Assumptions lzma_truncated_rejected.

(* every header option, any sufficient memlimit *)
Definition cut_short_lzma_all_options_statement : Prop :=
  forall fp dict_field field prog payload out delta ief o frag k fuel cut,
  f_lc fp <= 8 -> f_lp fp <= 4 -> f_pb fp <= 4 -> dict_field < 2 ^ 32 ->
  enc_payload_gen false fp (Some (N.max dict_field 4096)) prog delta = Some (payload, out) ->
  final_ienc fp (Some (N.max dict_field 4096)) prog = Some ief ->
  nlen field = size_field_len (o_unpacked o) ->
  memlimit_ok (o_memlimit o) (N.max dict_field 4096) ->
  stream_mode (size_in_effect (o_unpacked o) (le_num field)) prog out delta [] ief ->
  k_wfail k = None -> k_ffail k = false ->
  (length prog + 1 <= Pos.to_nat fuel)%nat ->
  cut_of cut (hdr_bytes fp dict_field field ++ payload) ->
  exists x w', lzma_decompress fuel o (mkIo (src_of cut frag None) k) = (Failed x, w').

Theorem lzma_truncated_rejected_all_options : cut_short_lzma_all_options_statement.
Proof.
  intros fp dict_field field prog payload out delta ief o frag k fuel cut
         Hlc Hlp Hpb Hdf Henc Hfin Hfield Hml Hmode Hkw Hkf Hfuel Hcut.
  destruct (lzma_decode_exact_opts fp dict_field field prog payload out delta [] ief o frag k fuel
              Hlc Hlp Hpb Hdf Henc Hfin Hfield Hml Hmode Hkw Hkf Hfuel) as (w' & Hrun & _ & _ & Hpos & _).
  rewrite app_nil_r in Hrun. pose proof (cut_of_nlen _ _ Hcut) as Hlt. destruct Hcut as (more & Eq & _).
  rewrite Eq in Hrun.
  apply (lzma_cut_short_general fuel _ cut more frag frag k w' Hrun). rewrite Hpos. exact Hlt.
Qed.
Print Assumptions lzma_truncated_rejected_all_options.

(* ====================================================================== *)
(* T2: the raw decoder                                                      *)
(* ====================================================================== *)
Definition with_rest (s : src) (r : list N) : src :=
  mkSrc r (s_pos s) (s_avail s) (s_refills s) (s_frag s) (s_fail s) (s_limit s).

Lemma tr_with_rest s more : FaultFree s ->
  tr (s_pos s + nlen (s_rest s)) (s_pos s + nlen (s_rest s)) s (with_rest s (s_rest s ++ more)).
Proof.
  intros (F1 & F2 & F3). unfold tr, FaultFreeL, cap, with_rest. cbn [s_rest s_pos s_limit s_fail s_avail].
  rewrite F2, nlen_app. split; [split; assumption|]. split; [split; [assumption|lia]|]. split; [reflexivity|].
  split; [exists more; reflexivity|]. split; [lia|]. split; lia.
Qed.

Lemma with_rest_FaultFree s more : FaultFree s -> FaultFree (with_rest s (s_rest s ++ more)).
Proof.
  intros (F1 & F2 & F3). unfold FaultFree, with_rest. cbn [s_rest s_limit s_fail s_avail]. rewrite nlen_app.
  split; [assumption|]. split; [assumption|lia].
Qed.

Lemma tr_take s m : FaultFree s ->
  tr (s_pos s + nlen (s_rest s)) (s_pos s + m) (set_limit s (Some m)) s.
Proof.
  intros (F1 & F2 & F3). unfold tr, FaultFreeL, cap, set_limit. cbn [s_rest s_pos s_limit s_fail s_avail]. rewrite F2.
  split; [split; assumption|]. split; [split; assumption|]. split; [reflexivity|].
  split; [exists []; rewrite app_nil_r; reflexivity|]. split; [lia|]. split; lia.
Qed.

(* the source holds a strict prefix of the payload (and nothing else) *)
Definition cut_short_raw_lzma_statement : Prop :=
  forall fp pr dict us memlimit prog delta payload out ief dec s k fuel,
  props_match pr fp ->
  1 <= dict -> dict <= (match memlimit with Some m => m | None => USIZE - 1 end) ->
  enc_payload_gen false fp (Some dict) prog delta = Some (payload, out) ->
  final_ienc fp (Some dict) prog = Some ief ->
  match us with
  | None => ends_with_marker prog /\ delta = 0
  | Some size => no_marker prog /\ size = nlen out /\ delta < i_range ief
  end ->
  lzma_decoder_new (mkParams pr dict us) memlimit = Done dec ->
  FaultFree s -> cut_of (s_rest s) payload ->
  k_wfail k = None -> k_ffail k = false ->
  (length prog + 1 <= Pos.to_nat fuel)%nat ->
  exists x y, lzma_decoder_decompress fuel dec (mkIo s k) = (Failed x, y).

Theorem raw_lzma_truncated_rejected : cut_short_raw_lzma_statement.
Proof.
  intros fp pr dict us memlimit prog delta payload out ief dec s k fuel
         Hpm Hd1 Hdm Henc Hfin Hmode Hnew Hff Hcut Hkw Hkf Hfuel.
  pose proof (cut_of_nlen _ _ Hcut) as Hlt. destruct Hcut as (more & Eq & _).
  set (s2 := with_rest s (s_rest s ++ more)).
  destruct (raw_lzma_decode_exact fp pr dict us memlimit prog delta [] payload out ief dec s2 k fuel Hpm Hd1 Hdm Henc Hfin)
    as (dec' & w' & Hrun & _ & _ & Hpos & _); try assumption.
  { destruct us; [exact Hmode|]. destruct Hmode as [H1 H2]. repeat split; assumption. }
  { apply with_rest_FaultFree. exact Hff. }
  { unfold s2, with_rest. cbn [s_rest]. rewrite app_nil_r. symmetry. exact Eq. }
  destruct (lzma_decoder_new_inv _ _ _ Hnew) as [Hp Hi].
  apply (raw_lzma_cut_short_general _ _ fuel dec s s2 k dec' w' Hp Hi (tr_with_rest s more Hff) Hrun).
  rewrite Hpos. unfold s2, with_rest. cbn [s_pos]. lia.
Qed.
Print Assumptions raw_lzma_truncated_rejected.

(* the whole payload is there (and possibly more), but the reader is a Take of fewer bytes than the payload:
   "a payload that needs more input than its declared compressed size" *)
Definition short_take_raw_lzma_statement : Prop :=
  forall fp pr dict us memlimit prog delta trail payload out ief dec s k fuel m,
  props_match pr fp ->
  1 <= dict -> dict <= (match memlimit with Some m => m | None => USIZE - 1 end) ->
  enc_payload_gen false fp (Some dict) prog delta = Some (payload, out) ->
  final_ienc fp (Some dict) prog = Some ief ->
  match us with
  | None => ends_with_marker prog /\ delta = 0 /\ trail = []
  | Some size => no_marker prog /\ size = nlen out /\ delta < i_range ief
  end ->
  lzma_decoder_new (mkParams pr dict us) memlimit = Done dec ->
  FaultFree s -> s_rest s = payload ++ trail ->
  k_wfail k = None -> k_ffail k = false ->
  (length prog + 1 <= Pos.to_nat fuel)%nat ->
  m < nlen payload ->
  exists x y, lzma_decoder_decompress fuel dec (mkIo (set_limit s (Some m)) k) = (Failed x, y).

Theorem raw_lzma_short_take_rejected : short_take_raw_lzma_statement.
Proof.
  intros fp pr dict us memlimit prog delta trail payload out ief dec s k fuel m
         Hpm Hd1 Hdm Henc Hfin Hmode Hnew Hff Hrest Hkw Hkf Hfuel Hm.
  destruct (raw_lzma_decode_exact fp pr dict us memlimit prog delta trail payload out ief dec s k fuel Hpm Hd1 Hdm Henc Hfin)
    as (dec' & w' & Hrun & _ & _ & Hpos & _); try assumption.
  destruct (lzma_decoder_new_inv _ _ _ Hnew) as [Hp Hi].
  apply (raw_lzma_cut_short_general _ _ fuel dec _ s k dec' w' Hp Hi (tr_take s m Hff) Hrun).
  rewrite Hpos. lia.
Qed.
Print Assumptions raw_lzma_short_take_rejected.

(* ====================================================================== *)
(* T3: LZMA2 streams                                                        *)
(* ====================================================================== *)
Definition cut_short_lzma2_statement : Prop :=
  forall cs bytes out frag k fuel cut,
  ser2_gen false cs = Some (bytes, out) -> wf_seq cs ->
  k_wfail k = None -> k_ffail k = false -> fuel_ok fuel cs ->
  cut_of cut bytes ->
  exists x w', lzma2_decompress_top fuel (mkIo (src_of cut frag None) k) = (Failed x, w').

Theorem lzma2_truncated_rejected : cut_short_lzma2_statement.
Proof.
  intros cs bytes out frag k fuel cut Hser Hwf Hkw Hkf Hfuel Hcut.
  destruct (lzma2_decode_exact cs bytes out [] frag k fuel Hser Hwf Hkw Hkf Hfuel) as (w' & Hrun & _ & _ & Hpos & _).
  rewrite app_nil_r in Hrun. pose proof (cut_of_nlen _ _ Hcut) as Hlt. destruct Hcut as (more & -> & _).
  apply (lzma2_cut_short_general fuel cut more frag frag k w' Hrun). rewrite Hpos. exact Hlt.
Qed.
Print Assumptions lzma2_truncated_rejected.

(* ====================================================================== *)
(* T4: a compressed chunk whose declared packed size is too small           *)
(* ====================================================================== *)
(* the bytes of a compressed chunk with its packed-size field (bytes 3 and 4) overwritten to declare [m] bytes *)
Definition with_packed_field (bc : list N) (m : N) : list N :=
  nfirstn 3 bc ++ be_bytes 2 (m - 1) ++ nskipn 5 bc.
(* control byte, two size fields, and the properties byte of classes 2 and 3 *)
Definition chunk_hdr_len (cls : N) : N := if 2 <=? cls then 6 else 5.

Lemma with_packed_field_header cls u packed pr payload m :
  with_packed_field (c_header cls u packed pr ++ payload) m = c_header cls u m pr ++ payload.
Proof.
  unfold with_packed_field, c_header.
  destruct (be_bytes_2 (N.land (u - 1) 65535)) as (a & b & ->).
  destruct (be_bytes_2 (packed - 1)) as (c & d & ->).
  unfold nfirstn, nskipn. change (N.to_nat 3) with 3%nat. change (N.to_nat 5) with 5%nat.
  cbn [app firstn skipn]. rewrite <- app_assoc. reflexivity.
Qed.

Lemma nlen_c_header cls u packed pr : nlen (c_header cls u packed pr) = chunk_hdr_len cls.
Proof.
  unfold c_header, chunk_hdr_len.
  destruct (be_bytes_2 (N.land (u - 1) 65535)) as (a & b & ->).
  destruct (be_bytes_2 (packed - 1)) as (c & d & ->).
  destruct (2 <=? cls); reflexivity.
Qed.

(* one chunk: the decoder is where the chunk starts *)
Theorem lzma_chunk_short pre0 fl need s cls np prog delta bc s2 w pos t fuel m :
  SInv need s -> ser_chunk_gen false s (CLzma cls np prog delta) = Some (bc, s2) ->
  chunk_okb need s (CLzma cls np prog delta) s2 = true ->
  (length prog + 1 <= Pos.to_nat fuel)%nat ->
  1 <= m -> m + chunk_hdr_len cls < nlen bc ->
  Inter pre0 fl s w pos (with_packed_field bc m ++ t) ->
  exists x w', l2_body fuel w = Break (Failed x, w').
Proof.
  intros HS Hser Hokb Hfuel Hm1 Hm2 HI. rewrite ser_lzma_eq in Hser.
  destruct (N.leb_spec cls 3) as [Hc|]; [|discriminate]. cbn [negb] in Hser.
  destruct (c_props_ok cls np) eqn:Hok; [|discriminate]. cbn [negb] in Hser.
  destruct (enc_syms_gen false (c_props s cls np) None ienc0 (c_es1 s cls np) prog) as [[ie es2]|] eqn:Henc; [|discriminate].
  cbv zeta in Hser. rewrite N.add_0_r in Hser.
  set (rd := cls =? 3) in *. set (fpn := c_props s cls np) in *.
  set (u := h_len (es_hist es2) - h_len (c_hist s rd)) in *.
  set (payload := ienc_bytes ie delta) in *. set (packed := nlen payload) in *.
  destruct ((1 <=? u) && (u <=? 2097152) && (packed <=? 65536)) eqn:Hsz; [|discriminate].
  apply andb_true_iff in Hsz. destruct Hsz as [Hsz Hp64]. apply andb_true_iff in Hsz. destruct Hsz as [Hu1 Hu2].
  apply N.leb_le in Hu1. apply N.leb_le in Hu2. apply N.leb_le in Hp64.
  assert (Eb1 : bc = c_header cls u packed fpn ++ payload) by congruence.
  assert (Es1 : s2 = mkL2S fpn es2 (c_flushed s rd)) by congruence.
  clear Hser. subst bc s2.
  rewrite with_packed_field_header in HI.
  assert (Hmp : m < packed).
  { rewrite nlen_app, nlen_c_header in Hm2. fold packed in Hm2. lia. }
  clear Hm2.
  (* the side conditions *)
  unfold chunk_okb, chunk_ienc in Hokb. fold fpn in Hokb. rewrite Henc in Hokb. cbn [l2_es] in Hokb.
  apply andb_true_iff in Hokb. destruct Hokb as [Hokb Hbound]. apply andb_true_iff in Hokb. destruct Hokb as [Hokb Hdelta].
  apply andb_true_iff in Hokb. destruct Hokb as [Hneed Hnm].
  apply N.leb_le in Hbound. apply N.ltb_lt in Hdelta. apply no_markerb_spec in Hnm.
  assert (Hneed' : cls = 0 -> need = false).
  { intros ->. change (negb (0 =? 0)) with false in Hneed. cbn [orb] in Hneed. destruct need; [discriminate|reflexivity]. }
  clear Hneed.
  pose proof (c_es1_inv need s cls np HS Hneed' Hc Hok) as (P1 & P2 & Q1 & Q2 & Q3 & Q4 & Q5 & Q6 & Q7 & Q8).
  fold fpn in P1, P2, Q5. fold rd in Q7, Q8.
  pose proof HS as [S1 S2 S3 S4 S5 S6 S7 S8]. destruct HI as [I1 I2 I3 I4 I5 I6 I7 I8 I9 I10 I11 I12].
  (* sizes and control byte *)
  destruct (unpacked_fields u (conj Hu1 Hu2)) as (Hhi & Hlo & Hlor).
  set (hi := N.shiftr (u - 1) 16) in *. set (lo := N.land (u - 1) 65535) in *.
  destruct (ctl_facts cls hi Hc Hhi) as (C1 & C2 & C3).
  set (ctl := 128 + 32 * cls + hi) in *.
  unfold c_header in I11. fold hi lo ctl in I11.
  repeat (rewrite <- app_comm_cons in I11 || rewrite <- app_assoc in I11).
  (* the reads *)
  destruct (l2_body_read fuel w ctl _ I10 I11) as (sa & Fa & Ra & Pa & Hbody). rewrite Hbody. clear Hbody.
  rewrite (l2_dispatch_lzma fuel ctl _ C1).
  destruct (mapped_read_u16_field sa lo _ Fa Ra Hlo) as (sb & Eb & Rb & Pb & Fb).
  destruct (mapped_read_u16_field sb (m - 1) _ Fb Rb ltac:(lia)) as (sc & Ec & Rc & Pc & Fc).
  destruct (pl_dict_exact pre0 s rd (w_ds w) sc (w_acc w) I6 I7) as (a1 & Edict & HA1 & Hm1' & Hff1 & Hfl1).
  destruct (pl_props_exact need s cls np (w_ds w) sc a1 (payload ++ t) HS Hc Hok I1 I2 I3 I4 I5 Fc Rc)
    as (ds' & sd & Eprops & D1 & D2 & D3 & D4 & D5 & Fd & Rd & Pd).
  destruct (c_es1 s cls np) as [t1 st1 h1] eqn:Ees1. cbn [es_tabs es_st es_hist] in *.
  assert (D2' : props_match (ds_props ds') fpn) by exact D2.
  assert (Q5' : TabsStd t1 (lc (ds_props ds') + lp (ds_props ds'))).
  { destruct D2' as (_ & _ & _ & E1 & E2 & _). rewrite <- E1, <- E2. exact Q5. }
  rewrite <- Q7 in HA1.
  (* the payload decoded with the TRUE packed size consumes all its bytes ... *)
  destruct (payload_exact fpn (ds_props ds') t1 st1 h1 prog ie es2 delta (pre0 ++ List.rev (c_flushed s rd)) fl
              ds' sd a1 t fuel D2' D1 eq_refl D3 D4 D5 Q1 Q2 Q3 Q4 Q5' Q6 Henc Hnm Hdelta Hbound
              HA1 Hm1' ltac:(congruence) ltac:(congruence) Fd Rd Hfuel)
    as (w' & Epay & R1 & R2 & R3 & R4 & R5 & R6 & R7 & R8 & R9 & R10 & R11 & R12 & R13 & R14 & R15 & R16 & R17 & R18).
  (* ... hence fails with the smaller one *)
  destruct (pl_payload_short fuel (h_len (es_hist es2) - h_len h1) m (nlen (ienc_bytes ie delta)) (mkW2 ds' sd a1) w')
    as (x & w'' & Eshort).
  { cbn [w_src]. apply FaultFree_L. exact Fd. }
  { exact D1. }
  { fold payload packed. lia. }
  { exact Epay. }
  { cbn [w_src]. rewrite R18. fold payload packed. lia. }
  assert (Hparse : parse_lzma fuel ctl (mkW2 (w_ds w) sa (w_acc w)) = (Failed x, w'')).
  { rewrite parse_lzma_eq. destruct (N.eqb_spec (N.land ctl 128) 0) as [E0|_]; [contradiction|].
    unfold w2_src. cbn [w_src w_ds w_acc fst snd]. rewrite Eb. cbn [fst snd w_src w_ds w_acc].
    rewrite Ec. cbn [fst snd w_src w_ds w_acc]. rewrite C2. fold rd. fold rd in Eprops. rewrite Edict, Eprops.
    unfold l2_unpacked. rewrite C3, Hlor. replace (m - 1 + 1) with m by lia.
    rewrite Q8 in Eshort. exact Eshort. }
  rewrite Hparse. exists x, w''. reflexivity.
Qed.
Print Assumptions lzma_chunk_short.

(* the chunks before the modified one are decoded as usual *)
Lemma chunks_prefix_exact pre0 fl fuel c cs2 : forall cs1 need s w pos t b1 s1,
  SInv need s -> ser_chunks_gen false s cs1 = Some (b1, s1) -> wf_fromb need s (cs1 ++ c :: cs2) = true ->
  Forall (fun c => (chunk_syms c + 1 <= Pos.to_nat fuel)%nat) cs1 ->
  Inter pre0 fl s w pos (b1 ++ t) ->
  exists w' need', iter_step (length cs1) (l2_body fuel) w = Next w' /\
                   Inter pre0 fl s1 w' (pos + nlen b1) t /\ SInv need' s1 /\ wf_fromb need' s1 (c :: cs2) = true.
Proof.
  induction cs1 as [|c1 rest IH]; intros need s w pos t b1 s1 HS Hser Hwf Hfuel HI.
  - cbn [ser_chunks_gen] in Hser. inversion Hser; subst b1 s1. cbn [app] in HI, Hwf.
    exists w, need. cbn [length iter_step]. split; [reflexivity|]. split; [|split; [exact HS|exact Hwf]].
    change (nlen (@nil N)) with 0. rewrite N.add_0_r. exact HI.
  - cbn [ser_chunks_gen] in Hser. rewrite <- app_comm_cons in Hwf. cbn [wf_fromb] in Hwf.
    destruct (ser_chunk_gen false s c1) as [[bb sx]|] eqn:Ec; [|discriminate].
    destruct (ser_chunks_gen false sx rest) as [[b2 sy]|] eqn:Er; [|discriminate].
    assert (Eb : b1 = bb ++ b2) by congruence. assert (Es : s1 = sy) by congruence. clear Hser. subst b1 s1.
    apply andb_true_iff in Hwf. destruct Hwf as [Hok Hwf].
    inversion Hfuel as [|? ? Hf1 Hf2]; subst.
    rewrite <- app_assoc in HI.
    destruct (chunk_exact pre0 fl need s c1 bb sx w pos (b2 ++ t) fuel HS Ec Hok Hf1 HI) as (w1 & Hb & HI1 & HS1).
    destruct (IH _ _ _ _ _ _ _ HS1 Er Hwf Hf2 HI1) as (w' & need' & Hit & HI' & HS' & Hwf').
    exists w', need'. cbn [length iter_step]. rewrite Hb. split; [exact Hit|]. split; [|split; [exact HS'|exact Hwf']].
    rewrite nlen_app, N.add_assoc. exact HI'.
Qed.

(* the whole stream: chunks cs1, then the compressed chunk with its packed-size field reduced to m (1 <= m < length of its
   payload, all bytes left in place), then whatever followed (here: the remaining chunks, the end byte, trailing bytes) *)
Definition short_packed_size_statement : Prop :=
  forall cs1 cls np prog delta cs2 b1 s1 bc s2 b3 s3 m trail frag k fuel,
  ser_chunks_gen false l2state0 cs1 = Some (b1, s1) ->
  ser_chunk_gen false s1 (CLzma cls np prog delta) = Some (bc, s2) ->
  ser_chunks_gen false s2 cs2 = Some (b3, s3) ->
  wf_seq (cs1 ++ CLzma cls np prog delta :: cs2) ->
  k_wfail k = None -> k_ffail k = false -> fuel_ok fuel (cs1 ++ CLzma cls np prog delta :: cs2) ->
  1 <= m -> m + chunk_hdr_len cls < nlen bc ->
  exists x w', lzma2_decompress_top fuel
                 (mkIo (src_of ((b1 ++ with_packed_field bc m ++ b3 ++ [0]) ++ trail) frag None) k) = (Failed x, w').

Theorem lzma2_short_packed_size_rejected : short_packed_size_statement.
Proof.
  intros cs1 cls np prog delta cs2 b1 s1 bc s2 b3 s3 m trail frag k fuel
         Hs1 Hsc Hs3 Hwf Hkw Hkf [Hfuel1 Hfuel2] Hm1 Hm2.
  set (c := CLzma cls np prog delta) in *.
  set (s0 := src_of ((b1 ++ with_packed_field bc m ++ b3 ++ [0]) ++ trail) frag None).
  assert (Fs0 : FaultFree s0) by apply src_of_FaultFree.
  pose proof (Inter_init s0 k Fs0 Hkw Hkf) as HI0.
  change (s_pos s0) with 0 in HI0.
  change (s_rest s0) with ((b1 ++ with_packed_field bc m ++ b3 ++ [0]) ++ trail) in HI0.
  rewrite <- !app_assoc in HI0.
  apply Forall_app in Hfuel2. destruct Hfuel2 as [Hf1 Hf2]. inversion Hf2 as [|? ? Hfc _]; subst.
  destruct (chunks_prefix_exact (snk_bytes k) (k_flushes k) fuel c cs2 cs1 false l2state0 _ 0 _ b1 s1
              SInv_l2state0 Hs1 Hwf Hf1 HI0) as (w1 & need1 & Hit & HI1 & HS1 & Hwf1).
  cbn [wf_fromb] in Hwf1. rewrite Hsc in Hwf1. apply andb_true_iff in Hwf1. destruct Hwf1 as [Hok _].
  destruct (lzma_chunk_short (snk_bytes k) (k_flushes k) need1 s1 cls np prog delta bc s2 w1 _ _ fuel m
              HS1 Hsc Hok Hfc Hm1 Hm2 HI1) as (x & w' & Hb).
  assert (Hloop : loopN fuel (l2_body fuel) (mkW2 fresh_ds s0 (accum_new k (USIZE - 1))) = Break (Failed x, w')).
  { rewrite loopN_iter. apply (iter_step_break_mono _ (length cs1 + 1)).
    - rewrite iter_step_add, Hit. cbn [iter_step]. rewrite Hb. reflexivity.
    - rewrite app_length in Hfuel1. cbn [length] in Hfuel1. lia. }
  unfold lzma2_decompress_top. rewrite lzma2_new_eq. unfold lzma2_decompress. cbn [l2_state i_src i_snk].
  fold s0. rewrite Hloop. eexists _, _. reflexivity.
Qed.
Print Assumptions lzma2_short_packed_size_rejected.

(* the unmodified stream of the statement above is the reference serialisation of the whole sequence *)
Lemma ser_chunks_gen_app : forall cs1 s cs2 b1 s1 b2 s2,
  ser_chunks_gen false s cs1 = Some (b1, s1) -> ser_chunks_gen false s1 cs2 = Some (b2, s2) ->
  ser_chunks_gen false s (cs1 ++ cs2) = Some (b1 ++ b2, s2).
Proof.
  induction cs1 as [|c rest IH]; intros s cs2 b1 s1 b2 s2 H1 H2.
  - cbn [ser_chunks_gen] in H1. inversion H1; subst. exact H2.
  - cbn [ser_chunks_gen app] in *.
    destruct (ser_chunk_gen false s c) as [[bb sx]|]; [|discriminate].
    destruct (ser_chunks_gen false sx rest) as [[bx sy]|] eqn:Er; [|discriminate].
    inversion H1; subst. rewrite (IH _ _ _ _ _ _ Er H2), app_assoc. reflexivity.
Qed.

Lemma short_packed_size_original cs1 c cs2 b1 s1 bc s2 b3 s3 :
  ser_chunks_gen false l2state0 cs1 = Some (b1, s1) ->
  ser_chunk_gen false s1 c = Some (bc, s2) ->
  ser_chunks_gen false s2 cs2 = Some (b3, s3) ->
  exists out, ser2_gen false (cs1 ++ c :: cs2) = Some (b1 ++ bc ++ b3 ++ [0], out).
Proof.
  intros H1 H2 H3.
  assert (Hc : ser_chunks_gen false s1 (c :: cs2) = Some (bc ++ b3, s3)).
  { cbn [ser_chunks_gen]. rewrite H2, H3. reflexivity. }
  unfold ser2_gen. rewrite (ser_chunks_gen_app _ _ _ _ _ _ _ H1 Hc). eexists. rewrite <- !app_assoc. reflexivity.
Qed.
