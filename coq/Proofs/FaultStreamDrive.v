(* C12 for the streaming decoder, relational part, for the driver of C05
   ([feed] = repeated stream_write on one piece, [drive] = all pieces, then stream_finish;
   Proofs/StreamSimData.v).  Same hypotheses as Proofs/FaultStreamRel.v.

   Note: the driver ignores the result of a failed write and calls finish, so after a write
   fault the faulty run reports Failed ELzma (finish on a stream that has dropped its state),
   while a fault that surfaces in finish itself is reported as Failed EIo. *)
From LZ Require Import Base.Prelude Base.Prog Model.Io Model.Tables Model.LzBuffer Model.RangeDec
  Model.Lzma Model.Stream Proofs.ProgLemmas Proofs.StreamLatch Proofs.StreamPrefix.
From LZ Require Import Proofs.StreamSimData Proofs.FaultStreamRel.

Definition feed_stream (r : feed_res) : stream :=
  match r with FedAll s | Stopped s | FeedFailed _ s | FeedPanicked _ s | FeedStuck s => s end.

(* the sink only grows under the driver *)
Lemma feed_grows fuel : forall s data, ext (stream_sink s) (stream_sink (feed_stream (feed fuel s data))).
Proof.
  induction fuel as [|f IH]; intros s data.
  - destruct data; cbn [feed feed_stream]; apply ext_refl.
  - destruct data as [|b t]; [cbn [feed feed_stream]; apply ext_refl|].
    cbn [feed]. destruct (stream_write s (b :: t)) as [[n|e|p] s'] eqn:E.
    + apply stream_write_grows in E. destruct (n =? 0); [exact E|].
      eapply ext_trans; [exact E|apply IH].
    + apply stream_write_grows in E. exact E.
    + apply stream_write_grows in E. exact E.
Qed.

Lemma drive_grows pieces : forall s, ext (stream_sink s) (snd (drive s pieces)).
Proof.
  induction pieces as [|p ps IH]; intros s; cbn [drive].
  - destruct (stream_finish s) as [r k] eqn:E. cbn [snd]. eapply stream_finish_grows; exact E.
  - pose proof (feed_grows (length p) s p) as G.
    destruct (feed (length p) s p) as [s'|s'|e s'|q s'|s']; cbn [feed_stream snd] in *; try exact G.
    + eapply ext_trans; [exact G|apply IH].
    + destruct (stream_finish s') as [r k] eqn:E. cbn [snd]. eapply ext_trans; [exact G|]. eapply stream_finish_grows; exact E.
    + destruct (stream_finish s') as [r k] eqn:E. cbn [snd]. eapply ext_trans; [exact G|]. eapply stream_finish_grows; exact E.
Qed.

Section RelDrive.
Variables Rk Dk : snk -> snk -> Prop.
Variable flx : Prop.
Hypothesis H_wa : forall bs k1 k2, Rk k1 k2 ->
  fsim Rk Dk (snk_run (write_all bs) k1) (snk_run (write_all bs) k2).
Hypothesis Dk_ext : forall k1 k2 k2', Dk k1 k2 -> ext k2 k2' -> Dk k1 k2'.
Hypothesis H_fl : forall k1 k2, Rk k1 k2 -> flush_rel Rk Dk flx k1 k2.

Definition feed_relF (x1 x2 : feed_res) : Prop :=
  match x1, x2 with
  | FedAll t1, FedAll t2 => Rst Rk t1 t2
  | Stopped t1, Stopped t2 => Rst Rk t1 t2
  | FeedFailed e1 t1, FeedFailed e2 t2 => e1 = e2 /\ Rst Rk t1 t2
  | FeedPanicked p1 t1, FeedPanicked p2 t2 => p1 = p2 /\ Rst Rk t1 t2
  | FeedStuck t1, FeedStuck t2 => Rst Rk t1 t2
  | _, _ => False
  end \/
  (exists t1, x1 = FeedFailed EIo t1 /\ Dst Dk t1 (feed_stream x2)).

Lemma feed_relFp fuel : forall s1 s2 data, Rst Rk s1 s2 -> feed_relF (feed fuel s1 data) (feed fuel s2 data).
Proof.
  induction fuel as [|f IH]; intros s1 s2 data HS.
  - destruct data; cbn [feed]; left; exact HS.
  - destruct data as [|b t]; [cbn [feed]; left; exact HS|].
    cbn [feed]. pose proof (stream_write_relF Rk Dk H_wa Dk_ext s1 s2 (b :: t) HS) as S.
    destruct (stream_write s1 (b :: t)) as [o1 t1]; destruct (stream_write s2 (b :: t)) as [o2 t2].
    destruct S as [[Hf Hr]|[Hf Hd]]; cbn [fst snd] in *.
    + subst o2. destruct o1 as [n|e|p].
      * destruct (n =? 0); [left; exact Hr|apply IH; exact Hr].
      * left. split; [reflexivity|exact Hr].
      * left. split; [reflexivity|exact Hr].
    + subst o1. right. exists t1. split; [reflexivity|]. destruct Hd as [Hn Hd]. split; [exact Hn|].
      eapply Dk_ext; [exact Hd|].
      destruct o2 as [n|e|p]; cbn [feed_stream]; try apply ext_refl.
      destruct (n =? 0); [cbn [feed_stream]; apply ext_refl|apply feed_grows].
Qed.

(* the verdict of the faulty driver after a fault: Failed EIo (fault in finish) or Failed ELzma (fault in a write) *)
Definition dsim (r1 r2 : outcome unit * snk) : Prop :=
  (fst r1 = fst r2 /\ Rk (snd r1) (snd r2)) \/
  ((fst r1 = Failed EIo \/ fst r1 = Failed ELzma) /\ Dk (snd r1) (snd r2)).

Lemma fsim_dsim r1 r2 : fsim Rk Dk r1 r2 -> dsim r1 r2.
Proof. intros [H|[H1 H2]]; [left; exact H|right; split; [left; exact H1|exact H2]]. Qed.

Theorem drive_relF pieces : forall s1 s2, Rst Rk s1 s2 -> dsim (drive s1 pieces) (drive s2 pieces).
Proof.
  induction pieces as [|p ps IH]; intros s1 s2 HS; cbn [drive].
  - apply fsim_dsim. apply (stream_finish_relF Rk Dk flx H_wa Dk_ext H_fl). exact HS.
  - pose proof (feed_relFp (length p) s1 s2 p HS) as [F|(t1 & E1 & Hn & Hd)].
    + destruct (feed (length p) s1 p) as [a1|a1|e1 a1|q1 a1|a1]; destruct (feed (length p) s2 p) as [a2|a2|e2 a2|q2 a2|a2];
        try contradiction.
      * apply IH. exact F.
      * apply fsim_dsim. apply (stream_finish_relF Rk Dk flx H_wa Dk_ext H_fl). exact F.
      * apply fsim_dsim. apply (stream_finish_relF Rk Dk flx H_wa Dk_ext H_fl). apply F.
      * destruct F as [-> F]. left. cbn [fst snd]. split; [reflexivity|apply (Rst_sink Rk); exact F].
      * left. cbn [fst snd]. split; [reflexivity|apply (Rst_sink Rk); exact F].
    + rewrite E1. rewrite (finish_when_dead t1 Hn). right. cbn [fst snd]. split; [right; reflexivity|].
      unfold stream_sink in Hd at 1. rewrite Hn in Hd.
      eapply Dk_ext; [exact Hd|].
      destruct (feed (length p) s2 p) as [a2|a2|e2 a2|q2 a2|a2]; cbn [feed_stream snd].
      * apply drive_grows.
      * destruct (stream_finish a2) as [r k] eqn:E. cbn [snd]. eapply stream_finish_grows; exact E.
      * destruct (stream_finish a2) as [r k] eqn:E. cbn [snd]. eapply stream_finish_grows; exact E.
      * apply ext_refl.
      * apply ext_refl.
Qed.
End RelDrive.

Print Assumptions drive_relF.
