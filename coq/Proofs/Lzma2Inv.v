(* Invariants used by the LZMA2 framing theorems (C17):
   - reads from a fault-free source never make the handler fail, so [map_io_err] only
     renames the UnexpectedEof produced by read_exact;
   - fault-freeness of the source and "the window is the accumulating buffer on the same sink"
     are preserved by every symbol, by process_mode and by both chunk parsers;
   - parse_lzma as a composition of its stages. *)
From LZ Require Import Base.Prelude Base.Prog Model.Io Model.Tables Model.LzBuffer Model.RangeDec Model.Lzma Model.Lzma2
  Proofs.ProgLemmas Proofs.IoLemmas Proofs.SizeRules Proofs.WinCirc.
From Coq Require Import ZifyBool ZifyNat ZifyN.
Local Open Scope prog_scope.

(* ---------- the I/O handler on fault-free sources ---------- *)
Lemma src_consume_FaultFreeL s n : FaultFreeL s -> FaultFreeL (src_consume s n).
Proof.
  intros (Hf & Ha). unfold FaultFreeL, src_consume. cbn [s_fail s_avail s_rest].
  split; [assumption|]. rewrite nlen_nskipn. lia.
Qed.

Lemma io_h_FaultFreeL X (o : ioE X) w : FaultFreeL (i_src w) ->
  match io_h X o w with HOk _ w' => FaultFreeL (i_src w') | HErr _ w' => FaultFreeL (i_src w') | HPanic _ w' => FaultFreeL (i_src w') end.
Proof.
  intros Hs. destruct o; cbn [io_h].
  - destruct (src_fill_spec _ Hs) as (v & s' & Hfill & _ & _ & _ & Hs' & _). rewrite Hfill. exact Hs'.
  - cbn [i_src]. apply src_consume_FaultFreeL. exact Hs.
  - destruct (snk_write (i_snk w) bs); exact Hs.
  - destruct (snk_flush (i_snk w)); exact Hs.
  - exact Hs.
  - exact Hs.
Qed.

Lemma io_h_FaultFree X (o : ioE X) w : FaultFree (i_src w) ->
  match io_h X o w with HOk _ w' => FaultFree (i_src w') | HErr _ w' => FaultFree (i_src w') | HPanic _ w' => FaultFree (i_src w') end.
Proof.
  intros Hs. destruct o; cbn [io_h].
  - destruct (src_fill_spec _ (FaultFree_L _ Hs)) as (v & s' & Hfill & _ & _ & Hl & Hs' & _). rewrite Hfill.
    cbn [i_src]. apply FaultFreeL_None; [exact Hs'|]. rewrite Hl. apply Hs.
  - cbn [i_src]. apply FaultFreeL_None; [apply src_consume_FaultFreeL, FaultFree_L, Hs|].
    unfold src_consume. cbn [s_limit]. destruct Hs as (_ & -> & _). reflexivity.
  - destruct (snk_write (i_snk w) bs); exact Hs.
  - destruct (snk_flush (i_snk w)); exact Hs.
  - exact Hs.
  - exact Hs.
Qed.

Lemma run_io_FaultFreeL {A} (p : iop A) w : FaultFreeL (i_src w) -> FaultFreeL (i_src (snd (run_io p w))).
Proof. intros H. unfold run_io. apply (interp_inv io_h (fun w => FaultFreeL (i_src w))); [apply io_h_FaultFreeL|exact H]. Qed.

Lemma run_io_FaultFree {A} (p : iop A) w : FaultFree (i_src w) -> FaultFree (i_src (snd (run_io p w))).
Proof. intros H. unfold run_io. apply (interp_inv io_h (fun w => FaultFree (i_src w))); [apply io_h_FaultFree|exact H]. Qed.

Lemma snd_src_run {A} (p : iop A) s : snd (src_run p s) = i_src (snd (run_io p (mkIo s vec_sink))).
Proof. unfold src_run. destruct (run_io p (mkIo s vec_sink)) as [r w]. reflexivity. Qed.

Lemma src_run_FaultFreeL {A} (p : iop A) s : FaultFreeL s -> FaultFreeL (snd (src_run p s)).
Proof. intros H. rewrite snd_src_run. apply run_io_FaultFreeL. exact H. Qed.

Lemma src_run_FaultFree {A} (p : iop A) s : FaultFree s -> FaultFree (snd (src_run p s)).
Proof. intros H. rewrite snd_src_run. apply run_io_FaultFree. exact H. Qed.

(* a world in which no handler call fails *)
Definition io_ok (w : io) : Prop :=
  FaultFreeL (i_src w) /\ k_wfail (i_snk w) = None /\ k_ffail (i_snk w) = false.

Lemma io_h_ok X (o : ioE X) w : io_ok w -> exists x w', io_h X o w = HOk x w' /\ io_ok w'.
Proof.
  intros (Hs & Hw & Hf). destruct o; cbn [io_h].
  - destruct (src_fill_spec _ Hs) as (v & s' & Hfill & _ & _ & _ & Hs' & _). rewrite Hfill.
    eexists _, _. split; [reflexivity|]. split; [exact Hs'|split; assumption].
  - eexists _, _. split; [reflexivity|]. split; [apply src_consume_FaultFreeL; exact Hs|split; assumption].
  - unfold snk_write. rewrite Hw. eexists _, _. split; [reflexivity|].
    split; [exact Hs|]. cbn [i_snk k_wfail k_ffail]. split; (reflexivity || assumption).
  - unfold snk_flush. rewrite Hf. eexists _, _. split; [reflexivity|].
    split; [exact Hs|]. cbn [i_snk k_wfail k_ffail]. split; (reflexivity || assumption).
  - eexists _, _. split; [reflexivity|]. split; [exact Hs|split; assumption].
  - eexists _, _. split; [reflexivity|]. split; [exact Hs|split; assumption].
Qed.

Definition remap {A S} (e' : err) (r : outcome A * S) : outcome A * S :=
  match r with (Failed EIo, w') => (Failed e', w') | x => x end.

(* map_err renames exactly the UnexpectedEof of read_exact *)
Lemma interp_map_io_err {A} (e' : err) (p : iop A) : forall w, io_ok w ->
  interp io_h (map_io_err e' p) w = remap e' (interp io_h p w).
Proof.
  induction p as [a|e|q|X o k IH]; intros w Hw; cbn [map_io_err interp].
  - reflexivity.
  - destruct e; reflexivity.
  - reflexivity.
  - destruct (io_h_ok X o w Hw) as (x & w' & E & Hw'). rewrite E. apply IH. exact Hw'.
Qed.

Lemma vec_sink_ok s : FaultFreeL s -> io_ok (mkIo s vec_sink).
Proof. intros H. split; [exact H|]. split; reflexivity. Qed.

Lemma src_run_map_io_err {A} (e' : err) (p : iop A) s : FaultFreeL s ->
  src_run (map_io_err e' p) s = remap e' (src_run p s).
Proof.
  intros H. unfold src_run, run_io. rewrite (interp_map_io_err e' p _ (vec_sink_ok s H)).
  destruct (interp io_h p (mkIo s vec_sink)) as [[a|e|q] w']; [reflexivity| |reflexivity].
  destruct e; reflexivity.
Qed.

(* ---------- set_limit ---------- *)
Lemma set_limit_FaultFreeL s l : FaultFreeL s -> FaultFreeL (set_limit s l).
Proof. intros H. exact H. Qed.

Lemma set_limit_None_FaultFree s : FaultFreeL s -> FaultFree (set_limit s None).
Proof. intros (H1 & H2). split; [exact H1|]. split; [reflexivity|exact H2]. Qed.

(* ---------- invariants of the symbol decoder handler ---------- *)
Section SrcInv.
  Variable Ps : src -> Prop.
  Hypothesis Hsrc : forall A (p : iop A) s, Ps s -> Ps (snd (src_run p s)).

  Lemma dec_h_src X (o : decE X) w : Ps (d_src w) ->
    match dec_h X o w with HOk _ w' => Ps (d_src w') | HErr _ w' => Ps (d_src w') | HPanic _ w' => Ps (d_src w') end.
  Proof.
    intros H. destruct o; cbn [dec_h].
    - destruct (cell_get (d_tabs w) c) as [prob|]; [|exact H].
      pose proof (Hsrc _ (rc_decode_bit (d_rc w) prob upd) _ H) as P.
      destruct (src_run (rc_decode_bit (d_rc w) prob upd) (d_src w)) as [[[[b p'] r']|e|q] s]; exact P.
    - pose proof (Hsrc _ (rc_get count (d_rc w)) _ H) as P. unfold lift_src.
      destruct (src_run (rc_get count (d_rc w)) (d_src w)) as [[[x r']|e|q] s]; exact P.
    - pose proof (Hsrc _ (rc_is_finished_ok (d_rc w)) _ H) as P.
      destruct (src_run (rc_is_finished_ok (d_rc w)) (d_src w)) as [[b|e|q] s]; exact P.
    - exact H.
    - unfold lift_win. destruct (win_last_or (d_win w) d) as [[x|e|q] v]; exact H.
    - unfold lift_win. destruct (win_last_n (d_win w) dist) as [[x|e|q] v]; exact H.
    - unfold lift_win. destruct (win_append_literal (d_win w) b) as [[x|e|q] v]; exact H.
    - unfold lift_win. destruct (win_append_lz (d_win w) len dist) as [[x|e|q] v]; exact H.
  Qed.

  Lemma run_sym_src upd w : Ps (l_src w) -> Ps (l_src (snd (run_sym upd w))).
  Proof.
    intros H. unfold run_sym.
    pose proof (interp_inv dec_h (fun x => Ps (d_src x)) dec_h_src
                  (process_next_inner (ds_props (l_ds w)) (mkSym (ds_state (l_ds w)) (ds_rep (l_ds w))) upd)
                  (mkDw (ds_tabs (l_ds w)) (l_rc w) (l_src w) (l_win w)) H) as P.
    cbv zeta. destruct (interp dec_h _ _) as [[[st y]|e|q] x]; exact P.
  Qed.
End SrcInv.

Section WinInv.
  Variable Pw : win -> Prop.
  Hypothesis Hlo : forall v d, Pw v -> Pw (snd (win_last_or v d)).
  Hypothesis Hln : forall v d, Pw v -> Pw (snd (win_last_n v d)).
  Hypothesis Hal : forall v b, Pw v -> Pw (snd (win_append_literal v b)).
  Hypothesis Haz : forall v l d, Pw v -> Pw (snd (win_append_lz v l d)).

  Lemma dec_h_win X (o : decE X) w : Pw (d_win w) ->
    match dec_h X o w with HOk _ w' => Pw (d_win w') | HErr _ w' => Pw (d_win w') | HPanic _ w' => Pw (d_win w') end.
  Proof.
    intros H. destruct o; cbn [dec_h].
    - destruct (cell_get (d_tabs w) c) as [prob|]; [|exact H].
      destruct (src_run (rc_decode_bit (d_rc w) prob upd) (d_src w)) as [[[[b p'] r']|e|q] s]; exact H.
    - unfold lift_src.
      destruct (src_run (rc_get count (d_rc w)) (d_src w)) as [[[x r']|e|q] s]; exact H.
    - destruct (src_run (rc_is_finished_ok (d_rc w)) (d_src w)) as [[b|e|q] s]; exact H.
    - exact H.
    - unfold lift_win. pose proof (Hlo _ d H) as P. destruct (win_last_or (d_win w) d) as [[x|e|q] v]; exact P.
    - unfold lift_win. pose proof (Hln _ dist H) as P. destruct (win_last_n (d_win w) dist) as [[x|e|q] v]; exact P.
    - unfold lift_win. pose proof (Hal _ b H) as P. destruct (win_append_literal (d_win w) b) as [[x|e|q] v]; exact P.
    - unfold lift_win. pose proof (Haz _ len dist H) as P. destruct (win_append_lz (d_win w) len dist) as [[x|e|q] v]; exact P.
  Qed.

  Lemma run_sym_win upd w : Pw (l_win w) -> Pw (l_win (snd (run_sym upd w))).
  Proof.
    intros H. unfold run_sym.
    pose proof (interp_inv dec_h (fun x => Pw (d_win x)) dec_h_win
                  (process_next_inner (ds_props (l_ds w)) (mkSym (ds_state (l_ds w)) (ds_rep (l_ds w))) upd)
                  (mkDw (ds_tabs (l_ds w)) (l_rc w) (l_src w) (l_win w)) H) as P.
    cbv zeta. destruct (interp dec_h _ _) as [[[st y]|e|q] x]; exact P.
  Qed.
End WinInv.

(* ---------- process_mode keeps a source invariant and a window invariant ---------- *)
Section PmInv.
  Variable Ps : src -> Prop.
  Variable Pw : win -> Prop.
  Hypothesis Hsrc : forall A (p : iop A) s, Ps s -> Ps (snd (src_run p s)).
  Hypothesis Hlo : forall v d, Pw v -> Pw (snd (win_last_or v d)).
  Hypothesis Hln : forall v d, Pw v -> Pw (snd (win_last_n v d)).
  Hypothesis Hal : forall v b, Pw v -> Pw (snd (win_append_literal v b)).
  Hypothesis Haz : forall v l d, Pw v -> Pw (snd (win_append_lz v l d)).

  Definition LI (w : lw) : Prop := Ps (l_src w) /\ Pw (l_win w).

  Lemma run_sym_LI upd w : LI w -> LI (snd (run_sym upd w)).
  Proof.
    intros [H1 H2]. split; [apply run_sym_src; assumption|apply run_sym_win; assumption].
  Qed.

  Lemma rpib_LI w : LI w -> LI (snd (read_partial_input_buf w)).
  Proof.
    intros [H1 H2]. unfold read_partial_input_buf. destruct (_ <? _); [split; assumption|].
    pose proof (Hsrc _ (read_buf (MAX_REQUIRED_INPUT - nlen (ds_pib (l_ds w)))) _ H1) as P.
    destruct (src_run _ _) as [[g|e|q] s]; split; assumption.
  Qed.

  Lemma pm_body_LI mode w : LI w -> LI (res_state (pm_body mode w)).
  Proof.
    intros Hw. unfold pm_body. cbv zeta.
    set (head := match ds_unpacked (l_ds w) with Some us => _ | None => _ end).
    assert (Hh : LI (snd head)).
    { unfold head. destruct (ds_unpacked (l_ds w)); [exact Hw|]. destruct mode.
      - pose proof (Hsrc _ is_eof _ (proj1 Hw)) as P.
        destruct (src_run is_eof _) as [[b|e|q] s]; (split; [exact P|exact (proj2 Hw)]).
      - destruct (_ =? _); [|exact Hw].
        pose proof (Hsrc _ (rc_is_finished_ok (l_rc w)) _ (proj1 Hw)) as P.
        destruct (src_run _ _) as [[b|e|q] s]; (split; [exact P|exact (proj2 Hw)]). }
    clearbody head.
    destruct head as [[[|]|e|q] w1]; cbn [snd res_state] in *; try exact Hh.
    destruct (0 <? nlen (ds_pib (l_ds w1))).
    - pose proof (rpib_LI w1 Hh) as H2.
      destruct (read_partial_input_buf w1) as [[u|e|q] w2]; cbn [snd res_state] in *; try exact H2.
      set (nm := match mode with Partial => _ | FinishMode => _ end).
      destruct nm as [[|]|e|q]; cbn [res_state]; try exact H2.
      pose proof (run_sym_win Pw Hlo Hln Hal Haz true
                    (mkLw (l_ds w2) (l_rc w2) (cursor_of (ds_pib (l_ds w2))) (l_win w2)) (proj2 H2)) as H3.
      destruct (run_sym true _) as [[st|e|q] t]; cbn [snd res_state l_src l_win] in *;
        try (split; [exact (proj1 H2)|exact H3]).
      destruct (_ <? _); cbn [res_state]; [exact H2|].
      destruct st; cbn [res_state]; (split; [exact (proj1 H2)|exact H3]).
    - pose proof (Hsrc _ (icall FillBuf) _ (proj1 Hh)) as P.
      destruct (src_run (icall FillBuf) (l_src w1)) as [[buf|e|q] s]; cbn [res_state snd] in *;
        try (split; [exact P|exact (proj2 Hh)]).
      assert (H2 : LI (mkLw (l_ds w1) (l_rc w1) s (l_win w1))) by (split; [exact P|exact (proj2 Hh)]).
      set (nm := match mode with Partial => _ | FinishMode => _ end).
      destruct nm as [[|]|e|q]; cbn [res_state]; try exact H2.
      + pose proof (rpib_LI _ H2) as H3.
        destruct (read_partial_input_buf _) as [o w2]. exact H3.
      + pose proof (run_sym_LI true _ H2) as H3.
        destruct (run_sym true _) as [[[|]|e|q] w3]; exact H3.
  Qed.

  Lemma process_mode_LI mode fuel w : LI w -> LI (snd (process_mode mode fuel w)).
  Proof.
    intros Hw. unfold process_mode.
    pose proof (loopN_inv (pm_body mode) LI (fun r => LI (snd r))) as L.
    assert (H1 : forall s s', LI s -> pm_body mode s = Next s' -> LI s').
    { intros s s' Hs E. pose proof (pm_body_LI mode s Hs) as P. rewrite E in P. exact P. }
    assert (H2 : forall s r, LI s -> pm_body mode s = Break r -> LI (snd r)).
    { intros s [o t] Hs E. pose proof (pm_body_LI mode s Hs) as P. rewrite E in P. exact P. }
    specialize (L H1 H2 fuel w Hw).
    destruct (loopN fuel (pm_body mode) w) as [w1|[[u|e|q] w1]]; cbn [snd] in *; try exact L.
    destruct (ds_unpacked (l_ds w1)); [|exact L]. destruct mode; [exact L|].
    destruct (_ =? _); exact L.
  Qed.
End PmInv.

(* the two instances *)
Definition on_accum (k : snk) (v : win) : Prop := exists a, v = WAccum a /\ a_snk a = k.

Lemma on_accum_last_or k v d : on_accum k v -> on_accum k (snd (win_last_or v d)).
Proof.
  intros (a & -> & Hk). cbn [win_last_or]. unfold lift_a, accum_last_or. cbn [snd].
  exists a. destruct (_ =? _); cbn [snd]; split; (reflexivity || exact Hk).
Qed.

Lemma on_accum_last_n k v d : on_accum k v -> on_accum k (snd (win_last_n v d)).
Proof.
  intros (a & -> & Hk). cbn [win_last_n]. unfold lift_a, accum_last_n. cbn [snd].
  exists a. destruct (_ <? _); [|destruct (_ =? _)]; cbn [snd]; split; (reflexivity || exact Hk).
Qed.

Lemma on_accum_append_literal k v b : on_accum k v -> on_accum k (snd (win_append_literal v b)).
Proof.
  intros (a & -> & Hk). cbn [win_append_literal]. unfold lift_a, accum_append_literal. cbn [snd]. cbv zeta.
  destruct (_ <? _); cbn [snd]; eexists; (split; [reflexivity|exact Hk]).
Qed.

Lemma on_accum_append_lz k v l d : on_accum k v -> on_accum k (snd (win_append_lz v l d)).
Proof.
  intros (a & -> & Hk). cbn [win_append_lz]. unfold lift_a, accum_append_lz. cbn [snd].
  destruct (_ <? _); [cbn [snd]; eexists; split; [reflexivity|exact Hk]|].
  destruct (_ && _); [cbn [snd]; eexists; split; [reflexivity|exact Hk]|].
  destruct (accum_lz_loop _ _ _ _) as [m bl]. cbn [snd]. eexists; split; [reflexivity|exact Hk].
Qed.

(* Finish-mode decoding of an LZMA2 chunk: the source stays fault free, the window stays the
   accumulating buffer, and its sink is not touched *)
Theorem process_mode_lzma2_inv mode fuel w a :
  FaultFreeL (l_src w) -> l_win w = WAccum a ->
  FaultFreeL (l_src (snd (process_mode mode fuel w))) /\
  exists a', l_win (snd (process_mode mode fuel w)) = WAccum a' /\ a_snk a' = a_snk a.
Proof.
  intros Hs Hw.
  apply (process_mode_LI FaultFreeL (on_accum (a_snk a)) (@src_run_FaultFreeL)
           (on_accum_last_or _) (on_accum_last_n _) (on_accum_append_literal _) (on_accum_append_lz _)).
  split; [exact Hs|]. exists a. split; [exact Hw|reflexivity].
Qed.

(* the same for an arbitrary (possibly failing, possibly limited) source *)
Theorem process_mode_accum_inv mode fuel w a :
  l_win w = WAccum a ->
  exists a', l_win (snd (process_mode mode fuel w)) = WAccum a' /\ a_snk a' = a_snk a.
Proof.
  intros Hw.
  apply (process_mode_LI (fun _ => True) (on_accum (a_snk a)) (fun _ _ _ _ => I)
           (on_accum_last_or _) (on_accum_last_n _) (on_accum_append_literal _) (on_accum_append_lz _)).
  split; [exact I|]. exists a. split; [exact Hw|reflexivity].
Qed.

(* ---------- parse_lzma as a composition of its stages ---------- *)
Definition l2_cls (status : N) : N := N.land (N.shiftr status 5) 3.
Definition l2_unpacked (status us16 : N) : N := N.lor (N.shiftl (N.land status 31) 16) us16 + 1.

Definition pl_dict (reset_dict : bool) (w : w2) : outcome unit * w2 :=
  if reset_dict then
    match accum_reset (w_acc w) with
    | (r, a) => (r, mkW2 (w_ds w) (w_src w) a)
    end
  else (Done tt, w).

Definition pl_props (reset_st reset_props : bool) (w : w2) : outcome unit * w2 :=
  if reset_st then
    let np : outcome props * w2 :=
      if reset_props then
        match w2_src w (src_run (map_io_err ELzma read_u8) (w_src w)) with
        | (Failed e, w) => (Failed e, w) | (Panicked p, w) => (Panicked p, w)
        | (Done pbyte, w) =>
            if 225 <=? pbyte then (Failed ELzma, w) else
            let lc_ := pbyte mod 9 in let t := pbyte / 9 in
            let lp_ := t mod 5 in let pb_ := t / 5 in
            if 4 <? lc_ + lp_ then (Failed ELzma, w) else (Done (mkProps lc_ lp_ pb_), w)
        end
      else (Done (ds_props (w_ds w)), w) in
    match np with
    | (Failed e, w) => (Failed e, w) | (Panicked p, w) => (Panicked p, w)
    | (Done p, w) =>
        match reset_state (w_ds w) p with
        | (Done d, _) => (Done tt, mkW2 d (w_src w) (w_acc w))
        | (Failed e, _) => (Failed e, w)
        | (Panicked q, _) => (Panicked q, w)
        end
    end
  else (Done tt, w).

Definition pl_payload (fuel : positive) (unpacked_size packed_size : N) (w : w2) : outcome unit * w2 :=
  let d := set_unpacked_size (w_ds w) (Some (unpacked_size + a_len (w_acc w))) in
  let taken := set_limit (w_src w) (Some packed_size) in
  match src_run (map_io_err ELzma rc_new) taken with
  | (Failed e, s) => (Failed e, mkW2 d (set_limit s None) (w_acc w))
  | (Panicked p, s) => (Panicked p, mkW2 d (set_limit s None) (w_acc w))
  | (Done r, s) =>
      match process_mode FinishMode fuel (mkLw d r s (WAccum (w_acc w))) with
      | (res, x) =>
          (res, mkW2 (l_ds x) (set_limit (l_src x) None)
                     (match l_win x with WAccum a => a | WCirc _ => w_acc w end))
      end
  end.

Lemma parse_lzma_eq fuel status w :
  parse_lzma fuel status w =
  if N.land status 128 =? 0 then (Failed ELzma, w) else
  match w2_src w (src_run (map_io_err ELzma read_u16_be) (w_src w)) with
  | (Failed e, w) => (Failed e, w) | (Panicked p, w) => (Panicked p, w)
  | (Done us16, w) =>
  match w2_src w (src_run (map_io_err ELzma read_u16_be) (w_src w)) with
  | (Failed e, w) => (Failed e, w) | (Panicked p, w) => (Panicked p, w)
  | (Done ps16, w) =>
  match pl_dict (l2_cls status =? 3) w with
  | (Failed e, w) => (Failed e, w) | (Panicked p, w) => (Panicked p, w)
  | (Done _, w) =>
  match pl_props (negb (l2_cls status =? 0)) ((l2_cls status =? 2) || (l2_cls status =? 3)) w with
  | (Failed e, w) => (Failed e, w) | (Panicked p, w) => (Panicked p, w)
  | (Done _, w) => pl_payload fuel (l2_unpacked status us16) (ps16 + 1) w
  end end end end.
Proof. reflexivity. Qed.

Print Assumptions src_run_map_io_err.
Print Assumptions process_mode_lzma2_inv.
Print Assumptions process_mode_accum_inv.
Print Assumptions parse_lzma_eq.
