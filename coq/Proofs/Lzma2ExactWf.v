(* C02, format-level complement: the serialiser's state invariant [SInv] is preserved by every
   well-formed chunk, hence in a well-formed sequence the automaton invariant rep0_ok of
   SymChain.v holds at the start of every LZMA chunk (this is what the rule "state reset in the
   first compressed chunk after a dictionary reset" buys).  No decoder is involved here. *)
From LZ Require Import Base.Prelude Base.Prog Model.Io Model.Tables Model.LzBuffer Model.RangeDec Model.Lzma Model.Lzma2
  Format.RefEnc Format.Lzma2Fmt
  Proofs.ProgLemmas Proofs.MapLemmas Proofs.IoLemmas Proofs.RangeLockstep Proofs.NoPanic Proofs.NoPanicWorld
  Proofs.SymOracle Proofs.SymCoders Proofs.SymLiteral Proofs.SymDecode Proofs.SymChain
  Proofs.LzmaExactSync Proofs.LzmaExactRefine Proofs.LzmaExactLoop Proofs.LzmaExact
  Proofs.Lzma2ExactChunk Proofs.Lzma2ExactLzmaChunk.
From Coq Require Import ZifyBool ZifyNat ZifyN.

(* the symbol automaton's invariants over a whole marker-free program *)
Lemma prog_evs_inv fp : forall prog st h evs stf hf,
  Forall (fun x => x <> EndMarker) prog -> prog_evs fp None st h prog = Some (evs, stf, hf) ->
  st < 12 -> Forall (fun b => b < 256) (h_bytes h) -> rep0_ok None st h ->
  stf < 12 /\ Forall (fun b => b < 256) (h_bytes hf) /\ rep0_ok None stf hf.
Proof.
  induction prog as [|x rest IH]; intros st h evs stf hf Hnm Hpe Hst Hby Hr0.
  - cbn [prog_evs] in Hpe. inversion Hpe; subst. repeat split; assumption.
  - inversion Hnm as [|? ? Hx Hnm']; subst.
    rewrite (prog_evs_cons fp None st h x rest Hx) in Hpe.
    destruct (sem_sym None h x) as [h'|] eqn:Es; [|discriminate].
    destruct (prog_evs fp None (snd (sym_evs fp st h x)) h' rest) as [[[l st2] h2]|] eqn:Ep; [|discriminate].
    inversion Hpe; subst.
    destruct (sym_step_invariants None fp st h x h' Hst Hby Es) as (I1 & I2 & I3).
    exact (IH _ _ _ _ _ Hnm' Ep I1 I2 I3).
Qed.

(* coding events keeps the shape of the tables and the range of the probabilities *)
Lemma fold_ev_tabs lcp evs : forall ie t ie' t',
  fold_left ienc_ev evs (ie, t) = (ie', t') -> TabsStd t lcp -> ProbsOk t -> TabsStd t' lcp /\ ProbsOk t'.
Proof.
  induction evs as [|[c b|b] evs IH]; intros ie t ie' t' Hf Hstd Hpo; cbn [fold_left ienc_ev] in Hf.
  - inversion Hf; subst. split; assumption.
  - apply (IH _ _ _ _ Hf); [apply cell_set_TabsStd; exact Hstd|].
    apply cell_set_ProbsOk; [exact Hpo|]. apply prob_upd_ok. apply (cell_prob_ok t c Hpo).
  - apply (IH _ _ _ _ Hf); assumption.
Qed.

(* what the serialiser and chunk_okb say about an LZMA chunk *)
Lemma lzma_chunk_inv need s cls np prog delta b1 s1 :
  ser_chunk_gen false s (CLzma cls np prog delta) = Some (b1, s1) ->
  chunk_okb need s (CLzma cls np prog delta) s1 = true ->
  cls <= 3 /\ c_props_ok cls np = true /\ (cls = 0 -> need = false) /\
  Forall (fun x => x <> EndMarker) prog /\
  exists ie es2,
    enc_syms_gen false (c_props s cls np) None ienc0 (c_es1 s cls np) prog = Some (ie, es2) /\
    delta < i_range ie /\ h_len (es_hist es2) <= 18446744073709551615 /\
    s1 = mkL2S (c_props s cls np) es2 (c_flushed s (cls =? 3)).
Proof.
  intros Hser Hokb. rewrite ser_lzma_eq in Hser.
  destruct (N.leb_spec cls 3) as [Hc|]; [|discriminate]. cbn [negb] in Hser.
  destruct (c_props_ok cls np) eqn:Hok; [|discriminate]. cbn [negb] in Hser.
  destruct (enc_syms_gen false (c_props s cls np) None ienc0 (c_es1 s cls np) prog) as [[ie es2]|] eqn:Henc; [|discriminate].
  cbv zeta in Hser. destruct (_ && _ && _) in Hser; [|discriminate].
  assert (Es1 : s1 = mkL2S (c_props s cls np) es2 (c_flushed s (cls =? 3))) by congruence.
  clear Hser. subst s1.
  unfold chunk_okb, chunk_ienc in Hokb. rewrite Henc in Hokb. cbn [l2_es] in Hokb.
  apply andb_true_iff in Hokb. destruct Hokb as [Hokb Hbound]. apply andb_true_iff in Hokb. destruct Hokb as [Hokb Hdelta].
  apply andb_true_iff in Hokb. destruct Hokb as [Hneed Hnm].
  apply N.leb_le in Hbound. apply N.ltb_lt in Hdelta. apply no_markerb_spec in Hnm.
  split; [exact Hc|]. split; [reflexivity|]. split.
  { intros ->. change (negb (0 =? 0)) with false in Hneed. cbn [orb] in Hneed. destruct need; [discriminate|reflexivity]. }
  split; [exact Hnm|]. exists ie, es2. repeat split; assumption.
Qed.

(* SInv is preserved by every well-formed chunk *)
Theorem ser_chunk_SInv need s c b1 s1 :
  SInv need s -> ser_chunk_gen false s c = Some (b1, s1) -> chunk_okb need s c s1 = true ->
  SInv (next_need need c) s1.
Proof.
  intros HS Hser Hokb. destruct c as [rd data|cls np prog delta]; cbn [next_need].
  - rewrite ser_raw_eq in Hser.
    destruct ((1 <=? nlen data) && (nlen data <=? 65536) && forallb (fun b => b <? 256) data) eqn:Hc; [|discriminate].
    apply andb_true_iff in Hc. destruct Hc as [_ Hby]. apply forallb_bytes in Hby.
    assert (Es1 : s1 = mkL2S (l2_props s) (mkEstate (es_tabs (l2_es s)) (es_st (l2_es s)) (raw_hist (c_hist s rd) data)) (c_flushed s rd)) by congruence.
    clear Hser. subst s1. destruct HS as [S1 S2 S3 S4 S5 S6 S7 S8].
    pose proof (c_hist_len s rd S5) as Hl1. pose proof (c_hist_bytes s rd S4) as Hb1.
    constructor; cbn [l2_props l2_es es_tabs es_st es_hist]; try assumption.
    + unfold raw_hist. cbn [h_bytes]. rewrite push_bytes_rev. apply Forall_app. split; [|exact Hb1].
      apply Forall_rev_bytes. exact Hby.
    + unfold raw_hist. cbn [h_bytes h_len]. rewrite push_bytes_rev, nlen_app, nlen_rev, Hl1. lia.
    + intros Hneed. apply orb_false_iff in Hneed. destruct Hneed as [-> Hneed].
      unfold c_hist. apply (rep0_ok_grow _ (es_hist (l2_es s))); [apply S8; exact Hneed|reflexivity|].
      unfold raw_hist. cbn [h_len]. lia.
  - destruct (lzma_chunk_inv need s cls np prog delta b1 s1 Hser Hokb)
      as (Hc & Hok & Hneed & Hnm & ie & es2 & Henc & _ & _ & ->).
    pose proof (c_es1_inv need s cls np HS Hneed Hc Hok) as (P1 & P2 & Q1 & Q2 & Q3 & Q4 & Q5 & Q6 & _ & _).
    destruct (c_es1 s cls np) as [t1 st1 h1]. cbn [es_tabs es_st es_hist] in *.
    destruct (enc_syms_prog_evs _ None prog ienc0 t1 st1 h1 ie es2 Henc) as (evs & Hpe & Hfold).
    destruct (prog_evs_inv _ prog st1 h1 evs _ _ Hnm Hpe Q1 Q2 Q4) as (R1 & R2 & R3).
    destruct (fold_ev_tabs _ evs _ _ _ _ Hfold Q5 Q6) as (R4 & R5).
    pose proof (hist_len_ok _ None prog st1 h1 evs _ _ Hpe Q3) as R6.
    constructor; cbn [l2_props l2_es]; try assumption. intros _. exact R3.
Qed.
Print Assumptions ser_chunk_SInv.

(* rep0_ok at the start of every LZMA chunk of a sequence *)
Fixpoint starts_ok (need : bool) (s : l2state) (cs : list chunk) : Prop :=
  match cs with
  | [] => True
  | c :: rest =>
      match c with
      | CLzma cls np _ _ => rep0_ok None (es_st (c_es1 s cls np)) (es_hist (c_es1 s cls np))
      | CRaw _ _ => True
      end /\
      match ser_chunk_gen false s c with
      | Some (_, s1) => starts_ok (next_need need c) s1 rest
      | None => True
      end
  end.

Theorem wf_starts_ok : forall cs need s, SInv need s -> wf_fromb need s cs = true -> starts_ok need s cs.
Proof.
  induction cs as [|c rest IH]; intros need s HS Hwf; cbn [starts_ok wf_fromb] in *; [exact I|].
  destruct (ser_chunk_gen false s c) as [[b1 s1]|] eqn:Ec; [|discriminate].
  apply andb_true_iff in Hwf. destruct Hwf as [Hok Hwf].
  split.
  - destruct c as [rd data|cls np prog delta]; [exact I|].
    destruct (lzma_chunk_inv need s cls np prog delta b1 s1 Ec Hok) as (Hc & Hpo & Hneed & _).
    apply (c_es1_inv need s cls np HS Hneed Hc Hpo).
  - apply IH; [|exact Hwf]. exact (ser_chunk_SInv need s c b1 s1 HS Ec Hok).
Qed.

Lemma SInv_l2state0 : SInv false l2state0.
Proof.
  constructor; cbn [l2state0 l2_props l2_es estate0 es_tabs es_st es_hist hist0 h_bytes h_len f_lc f_lp f_pb].
  - lia.
  - lia.
  - lia.
  - constructor.
  - reflexivity.
  - apply (TabsStd_new 0).
  - apply ProbsOk_new.
  - intros _. apply rep0_ok_init.
Qed.

Theorem wf_seq_rep0_ok cs : wf_seq cs -> starts_ok false l2state0 cs.
Proof. intros H. apply wf_starts_ok; [apply SInv_l2state0|exact H]. Qed.
Print Assumptions wf_seq_rep0_ok.
