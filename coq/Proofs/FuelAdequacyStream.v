(* Property C07, Part 11 (fuel adequacy, streaming API): stream_write / stream_finish run
   process_mode on big_fuel = 2^62.  One process_mode call needs at most
       16913 * (bytes available to that call + <= 20 staged bytes + 1)
   iterations, so a write of [n] bytes never reports PFuel as long as 16913 * (n + 21) <= 2^62
   (n <= 272 671 082 506 180), whatever was written before; finish never does.
   The range register stays normalised (>= 2^24) from call to call - this is the extra invariant
   the potential argument needs. *)
From LZ Require Import Base.Prelude Base.Prog Model.Io Model.Tables Model.LzBuffer Model.RangeDec Model.Lzma Model.Lzma2 Model.Stream.
From LZ Require Import Proofs.ProgLemmas Proofs.MapLemmas Proofs.NoPanic Proofs.NoPanicWorld
                       Proofs.IoInv Proofs.SrcMono Proofs.ResetFresh Proofs.Lzma2Inv Proofs.StreamLatch Proofs.NoPanicLoops
                       Proofs.NoPanicStream Proofs.FuelAdequacy.
From LZ Require Proofs.Bound20 Proofs.Bound20Run.
From Coq Require Import ZifyBool ZifyNat ZifyN.
Local Open Scope prog_scope.

Ltac Zify.zify_post_hook ::= Z.div_mod_to_equations.

(* ====================================================================== *)
(* process_mode hands back a normalised range decoder                       *)
(* ====================================================================== *)
Definition brk_Linv (r : pm_result) : Prop := match r with (Done _, w') => Linv w' | _ => True end.

Theorem pm_body_Linv mode w : Linv w ->
  match pm_body mode w with
  | Next w' => Linv w'
  | Break r => brk_Linv r
  end.
Proof.
  intros Hw. unfold pm_body. cbv zeta.
  set (head := match ds_unpacked (l_ds w) with Some us => _ | None => _ end).
  assert (Hh : Linv (snd head)).
  { assert (G : forall {A B} (p : iop A) (f : A -> B),
              let r := match src_run p (l_src w) with
                       | (Done a, s) => (Done (f a), mkLw (l_ds w) (l_rc w) s (l_win w))
                       | (Failed e, s) => (Failed e, mkLw (l_ds w) (l_rc w) s (l_win w))
                       | (Panicked q, s) => (Panicked q, mkLw (l_ds w) (l_rc w) s (l_win w))
                       end in Linv (snd r)).
    { intros A B p f. destruct (src_run p (l_src w)) as [[a|e|q] s]; cbn [snd];
        (apply Linv_src; [exact Hw|reflexivity]). }
    unfold head. destruct (ds_unpacked (l_ds w)); [exact Hw|]. destruct mode.
    - exact (G _ _ is_eof (fun e => e && (nlen (ds_pib (l_ds w)) =? 0))).
    - destruct (_ =? _); [|exact Hw].
      exact (G _ _ (rc_is_finished_ok (l_rc w)) (fun e => e && (nlen (ds_pib (l_ds w)) =? 0))). }
  clearbody head. destruct head as [[[|]|e|q] w1]; cbn [snd brk_Linv] in *; try exact I; [exact Hh|].
  destruct (0 <? nlen (ds_pib (l_ds w1))).
  - destruct (read_partial_input_buf w1) as [[u|e|q] w2] eqn:E2; cbn [brk_Linv]; try exact I.
    apply rpib_phi in E2. destruct E2 as (_ & R2 & T2).
    assert (L2 : Linv w2) by (destruct Hh as [A1 A2]; split; [rewrite R2|rewrite T2]; assumption).
    match goal with |- match match ?nm with _ => _ end with _ => _ end => destruct nm as [[|]|e|q]; cbn [brk_Linv]; try exact I end;
      [exact L2|].
    set (wc := mkLw (l_ds w2) (l_rc w2) (cursor_of (ds_pib (l_ds w2))) (l_win w2)).
    assert (Lc : Linv wc) by (destruct L2 as [A1 A2]; split; cbn [wc l_rc l_ds]; assumption).
    destruct (run_sym true wc) as [[st|e|q] t] eqn:Et; cbn [brk_Linv]; try exact I.
    apply run_sym_phi in Et; [|exact Lc]. destruct Et as [_ Lt].
    destruct (nlen (ds_pib (l_ds w2)) <? s_pos (l_src t)); cbn [brk_Linv]; [exact I|].
    assert (L3 : Linv (mkLw (set_pib (l_ds t) (nskipn (s_pos (l_src t)) (ds_pib (l_ds w2)))) (l_rc t) (l_src w2) (l_win t))).
    { destruct Lt as [A1 A2]. split; cbn [l_rc l_ds set_pib ds_tabs]; assumption. }
    destruct st; cbn [brk_Linv]; exact L3.
  - destruct (src_run (icall FillBuf) (l_src w1)) as [[buf|e|q] s]; cbn [brk_Linv]; try exact I.
    set (w2 := mkLw (l_ds w1) (l_rc w1) s (l_win w1)).
    assert (L2 : Linv w2) by (apply Linv_src; [exact Hh|reflexivity]).
    match goal with |- match match ?nm with _ => _ end with _ => _ end => destruct nm as [[|]|e|q]; cbn [brk_Linv]; try exact I end.
    + destruct (read_partial_input_buf w2) as [[u|e|q] w3] eqn:E3; cbn [brk_Linv]; try exact I.
      apply rpib_phi in E3. destruct E3 as (_ & R3 & T3).
      destruct L2 as [A1 A2]. split; [rewrite R3|rewrite T3]; assumption.
    + destruct (run_sym true w2) as [[[|]|e|q] w3] eqn:E3; cbn [brk_Linv]; try exact I;
        (apply run_sym_phi in E3; [|exact L2]); exact (proj2 E3).
Qed.

Theorem process_mode_Linv mode fuel w : Linv w -> brk_Linv (process_mode mode fuel w).
Proof.
  intros Hw. unfold process_mode.
  pose proof (loopN_inv (pm_body mode) Linv brk_Linv) as L.
  assert (H1 : forall s s', Linv s -> pm_body mode s = Next s' -> Linv s').
  { intros s s' Hs E. pose proof (pm_body_Linv mode s Hs) as P. rewrite E in P. exact P. }
  assert (H2 : forall s r, Linv s -> pm_body mode s = Break r -> brk_Linv r).
  { intros s r Hs E. pose proof (pm_body_Linv mode s Hs) as P. rewrite E in P. exact P. }
  specialize (L H1 H2 fuel w Hw).
  destruct (loopN fuel (pm_body mode) w) as [w1|[[u|e|q] w1]]; cbn [brk_Linv] in *; try exact I.
  destruct (ds_unpacked (l_ds w1)); [|exact L]. destruct mode; [exact L|]. destruct (_ =? _); [exact L|exact I].
Qed.
Print Assumptions process_mode_Linv.

(* ====================================================================== *)
(* The invariant of the stream between calls                                *)
(* ====================================================================== *)
Definition NormRc (r : rc) : Prop := 16777216 <= r_range r.

Definition StInvR (s : stream) : Prop :=
  StInv s /\ nlen (st_tmp s) <= MAX_TMP_LEN /\
  match st_state s with Some (SData r) => NormRc (rs_rc r) | _ => True end.

Lemma nil_tmp : @nlen N [] <= MAX_TMP_LEN.
Proof. rewrite IoInv.nlen_nil. unfold MAX_TMP_LEN. lia. Qed.

Theorem stream_new_okR o k : StInvR (stream_new o k).
Proof. split; [apply stream_new_ok|]. split; [exact nil_tmp|exact I]. Qed.

(* one process_mode call of the streaming API needs fuel for the bytes it can see + 20 staged + 1 *)
Definition call_fuel (n : N) : Prop := 16913 * (n + 21) <= N.pos big_fuel.

Lemma call_fuel_bound n : n <= 272671082506180 -> call_fuel n.
Proof. unfold call_fuel, big_fuel. lia. Qed.

Lemma src_run_rc_new_range s r s' : src_run rc_new s = (Done r, s') -> r_range r = 4294967295.
Proof. intros H. apply src_run_inv in H. destruct H as (w' & H & _). exact (rc_new_range _ _ _ H). Qed.

Theorem stream_read_header_okR k input o : SrcBytes input ->
  match stream_read_header k input o with
  | (Done (SData r), _) => NormRc (rs_rc r)
  | _ => True
  end.
Proof.
  intros Hs. unfold stream_read_header.
  destruct (src_run (map_io_err EHeaderTooShort (read_header o)) input) as [[p|e|q] s]; [| |exact I].
  - destruct (dstate_new (pr_props p) (pr_unpacked p)) as [[d|e|q] u]; try exact I.
    destruct (src_run rc_new s) as [[r|e|q] s'] eqn:E; try exact I.
    apply src_run_rc_new_range in E. unfold NormRc. cbn [rs_rc]. rewrite E. lia.
  - destruct e; exact I.
Qed.

(* Stream::read_data is total when the fuel covers the bytes of the call *)
Theorem stream_read_data_total r input : RunInv r -> NormRc (rs_rc r) -> SrcBytes input ->
  call_fuel (nlen (s_rest input)) ->
  match stream_read_data r input with
  | (res, (r', s')) => not_panicked res /\ RunInv r' /\ SrcBytes s' /\
                       (match res with Done _ => NormRc (rs_rc r') | _ => True end)
  end.
Proof.
  intros [H1 H2 H3 H4] Hn Hs Hf. unfold stream_read_data.
  set (w0 := mkLw (rs_dec r) (rs_rc r) input (WCirc (rs_out r))).
  assert (Hw0 : PmInv w0) by (apply PmInv_join; assumption).
  assert (Hphi : PhiL w0 < N.pos big_fuel * DROP).
  { unfold PhiL. cbn [w0 l_ds l_src l_rc]. destruct H3 as [H3 _]. change (2 ^ 32) with 4294967296 in H3.
    destruct H2 as [H2 _]. unfold MAX_REQUIRED_INPUT in H2. unfold call_fuel in Hf.
    assert (X : (nlen (ds_pib (rs_dec r)) + nlen (s_rest input)) * 4294967296 + 4294967295 < N.pos big_fuel * DROP)
      by (apply fuel_simple; lia).
    lia. }
  pose proof (process_mode_total Partial big_fuel w0 Hw0 Hn Hphi) as Hp.
  pose proof (process_mode_Linv Partial big_fuel w0 (PmInv_Linv w0 Hw0 Hn)) as HL.
  destruct (process_mode Partial big_fuel w0) as [res x].
  assert (Hx : PmInv x) by (destruct res; tauto).
  split; [destruct res; cbn [not_panicked]; tauto|].
  apply PmInv_split in Hx. destruct Hx as (X1 & X2 & X3 & X4 & X5).
  split; [|split; [exact X4|]].
  - constructor; cbn [rs_dec rs_rc rs_out]; try assumption.
    destruct (l_win x) as [c|a]; [exact X5|exact H4].
  - destruct res as [u|e|q]; try exact I. cbn [brk_Linv] in HL. destruct HL as [[HL _] _]. exact HL.
Qed.
Print Assumptions stream_read_data_total.

Lemma dead_okR s tmp k : Bytes tmp -> nlen tmp <= MAX_TMP_LEN -> StInvR (dead s tmp k).
Proof. intros H1 H2. split; [apply dead_ok; exact H1|]. split; [exact H2|exact I]. Qed.

Lemma nlen_nfirstn_le {A} n (l : list A) : nlen (nfirstn n l) <= n.
Proof. unfold nlen, nfirstn. rewrite firstn_length. lia. Qed.

(* ====================================================================== *)
(* 3. <Stream as Write>::write is total                                     *)
(* ====================================================================== *)
Theorem stream_write_total s data : StInvR s -> Bytes data -> call_fuel (nlen data) ->
  match stream_write s data with (res, s') => not_panicked res /\ StInvR s' end.
Proof.
  intros [[Ht Hst] [Htl Hrc]] Hd Hf. unfold stream_write. cbv zeta.
  destruct (st_state s) as [[k|r]|] eqn:Est.
  - (* header not complete yet: no fuelled loop runs *)
    set (trip := if 0 <? nlen (st_tmp s) then _ else _).
    assert (Htrip : let '(res, tmp1, pos1) := trip in
              Bytes tmp1 /\ nlen tmp1 <= MAX_TMP_LEN /\
              match res with Done st => sstate_ok st /\ (match st with SData r => NormRc (rs_rc r) | _ => True end)
                        | Failed _ => True | Panicked _ => False end).
    { unfold trip. destruct (0 <? nlen (st_tmp s)).
      - set (n := N.min (nlen data) (MAX_TMP_LEN - nlen (st_tmp s))).
        set (tmp := st_tmp s ++ nfirstn n data).
        assert (Htmp : Bytes tmp) by (apply Bytes_app; [exact Ht|apply Bytes_nfirstn; exact Hd]).
        assert (Hlen : nlen tmp <= MAX_TMP_LEN).
        { unfold tmp. rewrite IoInv.nlen_app. pose proof (nlen_nfirstn_le n data). unfold n in *. lia. }
        pose proof (stream_read_header_ok k (cursor_of tmp) (st_opts s) Htmp) as H.
        pose proof (stream_read_header_okR k (cursor_of tmp) (st_opts s) Htmp) as HR.
        destruct (stream_read_header k (cursor_of tmp) (st_opts s)) as [[[k'|r]|e|q] ts].
        + split; [exact Htmp|]. split; [exact Hlen|]. split; exact I.
        + split; [apply Bytes_nskipn; exact Htmp|]. split; [pose proof (nlen_nskipn_le (s_pos ts) tmp); lia|].
          split; [tauto|exact HR].
        + split; [exact Htmp|]. split; [exact Hlen|exact I].
        + contradiction.
      - pose proof (stream_read_header_ok k (cursor_of data) (st_opts s) Hd) as H.
        pose proof (stream_read_header_okR k (cursor_of data) (st_opts s) Hd) as HR.
        destruct (stream_read_header k (cursor_of data) (st_opts s)) as [[st|e|q] is_]; [| |contradiction].
        + split; [exact Ht|]. split; [exact Htl|]. split; [tauto|]. destruct st; [exact I|exact HR].
        + split; [exact Ht|]. split; [exact Htl|exact I]. }
    clearbody trip. destruct trip as [[res tmp1] pos1]. destruct Htrip as (Hb & Hl & Hres).
    destruct res as [[k'|r]|e|q]; [| | |contradiction].
    + destruct (nlen tmp1 =? 0); (split; [exact I|]).
      * split; [split; [cbn [st_tmp]; apply Bytes_nfirstn; exact Hd|exact I]|].
        split; [cbn [st_tmp]; pose proof (nlen_nfirstn_le (N.min (nlen data) MAX_TMP_LEN) data); lia|exact I].
      * split; [split; [exact Hb|exact I]|]. split; [exact Hl|exact I].
    + split; [exact I|]. destruct Hres as [Hres Hn]. split; [split; [exact Hb|exact Hres]|]. split; [exact Hl|exact Hn].
    + split; [exact I|]. apply dead_okR; assumption.
  - (* data: at most two process_mode calls, on the <= 18 staged bytes and on [data] *)
    cbn [sstate_ok] in Hst.
    set (first := if 0 <? nlen (st_tmp s) then _ else _).
    assert (Hfst : not_panicked (fst first) /\ RunInv (snd first) /\
                   match fst first with Done _ => NormRc (rs_rc (snd first)) | _ => True end).
    { unfold first. destruct (0 <? nlen (st_tmp s)); [|split; [exact I|split; [exact Hst|exact Hrc]]].
      assert (Hft : call_fuel (nlen (s_rest (cursor_of (st_tmp s))))).
      { cbn [cursor_of src_of s_rest]. apply call_fuel_bound. unfold MAX_TMP_LEN in Htl. lia. }
      pose proof (stream_read_data_total r (cursor_of (st_tmp s)) Hst Hrc Ht Hft) as H.
      destruct (stream_read_data r (cursor_of (st_tmp s))) as [res [r' s']]. cbn [fst snd]. tauto. }
    clearbody first. destruct first as [[u|e|q] r1]; cbn [fst snd not_panicked] in Hfst; destruct Hfst as (Hf1 & Hr1 & Hn1).
    + pose proof (stream_read_data_total r1 (cursor_of data) Hr1 Hn1 Hd Hf) as H.
      destruct (stream_read_data r1 (cursor_of data)) as [[u'|e|q] [r2 is_]]; destruct H as (F & R2 & _ & N2).
      * split; [exact I|]. split; [split; [constructor|exact R2]|]. split; [exact nil_tmp|exact N2].
      * split; [exact I|]. apply dead_okR; [constructor|exact nil_tmp].
      * contradiction.
    + split; [exact I|]. apply dead_okR; assumption.
    + contradiction.
  - split; [exact I|]. split; [split; [exact Ht|rewrite Est; exact I]|]. split; [exact Htl|rewrite Est; exact I].
Qed.
Print Assumptions stream_write_total.

(* <Stream as Write>::flush keeps the invariant *)
Theorem stream_flush_okR s : StInvR s ->
  match stream_flush s with (res, s') => not_panicked res /\ StInvR s' end.
Proof.
  intros [Hs [Htl Hrc]]. pose proof (stream_flush_no_panic s Hs) as H. unfold stream_flush in *.
  destruct (st_state s) as [[k|r]|] eqn:E.
  - split; [exact I|]. split; [exact Hs|]. split; [exact Htl|rewrite E; exact I].
  - destruct (snk_flush (c_snk (rs_out r))) as [u k|e k|q k].
    + destruct H as [_ H]. split; [exact I|]. split; [exact H|]. split; [exact Htl|exact Hrc].
    + split; [exact I|]. split; [exact Hs|]. split; [exact Htl|rewrite E; exact Hrc].
    + destruct H as [H _]. contradiction.
  - split; [exact I|]. split; [exact Hs|]. split; [exact Htl|rewrite E; exact I].
Qed.

(* Stream::finish is total: it only sees the <= 18 staged bytes *)
Theorem stream_finish_total s : StInvR s -> not_panicked (fst (stream_finish s)).
Proof.
  intros [[Ht Hst] [Htl Hrc]]. unfold stream_finish.
  destruct (st_state s) as [[k|r]|]; [destruct (0 <? nlen (st_tmp s)); exact I| |exact I].
  cbn [sstate_ok] in Hst. pose proof Hst as [H1 H2 H3 H4].
  set (processed := if negb (o_allow_incomplete (st_opts s)) then _ else _).
  assert (Hp : not_panicked (fst processed)).
  { unfold processed. destruct (negb (o_allow_incomplete (st_opts s))); [|exact I].
    set (w0 := mkLw (rs_dec r) (rs_rc r) (cursor_of (st_tmp s)) (WCirc (rs_out r))).
    assert (Hw0 : PmInv w0) by (apply PmInv_join; first [assumption|exact Ht]).
    assert (Hphi : PhiL w0 < N.pos big_fuel * DROP).
    { unfold PhiL. cbn [w0 l_ds l_src l_rc cursor_of src_of s_rest]. destruct H3 as [H3 _].
      change (2 ^ 32) with 4294967296 in H3. destruct H2 as [H2 _]. unfold MAX_REQUIRED_INPUT in H2.
      unfold MAX_TMP_LEN in Htl. unfold big_fuel, DROP. lia. }
    pose proof (process_mode_total FinishMode big_fuel w0 Hw0 Hrc Hphi) as Hpm.
    destruct (process_mode FinishMode big_fuel w0) as [[u|e|q] x]; cbn [fst not_panicked]; tauto. }
  clearbody processed. destruct processed as [[u|e|q] c]; cbn [fst not_panicked] in *; try exact I; [|contradiction].
  pose proof (circ_finish_no_panic c) as Hf.
  destruct (circ_finish c) as [[u'|e|q] k]; cbn [fst not_panicked] in *; tauto.
Qed.
Print Assumptions stream_finish_total.

(* ---------- any call sequence ---------- *)
Definition call_small (c : call) : Prop :=
  match c with CWrite d => Bytes d /\ call_fuel (nlen d) | CFlush => True end.
Definition cres_not_panicked (r : cres) : Prop := match r with RW o => not_panicked o | RF o => not_panicked o end.

Theorem stream_calls_total cs : forall s, StInvR s -> Forall call_small cs ->
  Forall cres_not_panicked (fst (run_calls s cs)) /\
  StInvR (snd (run_calls s cs)) /\
  not_panicked (fst (stream_finish (snd (run_calls s cs)))).
Proof.
  induction cs as [|c cs IH]; intros s Hs Hc; cbn [run_calls fst snd].
  - split; [constructor|]. split; [exact Hs|apply stream_finish_total; exact Hs].
  - inversion Hc as [|? ? Hc1 Hc2]; subst.
    assert (H1 : cres_not_panicked (fst (do_call s c)) /\ StInvR (snd (do_call s c))).
    { destruct c as [d|]; cbn [do_call].
      - destruct Hc1 as [Hb Hf]. pose proof (stream_write_total s d Hs Hb Hf) as H.
        destruct (stream_write s d) as [r s']. exact H.
      - pose proof (stream_flush_okR s Hs) as H. destruct (stream_flush s) as [r s']. exact H. }
    destruct (do_call s c) as [r s1]. cbn [fst snd] in H1. destruct H1 as [Hr Hs1].
    specialize (IH s1 Hs1 Hc2). destruct (run_calls s1 cs) as [rs s2]. cbn [fst snd] in *.
    destruct IH as (I1 & I2 & I3). split; [constructor; assumption|split; assumption].
Qed.
Print Assumptions stream_calls_total.

(* from a fresh stream: any sequence of writes of at most 272 671 082 506 180 bytes each, any flushes,
   then finish - no call ever reports a panic (in particular never PFuel 10) *)
Corollary stream_total o k cs :
  Forall (fun c => match c with CWrite d => Bytes d /\ nlen d <= 272671082506180 | CFlush => True end) cs ->
  Forall cres_not_panicked (fst (run_calls (stream_new o k) cs)) /\
  not_panicked (fst (stream_finish (snd (run_calls (stream_new o k) cs)))).
Proof.
  intros Hc.
  assert (Hc' : Forall call_small cs).
  { eapply Forall_impl; [|exact Hc]. intros [d|]; [|exact (fun H => H)]. intros [Hb Hl].
    split; [exact Hb|apply call_fuel_bound; exact Hl]. }
  destruct (stream_calls_total cs (stream_new o k) (stream_new_okR o k) Hc') as (H1 & _ & H3). auto.
Qed.
Print Assumptions stream_total.
