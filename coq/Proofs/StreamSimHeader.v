(* C05, layer L5: the header phase (read_header + RangeDecoder::new) on lists of bytes;
   stream_read_header and the start of lzma_decompress in terms of it. *)
From LZ Require Import Base.Prelude Base.Prog Model.Io Model.Tables Model.LzBuffer Model.RangeDec Model.Lzma Model.Stream.
From LZ Require Import Proofs.ProgLemmas Proofs.IoLemmas.
From LZ Require Import Proofs.StreamSimAbs Proofs.StreamSimSym Proofs.StreamSimBody Proofs.StreamSimMark Proofs.StreamSimCall Proofs.StreamSimLoop Proofs.StreamSimData.
From Coq Require Import ZifyBool ZifyNat ZifyN.
Ltac Zify.zify_post_hook ::= Z.div_mod_to_equations.
Local Open Scope prog_scope.

(* ====================================================================== *)
(* map_io_err on programs that only read                                    *)
(* ====================================================================== *)
Fixpoint readonly {A} (p : iop A) : Prop :=
  match p with
  | Vis o k => match o with FillBuf => True | Consume _ => True | GetPos => True | _ => False end /\ forall x, readonly (k x)
  | _ => True
  end.

Lemma readonly_bind {A B} (p : iop A) (f : A -> iop B) : readonly p -> (forall a, readonly (f a)) -> readonly (bind p f).
Proof. induction p as [a|e|q|X o k IH]; cbn [readonly bind]; auto. intros [Ho Hk] Hf. split; auto. Qed.

Lemma readonly_read_buf n : readonly (read_buf n).
Proof. unfold read_buf. destruct (n =? 0); cbn [bind call readonly]; auto. Qed.

Lemma readonly_read_exact_loop fuel : forall n acc, readonly (read_exact_loop fuel n acc).
Proof.
  induction fuel as [|fuel IH]; intros n acc; cbn [read_exact_loop]; destruct (n =? 0); try exact I.
  apply readonly_bind; [apply readonly_read_buf|]. intros got. destruct got; [exact I|apply IH].
Qed.
Lemma readonly_read_exact n : readonly (read_exact n).
Proof. apply readonly_read_exact_loop. Qed.
Lemma readonly_read_u8 : readonly read_u8.
Proof. unfold read_u8. apply readonly_bind; [apply readonly_read_exact|]. intros [|b [|b' t]]; exact I. Qed.

Lemma readonly_read_header o : readonly (read_header o).
Proof.
  unfold read_header. apply readonly_bind; [apply readonly_read_u8|]. intros pbyte.
  destruct (225 <=? pbyte); [exact I|]. cbv zeta.
  apply readonly_bind; [unfold read_u32_le; apply readonly_bind; [apply readonly_read_exact|intros; exact I]|]. intros dp.
  apply readonly_bind; [|intros; exact I].
  destruct (o_unpacked o); unfold read_u64_le.
  - apply readonly_bind; [apply readonly_bind; [apply readonly_read_exact|intros; exact I]|intros; exact I].
  - apply readonly_bind; [apply readonly_bind; [apply readonly_read_exact|intros; exact I]|intros; exact I].
  - exact I.
Qed.

Lemma readonly_rc_new : readonly rc_new.
Proof.
  unfold rc_new. apply readonly_bind; [apply readonly_read_u8|]. intros _.
  apply readonly_bind; [unfold read_u32_be; apply readonly_bind; [apply readonly_read_exact|intros; exact I]|intros; exact I].
Qed.

Definition map_out {A} (e' : err) (r : outcome A) : outcome A :=
  match r with Failed EIo => Failed e' | r => r end.

Lemma map_io_err_run e' {A} (p : iop A) : readonly p -> forall w, FullVis (i_src w) ->
  interp io_h (map_io_err e' p) w = (map_out e' (fst (interp io_h p w)), snd (interp io_h p w)).
Proof.
  induction p as [a|e|q|X o k IH]; intros Hr w Hw; cbn [map_io_err interp fst snd map_out readonly] in *; try reflexivity.
  - destruct e; reflexivity.
  - destruct Hr as [Ho Hk]. destruct o; try contradiction; cbn [io_h].
    + destruct (src_fill_full _ Hw) as (s' & E & Hs' & _). rewrite E. apply IH; [apply Hk|exact Hs'].
    + apply IH; [apply Hk|]. cbn [i_src]. apply src_consume_full. exact Hw.
    + apply IH; [apply Hk|exact Hw].
Qed.

Lemma map_io_err_src_run e' {A} (p : iop A) s : readonly p -> FullVis s ->
  src_run (map_io_err e' p) s = (map_out e' (fst (src_run p s)), snd (src_run p s)).
Proof.
  intros Hr Hs. unfold src_run, run_io. rewrite (map_io_err_run e' p Hr (mkIo s vec_sink) Hs).
  destruct (interp io_h p (mkIo s vec_sink)) as [r w]. reflexivity.
Qed.

(* ====================================================================== *)
(* The header reads over lists                                              *)
(* ====================================================================== *)
Definition an_read_exact (n : N) : LM (list N) :=
  fun i => if nlen i <? n then (Failed EIo, []) else (Done (nfirstn n i), nskipn n i).

Lemma src_sim_read_exact n : src_sim (read_exact n) (an_read_exact n).
Proof.
  intros s Hs. pose proof (FullVis_FaultFree s Hs) as Hff. unfold an_read_exact.
  destruct (N.ltb_spec (nlen (s_rest s)) n) as [Hlt|Hge]; cbn [fst snd].
  - destruct (io_read_exact_eof s n Hff Hlt) as (s' & Hrun & _ & Hr & Hp).
    exists s'. split; [exact Hrun|]. split; [eapply io_runs_FullVis; eassumption|]. split; [exact Hr|]. rewrite Hr, Hp. cbn. lia.
  - destruct (io_read_exact_spec s (nfirstn n (s_rest s)) (nskipn n (s_rest s)) n Hff) as (s' & Hrun & Hr & Hp & _).
    + symmetry. apply nfirstn_nskipn.
    + rewrite IoLemmas.nlen_nfirstn. lia.
    + exists s'. split; [exact Hrun|]. split; [eapply io_runs_FullVis; eassumption|]. split; [exact Hr|].
      rewrite Hr, Hp, nlen_nskipn. lia.
Qed.

Lemma src_sim_fail {A} e : src_sim (@Fail ioE A e) (mfail e).
Proof. intros s Hs. exists s. unfold mfail. cbn [fst snd]. split; [intros k; reflexivity|]. split; [exact Hs|]. split; reflexivity. Qed.

Definition an_num (n : N) (f : list N -> N) : LM N := mbind (an_read_exact n) (fun bs => mret (f bs)).

Definition an_read_header (o : options) : LM params :=
  mbind an_read (fun pbyte =>
  if 225 <=? pbyte then mfail ELzma else
  let lc_ := pbyte mod 9 in
  let t := pbyte / 9 in
  let lp_ := t mod 5 in
  let pb_ := t / 5 in
  mbind (an_num 4 le_num) (fun dict_provided =>
  let dict := if dict_provided <? 4096 then 4096 else dict_provided in
  mbind (match o_unpacked o with
         | ReadFromHeader => mbind (an_num 8 le_num) (fun v => mret (if v =? 18446744073709551615 then None else Some v))
         | ReadHeaderButUseProvided x => mbind (an_num 8 le_num) (fun _ => mret x)
         | UseProvided x => mret x
         end) (fun us =>
  mret (mkParams (mkProps lc_ lp_ pb_) dict us)))).

Definition an_rc_new : LM rc :=
  mbind an_read (fun _ => mbind (an_num 4 be_num) (fun code => mret (mkRc 4294967295 code))).

Lemma sim_read_header o : src_sim (read_header o) (an_read_header o).
Proof.
  unfold read_header, an_read_header. apply src_sim_bind; [apply src_sim_read_u8|]. intros pbyte.
  destruct (225 <=? pbyte); [apply src_sim_fail|]. cbv zeta.
  apply src_sim_bind; [unfold read_u32_le, an_num; apply src_sim_bind; [apply src_sim_read_exact|intros; apply src_sim_ret]|].
  intros dp. apply src_sim_bind; [|intros; apply src_sim_ret].
  destruct (o_unpacked o); unfold read_u64_le, an_num.
  - apply src_sim_bind; [apply src_sim_bind; [apply src_sim_read_exact|intros; apply src_sim_ret]|intros; apply src_sim_ret].
  - apply src_sim_bind; [apply src_sim_bind; [apply src_sim_read_exact|intros; apply src_sim_ret]|intros; apply src_sim_ret].
  - apply src_sim_ret.
Qed.

Lemma sim_rc_new : src_sim rc_new an_rc_new.
Proof.
  unfold rc_new, an_rc_new. apply src_sim_bind; [apply src_sim_read_u8|]. intros _.
  apply src_sim_bind; [unfold read_u32_be, an_num; apply src_sim_bind; [apply src_sim_read_exact|intros; apply src_sim_ret]|].
  intros code. apply src_sim_ret.
Qed.

(* ====================================================================== *)
(* Properties of list readers                                               *)
(* ====================================================================== *)
(* prefix stability, allowing failures that are not the end of the input *)
Definition LMx {A} (m : LM A) : Prop :=
  forall i more, match m i with
                 | (Failed e, i') => (e = EIo /\ i' = []) \/ m (i ++ more) = (Failed e, i' ++ more)
                 | (r, i') => m (i ++ more) = (r, i' ++ more)
                 end.
(* never panics; consumes at most k bytes; cannot hit the end when k bytes are there *)
Definition LMb {A} (m : LM A) (k : N) : Prop :=
  forall i, (forall q, fst (m i) <> Panicked q) /\ (k <= nlen i -> fst (m i) <> Failed EIo) /\ nlen i <= nlen (snd (m i)) + k.

Lemma LMx_ret {A} (a : A) : LMx (mret a). Proof. intros i more. reflexivity. Qed.
Lemma LMx_fail {A} e : LMx (@mfail _ A e). Proof. intros i more. right. reflexivity. Qed.
Lemma LMx_bind {A B} (m : LM A) (g : A -> LM B) : LMx m -> (forall a, LMx (g a)) -> LMx (mbind m g).
Proof.
  intros Hm Hg i more. unfold mbind. specialize (Hm i more).
  destruct (m i) as [[a|e|q] i1].
  - rewrite Hm. apply Hg.
  - destruct Hm as [Hm|Hm]; [left; exact Hm|right; rewrite Hm; reflexivity].
  - rewrite Hm. reflexivity.
Qed.
Lemma LMx_read : LMx an_read.
Proof. intros [|b t] more; cbn [an_read app]; [left; split; reflexivity|reflexivity]. Qed.
Lemma LMx_read_exact n : LMx (an_read_exact n).
Proof.
  intros i more. unfold an_read_exact. destruct (N.ltb_spec (nlen i) n) as [Hlt|Hge]; [left; split; reflexivity|].
  rewrite nlen_app. destruct (N.ltb_spec (nlen i + nlen more) n) as [|_]; [lia|].
  rewrite nfirstn_app_le, nskipn_app_le by exact Hge. reflexivity.
Qed.

Lemma LMb_ret {A} (a : A) : LMb (mret a) 0.
Proof. intros i. unfold mret. cbn [fst snd]. repeat split; try discriminate. lia. Qed.
Lemma LMb_fail {A} e : e <> EIo -> LMb (@mfail _ A e) 0.
Proof. intros He i. unfold mfail. cbn [fst snd]. repeat split; try discriminate; [congruence|lia]. Qed.
Lemma LMb_weaken {A} (m : LM A) k k' : LMb m k -> k <= k' -> LMb m k'.
Proof. intros H Hk i. destruct (H i) as (H1 & H2 & H3). repeat split; [exact H1|intros; apply H2; lia|lia]. Qed.
Lemma LMb_bind {A B} (m : LM A) (g : A -> LM B) k1 k2 : LMb m k1 -> (forall a, LMb (g a) k2) -> LMb (mbind m g) (k1 + k2).
Proof.
  intros Hm Hg i. unfold mbind. destruct (Hm i) as (M1 & M2 & M3).
  destruct (m i) as [[a|e|q] i1]; cbn [fst snd] in *.
  - destruct (Hg a i1) as (G1 & G2 & G3). repeat split; [exact G1| |lia]. intros Hk. apply G2. lia.
  - repeat split; [discriminate| |lia]. intros Hk E. inversion E; subst. apply M2; [lia|reflexivity].
  - exfalso. eapply M1. reflexivity.
Qed.
Lemma LMb_read : LMb an_read 1.
Proof.
  intros [|b t]; cbn [an_read fst snd].
  - split; [discriminate|]. split; [intros H; cbn in H; lia|cbn; lia].
  - split; [discriminate|]. split; [discriminate|rewrite nlen_cons; lia].
Qed.
Lemma LMb_read_exact n : LMb (an_read_exact n) n.
Proof.
  intros i. unfold an_read_exact. destruct (N.ltb_spec (nlen i) n) as [Hlt|Hge]; cbn [fst snd].
  - split; [discriminate|]. split; [intros H; lia|cbn; lia].
  - split; [discriminate|]. split; [discriminate|rewrite nlen_nskipn; lia].
Qed.
Lemma LMsuffix_read_exact n : LMsuffix (an_read_exact n).
Proof.
  intros i. unfold an_read_exact. destruct (_ <? _); cbn [snd].
  - exists i. rewrite app_nil_r. reflexivity.
  - exists (nfirstn n i). symmetry. apply nfirstn_nskipn.
Qed.
Lemma LMsuffix_fail {A} e : LMsuffix (@mfail _ A e). Proof. intros i. apply suffix_refl. Qed.

Lemma num_props n f : LMx (an_num n f) /\ LMb (an_num n f) n /\ LMsuffix (an_num n f).
Proof.
  unfold an_num. split; [|split].
  - apply LMx_bind; [apply LMx_read_exact|intros; apply LMx_ret].
  - replace n with (n + 0) at 2 by lia. apply LMb_bind; [apply LMb_read_exact|intros; apply LMb_ret].
  - apply LMsuffix_bind; [apply LMsuffix_read_exact|intros; apply LMsuffix_ret].
Qed.

Lemma read_header_props o : LMx (an_read_header o) /\ LMb (an_read_header o) 13 /\ LMsuffix (an_read_header o).
Proof.
  unfold an_read_header. split; [|split].
  - apply LMx_bind; [apply LMx_read|]. intros pb. destruct (225 <=? pb); [apply LMx_fail|]. cbv zeta.
    apply LMx_bind; [apply num_props|]. intros dp. apply LMx_bind; [|intros; apply LMx_ret].
    destruct (o_unpacked o); [apply LMx_bind; [apply num_props|intros; apply LMx_ret]|apply LMx_bind; [apply num_props|intros; apply LMx_ret]|apply LMx_ret].
  - change 13 with (1 + (4 + (8 + 0))). apply LMb_bind; [apply LMb_read|]. intros pb.
    destruct (225 <=? pb); [apply (LMb_weaken _ 0); [apply LMb_fail; discriminate|lia]|]. cbv zeta.
    apply LMb_bind; [apply num_props|]. intros dp. apply LMb_bind; [|intros; apply LMb_ret].
    destruct (o_unpacked o).
    + replace 8 with (8 + 0) by lia. apply LMb_bind; [apply num_props|intros; apply LMb_ret].
    + replace 8 with (8 + 0) by lia. apply LMb_bind; [apply num_props|intros; apply LMb_ret].
    + apply (LMb_weaken _ 0); [apply LMb_ret|lia].
  - apply LMsuffix_bind; [apply LMsuffix_read|]. intros pb. destruct (225 <=? pb); [apply LMsuffix_fail|]. cbv zeta.
    apply LMsuffix_bind; [apply num_props|]. intros dp. apply LMsuffix_bind; [|intros; apply LMsuffix_ret].
    destruct (o_unpacked o); [apply LMsuffix_bind; [apply num_props|intros; apply LMsuffix_ret]|apply LMsuffix_bind; [apply num_props|intros; apply LMsuffix_ret]|apply LMsuffix_ret].
Qed.

Lemma rc_new_props : LMx an_rc_new /\ LMb an_rc_new 5 /\ LMsuffix an_rc_new.
Proof.
  unfold an_rc_new. split; [|split].
  - apply LMx_bind; [apply LMx_read|]. intros _. apply LMx_bind; [apply num_props|intros; apply LMx_ret].
  - change 5 with (1 + (4 + 0)). apply LMb_bind; [apply LMb_read|]. intros _. apply LMb_bind; [apply num_props|intros; apply LMb_ret].
  - apply LMsuffix_bind; [apply LMsuffix_read|]. intros _. apply LMsuffix_bind; [apply num_props|intros; apply LMsuffix_ret].
Qed.

(* ====================================================================== *)
(* The header as a function of the bytes                                    *)
(* ====================================================================== *)
Inductive hres := HShort | HBad | HGood (p : params) (r : rc) (rest : list N).

Definition ahdr (o : options) (i : list N) : hres :=
  match an_read_header o i with
  | (Done p, i1) => match an_rc_new i1 with (Done r, i2) => HGood p r i2 | _ => HShort end
  | (Failed ELzma, _) => HBad
  | _ => HShort
  end.

Lemma read_header_fail o i e : fst (an_read_header o i) = Failed e -> e = EIo \/ e = ELzma.
Proof.
  unfold an_read_header, an_num, mbind, mret, mfail, an_read, an_read_exact. destruct i as [|pb i0]; cbn [fst]; [intros E; inversion E; auto|].
  destruct (225 <=? pb); cbn [fst]; [intros E; inversion E; auto|].
  destruct (nlen i0 <? 4); cbn [fst]; [intros E; inversion E; auto|].
  destruct (o_unpacked o); try (destruct (nlen (nskipn 4 i0) <? 8)); cbn [fst]; intros E; inversion E; auto.
Qed.

Lemma rc_new_fail i e : fst (an_rc_new i) = Failed e -> e = EIo.
Proof.
  unfold an_rc_new, an_num, mbind, mret, an_read, an_read_exact. destruct i as [|b i0]; cbn [fst]; [intros E; inversion E; auto|].
  destruct (nlen i0 <? 4); cbn [fst]; intros E; inversion E; auto.
Qed.

Lemma ahdr_ext_good o i more p r rest : ahdr o i = HGood p r rest -> ahdr o (i ++ more) = HGood p r (rest ++ more).
Proof.
  unfold ahdr. destruct (read_header_props o) as (X & _). specialize (X i more).
  destruct (an_read_header o i) as [[p0|e|q] i1]; [|destruct e; discriminate|discriminate].
  rewrite X. destruct rc_new_props as (Y & _). specialize (Y i1 more).
  destruct (an_rc_new i1) as [[r0|e|q] i2]; try discriminate. rewrite Y. intros E. inversion E; subst. reflexivity.
Qed.

Lemma ahdr_ext_bad o i more : ahdr o i = HBad -> ahdr o (i ++ more) = HBad.
Proof.
  unfold ahdr. destruct (read_header_props o) as (X & _). specialize (X i more).
  destruct (an_read_header o i) as [[p0|e|q] i1]; [destruct (an_rc_new i1) as [[r0|e|q] i2]; discriminate| |discriminate].
  destruct e; try discriminate. destruct X as [[X _]|X]; [discriminate|]. rewrite X. reflexivity.
Qed.

Lemma ahdr_short_len o i : ahdr o i = HShort -> nlen i < 18.
Proof.
  unfold ahdr. intros H. destruct (N.lt_ge_cases (nlen i) 18) as [|Hge]; [assumption|exfalso].
  destruct (read_header_props o) as (_ & B & _). destruct (B i) as (B1 & B2 & B3).
  pose proof (read_header_fail o i) as F.
  destruct (an_read_header o i) as [[p0|e|q] i1]; cbn [fst snd] in *.
  - destruct rc_new_props as (_ & C & _). destruct (C i1) as (C1 & C2 & C3).
    pose proof (rc_new_fail i1) as G.
    destruct (an_rc_new i1) as [[r0|e|q] i2]; cbn [fst snd] in *; try discriminate.
    + specialize (G e eq_refl). subst e. apply C2; [lia|reflexivity].
    + eapply C1. reflexivity.
  - destruct (F e eq_refl) as [->| ->]; [|discriminate]. apply B2; [lia|reflexivity].
  - eapply B1. reflexivity.
Qed.

Lemma ahdr_good_suffix o i p r rest : ahdr o i = HGood p r rest -> suffix_of rest i.
Proof.
  unfold ahdr. destruct (read_header_props o) as (_ & _ & S). specialize (S i).
  destruct (an_read_header o i) as [[p0|e|q] i1]; [|destruct e; discriminate|discriminate]. cbn [snd] in S.
  destruct rc_new_props as (_ & _ & T). specialize (T i1).
  destruct (an_rc_new i1) as [[r0|e|q] i2]; try discriminate. cbn [snd] in T. intros E. inversion E; subst.
  eapply suffix_trans; eassumption.
Qed.

(* numerals *)
Definition bytes (l : list N) : Prop := Forall (fun b => b < 256) l.

Lemma le_num_lt l : bytes l -> le_num l < 256 ^ nlen l.
Proof.
  induction 1 as [|b t Hb Ht IH]; [cbn; lia|]. cbn [le_num]. rewrite nlen_cons, N.pow_add_r. change (256 ^ 1) with 256.
  set (q := 256 ^ nlen t) in *. clearbody q. lia.
Qed.

Lemma be_num_acc_lt l : forall acc k, bytes l -> acc < 256 ^ k -> be_num_acc acc l < 256 ^ (k + nlen l).
Proof.
  induction l as [|b t IH]; intros acc k Hb Ha; cbn [be_num_acc].
  - rewrite N.add_0_r. exact Ha.
  - inversion Hb; subst. rewrite nlen_cons. replace (k + (nlen t + 1)) with ((k + 1) + nlen t) by lia.
    apply IH; [assumption|]. rewrite N.pow_add_r. change (256 ^ 1) with 256. set (q := 256 ^ k) in *. clearbody q. lia.
Qed.

Lemma bytes_firstn n l : bytes l -> bytes (nfirstn n l).
Proof. intros H. rewrite <- (nfirstn_nskipn n l) in H. apply Forall_app in H. apply H. Qed.
Lemma bytes_skipn n l : bytes l -> bytes (nskipn n l).
Proof. intros H. rewrite <- (nfirstn_nskipn n l) in H. apply Forall_app in H. apply H. Qed.

Lemma ahdr_good_facts o i p r rest : ahdr o i = HGood p r rest ->
  props_valid (pr_props p) = true /\ 4096 <= pr_dict p /\
  (bytes i -> pr_dict p < 4294967296 /\ r_range r = 4294967295 /\ r_code r < 4294967296).
Proof.
  unfold ahdr, an_read_header, an_rc_new, an_num, mbind, mret, mfail, an_read, an_read_exact.
  destruct i as [|pby i0]; [discriminate|].
  destruct (N.leb_spec 225 pby) as [|Hpb]; [discriminate|]. cbv zeta.
  destruct (N.ltb_spec (nlen i0) 4) as [|H4]; [discriminate|].
  set (dp := le_num (nfirstn 4 i0)).
  set (dict := if dp <? 4096 then 4096 else dp).
  assert (Hdict : 4096 <= dict) by (unfold dict; destruct (N.ltb_spec dp 4096); lia).
  assert (Hprops : props_valid (mkProps (pby mod 9) (pby / 9 mod 5) (pby / 9 / 5)) = true).
  { unfold props_valid. cbn [lc lp pb].
    destruct (N.leb_spec (pby mod 9) 8); [|lia]. destruct (N.leb_spec (pby / 9 mod 5) 4); [|lia].
    destruct (N.leb_spec (pby / 9 / 5) 4); [reflexivity|lia]. }
  assert (Hdp : bytes (pby :: i0) -> dict < 4294967296).
  { intros Hb. inversion Hb; subst. pose proof (le_num_lt (nfirstn 4 i0) (bytes_firstn 4 i0 ltac:(assumption))) as L.
    rewrite IoLemmas.nlen_nfirstn in L. replace (N.min 4 (nlen i0)) with 4 in L by lia. change (256 ^ 4) with 4294967296 in L.
    fold dp in L. unfold dict. destruct (N.ltb_spec dp 4096); lia. }
  assert (Hrc : forall j r0 rest0, bytes j ->
     (match j with
      | [] => (@Failed rc EIo, [])
      | _ :: t => if nlen t <? 4 then (Failed EIo, []) else (Done (mkRc 4294967295 (be_num (nfirstn 4 t))), nskipn 4 t)
      end) = (Done r0, rest0) -> r_range r0 = 4294967295 /\ r_code r0 < 4294967296).
  { intros j r0 rest0 Hb. destruct j as [|b0 t]; [discriminate|]. destruct (N.ltb_spec (nlen t) 4); [discriminate|].
    intros E. inversion E; subst. cbn [r_range r_code]. split; [reflexivity|].
    inversion Hb; subst. pose proof (be_num_acc_lt (nfirstn 4 t) 0 0 (bytes_firstn 4 t ltac:(assumption)) ltac:(cbn; lia)) as L.
    rewrite IoLemmas.nlen_nfirstn in L. replace (N.min 4 (nlen t)) with 4 in L by lia. exact L. }
  destruct (o_unpacked o) as [|x|x].
  - destruct (N.ltb_spec (nlen (nskipn 4 i0)) 8); [discriminate|].
    match goal with |- context [match ?j with [] => (Failed EIo, []) | _ :: _ => _ end] => set (jj := j) end.
    specialize (Hrc jj).
    destruct jj as [|b0 t] eqn:Ej; [discriminate|]. destruct (N.ltb_spec (nlen t) 4); [discriminate|].
    intros E. inversion E; subst. cbn [pr_props pr_dict]. split; [exact Hprops|]. split; [exact Hdict|].
    intros Hb. split; [apply Hdp; exact Hb|]. cbn [r_range r_code]. split; [reflexivity|].
    assert (Hbj : bytes (b0 :: t)) by (rewrite <- Ej; unfold jj; inversion Hb; subst; apply bytes_skipn, bytes_skipn; assumption).
    destruct (Hrc _ _ Hbj eq_refl) as [_ X]. exact X.
  - destruct (N.ltb_spec (nlen (nskipn 4 i0)) 8); [discriminate|].
    match goal with |- context [match ?j with [] => (Failed EIo, []) | _ :: _ => _ end] => set (jj := j) end.
    specialize (Hrc jj).
    destruct jj as [|b0 t] eqn:Ej; [discriminate|]. destruct (N.ltb_spec (nlen t) 4); [discriminate|].
    intros E. inversion E; subst. cbn [pr_props pr_dict]. split; [exact Hprops|]. split; [exact Hdict|].
    intros Hb. split; [apply Hdp; exact Hb|]. cbn [r_range r_code]. split; [reflexivity|].
    assert (Hbj : bytes (b0 :: t)) by (rewrite <- Ej; unfold jj; inversion Hb; subst; apply bytes_skipn, bytes_skipn; assumption).
    destruct (Hrc _ _ Hbj eq_refl) as [_ X]. exact X.
  - match goal with |- context [match ?j with [] => (Failed EIo, []) | _ :: _ => _ end] => set (jj := j) end.
    specialize (Hrc jj).
    destruct jj as [|b0 t] eqn:Ej; [discriminate|]. destruct (N.ltb_spec (nlen t) 4); [discriminate|].
    intros E. inversion E; subst. cbn [pr_props pr_dict]. split; [exact Hprops|]. split; [exact Hdict|].
    intros Hb. split; [apply Hdp; exact Hb|]. cbn [r_range r_code]. split; [reflexivity|].
    assert (Hbj : bytes (b0 :: t)) by (rewrite <- Ej; unfold jj; inversion Hb; subst; apply bytes_skipn; assumption).
    destruct (Hrc _ _ Hbj eq_refl) as [_ X]. exact X.
Qed.

Lemma read_header_valid o i p i1 : an_read_header o i = (Done p, i1) -> props_valid (pr_props p) = true /\ 4096 <= pr_dict p.
Proof.
  unfold an_read_header, an_num, mbind, mret, mfail, an_read, an_read_exact.
  destruct i as [|pby i0]; [discriminate|].
  destruct (N.leb_spec 225 pby) as [|Hpb]; [discriminate|]. cbv zeta.
  destruct (N.ltb_spec (nlen i0) 4) as [|H4]; [discriminate|].
  assert (Hprops : props_valid (mkProps (pby mod 9) (pby / 9 mod 5) (pby / 9 / 5)) = true).
  { unfold props_valid. cbn [lc lp pb].
    destruct (N.leb_spec (pby mod 9) 8); [|lia]. destruct (N.leb_spec (pby / 9 mod 5) 4); [|lia].
    destruct (N.leb_spec (pby / 9 / 5) 4); [reflexivity|lia]. }
  set (dp := le_num (nfirstn 4 i0)).
  assert (Hdict : 4096 <= (if dp <? 4096 then 4096 else dp)) by (destruct (N.ltb_spec dp 4096); lia).
  destruct (o_unpacked o); try (destruct (N.ltb_spec (nlen (nskipn 4 i0)) 8); [discriminate|]);
    intros E; inversion E; subst; cbn [pr_props pr_dict]; split; assumption.
Qed.

(* ====================================================================== *)
(* stream_read_header and the start of lzma_decompress                      *)
(* ====================================================================== *)
Definition memlim (o : options) : N := match o_memlimit o with Some m => m | None => USIZE - 1 end.

Lemma read_header_run e' o s : FullVis s ->
  exists s', src_run (map_io_err e' (read_header o)) s = (map_out e' (fst (an_read_header o (s_rest s))), s') /\
     FullVis s' /\ s_rest s' = snd (an_read_header o (s_rest s)) /\ s_pos s' + nlen (s_rest s') = s_pos s + nlen (s_rest s).
Proof.
  intros Hs. rewrite (map_io_err_src_run e' _ s (readonly_read_header o) Hs).
  destruct (src_sim_src_run _ _ s (sim_read_header o) Hs) as (s' & E & R). rewrite E. cbn [fst snd]. exists s'. split; [reflexivity|exact R].
Qed.

Lemma rc_new_run s : FullVis s ->
  exists s', src_run rc_new s = (fst (an_rc_new (s_rest s)), s') /\
     FullVis s' /\ s_rest s' = snd (an_rc_new (s_rest s)) /\ s_pos s' + nlen (s_rest s') = s_pos s + nlen (s_rest s).
Proof. intros Hs. apply (src_sim_src_run _ _ s sim_rc_new Hs). Qed.

Lemma rc_new_run_mapped e' s : FullVis s ->
  exists s', src_run (map_io_err e' rc_new) s = (map_out e' (fst (an_rc_new (s_rest s))), s') /\
     FullVis s' /\ s_rest s' = snd (an_rc_new (s_rest s)) /\ s_pos s' + nlen (s_rest s') = s_pos s + nlen (s_rest s).
Proof.
  intros Hs. rewrite (map_io_err_src_run e' _ s readonly_rc_new Hs).
  destruct (rc_new_run s Hs) as (s' & E & R). rewrite E. cbn [fst snd]. exists s'. split; [reflexivity|exact R].
Qed.

Lemma dstate_new_valid p us : props_valid p = true ->
  dstate_new p us = (Done (mkDstate [] p us (ptabs_new (N.shiftl 1 (lc p + lp p))) 0 (mkReps 0 0 0 0)), tt).
Proof. intros H. unfold dstate_new. rewrite H. reflexivity. Qed.

Theorem stream_read_header_abs k s o : FullVis s ->
  match ahdr o (s_rest s) with
  | HShort => fst (stream_read_header k s o) = Done (SHeader k)
  | HBad => fst (stream_read_header k s o) = Failed ELzma
  | HGood p r rest => exists d, dstate_new (pr_props p) (pr_unpacked p) = (Done d, tt) /\
       fst (stream_read_header k s o) = Done (SData (mkRun d r (circ_new k (pr_dict p) (memlim o)))) /\
       s_pos (snd (stream_read_header k s o)) + nlen rest = s_pos s + nlen (s_rest s)
  end.
Proof.
  intros Hs. unfold stream_read_header, ahdr.
  destruct (read_header_run EHeaderTooShort o s Hs) as (s1 & E1 & Hs1 & Hr1 & Hp1). rewrite E1.
  destruct (read_header_props o) as (_ & B & _). destruct (B (s_rest s)) as (B1 & _ & _).
  pose proof (read_header_fail o (s_rest s)) as F.
  pose proof (read_header_valid o (s_rest s)) as V.
  destruct (an_read_header o (s_rest s)) as [[p|e|q] i1]; cbn [fst snd map_out] in *.
  - destruct (V p i1 eq_refl) as [Vp Vd]. rewrite (dstate_new_valid _ (pr_unpacked p) Vp).
    destruct (rc_new_run s1 Hs1) as (s2 & E2 & Hs2 & Hr2 & Hp2). rewrite E2, Hr1.
    destruct rc_new_props as (_ & C & _). destruct (C i1) as (C1 & _ & _). rewrite Hr1 in Hr2, Hp2.
    destruct (an_rc_new i1) as [[r|e|q] i2]; cbn [fst snd] in *.
    + eexists. split; [apply dstate_new_valid; exact Vp|]. split; [reflexivity|]. rewrite Hr1 in Hp1. rewrite Hr2 in Hp2. lia.
    + reflexivity.
    + exfalso. eapply C1. reflexivity.
  - destruct (F e eq_refl) as [->| ->]; reflexivity.
  - exfalso. eapply B1. reflexivity.
Qed.
Print Assumptions stream_read_header_abs.

(* the one-shot decoder up to the data loop *)
Theorem oneshot_abs F o k bs : nlen bs <= BIG ->
  match ahdr o bs with
  | HShort | HBad => is_failed (fst (lzma_decompress F o (mkIo (cursor_of bs) k)))
  | HGood p r rest => exists d, dstate_new (pr_props p) (pr_unpacked p) = (Done d, tt) /\
      forall res A' c, aprocess FinishMode F (mkAst d r (WCirc (circ_new k (pr_dict p) (memlim o))) rest) = (res, A') ->
        x_win A' = WCirc c ->
        (fst (lzma_decompress F o (mkIo (cursor_of bs) k)), i_snk (snd (lzma_decompress F o (mkIo (cursor_of bs) k)))) =
        match res with
        | Done _ => circ_finish c
        | Failed e => (Failed e, c_snk c)
        | Panicked q => (Panicked q, c_snk c)
        end
  end.
Proof.
  intros Hl. pose proof (cursor_FullVis bs Hl) as Hs.
  unfold lzma_decompress, ahdr. cbn [i_src i_snk].
  destruct (read_header_run EHeaderTooShort o (cursor_of bs) Hs) as (s1 & E1 & Hs1 & Hr1 & Hp1). rewrite E1.
  change (s_rest (cursor_of bs)) with bs in *.
  destruct (read_header_props o) as (_ & B & _). destruct (B bs) as (B1 & _ & _).
  pose proof (read_header_fail o bs) as Fh.
  pose proof (read_header_valid o bs) as V.
  destruct (an_read_header o bs) as [[p|e|q] i1]; cbn [fst snd map_out] in *.
  - destruct (V p i1 eq_refl) as [Vp Vd].
    unfold lzma_decoder_new. destruct (N.eqb_spec (pr_dict p) 0) as [|_]; [lia|].
    rewrite (dstate_new_valid _ (pr_unpacked p) Vp).
    unfold lzma_decoder_decompress. cbn [i_src i_snk ld_params ld_memlimit ld_state].
    destruct (rc_new_run_mapped ELzma s1 Hs1) as (s2 & E2 & Hs2 & Hr2 & Hp2). rewrite E2, Hr1.
    destruct rc_new_props as (_ & C & _). destruct (C i1) as (C1 & _ & _). rewrite Hr1 in Hr2, Hp2.
    pose proof (rc_new_fail i1) as Fr.
    destruct (an_rc_new i1) as [[r|e|q] i2]; cbn [fst snd map_out] in *.
    + eexists. split; [apply dstate_new_valid; exact Vp|]. intros res A' c EP Ew.
      set (W0 := mkLw _ r s2 _).
      assert (HA : lw_abs (s_pos s2 + nlen i2) W0
                     (mkAst (mkDstate [] (pr_props p) (pr_unpacked p) (ptabs_new (N.shiftl 1 (lc (pr_props p) + lp (pr_props p)))) 0 (mkReps 0 0 0 0))
                            r (WCirc (circ_new k (pr_dict p) (memlim o))) i2)).
      { unfold lw_abs, W0, memlim. cbn [l_ds l_rc l_win l_src x_ds x_rc x_win x_in].
        split; [reflexivity|]. split; [reflexivity|]. split; [reflexivity|]. split; [exact Hs2|]. split; [exact Hr2|reflexivity]. }
      destruct (process_mode_abs FinishMode F _ _ _ HA) as [Fp Rp]. rewrite EP in Fp, Rp. cbn [fst snd] in Fp, Rp.
      destruct (process_mode FinishMode F W0) as [res0 x]. cbn [fst snd] in *. subst res0.
      destruct Rp as (_ & _ & Hw & _). rewrite Ew in Hw.
      destruct res as [u|e|q]; rewrite Hw; cbn [win_snk].
      * destruct (circ_finish c) as [[[]|e|q] k']; reflexivity.
      * reflexivity.
      * reflexivity.
    + specialize (Fr e eq_refl). subst e. exact I.
    + exfalso. eapply C1. reflexivity.
  - destruct (Fh e eq_refl) as [->| ->]; exact I.
  - exfalso. eapply B1. reflexivity.
Qed.
Print Assumptions oneshot_abs.
