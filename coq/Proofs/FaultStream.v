(* C12 for the streaming decoder (decode/stream.rs), goals A2 and A3:
   instances of the relational pass of Proofs/FaultStreamRel.v.

   A2  a Stream over an arbitrary sink (short writes, a failing write call, a failing
       flush) against a Stream over a well-behaved sink (never failing; any acceptance
       policy, e.g. accept-all) driven by the same calls: lock step until the call in
       which the write fault is hit, which returns Failed EIo; at every moment the
       bytes accepted by the faulty sink are a prefix of those accepted by the other.
   A3  two sinks that never fail on write (any two acceptance policies, e.g. one byte
       per call against accept-all) and agree on flush: identical verdicts, identical
       bytes, identical flush counts - the runs differ in the call counters only. *)
From LZ Require Import Base.Prelude Base.Prog Model.Io Model.Tables Model.LzBuffer Model.RangeDec
  Model.Lzma Model.Stream Proofs.ProgLemmas Proofs.IoLemmas Proofs.StreamLatch Proofs.StreamPrefix
  Proofs.FaultProp Proofs.FaultTheorems Proofs.MemLimitRun Proofs.FaultStreamRel.
Local Open Scope prog_scope.

(* ====================================================================== *)
(* Write::write_all on an arbitrary sink                                    *)
(* ====================================================================== *)
(* the switches and counters that a write never changes *)
Definition same_knobs (k k' : snk) : Prop :=
  k_accept k' = k_accept k /\ k_wfail k' = k_wfail k /\ k_flushes k' = k_flushes k /\ k_ffail k' = k_ffail k.

Lemma rev_append_app {A} (a b o : list A) : rev_append (a ++ b) o = rev_append b (rev_append a o).
Proof. revert o. induction a as [|x a IH]; intros o; cbn [app rev_append]; [reflexivity|apply IH]. Qed.

(* write_all either accepts everything (in one or many calls), or stops with Failed EIo at the
   failing call, having accepted a prefix *)
Lemma write_all_loop_shape fuel : forall bs s k r w', (length bs <= fuel)%nat ->
  interp io_h (write_all_loop fuel bs) (mkIo s k) = (r, w') ->
  exists pre post k', w' = mkIo s k' /\ bs = pre ++ post /\
    k_out k' = rev_append pre (k_out k) /\ k_count k' = k_count k + nlen pre /\ same_knobs k k' /\
    ((r = Done tt /\ post = [] /\ (snk_hit k = false -> snk_hit k' = false)) \/
     (r = Failed EIo /\ k_wfail k <> None)).
Proof.
  induction fuel as [|f IH]; intros bs s k r w' Hlen E.
  - destruct bs as [|b t]; [|cbn [length] in Hlen; lia]. cbn [write_all_loop interp] in E. inversion E; subst.
    exists [], [], k. split; [reflexivity|]. split; [reflexivity|]. split; [reflexivity|].
    split; [rewrite nlen_nil; lia|]. split; [repeat split|]. left. auto.
  - destruct bs as [|b t].
    + cbn [write_all_loop interp] in E. inversion E; subst.
      exists [], [], k. split; [reflexivity|]. split; [reflexivity|]. split; [reflexivity|].
      split; [rewrite nlen_nil; lia|]. split; [repeat split|]. left. auto.
    + cbn [write_all_loop] in E. rewrite interp_bind, interp_call in E. cbn [io_h i_snk i_src] in E.
      unfold snk_write in E.
      destruct (match k_wfail k with Some j => j =? k_calls k | None => false end) eqn:Ew.
      * inversion E; subst. eexists [], (b :: t), _. split; [reflexivity|]. split; [reflexivity|].
        cbn [k_out k_count rev_append]. split; [reflexivity|]. split; [rewrite nlen_nil; lia|].
        split; [repeat split|]. right. split; [reflexivity|]. destruct (k_wfail k); [discriminate|discriminate Ew].
      * cbv zeta in E.
        set (n := nmin_len (N.max 1 (k_accept k (k_calls k))) (b :: t)) in *.
        assert (Hn : 1 <= n <= nlen (b :: t)) by (unfold n; rewrite nmin_len_spec, nlen_cons; lia).
        clearbody n.
        destruct (N.eqb_spec n 0) as [Hz|_]; [lia|].
        set (k1 := mkSnk _ _ _ _ _ _ _) in E.
        apply IH in E.
        2:{ unfold nskipn. rewrite skipn_length. unfold nlen in Hn. lia. }
        destruct E as (pre & post & k' & Ew' & Ebs & Hout & Hcnt & Hkn & Hcase).
        exists (nfirstn n (b :: t) ++ pre), post, k'. split; [exact Ew'|].
        split; [rewrite <- app_assoc, <- Ebs, nfirstn_nskipn; reflexivity|].
        split; [rewrite Hout, rev_append_app; reflexivity|].
        split; [rewrite Hcnt, nlen_app, nlen_nfirstn; unfold k1; cbn [k_count]; lia|].
        split; [destruct Hkn as (A1 & A2 & A3 & A4); unfold k1 in *; cbn [k_accept k_wfail k_flushes k_ffail] in *; repeat split; assumption|].
        destruct Hcase as [(Hr & Hp & Hh)|(Hr & Hw)]; [left|right; split; [exact Hr|exact Hw]].
        split; [exact Hr|]. split; [exact Hp|]. intros H0. apply Hh.
        unfold snk_hit in *. unfold k1. cbn [k_wfail k_calls].
        destruct (k_wfail k) as [j|]; [|reflexivity].
        apply N.ltb_ge. apply N.ltb_ge in H0. apply N.eqb_neq in Ew. lia.
Qed.

Lemma snk_run_write_all_shape bs k :
  exists pre post, bs = pre ++ post /\
    k_out (snd (snk_run (write_all bs) k)) = rev_append pre (k_out k) /\
    k_count (snd (snk_run (write_all bs) k)) = k_count k + nlen pre /\
    same_knobs k (snd (snk_run (write_all bs) k)) /\
    ((fst (snk_run (write_all bs) k) = Done tt /\ post = [] /\
      (snk_hit k = false -> snk_hit (snd (snk_run (write_all bs) k)) = false)) \/
     (fst (snk_run (write_all bs) k) = Failed EIo /\ k_wfail k <> None)).
Proof.
  unfold snk_run, run_io, write_all.
  destruct (interp io_h (write_all_loop (length bs) bs) (mkIo (cursor_of []) k)) as [r w'] eqn:E.
  apply write_all_loop_shape in E; [|apply le_n].
  destruct E as (pre & post & k' & -> & Ebs & Hout & Hcnt & Hkn & Hcase).
  exists pre, post. cbn [fst snd i_snk]. repeat split; try assumption; apply Hkn.
Qed.

(* a sink that never fails on write takes everything *)
Lemma snk_run_write_all_total bs k : k_wfail k = None ->
  fst (snk_run (write_all bs) k) = Done tt /\
  k_out (snd (snk_run (write_all bs) k)) = rev_append bs (k_out k) /\
  k_count (snd (snk_run (write_all bs) k)) = k_count k + nlen bs /\
  same_knobs k (snd (snk_run (write_all bs) k)).
Proof.
  intros Hw. destruct (snk_run_write_all_shape bs k) as (pre & post & Ebs & Hout & Hcnt & Hkn & [(Hr & Hp & _)|(_ & C)]);
    [|contradiction].
  subst post. rewrite app_nil_r in Ebs. subst pre. repeat split; try assumption; apply Hkn.
Qed.

(* ====================================================================== *)
(* A2: a faulty sink against a well-behaved one                             *)
(* ====================================================================== *)
(* [twin k1 k2]: the same bytes have been accepted so far, k1 has not hit its injected write
   fault yet, k2 never fails.  Nothing is said about the acceptance policies, the call counters
   or the flush counters: they may differ. *)
Definition twin (k1 k2 : snk) : Prop :=
  k_out k1 = k_out k2 /\ k_count k1 = k_count k2 /\ snk_hit k1 = false /\ k_wfail k2 = None /\ k_ffail k2 = false.

(* the well-behaved twin of a sink: accept-all, never failing *)
Definition well_behaved (k : snk) : snk :=
  mkSnk (k_out k) (k_count k) (k_calls k) frag_all None (k_flushes k) false.

Lemma twin_well_behaved k : snk_hit k = false -> twin k (well_behaved k).
Proof. intros H. unfold twin, well_behaved. cbn [k_out k_count k_wfail k_ffail]. auto. Qed.

Lemma twin_new acc1 acc2 wf ff : twin (snk_new acc1 wf ff) (snk_new acc2 None false).
Proof.
  unfold twin, snk_new, snk_hit. cbn [k_out k_count k_wfail k_ffail k_calls]. repeat split.
  destruct wf as [j|]; [|reflexivity]. apply N.ltb_ge. lia.
Qed.

Lemma twin_ext k1 k2 : twin k1 k2 -> ext k1 k2.
Proof. intros (H & _). apply ext_same_out. symmetry. exact H. Qed.

Lemma twin_bytes k1 k2 : twin k1 k2 -> snk_bytes k1 = snk_bytes k2.
Proof. intros (H & _). unfold snk_bytes. rewrite H. reflexivity. Qed.

Lemma twin_write_all bs k1 k2 : twin k1 k2 ->
  fsim twin ext (snk_run (write_all bs) k1) (snk_run (write_all bs) k2).
Proof.
  intros (Ho & Hc & Hh & Hw2 & Hf2).
  destruct (snk_run_write_all_total bs k2 Hw2) as (R2 & O2 & C2 & (_ & W2 & _ & F2)).
  destruct (snk_run_write_all_shape bs k1) as (pre & post & Ebs & O1 & C1 & K1 & [(R1 & Hp & Hh1)|(R1 & _)]).
  - subst post. rewrite app_nil_r in Ebs. subst pre. left. rewrite R1, R2. split; [reflexivity|].
    unfold twin. rewrite O1, O2, C1, C2, Ho, Hc, W2, F2. repeat split; auto.
  - right. split; [exact R1|]. exists post. unfold snk_bytes. rewrite O1, O2, Ebs, Ho, !lrev_rev_append.
    rewrite app_assoc. reflexivity.
Qed.

Lemma ext_ext k1 k2 k2' : ext k1 k2 -> ext k2 k2' -> ext k1 k2'.
Proof. apply ext_trans. Qed.

Lemma twin_flush k1 k2 : twin k1 k2 -> flush_rel twin ext True k1 k2.
Proof.
  intros (Ho & Hc & Hh & Hw2 & Hf2). unfold flush_rel, snk_flush. rewrite Hf2.
  destruct (k_ffail k1).
  - split; [exact I|]. split; [reflexivity|]. split.
    + unfold twin. cbn [k_out k_count k_wfail k_ffail]. auto.
    + apply ext_same_out. cbn [k_out]. symmetry. exact Ho.
  - unfold twin, snk_hit in *. cbn [k_out k_count k_wfail k_ffail k_calls]. auto.
Qed.

(* the statement of A2, for any two Streams in lock step (in particular two new ones) *)
Definition StreamFaultyVsFree (s1 s2 : stream) (cs : list call) : Prop :=
  let rs1 := fst (run_calls s1 cs) in let t1 := snd (run_calls s1 cs) in
  let rs2 := fst (run_calls s2 cs) in let t2 := snd (run_calls s2 cs) in
  (* either no write fault is hit by the calls: same results (a flush may fail in the faulty run alone),
     the streams are still in lock step, and finish is in lock step or reports the fault *)
  (Forall2 (cres_rel True) rs1 rs2 /\ Rst twin t1 t2 /\
   fsim twin ext (stream_finish t1) (stream_finish t2)) \/
  (* or one write call of the faulty run returned Failed EIo: its stream is dead, every later call is a
     no-op, finish reports an error, and what its sink accepted is a prefix of the other sink *)
  (In (RW (Failed EIo)) rs1 /\ st_state t1 = None /\ ext (stream_sink t1) (stream_sink t2) /\
   fst (stream_finish t1) = Failed ELzma /\ ext (snd (stream_finish t1)) (snd (stream_finish t2))).

Theorem stream_faulty_vs_free_gen s1 s2 cs : Rst twin s1 s2 -> StreamFaultyVsFree s1 s2 cs.
Proof.
  intros HS. unfold StreamFaultyVsFree. cbv zeta.
  destruct (stream_life_relF twin ext True twin_write_all ext_ext twin_flush cs s1 s2 HS)
    as [(A & B & C)|(A & (B1 & B2) & C & D)].
  - left. split; [exact A|]. split; [exact B|exact C].
  - right. split; [exact A|]. split; [exact B1|]. split; [exact B2|]. split; [exact C|exact D].
Qed.

(* MAIN THEOREM A2: the same options, the same calls; an arbitrary sink against any well-behaved sink
   that starts with the same contents (e.g. [well_behaved k], or two fresh sinks) *)
Theorem stream_faulty_vs_free o k k' cs : twin k k' ->
  StreamFaultyVsFree (stream_new o k) (stream_new o k') cs.
Proof. intros H. apply stream_faulty_vs_free_gen. apply stream_new_Rst. exact H. Qed.
Print Assumptions stream_faulty_vs_free.

(* the prefix property at every moment: after any calls, and after finish *)
Theorem stream_faulty_prefix o k k' cs : twin k k' ->
  ext (stream_sink (snd (run_calls (stream_new o k) cs))) (stream_sink (snd (run_calls (stream_new o k') cs))) /\
  ext (snd (stream_finish (snd (run_calls (stream_new o k) cs))))
      (snd (stream_finish (snd (run_calls (stream_new o k') cs)))).
Proof.
  intros H. destruct (stream_faulty_vs_free o k k' cs H) as [(_ & B & C)|(_ & _ & B & _ & C)].
  - split; [apply twin_ext, (Rst_sink twin); exact B|].
    destruct C as [[_ C]|[_ C]]; [apply twin_ext; exact C|exact C].
  - split; assumption.
Qed.
Print Assumptions stream_faulty_prefix.

(* as long as no call of the faulty run has returned Failed EIo to a write, the two sinks hold the same bytes *)
Theorem stream_faulty_lockstep_bytes o k k' cs : twin k k' ->
  ~ In (RW (Failed EIo)) (fst (run_calls (stream_new o k) cs)) ->
  Forall2 (cres_rel True) (fst (run_calls (stream_new o k) cs)) (fst (run_calls (stream_new o k') cs)) /\
  snk_bytes (stream_sink (snd (run_calls (stream_new o k) cs))) =
  snk_bytes (stream_sink (snd (run_calls (stream_new o k') cs))).
Proof.
  intros H Hn. destruct (stream_faulty_vs_free o k k' cs H) as [(A & B & _)|(A & _)]; [|contradiction].
  split; [exact A|]. apply twin_bytes, (Rst_sink twin). exact B.
Qed.

(* a successful finish of the faulty run delivers exactly the bytes of the fault-free run *)
Theorem stream_faulty_done_complete o k k' cs : twin k k' ->
  fst (stream_finish (snd (run_calls (stream_new o k) cs))) = Done tt ->
  fst (stream_finish (snd (run_calls (stream_new o k') cs))) = Done tt /\
  snk_bytes (snd (stream_finish (snd (run_calls (stream_new o k) cs)))) =
  snk_bytes (snd (stream_finish (snd (run_calls (stream_new o k') cs)))).
Proof.
  intros H Hd. destruct (stream_faulty_vs_free o k k' cs H) as [(_ & _ & C)|(_ & _ & _ & C & _)].
  - destruct C as [[C1 C2]|[C1 _]].
    + split; [rewrite <- C1; exact Hd|apply twin_bytes; exact C2].
    + rewrite Hd in C1. discriminate C1.
  - rewrite Hd in C. discriminate C.
Qed.
Print Assumptions stream_faulty_done_complete.

(* ====================================================================== *)
(* A3: sinks that never fail on write                                       *)
(* ====================================================================== *)
(* same contents, neither fails on write, same flush behaviour; the acceptance policies and the
   call counters are unrelated *)
Definition same_data (k1 k2 : snk) : Prop :=
  k_out k1 = k_out k2 /\ k_count k1 = k_count k2 /\ k_wfail k1 = None /\ k_wfail k2 = None /\
  k_ffail k1 = k_ffail k2 /\ k_flushes k1 = k_flushes k2.
Definition never (k1 k2 : snk) : Prop := False.

(* a sink with another acceptance policy *)
Definition with_accept (k : snk) (acc : N -> N) : snk :=
  mkSnk (k_out k) (k_count k) (k_calls k) acc (k_wfail k) (k_flushes k) (k_ffail k).

Lemma same_data_with_accept k acc : k_wfail k = None -> same_data k (with_accept k acc).
Proof. intros H. unfold same_data, with_accept. cbn [k_out k_count k_wfail k_ffail k_flushes]. repeat split; auto. Qed.

Lemma same_data_new acc1 acc2 ff : same_data (snk_new acc1 None ff) (snk_new acc2 None ff).
Proof. unfold same_data, snk_new. cbn [k_out k_count k_wfail k_ffail k_flushes]. repeat split; auto. Qed.

Lemma same_data_bytes k1 k2 : same_data k1 k2 -> snk_bytes k1 = snk_bytes k2.
Proof. intros (H & _). unfold snk_bytes. rewrite H. reflexivity. Qed.

Lemma same_data_write_all bs k1 k2 : same_data k1 k2 ->
  fsim same_data never (snk_run (write_all bs) k1) (snk_run (write_all bs) k2).
Proof.
  intros (Ho & Hc & Hw1 & Hw2 & Hf & Hfl).
  destruct (snk_run_write_all_total bs k1 Hw1) as (R1 & O1 & C1 & (_ & W1 & L1 & F1)).
  destruct (snk_run_write_all_total bs k2 Hw2) as (R2 & O2 & C2 & (_ & W2 & L2 & F2)).
  left. rewrite R1, R2. split; [reflexivity|].
  unfold same_data. rewrite O1, O2, C1, C2, W1, W2, L1, L2, F1, F2, Ho, Hc, Hw1, Hw2, Hf, Hfl. repeat split.
Qed.

Lemma never_ext k1 k2 k2' : never k1 k2 -> ext k2 k2' -> never k1 k2'.
Proof. intros []. Qed.

Lemma same_data_flush k1 k2 : same_data k1 k2 -> flush_rel same_data never False k1 k2.
Proof.
  intros (Ho & Hc & Hw1 & Hw2 & Hf & Hfl). unfold flush_rel, snk_flush. rewrite Hf.
  destruct (k_ffail k2); [reflexivity|].
  unfold same_data. cbn [k_out k_count k_wfail k_ffail k_flushes]. rewrite Hfl. repeat split; auto.
Qed.

Lemma cres_rel_False_eq rs1 rs2 : Forall2 (cres_rel False) rs1 rs2 -> rs1 = rs2.
Proof.
  induction 1 as [|c1 c2 l1 l2 Hc _ IH]; [reflexivity|].
  destruct Hc as [->|([] & _)]. rewrite IH. reflexivity.
Qed.

Definition StreamSameVerdicts (s1 s2 : stream) (cs : list call) : Prop :=
  let t1 := snd (run_calls s1 cs) in let t2 := snd (run_calls s2 cs) in
  fst (run_calls s1 cs) = fst (run_calls s2 cs) /\                      (* every call returns the same *)
  Rst same_data t1 t2 /\                                               (* decoders, windows equal; sinks hold the same data *)
  snk_bytes (stream_sink t1) = snk_bytes (stream_sink t2) /\
  fst (stream_finish t1) = fst (stream_finish t2) /\                   (* finish returns the same *)
  snk_bytes (snd (stream_finish t1)) = snk_bytes (snd (stream_finish t2)) /\
  k_flushes (snd (stream_finish t1)) = k_flushes (snd (stream_finish t2)).

Theorem stream_short_writes_gen s1 s2 cs : Rst same_data s1 s2 -> StreamSameVerdicts s1 s2 cs.
Proof.
  intros HS. unfold StreamSameVerdicts. cbv zeta.
  destruct (stream_life_relF same_data never False same_data_write_all never_ext same_data_flush cs s1 s2 HS)
    as [(A & B & C)|(_ & (_ & []) & _)].
  split; [apply cres_rel_False_eq; exact A|]. split; [exact B|].
  split; [apply same_data_bytes, (Rst_sink same_data); exact B|].
  destruct C as [[C1 C2]|[_ []]]. split; [exact C1|]. split; [apply same_data_bytes; exact C2|].
  destruct C2 as (_ & _ & _ & _ & _ & E). exact E.
Qed.

(* MAIN THEOREM A3: a short-writing sink (any acceptance policy, never failing on write) against any
   other sink with the same contents that never fails on write and has the same flush switch *)
Theorem stream_short_writes_complete o k k' cs : same_data k k' ->
  StreamSameVerdicts (stream_new o k) (stream_new o k') cs.
Proof. intros H. apply stream_short_writes_gen. apply stream_new_Rst. exact H. Qed.
Print Assumptions stream_short_writes_complete.

(* in particular: one byte per call against accept-all *)
Corollary stream_short_writes_accept_all o k acc cs : k_wfail k = None ->
  StreamSameVerdicts (stream_new o k) (stream_new o (with_accept k acc)) cs.
Proof. intros H. apply stream_short_writes_complete, same_data_with_accept. exact H. Qed.

(* ====================================================================== *)
(* The same two results for the driver of C05 (feed every piece, then finish) *)
(* ====================================================================== *)
From LZ Require Import Proofs.StreamSimData Proofs.FaultStreamDrive.

(* A2 for the driver: lock step, or the faulty driver reports Failed EIo (fault surfacing in finish) /
   Failed ELzma (finish after a write that failed with EIo) and its sink holds a prefix *)
Theorem stream_faulty_drive o k k' pieces : twin k k' ->
  dsim twin ext (drive (stream_new o k) pieces) (drive (stream_new o k') pieces).
Proof.
  intros H. apply (drive_relF twin ext True twin_write_all ext_ext twin_flush). apply stream_new_Rst. exact H.
Qed.
Print Assumptions stream_faulty_drive.

Theorem stream_faulty_drive_prefix o k k' pieces : twin k k' ->
  ext (snd (drive (stream_new o k) pieces)) (snd (drive (stream_new o k') pieces)) /\
  (fst (drive (stream_new o k) pieces) = Done tt ->
   fst (drive (stream_new o k') pieces) = Done tt /\
   snk_bytes (snd (drive (stream_new o k) pieces)) = snk_bytes (snd (drive (stream_new o k') pieces))).
Proof.
  intros H. destruct (stream_faulty_drive o k k' pieces H) as [[A B]|[A B]].
  - split; [apply twin_ext; exact B|]. intros Hd. split; [rewrite <- A; exact Hd|apply twin_bytes; exact B].
  - split; [exact B|]. intros Hd. rewrite Hd in A. destruct A as [A|A]; discriminate A.
Qed.

(* A3 for the driver *)
Theorem stream_short_writes_drive o k k' pieces : same_data k k' ->
  fst (drive (stream_new o k) pieces) = fst (drive (stream_new o k') pieces) /\
  snk_bytes (snd (drive (stream_new o k) pieces)) = snk_bytes (snd (drive (stream_new o k') pieces)).
Proof.
  intros H.
  destruct (drive_relF same_data never False same_data_write_all never_ext same_data_flush pieces _ _
              (stream_new_Rst same_data o k k' H)) as [[A B]|[_ []]].
  split; [exact A|apply same_data_bytes; exact B].
Qed.
Print Assumptions stream_short_writes_drive.
