(* Fragmentation independence (C13), LZMA layer: the symbol decoder handler,
   process_mode in FinishMode, LzmaDecoder::decompress and lzma_decompress. *)
From LZ Require Import Base.Prelude Base.Prog Model.Io Model.Tables Model.LzBuffer Model.RangeDec Model.Lzma
  Proofs.ProgLemmas Proofs.IoLemmas Proofs.FragIo.
Local Open Scope prog_scope.

(* ---------- the handler of the symbol decoder ---------- *)
Definition dw_rel (x1 x2 : dw) : Prop :=
  d_tabs x1 = d_tabs x2 /\ d_rc x1 = d_rc x2 /\ d_win x1 = d_win x2 /\ same_data (d_src x1) (d_src x2).

Lemma dw_rel_mk tabs r win s1 s2 : same_data s1 s2 -> dw_rel (mkDw tabs r s1 win) (mkDw tabs r s2 win).
Proof. intros H. unfold dw_rel. cbn [d_tabs d_rc d_win d_src]. repeat split; try reflexivity; apply H. Qed.

Lemma dec_h_step : forall X (o : decE X) s1 s2, dw_rel s1 s2 ->
  match dec_h X o s1, dec_h X o s2 with
  | HOk x1 t1, HOk x2 t2 => x1 = x2 /\ dw_rel t1 t2
  | HErr e1 t1, HErr e2 t2 => e1 = e2 /\ dw_rel t1 t2
  | HPanic w1 t1, HPanic w2 t2 => w1 = w2 /\ dw_rel t1 t2
  | _, _ => False
  end.
Proof.
  intros X o [tabs r s1 win] [tabs2 r2 s2 win2] (E1 & E2 & E3 & Hsd).
  cbn [d_tabs d_rc d_win d_src] in *. subst tabs2 r2 win2.
  destruct o; cbn [dec_h d_tabs d_rc d_src d_win].
  - (* Bit *)
    destruct (cell_get tabs c) as [prob|]; [|split; [reflexivity|apply dw_rel_mk; exact Hsd]].
    destruct (Resp2_src_run _ (Resp2_rc_decode_bit r prob upd) s1 s2 Hsd) as (o & t1 & t2 & R1 & R2 & Hsd').
    rewrite R1, R2. destruct o as [[[b p'] r']|e|q]; (split; [reflexivity|apply dw_rel_mk; exact Hsd']).
  - (* Direct *)
    destruct (Resp2_src_run _ (Resp2_rc_get count r) s1 s2 Hsd) as (o & t1 & t2 & R1 & R2 & Hsd').
    rewrite R1, R2. unfold lift_src. cbn [d_tabs d_rc d_src d_win].
    destruct o as [[x r']|e|q]; (split; [reflexivity|apply dw_rel_mk; exact Hsd']).
  - (* FinishedOk *)
    destruct (Resp2_src_run _ (Resp2_rc_is_finished_ok r) s1 s2 Hsd) as (o & t1 & t2 & R1 & R2 & Hsd').
    rewrite R1, R2. destruct o as [b|e|q]; (split; [reflexivity|apply dw_rel_mk; exact Hsd']).
  - split; [reflexivity|apply dw_rel_mk; exact Hsd].
  - unfold lift_win. cbn [d_tabs d_rc d_src d_win].
    destruct (win_last_or win d) as [[x|e|q] v]; (split; [reflexivity|apply dw_rel_mk; exact Hsd]).
  - unfold lift_win. cbn [d_tabs d_rc d_src d_win].
    destruct (win_last_n win dist) as [[x|e|q] v]; (split; [reflexivity|apply dw_rel_mk; exact Hsd]).
  - unfold lift_win. cbn [d_tabs d_rc d_src d_win].
    destruct (win_append_literal win b) as [[x|e|q] v]; (split; [reflexivity|apply dw_rel_mk; exact Hsd]).
  - unfold lift_win. cbn [d_tabs d_rc d_src d_win].
    destruct (win_append_lz win len dist) as [[x|e|q] v]; (split; [reflexivity|apply dw_rel_mk; exact Hsd]).
Qed.

Lemma dec_interp_rel {A} (p : dprog A) x1 x2 : dw_rel x1 x2 ->
  fst (interp dec_h p x1) = fst (interp dec_h p x2) /\ dw_rel (snd (interp dec_h p x1)) (snd (interp dec_h p x2)).
Proof. apply (handler_refinement dec_h dec_h dw_rel dec_h_step). Qed.

(* ---------- the objects of process_mode ---------- *)
(* one-shot decoding never uses the partial input buffer: it stays empty *)
Definition lw_rel (x1 x2 : lw) : Prop :=
  l_ds x1 = l_ds x2 /\ ds_pib (l_ds x1) = [] /\ l_rc x1 = l_rc x2 /\ l_win x1 = l_win x2 /\
  same_data (l_src x1) (l_src x2).

Lemma lw_rel_mk d r win s1 s2 : ds_pib d = [] -> same_data s1 s2 -> lw_rel (mkLw d r s1 win) (mkLw d r s2 win).
Proof. intros Hp H. unfold lw_rel. cbn [l_ds l_rc l_win l_src]. repeat split; try reflexivity; try assumption; apply H. Qed.

Definition orel {S A} (R : S -> S -> Prop) (r1 r2 : outcome A * S) : Prop :=
  fst r1 = fst r2 /\ R (snd r1) (snd r2).

Lemma run_sym_rel upd x1 x2 : lw_rel x1 x2 -> orel lw_rel (run_sym upd x1) (run_sym upd x2).
Proof.
  destruct x1 as [d r s1 win], x2 as [d2 r2 s2 win2]. intros (E1 & Hp & E2 & E3 & Hsd).
  cbn [l_ds l_rc l_win l_src] in *. subst d2 r2 win2.
  unfold run_sym. cbn [l_ds l_rc l_win l_src].
  destruct (dec_interp_rel (process_next_inner (ds_props d) (mkSym (ds_state d) (ds_rep d)) upd)
              (mkDw (ds_tabs d) r s1 win) (mkDw (ds_tabs d) r s2 win) (dw_rel_mk _ _ _ _ _ Hsd)) as [Hf Hr].
  destruct (interp dec_h _ (mkDw (ds_tabs d) r s1 win)) as [o1 y1].
  destruct (interp dec_h _ (mkDw (ds_tabs d) r s2 win)) as [o2 y2].
  cbn [fst snd] in Hf, Hr. subst o2. destruct Hr as (T & R & W & S).
  destruct o1 as [[st y]|e|q]; (split; cbn [fst snd]; [reflexivity|]);
    rewrite T, R, W; apply lw_rel_mk; assumption.
Qed.

(* ---------- the body of process_mode, FinishMode, empty partial buffer ---------- *)
Definition fin_head (w : lw) : outcome bool * lw :=
  let d := l_ds w in
  match ds_unpacked d with
  | Some us => (Done (us <=? win_len (l_win w)), w)
  | None =>
      if rep0 (ds_rep d) =? 4294967295 then
        match src_run (rc_is_finished_ok (l_rc w)) (l_src w) with
        | (Done e, s) => (Done (e && (nlen (ds_pib d) =? 0)), mkLw d (l_rc w) s (l_win w))
        | (Failed e, s) => (Failed e, mkLw d (l_rc w) s (l_win w))
        | (Panicked p, s) => (Panicked p, mkLw d (l_rc w) s (l_win w))
        end
      else (Done false, w)
  end.

Definition fin_tail (w1 : lw) : step lw pm_result :=
  match src_run (icall FillBuf) (l_src w1) with
  | (Failed e, s) => Break (Failed e, mkLw (l_ds w1) (l_rc w1) s (l_win w1))
  | (Panicked p, s) => Break (Panicked p, mkLw (l_ds w1) (l_rc w1) s (l_win w1))
  | (Done buf, s) =>
      match run_sym true (mkLw (l_ds w1) (l_rc w1) s (l_win w1)) with
      | (Failed e, w3) => Break (Failed e, w3)
      | (Panicked p, w3) => Break (Panicked p, w3)
      | (Done Finished, w3) => Break (Done tt, w3)
      | (Done Continue, w3) => Next w3
      end
  end.

Lemma fin_head_ds w : l_ds (snd (fin_head w)) = l_ds w.
Proof.
  unfold fin_head. cbv zeta. destruct (ds_unpacked (l_ds w)); [reflexivity|].
  destruct (rep0 (ds_rep (l_ds w)) =? 4294967295); [|reflexivity].
  destruct (src_run _ _) as [[b|e|q] s]; reflexivity.
Qed.

Lemma pm_body_fin w : ds_pib (l_ds w) = [] ->
  pm_body FinishMode w =
  match fin_head w with
  | (Failed e, w1) => Break (Failed e, w1)
  | (Panicked p, w1) => Break (Panicked p, w1)
  | (Done true, w1) => Break (Done tt, w1)
  | (Done false, w1) => fin_tail w1
  end.
Proof.
  intros Hp. pose proof (fin_head_ds w) as Hd. unfold pm_body. cbv zeta.
  change (match ds_unpacked (l_ds w) with Some us => _ | None => _ end) with (fin_head w).
  destruct (fin_head w) as [[[|]|e|q] w1]; try reflexivity.
  cbn [snd] in Hd. replace (0 <? nlen (ds_pib (l_ds w1))) with false by (rewrite Hd, Hp; reflexivity).
  unfold fin_tail. reflexivity.
Qed.

Lemma fin_head_rel x1 x2 : lw_rel x1 x2 -> orel lw_rel (fin_head x1) (fin_head x2).
Proof.
  destruct x1 as [d r s1 win], x2 as [d2 r2 s2 win2]. intros (E1 & Hp & E2 & E3 & Hsd).
  cbn [l_ds l_rc l_win l_src] in *. subst d2 r2 win2.
  unfold fin_head. cbv zeta. cbn [l_ds l_rc l_win l_src].
  destruct (ds_unpacked d); [split; [reflexivity|apply lw_rel_mk; assumption]|].
  destruct (rep0 (ds_rep d) =? 4294967295); [|split; [reflexivity|apply lw_rel_mk; assumption]].
  destruct (Resp2_src_run _ (Resp2_rc_is_finished_ok r) s1 s2 Hsd) as (o & t1 & t2 & R1 & R2 & Hsd').
  rewrite R1, R2. destruct o as [b|e|q]; (split; [reflexivity|apply lw_rel_mk; assumption]).
Qed.

Definition step_rel (b1 b2 : step lw pm_result) : Prop :=
  match b1, b2 with
  | Next t1, Next t2 => lw_rel t1 t2
  | Break r1, Break r2 => orel lw_rel r1 r2
  | _, _ => False
  end.

Lemma fin_tail_rel x1 x2 : lw_rel x1 x2 -> step_rel (fin_tail x1) (fin_tail x2).
Proof.
  destruct x1 as [d r s1 win], x2 as [d2 r2 s2 win2]. intros (E1 & Hp & E2 & E3 & Hsd).
  cbn [l_ds l_rc l_win l_src] in *. subst d2 r2 win2.
  unfold fin_tail. cbn [l_ds l_rc l_win l_src].
  destruct (src_fill_run s1 s2 Hsd) as (b1 & b2 & t1 & t2 & R1 & R2 & Hsd'). rewrite R1, R2.
  destruct (run_sym_rel true (mkLw d r t1 win) (mkLw d r t2 win) (lw_rel_mk _ _ _ _ _ Hp Hsd')) as [Hf Hr].
  destruct (run_sym true (mkLw d r t1 win)) as [o1 y1]. destruct (run_sym true (mkLw d r t2 win)) as [o2 y2].
  cbn [fst snd] in Hf, Hr. subst o2.
  destruct o1 as [[|]|e|q]; unfold step_rel, orel; cbn [fst snd]; try (split; [reflexivity|assumption]). assumption.
Qed.

Lemma pm_body_rel x1 x2 : lw_rel x1 x2 -> step_rel (pm_body FinishMode x1) (pm_body FinishMode x2).
Proof.
  intros H. assert (Hp1 : ds_pib (l_ds x1) = []) by apply H.
  assert (Hp2 : ds_pib (l_ds x2) = []) by (destruct H as (E & Hp & _); rewrite <- E; exact Hp).
  rewrite (pm_body_fin x1 Hp1), (pm_body_fin x2 Hp2).
  destruct (fin_head_rel x1 x2 H) as [Hf Hr].
  destruct (fin_head x1) as [o1 y1]. destruct (fin_head x2) as [o2 y2]. cbn [fst snd] in Hf, Hr. subst o2.
  destruct o1 as [[|]|e|q]; try (unfold step_rel, orel; cbn [fst snd]; split; [reflexivity|assumption]).
  apply fin_tail_rel. assumption.
Qed.

Theorem process_mode_rel fuel x1 x2 : lw_rel x1 x2 ->
  orel lw_rel (process_mode FinishMode fuel x1) (process_mode FinishMode fuel x2).
Proof.
  intros H. unfold process_mode.
  pose proof (loopN_sim (pm_body FinishMode) (pm_body FinishMode) lw_rel (orel lw_rel) pm_body_rel fuel x1 x2 H) as L.
  destruct (loopN fuel (pm_body FinishMode) x1) as [t1|[o1 y1]];
    destruct (loopN fuel (pm_body FinishMode) x2) as [t2|[o2 y2]]; try contradiction.
  - split; [reflexivity|exact L].
  - destruct L as [Hf Hr]. cbn [fst snd] in Hf, Hr. subst o2.
    destruct o1 as [u|e|q]; try (split; [reflexivity|assumption]).
    destruct Hr as (E1 & Hp & E2 & E3 & Hsd). rewrite <- E1, <- E3.
    assert (Hr : lw_rel y1 y2) by (repeat split; try assumption; apply Hsd).
    destruct (ds_unpacked (l_ds y1)) as [len|]; [|split; [reflexivity|assumption]].
    destruct (len =? win_len (l_win y1)); (split; [reflexivity|assumption]).
Qed.

(* ---------- LzmaDecoder::decompress ---------- *)
Theorem lzma_decoder_decompress_rel fuel dec w1 w2 :
  ds_pib (ld_state dec) = [] -> sdio w1 w2 ->
  fst (lzma_decoder_decompress fuel dec w1) = fst (lzma_decoder_decompress fuel dec w2) /\
  fst (snd (lzma_decoder_decompress fuel dec w1)) = fst (snd (lzma_decoder_decompress fuel dec w2)) /\
  sdio (snd (snd (lzma_decoder_decompress fuel dec w1))) (snd (snd (lzma_decoder_decompress fuel dec w2))).
Proof.
  destruct w1 as [s1 k1], w2 as [s2 k2]. intros Hp [Hsd Hk]. cbn [i_src i_snk] in *. subst k2.
  unfold lzma_decoder_decompress. cbv zeta. cbn [i_src i_snk].
  destruct (Resp2_src_run _ (Resp2_map ELzma _ Resp2_rc_new) s1 s2 Hsd) as (o & t1 & t2 & R1 & R2 & Hsd').
  rewrite R1, R2.
  destruct o as [r|e|q]; try (cbn [fst snd]; split; [reflexivity|split; [reflexivity|split; [exact Hsd'|reflexivity]]]).
  set (win := WCirc (circ_new k1 (pr_dict (ld_params dec)) (ld_memlimit dec))).
  destruct (process_mode_rel fuel (mkLw (ld_state dec) r t1 win) (mkLw (ld_state dec) r t2 win)
              (lw_rel_mk _ _ _ _ _ Hp Hsd')) as [Hf Hr].
  destruct (process_mode FinishMode fuel (mkLw (ld_state dec) r t1 win)) as [o1 y1].
  destruct (process_mode FinishMode fuel (mkLw (ld_state dec) r t2 win)) as [o2 y2].
  cbn [fst snd] in Hf, Hr. subst o2. destruct Hr as (E1 & _ & E2 & E3 & Hsd2). rewrite <- E1, <- E3.
  destruct o1 as [u|e|q]; try (cbn [fst snd]; split; [reflexivity|split; [reflexivity|split; [exact Hsd2|reflexivity]]]).
  destruct (l_win y1) as [c|a].
  - destruct (circ_finish c) as [[u'|e|q] k]; cbn [fst snd]; (split; [reflexivity|split; [reflexivity|split; [exact Hsd2|reflexivity]]]).
  - cbn [fst snd]. split; [reflexivity|split; [reflexivity|split; [exact Hsd2|reflexivity]]].
Qed.

Lemma lzma_decoder_new_pib p m dec : lzma_decoder_new p m = Done dec -> ds_pib (ld_state dec) = [].
Proof.
  unfold lzma_decoder_new, dstate_new. destruct (pr_dict p =? 0); [discriminate|].
  destruct (negb (props_valid (pr_props p))); [discriminate|]. intros H. inversion H. reflexivity.
Qed.

(* ---------- lzma_decompress ---------- *)
Theorem lzma_decompress_rel fuel o w1 w2 : sdio w1 w2 ->
  orel sdio (lzma_decompress fuel o w1) (lzma_decompress fuel o w2).
Proof.
  destruct w1 as [s1 k1], w2 as [s2 k2]. intros [Hsd Hk]. cbn [i_src i_snk] in *. subst k2.
  unfold lzma_decompress. cbn [i_src i_snk].
  destruct (Resp2_src_run _ (Resp2_map EHeaderTooShort _ (Resp2_read_header o)) s1 s2 Hsd) as (r & t1 & t2 & R1 & R2 & Hsd').
  rewrite R1, R2.
  destruct r as [p|e|q]; try (split; cbn [fst snd]; [reflexivity|split; [exact Hsd'|reflexivity]]).
  destruct (lzma_decoder_new p (o_memlimit o)) as [dec|e|q] eqn:En;
    try (split; cbn [fst snd]; [reflexivity|split; [exact Hsd'|reflexivity]]).
  pose proof (lzma_decoder_decompress_rel fuel dec (mkIo t1 k1) (mkIo t2 k1) (lzma_decoder_new_pib _ _ _ En)
                (conj Hsd' eq_refl)) as (H1 & H2 & H3).
  destruct (lzma_decoder_decompress fuel dec (mkIo t1 k1)) as [r1 [d1 v1]].
  destruct (lzma_decoder_decompress fuel dec (mkIo t2 k1)) as [r2 [d2 v2]].
  cbn [fst snd] in *. split; assumption.
Qed.

Print Assumptions process_mode_rel.
Print Assumptions lzma_decompress_rel.
