(* C10, whole runs: the hypotheses of mem_limit_exact are satisfiable and both of its
   branches occur (checked by vm_compute and, independently, through the theorem). *)
From LZ Require Import Base.Prelude Base.Prog Model.Io Model.Tables Model.LzBuffer Model.RangeDec
  Model.Lzma Model.Stream Model.Enc Proofs.StreamLatch Proofs.MemLimitRun Proofs.MemLimitStream.

(* a .lzma file holding the five literals 10 20 30 40 50 (made by the crate's own encoder) *)
Definition mx_bytes : list N :=
  [93; 0; 0; 128; 0; 255; 255; 255; 255; 255; 255; 255; 255; 0; 5; 5;
   150; 226; 132; 106; 80; 253; 255; 255; 253; 86; 16; 0].
Example mx_bytes_encoder :
  snk_bytes (i_snk (snd (lzma_compress 100 (WriteToHeader None) (mkIo (cursor_of [10; 20; 30; 40; 50]) vec_sink)))) = mx_bytes.
Proof. vm_compute. reflexivity. Qed.

Definition mx_opts (ml : option N) : options := mkOptions ReadFromHeader ml false.
Definition mx_io : io := mkIo (cursor_of mx_bytes) vec_sink.

(* without a limit the window buffer reaches 5 bytes *)
Example mx_peak : lzma_peak 100 (mx_opts None) mx_io = 5.
Proof. vm_compute. reflexivity. Qed.

Example mx_unlimited :
  let r := lzma_decompress 100 (mx_opts None) mx_io in
  fst r = Done tt /\ snk_bytes (i_snk (snd r)) = [10; 20; 30; 40; 50] /\ s_pos (i_src (snd r)) = 28.
Proof. vm_compute. repeat split; reflexivity. Qed.

(* limit 5 (= the peak): by the theorem, exactly the unlimited run *)
Example mx_limit_5 : lzma_decompress 100 (mx_opts (Some 5)) mx_io = lzma_decompress 100 (mx_opts None) mx_io.
Proof.
  apply (proj1 (mem_limit_exact 100 (mx_opts None) None 5 mx_io ltac:(vm_compute; discriminate))).
  vm_compute. discriminate.
Qed.

(* limit 3: by the theorem, Err(LzmaError); nothing had been flushed to the sink yet *)
Example mx_limit_3 :
  fst (lzma_decompress 100 (mx_opts (Some 3)) mx_io) = Failed ELzma.
Proof.
  apply (proj2 (mem_limit_exact 100 (mx_opts None) None 3 mx_io ltac:(vm_compute; discriminate))).
  vm_compute. reflexivity.
Qed.
Example mx_limit_3_computed :
  let r := lzma_decompress 100 (mx_opts (Some 3)) mx_io in
  fst r = Failed ELzma /\ snk_bytes (i_snk (snd r)) = [] /\ s_pos (i_src (snd r)) = 22.
Proof. vm_compute. repeat split; reflexivity. Qed.

(* the streaming decoder on the same file, fed in two pieces (the first write accepts 18 bytes) *)
Definition mx_calls : list call := [CWrite (nfirstn 20 mx_bytes); CWrite (nskipn 18 mx_bytes); CFlush].
Example mx_stream_unlimited :
  let r := run_calls (stream_new (mx_opts None) vec_sink) mx_calls in
  fst r = [RW (Done 18); RW (Done 10); RF (Done tt)] /\
  (let f := stream_finish (snd r) in fst f = Done tt /\ snk_bytes (snd f) = [10; 20; 30; 40; 50]).
Proof. vm_compute. repeat split; reflexivity. Qed.
Example mx_stream_limit_3 :
  let r := run_calls (stream_new (mx_opts (Some 3)) vec_sink) mx_calls in
  In (RW (Failed ELzma)) (fst r) /\ fst (stream_finish (snd r)) = Failed ELzma.
Proof. vm_compute. split; [|reflexivity]. auto. Qed.
Example mx_stream_never_exceeds :
  match st_state (snd (run_calls (stream_new (mx_opts (Some 5)) vec_sink) mx_calls)) with
  | Some (SData r) => c_blen (rs_out r) <= 5
  | _ => True
  end.
Proof. exact (stream_never_exceeds (mx_opts (Some 5)) vec_sink mx_calls). Qed.
