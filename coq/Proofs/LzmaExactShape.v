(* C01, layer 2a: syntactic facts about process_next_inner that the simulation needs and that
   [safe_prog] (NoPanic.v) does not record: every Bit operation is issued with update = true,
   every Direct count is at most 32, and the answer [false] to FinishedOk is followed by Fail.
   Also: appends to the circular window never touch the sink's flush state. *)
From LZ Require Import Base.Prelude Base.Prog Model.Io Model.Tables Model.LzBuffer Model.RangeDec Model.Lzma Format.RefEnc
  Proofs.ProgLemmas Proofs.IoLemmas Proofs.RangeLockstep Proofs.NoPanic.
From Coq Require Import ZifyBool ZifyNat ZifyN.
Local Open Scope prog_scope.

Definition op_shape {A X} (o : decE X) : (X -> dprog A) -> Prop :=
  match o in decE X return (X -> dprog A) -> Prop with
  | Bit _ upd => fun _ => upd = true
  | Direct n => fun _ => n <= 32
  | FinishedOk => fun k => exists e, k false = Fail e
  | _ => fun _ => True
  end.

Fixpoint shape {A} (p : dprog A) : Prop :=
  match p with
  | Vis o k => op_shape o k /\ forall x, ans_ok o x -> shape (k x)
  | _ => True
  end.

Lemma op_shape_bind {A B X} (o : decE X) (k : X -> dprog A) (f : A -> dprog B) :
  op_shape o k -> op_shape o (fun x => bind (k x) f).
Proof.
  destruct o; cbn [op_shape]; try (intros H; exact H).
  intros [e He]. exists e. rewrite He. reflexivity.
Qed.

Lemma shape_bind {A B} (p : dprog A) (f : A -> dprog B) :
  shape p -> (forall a, shape (f a)) -> shape (bind p f).
Proof.
  induction p as [a|e|w|X o k IH]; intros Hp Hf; cbn [bind shape] in *; try exact I.
  - apply Hf.
  - destruct Hp as [Ho Hk]. split; [apply op_shape_bind; exact Ho|].
    intros x Hx. apply IH; [apply Hk; exact Hx|exact Hf].
Qed.

(* with a postcondition on the first part *)
Lemma shape_bind_q (P : cell -> Prop) {A B} (Q : A -> Prop) (p : dprog A) (f : A -> dprog B) :
  safe_prog P Q p -> shape p -> (forall a, Q a -> shape (f a)) -> shape (bind p f).
Proof.
  induction 1 as [a Ha|e|X o k Hpre Hk IH]; intros Hp Hf; cbn [bind shape] in *; try exact I.
  - apply Hf. exact Ha.
  - destruct Hp as [Ho Hk']. split; [apply op_shape_bind; exact Ho|].
    intros x Hx. apply IH; [exact Hx|apply Hk'; exact Hx|exact Hf].
Qed.

Lemma shape_bit {A} c (k : bool -> dprog A) :
  (forall b, shape (k b)) -> shape (bind (dcall (Bit c true)) k).
Proof. intros H. cbn [bind call shape op_shape]. split; [reflexivity|]. intros x _. apply H. Qed.

Lemma shape_simple {A X} (o : decE X) (k : X -> dprog A) :
  @op_shape A X o (fun x => k x) -> (forall x, shape (k x)) -> shape (bind (dcall o) k).
Proof. intros Ho H. cbn [bind call shape]. split; [exact Ho|]. intros x _. apply H. Qed.

Lemma shape_bit_tree_loop n mk : forall tmp, shape (bit_tree_loop n mk true tmp).
Proof.
  induction n as [|n IH]; intros tmp; cbn [bit_tree_loop]; [exact I|].
  apply shape_bit. intros b. apply IH.
Qed.

Lemma shape_parse_bit_tree nb mk : shape (parse_bit_tree nb mk true).
Proof.
  unfold parse_bit_tree. apply shape_bind; [apply shape_bit_tree_loop|].
  intros a. destruct (a <? N.shiftl 1 nb); exact I.
Qed.

Lemma shape_rev_bit_tree_loop n mk offset : forall i tmp result, shape (rev_bit_tree_loop n i mk offset true tmp result).
Proof.
  induction n as [|n IH]; intros i tmp result; cbn [rev_bit_tree_loop]; [exact I|].
  apply shape_bit. intros b. apply IH.
Qed.

Lemma shape_parse_reverse_bit_tree nb mk offset : shape (parse_reverse_bit_tree nb mk offset true).
Proof. apply shape_rev_bit_tree_loop. Qed.

Lemma shape_len_decode rep ps : shape (len_decode rep ps true).
Proof.
  unfold len_decode. apply shape_bit. intros c1. destruct c1; cbn [negb].
  - apply shape_bit. intros c2. destruct c2; cbn [negb].
    + apply shape_bind; [apply shape_parse_bit_tree|intros; exact I].
    + apply shape_bind; [apply shape_parse_bit_tree|intros; exact I].
  - apply shape_parse_bit_tree.
Qed.

Lemma shape_lit_matched_loop fuel row : forall mb result, shape (lit_matched_loop fuel row true mb result).
Proof.
  induction fuel as [|f IH]; intros mb result; cbn [lit_matched_loop]; [exact I|].
  destruct (256 <=? result); [exact I|].
  apply shape_bit. intros b.
  destruct (N.land (N.shiftr mb 7) 1 =? b2n b); [apply IH|exact I].
Qed.

Lemma shape_lit_plain_loop fuel row : forall result, shape (lit_plain_loop fuel row true result).
Proof.
  induction fuel as [|f IH]; intros result; cbn [lit_plain_loop]; [exact I|].
  destruct (256 <=? result); [exact I|].
  apply shape_bit. intros b. apply IH.
Qed.

Lemma shape_decode_literal p y : shape (decode_literal p y true).
Proof.
  unfold decode_literal.
  apply shape_simple; [exact I|]. intros prev.
  apply shape_simple; [exact I|]. intros len.
  destruct (8 <? lc p); [exact I|].
  apply shape_bind.
  - destruct (7 <=? y_state y); [|exact I].
    apply shape_simple; [exact I|]. intros mb. apply shape_lit_matched_loop.
  - intros r. apply shape_bind; [apply shape_lit_plain_loop|].
    intros r2. destruct (r2 <? 256); exact I.
Qed.

Lemma shape_decode_distance len : shape (decode_distance len true).
Proof.
  unfold decode_distance.
  apply (shape_bind_q (fun _ => True) (fun r => r < 2 ^ 6)).
  - apply parse_bit_tree_safe; [lia|intros; exact I].
  - apply shape_parse_bit_tree.
  - intros ps Hps. change (2 ^ 6) with 64 in Hps.
    destruct (ps <? 4); [exact I|].
    destruct (ps <? 14).
    + destruct (_ <? ps); [exact I|].
      apply shape_bind; [apply shape_parse_reverse_bit_tree|intros; exact I].
    + apply shape_simple.
      * cbn [op_shape]. rewrite shiftr1.
        pose proof (N.div_mod ps 2 ltac:(lia)). pose proof (N.mod_lt ps 2 ltac:(lia)). lia.
      * intros d. apply shape_bind; [apply shape_parse_reverse_bit_tree|intros; exact I].
Qed.

Lemma shape_lit_arm p y : shape (lit_arm p y true).
Proof.
  unfold lit_arm. apply shape_bind; [apply shape_decode_literal|].
  intros b. apply shape_simple; [exact I|]. intros; exact I.
Qed.

Lemma shape_rep_select y ps : shape (rep_select y ps true).
Proof.
  unfold rep_select. apply shape_bit. intros g0. destruct g0; cbn [negb].
  - apply shape_bit. intros g1. apply shape_bind.
    + destruct g1; cbn [negb]; [|exact I]. apply shape_bit. intros g2. exact I.
    + intros idx. exact I.
  - apply shape_bit. intros l0. destruct l0; cbn [negb]; [exact I|].
    apply shape_simple; [exact I|]. intros; exact I.
Qed.

Lemma shape_rep_arm y ps : shape (rep_arm y ps true).
Proof.
  unfold rep_arm. apply shape_bind; [apply shape_rep_select|].
  intros [res|r']; [exact I|].
  apply shape_bind; [apply shape_len_decode|].
  intros len. apply shape_simple; [exact I|]. intros; exact I.
Qed.

Lemma shape_match_arm y ps : shape (match_arm y ps true).
Proof.
  unfold match_arm. apply shape_bind; [apply shape_len_decode|].
  intros len. apply shape_bind; [apply shape_decode_distance|].
  intros rep_0. destruct (rep_0 =? 4294967295).
  - cbn [bind call shape op_shape]. split; [exists ELzma; reflexivity|].
    intros x _. destruct x; exact I.
  - apply shape_simple; [exact I|]. intros; exact I.
Qed.

Theorem shape_process_next_inner p y : shape (process_next_inner p y true).
Proof.
  unfold process_next_inner.
  apply shape_simple; [exact I|]. intros len0.
  destruct (63 <? pb p); [exact I|].
  apply shape_bit. intros is_m. destruct is_m; cbn [negb].
  - apply shape_bit. intros is_r. destruct is_r; [apply shape_rep_arm|apply shape_match_arm].
  - apply shape_lit_arm.
Qed.
Print Assumptions shape_process_next_inner.

(* ---------- appends to the circular window leave the sink's flush state alone ---------- *)
Definition snk_same (k k' : snk) : Prop := k_ffail k' = k_ffail k /\ k_flushes k' = k_flushes k.

Lemma snk_same_refl k : snk_same k k.
Proof. split; reflexivity. Qed.
Lemma snk_same_trans k1 k2 k3 : snk_same k1 k2 -> snk_same k2 k3 -> snk_same k1 k3.
Proof. intros [A1 A2] [B1 B2]. split; congruence. Qed.

Lemma write_all_loop_frame fuel : forall bs w,
  snk_same (i_snk w) (i_snk (snd (interp io_h (write_all_loop fuel bs) w))).
Proof.
  induction fuel as [|fuel IH]; intros bs w; destruct bs as [|x t]; cbn [write_all_loop interp snd];
    try apply snk_same_refl.
  rewrite interp_bind, interp_call. cbn [io_h]. unfold snk_write.
  destruct (match k_wfail (i_snk w) with Some j => j =? k_calls (i_snk w) | None => false end).
  - cbn [snd i_snk]. split; reflexivity.
  - set (n := nmin_len _ _). clearbody n.
    destruct (n =? 0).
    + cbn [interp snd i_snk]. split; reflexivity.
    + eapply snk_same_trans; [|apply IH]. cbn [i_snk]. split; reflexivity.
Qed.

Lemma snk_run_write_all_frame bs k : snk_same k (snd (snk_run (write_all bs) k)).
Proof.
  unfold snk_run, run_io, write_all.
  pose proof (write_all_loop_frame (length bs) bs (mkIo (cursor_of []) k)) as H.
  destruct (interp io_h (write_all_loop (length bs) bs) (mkIo (cursor_of []) k)) as [r w].
  cbn [snd i_snk] in *. exact H.
Qed.

Lemma circ_set_snk b i v : c_snk (snd (circ_set b i v)) = c_snk b.
Proof.
  unfold circ_set. destruct (c_blen b <? i + 1); [destruct (i + 1 <=? c_mem b)|]; reflexivity.
Qed.

Lemma circ_append_literal_frame b lit : snk_same (c_snk b) (c_snk (snd (circ_append_literal b lit))).
Proof.
  unfold circ_append_literal.
  pose proof (circ_set_snk b (c_cursor b) lit) as Hs.
  destruct (circ_set b (c_cursor b) lit) as [[u|e|w] b1]; cbn [snd] in *;
    try (rewrite Hs; apply snk_same_refl).
  destruct (c_cursor b1 + 1 =? c_dict b1).
  - pose proof (snk_run_write_all_frame (map_slice (c_buf b1) 0 (c_blen b1)) (c_snk b1)) as F.
    destruct (snk_run (write_all (map_slice (c_buf b1) 0 (c_blen b1))) (c_snk b1)) as [[u'|e|w] k];
      cbn [snd c_snk] in *; rewrite <- Hs; exact F.
  - cbn [snd c_snk]. rewrite Hs. apply snk_same_refl.
Qed.

Lemma circ_lz_loop_frame n : forall b offset, snk_same (c_snk b) (c_snk (snd (circ_lz_loop n b offset))).
Proof.
  induction n as [|n IH]; intros b offset; cbn [circ_lz_loop snd]; [apply snk_same_refl|].
  pose proof (circ_append_literal_frame b (circ_get b offset)) as F.
  destruct (circ_append_literal b (circ_get b offset)) as [[u|e|w] b1]; cbn [snd] in *; try exact F.
  eapply snk_same_trans; [exact F|apply IH].
Qed.

Lemma circ_append_lz_frame b len dist : snk_same (c_snk b) (c_snk (snd (circ_append_lz b len dist))).
Proof.
  unfold circ_append_lz.
  destruct (c_dict b <? dist); [apply snk_same_refl|].
  destruct (c_len b <? dist); [apply snk_same_refl|].
  destruct (c_dict b =? 0); [apply snk_same_refl|].
  apply circ_lz_loop_frame.
Qed.
