(* C07, memory clause (M1): the LZMA decoder (lzma_decompress, LzmaDecoder::{new,reset,decompress}).

   For ARBITRARY input bytes, any options, any reader fragmentation / failure and any sink
   behaviour, in EVERY state the main loop of the decoder passes through (and in the state it
   stops in, whatever the verdict):
     - the window buffer holds at most min(bytes produced so far, dictionary size, memlimit) bytes;
       right after construction it holds 0 bytes, whatever dictionary size and unpacked size the
       header announces;
     - partial_input_buf holds at most 20 bytes;
     - the probability tables have the constant shape fixed by lc + lp (<= 0x300 * 2^12 + 1847 cells).
   Hence  footprint <= FOOT_CONST + produced. *)
From LZ Require Import Base.Prelude Base.Prog Model.Io Model.Tables Model.LzBuffer Model.RangeDec Model.Lzma.
From LZ Require Import Proofs.ProgLemmas Proofs.IoLemmas Proofs.StreamLatch Proofs.StreamPrefix Proofs.SizeRules Proofs.ResetFresh
  Proofs.FaultProp Proofs.MemLimitRun Proofs.MemLimitStream Proofs.FootprintCore.
Local Open Scope prog_scope.

(* ------------------------------------------------------------------ *)
(* the window of these entry points is always the circular buffer       *)
(* ------------------------------------------------------------------ *)
Lemma pm_iter_circ mode n w : is_circ (l_win w) -> is_circ (l_win (res_state (iter_step n (pm_body mode) w))).
Proof.
  intros H.
  pose proof (iter_step_inv (pm_body mode) (fun w => is_circ (l_win w)) (fun r : pm_result => is_circ (l_win (snd r)))) as L.
  assert (H1 : forall s s', is_circ (l_win s) -> pm_body mode s = Next s' -> is_circ (l_win s')).
  { intros s s' Hs E. pose proof (pm_body_keep is_circ true is_circ_lit is_circ_lz mode s Hs) as K. rewrite E in K. exact K. }
  assert (H2 : forall s r, is_circ (l_win s) -> pm_body mode s = Break r -> is_circ (l_win (snd r))).
  { intros s r Hs E. pose proof (pm_body_keep is_circ true is_circ_lit is_circ_lz mode s Hs) as K. rewrite E in K.
    apply K. right. reflexivity. }
  specialize (L H1 H2 n w H). destruct (iter_step n (pm_body mode) w) as [w'|[o w']]; exact L.
Qed.

(* the bounds of M1, on one decoding world whose window was created with [dict] and [mem] *)
Definition lzma_foot_ok (dict mem : N) (x : lw) : Prop :=
  nlen (ds_pib (l_ds x)) <= MAX_REQUIRED_INPUT /\
  tabs_size (ds_tabs (l_ds x)) <= TABS_MAX /\
  win_alloc (l_win x) <= N.min (N.min (win_len (l_win x)) dict) mem /\
  lw_footprint x <= FOOT_CONST + win_len (l_win x).

Lemma LwBound_circ_ok dict mem x : LwBound dict mem x -> is_circ (l_win x) -> lzma_foot_ok dict mem x.
Proof.
  intros HB Hc. destruct (LwBound_footprint dict mem x HB) as (H1 & H2 & H3 & H4).
  repeat split; try assumption.
  destruct HB as [_ Hw]. destruct (l_win x) as [c|a]; [|contradiction].
  cbn [win_alloc win_len]. apply WinBound_circ. exact Hw.
Qed.

(* ------------------------------------------------------------------ *)
(* the loop of any decoder world that starts from a fresh circular buffer *)
(* ------------------------------------------------------------------ *)
(* every iteration, both modes, any input *)
Theorem lzma_loop_footprint mode d r s k dict mem n :
  DsFoot d -> 0 < dict ->
  lzma_foot_ok dict mem (res_state (iter_step n (pm_body mode) (mkLw d r s (WCirc (circ_new k dict mem))))).
Proof.
  intros Hd Hdict.
  assert (H0 : LwFoot dict mem (mkLw d r s (WCirc (circ_new k dict mem)))).
  { split; cbn [l_ds l_win WinFoot]; [exact Hd|apply circ_new_foot; exact Hdict]. }
  apply LwBound_circ_ok.
  - apply StepFoot_bound, pm_iter_foot. exact H0.
  - apply pm_iter_circ. exact I.
Qed.
Print Assumptions lzma_loop_footprint.

(* the same from any state in which the invariant holds (e.g. a later call on the same objects) *)
Theorem lzma_loop_footprint_from mode dict mem w n :
  LwFoot dict mem w -> is_circ (l_win w) ->
  lzma_foot_ok dict mem (res_state (iter_step n (pm_body mode) w)).
Proof.
  intros H0 Hc. apply LwBound_circ_ok; [apply StepFoot_bound, pm_iter_foot; exact H0|apply pm_iter_circ; exact Hc].
Qed.

(* ------------------------------------------------------------------ *)
(* LzmaDecoder (raw API)                                                *)
(* ------------------------------------------------------------------ *)
Definition DecFoot (dec : lzma_decoder) : Prop := DsFoot (ld_state dec) /\ 0 < pr_dict (ld_params dec).

Theorem lzma_decoder_new_foot p ml dec : lzma_decoder_new p ml = Done dec ->
  DecFoot dec /\ ds_pib (ld_state dec) = [] /\ ld_params dec = p /\ ld_memlimit dec = mem_of ml.
Proof.
  unfold lzma_decoder_new. destruct (N.eqb_spec (pr_dict p) 0) as [E|E]; [discriminate|].
  destruct (dstate_new (pr_props p) (pr_unpacked p)) as [[d|e|q] []] eqn:Ed; try discriminate.
  intros H. inversion H; subst. clear H. destruct (dstate_new_foot _ _ _ Ed) as [H1 H2].
  unfold DecFoot. cbn [ld_state ld_params ld_memlimit].
  assert (Hp : 0 < pr_dict p) by lia.
  split; [split; assumption|]. split; [exact H2|]. split; reflexivity.
Qed.

Theorem lzma_decoder_reset_foot dec us dec' : DecFoot dec -> lzma_decoder_reset dec us = Done dec' -> DecFoot dec'.
Proof.
  intros [Hd Hp]. unfold lzma_decoder_reset.
  destruct (reset_state (ld_state dec) (pr_props (ld_params dec))) as [[d|e|q] []] eqn:Er; try discriminate.
  intros H. inversion H; subst. clear H. pose proof (reset_state_foot _ _ _ Hd Er) as Hd'.
  split; cbn [ld_state ld_params]; [|exact Hp]. destruct us as [u|]; [apply DsFoot_set_unpacked|]; exact Hd'.
Qed.

(* the world in which LzmaDecoder::decompress starts its loop (None: the 5 range-coder bytes are missing) *)
Definition lzma_decoder_start (dec : lzma_decoder) (w : io) : option lw :=
  match src_run (map_io_err ELzma rc_new) (i_src w) with
  | (Done r, s) => Some (mkLw (ld_state dec) r s (WCirc (circ_new (i_snk w) (pr_dict (ld_params dec)) (ld_memlimit dec))))
  | _ => None
  end.

Lemma lzma_decoder_final_start fuel dec w :
  lzma_decoder_final_lw fuel dec w =
  match lzma_decoder_start dec w with
  | Some w0 => Some (res_state (iter_step (Pos.to_nat fuel) (pm_body FinishMode) w0))
  | None => None
  end.
Proof.
  unfold lzma_decoder_final_lw, lzma_decoder_start.
  destruct (src_run _ _) as [[r|e|q] s]; try reflexivity.
  destruct (process_mode_state FinishMode fuel (mkLw (ld_state dec) r s (WCirc (circ_new (i_snk w) (pr_dict (ld_params dec)) (ld_memlimit dec))))) as [E _].
  rewrite E. reflexivity.
Qed.

(* the window allocated by a fresh decompress call is empty, whatever the parameters say *)
Theorem lzma_decoder_start_empty dec w w0 : lzma_decoder_start dec w = Some w0 ->
  win_alloc (l_win w0) = 0 /\ l_ds w0 = ld_state dec.
Proof.
  unfold lzma_decoder_start. destruct (src_run _ _) as [[r|e|q] s]; try discriminate.
  intros H. inversion H; subst. split; reflexivity.
Qed.

(* every state of the loop of LzmaDecoder::decompress *)
Theorem lzma_decoder_footprint_bounded dec w w0 n : DecFoot dec -> lzma_decoder_start dec w = Some w0 ->
  lzma_foot_ok (pr_dict (ld_params dec)) (ld_memlimit dec) (res_state (iter_step n (pm_body FinishMode) w0)).
Proof.
  intros [Hd Hp]. unfold lzma_decoder_start. destruct (src_run _ _) as [[r|e|q] s]; try discriminate.
  intros H. inversion H; subst. apply lzma_loop_footprint; assumption.
Qed.
Print Assumptions lzma_decoder_footprint_bounded.

(* ... in particular the one it stops in *)
Corollary lzma_decoder_final_footprint fuel dec w x : DecFoot dec -> lzma_decoder_final_lw fuel dec w = Some x ->
  lzma_foot_ok (pr_dict (ld_params dec)) (ld_memlimit dec) x.
Proof.
  intros Hd. rewrite lzma_decoder_final_start. destruct (lzma_decoder_start dec w) as [w0|] eqn:E; [|discriminate].
  intros H. inversion H; subst. exact (lzma_decoder_footprint_bounded dec w w0 _ Hd E).
Qed.

(* what the decoder object keeps after decompress returned (the window is gone): 20 bytes + tables,
   so that any sequence of reset / decompress calls keeps the retained memory constant *)
Theorem lzma_decoder_decompress_keeps fuel dec w : DecFoot dec ->
  DecFoot (fst (snd (lzma_decoder_decompress fuel dec w))).
Proof.
  intros [Hd Hp]. unfold lzma_decoder_decompress. cbv zeta.
  destruct (src_run (map_io_err ELzma rc_new) (i_src w)) as [[r|e|q] s]; cbn [fst snd]; try (split; assumption).
  assert (H0 : LwFoot (pr_dict (ld_params dec)) (ld_memlimit dec)
                 (mkLw (ld_state dec) r s (WCirc (circ_new (i_snk w) (pr_dict (ld_params dec)) (ld_memlimit dec))))).
  { split; cbn [l_ds l_win WinFoot]; [exact Hd|apply circ_new_foot; exact Hp]. }
  pose proof (process_mode_foot _ _ FinishMode fuel _ H0) as [_ [HB _]].
  destruct (process_mode FinishMode fuel _) as [[[]|e|q] x]; cbn [snd] in HB.
  - destruct (l_win x) as [c|a]; [destruct (circ_finish c) as [[[]|e|q] k]|]; cbn [fst snd]; split; cbn [ld_state ld_params]; assumption.
  - cbn [fst snd]. split; cbn [ld_state ld_params]; assumption.
  - cbn [fst snd]. split; cbn [ld_state ld_params]; assumption.
Qed.
Print Assumptions lzma_decoder_decompress_keeps.

(* ------------------------------------------------------------------ *)
(* lzma_decompress                                                      *)
(* ------------------------------------------------------------------ *)
(* the world in which lzma_decompress starts its loop: header parsed, decoder built, range coder primed *)
Definition lzma_start (o : options) (w : io) : option lw :=
  match src_run (map_io_err EHeaderTooShort (read_header o)) (i_src w) with
  | (Done p, s) =>
      match lzma_decoder_new p (o_memlimit o) with
      | Done dec => lzma_decoder_start dec (mkIo s (i_snk w))
      | _ => None
      end
  | _ => None
  end.

(* the dictionary size announced by the header (None: no loop is ever started) *)
Definition lzma_dict (o : options) (w : io) : N :=
  match src_run (map_io_err EHeaderTooShort (read_header o)) (i_src w) with
  | (Done p, _) => pr_dict p
  | _ => 0
  end.

(* the state in which lzma_decompress stops decoding (cf. MemLimitRun.lzma_peak) *)
Definition lzma_final_lw (fuel : positive) (o : options) (w : io) : option lw :=
  match lzma_start o w with
  | Some w0 => Some (res_state (iter_step (Pos.to_nat fuel) (pm_body FinishMode) w0))
  | None => None
  end.

Lemma lzma_peak_final fuel o w :
  lzma_peak fuel o w = match lzma_final_lw fuel o w with Some x => win_blen (l_win x) | None => 0 end.
Proof.
  unfold lzma_peak, lzma_final_lw, lzma_start.
  destruct (src_run _ _) as [[p|e|q] s]; try reflexivity.
  destruct (lzma_decoder_new p (o_memlimit o)) as [dec|e|q]; try reflexivity.
  unfold lzma_decoder_peak. rewrite lzma_decoder_final_start.
  destruct (lzma_decoder_start dec _); reflexivity.
Qed.

(* M1, the summary theorem for lzma_decompress: in every state [x] of the decoding loop - after any
   number [n] of iterations, for any input, options, reader and sink -
     footprint(x) <= FOOT_CONST + bytes produced so far,
   the window holds at most min(produced, announced dictionary size, memory limit) bytes and the
   partial input buffer at most 20. *)
Theorem lzma_footprint_bounded o w w0 n : lzma_start o w = Some w0 ->
  lzma_foot_ok (lzma_dict o w) (mem_of (o_memlimit o)) (res_state (iter_step n (pm_body FinishMode) w0)).
Proof.
  unfold lzma_start, lzma_dict. destruct (src_run _ _) as [[p|e|q] s]; try discriminate.
  destruct (lzma_decoder_new p (o_memlimit o)) as [dec|e|q] eqn:En; try discriminate.
  destruct (lzma_decoder_new_foot _ _ _ En) as (Hd & _ & Ep & Em). intros H.
  pose proof (lzma_decoder_footprint_bounded dec _ w0 n Hd H) as K. rewrite Ep, Em in K. exact K.
Qed.
Print Assumptions lzma_footprint_bounded.

Corollary lzma_final_footprint fuel o w x : lzma_final_lw fuel o w = Some x ->
  lzma_foot_ok (lzma_dict o w) (mem_of (o_memlimit o)) x.
Proof.
  unfold lzma_final_lw. destruct (lzma_start o w) as [w0|] eqn:E; [|discriminate].
  intros H. inversion H; subst. apply lzma_footprint_bounded. exact E.
Qed.

(* the peak of MemLimitRun is within all three bounds *)
Corollary lzma_peak_bounded fuel o w :
  lzma_peak fuel o w <= N.min (lzma_dict o w) (mem_of (o_memlimit o)) /\
  match lzma_final_lw fuel o w with Some x => lzma_peak fuel o w <= win_len (l_win x) | None => lzma_peak fuel o w = 0 end.
Proof.
  rewrite lzma_peak_final. destruct (lzma_final_lw fuel o w) as [x|] eqn:E; [|split; [lia|reflexivity]].
  destruct (lzma_final_footprint fuel o w x E) as (_ & _ & H & _).
  assert (Hc : is_circ (l_win x)).
  { unfold lzma_final_lw in E. destruct (lzma_start o w) as [w0|] eqn:E0; [|discriminate]. inversion E; subst.
    apply pm_iter_circ. unfold lzma_start in E0. destruct (src_run _ _) as [[p|e|q] s]; try discriminate.
    destruct (lzma_decoder_new _ _); try discriminate. unfold lzma_decoder_start in E0.
    destruct (src_run _ _) as [[r|e|q] s']; try discriminate. inversion E0; subst. exact I. }
  destruct (l_win x) as [c|a]; [|contradiction]. cbn [win_blen win_alloc win_len] in *. lia.
Qed.
Print Assumptions lzma_peak_bounded.

(* ------------------------------------------------------------------ *)
(* a header announcing a huge dictionary and a huge size costs nothing  *)
(* ------------------------------------------------------------------ *)
(* general form: whatever the parameters, a decoder that has just been constructed holds an empty
   partial input buffer and tables of at most TABS_MAX cells, and the window it creates when
   decompress is called holds 0 bytes *)
Theorem fresh_decoder_allocates_nothing_gen p ml dec k :
  lzma_decoder_new p ml = Done dec ->
  ds_pib (ld_state dec) = [] /\
  tabs_size (ds_tabs (ld_state dec)) <= TABS_MAX /\
  win_alloc (WCirc (circ_new k (pr_dict (ld_params dec)) (ld_memlimit dec))) = 0 /\
  lw_footprint (mkLw (ld_state dec) (mkRc 0 0) (cursor_of []) (WCirc (circ_new k (pr_dict (ld_params dec)) (ld_memlimit dec))))
    <= 2 * TABS_MAX.
Proof.
  intros H. destruct (lzma_decoder_new_foot _ _ _ H) as ([[_ Ht] _] & Hp & _ & _).
  pose proof (TabsFoot_bound _ Ht) as T.
  repeat split; try assumption; try reflexivity.
  unfold lw_footprint. cbn [l_ds l_win win_alloc circ_new c_blen]. rewrite Hp. unfold nlen. cbn [length]. lia.
Qed.

(* the instance of the task: dict_size = 2^32 - 1, unpacked size 2^63, any properties, any memory limit *)
Theorem fresh_decoder_allocates_nothing props ml dec k :
  lzma_decoder_new (mkParams props 4294967295 (Some 9223372036854775808)) ml = Done dec ->
  win_alloc (WCirc (circ_new k (pr_dict (ld_params dec)) (ld_memlimit dec))) = 0 /\
  ds_pib (ld_state dec) = [] /\
  tabs_size (ds_tabs (ld_state dec)) <= TABS_MAX.
Proof.
  intros H. destruct (fresh_decoder_allocates_nothing_gen _ _ _ k H) as (H1 & H2 & H3 & _). auto.
Qed.
Print Assumptions fresh_decoder_allocates_nothing.

(* and through the header parser of lzma_decompress: the loop starts with an empty window *)
Theorem lzma_start_allocates_nothing o w w0 : lzma_start o w = Some w0 ->
  win_alloc (l_win w0) = 0 /\ ds_pib (l_ds w0) = [] /\ lw_footprint w0 <= 2 * TABS_MAX.
Proof.
  unfold lzma_start. destruct (src_run _ _) as [[p|e|q] s]; try discriminate.
  destruct (lzma_decoder_new p (o_memlimit o)) as [dec|e|q] eqn:En; try discriminate.
  intros H. destruct (lzma_decoder_start_empty _ _ _ H) as [H1 H2].
  destruct (lzma_decoder_new_foot _ _ _ En) as ([[_ Ht] _] & Hp & _ & _).
  pose proof (TabsFoot_bound _ Ht) as T.
  split; [exact H1|]. split; [rewrite H2; exact Hp|].
  unfold lw_footprint. rewrite H1, H2, Hp. unfold nlen. cbn [length]. lia.
Qed.
Print Assumptions lzma_start_allocates_nothing.
