(* The range ENCODER of lzma-rs (encode/rangecoder.rs) emits the numeral of the
   ideal encoder of Format/RefEnc.v.
   Part 0: sink lemmas, big-endian numerals.
   Part 1: the carry lemma for write_low.
   Part 2: refinement of the ideal encoder by encode_bit / renc_finish.
   Part 3: the end marker's probability-0x400 bits are direct bits. *)
From LZ Require Import Base.Prelude Base.Prog Model.Io Model.Enc Format.RefEnc Proofs.ProgLemmas.
From Coq Require Import ZifyBool ZifyNat ZifyN.
Ltac Zify.zify_post_hook ::= Z.div_mod_to_equations.
Local Open Scope N_scope.

(* ====================================================================== *)
(* Part 0a: the sink                                                       *)
(* ====================================================================== *)

(* [k'] is [k] after accepting exactly the bytes [add], no write having failed *)
Definition snk_app (k : snk) (add : list N) (k' : snk) : Prop :=
  k_wfail k' = None /\ snk_bytes k' = snk_bytes k ++ add /\ k_accept k' = k_accept k /\
  k_count k' = k_count k + nlen add /\ k_flushes k' = k_flushes k /\ k_ffail k' = k_ffail k.

Lemma snk_app_nil k : k_wfail k = None -> snk_app k [] k.
Proof.
  intros H. unfold snk_app. rewrite app_nil_r. change (nlen (@nil N)) with 0.
  repeat split; try assumption; lia.
Qed.

Lemma nlen_app {A} (l1 l2 : list A) : nlen (l1 ++ l2) = nlen l1 + nlen l2.
Proof. unfold nlen. rewrite app_length. lia. Qed.
Lemma nlen_cons {A} (a : A) l : nlen (a :: l) = nlen l + 1.
Proof. unfold nlen. cbn [length]. lia. Qed.
Lemma nlen_repeat {A} (a : A) n : nlen (repeat a n) = N.of_nat n.
Proof. unfold nlen. rewrite repeat_length. reflexivity. Qed.

Lemma snk_app_trans k a k1 b k2 : snk_app k a k1 -> snk_app k1 b k2 -> snk_app k (a ++ b) k2.
Proof.
  intros (W1 & B1 & A1 & C1 & F1 & G1) (W2 & B2 & A2 & C2 & F2 & G2). unfold snk_app.
  rewrite B2, B1, A2, A1, C2, C1, F2, F1, G2, G1, nlen_app, app_assoc.
  repeat split; try assumption; lia.
Qed.

Lemma nmin_len_spec {A} n (l : list A) : nmin_len n l = N.min n (nlen l).
Proof.
  unfold nmin_len. destruct (N.ltb_spec n 1048576); [|reflexivity].
  unfold nlen, nfirstn. rewrite firstn_length. lia.
Qed.

Lemma snk_write_ok k bs : k_wfail k = None -> bs <> [] ->
  exists n k', snk_write k bs = HOk n k' /\ 1 <= n <= nlen bs /\ snk_app k (nfirstn n bs) k'.
Proof.
  intros Hw Hbs. unfold snk_write. rewrite Hw.
  set (n := nmin_len _ bs).
  assert (Hn : 1 <= n <= nlen bs).
  { unfold n. rewrite nmin_len_spec. destruct bs as [|b t]; [congruence|]. rewrite nlen_cons. lia. }
  eexists; eexists; split; [reflexivity|]. split; [exact Hn|].
  unfold snk_app, snk_bytes. cbn [k_wfail k_out k_accept k_count k_flushes k_ffail].
  repeat split; try assumption; try reflexivity.
  - rewrite !lrev_rev, rev_append_rev, rev_app_distr, rev_involutive. reflexivity.
  - f_equal. unfold nlen, nfirstn. rewrite firstn_length. unfold nlen in Hn. lia.
Qed.

Lemma write_all_loop_ok fuel : forall bs s k, (length bs <= fuel)%nat -> k_wfail k = None ->
  exists k', run_io (write_all_loop fuel bs) (mkIo s k) = (Done tt, mkIo s k') /\ snk_app k bs k'.
Proof.
  induction fuel as [|f IH]; intros bs s k Hlen Hw.
  - destruct bs; [|cbn [length] in Hlen; lia]. exists k. split; [reflexivity|]. apply snk_app_nil; assumption.
  - destruct bs as [|b t].
    + exists k. split; [reflexivity|]. apply snk_app_nil; assumption.
    + set (bs := b :: t) in *.
      destruct (snk_write_ok k bs Hw) as (n & k1 & E & Hn & Happ); [discriminate|].
      assert (Hw1 : k_wfail k1 = None) by apply Happ.
      assert (Hlen2 : (length (nskipn n bs) <= f)%nat).
      { unfold nskipn. rewrite skipn_length. unfold nlen in Hn. lia. }
      destruct (IH (nskipn n bs) s k1 Hlen2 Hw1) as (k2 & E2 & Happ2).
      exists k2. split.
      * unfold run_io in *. unfold bs at 1. cbn [write_all_loop]. fold bs.
        rewrite interp_bind, interp_call. cbn [io_h i_snk i_src]. rewrite E.
        destruct (N.eqb_spec n 0); [lia|]. exact E2.
      * assert (Hsplit : snk_app k (nfirstn n bs ++ nskipn n bs) k2) by (eapply snk_app_trans; eassumption).
        unfold nfirstn, nskipn in Hsplit. rewrite firstn_skipn in Hsplit. exact Hsplit.
Qed.

Lemma write_all_ok bs s k : k_wfail k = None ->
  exists k', run_io (write_all bs) (mkIo s k) = (Done tt, mkIo s k') /\ snk_app k bs k'.
Proof. intros Hw. apply write_all_loop_ok; [apply Nat.le_refl|assumption]. Qed.

Lemma write_u8_ok b s k : k_wfail k = None ->
  exists k', run_io (write_u8 b) (mkIo s k) = (Done tt, mkIo s k') /\ snk_app k [b] k'.
Proof. apply write_all_ok. Qed.

(* the statement asked for in the task *)
Lemma write_u8_spec b s k : k_wfail k = None ->
  exists k', run_io (write_u8 b) (mkIo s k) = (Done tt, mkIo s k') /\
             snk_bytes k' = snk_bytes k ++ [b] /\ k_wfail k' = None.
Proof. intros Hw. destruct (write_u8_ok b s k Hw) as (k' & E & W & B & _). eauto. Qed.
Lemma write_all_spec bs s k : k_wfail k = None ->
  exists k', run_io (write_all bs) (mkIo s k) = (Done tt, mkIo s k') /\
             snk_bytes k' = snk_bytes k ++ bs /\ k_wfail k' = None.
Proof. intros Hw. destruct (write_all_ok bs s k Hw) as (k' & E & W & B & _). eauto. Qed.

(* ====================================================================== *)
(* Part 0b: big-endian numerals                                            *)
(* ====================================================================== *)

Definition bytes (l : list N) : Prop := Forall (fun b => b < 256) l.

Lemma be_num_acc_spec l : forall acc, be_num_acc acc l = acc * 256 ^ nlen l + be_num l.
Proof.
  induction l as [|b t IH]; intros acc.
  - change (nlen (@nil N)) with 0. cbn [be_num_acc]. unfold be_num. cbn [be_num_acc]. rewrite N.pow_0_r. lia.
  - unfold be_num. cbn [be_num_acc]. rewrite (IH (acc * 256 + b)), (IH (0 * 256 + b)).
    rewrite nlen_cons, N.add_1_r, N.pow_succ_r'. ring.
Qed.

Lemma be_num_nil : be_num [] = 0.
Proof. reflexivity. Qed.
Lemma be_num_cons b t : be_num (b :: t) = b * 256 ^ nlen t + be_num t.
Proof. unfold be_num at 1. cbn [be_num_acc]. rewrite be_num_acc_spec. ring. Qed.

Lemma be_num_app l1 l2 : be_num (l1 ++ l2) = be_num l1 * 256 ^ nlen l2 + be_num l2.
Proof.
  induction l1 as [|b t IH]; cbn [app].
  - rewrite be_num_nil. lia.
  - rewrite !be_num_cons, IH, nlen_app, N.pow_add_r. ring.
Qed.

(* num (repeat v k) * 255 + v = v * 256^k *)
Lemma be_num_repeat v k : be_num (repeat v k) * 255 + v = v * 256 ^ N.of_nat k.
Proof.
  induction k as [|k IH]; cbn [repeat].
  - rewrite be_num_nil. change (N.of_nat 0) with 0. rewrite N.pow_0_r. lia.
  - rewrite be_num_cons, nlen_repeat, Nat2N.inj_succ, N.pow_succ_r'.
    set (q := 256 ^ N.of_nat k) in *. clearbody q. lia.
Qed.
Lemma be_num_ff k : be_num (repeat 255 k) + 1 = 256 ^ N.of_nat k.
Proof. pose proof (be_num_repeat 255 k). lia. Qed.
Lemma be_num_00 k : be_num (repeat 0 k) = 0.
Proof. pose proof (be_num_repeat 0 k). lia. Qed.

Lemma bytes_repeat v k : v < 256 -> bytes (repeat v k).
Proof. intros Hv. apply Forall_forall. intros x Hx. apply repeat_spec in Hx. subst. exact Hv. Qed.
Lemma bytes_app l1 l2 : bytes l1 -> bytes l2 -> bytes (l1 ++ l2).
Proof. intros. apply Forall_app. split; assumption. Qed.

Lemma pow256_pos n : 0 < 256 ^ n.
Proof. assert (256 ^ n <> 0) by (apply N.pow_nonzero; lia). lia. Qed.

Lemma be_num_bound l : bytes l -> be_num l < 256 ^ nlen l.
Proof.
  induction 1 as [|b t Hb Ht IH].
  - rewrite be_num_nil. apply pow256_pos.
  - rewrite be_num_cons, nlen_cons, N.add_1_r, N.pow_succ_r'.
    set (q := 256 ^ nlen t) in *. clearbody q. nia.
Qed.

(* a numeral of given length determines its digits *)
Lemma be_num_inj l1 : forall l2, bytes l1 -> bytes l2 -> length l1 = length l2 ->
  be_num l1 = be_num l2 -> l1 = l2.
Proof.
  induction l1 as [|a t1 IH]; intros [|b t2] H1 H2 Hl Hn; try discriminate; [reflexivity|].
  inversion H1 as [|? ? Ha Ht1]; subst. inversion H2 as [|? ? Hb Ht2]; subst.
  injection Hl as Hl.
  rewrite !be_num_cons in Hn.
  assert (Hq : nlen t1 = nlen t2) by (unfold nlen; congruence). rewrite Hq in Hn.
  pose proof (be_num_bound t1 Ht1) as B1. rewrite Hq in B1.
  pose proof (be_num_bound t2 Ht2) as B2.
  set (q := 256 ^ nlen t2) in *. clearbody q.
  assert (a = b) by nia. subst b.
  f_equal. apply IH; try assumption. lia.
Qed.

Lemma M8_mod x : M8 x = x mod 256.
Proof. unfold M8. change 255 with (N.ones 8). rewrite N.land_ones. reflexivity. Qed.
Lemma M32_mod x : M32 x = x mod 4294967296.
Proof. unfold M32. change 4294967295 with (N.ones 32). rewrite N.land_ones. reflexivity. Qed.
Lemma M8_lt x : M8 x < 256.
Proof. rewrite M8_mod. lia. Qed.

Lemma le_bytes_length n : forall v, length (le_bytes n v) = n.
Proof. induction n as [|n IH]; intros v; cbn [le_bytes length]; [reflexivity|]. rewrite IH. reflexivity. Qed.
Lemma le_bytes_bytes n : forall v, bytes (le_bytes n v).
Proof.
  induction n as [|n IH]; intros v; cbn [le_bytes]; constructor; [|apply IH].
  change 255 with (N.ones 8). rewrite N.land_ones. change (2 ^ 8) with 256. lia.
Qed.
Lemma le_num_le_bytes n : forall v, le_num (le_bytes n v) = v mod 256 ^ N.of_nat n.
Proof.
  induction n as [|n IH]; intros v; cbn [le_bytes le_num].
  - change (N.of_nat 0) with 0. rewrite N.pow_0_r, N.mod_1_r. reflexivity.
  - rewrite IH, Nat2N.inj_succ, N.pow_succ_r'. change 255 with (N.ones 8).
    rewrite N.land_ones, N.shiftr_div_pow2. change (2 ^ 8) with 256.
    pose proof (pow256_pos (N.of_nat n)) as Hq.
    set (q := 256 ^ N.of_nat n) in *. clearbody q.
    rewrite N.mod_mul_r by lia. reflexivity.
Qed.
Lemma be_num_rev l : be_num (rev l) = le_num l.
Proof.
  induction l as [|b t IH]; cbn [rev le_num]; [reflexivity|].
  rewrite be_num_app, IH, be_num_cons, be_num_nil. change (nlen [b]) with 1. change (nlen (@nil N)) with 0.
  rewrite N.pow_0_r, N.pow_1_r. lia.
Qed.
Lemma be_bytes_length n v : length (be_bytes n v) = n.
Proof. unfold be_bytes. rewrite lrev_rev, rev_length. apply le_bytes_length. Qed.
Lemma be_bytes_bytes n v : bytes (be_bytes n v).
Proof. unfold be_bytes. rewrite lrev_rev. apply Forall_rev. apply le_bytes_bytes. Qed.
Lemma be_num_be_bytes n v : be_num (be_bytes n v) = v mod 256 ^ N.of_nat n.
Proof. unfold be_bytes. rewrite lrev_rev, be_num_rev. apply le_num_le_bytes. Qed.

(* ====================================================================== *)
(* Part 1: the carry lemma                                                 *)
(* ====================================================================== *)

(* what write_low does, as a pure function: the bytes it emits and the next state *)
Definition wl_flush (e : renc) : bool := (e_low e <? 4278190080) || (4294967295 <? e_low e).
Definition wl_add (e : renc) : list N :=
  if wl_flush e then
    let c := M8 (N.shiftr (e_low e) 32) in
    M8 (e_cache e + c) :: repeat (M8 (255 + c)) (N.to_nat (e_cachesz e - 1))
  else [].
Definition wl_next (e : renc) : renc :=
  if wl_flush e
  then mkRenc (e_range e) (M32 (N.shiftl (e_low e) 8)) (M8 (N.shiftr (e_low e) 24)) 1
  else mkRenc (e_range e) (M32 (N.shiftl (e_low e) 8)) (e_cache e) (e_cachesz e + 1).

Lemma write_low_bytes_ok carry n : forall fuel tmp s k, (S n <= fuel)%nat -> k_wfail k = None ->
  exists k', run_io (write_low_bytes fuel tmp carry (N.of_nat (S n))) (mkIo s k) = (Done tt, mkIo s k') /\
             snk_app k (M8 (tmp + carry) :: repeat (M8 (255 + carry)) n) k'.
Proof.
  induction n as [|n IH]; intros fuel tmp s k Hf Hw; (destruct fuel as [|f]; [lia|]).
  - destruct (write_u8_ok (M8 (tmp + carry)) s k Hw) as (k1 & E1 & A1).
    exists k1. split; [|exact A1].
    unfold run_io in *. cbn [write_low_bytes]. rewrite interp_bind, E1. reflexivity.
  - destruct (write_u8_ok (M8 (tmp + carry)) s k Hw) as (k1 & E1 & A1).
    assert (Hw1 : k_wfail k1 = None) by apply A1.
    destruct (IH f 255 s k1 ltac:(lia) Hw1) as (k2 & E2 & A2).
    exists k2. split.
    + unfold run_io in *. cbn [write_low_bytes]. rewrite interp_bind, E1.
      destruct (N.eqb_spec (N.of_nat (S (S n))) 0); [lia|].
      destruct (N.eqb_spec (N.of_nat (S (S n)) - 1) 0); [lia|].
      replace (N.of_nat (S (S n)) - 1) with (N.of_nat (S n)) by lia. exact E2.
    + cbn [repeat]. change (M8 (tmp + carry) :: M8 (255 + carry) :: repeat (M8 (255 + carry)) n)
        with ([M8 (tmp + carry)] ++ M8 (255 + carry) :: repeat (M8 (255 + carry)) n).
      eapply snk_app_trans; eassumption.
Qed.

Definition wf (e : renc) : Prop := e_cache e <= 255 /\ 1 <= e_cachesz e /\ e_low e < 8589934592.

Lemma write_low_run e s k : 1 <= e_cachesz e -> e_cachesz e + 1 < 4294967296 -> k_wfail k = None ->
  exists k', run_io (write_low e) (mkIo s k) = (Done (wl_next e), mkIo s k') /\ snk_app k (wl_add e) k'.
Proof.
  intros Hc1 Hc2 Hw. unfold write_low, wl_next, wl_add, wl_flush, run_io.
  rewrite interp_bind.
  destruct ((e_low e <? 4278190080) || (4294967295 <? e_low e)).
  - rewrite interp_bind.
    destruct (write_low_bytes_ok (M8 (N.shiftr (e_low e) 32)) (N.to_nat (e_cachesz e - 1))
                (N.to_nat (e_cachesz e)) (e_cache e) s k ltac:(lia) Hw) as (k1 & E1 & A1).
    replace (N.of_nat (S (N.to_nat (e_cachesz e - 1)))) with (e_cachesz e) in E1 by lia.
    unfold run_io in E1. rewrite E1. cbn [interp e_cachesz e_range e_low e_cache].
    change (0 + 1) with 1. change (U32 <=? 1) with false. cbv iota.
    exists k1. split; [reflexivity|exact A1].
  - cbn [interp]. unfold U32. destruct (N.leb_spec 4294967296 (e_cachesz e + 1)); [lia|].
    exists k. split; [reflexivity|]. apply snk_app_nil. exact Hw.
Qed.

Lemma wl_add_bytes e : bytes (wl_add e).
Proof.
  unfold wl_add. destruct (wl_flush e); [|constructor].
  constructor; [apply M8_lt|]. apply bytes_repeat. apply M8_lt.
Qed.

(* the number the encoder state stands for: emitted bytes, then cache, then csz-1 bytes 0xFF,
   then the 32 (33 with carry) bits of low; 4294967296 = 2^32 *)
Definition Val (e : renc) (out : list N) : N :=
  (be_num out * 256 ^ e_cachesz e + e_cache e * 256 ^ (e_cachesz e - 1) + 256 ^ (e_cachesz e - 1) - 1) * 4294967296
  + e_low e.
(* first value that would need a carry into the emitted bytes *)
Definition Top (e : renc) (out : list N) : N := (be_num out + 1) * 256 ^ e_cachesz e * 4294967296.

Lemma wl_next_low e : e_low (wl_next e) = (e_low e * 256) mod 4294967296.
Proof.
  unfold wl_next. destruct (wl_flush e); cbn [e_low]; rewrite M32_mod, N.shiftl_mul_pow2; reflexivity.
Qed.
Lemma wl_next_range e : e_range (wl_next e) = e_range e.
Proof. unfold wl_next. destruct (wl_flush e); reflexivity. Qed.

Lemma pow256_split c : 1 <= c -> 256 ^ c = 256 * 256 ^ (c - 1).
Proof. intros H. replace c with (N.succ (c - 1)) at 1 by lia. apply N.pow_succ_r'. Qed.

Theorem wl_val e out : wf e -> Val e out < Top e out ->
  let e' := wl_next e in let out' := out ++ wl_add e in
  Val e' out' = 256 * Val e out /\ wf e' /\ e_low e' < 4294967296 /\ Val e' out' < Top e' out' /\
  nlen out' + e_cachesz e' = nlen out + e_cachesz e + 1 /\
  (forall r, r <= 16777216 -> Val e out + r <= Top e out -> e_low e + r <= 8589934592 ->
             Val e' out' + 256 * r <= Top e' out').
Proof.
  intros (Hc & Hz & Hl) HT. cbv zeta.
  pose proof (pow256_pos (e_cachesz e - 1)) as Hp.
  pose proof (pow256_split (e_cachesz e) Hz) as Hpz.
  assert (Hk : N.of_nat (N.to_nat (e_cachesz e - 1)) = e_cachesz e - 1) by lia.
  unfold wl_next, wl_add, wl_flush.
  destruct (N.ltb_spec (e_low e) 4278190080) as [HA|HnA]; cbn [orb].
  - (* A: no carry, low's top byte < 0xFF: everything pending becomes final *)
    assert (Hcarry : M8 (N.shiftr (e_low e) 32) = 0).
    { rewrite M8_mod, N.shiftr_div_pow2. change (2 ^ 32) with 4294967296. lia. }
    rewrite Hcarry, !N.add_0_r. cbv zeta.
    assert (E1 : M8 (e_cache e) = e_cache e) by (rewrite M8_mod; lia). rewrite E1.
    change (M8 255) with 255.
    set (k := N.to_nat (e_cachesz e - 1)) in *.
    set (o' := out ++ e_cache e :: repeat 255 k).
    assert (Hnum : be_num o' + 1 = be_num out * 256 ^ e_cachesz e + e_cache e * 256 ^ (e_cachesz e - 1) + 256 ^ (e_cachesz e - 1)).
    { unfold o'. rewrite be_num_app, be_num_cons, nlen_cons, !nlen_repeat, Hk.
      pose proof (be_num_ff k) as Hff. rewrite Hk in Hff.
      replace (e_cachesz e - 1 + 1) with (e_cachesz e) by lia. lia. }
    assert (Hlen : nlen o' = nlen out + e_cachesz e).
    { unfold o'. rewrite nlen_app, nlen_cons, nlen_repeat. lia. }
    unfold Val, Top, wf in *. cbn [e_range e_low e_cache e_cachesz].
    rewrite M32_mod, M8_mod, N.shiftl_mul_pow2, N.shiftr_div_pow2.
    change (2 ^ 8) with 256. change (2 ^ 24) with 16777216.
    change (1 - 1) with 0. rewrite N.pow_0_r, N.pow_1_r. rewrite Hlen.
    rewrite Hpz in *.
    set (q := 256 ^ (e_cachesz e - 1)) in *. clearbody q.
    set (n0 := be_num out) in *. clearbody n0. set (n1 := be_num o') in *. clearbody n1 o'.
    repeat split; lia.
  - destruct (N.ltb_spec 4294967295 (e_low e)) as [HB|HnB]; cbn [orb].
    + (* B: carry into the pending bytes *)
      assert (Hcarry : M8 (N.shiftr (e_low e) 32) = 1).
      { rewrite M8_mod, N.shiftr_div_pow2. change (2 ^ 32) with 4294967296. lia. }
      rewrite Hcarry. cbv zeta. change (M8 (255 + 1)) with 0.
      (* the pending byte cannot be 0xFF: the carry would reach emitted bytes, excluded by Val < Top *)
      assert (Hcache : e_cache e + 1 <= 255).
      { unfold Val, Top in HT. rewrite Hpz in HT.
        set (q := 256 ^ (e_cachesz e - 1)) in *. clearbody q.
        set (n0 := be_num out) in *. clearbody n0. nia. }
      assert (E1 : M8 (e_cache e + 1) = e_cache e + 1) by (rewrite M8_mod; lia). rewrite E1.
      set (k := N.to_nat (e_cachesz e - 1)) in *.
      set (o' := out ++ (e_cache e + 1) :: repeat 0 k).
      assert (Hnum : be_num o' = be_num out * 256 ^ e_cachesz e + e_cache e * 256 ^ (e_cachesz e - 1) + 256 ^ (e_cachesz e - 1)).
      { unfold o'. rewrite be_num_app, be_num_cons, nlen_cons, !nlen_repeat, Hk, be_num_00.
        replace (e_cachesz e - 1 + 1) with (e_cachesz e) by lia. lia. }
      assert (Hlen : nlen o' = nlen out + e_cachesz e).
      { unfold o'. rewrite nlen_app, nlen_cons, nlen_repeat. lia. }
      unfold Val, Top, wf in *. cbn [e_range e_low e_cache e_cachesz].
      rewrite M32_mod, M8_mod, N.shiftl_mul_pow2, N.shiftr_div_pow2.
      change (2 ^ 8) with 256. change (2 ^ 24) with 16777216.
      change (1 - 1) with 0. rewrite N.pow_0_r, N.pow_1_r. rewrite Hlen.
      rewrite Hpz in *.
      set (q := 256 ^ (e_cachesz e - 1)) in *. clearbody q.
      set (n0 := be_num out) in *. clearbody n0. set (n1 := be_num o') in *. clearbody n1 o'.
      repeat split; lia.
    + (* C: low's top byte is 0xFF, defer *)
      rewrite app_nil_r.
      unfold Val, Top, wf in *. cbn [e_range e_low e_cache e_cachesz].
      rewrite M32_mod, N.shiftl_mul_pow2. change (2 ^ 8) with 256.
      replace (e_cachesz e + 1 - 1) with (e_cachesz e) by lia.
      rewrite (N.pow_add_r 256 (e_cachesz e) 1), N.pow_1_r.
      rewrite Hpz in *.
      set (q := 256 ^ (e_cachesz e - 1)) in *. clearbody q.
      set (n0 := be_num out) in *. clearbody n0.
      repeat split; lia.
Qed.

(* the carry lemma, on the model program *)
Theorem write_low_spec e out s k :
  wf e -> e_cachesz e + 1 < 4294967296 -> Val e out < Top e out -> k_wfail k = None ->
  exists e' add k',
    run_io (write_low e) (mkIo s k) = (Done e', mkIo s k') /\
    snk_bytes k' = snk_bytes k ++ add /\ k_wfail k' = None /\ bytes add /\
    let out' := out ++ add in
    Val e' out' = 256 * Val e out /\ wf e' /\ e_low e' < 4294967296 /\ Val e' out' < Top e' out' /\
    nlen out' + e_cachesz e' = nlen out + e_cachesz e + 1 /\ e_range e' = e_range e.
Proof.
  intros Hwf Hc HT Hw.
  destruct (write_low_run e s k ltac:(apply Hwf) Hc Hw) as (k' & E & W & B & _).
  destruct (wl_val e out Hwf HT) as (H1 & H2 & H3 & H4 & H5 & _).
  exists (wl_next e), (wl_add e), k'.
  split; [exact E|]. split; [exact B|]. split; [exact W|]. split; [apply wl_add_bytes|].
  cbv zeta. repeat split; try assumption; try apply H2. apply wl_next_range.
Qed.
Print Assumptions write_low_spec.

(* ====================================================================== *)
(* Part 2: the encoder refines the ideal encoder                            *)
(* ====================================================================== *)

(* [lo] is the lower bound on the range: 2^24 between operations, 2^16 before normalisation.
   The value the encoder stands for IS the ideal low (no scaling: both have been multiplied by 256
   once per normalisation); the ideal low has i_norms + 4 byte digits, the encoder additionally
   carries the leading zero byte that was the initial cache. *)
Definition EncRg (lo : N) (e : renc) (out : list N) (ie : ienc) : Prop :=
  e_range e = i_range ie /\ lo <= i_range ie < 4294967296 /\ wf e /\ bytes out /\
  Val e out = i_low ie /\ Val e out + e_range e <= Top e out /\ e_low e + e_range e <= 8589934592 /\
  nlen out + e_cachesz e = i_norms ie + 1 /\ i_low ie + i_range ie <= 256 ^ (i_norms ie + 4).
Definition EncR : renc -> list N -> ienc -> Prop := EncRg 16777216.

Lemma EncR_init : EncR renc_new [] ienc0.
Proof.
  unfold EncR, EncRg, wf, Val, Top, renc_new, ienc0. cbn [e_range e_low e_cache e_cachesz i_low i_range i_norms].
  rewrite be_num_nil. change (nlen (@nil N)) with 0. change (1 - 1) with 0. change (0 + 4) with 4.
  rewrite N.pow_0_r, N.pow_1_r. change (256 ^ 4) with 4294967296.
  repeat split; try lia. constructor.
Qed.

Lemma EncR_csz lo e out ie : EncRg lo e out ie -> e_cachesz e <= i_norms ie + 1.
Proof. intros (_ & _ & _ & _ & _ & _ & _ & H & _). lia. Qed.

Lemma renc_normalize_done fuel e : 16777216 <= e_range e -> renc_normalize fuel e = Ret e.
Proof.
  intros H. destruct fuel; cbn [renc_normalize]; destruct (N.ltb_spec (e_range e) 16777216); try lia; reflexivity.
Qed.

Lemma Val_range_irrel r e out : Val (mkRenc r (e_low e) (e_cache e) (e_cachesz e)) out = Val e out.
Proof. reflexivity. Qed.
Lemma Top_range_irrel r l e out : Top (mkRenc r l (e_cache e) (e_cachesz e)) out = Top e out.
Proof. reflexivity. Qed.

Lemma renc_normalize_refines fuel e out ie s k :
  EncRg 65536 e out ie -> e_cachesz e + 1 < 4294967296 -> k_wfail k = None ->
  exists e' add k',
    run_io (renc_normalize (S fuel) e) (mkIo s k) = (Done e', mkIo s k') /\ snk_app k add k' /\
    EncR e' (out ++ add) (ienc_norm ie).
Proof.
  intros (Hr & Hrng & Hwf & Hb & HV & HVT & HLR & Hlen & Hid) Hc Hw.
  cbn [renc_normalize]. unfold ienc_norm. rewrite <- Hr.
  destruct (N.ltb_spec (e_range e) 16777216) as [Hsmall|Hbig].
  - set (esh := mkRenc (M32 (N.shiftl (e_range e) 8)) (e_low e) (e_cache e) (e_cachesz e)).
    assert (Hrsh : e_range esh = e_range e * 256).
    { unfold esh. cbn [e_range]. rewrite M32_mod, N.shiftl_mul_pow2. change (2 ^ 8) with 256. lia. }
    assert (Hwfsh : wf esh) by exact Hwf.
    assert (HTsh : Val esh out < Top esh out).
    { change (Val e out < Top e out). lia. }
    destruct (write_low_run esh s k ltac:(apply Hwf) Hc Hw) as (k' & E & A).
    destruct (wl_val esh out Hwfsh HTsh) as (H1 & H2 & H3 & H4 & H5 & H6).
    specialize (H6 (e_range e) ltac:(lia) HVT HLR).
    change (Val esh out) with (Val e out) in *. change (e_cachesz esh) with (e_cachesz e) in *.
    exists (wl_next esh), (wl_add esh), k'. split; [|split; [exact A|]].
    + unfold run_io in *. rewrite interp_bind, E. rewrite renc_normalize_done; [reflexivity|].
      rewrite wl_next_range, Hrsh. lia.
    + unfold EncR, EncRg. cbn [i_low i_range i_norms]. rewrite wl_next_range, Hrsh.
      replace (i_norms ie + 1 + 4) with (N.succ (i_norms ie + 4)) by lia. rewrite N.pow_succ_r'.
      set (P := 256 ^ (i_norms ie + 4)) in *. clearbody P.
      repeat split; try lia; try apply H2.
      apply bytes_app; [exact Hb|apply wl_add_bytes].
  - exists e, [], k. split; [reflexivity|]. split; [apply snk_app_nil; exact Hw|].
    rewrite app_nil_r. unfold EncR, EncRg. repeat split; try assumption; try apply Hwf; lia.
Qed.

Lemma ienc_norm_norms ie : i_norms (ienc_norm ie) <= i_norms ie + 1.
Proof. unfold ienc_norm. destruct (i_range ie <? 16777216); cbn [i_norms]; lia. Qed.
Lemma ienc_bit_norms ie p b : i_norms (ienc_bit ie p b) <= i_norms ie + 1.
Proof. unfold ienc_bit. destruct b; apply (N.le_trans _ _ _ (ienc_norm_norms _)); cbn [i_norms]; lia. Qed.

Theorem encode_bit_refines e out ie prob bit s k :
  EncR e out ie -> 31 <= prob <= 2017 -> e_cachesz e + 1 < 4294967296 -> k_wfail k = None ->
  exists e' add k',
    run_io (encode_bit e prob bit) (mkIo s k) = (Done (prob_upd prob bit, e'), mkIo s k') /\
    snk_app k add k' /\ EncR e' (out ++ add) (ienc_bit ie prob bit).
Proof.
  intros (Hr & Hrng & Hwf & Hb & HV & HVT & HLR & Hlen & Hid) Hp Hc Hw.
  destruct Hwf as (Hwc & Hwz & Hwl).
  unfold encode_bit, ienc_bit, prob_upd. cbv zeta.
  rewrite !N.shiftr_div_pow2. change (2 ^ 11) with 2048. change (2 ^ 5) with 32.
  rewrite <- Hr in *.
  set (d := e_range e / 2048) in *.
  assert (Hd : d = e_range e / 2048) by reflexivity.
  assert (Hd1 : d * 31 <= d * prob) by (apply N.mul_le_mono_l; lia).
  assert (Hd2 : d * prob <= d * 2017) by (apply N.mul_le_mono_l; lia).
  set (bd := d * prob) in *. clearbody bd. clearbody d.
  unfold U32, U64.
  destruct (N.leb_spec 4294967296 bd); [lia|].
  destruct bit.
  - destruct (N.ltb_spec (e_range e) bd); [lia|].
    destruct (N.leb_spec 18446744073709551616 (e_low e + bd)); [lia|].
    set (em := mkRenc (e_range e - bd) (e_low e + bd) (e_cache e) (e_cachesz e)).
    set (im := mkIenc (i_low ie + bd) (e_range e - bd) (i_norms ie)).
    assert (Hm : EncRg 65536 em out im).
    { unfold EncRg, wf, em, im, Val, Top in *. cbn [e_range e_low e_cache e_cachesz i_low i_range i_norms].
      set (P := 256 ^ (i_norms ie + 4)) in *. clearbody P.
      set (q := 256 ^ (e_cachesz e - 1)) in *. clearbody q.
      set (q1 := 256 ^ e_cachesz e) in *. clearbody q1.
      set (n0 := be_num out) in *. clearbody n0.
      repeat split; try assumption; lia. }
    destruct (renc_normalize_refines 4 em out im s k Hm Hc Hw) as (e' & add & k' & E & A & R).
    exists e', add, k'. split; [|split; assumption].
    unfold run_io in *. rewrite interp_bind, E. reflexivity.
  - destruct (N.ltb_spec 2048 prob); [lia|].
    set (em := mkRenc bd (e_low e) (e_cache e) (e_cachesz e)).
    set (im := mkIenc (i_low ie) bd (i_norms ie)).
    assert (Hm : EncRg 65536 em out im).
    { unfold EncRg, wf, em, im, Val, Top in *. cbn [e_range e_low e_cache e_cachesz i_low i_range i_norms].
      set (P := 256 ^ (i_norms ie + 4)) in *. clearbody P.
      set (q := 256 ^ (e_cachesz e - 1)) in *. clearbody q.
      set (q1 := 256 ^ e_cachesz e) in *. clearbody q1.
      set (n0 := be_num out) in *. clearbody n0.
      repeat split; try assumption; lia. }
    destruct (renc_normalize_refines 4 em out im s k Hm Hc Hw) as (e' & add & k' & E & A & R).
    exists e', add, k'. split; [|split; assumption].
    unfold run_io in *. rewrite interp_bind, E. reflexivity.
Qed.
Print Assumptions encode_bit_refines.

(* ---------- renc_finish: five write_low ---------- *)
Fixpoint wl_iter (n : nat) (e : renc) : renc :=
  match n with O => e | S n' => wl_iter n' (wl_next e) end.
Fixpoint wl_adds (n : nat) (e : renc) : list N :=
  match n with O => [] | S n' => wl_add e ++ wl_adds n' (wl_next e) end.

Lemma wl_iter_S_r n : forall e, wl_iter (S n) e = wl_next (wl_iter n e).
Proof. induction n as [|n IH]; intros e; [reflexivity|]. cbn [wl_iter] in *. apply IH. Qed.
Lemma wl_adds_S_r n : forall e, wl_adds (S n) e = wl_adds n e ++ wl_add (wl_iter n e).
Proof.
  induction n as [|n IH]; intros e.
  - cbn [wl_adds wl_iter]. rewrite app_nil_r. reflexivity.
  - change (wl_adds (S (S n)) e) with (wl_add e ++ wl_adds (S n) (wl_next e)).
    rewrite IH. cbn [wl_adds wl_iter]. rewrite app_assoc. reflexivity.
Qed.

Lemma wl_next_csz e : 1 <= e_cachesz (wl_next e) <= e_cachesz e + 1.
Proof. unfold wl_next. destruct (wl_flush e); cbn [e_cachesz]; lia. Qed.

Lemma renc_finish_loop_run n : forall e s k,
  1 <= e_cachesz e -> e_cachesz e + N.of_nat n < 4294967296 -> k_wfail k = None ->
  exists k', run_io (renc_finish_loop n e) (mkIo s k) = (Done (wl_iter n e), mkIo s k') /\
             snk_app k (wl_adds n e) k'.
Proof.
  induction n as [|n IH]; intros e s k H1 H2 Hw.
  - exists k. split; [reflexivity|]. apply snk_app_nil. exact Hw.
  - destruct (write_low_run e s k H1 ltac:(lia) Hw) as (k1 & E1 & A1).
    pose proof (wl_next_csz e) as Hcz.
    destruct (IH (wl_next e) s k1 ltac:(lia) ltac:(lia) ltac:(apply A1)) as (k2 & E2 & A2).
    exists k2. split.
    + unfold run_io in *. cbn [renc_finish_loop wl_iter]. rewrite interp_bind, E1. exact E2.
    + cbn [wl_adds]. eapply snk_app_trans; eassumption.
Qed.

Lemma wl_iter_val n : forall e out, wf e -> Val e out < Top e out ->
  let e' := wl_iter n e in let out' := out ++ wl_adds n e in
  Val e' out' = 256 ^ N.of_nat n * Val e out /\ wf e' /\ Val e' out' < Top e' out' /\
  nlen out' + e_cachesz e' = nlen out + e_cachesz e + N.of_nat n /\ bytes (wl_adds n e) /\
  e_low e' mod 4294967296 = (e_low e * 256 ^ N.of_nat n) mod 4294967296 /\
  ((1 <= n)%nat -> e_low e' < 4294967296).
Proof.
  induction n as [|n IH]; intros e out Hwf HT; cbv zeta.
  - cbn [wl_iter wl_adds]. rewrite app_nil_r. change (N.of_nat 0) with 0. rewrite N.pow_0_r, N.mul_1_r.
    repeat split; try assumption; try apply Hwf; try lia. constructor.
  - destruct (wl_val e out Hwf HT) as (H1 & H2 & H3 & H4 & H5 & _).
    destruct (IH (wl_next e) (out ++ wl_add e) H2 H4) as (I1 & I2 & I3 & I4 & I5 & I6 & I7).
    cbn [wl_iter wl_adds]. rewrite app_assoc.
    rewrite Nat2N.inj_succ, N.pow_succ_r'.
    split; [rewrite I1, H1; ring|]. split; [exact I2|]. split; [exact I3|]. split; [lia|].
    split; [apply bytes_app; [apply wl_add_bytes|exact I5]|]. split.
    + rewrite I6, wl_next_low, N.mul_mod_idemp_l by lia. f_equal. ring.
    + intros _. destruct n as [|n]; [exact H3|]. apply I7. lia.
Qed.

Theorem renc_finish_app e out ie s k :
  EncR e out ie -> e_cachesz e + 5 < 4294967296 -> k_wfail k = None ->
  exists e' add k',
    run_io (renc_finish e) (mkIo s k) = (Done e', mkIo s k') /\ snk_app k add k' /\
    out ++ add = ienc_bytes ie 0.
Proof.
  intros (Hr & Hrng & Hwf & Hb & HV & HVT & HLR & Hlen & Hid) Hc Hw.
  assert (HT : Val e out < Top e out) by lia.
  destruct (renc_finish_loop_run 5 e s k ltac:(apply Hwf) ltac:(exact Hc) Hw) as (k' & E & A).
  exists (wl_iter 5 e), (wl_adds 5 e), k'. split; [exact E|]. split; [exact A|].
  rewrite wl_adds_S_r, app_assoc.
  destruct (wl_iter_val 4 e out Hwf HT) as (I1 & I2 & I3 & I4 & I5 & I6 & I7).
  set (e4 := wl_iter 4 e) in *. set (out4 := out ++ wl_adds 4 e) in *.
  assert (Hb4 : bytes out4) by (apply bytes_app; assumption).
  assert (Hlow : e_low e4 = 0).
  { specialize (I7 ltac:(lia)). change (N.of_nat 4) with 4 in I6. change (256 ^ 4) with 4294967296 in I6.
    rewrite N.mod_mul in I6 by lia. rewrite N.mod_small in I6 by exact I7. exact I6. }
  destruct (wl_val e4 out4 I2 I3) as (H1 & _ & _ & _ & H5 & _).
  assert (Hadd : bytes (wl_add e4)) by apply wl_add_bytes.
  assert (Hnext : wl_next e4 = mkRenc (e_range e4) 0 0 1).
  { unfold wl_next, wl_flush. rewrite Hlow. reflexivity. }
  rewrite Hnext in H1, H5. clear Hnext.
  set (out5 := out4 ++ wl_add e4) in *.
  assert (Hb5 : bytes out5) by (apply bytes_app; assumption).
  clearbody out5.
  unfold Val in H1 at 1. cbn [e_low e_cache e_cachesz] in H1, H5.
  change (1 - 1) with 0 in H1. rewrite N.pow_0_r, N.pow_1_r in H1.
  change (N.of_nat 4) with 4 in *. change (256 ^ 4) with 4294967296 in I1.
  assert (Hnum : be_num out5 = i_low ie).
  { rewrite I1, HV in H1. lia. }
  assert (Hlen5 : nlen out5 = i_norms ie + 5) by lia.
  assert (HL : i_low ie < 256 ^ (i_norms ie + 4)) by lia.
  unfold ienc_bytes. rewrite N.add_0_r.
  apply be_num_inj.
  - exact Hb5.
  - constructor; [lia|apply be_bytes_bytes].
  - cbn [length]. rewrite be_bytes_length. unfold nlen in Hlen5. lia.
  - rewrite be_num_cons, be_num_be_bytes, N2Nat.id, Hnum, N.mod_small by exact HL. lia.
Qed.

Theorem renc_finish_spec e out ie s k pre :
  EncR e out ie -> e_cachesz e + 5 < 4294967296 -> k_wfail k = None -> snk_bytes k = pre ++ out ->
  exists e' k',
    run_io (renc_finish e) (mkIo s k) = (Done e', mkIo s k') /\ k_wfail k' = None /\
    snk_bytes k' = pre ++ ienc_bytes ie 0.
Proof.
  intros HR Hc Hw Hpre.
  destruct (renc_finish_app e out ie s k HR Hc Hw) as (e' & add & k' & E & (W & B & _) & Hout).
  exists e', k'. split; [exact E|]. split; [exact W|].
  rewrite B, Hpre, <- app_assoc, Hout. reflexivity.
Qed.
Print Assumptions renc_finish_spec.

(* ---------- any sequence of coded bits, then finish ---------- *)
Fixpoint encode_steps (steps : list (N * bool)) (e : renc) : prog ioE renc :=
  match steps with
  | [] => Ret e
  | pb :: t => bind (encode_bit e (fst pb) (snd pb)) (fun r => encode_steps t (snd r))
  end.
Definition ienc_steps (steps : list (N * bool)) (ie : ienc) : ienc :=
  fold_left (fun ie pb => ienc_bit ie (fst pb) (snd pb)) steps ie.

Lemma encode_steps_refines steps : forall e out ie s k,
  EncR e out ie -> Forall (fun pb => 31 <= fst pb <= 2017) steps ->
  i_norms ie + nlen steps + 1 < 4294967296 -> k_wfail k = None ->
  exists e' add k',
    run_io (encode_steps steps e) (mkIo s k) = (Done e', mkIo s k') /\ snk_app k add k' /\
    EncR e' (out ++ add) (ienc_steps steps ie) /\
    i_norms (ienc_steps steps ie) <= i_norms ie + nlen steps.
Proof.
  induction steps as [|[p b] t IH]; intros e out ie s k HR Hf Hn Hw.
  - exists e, [], k. split; [reflexivity|]. split; [apply snk_app_nil; exact Hw|].
    rewrite app_nil_r. split; [exact HR|]. cbn [ienc_steps fold_left]. lia.
  - inversion Hf as [|? ? Hp Hf']; subst. cbn [fst] in Hp. rewrite nlen_cons in Hn.
    pose proof (EncR_csz _ _ _ _ HR) as Hcz.
    destruct (encode_bit_refines e out ie p b s k HR Hp ltac:(lia) Hw) as (e1 & a1 & k1 & E1 & A1 & R1).
    pose proof (ienc_bit_norms ie p b) as Hn1.
    destruct (IH e1 (out ++ a1) (ienc_bit ie p b) s k1 R1 Hf' ltac:(lia) ltac:(apply A1))
      as (e2 & a2 & k2 & E2 & A2 & R2 & Hn2).
    exists e2, (a1 ++ a2), k2. split; [|split; [eapply snk_app_trans; eassumption|]].
    + unfold run_io in *. cbn [encode_steps fst snd]. rewrite interp_bind, E1. exact E2.
    + rewrite app_assoc. split; [exact R2|].
      change (ienc_steps ((p, b) :: t) ie) with (ienc_steps t (ienc_bit ie p b)). rewrite nlen_cons. lia.
Qed.

Theorem dumb_encoder_payload steps s k :
  Forall (fun pb => 31 <= fst pb <= 2017) steps -> nlen steps + 6 < 4294967296 -> k_wfail k = None ->
  exists e' k',
    run_io (bind (encode_steps steps renc_new) renc_finish) (mkIo s k) = (Done e', mkIo s k') /\
    k_wfail k' = None /\
    snk_bytes k' = snk_bytes k ++ ienc_bytes (ienc_steps steps ienc0) 0.
Proof.
  intros Hf Hn Hw.
  destruct (encode_steps_refines steps renc_new [] ienc0 s k EncR_init Hf
              ltac:(change (i_norms ienc0) with 0; lia) Hw) as (e1 & a1 & k1 & E1 & A1 & R1 & Hn1).
  change (i_norms ienc0) with 0 in Hn1.
  pose proof (EncR_csz _ _ _ _ R1) as Hcz.
  destruct A1 as (W1 & B1 & _).
  destruct (renc_finish_spec e1 ([] ++ a1) _ s k1 (snk_bytes k) R1 ltac:(lia) W1 B1) as (e2 & k2 & E2 & W2 & B2).
  exists e2, k2. split; [|split; assumption].
  unfold run_io in *. rewrite interp_bind, E1. exact E2.
Qed.
Print Assumptions dumb_encoder_payload.

(* encode_fixed_bits is encode_steps on a constant list *)
Lemma encode_fixed_bits_run n : forall e bit w,
  run_io (encode_fixed_bits n e bit) w = run_io (encode_steps (repeat (1024, bit) n) e) w.
Proof.
  induction n as [|n IH]; intros e bit w; [reflexivity|].
  cbn [encode_fixed_bits repeat encode_steps fst snd]. unfold run_io in *. rewrite !interp_bind.
  destruct (interp io_h (encode_bit e 1024 bit) w) as [[[p e']|?|?] w']; [apply IH|reflexivity|reflexivity].
Qed.

(* ====================================================================== *)
(* Part 3: the end marker                                                  *)
(* ====================================================================== *)

(* range component of the ideal encoder's steps *)
Definition rnorm (R : N) : N := if R <? 16777216 then R * 256 else R.
Definition zstep (R : N) : N := rnorm (R / 2048 * 1024).            (* prob 0x400, bit 0 *)
Definition ostep (R : N) : N := rnorm (R - R / 2048 * 1024).        (* prob 0x400, bit 1 *)
Definition dstep (R : N) : N := rnorm (R / 2).                      (* direct bit        *)

Lemma ienc_norm_range e : i_range (ienc_norm e) = rnorm (i_range e).
Proof. unfold ienc_norm, rnorm. destruct (i_range e <? 16777216); reflexivity. Qed.
Lemma ienc_bit_range e b : i_range (ienc_bit e 1024 b) = (if b then ostep else zstep) (i_range e).
Proof. unfold ienc_bit. rewrite ienc_norm_range. destruct b; reflexivity. Qed.
Lemma ienc_direct_range e b : i_range (ienc_direct e b) = dstep (i_range e).
Proof. unfold ienc_direct. rewrite ienc_norm_range. reflexivity. Qed.

Definition Phase (i : N) (R : N) : Prop :=
  0 <= i <= 7 /\ (2 ^ (11 + i) | R) /\ 2 ^ (24 + i) <= R < 2 ^ (25 + i).
Definition Pre (j : N) (R : N) : Prop := (1024 | R) /\ 16777216 <= R <= 2 ^ j.
Definition PQ (j : N) (R : N) : Prop := (exists i, Phase i R) \/ Pre j R.

(* evaluate closed powers of two everywhere, touching nothing else *)
Ltac pows :=
  repeat match goal with
  | |- context [2 ^ ?k] => let v := eval vm_compute in (2 ^ k) in change (2 ^ k) with v
  | H : context [2 ^ ?k] |- _ => let v := eval vm_compute in (2 ^ k) in change (2 ^ k) with v in H
  end.
Ltac cases_i i Hi :=
  let Hc := fresh in
  assert (Hc: i = 0 \/ i = 1 \/ i = 2 \/ i = 3 \/ i = 4 \/ i = 5 \/ i = 6 \/ i = 7) by lia;
  destruct Hc as [->|[->|[->|[->|[->|[->|[->| ->]]]]]]].
Ltac ltbs := repeat match goal with |- context [?a <? ?b] => destruct (N.ltb_spec a b) end.

Lemma phase_step i R : Phase i R ->
  R / 2048 * 1024 = R / 2 /\ R - R / 2 = R / 2 /\
  Phase (if i =? 0 then 7 else i - 1) (dstep R).
Proof.
  intros (Hi & (m & HR) & Hlo & Hhi). unfold dstep, rnorm, Phase, N.divide.
  cases_i i Hi; pows; change (_ =? 0) with false || change (0 =? 0) with true; cbv iota; pows.
  all: ltbs; try lia.
  all: split; [lia|split; [lia|split; [lia|]]].
  all: pows.
  all: split; [exists m; lia|lia].
Qed.

Lemma phase_steps i R : Phase i R -> ostep R = dstep R /\ zstep R = dstep R.
Proof.
  intros H. destruct (phase_step i R H) as (E1 & E2 & _). unfold ostep, zstep, dstep. rewrite E1, E2. split; reflexivity.
Qed.

(* once the range is in a phase, coding with probability 0x400 IS direct coding *)
Lemma ienc_bit_1024_direct_gen e b : (exists i, Phase i (i_range e)) ->
  ienc_bit e 1024 b = ienc_direct e b /\ exists i', Phase i' (i_range (ienc_direct e b)).
Proof.
  intros [i Hp]. destruct (phase_step i _ Hp) as (E1 & E2 & P').
  split.
  - unfold ienc_bit, ienc_direct. cbv zeta. rewrite E1. destruct b; [rewrite E2|]; reflexivity.
  - rewrite ienc_direct_range. eexists. exact P'.
Qed.

Theorem ienc_bit_1024_is_direct e : (exists i, Phase i (i_range e)) ->
  ienc_bit e 1024 true = ienc_direct e true /\ exists i', Phase i' (i_range (ienc_direct e true)).
Proof. apply ienc_bit_1024_direct_gen. Qed.
Print Assumptions ienc_bit_1024_is_direct.

(* entry: from any valid range, the is_rep 0-bit gives PQ 31; a 0/1 step takes PQ j to PQ (j-1) *)
Lemma entry R : 16777216 <= R < 4294967296 -> PQ 31 (zstep R).
Proof.
  unfold PQ, Pre, Phase, zstep, rnorm, N.divide. intros HR. ltbs.
  - left. exists 7. split; [lia|]. pows. split; [exists (R / 2048); lia|lia].
  - right. pows. split; [exists (R / 2048); lia|lia].
Qed.

Lemma q_step j R : 11 <= j <= 31 -> PQ j R -> PQ (j - 1) (zstep R) /\ PQ (j - 1) (ostep R).
Proof.
  intros Hj [[i Hp]|((m & HR) & Hlo & Hhi)].
  - destruct (phase_steps i R Hp) as (E1 & E2). destruct (phase_step i R Hp) as (_ & _ & P').
    rewrite E1, E2. split; left; eexists; exact P'.
  - assert (H2: 2 ^ j = 2 * 2 ^ (j - 1)).
    { replace j with (N.succ (j - 1)) at 1 by lia. apply N.pow_succ_r'. }
    assert (Hdiv: exists q, 2 ^ (j - 1) = 1024 * q).
    { exists (2 ^ (j - 1 - 10)). change 1024 with (2 ^ 10). rewrite <- N.pow_add_r. f_equal. lia. }
    destruct Hdiv as [q Hq].
    unfold PQ, Pre, Phase, zstep, ostep, rnorm, N.divide in *.
    set (T := 2 ^ j) in *. set (T1 := 2 ^ (j - 1)) in *. clearbody T T1. split; ltbs.
    + left. exists 7. split; [lia|]. pows. split; [exists (R / 2048); lia|lia].
    + right. split; [exists (R / 2048); lia|lia].
    + left. exists 7. split; [lia|]. pows. split; [exists (m - R / 2048); lia|lia].
    + right. split; [exists (m - R / 2048); lia|lia].
Qed.

Lemma pre_small j R : j <= 24 -> Pre j R -> exists i, Phase i R.
Proof.
  intros Hj ((m & HR) & Hlo & Hhi).
  assert (2 ^ j <= 2 ^ 24) by (apply N.pow_le_mono_r; lia). change (2 ^ 24) with 16777216 in *.
  exists 0. unfold Phase, N.divide. split; [lia|]. pows. split; [exists (m / 2); lia|lia].
Qed.

(* the 11 probability-coded bits after is_match: is_rep = 0, four length bits 0, six pos-slot bits 1 *)
Definition marker_prefix_bits : list bool :=
  [false; false; false; false; false; true; true; true; true; true; true].
Definition rprefix (R : N) : N :=
  ostep (ostep (ostep (ostep (ostep (ostep (zstep (zstep (zstep (zstep (zstep R)))))))))).

Theorem marker_enters_phase R : 16777216 <= R < 4294967296 -> exists i, Phase i (rprefix R).
Proof.
  intros HR. unfold rprefix.
  pose proof (entry R HR) as H31.
  destruct (q_step 31 _ ltac:(lia) H31) as [H30 _]. change (31 - 1) with 30 in H30.
  destruct (q_step 30 _ ltac:(lia) H30) as [H29 _]. change (30 - 1) with 29 in H29.
  destruct (q_step 29 _ ltac:(lia) H29) as [H28 _]. change (29 - 1) with 28 in H28.
  destruct (q_step 28 _ ltac:(lia) H28) as [H27 _]. change (28 - 1) with 27 in H27.
  destruct (q_step 27 _ ltac:(lia) H27) as [_ H26]. change (27 - 1) with 26 in H26.
  destruct (q_step 26 _ ltac:(lia) H26) as [_ H25]. change (26 - 1) with 25 in H25.
  destruct (q_step 25 _ ltac:(lia) H25) as [_ H24]. change (25 - 1) with 24 in H24.
  destruct (q_step 24 _ ltac:(lia) H24) as [_ H23]. change (24 - 1) with 23 in H23.
  destruct (q_step 23 _ ltac:(lia) H23) as [_ H22]. change (23 - 1) with 22 in H22.
  destruct (q_step 22 _ ltac:(lia) H22) as [_ H21]. change (22 - 1) with 21 in H21.
  destruct H21 as [Hp|Hpre]; [exact Hp|]. eapply pre_small; [|exact Hpre]. lia.
Qed.
Print Assumptions marker_enters_phase.

Lemma marker_prefix_range e :
  i_range (fold_left (fun x b => ienc_bit x 1024 b) marker_prefix_bits e) = rprefix (i_range e).
Proof. unfold marker_prefix_bits, rprefix. cbn [fold_left]. rewrite !ienc_bit_range. reflexivity. Qed.

(* in a phase, any number of probability-0x400 one-bits are direct bits *)
Theorem marker_halving_exact n : forall e, (exists i, Phase i (i_range e)) ->
  Nat.iter n (fun x => ienc_bit x 1024 true) e = Nat.iter n (fun x => ienc_direct x true) e /\
  exists i, Phase i (i_range (Nat.iter n (fun x => ienc_direct x true) e)).
Proof.
  induction n as [|n IH]; intros e Hp; cbn [Nat.iter nat_rect]; [split; [reflexivity|exact Hp]|].
  destruct (IH e Hp) as (E & P). unfold Nat.iter in E, P. rewrite E.
  apply ienc_bit_1024_is_direct. exact P.
Qed.
Print Assumptions marker_halving_exact.

Theorem marker_direct_equiv e : 16777216 <= i_range e < 4294967296 ->
  let e1 := fold_left (fun x b => ienc_bit x 1024 b) marker_prefix_bits e in
  Nat.iter 26 (fun x => ienc_bit x 1024 true) e1 = Nat.iter 26 (fun x => ienc_direct x true) e1.
Proof.
  intros HR e1. apply marker_halving_exact. unfold e1. rewrite marker_prefix_range.
  apply marker_enters_phase. exact HR.
Qed.
Print Assumptions marker_direct_equiv.

(* ====================================================================== *)
(* Why write_low_spec needs [e_cachesz e + 1 < 2^32]                        *)
(* ====================================================================== *)
(* cache_size is a u32 that counts the pending 0xFF bytes; in an overflow-checked build
   `self.cache_size += 1` panics once 2^32 - 1 bytes are pending.  The state below satisfies
   [wf] and [Val < Top] (for any [out]) and still panics, so the hypothesis cannot be dropped. *)
Definition csz_overflow_state : renc := mkRenc 4294967295 4278190080 0 4294967295.
Lemma write_low_csz_overflow :
  fst (run_io (write_low csz_overflow_state) (mkIo (cursor_of []) vec_sink)) = Panicked (POverflow 61).
Proof. vm_compute. reflexivity. Qed.
Lemma csz_overflow_state_wf out : wf csz_overflow_state /\ Val csz_overflow_state out < Top csz_overflow_state out.
Proof.
  unfold wf, Val, Top, csz_overflow_state. cbn [e_low e_cache e_cachesz].
  pose proof (pow256_pos (4294967295 - 1)) as Hp.
  rewrite (pow256_split 4294967295) by lia.
  set (q := 256 ^ (4294967295 - 1)) in *. clearbody q. set (n0 := be_num out). clearbody n0.
  repeat split; lia.
Qed.
