(* C12: concrete runs showing that the fault theorems are not vacuous, and one
   observation on the error class of a fault injected while the header is read. *)
From LZ Require Import Base.Prelude Base.Prog Model.Io Model.LzBuffer Model.Lzma Model.Lzma2
  Proofs.FaultTheorems Proofs.FaultLockstep.

Definition fx_opts := mkOptions ReadFromHeader None false.
(* header: lc=3 lp=0 pb=2, dict 4096, size 1; payload decodes one literal (byte 0) *)
Definition fx_stream : list N := [93; 0; 16; 0; 0; 1; 0; 0; 0; 0; 0; 0; 0; 0; 0; 0; 0; 0; 0; 0; 0; 0; 0; 0].
(* source hands out 3 bytes per refill, sink takes 1 byte per call *)
Definition fx_world (sf wf : option N) (ff : bool) : io :=
  mkIo (src_of fx_stream (fun _ => 3) sf) (snk_new (fun _ => 1) wf ff).
Definition fx_run (sf wf : option N) (ff : bool) :=
  let '(r, w) := lzma_decompress 1000 fx_opts (fx_world sf wf ff) in
  (r, snk_bytes (i_snk w), k_flushes (i_snk w), src_hit (i_src w), snk_hit (i_snk w)).

Example fx_fault_free : fx_run None None false = (Done tt, [0], 1, false, false).
Proof. vm_compute. reflexivity. Qed.
(* a fault that is configured but never reached changes nothing *)
Example fx_unreached : fx_run (Some 100) (Some 100) false = (Done tt, [0], 1, false, false).
Proof. vm_compute. reflexivity. Qed.
(* the write call fails: I/O error, nothing accepted, no flush *)
Example fx_write_fails : fx_run None (Some 0) false = (Failed EIo, [], 0, false, true).
Proof. vm_compute. reflexivity. Qed.
(* the flush fails: I/O error although all data was accepted *)
Example fx_flush_fails : fx_run None None true = (Failed EIo, [0], 0, false, false).
Proof. vm_compute. reflexivity. Qed.
(* refill 1 happens while the 13-byte header is read.  The model reports the injected error
   with class EIo: map_io_err rewrites only the program-level Fail EIo (UnexpectedEof), not an
   error answered by the handler.  (lzma-rs wraps every io::Error of read_header into
   Error::HeaderTooShort; this concerns the class of the error only, not its propagation.) *)
Example fx_header_read_fails : fx_run (Some 1) None false = (Failed EIo, [], 0, true, false).
Proof. vm_compute. reflexivity. Qed.
Example fx_header_eof :
  fst (lzma_decompress 1000 fx_opts (mkIo (src_of (firstn 5 fx_stream) (fun _ => 3) None) (snk_new (fun _ => 1) None false)))
  = Failed EHeaderTooShort.
Proof. vm_compute. reflexivity. Qed.

(* the initial worlds satisfy the hypothesis of the theorems *)
Example fx_no_hit sf wf ff : no_hit (fx_world sf wf ff).
Proof. split; [destruct sf as [[|p]|]|destruct wf as [[|p]|]]; reflexivity. Qed.
Example fx_clr sf wf ff : clrIo (fx_world sf wf ff) = fx_world None None false.
Proof. reflexivity. Qed.

(* "k_ffail = true implies the outcome is Failed" is false as stated: a run that panics (here: on
   the model's fuel) panics whatever the flush switch is.  What holds is lzma_flush_failure
   (never Done, no flush counted) and lzma_flush_failure_is_error (Failed EIo whenever the
   fault-free run succeeds). *)
Example fx_flush_fail_but_panic : fst (lzma_decompress 1 fx_opts (fx_world None None true)) = Panicked (PFuel 10).
Proof. vm_compute. reflexivity. Qed.
