(* C01: the hypotheses of the exactness theorems are satisfiable - concrete programs
   (with wrap-around copies in a 4-byte and a 1-byte window), checked against the model by
   vm_compute and then decoded for EVERY fragmentation of the input by the theorems. *)
From LZ Require Import Base.Prelude Base.Prog Model.Io Model.Tables Model.LzBuffer Model.RangeDec Model.Lzma Format.RefEnc
  Proofs.IoLemmas Proofs.SymDecode Proofs.LzmaExact.

Definition ex_fp : fprops := mkFProps 3 0 2.
Definition ex_pr : props := mkProps 3 0 2.
Lemma ex_pm : props_match ex_pr ex_fp.
Proof. unfold props_match, ex_pr, ex_fp. cbn. repeat split; lia. Qed.

(* 19 output bytes through a 4-byte window: every copy wraps around the circular buffer *)
Definition ex_body : list sym :=
  [Lit 1; Lit 2; Lit 3; Match 3 5; Lit 7; Rep 0 4; ShortRep; Match 2 2; Rep 1 3].
Definition ex_out : list N := [1; 2; 3; 1; 2; 3; 1; 2; 7; 1; 2; 7; 1; 2; 1; 2; 2; 1; 2].

Example ex_sem : sem (Some 4) (ex_body ++ [EndMarker]) = Some ex_out /\ sem (Some 4) ex_body = Some ex_out.
Proof. split; vm_compute; reflexivity. Qed.

(* the model, run by computation on one fragmentation *)
Example ex_raw_computed :
  match enc_payload_gen false ex_fp (Some 4) (ex_body ++ [EndMarker]) 0,
        lzma_decoder_new (mkParams ex_pr 4 None) None with
  | Some (payload, out), Done dec =>
      match lzma_decoder_decompress 100 dec (mkIo (src_of payload (fun k => 1 + k mod 3) None) vec_sink) with
      | (r, (_, w')) => r = Done tt /\ snk_bytes (i_snk w') = ex_out /\ out = ex_out /\ s_pos (i_src w') = nlen payload
      end
  | _, _ => False
  end.
Proof. vm_compute. repeat split; reflexivity. Qed.

(* unknown size, end marker, raw API, window of 4 bytes: every fragmentation *)
Example ex_raw_marker : exists payload dec,
  enc_payload_gen false ex_fp (Some 4) (ex_body ++ [EndMarker]) 0 = Some (payload, ex_out) /\
  lzma_decoder_new (mkParams ex_pr 4 None) None = Done dec /\
  forall frag, exists dec' w',
    lzma_decoder_decompress 100 dec (mkIo (src_of payload frag None) vec_sink) = (Done tt, (dec', w')) /\
    snk_bytes (i_snk w') = ex_out /\ k_flushes (i_snk w') = 1 /\ s_pos (i_src w') = nlen payload.
Proof.
  eexists _, _. split; [vm_compute; reflexivity|]. split; [vm_compute; reflexivity|].
  intros frag.
  evar (ief : ienc).
  match goal with |- exists _ _, lzma_decoder_decompress _ ?dec (mkIo (src_of ?pl _ _) _) = _ /\ _ =>
    destruct (raw_lzma_decode_exact ex_fp ex_pr 4 None None (ex_body ++ [EndMarker]) 0 [] pl ex_out ief dec
                (src_of pl frag None) vec_sink 100 ex_pm)
      as (dec' & w' & H1 & H2 & H3 & H4 & _)
  end.
  - lia.
  - vm_compute. discriminate.
  - vm_compute. reflexivity.
  - vm_compute. reflexivity.
  - split; [exists ex_body; reflexivity|split; reflexivity].
  - vm_compute. reflexivity.
  - apply (src_of_FaultFree _ frag).
  - unfold src_of. cbn [s_rest]. rewrite app_nil_r. reflexivity.
  - reflexivity.
  - reflexivity.
  - vm_compute. lia.
  - exists dec', w'. split; [exact H1|]. split; [exact H2|]. split; [exact H3|]. exact H4.
Qed.

(* declared size, no marker, a non-canonical flush (delta = 12345) and three trailing bytes *)
Example ex_raw_sized : exists payload dec,
  enc_payload_gen false ex_fp (Some 4) ex_body 12345 = Some (payload, ex_out) /\
  lzma_decoder_new (mkParams ex_pr 4 (Some 19)) None = Done dec /\
  forall frag, exists dec' w',
    lzma_decoder_decompress 100 dec (mkIo (src_of (payload ++ [9; 9; 9]) frag None) vec_sink) = (Done tt, (dec', w')) /\
    snk_bytes (i_snk w') = ex_out /\ s_pos (i_src w') = nlen payload /\ s_rest (i_src w') = [9; 9; 9].
Proof.
  eexists _, _. split; [vm_compute; reflexivity|]. split; [vm_compute; reflexivity|].
  intros frag.
  evar (ief : ienc).
  match goal with |- exists _ _, lzma_decoder_decompress _ ?dec (mkIo (src_of (?pl ++ _) _ _) _) = _ /\ _ =>
    destruct (raw_lzma_decode_exact ex_fp ex_pr 4 (Some 19) None ex_body 12345 [9; 9; 9] pl ex_out ief dec
                (src_of (pl ++ [9; 9; 9]) frag None) vec_sink 100 ex_pm)
      as (dec' & w' & H1 & H2 & H3 & H4 & H5)
  end.
  - lia.
  - vm_compute. discriminate.
  - vm_compute. reflexivity.
  - vm_compute. reflexivity.
  - split; [repeat constructor; discriminate|]. split; [reflexivity|]. vm_compute. reflexivity.
  - vm_compute. reflexivity.
  - apply (src_of_FaultFree _ frag).
  - reflexivity.
  - reflexivity.
  - reflexivity.
  - vm_compute. lia.
  - exists dec', w'. split; [exact H1|]. split; [exact H2|]. split; [exact H4|exact H5].
Qed.

(* a window of ONE byte: only distance 1 can be copied, every byte written wraps *)
Definition ex_one : list sym := [Lit 5; Match 1 4; Lit 6; ShortRep; Rep 0 3; EndMarker].
Example ex_raw_window1 : exists payload dec,
  enc_payload_gen false ex_fp (Some 1) ex_one 0 = Some (payload, [5; 5; 5; 5; 5; 6; 6; 6; 6; 6]) /\
  lzma_decoder_new (mkParams ex_pr 1 None) None = Done dec /\
  forall frag, exists dec' w',
    lzma_decoder_decompress 100 dec (mkIo (src_of payload frag None) vec_sink) = (Done tt, (dec', w')) /\
    snk_bytes (i_snk w') = [5; 5; 5; 5; 5; 6; 6; 6; 6; 6].
Proof.
  eexists _, _. split; [vm_compute; reflexivity|]. split; [vm_compute; reflexivity|].
  intros frag.
  evar (ief : ienc).
  match goal with |- exists _ _, lzma_decoder_decompress _ ?dec (mkIo (src_of ?pl _ _) _) = _ /\ _ =>
    destruct (raw_lzma_decode_exact ex_fp ex_pr 1 None None ex_one 0 [] pl [5; 5; 5; 5; 5; 6; 6; 6; 6; 6] ief dec
                (src_of pl frag None) vec_sink 100 ex_pm)
      as (dec' & w' & H1 & H2 & _)
  end.
  - lia.
  - vm_compute. discriminate.
  - vm_compute. reflexivity.
  - vm_compute. reflexivity.
  - split; [exists [Lit 5; Match 1 4; Lit 6; ShortRep; Rep 0 3]; reflexivity|split; reflexivity].
  - vm_compute. reflexivity.
  - apply (src_of_FaultFree _ frag).
  - unfold src_of. cbn [s_rest]. rewrite app_nil_r. reflexivity.
  - reflexivity.
  - reflexivity.
  - vm_compute. lia.
  - exists dec', w'. split; [exact H1|exact H2].
Qed.

(* a complete .lzma file with a dictionary field of 100 (clamped to 4096), end marker *)
Example ex_file_marker : exists bytes,
  enc_lzma_gen false ex_fp 100 (2 ^ 64 - 1) (ex_body ++ [EndMarker]) 0 = Some (bytes, ex_out) /\
  forall frag, exists w',
    lzma_decompress 100 (mkOptions ReadFromHeader None false) (mkIo (src_of bytes frag None) vec_sink) = (Done tt, w') /\
    snk_bytes (i_snk w') = ex_out /\ s_pos (i_src w') = nlen bytes.
Proof.
  eexists. split; [vm_compute; reflexivity|].
  intros frag.
  evar (ief : ienc).
  match goal with |- exists _, lzma_decompress _ _ (mkIo (src_of ?b _ _) _) = _ /\ _ =>
    destruct (lzma_decode_exact ex_fp 100 (2 ^ 64 - 1) (ex_body ++ [EndMarker]) b ex_out 0 [] ief frag vec_sink 100)
      as (w' & H1 & H2 & _ & H4 & _)
  end.
  - vm_compute. discriminate.
  - vm_compute. discriminate.
  - vm_compute. discriminate.
  - vm_compute. reflexivity.
  - vm_compute. reflexivity.
  - vm_compute. reflexivity.
  - left. split; [reflexivity|]. split; [exists ex_body; reflexivity|split; reflexivity].
  - reflexivity.
  - reflexivity.
  - vm_compute. lia.
  - rewrite app_nil_r in H1. exists w'. split; [exact H1|]. split; [exact H2|exact H4].
Qed.

(* the same program with a declared size, then garbage after the payload: still exact;
   with the marker and garbage after it: rejected *)
Example ex_file_sized : exists bytes,
  enc_lzma_gen false ex_fp 100 19 ex_body 777 = Some (bytes, ex_out) /\
  forall frag, exists w',
    lzma_decompress 100 (mkOptions ReadFromHeader None false) (mkIo (src_of (bytes ++ [1; 2]) frag None) vec_sink) = (Done tt, w') /\
    snk_bytes (i_snk w') = ex_out /\ s_pos (i_src w') = nlen bytes.
Proof.
  eexists. split; [vm_compute; reflexivity|].
  intros frag.
  evar (ief : ienc).
  match goal with |- exists _, lzma_decompress _ _ (mkIo (src_of (?b ++ _) _ _) _) = _ /\ _ =>
    destruct (lzma_decode_exact ex_fp 100 19 ex_body b ex_out 777 [1; 2] ief frag vec_sink 100)
      as (w' & H1 & H2 & _ & H4 & _)
  end.
  - vm_compute. discriminate.
  - vm_compute. discriminate.
  - vm_compute. discriminate.
  - vm_compute. reflexivity.
  - vm_compute. reflexivity.
  - vm_compute. reflexivity.
  - right. split; [reflexivity|]. split; [vm_compute; reflexivity|]. split; [repeat constructor; discriminate|].
    vm_compute. reflexivity.
  - reflexivity.
  - reflexivity.
  - vm_compute. lia.
  - exists w'. split; [exact H1|]. split; [exact H2|exact H4].
Qed.

Example ex_file_trailing : exists bytes,
  enc_lzma_gen false ex_fp 100 (2 ^ 64 - 1) (ex_body ++ [EndMarker]) 0 = Some (bytes, ex_out) /\
  forall frag, exists w',
    lzma_decompress 100 (mkOptions ReadFromHeader None false) (mkIo (src_of (bytes ++ [0]) frag None) vec_sink) = (Failed ELzma, w').
Proof.
  eexists. split; [vm_compute; reflexivity|].
  intros frag.
  evar (ief : ienc).
  match goal with |- exists _, lzma_decompress _ _ (mkIo (src_of (?b ++ _) _ _) _) = _ =>
    apply (lzma_trailing_rejected ex_fp 100 (ex_body ++ [EndMarker]) b ex_out 0 [0] ief frag vec_sink 100)
  end.
  - vm_compute. discriminate.
  - vm_compute. discriminate.
  - vm_compute. discriminate.
  - vm_compute. reflexivity.
  - vm_compute. reflexivity.
  - vm_compute. reflexivity.
  - vm_compute. reflexivity.
  - exists ex_body. reflexivity.
  - discriminate.
  - reflexivity.
  - reflexivity.
  - vm_compute. lia.
Qed.

Print Assumptions ex_raw_marker.
Print Assumptions ex_file_sized.
Print Assumptions ex_file_trailing.
