(* No-panic invariants for the decoder core (property C07, Part 3): the
   abstract safety of process_next_inner (NoPanic.v) transferred to the concrete
   handler dec_h (range decoder registers + tables + source + window). *)
From LZ Require Import Base.Prelude Base.Prog Model.Io Model.Tables Model.LzBuffer Model.RangeDec Model.Lzma.
From LZ Require Import Proofs.ProgLemmas Proofs.MapLemmas Proofs.NoPanic.
From Coq Require Import ZifyBool ZifyNat ZifyN.
Local Open Scope prog_scope.

Ltac Zify.zify_post_hook ::= Z.div_mod_to_equations.

(* ====================================================================== *)
(* Probabilities stay in [31, 2017]                                         *)
(* ====================================================================== *)
Definition prob_ok (v : N) : Prop := 31 <= v <= 2017.

(* the default 1024 is in range, so the statement can be made for every index *)
Definition TabOk (tb : tab) : Prop := forall i, prob_ok (nm_get (t_map tb) i 1024).

Record LenProbs (l : lentabs) : Prop := mkLenProbs {
  lp_choice : prob_ok (lt_choice l);
  lp_choice2 : prob_ok (lt_choice2 l);
  lp_low : TabOk (lt_low l);
  lp_mid : TabOk (lt_mid l);
  lp_high : TabOk (lt_high l)
}.

Record ProbsOk (t : ptabs) : Prop := mkProbsOk {
  po_lit : TabOk (p_lit t);
  po_pos_slot : TabOk (p_pos_slot t);
  po_align : TabOk (p_align t);
  po_pos_dec : TabOk (p_pos_dec t);
  po_is_match : TabOk (p_is_match t);
  po_is_rep : TabOk (p_is_rep t);
  po_is_rep_g0 : TabOk (p_is_rep_g0 t);
  po_is_rep_g1 : TabOk (p_is_rep_g1 t);
  po_is_rep_g2 : TabOk (p_is_rep_g2 t);
  po_is_rep_0long : TabOk (p_is_rep_0long t);
  po_len : LenProbs (p_len t);
  po_rep_len : LenProbs (p_rep_len t)
}.

Lemma TabOk_new len : TabOk (tab_new len).
Proof. intros i. unfold tab_new. cbn [t_map]. rewrite nm_get_empty. unfold prob_ok. lia. Qed.

Lemma LenProbs_new : LenProbs lentabs_new.
Proof. constructor; cbn [lentabs_new lt_choice lt_choice2 lt_low lt_mid lt_high]; try apply TabOk_new; unfold prob_ok; lia. Qed.

Lemma ProbsOk_new rows : ProbsOk (ptabs_new rows).
Proof. constructor; try apply TabOk_new; apply LenProbs_new. Qed.

Lemma tab_set_TabOk tb i v : TabOk tb -> prob_ok v -> TabOk (tab_set tb i v).
Proof.
  intros H Hv j. unfold tab_set. cbn [t_map].
  destruct (N.eq_dec j i) as [->|Hne]; [rewrite nm_gss; exact Hv|rewrite nm_gso by exact Hne; apply H].
Qed.

Lemma len_set_LenProbs l p v : LenProbs l -> prob_ok v -> LenProbs (len_set l p v).
Proof.
  intros [H1 H2 H3 H4 H5] Hv. destruct p; constructor; cbn [len_set lt_choice lt_choice2 lt_low lt_mid lt_high];
    try assumption; apply tab_set_TabOk; assumption.
Qed.

Lemma cell_set_ProbsOk t c v : ProbsOk t -> prob_ok v -> ProbsOk (cell_set t c v).
Proof.
  intros H Hv. destruct H. destruct t as [rows lit psl al pd im ir g0 g1 g2 r0 ln rl].
  cbn [p_lit_rows p_lit p_pos_slot p_align p_pos_dec p_is_match p_is_rep
    p_is_rep_g0 p_is_rep_g1 p_is_rep_g2 p_is_rep_0long p_len p_rep_len] in *.
  destruct c as [i|i|i|i|i|i|row col|ls i|i|i|rep lpart];
    try (constructor; cbn [p_lit_rows p_lit p_pos_slot p_align p_pos_dec p_is_match p_is_rep
           p_is_rep_g0 p_is_rep_g1 p_is_rep_g2 p_is_rep_0long p_len p_rep_len];
         try assumption; apply tab_set_TabOk; assumption).
  destruct rep; constructor; cbn [p_lit_rows p_lit p_pos_slot p_align p_pos_dec p_is_match p_is_rep
           p_is_rep_g0 p_is_rep_g1 p_is_rep_g2 p_is_rep_0long p_len p_rep_len];
    try assumption; apply len_set_LenProbs; assumption.
Qed.

Lemma tab_get_TabOk tb i v : TabOk tb -> tab_get tb i = Some v -> prob_ok v.
Proof.
  intros H. unfold tab_get. destruct (i <? t_len tb); [|discriminate].
  intros E. inversion E; subst. apply H.
Qed.

Lemma len_get_LenProbs l p v : LenProbs l -> len_get l p = Some v -> prob_ok v.
Proof.
  intros [H1 H2 H3 H4 H5]. destruct p as [| |ps i|ps i|i]; cbn [len_get].
  - intros E; inversion E; subst; exact H1.
  - intros E; inversion E; subst; exact H2.
  - destruct ((ps <? 16) && (i <? 8)); [|discriminate]. apply tab_get_TabOk. exact H3.
  - destruct ((ps <? 16) && (i <? 8)); [|discriminate]. apply tab_get_TabOk. exact H4.
  - apply tab_get_TabOk. exact H5.
Qed.

Lemma cell_get_ProbsOk t c v : ProbsOk t -> cell_get t c = Some v -> prob_ok v.
Proof.
  intros H. destruct H.
  destruct c as [i|i|i|i|i|i|row col|ls i|i|i|rep lpart]; cbn [cell_get];
    try (apply tab_get_TabOk; assumption).
  - destruct ((row <? p_lit_rows t) && (col <? 768)); [|discriminate]. apply tab_get_TabOk. assumption.
  - destruct ((ls <? 4) && (i <? 64)); [|discriminate]. apply tab_get_TabOk. assumption.
  - destruct rep; apply len_get_LenProbs; assumption.
Qed.

(* ====================================================================== *)
(* The window never panics                                                  *)
(* ====================================================================== *)
Definition not_panicked {A} (o : outcome A) : Prop :=
  match o with Panicked _ => False | _ => True end.

Definition BufBytes (m : nmap) : Prop := forall i, nm_get m i 0 < 256.

Lemma BufBytes_set m i v : BufBytes m -> v < 256 -> BufBytes (nm_set m i v).
Proof.
  intros H Hv j. destruct (N.eq_dec j i) as [->|Hne]; [rewrite nm_gss; exact Hv|rewrite nm_gso by exact Hne; apply H].
Qed.

Lemma BufBytes_empty : BufBytes nm_empty.
Proof. intros i. rewrite nm_get_empty. lia. Qed.

(* write_all never runs out of fuel *)
Lemma write_all_loop_nopanic fuel : forall bs w, (length bs <= fuel)%nat ->
  not_panicked (fst (run_io (write_all_loop fuel bs) w)).
Proof.
  induction fuel as [|fuel IH]; intros bs w Hl.
  - destruct bs as [|b t]; [|cbn [length] in Hl; lia]. cbn. exact I.
  - destruct bs as [|b t]; [cbn; exact I|].
    cbn [write_all_loop]. set (bs := b :: t) in *.
    unfold run_io. rewrite interp_bind, interp_call. cbn [io_h].
    unfold snk_write.
    destruct (match k_wfail (i_snk w) with Some j => j =? k_calls (i_snk w) | None => false end);
      [cbn [fst not_panicked]; exact I|].
    set (n := nmin_len (N.max 1 (k_accept (i_snk w) (k_calls (i_snk w)))) bs).
    cbv beta iota. destruct (N.eqb_spec n 0) as [E|E]; [cbn [interp fst not_panicked]; exact I|].
    apply IH. unfold nskipn. rewrite skipn_length. unfold bs in *. cbn [length] in *. lia.
Qed.

Lemma snk_run_write_all_nopanic bs k : not_panicked (fst (snk_run (write_all bs) k)).
Proof.
  unfold snk_run, write_all.
  pose proof (write_all_loop_nopanic (length bs) bs (mkIo (cursor_of []) k) (le_n _)) as H.
  destruct (run_io (write_all_loop (length bs) bs) (mkIo (cursor_of []) k)) as [r w']. exact H.
Qed.

Definition CircOk (b : circ) : Prop := 0 < c_dict b /\ BufBytes (c_buf b).

Lemma circ_get_lt b i : CircOk b -> circ_get b i < 256.
Proof. intros [_ H]. unfold circ_get. destruct (i <? c_blen b); [apply H|lia]. Qed.

Lemma circ_set_ok b i v : CircOk b -> v < 256 ->
  not_panicked (fst (circ_set b i v)) /\ CircOk (snd (circ_set b i v)) /\
  c_dict (snd (circ_set b i v)) = c_dict b.
Proof.
  intros [Hd Hb] Hv. unfold circ_set.
  destruct (c_blen b <? i + 1); [destruct (i + 1 <=? c_mem b)|]; cbn [fst snd not_panicked];
    unfold CircOk; cbn [c_dict c_buf]; auto using BufBytes_set.
Qed.

Lemma circ_append_literal_ok b lit : CircOk b -> lit < 256 ->
  not_panicked (fst (circ_append_literal b lit)) /\ CircOk (snd (circ_append_literal b lit)).
Proof.
  intros Hb Hl. unfold circ_append_literal.
  pose proof (circ_set_ok b (c_cursor b) lit Hb Hl) as (H1 & H2 & _).
  destruct (circ_set b (c_cursor b) lit) as [[u|e|q] b1]; cbn [fst snd] in *; [|auto|contradiction].
  destruct (c_cursor b1 + 1 =? c_dict b1).
  - pose proof (snk_run_write_all_nopanic (map_slice (c_buf b1) 0 (c_blen b1)) (c_snk b1)) as Hw.
    destruct (snk_run (write_all (map_slice (c_buf b1) 0 (c_blen b1))) (c_snk b1)) as [[u'|e|q] k];
      cbn [fst snd not_panicked] in *; try contradiction; (split; [exact I|exact H2]).
  - cbn [fst snd not_panicked]. split; [exact I|exact H2].
Qed.

Lemma circ_lz_loop_ok n : forall b offset, CircOk b ->
  not_panicked (fst (circ_lz_loop n b offset)) /\ CircOk (snd (circ_lz_loop n b offset)).
Proof.
  induction n as [|n IH]; intros b offset Hb; cbn [circ_lz_loop].
  - cbn [fst snd not_panicked]. auto.
  - pose proof (circ_append_literal_ok b (circ_get b offset) Hb (circ_get_lt b offset Hb)) as [H1 H2].
    destruct (circ_append_literal b (circ_get b offset)) as [[u|e|q] b1]; cbn [fst snd] in *.
    + apply IH. exact H2.
    + auto.
    + contradiction.
Qed.

Lemma circ_append_lz_ok b len dist : CircOk b ->
  not_panicked (fst (circ_append_lz b len dist)) /\ CircOk (snd (circ_append_lz b len dist)).
Proof.
  intros Hb. unfold circ_append_lz.
  destruct (c_dict b <? dist); [cbn [fst snd not_panicked]; auto|].
  destruct (c_len b <? dist); [cbn [fst snd not_panicked]; auto|].
  destruct (N.eqb_spec (c_dict b) 0) as [E|E]; [destruct Hb; lia|].
  apply circ_lz_loop_ok. exact Hb.
Qed.

Lemma circ_last_or_ok b d : CircOk b -> d < 256 ->
  match circ_last_or b d with
  | (Done x, b') => x < 256 /\ b' = b
  | (Failed _, b') => b' = b
  | (Panicked _, _) => False
  end.
Proof.
  intros Hb Hd. unfold circ_last_or.
  destruct (c_len b =? 0); [auto|].
  destruct (N.eqb_spec (c_dict b) 0) as [E|E]; [destruct Hb; lia|].
  split; [apply circ_get_lt; exact Hb|reflexivity].
Qed.

Lemma circ_last_n_ok b dist : CircOk b ->
  match circ_last_n b dist with
  | (Done x, b') => x < 256 /\ b' = b
  | (Failed _, b') => b' = b
  | (Panicked _, _) => False
  end.
Proof.
  intros Hb. unfold circ_last_n.
  destruct (c_dict b <? dist); [reflexivity|].
  destruct (c_len b <? dist); [reflexivity|].
  destruct (N.eqb_spec (c_dict b) 0) as [E|E]; [destruct Hb; lia|].
  split; [apply circ_get_lt; exact Hb|reflexivity].
Qed.

(* accumulating window *)
Definition AccumOk (a : accum) : Prop := BufBytes (a_buf a).

Lemma accum_lz_loop_ok n : forall m blen offset, BufBytes m ->
  BufBytes (fst (accum_lz_loop n m blen offset)).
Proof.
  induction n as [|n IH]; intros m blen offset Hm; cbn [accum_lz_loop].
  - exact Hm.
  - apply IH. apply BufBytes_set; [exact Hm|apply Hm].
Qed.

Lemma accum_append_lz_ok a len dist : AccumOk a -> 1 <= dist ->
  not_panicked (fst (accum_append_lz a len dist)) /\ AccumOk (snd (accum_append_lz a len dist)).
Proof.
  intros Ha Hd. unfold accum_append_lz.
  destruct (a_blen a <? dist); [cbn [fst snd not_panicked]; auto|].
  destruct (N.eqb_spec dist 0) as [E|E]; [lia|]. cbn [andb].
  pose proof (accum_lz_loop_ok (N.to_nat len) (a_buf a) (a_blen a) (a_blen a - dist) Ha) as H.
  destruct (accum_lz_loop (N.to_nat len) (a_buf a) (a_blen a) (a_blen a - dist)) as [m bl].
  cbn [fst snd not_panicked] in *. split; [exact I|exact H].
Qed.

Lemma accum_append_literal_ok a lit : AccumOk a -> lit < 256 ->
  not_panicked (fst (accum_append_literal a lit)) /\ AccumOk (snd (accum_append_literal a lit)).
Proof.
  intros Ha Hl. unfold accum_append_literal.
  destruct (a_mem a <? a_len a + 1); cbn [fst snd not_panicked]; [auto|].
  split; [exact I|]. unfold AccumOk. cbn [a_buf]. apply BufBytes_set; assumption.
Qed.

Lemma accum_last_or_ok a d : AccumOk a -> d < 256 ->
  match accum_last_or a d with
  | (Done x, a') => x < 256 /\ a' = a
  | (Failed _, a') => a' = a
  | (Panicked _, _) => False
  end.
Proof.
  intros Ha Hd. unfold accum_last_or. destruct (a_blen a =? 0); [auto|]. split; [apply Ha|reflexivity].
Qed.

Lemma accum_last_n_ok a dist : AccumOk a -> 1 <= dist ->
  match accum_last_n a dist with
  | (Done x, a') => x < 256 /\ a' = a
  | (Failed _, a') => a' = a
  | (Panicked _, _) => False
  end.
Proof.
  intros Ha Hd. unfold accum_last_n. destruct (a_blen a <? dist); [reflexivity|].
  destruct (N.eqb_spec dist 0) as [E|E]; [lia|]. split; [apply Ha|reflexivity].
Qed.

Definition WinOk (w : win) : Prop :=
  match w with WCirc c => CircOk c | WAccum a => AccumOk a end.

Lemma circ_new_ok k dict mem : 0 < dict -> WinOk (WCirc (circ_new k dict mem)).
Proof. intros H. split; [exact H|apply BufBytes_empty]. Qed.
Lemma accum_new_ok k mem : WinOk (WAccum (accum_new k mem)).
Proof. apply BufBytes_empty. Qed.

Theorem win_last_or_ok w d : WinOk w -> d < 256 ->
  match win_last_or w d with
  | (Done x, w') => x < 256 /\ WinOk w'
  | (Failed _, w') => WinOk w'
  | (Panicked _, _) => False
  end.
Proof.
  intros Hw Hd. destruct w as [c|a]; cbn [win_last_or WinOk] in *.
  - pose proof (circ_last_or_ok c d Hw Hd) as H. unfold lift_c.
    destruct (circ_last_or c d) as [[x|e|q] c']; cbn [fst snd WinOk]; [destruct H as [H ->]|subst c'|]; auto.
  - pose proof (accum_last_or_ok a d Hw Hd) as H. unfold lift_a.
    destruct (accum_last_or a d) as [[x|e|q] a']; cbn [fst snd WinOk]; [destruct H as [H ->]|subst a'|]; auto.
Qed.

Theorem win_last_n_ok w dist : WinOk w -> 1 <= dist ->
  match win_last_n w dist with
  | (Done x, w') => x < 256 /\ WinOk w'
  | (Failed _, w') => WinOk w'
  | (Panicked _, _) => False
  end.
Proof.
  intros Hw Hd. destruct w as [c|a]; cbn [win_last_n WinOk] in *.
  - pose proof (circ_last_n_ok c dist Hw) as H. unfold lift_c.
    destruct (circ_last_n c dist) as [[x|e|q] c']; cbn [fst snd WinOk]; [destruct H as [H ->]|subst c'|]; auto.
  - pose proof (accum_last_n_ok a dist Hw Hd) as H. unfold lift_a.
    destruct (accum_last_n a dist) as [[x|e|q] a']; cbn [fst snd WinOk]; [destruct H as [H ->]|subst a'|]; auto.
Qed.

Theorem win_append_literal_ok w b : WinOk w -> b < 256 ->
  match win_append_literal w b with
  | (Panicked _, _) => False
  | (_, w') => WinOk w'
  end.
Proof.
  intros Hw Hb. destruct w as [c|a]; cbn [win_append_literal WinOk] in *.
  - pose proof (circ_append_literal_ok c b Hw Hb) as [H1 H2]. unfold lift_c.
    destruct (circ_append_literal c b) as [[x|e|q] c']; cbn [fst snd WinOk not_panicked] in *; auto.
  - pose proof (accum_append_literal_ok a b Hw Hb) as [H1 H2]. unfold lift_a.
    destruct (accum_append_literal a b) as [[x|e|q] a']; cbn [fst snd WinOk not_panicked] in *; auto.
Qed.

Theorem win_append_lz_ok w len dist : WinOk w -> 1 <= dist ->
  match win_append_lz w len dist with
  | (Panicked _, _) => False
  | (_, w') => WinOk w'
  end.
Proof.
  intros Hw Hd. destruct w as [c|a]; cbn [win_append_lz WinOk] in *.
  - pose proof (circ_append_lz_ok c len dist Hw) as [H1 H2]. unfold lift_c.
    destruct (circ_append_lz c len dist) as [[x|e|q] c']; cbn [fst snd WinOk not_panicked] in *; auto.
  - pose proof (accum_append_lz_ok a len dist Hw Hd) as [H1 H2]. unfold lift_a.
    destruct (accum_append_lz a len dist) as [[x|e|q] a']; cbn [fst snd WinOk not_panicked] in *; auto.
Qed.
Print Assumptions win_append_lz_ok.

(* ====================================================================== *)
(* The world invariant and the handler                                      *)
(* ====================================================================== *)
Record WInv (lcp : N) (w : dw) : Prop := mkWInv {
  wi_rc : RcInv (d_rc w);
  wi_tabs : TabsStd (d_tabs w) lcp;
  wi_probs : ProbsOk (d_tabs w);
  wi_src : SrcBytes (d_src w);
  wi_win : WinOk (d_win w)
}.

Theorem dec_h_step lcp X (o : decE X) w : WInv lcp w -> op_pre (cell_in lcp) o ->
  match dec_h X o w with
  | HOk x w' => ans_ok o x /\ WInv lcp w'
  | HErr _ w' => WInv lcp w'
  | HPanic _ _ => False
  end.
Proof.
  intros Hw Hpre. pose proof Hw as [Hrc Htabs Hprobs Hsrc Hwin].
  destruct o as [c upd|count| | |d|dist|b|len dist]; cbn [dec_h op_pre ans_ok] in *.
  - (* Bit *)
    pose proof (cell_in_get _ _ _ Hpre Htabs) as Hne.
    destruct (cell_get (d_tabs w) c) as [prob|] eqn:Eg; [|congruence].
    pose proof (cell_get_ProbsOk _ _ _ Hprobs Eg) as Hprob. unfold prob_ok in Hprob.
    assert (Hp47 : prob <= 2047) by lia.
    pose proof (rc_decode_bit_safe (d_rc w) prob upd (d_src w) Hrc Hp47 Hsrc) as Hs.
    destruct (src_run (rc_decode_bit (d_rc w) prob upd) (d_src w)) as [[[[b p'] r']|e|q] s'].
    + destruct Hs as (Hr' & _ & Hp' & Hs'). split; [exact I|].
      constructor; cbn [d_rc d_tabs d_src d_win]; auto.
      * destruct upd; [apply cell_set_TabsStd|]; assumption.
      * destruct upd; [apply cell_set_ProbsOk; [assumption|apply Hp'; exact Hprob]|assumption].
    + pose proof (prob_step_range prob Hprob) as [Hu Hd].
      constructor; cbn [d_rc d_tabs d_src d_win]; auto.
      * destruct upd; [apply cell_set_TabsStd|]; assumption.
      * destruct upd; [|assumption]. apply cell_set_ProbsOk; [assumption|].
        destruct (r_code (d_rc w) <? N.shiftr (r_range (d_rc w)) 11 * prob); assumption.
    + contradiction.
  - (* Direct *)
    pose proof (rc_get_safe count (d_rc w) (d_src w) Hrc Hsrc) as Hs. unfold lift_src.
    destruct (src_run (rc_get count (d_rc w)) (d_src w)) as [[[v r']|e|q] s'].
    + destruct Hs as (Hv & Hr' & Hs'). split; [exact Hv|]. constructor; cbn [d_rc d_tabs d_src d_win]; assumption.
    + constructor; cbn [d_rc d_tabs d_src d_win]; assumption.
    + contradiction.
  - (* FinishedOk *)
    pose proof (rc_is_finished_ok_safe (d_rc w) (d_src w) Hsrc) as Hs.
    destruct (src_run (rc_is_finished_ok (d_rc w)) (d_src w)) as [[v|e|q] s'].
    + split; [exact I|]. constructor; cbn [d_rc d_tabs d_src d_win]; assumption.
    + constructor; cbn [d_rc d_tabs d_src d_win]; assumption.
    + contradiction.
  - (* WLen *) split; [exact I|exact Hw].
  - (* WLastOr *)
    pose proof (win_last_or_ok (d_win w) d Hwin Hpre) as Hs. unfold lift_win.
    destruct (win_last_or (d_win w) d) as [[x|e|q] v].
    + destruct Hs as [Hx Hv]. split; [exact Hx|]. constructor; cbn [d_rc d_tabs d_src d_win]; assumption.
    + constructor; cbn [d_rc d_tabs d_src d_win]; assumption.
    + contradiction.
  - (* WLastN *)
    pose proof (win_last_n_ok (d_win w) dist Hwin Hpre) as Hs. unfold lift_win.
    destruct (win_last_n (d_win w) dist) as [[x|e|q] v].
    + destruct Hs as [Hx Hv]. split; [exact Hx|]. constructor; cbn [d_rc d_tabs d_src d_win]; assumption.
    + constructor; cbn [d_rc d_tabs d_src d_win]; assumption.
    + contradiction.
  - (* WAppendLit *)
    pose proof (win_append_literal_ok (d_win w) b Hwin Hpre) as Hs. unfold lift_win.
    destruct (win_append_literal (d_win w) b) as [[x|e|q] v].
    + split; [exact I|]. constructor; cbn [d_rc d_tabs d_src d_win]; assumption.
    + constructor; cbn [d_rc d_tabs d_src d_win]; assumption.
    + contradiction.
  - (* WAppendLz *)
    pose proof (win_append_lz_ok (d_win w) len dist Hwin Hpre) as Hs. unfold lift_win.
    destruct (win_append_lz (d_win w) len dist) as [[x|e|q] v].
    + split; [exact I|]. constructor; cbn [d_rc d_tabs d_src d_win]; assumption.
    + constructor; cbn [d_rc d_tabs d_src d_win]; assumption.
    + contradiction.
Qed.
Print Assumptions dec_h_step.

(* soundness of the program logic for the concrete handler *)
Theorem safe_prog_interp lcp {A} (Q : A -> Prop) (p : dprog A) :
  safe_prog (cell_in lcp) Q p -> forall w, WInv lcp w ->
  match interp dec_h p w with
  | (Done a, w') => Q a /\ WInv lcp w'
  | (Failed _, w') => WInv lcp w'
  | (Panicked _, _) => False
  end.
Proof.
  intros Hp. induction Hp as [a Ha|e|X o k Ho Hk IH]; intros w Hw; cbn [interp].
  - auto.
  - exact Hw.
  - pose proof (dec_h_step lcp X o w Hw Ho) as Hs.
    destruct (dec_h X o w) as [x w'|e w'|q w'].
    + destruct Hs as [Hx Hw']. apply IH; assumption.
    + exact Hs.
    + contradiction.
Qed.
Print Assumptions safe_prog_interp.

(* Part 3: one symbol on the concrete objects *)
Theorem process_next_inner_world p y upd w :
  lc p <= 8 -> lp p <= 4 -> pb p <= 4 -> sym32 y -> WInv (lc p + lp p) w ->
  match interp dec_h (process_next_inner p y upd) w with
  | (Done (st, y'), w') => sym32 y' /\ WInv (lc p + lp p) w'
  | (Failed _, w') => WInv (lc p + lp p) w'
  | (Panicked _, _) => False
  end.
Proof.
  intros Hlc Hlp Hpb Hy Hw.
  pose proof (safe_prog_interp (lc p + lp p) _ _
                (process_next_inner_safe (fun x => x < 2 ^ 32) (fun x H => H) p y upd Hlc Hlp Hpb Hy) w Hw) as H.
  destruct (interp dec_h (process_next_inner p y upd) w) as [[[st y']|e|q] w']; exact H.
Qed.
Print Assumptions process_next_inner_world.

(* ---------- the same on the objects of process_mode (run_sym) ---------- *)
Record LwInv (w : lw) : Prop := mkLwInv {
  li_lc : lc (ds_props (l_ds w)) <= 8;
  li_lp : lp (ds_props (l_ds w)) <= 4;
  li_pb : pb (ds_props (l_ds w)) <= 4;
  li_sym : sym32 (mkSym (ds_state (l_ds w)) (ds_rep (l_ds w)));
  li_world : WInv (lc (ds_props (l_ds w)) + lp (ds_props (l_ds w)))
                  (mkDw (ds_tabs (l_ds w)) (l_rc w) (l_src w) (l_win w))
}.

Theorem run_sym_safe upd w : LwInv w ->
  match run_sym upd w with
  | (Panicked _, _) => False
  | (_, w') => LwInv w'
  end.
Proof.
  intros [Hlc Hlp Hpb Hy Hw]. unfold run_sym.
  pose proof (process_next_inner_world (ds_props (l_ds w)) _ upd _ Hlc Hlp Hpb Hy Hw) as H.
  destruct (interp dec_h (process_next_inner (ds_props (l_ds w)) (mkSym (ds_state (l_ds w)) (ds_rep (l_ds w))) upd)
              (mkDw (ds_tabs (l_ds w)) (l_rc w) (l_src w) (l_win w))) as [[[st y']|e|q] x].
  - destruct H as [Hy' Hx]. destruct y' as [st' r']. destruct x as [t r s v].
    constructor; cbn [l_ds l_rc l_src l_win ds_props ds_state ds_rep ds_tabs d_tabs d_rc d_src d_win y_state y_rep] in *; assumption.
  - destruct x as [t r s v].
    constructor; cbn [l_ds l_rc l_src l_win ds_props ds_state ds_rep ds_tabs d_tabs d_rc d_src d_win] in *; assumption.
  - contradiction.
Qed.
Print Assumptions run_sym_safe.

(* the invariant holds of a freshly created decoder on a circular window with a
   non-empty dictionary *)
Theorem LwInv_init p us d r s k dict mem :
  dstate_new p us = (Done d, tt) -> 0 < dict -> RcInv r -> SrcBytes s ->
  LwInv (mkLw d r s (WCirc (circ_new k dict mem))).
Proof.
  unfold dstate_new, props_valid. intros Hd Hdict Hr Hs.
  destruct (N.leb_spec (lc p) 8) as [Hlc|]; [|discriminate].
  destruct (N.leb_spec (lp p) 4) as [Hlp|]; [|discriminate].
  destruct (N.leb_spec (pb p) 4) as [Hpb|]; [|discriminate].
  cbn [andb negb] in Hd. inversion Hd; subst d; clear Hd.
  constructor; cbn [l_ds l_rc l_src l_win ds_props ds_state ds_rep ds_tabs]; try assumption.
  - unfold sym32, reps32, reps_ok. cbn [y_state y_rep rep0 rep1 rep2 rep3].
    change (2 ^ 32) with 4294967296. lia.
  - constructor; cbn [d_tabs d_rc d_src d_win]; try assumption.
    + apply TabsStd_new.
    + apply ProbsOk_new.
    + apply circ_new_ok. exact Hdict.
Qed.
Print Assumptions LwInv_init.
