(* Fragmentation independence, I/O layer (property C13).
   Two fault-free sources over the same bytes ([same_data]) may differ in how
   fill_buf fragments the data (s_avail / s_refills / s_frag).  Every derived
   read of the decoders answers the same on both and leaves them [same_data].

   [interp2] is [interp] with one more outcome: it tells a [Fail] node of the
   program (O2Fail) from an error of the handler (O2HErr), so that
   [map_io_err] can be pushed through a run.  [Resp2 p]: the program [p]
   respects [sdio] (same_data sources, equal sinks). *)
From LZ Require Import Base.Prelude Base.Prog Model.Io Model.Tables Model.LzBuffer Model.RangeDec Model.Lzma
  Proofs.ProgLemmas Proofs.IoLemmas.
From Coq Require Import ZifyBool ZifyNat ZifyN.
Local Open Scope prog_scope.

(* ---------- interp with handler errors kept apart ---------- *)
Inductive out2 (A : Type) : Type :=
| O2Done (a : A) | O2Fail (e : err) | O2HErr (e : err) | O2Panic (p : panic_site).
Arguments O2Done {A} a. Arguments O2Fail {A} e. Arguments O2HErr {A} e. Arguments O2Panic {A} p.

Definition forget {A} (o : out2 A) : outcome A :=
  match o with O2Done a => Done a | O2Fail e => Failed e | O2HErr e => Failed e | O2Panic p => Panicked p end.

Section Interp2.
  Variable E : Type -> Type.

  Fixpoint interp2 {S A} (h : handler E S) (p : prog E A) (s : S) : out2 A * S :=
    match p with
    | Ret a => (O2Done a, s)
    | Fail e => (O2Fail e, s)
    | Panic w => (O2Panic w, s)
    | Vis o k =>
        match h _ o s with
        | HOk x s' => interp2 h (k x) s'
        | HErr e s' => (O2HErr e, s')
        | HPanic w s' => (O2Panic w, s')
        end
    end.

  Lemma interp_interp2 {S A} (h : handler E S) (p : prog E A) s :
    interp h p s = (forget (fst (interp2 h p s)), snd (interp2 h p s)).
  Proof.
    revert s. induction p as [a|e|w|X o k IH]; intros s; cbn [interp interp2 fst snd forget]; try reflexivity.
    destruct (h X o s) as [x s'|e s'|w s']; [apply IH|reflexivity|reflexivity].
  Qed.

  Lemma interp2_bind {S A B} (h : handler E S) (p : prog E A) (f : A -> prog E B) s :
    interp2 h (bind p f) s =
    match interp2 h p s with
    | (O2Done a, s') => interp2 h (f a) s'
    | (O2Fail e, s') => (O2Fail e, s')
    | (O2HErr e, s') => (O2HErr e, s')
    | (O2Panic w, s') => (O2Panic w, s')
    end.
  Proof.
    revert s. induction p as [a|e|w|X o k IH]; intros s; cbn [bind interp2]; try reflexivity.
    destruct (h X o s) as [x s'|e s'|w s']; [apply IH|reflexivity|reflexivity].
  Qed.

  Lemma interp2_done {S A} (h : handler E S) (p : prog E A) s a s' :
    interp h p s = (Done a, s') -> interp2 h p s = (O2Done a, s').
  Proof.
    rewrite interp_interp2. destruct (interp2 h p s) as [[b|e|e|w] t]; cbn [fst snd forget]; intros H; inversion H; reflexivity.
  Qed.
End Interp2.
Arguments interp2 {E S A} h p s.

Definition map2 {A} (e' : err) (o : out2 A) : out2 A :=
  match o with
  | O2Fail EIo => O2Fail e'
  | x => x
  end.

Lemma interp2_map_io_err {A} (e' : err) (p : prog ioE A) w :
  interp2 io_h (map_io_err e' p) w = (map2 e' (fst (interp2 io_h p w)), snd (interp2 io_h p w)).
Proof.
  revert w. induction p as [a|e|q|X o k IH]; intros w; cbn [map_io_err interp2 fst snd map2]; try reflexivity.
  - destruct e; reflexivity.
  - destruct (io_h X o w) as [x s'|e s'|q s']; [apply IH|reflexivity|reflexivity].
Qed.

(* ---------- same data, different fragmentation ---------- *)
Definition same_data (s1 s2 : src) : Prop :=
  s_rest s1 = s_rest s2 /\ s_pos s1 = s_pos s2 /\ s_limit s1 = s_limit s2 /\ FaultFreeL s1 /\ FaultFreeL s2.

Definition sdio (w1 w2 : io) : Prop := same_data (i_src w1) (i_src w2) /\ i_snk w1 = i_snk w2.

Lemma same_data_refl s : FaultFreeL s -> same_data s s.
Proof. intros H. split; [reflexivity|]. split; [reflexivity|]. split; [reflexivity|]. split; assumption. Qed.

Lemma same_data_sym s1 s2 : same_data s1 s2 -> same_data s2 s1.
Proof. intros (H1 & H2 & H3 & H4 & H5). split; [congruence|]. split; [congruence|]. split; [congruence|]. split; assumption. Qed.

Lemma same_data_trans s1 s2 s3 : same_data s1 s2 -> same_data s2 s3 -> same_data s1 s3.
Proof.
  intros (H1 & H2 & H3 & H4 & H5) (G1 & G2 & G3 & G4 & G5).
  split; [congruence|]. split; [congruence|]. split; [congruence|]. split; assumption.
Qed.

(* the number of bytes that can still be read *)
Definition cap (s : src) : N :=
  match s_limit s with Some l => N.min l (nlen (s_rest s)) | None => nlen (s_rest s) end.

(* [s'] is [s] after reading [m] bytes *)
Definition src_after (s : src) (m : N) (s' : src) : Prop :=
  s_rest s' = nskipn m (s_rest s) /\ s_pos s' = s_pos s + m /\ s_limit s' = lim_sub s m /\ FaultFreeL s'.

Lemma cap_same s1 s2 : same_data s1 s2 -> cap s1 = cap s2.
Proof. intros (H1 & H2 & H3 & _). unfold cap. rewrite H1, H3. reflexivity. Qed.

Lemma src_after_same s1 s2 m t1 t2 :
  same_data s1 s2 -> src_after s1 m t1 -> src_after s2 m t2 -> same_data t1 t2.
Proof.
  intros (H1 & H2 & H3 & _) (A1 & A2 & A3 & A4) (B1 & B2 & B3 & B4).
  unfold lim_sub in *. split; [congruence|]. split; [congruence|]. split; [rewrite A3, B3, H3; reflexivity|]. split; assumption.
Qed.

Lemma nskipn_0 {A} (l : list A) : nskipn 0 l = l.
Proof. reflexivity. Qed.
Lemma nfirstn_0 {A} (l : list A) : nfirstn 0 l = [].
Proof. reflexivity. Qed.

Lemma src_after_0 s : FaultFreeL s -> src_after s 0 s.
Proof.
  intros H. unfold src_after, lim_sub. rewrite nskipn_0. repeat split; try apply H; try lia.
  destruct (s_limit s); [f_equal; lia|reflexivity].
Qed.

Lemma firstn_add_nat {A} : forall (n m : nat) (l : list A), firstn n l ++ firstn m (skipn n l) = firstn (n + m) l.
Proof.
  induction n as [|n IH]; intros m l; [reflexivity|].
  destruct l as [|x l]; cbn [firstn skipn Nat.add app]; [rewrite firstn_nil; reflexivity|].
  f_equal. apply IH.
Qed.
Lemma skipn_add_nat {A} : forall (n m : nat) (l : list A), skipn m (skipn n l) = skipn (n + m) l.
Proof.
  induction n as [|n IH]; intros m l; [reflexivity|].
  destruct l as [|x l]; cbn [skipn Nat.add]; [apply skipn_nil|apply IH].
Qed.

Lemma nfirstn_add {A} g m (l : list A) : nfirstn g l ++ nfirstn m (nskipn g l) = nfirstn (g + m) l.
Proof. unfold nfirstn, nskipn. rewrite N2Nat.inj_add. apply firstn_add_nat. Qed.
Lemma nskipn_add {A} g m (l : list A) : nskipn m (nskipn g l) = nskipn (g + m) l.
Proof. unfold nskipn. rewrite N2Nat.inj_add. apply skipn_add_nat. Qed.

Lemma src_after_trans s g s1 m s2 : src_after s g s1 -> src_after s1 m s2 -> src_after s (g + m) s2.
Proof.
  intros (A1 & A2 & A3 & A4) (B1 & B2 & B3 & B4). unfold src_after, lim_sub in *.
  rewrite B1, A1, nskipn_add, B2, A2, B3, A3. repeat split; try apply B4; try lia.
  destruct (s_limit s); [f_equal; lia|reflexivity].
Qed.

Lemma cap_after s g s1 : src_after s g s1 -> cap s1 = cap s - g.
Proof.
  intros (A1 & A2 & A3 & A4). unfold cap, lim_sub in *. rewrite A3, A1, nlen_nskipn.
  destruct (s_limit s); lia.
Qed.

(* ---------- one read_buf ---------- *)
Lemma read_buf2 s n : FaultFreeL s -> 0 < n ->
  exists g s', (forall k, interp2 io_h (read_buf n) (mkIo s k) = (O2Done (nfirstn g (s_rest s)), mkIo s' k)) /\
    g <= n /\ g <= cap s /\ src_after s g s' /\ (g = 0 -> cap s = 0).
Proof.
  intros Hs Hn.
  destruct (io_read_buf_spec s n Hs Hn) as (g & s' & Hrun & Hgn & Hgl & Hlg & Hr & Hp & Hl & Hs' & Hprog).
  exists g, s'. split; [|split; [assumption|split; [|split]]].
  - intros k. apply interp2_done. apply Hrun.
  - unfold cap, lim_ge in *. destruct (s_limit s); lia.
  - repeat split; try assumption; apply Hs'.
  - intros ->. unfold cap, lim_ge in *.
    destruct (s_rest s) as [|b t] eqn:Er.
    + rewrite nlen_nil. destruct (s_limit s); lia.
    + destruct (s_limit s) as [l|].
      * destruct (N.eq_dec l 0) as [->|Hne]; [lia|].
        assert (1 <= 0); [|lia]. apply Hprog; [discriminate|lia].
      * assert (1 <= 0); [|lia]. apply Hprog; [discriminate|exact I].
Qed.

Lemma nfirstn_nonempty {A} g (l : list A) : 1 <= g -> g <= nlen l -> nfirstn g l <> [].
Proof.
  intros H1 H2 E. assert (H : nlen (nfirstn g l) = g) by (rewrite nlen_nfirstn; lia).
  rewrite E, nlen_nil in H. lia.
Qed.

(* ---------- read_exact: all or Fail EIo, in both cases min n cap bytes are consumed ---------- *)
Lemma read_exact_loop2 fuel : forall s n acc, FaultFreeL s -> (N.to_nat n <= fuel)%nat ->
  exists s', (forall k, interp2 io_h (read_exact_loop fuel n acc) (mkIo s k) =
                ((if n <=? cap s then O2Done (lrev acc ++ nfirstn n (s_rest s)) else O2Fail EIo), mkIo s' k)) /\
             src_after s (N.min n (cap s)) s'.
Proof.
  induction fuel as [|fuel IH]; intros s n acc Hs Hfuel; rewrite read_exact_loop_unfold.
  - assert (n = 0) by lia. subst n. change (0 =? 0) with true. cbv iota.
    exists s. split.
    + intros k. destruct (N.leb_spec 0 (cap s)); [|lia]. rewrite nfirstn_0, app_nil_r. reflexivity.
    + replace (N.min 0 (cap s)) with 0 by lia. apply src_after_0. assumption.
  - destruct (N.eqb_spec n 0) as [E|E].
    + subst n. exists s. split.
      * intros k. destruct (N.leb_spec 0 (cap s)); [|lia]. rewrite nfirstn_0, app_nil_r. reflexivity.
      * replace (N.min 0 (cap s)) with 0 by lia. apply src_after_0. assumption.
    + destruct (read_buf2 s n Hs ltac:(lia)) as (g & s1 & Hrun & Hgn & Hgc & Haft & Hz).
      destruct (N.eq_dec g 0) as [Eg|Eg].
      * subst g. specialize (Hz eq_refl). exists s1. split.
        -- intros k. rewrite interp2_bind, Hrun, nfirstn_0. cbn [interp2].
           destruct (N.leb_spec n (cap s)); [lia|reflexivity].
        -- replace (N.min n (cap s)) with 0 by lia. exact Haft.
      * assert (Hs1 : FaultFreeL s1) by apply Haft.
        assert (Hgl : g <= nlen (s_rest s)) by (unfold cap in Hgc; destruct (s_limit s); lia).
        destruct (IH s1 (n - g) (rev_append (nfirstn g (s_rest s)) acc) Hs1 ltac:(lia)) as (s2 & Hrun2 & Haft2).
        assert (Hc1 : cap s1 = cap s - g) by (apply cap_after; exact Haft).
        exists s2. split.
        -- intros k. rewrite interp2_bind, Hrun.
           assert (Hlen : nlen (nfirstn g (s_rest s)) = g) by (rewrite nlen_nfirstn; lia).
           rewrite Hlen.
           destruct (nfirstn g (s_rest s)) as [|x l] eqn:Eg'; [rewrite nlen_nil in Hlen; lia|].
           rewrite Hrun2, Hc1. destruct Haft as (A1 & _). rewrite A1.
           destruct (N.leb_spec (n - g) (cap s - g)); destruct (N.leb_spec n (cap s)); try lia; [|reflexivity].
           rewrite lrev_rev_append, <- app_assoc, <- Eg', nfirstn_add. replace (g + (n - g)) with n by lia. reflexivity.
        -- rewrite Hc1 in Haft2. replace (N.min n (cap s)) with (g + N.min (n - g) (cap s - g)) by lia.
           eapply src_after_trans; eassumption.
Qed.

Lemma read_exact2 s n : FaultFreeL s ->
  exists s', (forall k, interp2 io_h (read_exact n) (mkIo s k) =
                ((if n <=? cap s then O2Done (nfirstn n (s_rest s)) else O2Fail EIo), mkIo s' k)) /\
             src_after s (N.min n (cap s)) s'.
Proof. intros Hs. unfold read_exact. apply (read_exact_loop2 (N.to_nat n) s n [] Hs). lia. Qed.

(* ---------- read_upto: min n cap bytes ---------- *)
Lemma read_upto_loop_unfold fuel n acc :
  read_upto_loop fuel n acc =
  if n =? 0 then Ret (lrev acc) else
  match fuel with
  | O => Panic (PFuel 2)
  | S fuel' =>
      got <- read_buf n ;;
      match got with
      | [] => Ret (lrev acc)
      | _ => read_upto_loop fuel' (n - nlen got) (rev_append got acc)
      end
  end.
Proof. destruct fuel; reflexivity. Qed.

Lemma read_upto_loop2 fuel : forall s n acc, FaultFreeL s -> (N.to_nat n <= fuel)%nat ->
  exists s', (forall k, interp2 io_h (read_upto_loop fuel n acc) (mkIo s k) =
                (O2Done (lrev acc ++ nfirstn (N.min n (cap s)) (s_rest s)), mkIo s' k)) /\
             src_after s (N.min n (cap s)) s'.
Proof.
  induction fuel as [|fuel IH]; intros s n acc Hs Hfuel; rewrite read_upto_loop_unfold.
  - assert (n = 0) by lia. subst n. change (0 =? 0) with true. cbv iota.
    exists s. replace (N.min 0 (cap s)) with 0 by lia. split.
    + intros k. rewrite nfirstn_0, app_nil_r. reflexivity.
    + apply src_after_0. assumption.
  - destruct (N.eqb_spec n 0) as [E|E].
    + subst n. exists s. replace (N.min 0 (cap s)) with 0 by lia. split.
      * intros k. rewrite nfirstn_0, app_nil_r. reflexivity.
      * apply src_after_0. assumption.
    + destruct (read_buf2 s n Hs ltac:(lia)) as (g & s1 & Hrun & Hgn & Hgc & Haft & Hz).
      destruct (N.eq_dec g 0) as [Eg|Eg].
      * subst g. specialize (Hz eq_refl). exists s1. replace (N.min n (cap s)) with 0 by lia. split.
        -- intros k. rewrite interp2_bind, Hrun, !nfirstn_0. cbn [interp2]. rewrite app_nil_r. reflexivity.
        -- exact Haft.
      * assert (Hs1 : FaultFreeL s1) by apply Haft.
        assert (Hgl : g <= nlen (s_rest s)) by (unfold cap in Hgc; destruct (s_limit s); lia).
        destruct (IH s1 (n - g) (rev_append (nfirstn g (s_rest s)) acc) Hs1 ltac:(lia)) as (s2 & Hrun2 & Haft2).
        assert (Hc1 : cap s1 = cap s - g) by (apply cap_after; exact Haft).
        exists s2. split.
        -- intros k. rewrite interp2_bind, Hrun.
           assert (Hlen : nlen (nfirstn g (s_rest s)) = g) by (rewrite nlen_nfirstn; lia).
           rewrite Hlen.
           destruct (nfirstn g (s_rest s)) as [|x l] eqn:Eg'; [rewrite nlen_nil in Hlen; lia|].
           rewrite Hrun2, Hc1. destruct Haft as (A1 & _). rewrite A1.
           rewrite lrev_rev_append, <- app_assoc, <- Eg', nfirstn_add. replace (g + N.min (n - g) (cap s - g)) with (N.min n (cap s)) by lia. reflexivity.
        -- rewrite Hc1 in Haft2. replace (N.min n (cap s)) with (g + N.min (n - g) (cap s - g)) by lia.
           eapply src_after_trans; eassumption.
Qed.

Lemma read_upto2 s n : FaultFreeL s ->
  exists s', (forall k, interp2 io_h (read_upto n) (mkIo s k) =
                (O2Done (nfirstn (N.min n (cap s)) (s_rest s)), mkIo s' k)) /\
             src_after s (N.min n (cap s)) s'.
Proof. intros Hs. unfold read_upto. apply (read_upto_loop2 (N.to_nat n) s n [] Hs). lia. Qed.

(* ---------- programs that respect same_data ---------- *)
Definition Resp2 {A} (p : iop A) : Prop :=
  forall w1 w2, sdio w1 w2 ->
    fst (interp2 io_h p w1) = fst (interp2 io_h p w2) /\
    sdio (snd (interp2 io_h p w1)) (snd (interp2 io_h p w2)).

Lemma Resp2_ret {A} (a : A) : Resp2 (Ret a).
Proof. intros w1 w2 H. cbn [interp2 fst snd]. split; [reflexivity|assumption]. Qed.
Lemma Resp2_fail {A} e : Resp2 (@Fail ioE A e).
Proof. intros w1 w2 H. cbn [interp2 fst snd]. split; [reflexivity|assumption]. Qed.
Lemma Resp2_panic {A} q : Resp2 (@Panic ioE A q).
Proof. intros w1 w2 H. cbn [interp2 fst snd]. split; [reflexivity|assumption]. Qed.

Lemma Resp2_bind {A B} (p : iop A) (f : A -> iop B) :
  Resp2 p -> (forall a, Resp2 (f a)) -> Resp2 (bind p f).
Proof.
  intros Hp Hf w1 w2 H. rewrite !interp2_bind. destruct (Hp w1 w2 H) as [Hfst Hsd].
  destruct (interp2 io_h p w1) as [r1 t1]; destruct (interp2 io_h p w2) as [r2 t2]. cbn [fst snd] in *. subst r2.
  destruct r1 as [a|e|e|q]; cbn [fst snd]; try (split; [reflexivity|assumption]).
  apply Hf. assumption.
Qed.

Lemma Resp2_map {A} e' (p : iop A) : Resp2 p -> Resp2 (map_io_err e' p).
Proof.
  intros Hp w1 w2 H. rewrite !interp2_map_io_err. cbn [fst snd]. destruct (Hp w1 w2 H) as [Hfst Hsd].
  rewrite Hfst. split; [reflexivity|assumption].
Qed.

Lemma Resp2_read_exact n : Resp2 (read_exact n).
Proof.
  intros [s1 k1] [s2 k2] [Hsd Hk]. cbn [i_src i_snk] in *. subst k2.
  destruct (read_exact2 s1 n) as (t1 & R1 & A1); [apply Hsd|].
  destruct (read_exact2 s2 n) as (t2 & R2 & A2); [apply Hsd|].
  rewrite R1, R2. cbn [fst snd]. rewrite <- (cap_same s1 s2 Hsd) in *.
  assert (E : s_rest s1 = s_rest s2) by apply Hsd. rewrite E. split; [reflexivity|].
  split; [|reflexivity]. cbn [i_src]. eapply src_after_same; eassumption.
Qed.

Lemma Resp2_read_upto n : Resp2 (read_upto n).
Proof.
  intros [s1 k1] [s2 k2] [Hsd Hk]. cbn [i_src i_snk] in *. subst k2.
  destruct (read_upto2 s1 n) as (t1 & R1 & A1); [apply Hsd|].
  destruct (read_upto2 s2 n) as (t2 & R2 & A2); [apply Hsd|].
  rewrite R1, R2. cbn [fst snd]. rewrite <- (cap_same s1 s2 Hsd) in *.
  assert (E : s_rest s1 = s_rest s2) by apply Hsd. rewrite E. split; [reflexivity|].
  split; [|reflexivity]. cbn [i_src]. eapply src_after_same; eassumption.
Qed.

Lemma Resp2_is_eof : Resp2 is_eof.
Proof.
  intros [s1 k1] [s2 k2] [Hsd Hk]. cbn [i_src i_snk] in *. subst k2.
  destruct Hsd as (E1 & E2 & E3 & F1 & F2).
  destruct (io_is_eof_specL s1 F1) as (t1 & R1 & A1 & A2 & A3 & A4).
  destruct (io_is_eof_specL s2 F2) as (t2 & R2 & B1 & B2 & B3 & B4).
  pose proof (R1 k1) as Q1. pose proof (R2 k1) as Q2. apply interp2_done in Q1. apply interp2_done in Q2. rewrite Q1, Q2. cbn [fst snd].
  rewrite E1, E3. split; [reflexivity|]. split; [|reflexivity]. cbn [i_src].
  repeat split; try congruence; try apply A4; apply B4.
Qed.

(* fill_buf alone: the visible count may differ, the sources stay same_data *)
Lemma fill_same s1 s2 : same_data s1 s2 ->
  exists v1 v2 t1 t2, src_fill s1 = HOk (s_rest s1, v1) t1 /\ src_fill s2 = HOk (s_rest s2, v2) t2 /\ same_data t1 t2.
Proof.
  intros (E1 & E2 & E3 & F1 & F2).
  destruct (src_fill_spec s1 F1) as (v1 & t1 & R1 & A1 & A2 & A3 & A4 & _).
  destruct (src_fill_spec s2 F2) as (v2 & t2 & R2 & B1 & B2 & B3 & B4 & _).
  exists v1, v2, t1, t2. split; [assumption|]. split; [assumption|].
  repeat split; try congruence; try apply A4; apply B4.
Qed.

(* a fill_buf whose answer is not looked at *)
Lemma Resp2_fill_ignore {A} (p : iop A) : Resp2 p -> Resp2 (bind (icall FillBuf) (fun _ => p)).
Proof.
  intros Hp [s1 k1] [s2 k2] [Hsd Hk]. cbn [i_src i_snk] in *. subst k2.
  destruct (fill_same s1 s2 Hsd) as (v1 & v2 & t1 & t2 & R1 & R2 & Hsd').
  rewrite !interp2_bind. unfold call. cbn [interp2 io_h i_src i_snk]. rewrite R1, R2.
  apply Hp. split; [exact Hsd'|reflexivity].
Qed.

Lemma Resp2_getpos : Resp2 (icall GetPos).
Proof.
  intros w1 w2 H. unfold call. cbn [interp2 io_h fst snd]. split; [|assumption].
  f_equal. apply H.
Qed.

Lemma Resp2_getcount : Resp2 (icall GetCount).
Proof.
  intros w1 w2 H. unfold call. cbn [interp2 io_h fst snd]. split; [|assumption].
  f_equal. destruct H as [_ H]. rewrite H. reflexivity.
Qed.

Lemma Resp2_write bs : Resp2 (icall (Write bs)).
Proof.
  intros [s1 k1] [s2 k2] [Hsd Hk]. cbn [i_src i_snk] in *. subst k2.
  unfold call. cbn [interp2 io_h i_src i_snk].
  destruct (snk_write k1 bs) as [x k|e k|q k]; cbn [interp2 fst snd]; (split; [reflexivity|split; [exact Hsd|reflexivity]]).
Qed.

Lemma Resp2_flush : Resp2 (icall Flush).
Proof.
  intros [s1 k1] [s2 k2] [Hsd Hk]. cbn [i_src i_snk] in *. subst k2.
  unfold call. cbn [interp2 io_h i_src i_snk].
  destruct (snk_flush k1) as [x k|e k|q k]; cbn [interp2 fst snd]; (split; [reflexivity|split; [exact Hsd|reflexivity]]).
Qed.

(* ---------- derived reads and writes ---------- *)
Ltac resp2_step :=
  first
    [ apply Resp2_ret | apply Resp2_fail | apply Resp2_panic
    | apply Resp2_read_exact | apply Resp2_read_upto | apply Resp2_is_eof
    | apply Resp2_getpos | apply Resp2_getcount | apply Resp2_write | apply Resp2_flush
    | apply Resp2_map
    | assumption
    | apply Resp2_bind; [|intros]
    | match goal with
      | |- Resp2 (if ?b then _ else _) => destruct b
      | |- Resp2 (match ?x with _ => _ end) => destruct x
      end ].
Ltac resp2 := repeat resp2_step.

Lemma Resp2_read_u8 : Resp2 read_u8.
Proof. unfold read_u8. resp2. Qed.
Lemma Resp2_read_u16_be : Resp2 read_u16_be.
Proof. unfold read_u16_be. resp2. Qed.
Lemma Resp2_read_u32_be : Resp2 read_u32_be.
Proof. unfold read_u32_be. resp2. Qed.
Lemma Resp2_read_u32_le : Resp2 read_u32_le.
Proof. unfold read_u32_le. resp2. Qed.
Lemma Resp2_read_u64_le : Resp2 read_u64_le.
Proof. unfold read_u64_le. resp2. Qed.
Lemma Resp2_read_tag tag : Resp2 (read_tag tag).
Proof. unfold read_tag. resp2. Qed.

Lemma Resp2_write_all_loop fuel : forall bs, Resp2 (write_all_loop fuel bs).
Proof.
  induction fuel as [|fuel IH]; intros bs; destruct bs as [|b bs]; cbn [write_all_loop]; resp2. apply IH.
Qed.
Lemma Resp2_write_all bs : Resp2 (write_all bs).
Proof. apply Resp2_write_all_loop. Qed.

(* ---------- range decoder ---------- *)
Lemma Resp2_rc_new : Resp2 rc_new.
Proof. unfold rc_new. apply Resp2_bind; [apply Resp2_read_u8|intros]. apply Resp2_bind; [apply Resp2_read_u32_be|intros]. resp2. Qed.

Lemma Resp2_rc_normalize r : Resp2 (rc_normalize r).
Proof. unfold rc_normalize. destruct (r_range r <? 16777216); [|resp2]. apply Resp2_bind; [apply Resp2_read_u8|intros; resp2]. Qed.

Lemma Resp2_rc_get_bit r : Resp2 (rc_get_bit r).
Proof. unfold rc_get_bit. cbv zeta. apply Resp2_bind; [apply Resp2_rc_normalize|intros; resp2]. Qed.

Lemma Resp2_rc_get_loop n : forall r res, Resp2 (rc_get_loop n r res).
Proof.
  induction n as [|n IH]; intros r res; cbn [rc_get_loop]; [resp2|].
  apply Resp2_bind; [apply Resp2_rc_get_bit|]. intros [b r']. apply IH.
Qed.
Lemma Resp2_rc_get count r : Resp2 (rc_get count r).
Proof. apply Resp2_rc_get_loop. Qed.

Lemma Resp2_rc_decode_bit r prob upd : Resp2 (rc_decode_bit r prob upd).
Proof.
  unfold rc_decode_bit. cbv zeta.
  repeat match goal with
         | |- Resp2 (if ?b then _ else _) => destruct b
         end; try apply Resp2_panic;
  (apply Resp2_bind; [apply Resp2_rc_normalize|intros; apply Resp2_ret]).
Qed.

Lemma Resp2_rc_is_finished_ok r : Resp2 (rc_is_finished_ok r).
Proof. unfold rc_is_finished_ok. resp2. Qed.

Lemma Resp2_read_header o : Resp2 (read_header o).
Proof.
  unfold read_header. apply Resp2_bind; [apply Resp2_read_u8|intros pbyte].
  destruct (225 <=? pbyte); [apply Resp2_fail|]. cbv zeta.
  apply Resp2_bind; [apply Resp2_read_u32_le|intros dp].
  apply Resp2_bind; [|intros; apply Resp2_ret].
  destruct (o_unpacked o).
  - apply Resp2_bind; [apply Resp2_read_u64_le|intros; apply Resp2_ret].
  - apply Resp2_bind; [apply Resp2_read_u64_le|intros; apply Resp2_ret].
  - apply Resp2_ret.
Qed.

(* ---------- from interp2 back to run_io / src_run ---------- *)
Lemma Resp2_run_io {A} (p : iop A) : Resp2 p ->
  forall w1 w2, sdio w1 w2 -> fst (run_io p w1) = fst (run_io p w2) /\ sdio (snd (run_io p w1)) (snd (run_io p w2)).
Proof.
  intros Hp w1 w2 H. unfold run_io. rewrite !interp_interp2. cbn [fst snd].
  destruct (Hp w1 w2 H) as [Hf Hs]. rewrite Hf. split; [reflexivity|assumption].
Qed.

Lemma src_run_eq {A} (p : iop A) s :
  src_run p s = (fst (run_io p (mkIo s vec_sink)), i_src (snd (run_io p (mkIo s vec_sink)))).
Proof. unfold src_run. destruct (run_io p (mkIo s vec_sink)); reflexivity. Qed.

Lemma Resp2_src_run {A} (p : iop A) : Resp2 p ->
  forall s1 s2, same_data s1 s2 ->
    exists r t1 t2, src_run p s1 = (r, t1) /\ src_run p s2 = (r, t2) /\ same_data t1 t2.
Proof.
  intros Hp s1 s2 H. rewrite !src_run_eq.
  destruct (Resp2_run_io p Hp (mkIo s1 vec_sink) (mkIo s2 vec_sink)) as [Hf Hs]; [split; [exact H|reflexivity]|].
  eexists _, _, _. split; [reflexivity|]. split; [rewrite Hf; reflexivity|]. apply Hs.
Qed.

Lemma src_fill_run s1 s2 : same_data s1 s2 ->
  exists b1 b2 t1 t2, src_run (icall FillBuf) s1 = (Done b1, t1) /\ src_run (icall FillBuf) s2 = (Done b2, t2) /\ same_data t1 t2.
Proof.
  intros H. destruct (fill_same s1 s2 H) as (v1 & v2 & t1 & t2 & R1 & R2 & Hsd).
  exists (s_rest s1, v1), (s_rest s2, v2), t1, t2.
  unfold src_run, run_io, call. cbn [interp io_h i_src i_snk]. rewrite R1, R2. cbn [interp i_src].
  repeat split; try reflexivity; apply Hsd.
Qed.

Print Assumptions Resp2_read_exact.
Print Assumptions Resp2_read_upto.
Print Assumptions Resp2_src_run.
