(* C08: size and end-of-stream rules of DecoderState::process_mode (Finish mode). *)
From LZ Require Import Base.Prelude Base.Prog Model.Io Model.Tables Model.LzBuffer Model.RangeDec Model.Lzma Proofs.ProgLemmas.

(* ---------- the size in effect is never changed by decoding ---------- *)
Lemma run_sym_unpacked upd w : ds_unpacked (l_ds (snd (run_sym upd w))) = ds_unpacked (l_ds w).
Proof. unfold run_sym. destruct (interp dec_h _ _) as [[[st y]|e|q] x]; reflexivity. Qed.

Lemma rpib_unpacked w : ds_unpacked (l_ds (snd (read_partial_input_buf w))) = ds_unpacked (l_ds w).
Proof.
  unfold read_partial_input_buf. destruct (_ <? _); [reflexivity|].
  destruct (src_run _ _) as [[g|e|q] s]; reflexivity.
Qed.

Definition res_state (r : step lw pm_result) : lw := match r with Next w => w | Break (_, w) => w end.

Lemma pm_body_unpacked mode w : ds_unpacked (l_ds (res_state (pm_body mode w))) = ds_unpacked (l_ds w).
Proof.
  unfold pm_body. cbv zeta.
  set (head := match ds_unpacked (l_ds w) with Some us => _ | None => _ end).
  assert (Hh : ds_unpacked (l_ds (snd head)) = ds_unpacked (l_ds w)).
  { unfold head. destruct (ds_unpacked (l_ds w)) eqn:Hus; [cbn [snd]; congruence|]. destruct mode.
    - destruct (src_run is_eof _) as [[b|e|q] s]; cbn [snd l_ds]; congruence.
    - destruct (_ =? _); [|cbn [snd]; congruence]. destruct (src_run _ _) as [[b|e|q] s]; cbn [snd l_ds]; congruence. }
  clearbody head.
  destruct head as [[[|]|e|q] w1]; cbn [snd res_state] in *; try exact Hh.
  destruct (0 <? nlen (ds_pib (l_ds w1))).
  - pose proof (rpib_unpacked w1) as H2. destruct (read_partial_input_buf w1) as [[u|e|q] w2]; cbn [snd res_state] in *; try congruence.
    set (nm := match mode with Partial => _ | FinishMode => _ end).
    destruct nm as [[|]|e|q]; cbn [res_state]; try congruence.
    pose proof (run_sym_unpacked true (mkLw (l_ds w2) (l_rc w2) (cursor_of (ds_pib (l_ds w2))) (l_win w2))) as H3. cbn [l_ds] in H3.
    destruct (run_sym true _) as [[st|e|q] t]; cbn [snd res_state l_ds] in *; try congruence.
    destruct (_ <? _); cbn [res_state]; [congruence|].
    destruct st; cbn [res_state l_ds set_pib ds_unpacked]; congruence.
  - destruct (src_run (icall FillBuf) (l_src w1)) as [[buf|e|q] s]; cbn [res_state l_ds]; try exact Hh.
    set (nm := match mode with Partial => _ | FinishMode => _ end).
    destruct nm as [[|]|e|q]; cbn [res_state l_ds]; try exact Hh.
    + pose proof (rpib_unpacked (mkLw (l_ds w1) (l_rc w1) s (l_win w1))) as H2. cbn [l_ds] in H2.
      destruct (read_partial_input_buf _) as [o w2]. cbn [snd res_state] in *. congruence.
    + pose proof (run_sym_unpacked true (mkLw (l_ds w1) (l_rc w1) s (l_win w1))) as H3. cbn [l_ds] in H3.
      destruct (run_sym true _) as [[[|]|e|q] w3]; cbn [snd res_state] in *; congruence.
Qed.

Lemma loop_unpacked mode fuel w :
  ds_unpacked (l_ds (res_state (loopN fuel (pm_body mode) w))) = ds_unpacked (l_ds w).
Proof.
  pose proof (loopN_inv (pm_body mode)
               (fun w' => ds_unpacked (l_ds w') = ds_unpacked (l_ds w))
               (fun r => ds_unpacked (l_ds (snd r)) = ds_unpacked (l_ds w))) as LI.
  assert (H1 : forall s s', ds_unpacked (l_ds s) = ds_unpacked (l_ds w) -> pm_body mode s = Next s' -> ds_unpacked (l_ds s') = ds_unpacked (l_ds w)).
  { intros s s' Hs E. pose proof (pm_body_unpacked mode s) as P. rewrite E in P. cbn [res_state] in P. congruence. }
  assert (H2 : forall s r, ds_unpacked (l_ds s) = ds_unpacked (l_ds w) -> pm_body mode s = Break r -> ds_unpacked (l_ds (snd r)) = ds_unpacked (l_ds w)).
  { intros s r Hs E. pose proof (pm_body_unpacked mode s) as P. rewrite E in P. destruct r as [o w']. cbn [res_state snd] in *. congruence. }
  specialize (LI H1 H2 fuel w eq_refl).
  destruct (loopN fuel (pm_body mode) w) as [w'|[o w']]; cbn [res_state snd] in *; exact LI.
Qed.

(* C08 (b): with a size in effect, success means exactly that many bytes went through the window. *)
Theorem sized_success_is_exact fuel w w' n :
  ds_unpacked (l_ds w) = Some n ->
  process_mode FinishMode fuel w = (Done tt, w') ->
  win_len (l_win w') = n.
Proof.
  intros Hn H. unfold process_mode in H.
  pose proof (loop_unpacked FinishMode fuel w) as LU.
  destruct (loopN fuel (pm_body FinishMode) w) as [w1|[[u|e|q] w1]]; cbn [res_state] in LU; try discriminate.
  rewrite LU, Hn in H. destruct (N.eqb_spec n (win_len (l_win w1))) as [E|E]; [|discriminate].
  inversion H; subst. reflexivity.
Qed.

(* ... and a failure of that final test is an error, never a panic or success *)
Theorem sized_mismatch_is_error fuel w n :
  ds_unpacked (l_ds w) = Some n ->
  match process_mode FinishMode fuel w with
  | (Done _, w') => win_len (l_win w') = n
  | _ => True
  end.
Proof.
  intros Hn. destruct (process_mode FinishMode fuel w) as [[u|e|q] w'] eqn:E; [|exact I|exact I].
  destruct u. eapply sized_success_is_exact; eauto.
Qed.

(* ---------- without a size: success requires the end marker ---------- *)
Definition MARK : N := 4294967295.

(* the three arms of process_next_inner: only the match arm can report Finished, and only for the marker *)
Lemma lit_arm_continue p y upd w st y' x :
  interp dec_h (lit_arm p y upd) w = (Done (st, y'), x) -> st = Continue.
Proof.
  unfold lit_arm. rewrite interp_bind. destruct (interp dec_h (decode_literal p y upd) w) as [[b|e|q] w1]; try discriminate.
  destruct upd.
  - rewrite interp_bind, interp_call. destruct (dec_h unit (WAppendLit b) w1) as [u w2|e w2|q w2]; try discriminate.
    cbn [interp]. intros H; inversion H; reflexivity.
  - cbn [interp]. intros H; inversion H; reflexivity.
Qed.

Lemma rep_arm_continue y ps upd w st y' x :
  interp dec_h (rep_arm y ps upd) w = (Done (st, y'), x) -> st = Continue.
Proof.
  unfold rep_arm. rewrite interp_bind.
  destruct (interp dec_h (rep_select y ps upd) w) as [[[[st0 y0]|r']|e|q] w1] eqn:ES; try discriminate.
  - (* short rep returned early: rep_select itself only returns Continue *)
    cbn [interp]. intros H; inversion H; subst.
    revert ES. unfold rep_select. rewrite interp_bind, interp_call.
    destruct (dec_h bool (Bit (CIsRepG0 (y_state y)) upd) w) as [g0 wa|e wa|q wa]; try discriminate.
    destruct g0; cbn [negb].
    + rewrite interp_bind, interp_call. destruct (dec_h bool _ wa) as [g1 wb|e wb|q wb]; try discriminate.
      rewrite interp_bind.
      destruct g1; cbn [negb].
      * rewrite interp_bind, interp_call. destruct (dec_h bool _ wb) as [g2 wc|e wc|q wc]; try discriminate.
        cbn [interp]. destruct upd; cbn [interp]; intros H2; inversion H2.
      * cbn [interp]. destruct upd; cbn [interp]; intros H2; inversion H2.
    + rewrite interp_bind, interp_call. destruct (dec_h bool _ wa) as [l0 wb|e wb|q wb]; try discriminate.
      destruct l0; cbn [negb].
      * cbn [interp]. intros H2; inversion H2.
      * destruct upd.
        -- rewrite interp_bind, interp_call. destruct (dec_h unit _ wb) as [u wc|e wc|q wc]; try discriminate.
           cbn [interp]. intros H2; inversion H2; reflexivity.
        -- cbn [interp]. intros H2; inversion H2; reflexivity.
  - rewrite interp_bind. destruct (interp dec_h (len_decode true ps upd) w1) as [[l|e|q] w2]; try discriminate.
    destruct upd.
    + rewrite interp_bind, interp_call. destruct (dec_h unit _ w2) as [u w3|e w3|q w3]; try discriminate.
      cbn [interp]. intros H; inversion H; reflexivity.
    + cbn [interp]. intros H; inversion H; reflexivity.
Qed.

Lemma match_arm_finished y ps upd w y' x :
  interp dec_h (match_arm y ps upd) w = (Done (Finished, y'), x) ->
  rep0 (y_rep y') = MARK /\ r_code (d_rc x) = 0.
Proof.
  unfold match_arm. rewrite interp_bind.
  destruct (interp dec_h (len_decode false ps upd) w) as [[l|e|q] w1]; try discriminate.
  rewrite interp_bind. destruct (interp dec_h (decode_distance l upd) w1) as [[r0|e|q] w2]; try discriminate.
  destruct upd; [|cbn [interp]; intros H; inversion H].
  destruct (N.eqb_spec r0 4294967295) as [E|E].
  - rewrite interp_bind, interp_call. cbn [dec_h].
    unfold rc_is_finished_ok.
    destruct (N.eqb_spec (r_code (d_rc w2)) 0) as [Ec|Ec].
    + destruct (src_run is_eof (d_src w2)) as [[b|e|q] s]; try discriminate.
      destruct b; cbn [interp]; [|discriminate]. intros H; inversion H; subst. cbn [y_rep rep0 d_rc]. split; [reflexivity|assumption].
    + change (src_run (Ret false) (d_src w2)) with (@Done bool false, d_src w2). cbn [interp]. discriminate.
  - rewrite interp_bind, interp_call. destruct (dec_h unit _ w2) as [u w3|e w3|q w3]; discriminate.
Qed.

Lemma process_next_inner_finished p y upd w y' x :
  interp dec_h (process_next_inner p y upd) w = (Done (Finished, y'), x) ->
  rep0 (y_rep y') = MARK /\ r_code (d_rc x) = 0.
Proof.
  unfold process_next_inner. rewrite interp_bind, interp_call. cbn [dec_h].
  destruct (63 <? pb p); [cbn [interp]; discriminate|].
  rewrite interp_bind, interp_call.
  destruct (dec_h bool _ w) as [m w1|e w1|q w1]; try discriminate.
  destruct m; cbn [negb].
  - rewrite interp_bind, interp_call. destruct (dec_h bool _ w1) as [r w2|e w2|q w2]; try discriminate.
    destruct r.
    + intros H. apply rep_arm_continue in H. discriminate.
    + apply match_arm_finished.
  - intros H. apply lit_arm_continue in H. discriminate.
Qed.

Lemma run_sym_finished upd w w' :
  run_sym upd w = (Done Finished, w') ->
  rep0 (ds_rep (l_ds w')) = MARK /\ r_code (l_rc w') = 0.
Proof.
  unfold run_sym.
  destruct (interp dec_h _ _) as [[[st y]|e|q] x] eqn:E; try discriminate.
  intros H; inversion H; subst. cbn [l_ds ds_rep l_rc]. eapply process_next_inner_finished; eauto.
Qed.

(* one iteration in Finish mode with no size: a successful exit certifies the marker and code = 0 *)
Lemma finished_ok_true r s s' : src_run (rc_is_finished_ok r) s = (Done true, s') -> r_code r = 0.
Proof.
  unfold rc_is_finished_ok. destruct (N.eqb_spec (r_code r) 0) as [E|E]; [auto|].
  change (src_run (Ret false) s) with (@Done bool false, s). discriminate.
Qed.

Ltac bm H := match type of H with
  | context [match ?x with _ => _ end] => destruct x eqn:?
  | context [if ?x then _ else _] => destruct x eqn:?
  end.

Lemma pm_body_unsized_exit w w' :
  ds_unpacked (l_ds w) = None ->
  pm_body FinishMode w = Break (Done tt, w') ->
  rep0 (ds_rep (l_ds w')) = MARK /\ r_code (l_rc w') = 0.
Proof.
  intros Hn H. unfold pm_body in H. cbv zeta in H. rewrite Hn in H.
  repeat (bm H; try discriminate).
  all: inversion H; subst; clear H.
  all: repeat match goal with
       | E : (_, _) = (_, _) |- _ => inversion E; subst; clear E
       end.
  all: try (match goal with E : run_sym true _ = (Done Finished, _) |- _ => apply run_sym_finished in E; cbn [l_ds l_rc set_pib ds_rep] in *; exact E end).
  all: try (cbn [l_ds l_rc] in *; split;
            [match goal with E : (rep0 _ =? _) = true |- _ => apply N.eqb_eq in E; exact E end
            |match goal with E : src_run (rc_is_finished_ok _) _ = (Done true, _) |- _ => eapply finished_ok_true; exact E end]).
  match goal with E : (if _ then _ else _) = (Done true, _) |- _ =>
    destruct (N.eqb_spec (rep0 (ds_rep (l_ds w))) 4294967295) as [Em|Em]; [|discriminate];
    destruct (src_run (rc_is_finished_ok (l_rc w)) (l_src w)) as [[b|e|q] s] eqn:Es; try discriminate;
    inversion E as [[Hb Hw]]; subst; cbn [l_ds l_rc]; split; [exact Em|];
    apply andb_prop in Hb; destruct Hb as [Hb _]; subst b; eapply finished_ok_true; exact Es
  end.
Qed.

(* C08 (c): with no size in effect, success implies that the end-of-stream marker was decoded
   (rep0 = 0xFFFF_FFFF, which only the marker produces) and that the range coder ended with code = 0. *)
Theorem unsized_success_needs_marker fuel w w' :
  ds_unpacked (l_ds w) = None ->
  process_mode FinishMode fuel w = (Done tt, w') ->
  rep0 (ds_rep (l_ds w')) = MARK /\ r_code (l_rc w') = 0.
Proof.
  intros Hn H. unfold process_mode in H.
  pose proof (loopN_inv (pm_body FinishMode)
               (fun s => ds_unpacked (l_ds s) = None)
               (fun r => fst r = Done tt -> rep0 (ds_rep (l_ds (snd r))) = MARK /\ r_code (l_rc (snd r)) = 0)) as LI.
  assert (H1 : forall s s', ds_unpacked (l_ds s) = None -> pm_body FinishMode s = Next s' -> ds_unpacked (l_ds s') = None).
  { intros s s' Hs E. pose proof (pm_body_unpacked FinishMode s) as P. rewrite E in P. cbn [res_state] in P. congruence. }
  assert (H2 : forall s r, ds_unpacked (l_ds s) = None -> pm_body FinishMode s = Break r ->
                fst r = Done tt -> rep0 (ds_rep (l_ds (snd r))) = MARK /\ r_code (l_rc (snd r)) = 0).
  { intros s [o t] Hs E Ho. cbn [fst snd] in *. subst o. eapply pm_body_unsized_exit; eauto. }
  specialize (LI H1 H2 fuel w Hn).
  pose proof (loop_unpacked FinishMode fuel w) as LU.
  destruct (loopN fuel (pm_body FinishMode) w) as [w1|[[u|e|q] w1]]; cbn [res_state fst snd] in *; try discriminate.
  rewrite LU, Hn in H. inversion H; subst. destruct u. apply LI. reflexivity.
Qed.
