(* C12 for the streaming decoder: concrete runs (vm_compute on closed terms) showing that the
   hypotheses of Proofs/FaultStream.v are satisfiable and that every alternative of the theorems occurs. *)
From LZ Require Import Base.Prelude Base.Prog Model.Io Model.Tables Model.LzBuffer Model.RangeDec
  Model.Lzma Model.Stream Model.Enc Proofs.StreamLatch Proofs.StreamPrefix Proofs.FaultTheorems
  Proofs.FaultStreamRel Proofs.FaultStream.

(* ---------- a stream whose output (9000 bytes) wraps the 4096-byte window twice ---------- *)
Definition xs_plain : list N := List.repeat 7 (N.to_nat 9000).
(* produced by the model of the lzma-rs encoder (literals only, end marker), dictionary size patched to 4096 *)
Definition xs_packed : list N := Eval vm_compute in
  93 :: [0; 16; 0; 0] ++
  nskipn 5 (snk_bytes (i_snk (snd (lzma_compress 100000 (WriteToHeader None) (mkIo (cursor_of xs_plain) vec_sink))))).

(* header + coder preamble, flush, 100 bytes, flush, the rest; then finish *)
Definition xs_calls : list call :=
  [CWrite (nfirstn 18 xs_packed); CFlush; CWrite (nfirstn 100 (nskipn 18 xs_packed)); CFlush; CWrite (nskipn 118 xs_packed)].

(* results of the calls, bytes in the sink before finish, result of finish, bytes / write calls / flushes afterwards *)
Definition xs_run (k : snk) :=
  let '(rs, s) := run_calls (stream_new ex_opts k) xs_calls in
  let '(r, k') := stream_finish s in
  (rs, nlen (snk_bytes (stream_sink s)), r, nlen (snk_bytes k'), k_calls k', k_flushes k').
Definition xs_bytes (k : snk) : list N :=
  snk_bytes (snd (stream_finish (snd (run_calls (stream_new ex_opts k) xs_calls)))).

Definition xs_good : snk := snk_new frag_all None false.            (* accept-all, never failing *)
Definition xs_short : snk := snk_new (fun _ => 1000) None false.     (* at most 1000 bytes per call *)
Definition xs_wfail (j : N) : snk := snk_new (fun _ => 1000) (Some j) false.
Definition xs_ffail : snk := snk_new (fun _ => 1000) None true.

(* the hypotheses of the theorems hold for these sinks *)
Example xs_twin j : twin (xs_wfail j) xs_good.   Proof. apply twin_new. Qed.
Example xs_twin_ff : twin xs_ffail xs_good.      Proof. apply twin_new. Qed.
Example xs_same : same_data xs_short xs_good.    Proof. apply same_data_new. Qed.
Example xs_not_hit j : snk_hit (xs_wfail j) = false.
Proof. unfold snk_hit, xs_wfail, snk_new. cbn [k_wfail k_calls]. apply N.ltb_ge. lia. Qed.

(* fault free: the window is written out twice during the last write (2 * 4096 bytes), the rest at finish *)
Example xs_fault_free :
  xs_run xs_good = ([RW (Done 18); RF (Done tt); RW (Done 100); RF (Done tt); RW (Done 166)], 8192, Done tt, 9000, 3, 3)
  /\ xs_bytes xs_good = xs_plain.
Proof. split; vm_compute; reflexivity. Qed.

(* A3: short writes change the number of write calls (11 instead of 3) and nothing else *)
Example xs_short_writes :
  xs_run xs_short = ([RW (Done 18); RF (Done tt); RW (Done 100); RF (Done tt); RW (Done 166)], 8192, Done tt, 9000, 11, 3)
  /\ xs_bytes xs_short = xs_plain.
Proof. split; vm_compute; reflexivity. Qed.

(* A1 / A2: the third call of the sink fails, while the first lap of the window is written out: the stream_write
   during which this happens returns Failed EIo, the sink keeps the 2000 bytes accepted before (a prefix of
   the fault-free output), finish reports an error and writes nothing more *)
Example xs_write_fault :
  xs_run (xs_wfail 2) = ([RW (Done 18); RF (Done tt); RW (Done 100); RF (Done tt); RW (Failed EIo)], 2000, Failed ELzma, 2000, 3, 2)
  /\ xs_bytes (xs_wfail 2) = nfirstn 2000 xs_plain.
Proof. split; vm_compute; reflexivity. Qed.

(* the same with the fault in the second lap: 4096 + 2000 bytes were accepted *)
Example xs_write_fault_later :
  xs_run (xs_wfail 7) = ([RW (Done 18); RF (Done tt); RW (Done 100); RF (Done tt); RW (Failed EIo)], 6096, Failed ELzma, 6096, 8, 2).
Proof. vm_compute. reflexivity. Qed.

(* a fault that surfaces in finish (the last partial lap is written by finish, sink call 10) is reported by finish *)
Example xs_write_fault_in_finish :
  xs_run (xs_wfail 10) = ([RW (Done 18); RF (Done tt); RW (Done 100); RF (Done tt); RW (Done 166)], 8192, Failed EIo, 8192, 11, 2).
Proof. vm_compute. reflexivity. Qed.

(* a fault that is configured but never reached (only 11 write calls happen) changes nothing *)
Example xs_write_fault_unreached : xs_run (xs_wfail 11) = xs_run xs_short.
Proof. vm_compute. reflexivity. Qed.

(* a failing flush: every flush call returns Failed EIo, decoding goes on in lock step, all 9000 bytes are
   accepted, and finish - whose last step is a flush - returns Failed EIo *)
Example xs_flush_fault :
  xs_run xs_ffail = ([RW (Done 18); RF (Failed EIo); RW (Done 100); RF (Failed EIo); RW (Done 166)], 8192, Failed EIo, 9000, 11, 0)
  /\ xs_bytes xs_ffail = xs_plain.
Proof. split; vm_compute; reflexivity. Qed.

(* ---------- the 24-byte stream of StreamLatch (one output byte): everything reaches the sink at finish ---------- *)
Definition ys_run (k : snk) :=
  let '(rs, s) := run_calls (stream_new ex_opts k) (map (fun b => CWrite [b]) ex_stream) in
  let '(r, k') := stream_finish s in (r, snk_bytes k', snk_hit k', k_flushes k').

Example ys_fault_free : ys_run (snk_new frag_all None false) = (Done tt, [0], false, 1).
Proof. vm_compute. reflexivity. Qed.
(* the sink fails at its first write call: it is finish that returns Failed EIo *)
Example ys_first_write_fails : ys_run (snk_new frag_all (Some 0) false) = (Failed EIo, [], true, 0).
Proof. vm_compute. reflexivity. Qed.
Example ys_flush_fails : ys_run (snk_new frag_all None true) = (Failed EIo, [0], false, 0).
Proof. vm_compute. reflexivity. Qed.
