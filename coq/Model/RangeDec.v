(* decode/rangecoder.rs.  The symbol decoder of lzma.rs is a program over [decE];
   the handler below is RangeDecoder + probability tables + LzBuffer. *)
From LZ Require Import Base.Prelude Base.Prog Model.Io Model.Tables Model.LzBuffer.
Local Open Scope prog_scope.

Inductive decE : Type -> Type :=
| Bit (c : cell) (upd : bool) : decE bool     (* rangecoder.decode_bit(&mut <cell>, update) *)
| Direct (count : N) : decE N                 (* rangecoder.get(count) *)
| FinishedOk : decE bool                      (* rangecoder.is_finished_ok() *)
| WLen : decE N                               (* output.len() *)
| WLastOr (d : N) : decE N                    (* output.last_or(d) *)
| WLastN (dist : N) : decE N                  (* output.last_n(dist) *)
| WAppendLit (b : N) : decE unit              (* output.append_literal(b) *)
| WAppendLz (len dist : N) : decE unit.       (* output.append_lz(len, dist) *)

Notation dprog := (prog decE).
Notation dcall := (@call decE _).

(* ---------- bit trees (RangeDecoder::parse_bit_tree, parse_reverse_bit_tree, BitTree, LenDecoder) ---------- *)
Fixpoint bit_tree_loop (n : nat) (mk : N -> cell) (upd : bool) (tmp : N) : dprog N :=
  match n with
  | O => Ret tmp
  | S n' => b <- dcall (Bit (mk tmp) upd) ;;
            bit_tree_loop n' mk upd (N.lxor (M32 (N.shiftl tmp 1)) (b2n b))
  end.
Definition parse_bit_tree (num_bits : N) (mk : N -> cell) (upd : bool) : dprog N :=
  tmp <- bit_tree_loop (N.to_nat num_bits) mk upd 1 ;;
  if tmp <? N.shiftl 1 num_bits then Panic (POverflow 20) else Ret (tmp - N.shiftl 1 num_bits).

Fixpoint rev_bit_tree_loop (n : nat) (i : N) (mk : N -> cell) (offset : N) (upd : bool) (tmp result : N) : dprog N :=
  match n with
  | O => Ret result
  | S n' => b <- dcall (Bit (mk (offset + tmp)) upd) ;;
            rev_bit_tree_loop n' (i + 1) mk offset upd
              (N.lxor (N.shiftl tmp 1) (b2n b)) (N.lxor result (M32 (N.shiftl (b2n b) i)))
  end.
Definition parse_reverse_bit_tree (num_bits : N) (mk : N -> cell) (offset : N) (upd : bool) : dprog N :=
  rev_bit_tree_loop (N.to_nat num_bits) 0 mk offset upd 1 0.

Definition len_decode (rep : bool) (pos_state : N) (upd : bool) : dprog N :=
  c1 <- dcall (Bit (CLen rep LChoice) upd) ;;
  if negb c1 then parse_bit_tree 3 (fun i => CLen rep (LLow pos_state i)) upd
  else
    c2 <- dcall (Bit (CLen rep LChoice2) upd) ;;
    if negb c2 then (v <- parse_bit_tree 3 (fun i => CLen rep (LMid pos_state i)) upd ;; Ret (v + 8))
    else (v <- parse_bit_tree 8 (fun i => CLen rep (LHigh i)) upd ;; Ret (v + 16)).

(* ---------- the RangeDecoder registers ---------- *)
Record rc := mkRc { r_range : N; r_code : N }.

(* RangeDecoder::new: skip one byte, read the big-endian code *)
Definition rc_new : prog ioE rc :=
  read_u8 ;;; code <- read_u32_be ;; Ret (mkRc 4294967295 code).

Definition rc_normalize (r : rc) : prog ioE rc :=
  if r_range r <? 16777216 then
    b <- read_u8 ;;
    Ret (mkRc (M32 (N.shiftl (r_range r) 8)) (N.lxor (M32 (N.shiftl (r_code r) 8)) b))
  else Ret r.

Definition rc_get_bit (r : rc) : prog ioE (bool * rc) :=
  let range := N.shiftr (r_range r) 1 in
  let bit := range <=? r_code r in
  let code := if bit then r_code r - range else r_code r in
  r' <- rc_normalize (mkRc range code) ;; Ret (bit, r').

Fixpoint rc_get_loop (n : nat) (r : rc) (result : N) : prog ioE (N * rc) :=
  match n with
  | O => Ret (result, r)
  | S n' => '(b, r') <- rc_get_bit r ;; rc_get_loop n' r' (N.lxor (M32 (N.shiftl result 1)) (b2n b))
  end.
Definition rc_get (count : N) (r : rc) : prog ioE (N * rc) := rc_get_loop (N.to_nat count) r 0.

(* decode_bit on a probability value; returns bit, new probability, new registers *)
Definition rc_decode_bit (r : rc) (prob : N) (upd : bool) : prog ioE (bool * N * rc) :=
  let bound := N.shiftr (r_range r) 11 * prob in
  if U32 <=? bound then Panic (POverflow 1) else
  if r_code r <? bound then
    if upd && (2048 <? prob) then Panic (POverflow 2) else
    let prob' := if upd then prob + N.shiftr (2048 - prob) 5 else prob in
    if U16 <=? prob' then Panic (POverflow 3) else
    r' <- rc_normalize (mkRc bound (r_code r)) ;; Ret (false, prob', r')
  else
    let prob' := if upd then prob - N.shiftr prob 5 else prob in
    if r_range r <? bound then Panic (POverflow 4) else
    r' <- rc_normalize (mkRc (r_range r - bound) (r_code r - bound)) ;; Ret (true, prob', r').

Definition rc_is_finished_ok (r : rc) : prog ioE bool :=
  if r_code r =? 0 then is_eof else Ret false.

(* ---------- the handler: registers + tables + source + window ---------- *)
Record dw := mkDw { d_tabs : ptabs; d_rc : rc; d_src : src; d_win : win }.

Definition src_run {A} (p : prog ioE A) (s : src) : outcome A * src :=
  let '(r, w) := run_io p (mkIo s vec_sink) in (r, i_src w).

Definition lift_src {X} (w : dw) (r : outcome (X * rc) * src) : hres X dw :=
  match r with
  | (Done (x, r'), s) => HOk x (mkDw (d_tabs w) r' s (d_win w))
  | (Failed e, s) => HErr e (mkDw (d_tabs w) (d_rc w) s (d_win w))
  | (Panicked p, s) => HPanic p (mkDw (d_tabs w) (d_rc w) s (d_win w))
  end.
Definition lift_win {X} (w : dw) (r : outcome X * win) : hres X dw :=
  match r with
  | (Done x, v) => HOk x (mkDw (d_tabs w) (d_rc w) (d_src w) v)
  | (Failed e, v) => HErr e (mkDw (d_tabs w) (d_rc w) (d_src w) v)
  | (Panicked p, v) => HPanic p (mkDw (d_tabs w) (d_rc w) (d_src w) v)
  end.

Definition dec_h : handler decE dw := fun X o =>
  match o in decE X return dw -> hres X dw with
  | Bit c upd => fun w =>
      match cell_get (d_tabs w) c with
      | None => HPanic (PIndex 1) w
      | Some prob =>
          match src_run (rc_decode_bit (d_rc w) prob upd) (d_src w) with
          | (Done (b, prob', r'), s) =>
              HOk b (mkDw (if upd then cell_set (d_tabs w) c prob' else d_tabs w) r' s (d_win w))
          | (Failed e, s) =>
              (* the probability is updated before normalize() reads: keep that order *)
              let bound := N.shiftr (r_range (d_rc w)) 11 * prob in
              let prob' := if r_code (d_rc w) <? bound then prob + N.shiftr (2048 - prob) 5 else prob - N.shiftr prob 5 in
              HErr e (mkDw (if upd then cell_set (d_tabs w) c prob' else d_tabs w) (d_rc w) s (d_win w))
          | (Panicked p, s) => HPanic p (mkDw (d_tabs w) (d_rc w) s (d_win w))
          end
      end
  | Direct count => fun w => lift_src w (src_run (rc_get count (d_rc w)) (d_src w))
  | FinishedOk => fun w =>
      match src_run (rc_is_finished_ok (d_rc w)) (d_src w) with
      | (Done b, s) => HOk b (mkDw (d_tabs w) (d_rc w) s (d_win w))
      | (Failed e, s) => HErr e (mkDw (d_tabs w) (d_rc w) s (d_win w))
      | (Panicked p, s) => HPanic p (mkDw (d_tabs w) (d_rc w) s (d_win w))
      end
  | WLen => fun w => HOk (win_len (d_win w)) w
  | WLastOr d => fun w => lift_win w (win_last_or (d_win w) d)
  | WLastN dist => fun w => lift_win w (win_last_n (d_win w) dist)
  | WAppendLit b => fun w => lift_win w (win_append_literal (d_win w) b)
  | WAppendLz len dist => fun w => lift_win w (win_append_lz (d_win w) len dist)
  end.
