(* decode/lzbuffer.rs: LzCircularBuffer and LzAccumBuffer, each owning its sink. *)
From LZ Require Import Base.Prelude Base.Prog Model.Io.

Fixpoint nseq_map {A} (f : N -> A) (start : N) (count : nat) : list A :=
  match count with O => [] | S c => f start :: nseq_map f (N.succ start) c end.
(* buf[lo .. lo+n) of a Vec<u8> stored as a map *)
Definition map_slice (m : nmap) (lo n : N) : list N := nseq_map (fun i => nm_get m i 0) lo (N.to_nat n).

(* run a sink-only program *)
Definition snk_run {A} (p : prog ioE A) (k : snk) : outcome A * snk :=
  let '(r, w) := run_io p (mkIo (cursor_of []) k) in (r, i_snk w).

(* ---------------- LzCircularBuffer ---------------- *)
Record circ := mkCirc {
  c_buf : nmap; c_blen : N;         (* buf: Vec<u8>, buf.len() *)
  c_dict : N; c_mem : N;            (* dict_size, memlimit *)
  c_cursor : N; c_len : N;
  c_snk : snk
}.
Definition circ_new (k : snk) (dict mem : N) : circ := mkCirc nm_empty 0 dict mem 0 0 k.

Definition circ_get (b : circ) (i : N) : N := if i <? c_blen b then nm_get (c_buf b) i 0 else 0.

Definition circ_set (b : circ) (i v : N) : outcome unit * circ :=
  let new_len := i + 1 in
  if c_blen b <? new_len then
    if new_len <=? c_mem b then
      (* resize(new_len, 0) then buf[index] = value; cells in [blen, new_len) read as 0 by default *)
      (Done tt, mkCirc (nm_set (c_buf b) i v) new_len (c_dict b) (c_mem b) (c_cursor b) (c_len b) (c_snk b))
    else (Failed ELzma, b)
  else (Done tt, mkCirc (nm_set (c_buf b) i v) (c_blen b) (c_dict b) (c_mem b) (c_cursor b) (c_len b) (c_snk b)).

Definition circ_last_or (b : circ) (lit : N) : outcome N * circ :=
  if c_len b =? 0 then (Done lit, b)
  else if c_dict b =? 0 then (Panicked (PDivZero 1), b)
  else (Done (circ_get b ((c_dict b + c_cursor b - 1) mod c_dict b)), b).

Definition circ_last_n (b : circ) (dist : N) : outcome N * circ :=
  if c_dict b <? dist then (Failed ELzma, b)
  else if c_len b <? dist then (Failed ELzma, b)
  else if c_dict b =? 0 then (Panicked (PDivZero 2), b)
  else (Done (circ_get b ((c_dict b + c_cursor b - dist) mod c_dict b)), b).

Definition circ_append_literal (b : circ) (lit : N) : outcome unit * circ :=
  match circ_set b (c_cursor b) lit with
  | (Done _, b1) =>
      let cur := c_cursor b1 + 1 in
      let len := c_len b1 + 1 in
      if cur =? c_dict b1 then
        match snk_run (write_all (map_slice (c_buf b1) 0 (c_blen b1))) (c_snk b1) with
        | (Done _, k) => (Done tt, mkCirc (c_buf b1) (c_blen b1) (c_dict b1) (c_mem b1) 0 len k)
        | (Failed e, k) => (Failed e, mkCirc (c_buf b1) (c_blen b1) (c_dict b1) (c_mem b1) cur len k)
        | (Panicked p, k) => (Panicked p, mkCirc (c_buf b1) (c_blen b1) (c_dict b1) (c_mem b1) cur len k)
        end
      else (Done tt, mkCirc (c_buf b1) (c_blen b1) (c_dict b1) (c_mem b1) cur len (c_snk b1))
  | (Failed e, b1) => (Failed e, b1)
  | (Panicked p, b1) => (Panicked p, b1)
  end.

Fixpoint circ_lz_loop (n : nat) (b : circ) (offset : N) : outcome unit * circ :=
  match n with
  | O => (Done tt, b)
  | S n' =>
      match circ_append_literal b (circ_get b offset) with
      | (Done _, b1) => let o := offset + 1 in circ_lz_loop n' b1 (if o =? c_dict b1 then 0 else o)
      | r => r
      end
  end.

Definition circ_append_lz (b : circ) (len dist : N) : outcome unit * circ :=
  if c_dict b <? dist then (Failed ELzma, b)
  else if c_len b <? dist then (Failed ELzma, b)
  else if c_dict b =? 0 then (Panicked (PDivZero 3), b)
  else circ_lz_loop (N.to_nat len) b ((c_dict b + c_cursor b - dist) mod c_dict b).

(* finish: flush the partial lap, flush the sink, hand the sink back *)
Definition circ_finish (b : circ) : outcome unit * snk :=
  snk_run (bind (if 0 <? c_cursor b then write_all (map_slice (c_buf b) 0 (c_cursor b)) else Ret tt)
                (fun _ => icall Flush)) (c_snk b).

(* ---------------- LzAccumBuffer ---------------- *)
Record accum := mkAccum {
  a_buf : nmap; a_blen : N;
  a_mem : N; a_len : N;
  a_snk : snk
}.
Definition accum_new (k : snk) (mem : N) : accum := mkAccum nm_empty 0 mem 0 k.

Fixpoint map_append (m : nmap) (at_ : N) (bs : list N) : nmap :=
  match bs with [] => m | b :: t => map_append (nm_set m at_ b) (N.succ at_) t end.

Definition accum_append_bytes (a : accum) (bs : list N) : accum :=
  mkAccum (map_append (a_buf a) (a_blen a) bs) (a_blen a + nlen bs) (a_mem a) (a_len a + nlen bs) (a_snk a).

Definition accum_reset (a : accum) : outcome unit * accum :=
  match snk_run (write_all (map_slice (a_buf a) 0 (a_blen a))) (a_snk a) with
  | (Done _, k) => (Done tt, mkAccum nm_empty 0 (a_mem a) 0 k)
  | (Failed e, k) => (Failed e, mkAccum (a_buf a) (a_blen a) (a_mem a) (a_len a) k)
  | (Panicked p, k) => (Panicked p, mkAccum (a_buf a) (a_blen a) (a_mem a) (a_len a) k)
  end.

Definition accum_last_or (a : accum) (lit : N) : outcome N * accum :=
  if a_blen a =? 0 then (Done lit, a) else (Done (nm_get (a_buf a) (a_blen a - 1) 0), a).

Definition accum_last_n (a : accum) (dist : N) : outcome N * accum :=
  if a_blen a <? dist then (Failed ELzma, a)
  else if dist =? 0 then (Panicked (PIndex 10), a)      (* buf[buf_len - 0] *)
  else (Done (nm_get (a_buf a) (a_blen a - dist) 0), a).

Definition accum_append_literal (a : accum) (lit : N) : outcome unit * accum :=
  let new_len := a_len a + 1 in
  if a_mem a <? new_len then (Failed ELzma, a)
  else (Done tt, mkAccum (nm_set (a_buf a) (a_blen a) lit) (a_blen a + 1) (a_mem a) new_len (a_snk a)).

Fixpoint accum_lz_loop (n : nat) (m : nmap) (blen offset : N) : nmap * N :=
  match n with
  | O => (m, blen)
  | S n' => accum_lz_loop n' (nm_set m blen (nm_get m offset 0)) (blen + 1) (offset + 1)
  end.

Definition accum_append_lz (a : accum) (len dist : N) : outcome unit * accum :=
  if a_blen a <? dist then (Failed ELzma, a)
  else if (dist =? 0) && (0 <? len) then (Panicked (PIndex 11), a)   (* buf[buf_len] *)
  else
    let '(m, bl) := accum_lz_loop (N.to_nat len) (a_buf a) (a_blen a) (a_blen a - dist) in
    (Done tt, mkAccum m bl (a_mem a) (a_len a + len) (a_snk a)).

Definition accum_finish (a : accum) : outcome unit * snk :=
  snk_run (bind (write_all (map_slice (a_buf a) 0 (a_blen a))) (fun _ => icall Flush)) (a_snk a).

(* ---------------- the LzBuffer trait as a sum ---------------- *)
Inductive win := WCirc (c : circ) | WAccum (a : accum).

Definition win_len (w : win) : N := match w with WCirc c => c_len c | WAccum a => a_len a end.
Definition win_snk (w : win) : snk := match w with WCirc c => c_snk c | WAccum a => a_snk a end.
Definition lift_c {A} (r : outcome A * circ) : outcome A * win := (fst r, WCirc (snd r)).
Definition lift_a {A} (r : outcome A * accum) : outcome A * win := (fst r, WAccum (snd r)).
Definition win_last_or (w : win) (d : N) := match w with WCirc c => lift_c (circ_last_or c d) | WAccum a => lift_a (accum_last_or a d) end.
Definition win_last_n (w : win) (d : N) := match w with WCirc c => lift_c (circ_last_n c d) | WAccum a => lift_a (accum_last_n a d) end.
Definition win_append_literal (w : win) (b : N) := match w with WCirc c => lift_c (circ_append_literal c b) | WAccum a => lift_a (accum_append_literal a b) end.
Definition win_append_lz (w : win) (len dist : N) := match w with WCirc c => lift_c (circ_append_lz c len dist) | WAccum a => lift_a (accum_append_lz a len dist) end.
