(* Executable CRC-32 (ISO-HDLC) and CRC-64 (XZ), table driven.  In theorems the
   CRC functions are section variables; these instances are used for running. *)
From LZ Require Import Base.Prelude.

Fixpoint crc_bits (n : nat) (poly c : N) : N :=
  match n with O => c | S n' => crc_bits n' poly (if N.odd c then N.lxor (N.shiftr c 1) poly else N.shiftr c 1) end.
Fixpoint crc_table_build (n : nat) (i : N) (poly : N) (m : nmap) : nmap :=
  match n with O => m | S n' => crc_table_build n' (N.succ i) poly (nm_set m i (crc_bits 8 poly i)) end.
Definition crc_table (poly : N) : nmap := crc_table_build 256 0 poly nm_empty.
Definition crc_step (tbl : nmap) (c b : N) : N :=
  N.lxor (nm_get tbl (N.land (N.lxor c b) 255) 0) (N.shiftr c 8).
Definition crc32_table := crc_table 3988292384.            (* 0xEDB88320 *)
Definition crc64_table := crc_table 14514072000185962306.  (* 0xC96C5795D7870F42 *)
Definition crc32_exec (bs : list N) : N :=
  N.lxor (fold_left (crc_step crc32_table) bs 4294967295) 4294967295.
Definition crc64_exec (bs : list N) : N :=
  N.lxor (fold_left (crc_step crc64_table) bs 18446744073709551615) 18446744073709551615.
