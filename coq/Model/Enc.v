(* encode/rangecoder.rs, encode/dumbencoder.rs, encode/lzma2.rs, encode/xz.rs, encode/util.rs *)
From LZ Require Import Base.Prelude Base.Prog Model.Io Model.Tables Model.Xz.
Local Open Scope prog_scope.

Inductive enc_unpacked := WriteToHeader (x : option N) | SkipWritingToHeader.

(* ---------- RangeEncoder ---------- *)
Record renc := mkRenc { e_range : N; e_low : N; e_cache : N; e_cachesz : N }.
Definition renc_new : renc := mkRenc 4294967295 0 0 1.

Fixpoint write_low_bytes (fuel : nat) (tmp carry cachesz : N) : prog ioE unit :=
  match fuel with
  | O => Panic (PFuel 40)
  | S f =>
      write_u8 (M8 (tmp + carry)) ;;;
      if cachesz =? 0 then Panic (POverflow 60) else
      if cachesz - 1 =? 0 then Ret tt else write_low_bytes f 255 carry (cachesz - 1)
  end.

Definition write_low (e : renc) : prog ioE renc :=
  e1 <- (if (e_low e <? 4278190080) || (4294967295 <? e_low e) then
           write_low_bytes (N.to_nat (e_cachesz e)) (e_cache e) (M8 (N.shiftr (e_low e) 32)) (e_cachesz e) ;;;
           Ret (mkRenc (e_range e) (e_low e) (M8 (N.shiftr (e_low e) 24)) 0)
         else Ret e) ;;
  if U32 <=? e_cachesz e1 + 1 then Panic (POverflow 61) else
  Ret (mkRenc (e_range e1) (M32 (N.shiftl (e_low e1) 8)) (e_cache e1) (e_cachesz e1 + 1)).

Fixpoint renc_finish_loop (n : nat) (e : renc) : prog ioE renc :=
  match n with O => Ret e | S n' => e' <- write_low e ;; renc_finish_loop n' e' end.
Definition renc_finish := renc_finish_loop 5.

Fixpoint renc_normalize (fuel : nat) (e : renc) : prog ioE renc :=
  if e_range e <? 16777216 then
    match fuel with
    | O => Panic (PFuel 41)
    | S f =>
        e' <- write_low (mkRenc (M32 (N.shiftl (e_range e) 8)) (e_low e) (e_cache e) (e_cachesz e)) ;;
        renc_normalize f e'
    end
  else Ret e.

(* encode_bit: returns the new probability and encoder *)
Definition encode_bit (e : renc) (prob : N) (bit : bool) : prog ioE (N * renc) :=
  let bound := N.shiftr (e_range e) 11 * prob in
  if U32 <=? bound then Panic (POverflow 62) else
  if bit then
    if e_range e <? bound then Panic (POverflow 63) else
    if U64 <=? e_low e + bound then Panic (POverflow 64) else
    e' <- renc_normalize 5 (mkRenc (e_range e - bound) (e_low e + bound) (e_cache e) (e_cachesz e)) ;;
    Ret (prob - N.shiftr prob 5, e')
  else
    if 2048 <? prob then Panic (POverflow 65) else
    e' <- renc_normalize 5 (mkRenc bound (e_low e) (e_cache e) (e_cachesz e)) ;;
    Ret (prob + N.shiftr (2048 - prob) 5, e').

(* ---------- dumbencoder.rs ---------- *)
Record denc := mkDenc { de_rc : renc; de_lit : tab (* 8 x 0x300 *); de_is_match : tab (* 4 *); de_opt : enc_unpacked }.

Definition enc_props_byte : N := 93.        (* LC + 9 * (LP + 5 * PB) with 3, 0, 2 *)
Definition enc_dict_size : N := 8388608.

Definition denc_from_stream (o : enc_unpacked) : prog ioE denc :=
  write_u8 enc_props_byte ;;;
  write_u32_le enc_dict_size ;;;
  match o with
  | WriteToHeader None => write_u64_le 18446744073709551615
  | WriteToHeader (Some x) => write_u64_le x
  | SkipWritingToHeader => Ret tt
  end ;;;
  Ret (mkDenc renc_new (tab_new (8 * 768)) (tab_new 4) o).

Definition tab_get_p (t : tab) (i : N) : prog ioE N :=
  match tab_get t i with Some v => Ret v | None => Panic (PIndex 60) end.

Fixpoint encode_literal_loop (n : nat) (i : N) (d : denc) (row byte result : N) : prog ioE denc :=
  match n with
  | O => Ret d
  | S n' =>
      let bit := negb (N.land (N.shiftr byte (7 - i)) 1 =? 0) in
      p <- tab_get_p (de_lit d) (row * 768 + result) ;;
      '(p', e') <- encode_bit (de_rc d) p bit ;;
      encode_literal_loop n' (i + 1)
        (mkDenc e' (tab_set (de_lit d) (row * 768 + result) p') (de_is_match d) (de_opt d))
        row byte (N.lxor (N.shiftl result 1) (b2n bit))
  end.
Definition encode_literal (d : denc) (byte prev_byte : N) : prog ioE denc :=
  encode_literal_loop 8 0 d (N.shiftr prev_byte 5) byte 1.

Fixpoint encode_fixed_bits (n : nat) (e : renc) (bit : bool) : prog ioE renc :=
  match n with
  | O => Ret e
  | S n' => '(_, e') <- encode_bit e 1024 bit ;; encode_fixed_bits n' e' bit
  end.

Definition denc_finish (d : denc) (input_len : N) : prog ioE unit :=
  e <- match de_opt d with
       | WriteToHeader None =>
           let pos_state := N.land input_len 3 in
           p <- tab_get_p (de_is_match d) pos_state ;;
           '(_, e1) <- encode_bit (de_rc d) p true ;;
           e2 <- encode_fixed_bits 1 e1 false ;;
           e3 <- encode_fixed_bits 4 e2 false ;;
           e4 <- encode_fixed_bits 6 e3 true ;;
           encode_fixed_bits 30 e4 true
       | _ => Ret (de_rc d)
       end ;;
  renc_finish e ;;; Ret tt.

(* process: for (out_len, byte) in input.bytes().enumerate() *)
Record dloop := mkDloop { dl_enc : denc; dl_prev : N; dl_out_len : N; dl_input_len : N }.

Definition denc_body (st : dloop * io) : step (dloop * io) (outcome dloop * io) :=
  let '(l, w) := st in
  match run_io (read_buf 1) w with
  | (Failed e, w1) => Break (Failed e, w1)
  | (Panicked p, w1) => Break (Panicked p, w1)
  | (Done [], w1) => Break (Done l, w1)
  | (Done (byte :: _), w1) =>
      let d := dl_enc l in
      let pos_state := N.land (dl_out_len l) 3 in
      match run_io (p <- tab_get_p (de_is_match d) pos_state ;;
                    '(p', e') <- encode_bit (de_rc d) p false ;;
                    encode_literal (mkDenc e' (de_lit d) (tab_set (de_is_match d) pos_state p') (de_opt d))
                                   byte (dl_prev l)) w1 with
      | (Done d', w2) => Next (mkDloop d' byte (dl_out_len l + 1) (dl_out_len l), w2)
      | (Failed e, w2) => Break (Failed e, w2)
      | (Panicked p, w2) => Break (Panicked p, w2)
      end
  end.

Definition lzma_compress (fuel : positive) (o : enc_unpacked) (w : io) : outcome unit * io :=
  match run_io (denc_from_stream o) w with
  | (Failed e, w1) => (Failed e, w1)
  | (Panicked p, w1) => (Panicked p, w1)
  | (Done d, w1) =>
      match loopN fuel denc_body (mkDloop d 0 0 0, w1) with
      | Next (_, w2) => (Panicked (PFuel 42), w2)
      | Break (Done l, w2) => run_io (denc_finish (dl_enc l) (dl_input_len l + 1)) w2
      | Break (Failed e, w2) => (Failed e, w2)
      | Break (Panicked p, w2) => (Panicked p, w2)
      end
  end.

(* ---------- encode/lzma2.rs ---------- *)
Definition l2enc_body (w : io) : step io (outcome unit * io) :=
  match run_io (read_buf 65536) w with
  | (Failed e, w1) => Break (Failed e, w1)
  | (Panicked p, w1) => Break (Panicked p, w1)
  | (Done [], w1) => Break (run_io (write_u8 0) w1)
  | (Done buf, w1) =>
      match run_io (write_u8 1 ;;; write_u16_be (nlen buf - 1) ;;; write_all buf) w1 with
      | (Done _, w2) => Next w2
      | r => Break r
      end
  end.
Definition lzma2_compress (fuel : positive) (w : io) : outcome unit * io :=
  match loopN fuel l2enc_body w with
  | Next w' => (Panicked (PFuel 43), w')
  | Break r => r
  end.

(* ---------- encode/xz.rs ---------- *)
Section WithCrc.
Variable crc32 : list N -> N.

Fixpoint multibyte_bytes (fuel : nat) (value : N) : list N :=
  match fuel with
  | O => []
  | S f =>
      let byte := N.land value 127 in
      let value' := N.shiftr value 7 in
      if value' =? 0 then [byte] else N.lor 128 byte :: multibyte_bytes f value'
  end.
(* write_multibyte issues one write_u8 per byte *)
Fixpoint write_bytes_each (bs : list N) : prog ioE unit :=
  match bs with [] => Ret tt | b :: t => write_u8 b ;;; write_bytes_each t end.

Definition xz_write_header : prog ioE unit :=
  write_all XZ_MAGIC ;;;
  write_all [0; check_id CkNone] ;;;
  write_u32_le (crc32 [0; check_id CkNone]).

Definition xz_block_header : list N := [2; 0; 33; 1; 22; 0; 0; 0].

Definition xz_write_footer (index_size : N) : prog ioE unit :=
  if N.shiftr index_size 2 =? 0 then Panic (POverflow 70) else
  let backward_size := N.shiftr index_size 2 - 1 in
  let footer_buf := le_bytes 4 (M32 backward_size) ++ [0; check_id CkNone] in
  write_u32_le (crc32 footer_buf) ;;;
  write_all footer_buf ;;;
  write_all XZ_MAGIC_FOOTER.

Definition xz_write_index (unpadded unpacked : N) : prog ioE N :=
  c0 <- icall GetCount ;;
  let body := 0 :: multibyte_bytes 10 1 ++ multibyte_bytes 10 unpadded ++ multibyte_bytes 10 unpacked in
  write_bytes_each body ;;;
  c1 <- icall GetCount ;;
  let pad := repeat 0 (N.to_nat (padding_of (c1 - c0))) in
  write_all pad ;;;
  write_u32_le (crc32 (body ++ pad)) ;;;
  c2 <- icall GetCount ;;
  Ret (c2 - c0).

Definition xz_compress (fuel : positive) (w : io) : outcome unit * io :=
  match run_io (xz_write_header ;;;
                c0 <- icall GetCount ;; p0 <- icall GetPos ;;
                write_bytes_each (firstn 5 xz_block_header) ;;; write_all (skipn 5 xz_block_header) ;;;
                write_u32_le (crc32 xz_block_header) ;;; Ret (c0, p0)) w with
  | (Failed e, w1) => (Failed e, w1)
  | (Panicked p, w1) => (Panicked p, w1)
  | (Done (c0, p0), w1) =>
      match lzma2_compress fuel w1 with
      | (Done _, w2) =>
          run_io (c1 <- icall GetCount ;; p1 <- icall GetPos ;;
                  let unpadded := c1 - c0 in
                  let unpacked := p1 - p0 in
                  write_all (repeat 0 (N.to_nat (padding_of unpadded))) ;;;
                  index_size <- xz_write_index unpadded unpacked ;;
                  xz_write_footer index_size) w2
      | r => r
      end
  end.
End WithCrc.
