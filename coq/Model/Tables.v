(* Probability tables of DecoderState (decode/lzma.rs, decode/rangecoder.rs,
   util/vec2d.rs).  Every table is a bounds-checked array of u16 that starts
   filled with 0x400. *)
From LZ Require Import Base.Prelude.

Record tab := mkTab { t_len : N; t_map : nmap }.
Definition tab_new (len : N) : tab := mkTab len nm_empty.
Definition tab_get (t : tab) (i : N) : option N :=
  if i <? t_len t then Some (nm_get (t_map t) i 1024) else None.
Definition tab_set (t : tab) (i v : N) : tab := mkTab (t_len t) (nm_set (t_map t) i v).

(* which of the two LenDecoders *)
Inductive lenpart := LChoice | LChoice2 | LLow (ps i : N) | LMid (ps i : N) | LHigh (i : N).

(* a probability location, carrying the concrete index arithmetic of lzma.rs *)
Inductive cell :=
| CIsMatch (i : N)        (* is_match[(state << 4) + pos_state]        : [u16; 192] *)
| CIsRep (i : N)          (* is_rep[state]                              : [u16; 12]  *)
| CIsRepG0 (i : N) | CIsRepG1 (i : N) | CIsRepG2 (i : N)
| CIsRep0Long (i : N)     (* is_rep_0long[(state << 4) + pos_state]     : [u16; 192] *)
| CLit (row col : N)      (* literal_probs[row][col]      : Vec2D (1 << (lc+lp)) x 0x300 *)
| CPosSlot (ls i : N)     (* pos_slot_decoder[len_state].probs[i]       : 4 x [u16; 64] *)
| CPosDec (i : N)         (* pos_decoders[i]                            : [u16; 115] *)
| CAlign (i : N)          (* align_decoder.probs[i]                     : [u16; 16]  *)
| CLen (rep : bool) (p : lenpart).   (* len_decoder / rep_len_decoder *)

Record lentabs := mkLenTabs {
  lt_choice : N; lt_choice2 : N;
  lt_low : tab;      (* 16 trees x 8 *)
  lt_mid : tab;      (* 16 trees x 8 *)
  lt_high : tab      (* 256 *)
}.
Definition lentabs_new : lentabs := mkLenTabs 1024 1024 (tab_new 128) (tab_new 128) (tab_new 256).

Record ptabs := mkPTabs {
  p_lit_rows : N;           (* rows of literal_probs; cols = 0x300 *)
  p_lit : tab;              (* rows * 0x300 *)
  p_pos_slot : tab;         (* 4 x 64 *)
  p_align : tab;            (* 16 *)
  p_pos_dec : tab;          (* 115 *)
  p_is_match : tab;         (* 192 *)
  p_is_rep : tab; p_is_rep_g0 : tab; p_is_rep_g1 : tab; p_is_rep_g2 : tab;  (* 12 each *)
  p_is_rep_0long : tab;     (* 192 *)
  p_len : lentabs; p_rep_len : lentabs
}.

Definition ptabs_new (lit_rows : N) : ptabs :=
  mkPTabs lit_rows (tab_new (lit_rows * 768)) (tab_new 256) (tab_new 16) (tab_new 115)
          (tab_new 192) (tab_new 12) (tab_new 12) (tab_new 12) (tab_new 12) (tab_new 192)
          lentabs_new lentabs_new.

Definition len_get (l : lentabs) (p : lenpart) : option N :=
  match p with
  | LChoice => Some (lt_choice l)
  | LChoice2 => Some (lt_choice2 l)
  | LLow ps i => if (ps <? 16) && (i <? 8) then tab_get (lt_low l) (ps * 8 + i) else None
  | LMid ps i => if (ps <? 16) && (i <? 8) then tab_get (lt_mid l) (ps * 8 + i) else None
  | LHigh i => tab_get (lt_high l) i
  end.
Definition len_set (l : lentabs) (p : lenpart) (v : N) : lentabs :=
  match p with
  | LChoice => mkLenTabs v (lt_choice2 l) (lt_low l) (lt_mid l) (lt_high l)
  | LChoice2 => mkLenTabs (lt_choice l) v (lt_low l) (lt_mid l) (lt_high l)
  | LLow ps i => mkLenTabs (lt_choice l) (lt_choice2 l) (tab_set (lt_low l) (ps * 8 + i) v) (lt_mid l) (lt_high l)
  | LMid ps i => mkLenTabs (lt_choice l) (lt_choice2 l) (lt_low l) (tab_set (lt_mid l) (ps * 8 + i) v) (lt_high l)
  | LHigh i => mkLenTabs (lt_choice l) (lt_choice2 l) (lt_low l) (lt_mid l) (tab_set (lt_high l) i v)
  end.

(* None = the Rust index expression would panic (out of bounds) *)
Definition cell_get (t : ptabs) (c : cell) : option N :=
  match c with
  | CIsMatch i => tab_get (p_is_match t) i
  | CIsRep i => tab_get (p_is_rep t) i
  | CIsRepG0 i => tab_get (p_is_rep_g0 t) i
  | CIsRepG1 i => tab_get (p_is_rep_g1 t) i
  | CIsRepG2 i => tab_get (p_is_rep_g2 t) i
  | CIsRep0Long i => tab_get (p_is_rep_0long t) i
  | CLit row col => if (row <? p_lit_rows t) && (col <? 768) then tab_get (p_lit t) (row * 768 + col) else None
  | CPosSlot ls i => if (ls <? 4) && (i <? 64) then tab_get (p_pos_slot t) (ls * 64 + i) else None
  | CPosDec i => tab_get (p_pos_dec t) i
  | CAlign i => tab_get (p_align t) i
  | CLen false p => len_get (p_len t) p
  | CLen true p => len_get (p_rep_len t) p
  end.

Definition cell_set (t : ptabs) (c : cell) (v : N) : ptabs :=
  let '(mkPTabs rows lit ps al pd im ir g0 g1 g2 r0 ln rl) := t in
  match c with
  | CIsMatch i => mkPTabs rows lit ps al pd (tab_set im i v) ir g0 g1 g2 r0 ln rl
  | CIsRep i => mkPTabs rows lit ps al pd im (tab_set ir i v) g0 g1 g2 r0 ln rl
  | CIsRepG0 i => mkPTabs rows lit ps al pd im ir (tab_set g0 i v) g1 g2 r0 ln rl
  | CIsRepG1 i => mkPTabs rows lit ps al pd im ir g0 (tab_set g1 i v) g2 r0 ln rl
  | CIsRepG2 i => mkPTabs rows lit ps al pd im ir g0 g1 (tab_set g2 i v) r0 ln rl
  | CIsRep0Long i => mkPTabs rows lit ps al pd im ir g0 g1 g2 (tab_set r0 i v) ln rl
  | CLit row col => mkPTabs rows (tab_set lit (row * 768 + col) v) ps al pd im ir g0 g1 g2 r0 ln rl
  | CPosSlot ls i => mkPTabs rows lit (tab_set ps (ls * 64 + i) v) al pd im ir g0 g1 g2 r0 ln rl
  | CPosDec i => mkPTabs rows lit ps al (tab_set pd i v) im ir g0 g1 g2 r0 ln rl
  | CAlign i => mkPTabs rows lit ps (tab_set al i v) pd im ir g0 g1 g2 r0 ln rl
  | CLen false p => mkPTabs rows lit ps al pd im ir g0 g1 g2 r0 (len_set ln p v) rl
  | CLen true p => mkPTabs rows lit ps al pd im ir g0 g1 g2 r0 ln (len_set rl p v)
  end.
