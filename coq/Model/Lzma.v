(* decode/lzma.rs and decode/options.rs *)
From LZ Require Import Base.Prelude Base.Prog Model.Io Model.Tables Model.LzBuffer Model.RangeDec.
Local Open Scope prog_scope.

(* ---------- options ---------- *)
Inductive unpacked_size_opt :=
| ReadFromHeader
| ReadHeaderButUseProvided (x : option N)
| UseProvided (x : option N).
Record options := mkOptions { o_unpacked : unpacked_size_opt; o_memlimit : option N; o_allow_incomplete : bool }.

Record props := mkProps { lc : N; lp : N; pb : N }.
Record params := mkParams { pr_props : props; pr_dict : N; pr_unpacked : option N }.

(* LzmaProperties::validate *)
Definition props_valid (p : props) : bool := (lc p <=? 8) && (lp p <=? 4) && (pb p <=? 4).

(* LzmaParams::read_header *)
Definition read_header (o : options) : prog ioE params :=
  pbyte <- read_u8 ;;
  if 225 <=? pbyte then Fail ELzma else
  let lc_ := pbyte mod 9 in
  let t := pbyte / 9 in
  let lp_ := t mod 5 in
  let pb_ := t / 5 in
  dict_provided <- read_u32_le ;;
  let dict := if dict_provided <? 4096 then 4096 else dict_provided in
  us <- match o_unpacked o with
        | ReadFromHeader =>
            v <- read_u64_le ;;
            Ret (if v =? 18446744073709551615 then None else Some v)
        | ReadHeaderButUseProvided x => read_u64_le ;;; Ret x
        | UseProvided x => Ret x
        end ;;
  Ret (mkParams (mkProps lc_ lp_ pb_) dict us).
(* every read failure inside read_header is mapped to Error::HeaderTooShort *)
Fixpoint map_io_err {A} (e' : err) (p : prog ioE A) : prog ioE A :=
  match p with
  | Ret a => Ret a
  | Fail EIo => Fail e'
  | Fail e => Fail e
  | Panic w => Panic w
  | Vis o k => Vis o (fun x => map_io_err e' (k x))
  end.

(* ---------- DecoderState ---------- *)
Record reps := mkReps { rep0 : N; rep1 : N; rep2 : N; rep3 : N }.
Record dstate := mkDstate {
  ds_pib : list N;             (* partial_input_buf[0 .. position) *)
  ds_props : props;
  ds_unpacked : option N;
  ds_tabs : ptabs;
  ds_state : N;
  ds_rep : reps
}.

Definition dstate_new (p : props) (us : option N) : outcome dstate * unit :=
  if negb (props_valid p) then (Panicked (PAssert 10), tt)
  else (Done (mkDstate [] p us (ptabs_new (N.shiftl 1 (lc p + lp p))) 0 (mkReps 0 0 0 0)), tt).

Definition reset_state (d : dstate) (np : props) : outcome dstate * unit :=
  if negb (props_valid np) then (Panicked (PAssert 11), tt)
  else
    let rows := if lc (ds_props d) + lp (ds_props d) =? lc np + lp np
                then p_lit_rows (ds_tabs d)              (* fill: the allocation is kept *)
                else N.shiftl 1 (lc np + lp np) in       (* Vec2D::init *)
    (Done (mkDstate (ds_pib d) np (ds_unpacked d) (ptabs_new rows) 0 (mkReps 0 0 0 0)), tt).

Definition set_unpacked_size (d : dstate) (us : option N) : dstate :=
  mkDstate (ds_pib d) (ds_props d) us (ds_tabs d) (ds_state d) (ds_rep d).

Inductive status := Continue | Finished.

(* the part of DecoderState that process_next_inner reads and writes besides the tables *)
Record sym_st := mkSym { y_state : N; y_rep : reps }.

Definition rep_get (r : reps) (i : N) : N :=
  if i =? 0 then rep0 r else if i =? 1 then rep1 r else if i =? 2 then rep2 r else rep3 r.

(* decode_literal *)
Fixpoint lit_matched_loop (fuel : nat) (row : N) (upd : bool) (match_byte result : N) : dprog N :=
  match fuel with
  | O => Ret result
  | S f =>
    if 256 <=? result then Ret result else
    let match_bit := N.land (N.shiftr match_byte 7) 1 in
    let match_byte' := N.shiftl match_byte 1 in
    b <- dcall (Bit (CLit row (N.shiftl (1 + match_bit) 8 + result)) upd) ;;
    let bit := b2n b in
    let result' := N.lxor (N.shiftl result 1) bit in
    if match_bit =? bit then lit_matched_loop f row upd match_byte' result' else Ret result'
  end.
Fixpoint lit_plain_loop (fuel : nat) (row : N) (upd : bool) (result : N) : dprog N :=
  match fuel with
  | O => Ret result
  | S f =>
    if 256 <=? result then Ret result else
    b <- dcall (Bit (CLit row result) upd) ;;
    lit_plain_loop f row upd (N.lxor (N.shiftl result 1) (b2n b))
  end.

Definition decode_literal (p : props) (y : sym_st) (upd : bool) : dprog N :=
  prev_byte <- dcall (WLastOr 0) ;;
  len <- dcall WLen ;;
  if 8 <? lc p then Panic (POverflow 30) else
  let lit_state := N.shiftl (N.land len (N.shiftl 1 (lp p) - 1)) (lc p) + N.shiftr prev_byte (8 - lc p) in
  result <- (if 7 <=? y_state y then
               mb <- dcall (WLastN (rep0 (y_rep y) + 1)) ;;
               lit_matched_loop 8 lit_state upd mb 1
             else Ret 1) ;;
  result <- lit_plain_loop 8 lit_state upd result ;;
  if result <? 256 then Panic (POverflow 31) else Ret (M8 (result - 256)).

(* decode_distance *)
Definition decode_distance (length : N) (upd : bool) : dprog N :=
  let len_state := if 3 <? length then 3 else length in
  pos_slot <- parse_bit_tree 6 (fun i => CPosSlot len_state i) upd ;;
  if pos_slot <? 4 then Ret pos_slot else
  let num_direct_bits := N.shiftr pos_slot 1 - 1 in
  let result := N.shiftl (N.lxor 2 (N.land pos_slot 1)) num_direct_bits in
  if pos_slot <? 14 then
    if result <? pos_slot then Panic (POverflow 32) else
    r <- parse_reverse_bit_tree num_direct_bits (fun i => CPosDec i) (result - pos_slot) upd ;;
    Ret (result + r)
  else
    d <- dcall (Direct (num_direct_bits - 4)) ;;
    let result := result + N.shiftl d 4 in
    a <- parse_reverse_bit_tree 4 (fun i => CAlign i) 0 upd ;;
    Ret (result + a).

(* process_next_inner, split along its three arms *)
Definition psym := (status * sym_st)%type.

Definition lit_arm (p : props) (y : sym_st) (upd : bool) : dprog psym :=
  let st := y_state y in
  byte <- decode_literal p y upd ;;
  if upd then
    dcall (WAppendLit byte) ;;;
    Ret (Continue, mkSym (if st <? 4 then 0 else if st <? 10 then st - 3 else st - 6) (y_rep y))
  else Ret (Continue, y).

(* which repeated distance: either an early return (short rep) or the rotated LRU *)
Definition rep_select (y : sym_st) (pos_state : N) (upd : bool) : dprog (psym + reps) :=
  let st := y_state y in
  let r := y_rep y in
  g0 <- dcall (Bit (CIsRepG0 st) upd) ;;
  if negb g0 then
    l0 <- dcall (Bit (CIsRep0Long (N.shiftl st 4 + pos_state)) upd) ;;
    if negb l0 then
      if upd then
        dcall (WAppendLz 1 (rep0 r + 1)) ;;;
        Ret (inl (Continue, mkSym (if st <? 7 then 9 else 11) r))
      else Ret (inl (Continue, y))
    else Ret (inr r)
  else
    g1 <- dcall (Bit (CIsRepG1 st) upd) ;;
    idx <- (if negb g1 then Ret 1 else
              g2 <- dcall (Bit (CIsRepG2 st) upd) ;; Ret (if negb g2 then 2 else 3)) ;;
    if upd then
      let dist := rep_get r idx in
      Ret (inr (if idx =? 1 then mkReps dist (rep0 r) (rep2 r) (rep3 r)
                else if idx =? 2 then mkReps dist (rep0 r) (rep1 r) (rep3 r)
                else mkReps dist (rep0 r) (rep1 r) (rep2 r)))
    else Ret (inr r).

Definition rep_arm (y : sym_st) (pos_state : N) (upd : bool) : dprog psym :=
  let st := y_state y in
  pre <- rep_select y pos_state upd ;;
  match pre with
  | inl res => Ret res
  | inr r' =>
      len <- len_decode true pos_state upd ;;
      if upd then
        dcall (WAppendLz (len + 2) (rep0 r' + 1)) ;;;
        Ret (Continue, mkSym (if st <? 7 then 8 else 11) r')
      else Ret (Continue, y)
  end.

Definition match_arm (y : sym_st) (pos_state : N) (upd : bool) : dprog psym :=
  let st := y_state y in
  let r := y_rep y in
  len <- len_decode false pos_state upd ;;
  rep_0 <- decode_distance len upd ;;
  if upd then
    let st' := if st <? 7 then 7 else 10 in
    let r2 := mkReps rep_0 (rep0 r) (rep1 r) (rep2 r) in
    if rep_0 =? 4294967295 then
      fin <- dcall FinishedOk ;;
      if fin then Ret (Finished, mkSym st' r2) else Fail ELzma
    else
      dcall (WAppendLz (len + 2) (rep_0 + 1)) ;;;
      Ret (Continue, mkSym st' r2)
  else Ret (Continue, y).

Definition process_next_inner (p : props) (y : sym_st) (upd : bool) : dprog psym :=
  len0 <- dcall WLen ;;
  if 63 <? pb p then Panic (POverflow 33) else
  let pos_state := N.land len0 (N.shiftl 1 (pb p) - 1) in
  is_m <- dcall (Bit (CIsMatch (N.shiftl (y_state y) 4 + pos_state)) upd) ;;
  if negb is_m then lit_arm p y upd
  else
    is_r <- dcall (Bit (CIsRep (y_state y)) upd) ;;
    if is_r then rep_arm y pos_state upd else match_arm y pos_state upd.

(* ---------- process_mode ---------- *)
Inductive pmode := Partial | FinishMode.
Definition MAX_REQUIRED_INPUT : N := 20.

Record lw := mkLw { l_ds : dstate; l_rc : rc; l_src : src; l_win : win }.

Definition with_ds (w : lw) (d : dstate) : lw := mkLw d (l_rc w) (l_src w) (l_win w).
Definition set_pib (d : dstate) (pib : list N) : dstate :=
  mkDstate pib (ds_props d) (ds_unpacked d) (ds_tabs d) (ds_state d) (ds_rep d).

(* one call of process_next_inner on the objects of [w] *)
Definition run_sym (upd : bool) (w : lw) : outcome status * lw :=
  let d := l_ds w in
  match interp dec_h (process_next_inner (ds_props d) (mkSym (ds_state d) (ds_rep d)) upd)
               (mkDw (ds_tabs d) (l_rc w) (l_src w) (l_win w)) with
  | (Done (st, y), x) =>
      (Done st, mkLw (mkDstate (ds_pib d) (ds_props d) (ds_unpacked d) (d_tabs x) (y_state y) (y_rep y))
                     (d_rc x) (d_src x) (d_win x))
  | (Failed e, x) =>
      (Failed e, mkLw (mkDstate (ds_pib d) (ds_props d) (ds_unpacked d) (d_tabs x) (ds_state d) (ds_rep d))
                      (d_rc x) (d_src x) (d_win x))
  | (Panicked p, x) =>
      (Panicked p, mkLw (mkDstate (ds_pib d) (ds_props d) (ds_unpacked d) (d_tabs x) (ds_state d) (ds_rep d))
                        (d_rc x) (d_src x) (d_win x))
  end.

(* try_process_next: dry run on a Cursor over [buf]; Some true = is_err() *)
Definition try_process_next (w : lw) (buf : list N) : outcome bool :=
  match run_sym false (mkLw (l_ds w) (l_rc w) (cursor_of buf) (l_win w)) with
  | (Done _, _) => Done false
  | (Failed _, _) => Done true
  | (Panicked p, _) => Panicked p
  end.

(* read_partial_input_buf *)
Definition read_partial_input_buf (w : lw) : outcome unit * lw :=
  let pib := ds_pib (l_ds w) in
  if MAX_REQUIRED_INPUT <? nlen pib then (Panicked (PIndex 20), w) else
  match src_run (read_buf (MAX_REQUIRED_INPUT - nlen pib)) (l_src w) with
  | (Done got, s) => (Done tt, mkLw (set_pib (l_ds w) (pib ++ got)) (l_rc w) s (l_win w))
  | (Failed e, s) => (Failed e, mkLw (l_ds w) (l_rc w) s (l_win w))
  | (Panicked p, s) => (Panicked p, mkLw (l_ds w) (l_rc w) s (l_win w))
  end.

Definition pm_result := (outcome unit * lw)%type.

Definition pm_body (mode : pmode) (w : lw) : step lw pm_result :=
  let d := l_ds w in
  (* loop head: break? *)
  let head : outcome bool * lw :=
    match ds_unpacked d with
    | Some us => (Done (us <=? win_len (l_win w)), w)
    | None =>
        match mode with
        | Partial =>
            match src_run is_eof (l_src w) with
            | (Done e, s) => (Done (e && (nlen (ds_pib d) =? 0)), mkLw d (l_rc w) s (l_win w))
            | (Failed e, s) => (Failed e, mkLw d (l_rc w) s (l_win w))
            | (Panicked p, s) => (Panicked p, mkLw d (l_rc w) s (l_win w))
            end
        | FinishMode =>
            if rep0 (ds_rep d) =? 4294967295 then
              match src_run (rc_is_finished_ok (l_rc w)) (l_src w) with
              | (Done e, s) => (Done (e && (nlen (ds_pib d) =? 0)), mkLw d (l_rc w) s (l_win w))
              | (Failed e, s) => (Failed e, mkLw d (l_rc w) s (l_win w))
              | (Panicked p, s) => (Panicked p, mkLw d (l_rc w) s (l_win w))
              end
            else (Done false, w)
        end
    end in
  match head with
  | (Failed e, w1) => Break (Failed e, w1)
  | (Panicked p, w1) => Break (Panicked p, w1)
  | (Done true, w1) => Break (Done tt, w1)
  | (Done false, w1) =>
    if 0 <? nlen (ds_pib (l_ds w1)) then
      match read_partial_input_buf w1 with
      | (Failed e, w2) => Break (Failed e, w2)
      | (Panicked p, w2) => Break (Panicked p, w2)
      | (Done _, w2) =>
        let pib := ds_pib (l_ds w2) in
        let need_more : outcome bool :=
          match mode with
          | Partial => if nlen pib <? MAX_REQUIRED_INPUT then try_process_next w2 pib else Done false
          | FinishMode => Done false
          end in
        match need_more with
        | Failed e => Break (Failed e, w2)          (* unreachable *)
        | Panicked p => Break (Panicked p, w2)
        | Done true => Break (Done tt, w2)          (* return Ok(()) *)
        | Done false =>
          (* run the decompressor on the tmp buffer *)
          match run_sym true (mkLw (l_ds w2) (l_rc w2) (cursor_of pib) (l_win w2)) with
          | (Failed e, t) => Break (Failed e, mkLw (l_ds t) (l_rc w2) (l_src w2) (l_win t))
          | (Panicked p, t) => Break (Panicked p, mkLw (l_ds t) (l_rc w2) (l_src w2) (l_win t))
          | (Done res, t) =>
            let consumed := s_pos (l_src t) in
            if nlen pib <? consumed then Break (Panicked (POverflow 40), w2) else
            let w3 := mkLw (set_pib (l_ds t) (nskipn consumed pib)) (l_rc t) (l_src w2) (l_win t) in
            match res with
            | Finished => Break (Done tt, w3)
            | Continue => Next w3
            end
          end
        end
      end
    else
      match src_run (icall FillBuf) (l_src w1) with
      | (Failed e, s) => Break (Failed e, mkLw (l_ds w1) (l_rc w1) s (l_win w1))
      | (Panicked p, s) => Break (Panicked p, mkLw (l_ds w1) (l_rc w1) s (l_win w1))
      | (Done buf, s) =>
        let w2 := mkLw (l_ds w1) (l_rc w1) s (l_win w1) in
        let need_more : outcome bool :=
          match mode with
          | Partial => if snd buf <? MAX_REQUIRED_INPUT then try_process_next w2 (visible buf) else Done false
          | FinishMode => Done false
          end in
        match need_more with
        | Failed e => Break (Failed e, w2)
        | Panicked p => Break (Panicked p, w2)
        | Done true => Break (read_partial_input_buf w2)     (* return self.read_partial_input_buf(..) *)
        | Done false =>
          match run_sym true w2 with
          | (Failed e, w3) => Break (Failed e, w3)
          | (Panicked p, w3) => Break (Panicked p, w3)
          | (Done Finished, w3) => Break (Done tt, w3)
          | (Done Continue, w3) => Next w3
          end
        end
      end
  end.

Definition process_mode (mode : pmode) (fuel : positive) (w : lw) : pm_result :=
  match loopN fuel (pm_body mode) w with
  | Next w' => (Panicked (PFuel 10), w')
  | Break (Done _, w') =>
      match ds_unpacked (l_ds w'), mode with
      | Some len, FinishMode => if len =? win_len (l_win w') then (Done tt, w') else (Failed ELzma, w')
      | _, _ => (Done tt, w')
      end
  | Break r => r
  end.

(* ---------- LzmaDecoder (raw API) ---------- *)
Record lzma_decoder := mkLzmaDecoder { ld_params : params; ld_memlimit : N; ld_state : dstate }.

Definition lzma_decoder_new (p : params) (memlimit : option N) : outcome lzma_decoder :=
  if pr_dict p =? 0 then Failed ELzma else
  match dstate_new (pr_props p) (pr_unpacked p) with
  | (Done d, _) => Done (mkLzmaDecoder p (match memlimit with Some m => m | None => USIZE - 1 end) d)
  | (Failed e, _) => Failed e
  | (Panicked w, _) => Panicked w
  end.

Definition lzma_decoder_reset (dec : lzma_decoder) (us : option (option N)) : outcome lzma_decoder :=
  match reset_state (ld_state dec) (pr_props (ld_params dec)) with
  | (Done d, _) =>
      Done (mkLzmaDecoder (ld_params dec) (ld_memlimit dec)
              (match us with Some u => set_unpacked_size d u | None => d end))
  | (Failed e, _) => Failed e
  | (Panicked w, _) => Panicked w
  end.

Definition lzma_decoder_decompress (fuel : positive) (dec : lzma_decoder) (w : io)
  : outcome unit * (lzma_decoder * io) :=
  let output := circ_new (i_snk w) (pr_dict (ld_params dec)) (ld_memlimit dec) in
  match src_run (map_io_err ELzma rc_new) (i_src w) with
  | (Failed e, s) => (Failed e, (dec, mkIo s (i_snk w)))
  | (Panicked p, s) => (Panicked p, (dec, mkIo s (i_snk w)))
  | (Done r, s) =>
      match process_mode FinishMode fuel (mkLw (ld_state dec) r s (WCirc output)) with
      | (Done _, x) =>
          let dec' := mkLzmaDecoder (ld_params dec) (ld_memlimit dec) (l_ds x) in
          match l_win x with
          | WCirc c =>
              match circ_finish c with
              | (Done _, k) => (Done tt, (dec', mkIo (l_src x) k))
              | (Failed e, k) => (Failed e, (dec', mkIo (l_src x) k))
              | (Panicked p, k) => (Panicked p, (dec', mkIo (l_src x) k))
              end
          | WAccum a => (Panicked (PAssert 99), (dec', mkIo (l_src x) (a_snk a)))
          end
      | (Failed e, x) => (Failed e, (mkLzmaDecoder (ld_params dec) (ld_memlimit dec) (l_ds x), mkIo (l_src x) (win_snk (l_win x))))
      | (Panicked p, x) => (Panicked p, (mkLzmaDecoder (ld_params dec) (ld_memlimit dec) (l_ds x), mkIo (l_src x) (win_snk (l_win x))))
      end
  end.

(* lib.rs: lzma_decompress_with_options *)
Definition lzma_decompress (fuel : positive) (o : options) (w : io) : outcome unit * io :=
  match src_run (map_io_err EHeaderTooShort (read_header o)) (i_src w) with
  | (Failed e, s) => (Failed e, mkIo s (i_snk w))
  | (Panicked p, s) => (Panicked p, mkIo s (i_snk w))
  | (Done p, s) =>
      match lzma_decoder_new p (o_memlimit o) with
      | Failed e => (Failed e, mkIo s (i_snk w))
      | Panicked q => (Panicked q, mkIo s (i_snk w))
      | Done dec =>
          let '(r, (_, w')) := lzma_decoder_decompress fuel dec (mkIo s (i_snk w)) in (r, w')
      end
  end.
