(* decode/xz.rs, xz/mod.rs, xz/header.rs, xz/footer.rs *)
From LZ Require Import Base.Prelude Base.Prog Model.Io Model.Tables Model.LzBuffer Model.RangeDec Model.Lzma Model.Lzma2.
Local Open Scope prog_scope.

Definition XZ_MAGIC : list N := [253; 55; 122; 88; 90; 0].
Definition XZ_MAGIC_FOOTER : list N := [89; 90].

Inductive check_method := CkNone | CkCrc32 | CkCrc64 | CkSha256.
Definition check_of_id (id : N) : option check_method :=
  if id =? 0 then Some CkNone else if id =? 1 then Some CkCrc32
  else if id =? 4 then Some CkCrc64 else if id =? 10 then Some CkSha256 else None.
Definition check_id (c : check_method) : N :=
  match c with CkNone => 0 | CkCrc32 => 1 | CkCrc64 => 4 | CkSha256 => 10 end.
Definition check_eqb (a b : check_method) : bool := check_id a =? check_id b.

(* StreamFlags::parse on the two flag bytes (big-endian u16) *)
Definition flags_parse (b0 b1 : N) : outcome check_method :=
  if negb (b0 =? 0) then Failed EXz
  else match check_of_id b1 with Some c => Done c | None => Failed EXz end.

Record record := mkRecord { rc_unpadded : N; rc_unpacked : N }.

Section WithCrc.
Variable crc32 : list N -> N.
Variable crc64 : list N -> N.

(* get_multibyte on a reader: value and the bytes consumed *)
Fixpoint get_multibyte_loop (n : nat) (i : N) (result : N) (acc : list N) : prog ioE (N * list N) :=
  match n with
  | O => Fail EXz
  | S n' =>
      b <- read_u8 ;;
      let result' := N.lxor result (M64 (N.shiftl (N.land b 127) (i * 7))) in
      if N.land b 128 =? 0 then Ret (result', lrev (b :: acc))
      else get_multibyte_loop n' (i + 1) result' (b :: acc)
  end.
Definition get_multibyte : prog ioE (N * list N) := get_multibyte_loop 9 0 0 [].

(* the same on a byte list (the block header is parsed from a buffer) *)
Definition lres (A : Type) := outcome (A * list N).
Fixpoint lget_multibyte_loop (n : nat) (i result : N) (l : list N) : lres N :=
  match n with
  | O => Failed EXz
  | S n' =>
      match l with
      | [] => Failed EIo
      | b :: t =>
          let result' := N.lxor result (M64 (N.shiftl (N.land b 127) (i * 7))) in
          if N.land b 128 =? 0 then Done (result', t) else lget_multibyte_loop n' (i + 1) result' t
      end
  end.
Definition lget_multibyte := lget_multibyte_loop 9 0 0.

(* StreamHeader::parse *)
Definition header_parse : prog ioE check_method :=
  ok <- read_tag XZ_MAGIC ;;
  if negb ok then Fail EXz else
  fl <- read_exact 2 ;;
  crc <- read_u32_le ;;
  if negb (crc =? crc32 fl) then Fail EXz else
  match fl with
  | [b0; b1] => match flags_parse b0 b1 with Done c => Ret c | Failed e => Fail e | Panicked p => Panic p end
  | _ => Panic (PAssert 2)
  end.

Definition padding_of (count : N) : N := N.land (N.lxor count 3 + 1) 3.

Fixpoint read_zero_padding (n : nat) (acc : list N) : prog ioE (list N) :=
  match n with
  | O => Ret (lrev acc)
  | S n' => b <- read_u8 ;; if negb (b =? 0) then Fail EXz else read_zero_padding n' (b :: acc)
  end.

(* check_index; [start] is the position at which the CountBufRead was created *)
Fixpoint check_records (rs : list record) (acc : list N) : prog ioE (list N) :=
  match rs with
  | [] => Ret acc
  | r :: rs' =>
      '(u, b1) <- get_multibyte ;;
      if negb (u =? rc_unpadded r) then Fail EXz else
      '(v, b2) <- get_multibyte ;;
      if negb (v =? rc_unpacked r) then Fail EXz else
      check_records rs' (acc ++ b1 ++ b2)
  end.

Definition check_index (start : N) (records : list record) : prog ioE unit :=
  '(num, b0) <- get_multibyte ;;
  if negb (num =? nlen records) then Fail EXz else
  bs <- check_records records b0 ;;
  pos <- icall GetPos ;;
  let count := pos - start in
  pad <- read_zero_padding (N.to_nat (padding_of count)) [] ;;
  crc <- read_u32_le ;;
  if negb (crc =? crc32 (0 :: bs ++ pad)) then Fail EXz else Ret tt.

(* read_block_header on the buffered header bytes *)
Record filter := mkFilter { f_props : list N }.     (* filter_id is always LZMA2 once parsed *)
Record block_header := mkBH { bh_filters : list filter; bh_packed : option N; bh_unpacked : option N }.

Fixpoint read_filters (n : nat) (header_size : N) (l : list N) (acc : list filter) : lres (list filter) :=
  match n with
  | O => Done (lrev acc, l)
  | S n' =>
      match lget_multibyte l with
      | Failed e => Failed e | Panicked p => Panicked p
      | Done (id, l1) =>
          if negb (id =? 33) then Failed EXz else
          match lget_multibyte l1 with
          | Failed e => Failed e | Panicked p => Panicked p
          | Done (sz, l2) =>
              if header_size <? sz then Failed EXz else
              if nlen l2 <? sz then Failed EXz     (* read_exact fails: mapped to XzError *)
              else read_filters n' header_size (nskipn sz l2) (mkFilter (nfirstn sz l2) :: acc)
          end
      end
  end.

Definition read_block_header (header_size : N) (l : list N) : outcome block_header :=
  match l with
  | [] => Failed EIo
  | flags :: l0 =>
      let num_filters := N.land flags 3 + 1 in
      if negb (N.land flags 60 =? 0) then Failed EXz else
      let opt (present : bool) (l : list N) : lres (option N) :=
        if present then
          match lget_multibyte l with
          | Done (v, l') => Done (Some v, l') | Failed e => Failed e | Panicked p => Panicked p
          end
        else Done (None, l) in
      match opt (negb (N.land flags 64 =? 0)) l0 with
      | Failed e => Failed e | Panicked p => Panicked p
      | Done (packed, l1) =>
      match opt (negb (N.land flags 128 =? 0)) l1 with
      | Failed e => Failed e | Panicked p => Panicked p
      | Done (unpacked, l2) =>
      match read_filters (N.to_nat num_filters) header_size l2 [] with
      | Failed e => Failed e | Panicked p => Panicked p
      | Done (fs, l3) =>
          if forallb (fun b => b =? 0) l3 then Done (mkBH fs packed unpacked) else Failed EXz
      end end end
  end.

(* validate_block_check *)
Definition validate_block_check (buf : list N) (m : check_method) : prog ioE unit :=
  match m with
  | CkNone => Ret tt
  | CkCrc32 => c <- read_u32_le ;; if c =? crc32 buf then Ret tt else Fail EXz
  | CkCrc64 => c <- read_u64_le ;; if c =? crc64 buf then Ret tt else Fail EXz
  | CkSha256 => Fail EXz
  end.

(* decode_filter: LZMA2 from the given source into a Vec; returns bytes consumed and the output *)
Definition decode_filter (fuel : positive) (f : filter) (s : src) : outcome (N * list N) * src :=
  if negb (nlen (f_props f) =? 1) then (Failed EXz, s) else
  let start := s_pos s in
  match lzma2_decompress_top fuel (mkIo s vec_sink) with
  | (Done _, w) => (Done (s_pos (i_src w) - start, snk_bytes (i_snk w)), i_src w)
  | (Failed e, w) => (Failed e, i_src w)
  | (Panicked p, w) => (Panicked p, i_src w)
  end.

Fixpoint later_filters (fuel : positive) (fs : list filter) (buf : list N) : outcome (list N) :=
  match fs with
  | [] => Done buf
  | f :: fs' =>
      match decode_filter fuel f (cursor_of buf) with
      | (Done (_, out), _) => later_filters fuel fs' out
      | (Failed e, _) => Failed e
      | (Panicked p, _) => Panicked p
      end
  end.

Definition io_run {A} (p : prog ioE A) : M io A := run_io p.
Local Open Scope m_scope.

(* read_block; returns the record to push *)
Definition read_block (fuel : positive) (start : N) (check : check_method) (hs : N) : M io record :=
  if hs =? 0 then mpanic (POverflow 50) else
  let header_size := N.shiftl hs 2 - 1 in
  hdr <- io_run (read_upto header_size) ;;
  match read_block_header header_size hdr with
  | Failed e => mfail e | Panicked p => mpanic p
  | Done bh =>
  crc <- io_run read_u32_le ;;
  if negb (crc =? crc32 (hs :: hdr)) then mfail EXz else
  tmpbuf <- (match bh_filters bh with
             | [] => mret []
             | f0 :: fs =>
                 fun w =>
                   match decode_filter fuel f0 (i_src w) with
                   | (Failed e, s) => (Failed e, mkIo s (i_snk w))
                   | (Panicked p, s) => (Panicked p, mkIo s (i_snk w))
                   | (Done (packed, out), s) =>
                       let w' := mkIo s (i_snk w) in
                       if (match bh_packed bh with Some e => negb (packed =? e) | None => false end)
                       then (Failed EXz, w')
                       else match later_filters fuel fs out with
                            | Done b => (Done b, w') | Failed e => (Failed e, w') | Panicked p => (Panicked p, w')
                            end
                   end
             end) ;;
  let unpacked_size := nlen tmpbuf in
  if (match bh_unpacked bh with Some e => negb (unpacked_size =? e) | None => false end) then mfail EXz else
  pos <- io_run (icall GetPos) ;;
  let padding_size := padding_of (pos - start) in
  io_run (read_zero_padding (N.to_nat padding_size) []) ;;;
  io_run (validate_block_check tmpbuf check) ;;;
  io_run (write_all tmpbuf) ;;;
  pos2 <- io_run (icall GetPos) ;;
  if pos2 - start <? padding_size then mpanic (POverflow 51) else
  mret (mkRecord (pos2 - start - padding_size) unpacked_size)
  end.

(* the block loop of decode_stream; returns index_size *)
Definition xz_body (fuel : positive) (check : check_method) (st : list record * io)
  : step (list record * io) (outcome N * io) :=
  let '(records, w) := st in
  let start := s_pos (i_src w) in
  match run_io read_u8 w with
  | (Failed e, w1) => Break (Failed e, w1)
  | (Panicked p, w1) => Break (Panicked p, w1)
  | (Done hs, w1) =>
      if hs =? 0 then
        match run_io (check_index start (lrev records)) w1 with
        | (Done _, w2) => Break (Done (s_pos (i_src w2) - start), w2)
        | (Failed e, w2) => Break (Failed e, w2)
        | (Panicked p, w2) => Break (Panicked p, w2)
        end
      else
        match read_block fuel start check hs w1 with
        | (Done r, w2) => Next (r :: records, w2)
        | (Failed e, w2) => Break (Failed e, w2)
        | (Panicked p, w2) => Break (Panicked p, w2)
        end
  end.

Definition xz_footer (check : check_method) (index_size : N) : prog ioE unit :=
  (  crc <- read_u32_le ;;
  bsz <- read_exact 4 ;;
  let backward_size := le_num bsz in
  if negb (index_size =? N.shiftl (backward_size + 1) 2) then Fail EXz else
  fl <- read_exact 2 ;;
  match fl with
  | [b0; b1] =>
      match flags_parse b0 b1 with
      | Failed e => Fail e | Panicked p => Panic p
      | Done c =>
          if negb (check_eqb check c) then Fail EXz else
          if negb (crc =? crc32 (bsz ++ fl)) then Fail EXz else
          ok <- read_tag XZ_MAGIC_FOOTER ;;
          if negb ok then Fail EXz else
          e <- is_eof ;;
          if e then Ret tt else Fail EXz
      end
  | _ => Panic (PAssert 3)
  end)%prog.

Definition xz_decompress (fuel : positive) : M io unit :=
  check <- io_run header_parse ;;
  fun w =>
    match loopN fuel (xz_body fuel check) ([], w) with
    | Next (_, w') => (Panicked (PFuel 30), w')
    | Break (Done index_size, w') => run_io (xz_footer check index_size) w'
    | Break (Failed e, w') => (Failed e, w')
    | Break (Panicked p, w') => (Panicked p, w')
    end.

End WithCrc.
