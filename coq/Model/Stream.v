(* decode/stream.rs: the incremental decoder behind io::Write *)
From LZ Require Import Base.Prelude Base.Prog Model.Io Model.Tables Model.LzBuffer Model.RangeDec Model.Lzma.

Definition MAX_TMP_LEN : N := 18.

Record run_state := mkRun { rs_dec : dstate; rs_rc : rc; rs_out : circ }.
Inductive sstate := SHeader (k : snk) | SData (r : run_state).

Record stream := mkStream {
  st_tmp : list N;                 (* tmp[0 .. position) *)
  st_state : option sstate;
  st_opts : options;
  st_ghost : snk                   (* ghost: the sink as it was when the state was dropped *)
}.

Definition stream_new (o : options) (k : snk) : stream := mkStream [] (Some (SHeader k)) o k.

Definition stream_sink (s : stream) : snk :=
  match st_state s with
  | Some (SHeader k) => k
  | Some (SData r) => c_snk (rs_out r)
  | None => st_ghost s
  end.

(* Stream::read_header *)
Definition stream_read_header (k : snk) (input : src) (o : options) : outcome sstate * src :=
  match src_run (map_io_err EHeaderTooShort (read_header o)) input with
  | (Done p, s) =>
      match dstate_new (pr_props p) (pr_unpacked p) with
      | (Panicked q, _) => (Panicked q, s)
      | (Failed e, _) => (Failed e, s)
      | (Done d, _) =>
          let output := circ_new k (pr_dict p) (match o_memlimit o with Some m => m | None => USIZE - 1 end) in
          match src_run rc_new s with
          | (Done r, s') => (Done (SData (mkRun d r output)), s')
          | (Failed _, s') => (Done (SHeader k), s')
          | (Panicked q, s') => (Panicked q, s')
          end
      end
  | (Failed EHeaderTooShort, s) => (Done (SHeader k), s)
  | (Failed e, s) => (Failed e, s)
  | (Panicked q, s) => (Panicked q, s)
  end.

(* Stream::read_data: process_stream (Partial mode) on the given input *)
Definition stream_read_data (r : run_state) (input : src) : outcome unit * (run_state * src) :=
  match process_mode Partial big_fuel (mkLw (rs_dec r) (rs_rc r) input (WCirc (rs_out r))) with
  | (res, x) =>
      let out := match l_win x with WCirc c => c | WAccum _ => rs_out r end in
      (res, (mkRun (l_ds x) (l_rc x) out, l_src x))
  end.

Definition dead (s : stream) (tmp : list N) (k : snk) : stream := mkStream tmp None (st_opts s) k.

(* <Stream as Write>::write *)
Definition stream_write (s : stream) (data : list N) : outcome N * stream :=
  let input := cursor_of data in
  match st_state s with
  | None => (Done 0, s)
  | Some (SHeader k) =>
      (* res, the tmp buffer afterwards, and the input cursor position *)
      let '(res, tmp1, pos1) :=
        if 0 <? nlen (st_tmp s) then
          let n := N.min (nlen data) (MAX_TMP_LEN - nlen (st_tmp s)) in
          let tmp := st_tmp s ++ nfirstn n data in
          match stream_read_header k (cursor_of tmp) (st_opts s) with
          | (Done (SData r), ts) => (Done (SData r), nskipn (s_pos ts) tmp, n)
          | (other, _) => (other, tmp, n)
          end
        else
          match stream_read_header k input (st_opts s) with
          | (res, is) => (res, st_tmp s, s_pos is)
          end in
      match res with
      | Done (SHeader k') =>
          if nlen tmp1 =? 0 then
            let n := N.min (nlen data) MAX_TMP_LEN in
            (Done n, mkStream (nfirstn n data) (Some (SHeader k')) (st_opts s) k')
          else (Done pos1, mkStream tmp1 (Some (SHeader k')) (st_opts s) k')
      | Done (SData r) => (Done pos1, mkStream tmp1 (Some (SData r)) (st_opts s) (c_snk (rs_out r)))
      | Failed e => (Failed e, dead s tmp1 k)
      | Panicked p => (Panicked p, dead s tmp1 k)
      end
  | Some (SData r) =>
      let first : outcome unit * run_state :=
        if 0 <? nlen (st_tmp s) then
          match stream_read_data r (cursor_of (st_tmp s)) with (res, (r', _)) => (res, r') end
        else (Done tt, r) in
      match first with
      | (Failed e, r1) => (Failed e, dead s (st_tmp s) (c_snk (rs_out r1)))
      | (Panicked p, r1) => (Panicked p, dead s (st_tmp s) (c_snk (rs_out r1)))
      | (Done _, r1) =>
          match stream_read_data r1 input with
          | (Done _, (r2, is)) => (Done (s_pos is), mkStream [] (Some (SData r2)) (st_opts s) (c_snk (rs_out r2)))
          | (Failed e, (r2, _)) => (Failed e, dead s [] (c_snk (rs_out r2)))
          | (Panicked p, (r2, _)) => (Panicked p, dead s [] (c_snk (rs_out r2)))
          end
      end
  end.

(* <Stream as Write>::flush *)
Definition stream_flush (s : stream) : outcome unit * stream :=
  match st_state s with
  | Some (SData r) =>
      match snk_flush (c_snk (rs_out r)) with
      | HOk _ k =>
          let o := rs_out r in
          let o' := mkCirc (c_buf o) (c_blen o) (c_dict o) (c_mem o) (c_cursor o) (c_len o) k in
          (Done tt, mkStream (st_tmp s) (Some (SData (mkRun (rs_dec r) (rs_rc r) o'))) (st_opts s) k)
      | HErr e _ => (Failed e, s)
      | HPanic p _ => (Panicked p, s)
      end
  | _ => (Done tt, s)
  end.

(* Stream::finish: consumes the stream, returns the sink on success *)
Definition stream_finish (s : stream) : outcome unit * snk :=
  match st_state s with
  | None => (Failed ELzma, st_ghost s)
  | Some (SHeader k) => if 0 <? nlen (st_tmp s) then (Failed ELzma, k) else (Done tt, k)
  | Some (SData r) =>
      let processed : outcome unit * circ :=
        if negb (o_allow_incomplete (st_opts s)) then
          match process_mode FinishMode big_fuel (mkLw (rs_dec r) (rs_rc r) (cursor_of (st_tmp s)) (WCirc (rs_out r))) with
          | (res, x) => (res, match l_win x with WCirc c => c | WAccum _ => rs_out r end)
          end
        else (Done tt, rs_out r) in
      match processed with
      | (Done _, c) => circ_finish c
      | (Failed e, c) => (Failed e, c_snk c)
      | (Panicked p, c) => (Panicked p, c_snk c)
      end
  end.
