(* The environment: a fragmenting, possibly failing BufRead source and a
   possibly short-writing, possibly failing Write sink.  Every read / write of
   the Rust code is one of the four operations of [ioE]; read_exact, read_u8,
   write_all ... are derived programs written as in std / byteorder. *)
From LZ Require Import Base.Prelude Base.Prog.
Local Open Scope prog_scope.

(* ---------- source ---------- *)
(* [s_rest] is the data not yet consumed; [s_avail] bytes of it are currently
   visible in the reader's buffer.  When the buffer is empty a fill_buf performs
   refill number [s_refills], which exposes [s_frag s_refills] more bytes
   (at least 1, at most what is left) or fails if [s_fail] names that refill.
   [s_limit] models std::io::Take. *)
Record src := mkSrc {
  s_rest : list N;
  s_pos : N;
  s_avail : N;
  s_refills : N;
  s_frag : N -> N;
  s_fail : option N;
  s_limit : option N
}.

Definition src_of (data : list N) (frag : N -> N) (fail : option N) : src :=
  mkSrc data 0 0 0 frag fail None.
Definition frag_all : N -> N := fun _ => 4611686018427387904.
Definition cursor_of (data : list N) : src := src_of data frag_all None.

(* ---------- sink ---------- *)
Record snk := mkSnk {
  k_out : list N;          (* accepted bytes, most recent first *)
  k_count : N;             (* number of accepted bytes *)
  k_calls : N;             (* number of write calls so far *)
  k_accept : N -> N;       (* the k-th write call accepts at most this many bytes (>= 1) *)
  k_wfail : option N;      (* write call that fails *)
  k_flushes : N;           (* successful flush calls *)
  k_ffail : bool           (* flush fails *)
}.
Definition snk_new (accept : N -> N) (wfail : option N) (ffail : bool) : snk :=
  mkSnk [] 0 0 accept wfail 0 ffail.
Definition vec_sink : snk := snk_new frag_all None false.
Definition snk_bytes (k : snk) : list N := lrev (k_out k).

(* ---------- the effect signature ---------- *)
Inductive ioE : Type -> Type :=
| FillBuf : ioE (list N * N)       (* BufRead::fill_buf: (unconsumed data, number of its bytes that are visible) *)
| Consume (n : N) : ioE unit       (* BufRead::consume *)
| Write (bs : list N) : ioE N      (* Write::write on a non-empty slice: bytes accepted *)
| Flush : ioE unit                 (* Write::flush *)
| GetPos : ioE N                   (* ghost: bytes consumed from the source so far (CountBufRead) *)
| GetCount : ioE N.                (* ghost: bytes accepted by the sink so far (CountWrite) *)

Record io := mkIo { i_src : src; i_snk : snk }.

Definition limited (s : src) (n : N) : N :=
  match s_limit s with Some l => N.min l n | None => n end.

(* min n (length l) without walking all of l when n is small *)
Definition nmin_len {A} (n : N) (l : list A) : N :=
  if n <? 1048576 then nlen (nfirstn n l) else N.min n (nlen l).

Definition visible (r : list N * N) : list N := nfirstn (snd r) (fst r).

Definition src_fill (s : src) : hres (list N * N) src :=
  match s_limit s with
  | Some 0 => HOk (s_rest s, 0) s
  | _ =>
    if 0 <? s_avail s then HOk (s_rest s, limited s (s_avail s)) s
    else
      match s_rest s with
      | [] => HOk ([], 0) s
      | _ =>
        if (match s_fail s with Some k => k =? s_refills s | None => false end)
        then HErr EIo (mkSrc (s_rest s) (s_pos s) 0 (s_refills s + 1) (s_frag s) (s_fail s) (s_limit s))
        else
          let want := N.max 1 (s_frag s (s_refills s)) in
          let a := nmin_len want (s_rest s) in
          let s' := mkSrc (s_rest s) (s_pos s) a (s_refills s + 1) (s_frag s) (s_fail s) (s_limit s) in
          HOk (s_rest s, limited s' a) s'
      end
  end.

Definition src_consume (s : src) (n : N) : src :=
  mkSrc (nskipn n (s_rest s)) (s_pos s + n) (s_avail s - n) (s_refills s) (s_frag s) (s_fail s)
        (match s_limit s with Some l => Some (l - n) | None => None end).

Definition snk_write (k : snk) (bs : list N) : hres N snk :=
  if (match k_wfail k with Some j => j =? k_calls k | None => false end)
  then HErr EIo (mkSnk (k_out k) (k_count k) (k_calls k + 1) (k_accept k) (k_wfail k) (k_flushes k) (k_ffail k))
  else
    let n := nmin_len (N.max 1 (k_accept k (k_calls k))) bs in
    HOk n (mkSnk (rev_append (nfirstn n bs) (k_out k)) (k_count k + n) (k_calls k + 1)
                 (k_accept k) (k_wfail k) (k_flushes k) (k_ffail k)).

Definition snk_flush (k : snk) : hres unit snk :=
  if k_ffail k then HErr EIo k
  else HOk tt (mkSnk (k_out k) (k_count k) (k_calls k) (k_accept k) (k_wfail k) (k_flushes k + 1) (k_ffail k)).

Definition io_h : handler ioE io := fun X o =>
  match o in ioE X return io -> hres X io with
  | FillBuf => fun w => match src_fill (i_src w) with
                        | HOk x s => HOk x (mkIo s (i_snk w))
                        | HErr e s => HErr e (mkIo s (i_snk w))
                        | HPanic p s => HPanic p (mkIo s (i_snk w)) end
  | Consume n => fun w => HOk tt (mkIo (src_consume (i_src w) n) (i_snk w))
  | Write bs => fun w => match snk_write (i_snk w) bs with
                         | HOk x k => HOk x (mkIo (i_src w) k)
                         | HErr e k => HErr e (mkIo (i_src w) k)
                         | HPanic p k => HPanic p (mkIo (i_src w) k) end
  | Flush => fun w => match snk_flush (i_snk w) with
                      | HOk x k => HOk x (mkIo (i_src w) k)
                      | HErr e k => HErr e (mkIo (i_src w) k)
                      | HPanic p k => HPanic p (mkIo (i_src w) k) end
  | GetPos => fun w => HOk (s_pos (i_src w)) w
  | GetCount => fun w => HOk (k_count (i_snk w)) w
  end.

(* ---------- derived operations (std::io, byteorder, decode/util.rs) ---------- *)
Notation iop := (prog ioE).
Notation icall := (@call ioE _).

(* Read::read into a buffer of [n] bytes, as implemented on top of BufRead *)
Definition read_buf (n : N) : iop (list N) :=
  if n =? 0 then Ret [] else
  vis <- icall FillBuf ;;
  let got := nfirstn (N.min n (snd vis)) (fst vis) in
  icall (Consume (nlen got)) ;;; Ret got.

(* Read::read_exact (default implementation) *)
Fixpoint read_exact_loop (fuel : nat) (n : N) (acc : list N) : iop (list N) :=
  if n =? 0 then Ret (lrev acc) else
  match fuel with
  | O => Panic (PFuel 1)
  | S fuel' =>
      got <- read_buf n ;;
      match got with
      | [] => Fail EIo                      (* UnexpectedEof *)
      | _ => read_exact_loop fuel' (n - nlen got) (rev_append got acc)
      end
  end.
Definition read_exact (n : N) : iop (list N) := read_exact_loop (N.to_nat n) n [].

Definition read_u8 : iop N :=
  bs <- read_exact 1 ;; match bs with [b] => Ret b | _ => Panic (PAssert 1) end.
Definition read_u16_be : iop N := bs <- read_exact 2 ;; Ret (be_num bs).
Definition read_u32_be : iop N := bs <- read_exact 4 ;; Ret (be_num bs).
Definition read_u32_le : iop N := bs <- read_exact 4 ;; Ret (le_num bs).
Definition read_u64_le : iop N := bs <- read_exact 8 ;; Ret (le_num bs).

(* decode/util.rs *)
Definition is_eof : iop bool := vis <- icall FillBuf ;; Ret (snd vis =? 0).
Definition read_tag (tag : list N) : iop bool :=
  bs <- read_exact (nlen tag) ;; Ret (if list_eq_dec N.eq_dec bs tag then true else false).

(* read up to [n] bytes, stopping early only at end of input (the net effect of
   BufReader<CrcDigestRead<Take<..>>> on the block header, see DESIGN §4) *)
Fixpoint read_upto_loop (fuel : nat) (n : N) (acc : list N) : iop (list N) :=
  if n =? 0 then Ret (lrev acc) else
  match fuel with
  | O => Panic (PFuel 2)
  | S fuel' =>
      got <- read_buf n ;;
      match got with
      | [] => Ret (lrev acc)
      | _ => read_upto_loop fuel' (n - nlen got) (rev_append got acc)
      end
  end.
Definition read_upto (n : N) : iop (list N) := read_upto_loop (N.to_nat n) n [].

(* Write::write_all *)
Fixpoint write_all_loop (fuel : nat) (bs : list N) : iop unit :=
  match bs with
  | [] => Ret tt
  | _ =>
    match fuel with
    | O => Panic (PFuel 3)
    | S fuel' =>
        n <- icall (Write bs) ;;
        if n =? 0 then Fail EIo (* WriteZero *) else write_all_loop fuel' (nskipn n bs)
    end
  end.
Definition write_all (bs : list N) : iop unit := write_all_loop (length bs) bs.
Definition write_u8 (b : N) : iop unit := write_all [b].
Definition write_u16_be (v : N) : iop unit := write_all (be_bytes 2 v).
Definition write_u32_le (v : N) : iop unit := write_all (le_bytes 4 v).
Definition write_u64_le (v : N) : iop unit := write_all (le_bytes 8 v).

Definition run_io {A} (p : iop A) (w : io) : outcome A * io := interp io_h p w.
