(* decode/lzma2.rs *)
From LZ Require Import Base.Prelude Base.Prog Model.Io Model.Tables Model.LzBuffer Model.RangeDec Model.Lzma.
Local Open Scope prog_scope.

Record lzma2_decoder := mkL2 { l2_state : dstate }.

Definition props0 := mkProps 0 0 0.
Definition lzma2_new : outcome lzma2_decoder :=
  match dstate_new props0 None with
  | (Done d, _) => Done (mkL2 d) | (Failed e, _) => Failed e | (Panicked p, _) => Panicked p
  end.
Definition lzma2_reset (dec : lzma2_decoder) : outcome lzma2_decoder :=
  match reset_state (l2_state dec) props0 with
  | (Done d, _) => Done (mkL2 d) | (Failed e, _) => Failed e | (Panicked p, _) => Panicked p
  end.

(* the objects alive inside decompress *)
Record w2 := mkW2 { w_ds : dstate; w_src : src; w_acc : accum }.

Definition w2_src {A} (w : w2) (r : outcome A * src) : outcome A * w2 :=
  (fst r, mkW2 (w_ds w) (snd r) (w_acc w)).

Definition set_limit (s : src) (l : option N) : src :=
  mkSrc (s_rest s) (s_pos s) (s_avail s) (s_refills s) (s_frag s) (s_fail s) l.

Definition parse_lzma (fuel : positive) (status : N) (w : w2) : outcome unit * w2 :=
  if N.land status 128 =? 0 then (Failed ELzma, w) else
  let cls := N.land (N.shiftr status 5) 3 in
  let reset_dict := cls =? 3 in
  let reset_st := negb (cls =? 0) in
  let reset_props := (cls =? 2) || (cls =? 3) in
  match w2_src w (src_run (map_io_err ELzma read_u16_be) (w_src w)) with
  | (Failed e, w) => (Failed e, w) | (Panicked p, w) => (Panicked p, w)
  | (Done us16, w) =>
  let unpacked_size := N.lor (N.shiftl (N.land status 31) 16) us16 + 1 in
  match w2_src w (src_run (map_io_err ELzma read_u16_be) (w_src w)) with
  | (Failed e, w) => (Failed e, w) | (Panicked p, w) => (Panicked p, w)
  | (Done ps16, w) =>
  let packed_size := ps16 + 1 in
  (* if reset_dict { accum.reset()? } *)
  match (if reset_dict then
           match accum_reset (w_acc w) with
           | (r, a) => (r, mkW2 (w_ds w) (w_src w) a)
           end
         else (Done tt, w)) with
  | (Failed e, w) => (Failed e, w) | (Panicked p, w) => (Panicked p, w)
  | (Done _, w) =>
  (* if reset_state { new_props ...; reset_state(new_props) } *)
  match (if reset_st then
           let np : outcome props * w2 :=
             if reset_props then
               match w2_src w (src_run (map_io_err ELzma read_u8) (w_src w)) with
               | (Failed e, w) => (Failed e, w) | (Panicked p, w) => (Panicked p, w)
               | (Done pbyte, w) =>
                   if 225 <=? pbyte then (Failed ELzma, w) else
                   let lc_ := pbyte mod 9 in let t := pbyte / 9 in
                   let lp_ := t mod 5 in let pb_ := t / 5 in
                   if 4 <? lc_ + lp_ then (Failed ELzma, w) else (Done (mkProps lc_ lp_ pb_), w)
               end
             else (Done (ds_props (w_ds w)), w) in
           match np with
           | (Failed e, w) => (Failed e, w) | (Panicked p, w) => (Panicked p, w)
           | (Done p, w) =>
               match reset_state (w_ds w) p with
               | (Done d, _) => (Done tt, mkW2 d (w_src w) (w_acc w))
               | (Failed e, _) => (Failed e, w)
               | (Panicked q, _) => (Panicked q, w)
               end
           end
         else (Done tt, w)) with
  | (Failed e, w) => (Failed e, w) | (Panicked p, w) => (Panicked p, w)
  | (Done _, w) =>
  let d := set_unpacked_size (w_ds w) (Some (unpacked_size + a_len (w_acc w))) in
  let taken := set_limit (w_src w) (Some packed_size) in
  match src_run (map_io_err ELzma rc_new) taken with
  | (Failed e, s) => (Failed e, mkW2 d (set_limit s None) (w_acc w))
  | (Panicked p, s) => (Panicked p, mkW2 d (set_limit s None) (w_acc w))
  | (Done r, s) =>
      match process_mode FinishMode fuel (mkLw d r s (WAccum (w_acc w))) with
      | (res, x) =>
          (res, mkW2 (l_ds x) (set_limit (l_src x) None)
                     (match l_win x with WAccum a => a | WCirc _ => w_acc w end))
      end
  end end end end end.

Definition parse_uncompressed (reset_dict : bool) (w : w2) : outcome unit * w2 :=
  match w2_src w (src_run (map_io_err ELzma read_u16_be) (w_src w)) with
  | (Failed e, w) => (Failed e, w) | (Panicked p, w) => (Panicked p, w)
  | (Done us16, w) =>
  let unpacked_size := us16 + 1 in
  match (if reset_dict then
           match accum_reset (w_acc w) with (r, a) => (r, mkW2 (w_ds w) (w_src w) a) end
         else (Done tt, w)) with
  | (Failed e, w) => (Failed e, w) | (Panicked p, w) => (Panicked p, w)
  | (Done _, w) =>
  match w2_src w (src_run (map_io_err ELzma (read_exact unpacked_size)) (w_src w)) with
  | (Failed e, w) => (Failed e, w) | (Panicked p, w) => (Panicked p, w)
  | (Done bs, w) => (Done tt, mkW2 (w_ds w) (w_src w) (accum_append_bytes (w_acc w) bs))
  end end end.

Definition l2_body (fuel : positive) (w : w2) : step w2 (outcome unit * w2) :=
  match w2_src w (src_run (map_io_err ELzma read_u8) (w_src w)) with
  | (Failed e, w) => Break (Failed e, w) | (Panicked p, w) => Break (Panicked p, w)
  | (Done status, w) =>
      if status =? 0 then Break (Done tt, w)
      else
        let r := if status =? 1 then parse_uncompressed true w
                 else if status =? 2 then parse_uncompressed false w
                 else parse_lzma fuel status w in
        match r with
        | (Done _, w') => Next w'
        | r' => Break r'
        end
  end.

Definition lzma2_decompress (fuel : positive) (dec : lzma2_decoder) (io0 : io)
  : outcome unit * (lzma2_decoder * io) :=
  let w0 := mkW2 (l2_state dec) (i_src io0) (accum_new (i_snk io0) (USIZE - 1)) in
  match loopN fuel (l2_body fuel) w0 with
  | Next w => (Panicked (PFuel 20), (mkL2 (w_ds w), mkIo (w_src w) (a_snk (w_acc w))))
  | Break (Done _, w) =>
      match accum_finish (w_acc w) with
      | (r, k) => (r, (mkL2 (w_ds w), mkIo (w_src w) k))
      end
  | Break (r, w) => (r, (mkL2 (w_ds w), mkIo (w_src w) (a_snk (w_acc w))))
  end.

(* lib.rs: lzma2_decompress *)
Definition lzma2_decompress_top (fuel : positive) (io0 : io) : outcome unit * io :=
  match lzma2_new with
  | Done dec => let '(r, (_, w)) := lzma2_decompress fuel dec io0 in (r, w)
  | Failed e => (Failed e, io0)
  | Panicked p => (Panicked p, io0)
  end.
