(* Common definitions: bytes and machine words as N, outcomes, error classes,
   panic sites, checked arithmetic mirroring Rust's overflow-checked builds. *)
From Coq Require Export List NArith ZArith Bool Lia.
From Coq Require Export FMapPositive.
Export ListNotations.
Open Scope N_scope.

Arguments N.add : simpl never.
Arguments N.sub : simpl never.
Arguments N.mul : simpl never.
Arguments N.eqb : simpl never.
Arguments N.ltb : simpl never.
Arguments N.leb : simpl never.
Arguments N.shiftl : simpl never.
Arguments N.shiftr : simpl never.
Arguments N.land : simpl never.
Arguments N.lor : simpl never.
Arguments N.lxor : simpl never.
Arguments N.modulo : simpl never.
Arguments N.div : simpl never.
Arguments N.pow : simpl never.
Arguments N.min : simpl never.
Arguments N.max : simpl never.

(* Error classes of lzma_rs::error::Error.  Messages are not modelled. *)
Inductive err := EIo | EHeaderTooShort | ELzma | EXz.

(* Places where the Rust code can panic (overflow-checked build). *)
Inductive panic_site :=
| POverflow (what : N)      (* checked + - * on an unsigned type; [what] names the expression *)
| PIndex (what : N)         (* array / slice / Vec index or range out of bounds *)
| PDivZero (what : N)       (* remainder or division by zero *)
| PAssert (what : N)        (* assert!, unreachable!, copy_from_slice length mismatch *)
| PFuel (what : N).         (* model artefact: fuel exhausted (excluded by theorems) *)

Inductive outcome (A : Type) : Type :=
| Done (a : A) | Failed (e : err) | Panicked (p : panic_site).
Arguments Done {A} a. Arguments Failed {A} e. Arguments Panicked {A} p.

Definition U8 := 256.
Definition U16 := 65536.
Definition U32 := 4294967296.
Definition U64 := 18446744073709551616.
Definition USIZE := U64.            (* 64-bit target *)
Definition M32 (x : N) := N.land x 4294967295.
Definition M64 (x : N) := N.land x 18446744073709551615.
Definition M8 (x : N) := N.land x 255.

Definition b2n (b : bool) : N := if b then 1 else 0.

(* little / big endian numerals *)
Fixpoint le_num (l : list N) : N := match l with [] => 0 | b :: t => b + 256 * le_num t end.
Fixpoint be_num_acc (acc : N) (l : list N) : N := match l with [] => acc | b :: t => be_num_acc (acc * 256 + b) t end.
Definition be_num := be_num_acc 0.
(* List.rev is quadratic; the model uses the linear version everywhere *)
Definition lrev {A} (l : list A) : list A := rev_append l [].
Lemma lrev_rev {A} (l : list A) : lrev l = rev l.
Proof. unfold lrev. symmetry. apply rev_alt. Qed.

Fixpoint le_bytes (n : nat) (v : N) : list N :=
  match n with O => [] | S n' => N.land v 255 :: le_bytes n' (N.shiftr v 8) end.
Definition be_bytes (n : nat) (v : N) : list N := lrev (le_bytes n v).

(* finite maps N -> N used for probability tables and window buffers *)
Module PM := PositiveMap.
Definition nmap := PM.t N.
Definition nm_empty : nmap := PM.empty N.
Definition nm_get (m : nmap) (i : N) (d : N) : N :=
  match PM.find (N.succ_pos i) m with Some v => v | None => d end.
Definition nm_set (m : nmap) (i v : N) : nmap := PM.add (N.succ_pos i) v m.

(* list helpers on N lengths *)
Definition nlen {A} (l : list A) : N := N.of_nat (length l).
Definition nfirstn {A} (n : N) (l : list A) : list A := firstn (N.to_nat n) l.
Definition nskipn {A} (n : N) (l : list A) : list A := skipn (N.to_nat n) l.
