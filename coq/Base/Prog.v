(* Programs over an effect signature, interpreted by pure handlers on a state.
   A handler may answer, fail with an error, or panic; the state at the point
   of failure is kept (the Rust objects survive an Err). *)
From LZ Require Import Base.Prelude.
Set Implicit Arguments.

Section Free.
  Variable E : Type -> Type.

  Inductive prog (A : Type) : Type :=
  | Ret (a : A)
  | Fail (e : err)
  | Panic (p : panic_site)
  | Vis (X : Type) (o : E X) (k : X -> prog A).
  Arguments Ret {A} a. Arguments Fail {A} e. Arguments Panic {A} p.

  Fixpoint bind {A B} (p : prog A) (f : A -> prog B) : prog B :=
    match p with
    | Ret a => f a
    | Fail e => Fail e
    | Panic s => Panic s
    | Vis o k => Vis o (fun x => bind (k x) f)
    end.

  Definition call {X} (o : E X) : prog X := Vis o (fun x => Ret x).

  (* handler result *)
  Inductive hres (X S : Type) := HOk (x : X) (s : S) | HErr (e : err) (s : S) | HPanic (p : panic_site) (s : S).
  Arguments HOk {X S} x s. Arguments HErr {X S} e s. Arguments HPanic {X S} p s.

  Definition handler (S : Type) := forall X, E X -> S -> hres X S.

  Fixpoint interp {S A} (h : handler S) (p : prog A) (s : S) : outcome A * S :=
    match p with
    | Ret a => (Done a, s)
    | Fail e => (Failed e, s)
    | Panic w => (Panicked w, s)
    | Vis o k =>
        match h _ o s with
        | HOk x s' => interp h (k x) s'
        | HErr e s' => (Failed e, s')
        | HPanic w s' => (Panicked w, s')
        end
    end.
End Free.

Arguments Ret {E A} a. Arguments Fail {E A} e. Arguments Panic {E A} p.
Arguments Vis {E A X} o k.
Arguments bind {E A B} p f.
Arguments call {E X} o.
Arguments interp {E S A} h p s.
Arguments HOk {X S} x s. Arguments HErr {X S} e s. Arguments HPanic {X S} p s.

Declare Scope prog_scope.
Delimit Scope prog_scope with prog.
Notation "x <- p ;; q" := (bind p (fun x => q)) (at level 61, p at next level, right associativity) : prog_scope.
Notation "' pat <- p ;; q" := (bind p (fun x => match x with pat => q end))
  (at level 61, pat pattern, p at next level, right associativity) : prog_scope.
Notation "p ;;; q" := (bind p (fun _ => q)) (at level 61, right associativity) : prog_scope.

(* the state-and-outcome monad used for the loops that the Rust code writes
   over concrete objects *)
Definition M (S A : Type) := S -> outcome A * S.
Definition mret {S A} (a : A) : M S A := fun s => (Done a, s).
Definition mfail {S A} (e : err) : M S A := fun s => (Failed e, s).
Definition mpanic {S A} (p : panic_site) : M S A := fun s => (Panicked p, s).
Definition mbind {S A B} (m : M S A) (f : A -> M S B) : M S B :=
  fun s => match m s with
           | (Done a, s') => f a s'
           | (Failed e, s') => (Failed e, s')
           | (Panicked p, s') => (Panicked p, s')
           end.
Definition mget {S} : M S S := fun s => (Done s, s).
Definition mput {S} (s : S) : M S unit := fun _ => (Done tt, s).
Declare Scope m_scope.
Delimit Scope m_scope with M.
Notation "x <- p ;; q" := (mbind p (fun x => q)) (at level 61, p at next level, right associativity) : m_scope.
Notation "' pat <- p ;; q" := (mbind p (fun x => match x with pat => q end))
  (at level 61, pat pattern, p at next level, right associativity) : m_scope.
Notation "p ;;; q" := (mbind p (fun _ => q)) (at level 61, right associativity) : m_scope.

(* Loops of the Rust code whose trip count is data dependent run on binary
   fuel: [loopN p body s] iterates [body] at most [p] times. *)
Inductive step (S R : Type) := Next (s : S) | Break (r : R).
Arguments Next {S R} s. Arguments Break {S R} r.
Fixpoint loopN {S R} (p : positive) (body : S -> step S R) (s : S) : step S R :=
  match p with
  | xH => body s
  | xO p' => match loopN p' body s with Next s' => loopN p' body s' | Break r => Break r end
  | xI p' => match body s with
             | Next s' => match loopN p' body s' with Next s'' => loopN p' body s'' | Break r => Break r end
             | Break r => Break r
             end
  end.
Definition big_fuel : positive := 4611686018427387904%positive.
