(* Entry points of the executable model, specialised to the executable CRCs,
   in the shape the case-file driver (ocaml/driver.ml) calls them. *)
From LZ Require Import Base.Prelude Base.Prog Model.Io Model.Tables Model.LzBuffer Model.RangeDec
  Model.Lzma Model.Lzma2 Model.Crc Model.Xz Model.Stream Model.Enc Format.RefEnc Format.Lzma2Fmt.

Definition cyc (l : list N) : N -> N :=
  match l with
  | [] => frag_all
  | _ => fun k => nth (N.to_nat (k mod nlen l)) l 1
  end.

Record env := mkEnv { ev_frag : list N; ev_rfail : option N; ev_accept : list N; ev_wfail : option N; ev_ffail : bool }.
Definition env_io (e : env) (data : list N) : io :=
  mkIo (src_of data (cyc (ev_frag e)) (ev_rfail e)) (snk_new (cyc (ev_accept e)) (ev_wfail e) (ev_ffail e)).

Record result := mkResult { r_verdict : outcome unit; r_out : list N; r_pos : N; r_flushes : N; r_refills : N; r_wcalls : N }.
Definition result_of (r : outcome unit * io) : result :=
  mkResult (fst r) (snk_bytes (i_snk (snd r))) (s_pos (i_src (snd r))) (k_flushes (i_snk (snd r)))
           (s_refills (i_src (snd r))) (k_calls (i_snk (snd r))).

Definition api_lzma_dec (o : options) (e : env) (data : list N) : result :=
  result_of (lzma_decompress big_fuel o (env_io e data)).
Definition api_lzma2_dec (e : env) (data : list N) : result :=
  result_of (lzma2_decompress_top big_fuel (env_io e data)).
Definition api_xz_dec (e : env) (data : list N) : result :=
  result_of (xz_decompress crc32_exec crc64_exec big_fuel (env_io e data)).
Definition api_lzma_enc (o : enc_unpacked) (e : env) (data : list N) : result :=
  result_of (lzma_compress big_fuel o (env_io e data)).
Definition api_lzma2_enc (e : env) (data : list N) : result :=
  result_of (lzma2_compress big_fuel (env_io e data)).
Definition api_xz_enc (e : env) (data : list N) : result :=
  result_of (xz_compress crc32_exec big_fuel (env_io e data)).

(* raw decoders *)
Definition api_raw_lzma_new (lc_ lp_ pb_ dict : N) (size : option N) (mem : option N) : outcome lzma_decoder :=
  lzma_decoder_new (mkParams (mkProps lc_ lp_ pb_) dict size) mem.
Definition api_raw_lzma_dec (d : lzma_decoder) (e : env) (data : list N) : result * lzma_decoder :=
  let '(r, (d', w)) := lzma_decoder_decompress big_fuel d (env_io e data) in (result_of (r, w), d').
Definition api_raw_lzma2_dec (d : lzma2_decoder) (e : env) (data : list N) : result * lzma2_decoder :=
  let '(r, (d', w)) := lzma2_decompress big_fuel d (env_io e data) in (result_of (r, w), d').

(* streaming decoder *)
Definition api_stream_new (o : options) (e : env) : stream :=
  stream_new o (snk_new (cyc (ev_accept e)) (ev_wfail e) (ev_ffail e)).
Definition api_stream_out (s : stream) : list N := snk_bytes (stream_sink s).

(* reference encoders of the format theory *)
Definition api_ref_lzma := enc_lzma_gen.
Definition api_ref_payload := enc_payload_gen.
Definition api_ref_lzma2 := ser2_gen.
Definition api_crc32 := crc32_exec.
Definition api_crc64 := crc64_exec.

(* used by the thorough tier to cross-check the extracted OCaml runner against evaluation inside Coq *)
Definition verdict_code (o : outcome unit) : N := match o with Done _ => 0 | Failed _ => 1 | Panicked _ => 2 end.
Fixpoint list_eqb (a b : list N) : bool :=
  match a, b with
  | [], [] => true
  | x :: a', y :: b' => (x =? y) && list_eqb a' b'
  | _, _ => false
  end.
Definition result_agrees (r : result) (v : N) (out : list N) (pos : N) : bool :=
  (verdict_code (r_verdict r) =? v) && list_eqb (r_out r) out && (r_pos r =? pos).
