From LZ Require Import Extract.Api Model.Stream Model.Lzma Model.Lzma2 Model.Enc Format.RefEnc Format.Lzma2Fmt Base.Prelude.
Require Extraction.
Require Import ExtrOcamlBasic.
Extraction Language OCaml.
Extraction "model.ml"
  api_lzma_dec api_lzma2_dec api_xz_dec api_lzma_enc api_lzma2_enc api_xz_enc
  api_raw_lzma_new api_raw_lzma_dec api_raw_lzma2_dec lzma_decoder_reset lzma2_new lzma2_reset
  api_stream_new api_stream_out stream_write stream_flush stream_finish
  api_ref_lzma api_ref_payload api_ref_lzma2 api_crc32 api_crc64 mkEnv mkOptions.
