(* Format theory, independent of the decoder's control flow: LZ77 symbol
   programs and their meaning ([sem]), the LZMA binarisation of symbols into
   (context, bit) events, and the ideal (unbounded precision) range encoder.
   [enc_lzma] is the reference encoder. *)
From LZ Require Import Base.Prelude Model.Tables.

(* ---------- symbol programs ---------- *)
Inductive sym :=
| Lit (b : N)
| Match (dist len : N)       (* new distance: 1 <= dist, 2 <= len <= 273 *)
| ShortRep                   (* one byte at the most recent distance *)
| Rep (i : N) (len : N)      (* repeat distance number i (0..3), 2 <= len <= 273 *)
| EndMarker.

(* history, most recent byte first; repeat distances stored minus one, as the format does *)
Record hist := mkHist { h_bytes : list N; h_len : N; h_r0 : N; h_r1 : N; h_r2 : N; h_r3 : N }.
Definition hist0 : hist := mkHist [] 0 0 0 0 0.

Fixpoint copy_back (n : nat) (d : nat) (h : list N) : list N :=
  match n with O => h | S n' => copy_back n' d (nth d h 0 :: h) end.

(* window: how many bytes back a copy may reach (dictionary size; for LZMA2 unbounded) *)
Definition can_copy (window : option N) (h : hist) (dist : N) : bool :=
  (1 <=? dist) && (dist <=? h_len h) && (match window with Some d => dist <=? d | None => true end).
Definition len_ok (len : N) : bool := (2 <=? len) && (len <=? 273).

Definition do_copy (h : hist) (dist len : N) (r0 r1 r2 r3 : N) : hist :=
  mkHist (copy_back (N.to_nat len) (N.to_nat (dist - 1)) (h_bytes h)) (h_len h + len) r0 r1 r2 r3.

(* one symbol; EndMarker is handled by [sem] *)
Definition sem_sym (window : option N) (h : hist) (s : sym) : option hist :=
  match s with
  | Lit b => if b <? 256 then Some (mkHist (b :: h_bytes h) (h_len h + 1) (h_r0 h) (h_r1 h) (h_r2 h) (h_r3 h)) else None
  | Match dist len =>
      if can_copy window h dist && len_ok len && (dist <=? 4294967295)
      then Some (do_copy h dist len (dist - 1) (h_r0 h) (h_r1 h) (h_r2 h)) else None
  | ShortRep =>
      if can_copy window h (h_r0 h + 1) then Some (do_copy h (h_r0 h + 1) 1 (h_r0 h) (h_r1 h) (h_r2 h) (h_r3 h)) else None
  | Rep i len =>
      let '(d, r0, r1, r2, r3) :=
        if i =? 0 then (h_r0 h, h_r0 h, h_r1 h, h_r2 h, h_r3 h)
        else if i =? 1 then (h_r1 h, h_r1 h, h_r0 h, h_r2 h, h_r3 h)
        else if i =? 2 then (h_r2 h, h_r2 h, h_r0 h, h_r1 h, h_r3 h)
        else (h_r3 h, h_r3 h, h_r0 h, h_r1 h, h_r2 h) in
      if (i <=? 3) && can_copy window h (d + 1) && len_ok len then Some (do_copy h (d + 1) len r0 r1 r2 r3) else None
  | EndMarker => None
  end.

(* meaning of a program: the output bytes, and whether it ended with the marker *)
Fixpoint sem_from (window : option N) (h : hist) (p : list sym) : option (hist * bool) :=
  match p with
  | [] => Some (h, false)
  | [EndMarker] => Some (h, true)
  | s :: p' => match sem_sym window h s with Some h' => sem_from window h' p' | None => None end
  end.
Definition sem (window : option N) (p : list sym) : option (list N) :=
  match sem_from window hist0 p with Some (h, _) => Some (lrev (h_bytes h)) | None => None end.

(* ---------- binarisation: symbols to (context, bit) events ---------- *)
Inductive ev := EvBit (c : cell) (b : bool) | EvDirect (b : bool).

Definition nbit (v i : N) : bool := N.testbit v i.

(* MSB-first bit tree of [nb] bits *)
Fixpoint tree_evs (nb : nat) (mk : N -> cell) (v m : N) : list ev :=
  match nb with
  | O => []
  | S k => let b := nbit v (N.of_nat k) in
           EvBit (mk m) b :: tree_evs k mk v (2 * m + b2n b)
  end.
(* LSB-first (reverse) bit tree *)
Fixpoint rtree_evs (nb : nat) (i : N) (mk : N -> cell) (offset v m : N) : list ev :=
  match nb with
  | O => []
  | S k => let b := nbit v i in
           EvBit (mk (offset + m)) b :: rtree_evs k (i + 1) mk offset v (2 * m + b2n b)
  end.
Fixpoint direct_evs (nb : nat) (v : N) : list ev :=
  match nb with O => [] | S k => EvDirect (nbit v (N.of_nat k)) :: direct_evs k v end.

Definition len_evs (rep : bool) (pos_state l : N) : list ev :=   (* l = len - 2 *)
  if l <? 8 then EvBit (CLen rep LChoice) false :: tree_evs 3 (fun i => CLen rep (LLow pos_state i)) l 1
  else if l <? 16 then
    EvBit (CLen rep LChoice) true :: EvBit (CLen rep LChoice2) false ::
    tree_evs 3 (fun i => CLen rep (LMid pos_state i)) (l - 8) 1
  else
    EvBit (CLen rep LChoice) true :: EvBit (CLen rep LChoice2) true ::
    tree_evs 8 (fun i => CLen rep (LHigh i)) (l - 16) 1.

Definition dist_slot (d0 : N) : N :=
  if d0 <? 4 then d0 else let nb := N.log2 d0 in 2 * nb + b2n (nbit d0 (nb - 1)).

Definition dist_evs (l d0 : N) : list ev :=         (* l = len - 2, d0 = dist - 1 *)
  let len_state := if 3 <? l then 3 else l in
  let slot := dist_slot d0 in
  tree_evs 6 (fun i => CPosSlot len_state i) slot 1 ++
  if slot <? 4 then []
  else
    let ndb := N.shiftr slot 1 - 1 in
    let base := N.shiftl (2 + N.land slot 1) ndb in
    let rem := d0 - base in
    if slot <? 14 then rtree_evs (N.to_nat ndb) 0 (fun i => CPosDec i) (base - slot) rem 1
    else direct_evs (N.to_nat (ndb - 4)) (N.shiftr rem 4) ++
         rtree_evs 4 0 (fun i => CAlign i) 0 (N.land rem 15) 1.

Fixpoint lit_evs (nb : nat) (row byte match_byte : N) (matched : bool) (m : N) : list ev :=
  match nb with
  | O => []
  | S k =>
      let b := nbit byte (N.of_nat k) in
      if matched then
        let mb := nbit match_byte (N.of_nat k) in
        EvBit (CLit row (256 * (1 + b2n mb) + m)) b :: lit_evs k row byte match_byte (Bool.eqb mb b) (2 * m + b2n b)
      else EvBit (CLit row m) b :: lit_evs k row byte match_byte false (2 * m + b2n b)
  end.

Record fprops := mkFProps { f_lc : N; f_lp : N; f_pb : N }.

(* the LZMA state automaton *)
Definition st_lit (s : N) : N := if s <? 4 then 0 else if s <? 10 then s - 3 else s - 6.
Definition st_match (s : N) : N := if s <? 7 then 7 else 10.
Definition st_rep (s : N) : N := if s <? 7 then 8 else 11.
Definition st_shortrep (s : N) : N := if s <? 7 then 9 else 11.

Definition sym_evs (p : fprops) (st : N) (h : hist) (s : sym) : list ev * N :=
  let pos_state := N.land (h_len h) (2 ^ f_pb p - 1) in
  let im := CIsMatch (16 * st + pos_state) in
  match s with
  | Lit b =>
      let prev := match h_bytes h with [] => 0 | x :: _ => x end in
      let row := N.shiftl (N.land (h_len h) (2 ^ f_lp p - 1)) (f_lc p) + N.shiftr prev (8 - f_lc p) in
      let mbyte := nth (N.to_nat (h_r0 h)) (h_bytes h) 0 in
      (EvBit im false :: lit_evs 8 row b mbyte (7 <=? st) 1, st_lit st)
  | Match dist len =>
      (EvBit im true :: EvBit (CIsRep st) false :: len_evs false pos_state (len - 2) ++ dist_evs (len - 2) (dist - 1),
       st_match st)
  | EndMarker =>
      (EvBit im true :: EvBit (CIsRep st) false :: len_evs false pos_state 0 ++ dist_evs 0 4294967295,
       st_match st)
  | ShortRep =>
      ([EvBit im true; EvBit (CIsRep st) true; EvBit (CIsRepG0 st) false; EvBit (CIsRep0Long (16 * st + pos_state)) false],
       st_shortrep st)
  | Rep i len =>
      (EvBit im true :: EvBit (CIsRep st) true ::
       (if i =? 0 then [EvBit (CIsRepG0 st) false; EvBit (CIsRep0Long (16 * st + pos_state)) true]
        else if i =? 1 then [EvBit (CIsRepG0 st) true; EvBit (CIsRepG1 st) false]
        else if i =? 2 then [EvBit (CIsRepG0 st) true; EvBit (CIsRepG1 st) true; EvBit (CIsRepG2 st) false]
        else [EvBit (CIsRepG0 st) true; EvBit (CIsRepG1 st) true; EvBit (CIsRepG2 st) true]) ++
       len_evs true pos_state (len - 2),
       st_rep st)
  end.

(* ---------- the ideal range encoder ---------- *)
Record ienc := mkIenc { i_low : N; i_range : N; i_norms : N }.
Definition ienc0 : ienc := mkIenc 0 4294967295 0.
Definition ienc_norm (e : ienc) : ienc :=
  if i_range e <? 16777216 then mkIenc (i_low e * 256) (i_range e * 256) (i_norms e + 1) else e.
Definition ienc_bit (e : ienc) (prob : N) (b : bool) : ienc :=
  let bound := (i_range e / 2048) * prob in
  ienc_norm (if b then mkIenc (i_low e + bound) (i_range e - bound) (i_norms e)
             else mkIenc (i_low e) bound (i_norms e)).
Definition ienc_direct (e : ienc) (b : bool) : ienc :=
  let r := i_range e / 2 in
  ienc_norm (mkIenc (if b then i_low e + r else i_low e) r (i_norms e)).
Definition prob_upd (prob : N) (b : bool) : N :=
  if b then prob - prob / 32 else prob + (2048 - prob) / 32.

(* events are coded with the adaptive probability of their context *)
Definition ienc_ev (st : ienc * ptabs) (e : ev) : ienc * ptabs :=
  let '(ie, t) := st in
  match e with
  | EvBit c b =>
      let prob := match cell_get t c with Some v => v | None => 1024 end in
      (ienc_bit ie prob b, cell_set t c (prob_upd prob b))
  | EvDirect b => (ienc_direct ie b, t)
  end.

(* the n+5 bytes of the canonical flush: a zero byte, then the numeral of low *)
Definition ienc_bytes (e : ienc) (delta : N) : list N :=
  0 :: be_bytes (N.to_nat (i_norms e + 4)) (i_low e + delta).

(* ---------- the reference encoder ---------- *)
Record estate := mkEstate { es_tabs : ptabs; es_st : N; es_hist : hist }.
Definition estate0 (p : fprops) : estate := mkEstate (ptabs_new (2 ^ (f_lc p + f_lp p))) 0 hist0.

(* encode a program from a given coder state; None if the program is ill-formed.
   With [lenient] an ill-formed symbol is still encoded (its events are defined by
   the binarisation alone) and encoding stops there: this produces the streams
   that a decoder must reject at that point. *)
Fixpoint enc_syms_gen (lenient : bool) (p : fprops) (window : option N) (ie : ienc) (s : estate) (prog : list sym)
  : option (ienc * estate) :=
  match prog with
  | [] => Some (ie, s)
  | x :: rest =>
      let '(evs, st') := sym_evs p (es_st s) (es_hist s) x in
      let '(ie', t') := fold_left ienc_ev evs (ie, es_tabs s) in
      match x with
      | EndMarker => match rest with
                     | [] => Some (ie', mkEstate t' st' (es_hist s))
                     | _ => if lenient then Some (ie', mkEstate t' st' (es_hist s)) else None
                     end
      | _ =>
          match sem_sym window (es_hist s) x with
          | Some h' => enc_syms_gen lenient p window ie' (mkEstate t' st' h') rest
          | None => if lenient then Some (ie', mkEstate t' st' (es_hist s)) else None
          end
      end
  end.
Definition enc_syms := enc_syms_gen false.

(* range-coded payload of a whole program, and the bytes it produces *)
Definition enc_payload_gen (lenient : bool) (p : fprops) (window : option N) (prog : list sym) (delta : N) : option (list N * list N) :=
  match enc_syms_gen lenient p window ienc0 (estate0 p) prog with
  | Some (ie, s) => Some (ienc_bytes ie delta, lrev (h_bytes (es_hist s)))
  | None => None
  end.

Definition enc_payload := enc_payload_gen false.

Definition props_byte (p : fprops) : N := f_lc p + 9 * (f_lp p + 5 * f_pb p).

(* a complete .lzma file: 13-byte header (size field given) and payload *)
Definition enc_lzma_gen (lenient : bool) (p : fprops) (dict_field : N) (size_field : N) (prog : list sym) (delta : N) : option (list N * list N) :=
  match enc_payload_gen lenient p (Some (N.max dict_field 4096)) prog delta with
  | Some (bytes, out) => Some (props_byte p :: le_bytes 4 dict_field ++ le_bytes 8 size_field ++ bytes, out)
  | None => None
  end.
Definition enc_lzma := enc_lzma_gen false.
