(* LZMA2 chunk sequences: abstract syntax, serialiser and meaning. *)
From LZ Require Import Base.Prelude Model.Tables Format.RefEnc.

Inductive chunk :=
| CRaw (reset_dict : bool) (data : list N)                       (* control 0x01 / 0x02 *)
| CLzma (cls : N) (np : option fprops) (prog : list sym) (delta : N).
   (* cls 0: nothing reset, 1: state, 2: state + new properties, 3: state + properties + dictionary *)

Record l2state := mkL2S { l2_props : fprops; l2_es : estate; l2_flushed : list N (* reversed *) }.
Definition l2state0 : l2state := mkL2S (mkFProps 0 0 0) (estate0 (mkFProps 0 0 0)) [].

Definition hist_clear (h : hist) : hist := mkHist [] 0 (h_r0 h) (h_r1 h) (h_r2 h) (h_r3 h).
Definition hist_reps0 (h : hist) : hist := mkHist (h_bytes h) (h_len h) 0 0 0 0.
Fixpoint push_bytes (bs : list N) (h : list N) : list N := match bs with [] => h | b :: t => push_bytes t (b :: h) end.

(* serialise one chunk; None when the chunk is not well formed *)
Definition ser_chunk_gen (lenient : bool) (s : l2state) (c : chunk) : option (list N * l2state) :=
  match c with
  | CRaw rd data =>
      let n := nlen data in
      if (1 <=? n) && (n <=? 65536) && forallb (fun b => b <? 256) data then
        let es := l2_es s in
        let h := es_hist es in
        let '(flushed, h1) := if rd then (h_bytes h ++ l2_flushed s, hist_clear h) else (l2_flushed s, h) in
        let h2 := mkHist (push_bytes data (h_bytes h1)) (h_len h1 + n) (h_r0 h1) (h_r1 h1) (h_r2 h1) (h_r3 h1) in
        Some ((if rd then 1 else 2) :: be_bytes 2 (n - 1) ++ data,
              mkL2S (l2_props s) (mkEstate (es_tabs es) (es_st es) h2) flushed)
      else None
  | CLzma cls np prog delta =>
      if negb (cls <=? 3) then None else
      let es := l2_es s in
      let h := es_hist es in
      let '(flushed, h1) := if cls =? 3 then (h_bytes h ++ l2_flushed s, hist_clear h) else (l2_flushed s, h) in
      let props' := match np with Some p => (if 2 <=? cls then p else l2_props s) | None => l2_props s end in
      let props_ok := match np with
                      | Some p => (2 <=? cls) && (f_lc p + f_lp p <=? 4) && (f_pb p <=? 4)
                      | None => cls <=? 1 end in
      if negb props_ok then None else
      let es1 := if 1 <=? cls then mkEstate (ptabs_new (2 ^ (f_lc props' + f_lp props'))) 0 (hist_reps0 h1)
                 else mkEstate (es_tabs es) (es_st es) h1 in
      match enc_syms_gen lenient props' None ienc0 es1 prog with
      | None => None
      | Some (ie, es2) =>
          (* a lenient encoding stops at an ill-formed symbol: declare one byte more so that the decoder reaches it *)
          let unpacked := h_len (es_hist es2) - h_len h1 + (if lenient then 1 else 0) in
          let payload := ienc_bytes ie delta in
          let packed := nlen payload in
          if (1 <=? unpacked) && (unpacked <=? 2097152) && (packed <=? 65536) then
            Some ((128 + 32 * cls + N.shiftr (unpacked - 1) 16) ::
                  be_bytes 2 (N.land (unpacked - 1) 65535) ++ be_bytes 2 (packed - 1) ++
                  (if 2 <=? cls then [props_byte props'] else []) ++ payload,
                  mkL2S props' es2 flushed)
          else None
      end
  end.

Fixpoint ser_chunks_gen (lenient : bool) (s : l2state) (cs : list chunk) : option (list N * l2state) :=
  match cs with
  | [] => Some ([], s)
  | c :: rest =>
      match ser_chunk_gen lenient s c with
      | None => None
      | Some (b1, s1) =>
          match ser_chunks_gen lenient s1 rest with
          | None => None
          | Some (b2, s2) => Some (b1 ++ b2, s2)
          end
      end
  end.

(* the LZMA2 stream (with the end control byte) and the bytes it defines *)
Definition ser_chunk := ser_chunk_gen false.
Definition ser_chunks := ser_chunks_gen false.
Definition ser2_gen (lenient : bool) (cs : list chunk) : option (list N * list N) :=
  match ser_chunks_gen lenient l2state0 cs with
  | Some (bytes, s) => Some (bytes ++ [0], lrev (h_bytes (es_hist (l2_es s)) ++ l2_flushed s))
  | None => None
  end.
Definition ser2 := ser2_gen false.
