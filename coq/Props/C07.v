(* C07 - Decoders are total: no panic (decoder core), bounded input per symbol
   This file only pins statements; the proofs live in the files named below. *)
From LZ Require Import Base.Prelude Base.Prog Model.Io Model.Tables Model.LzBuffer Model.RangeDec Model.Lzma Proofs.NoPanic Proofs.NoPanicWorld Proofs.Bound20 Proofs.Bound20Run.

(* for ARBITRARY input bytes: one symbol step on a world satisfying the invariant never panics and re-establishes the invariant   [proved as process_next_inner_world in Proofs/NoPanicWorld.v] *)
Theorem C07_symbol_step_never_panics : forall p y upd w,
  lc p <= 8 -> lp p <= 4 -> pb p <= 4 -> sym32 y -> WInv (lc p + lp p) w ->
  match interp dec_h (process_next_inner p y upd) w with
  | (Done (st, y'), w') => sym32 y' /\ WInv (lc p + lp p) w'
  | (Failed _, w') => WInv (lc p + lp p) w'
  | (Panicked _, _) => False
  end.
Proof. exact process_next_inner_world. Qed.
Check C07_symbol_step_never_panics : forall p y upd w,
  lc p <= 8 -> lp p <= 4 -> pb p <= 4 -> sym32 y -> WInv (lc p + lp p) w ->
  match interp dec_h (process_next_inner p y upd) w with
  | (Done (st, y'), w') => sym32 y' /\ WInv (lc p + lp p) w'
  | (Failed _, w') => WInv (lc p + lp p) w'
  | (Panicked _, _) => False
  end.
Print Assumptions C07_symbol_step_never_panics.

(* the same for run_sym on the objects of process_mode   [proved as run_sym_safe in Proofs/NoPanicWorld.v] *)
Theorem C07_run_sym_safe : forall upd w,
  LwInv w ->
  match run_sym upd w with
  | (Panicked _, _) => False
  | (_, w') => LwInv w'
  end.
Proof. exact run_sym_safe. Qed.
Check C07_run_sym_safe : forall upd w,
  LwInv w ->
  match run_sym upd w with
  | (Panicked _, _) => False
  | (_, w') => LwInv w'
  end.
Print Assumptions C07_run_sym_safe.

(* the invariant holds for a freshly constructed decoder, any dictionary size > 0, any memory limit   [proved as LwInv_init in Proofs/NoPanicWorld.v] *)
Theorem C07_invariant_holds_initially : forall p us d r s k dict mem,
  dstate_new p us = (Done d, tt) -> 0 < dict -> RcInv r -> SrcBytes s ->
  LwInv (mkLw d r s (WCirc (circ_new k dict mem))).
Proof. exact LwInv_init. Qed.
Check C07_invariant_holds_initially : forall p us d r s k dict mem,
  dstate_new p us = (Done d, tt) -> 0 < dict -> RcInv r -> SrcBytes s ->
  LwInv (mkLw d r s (WCirc (circ_new k dict mem))).
Print Assumptions C07_invariant_holds_initially.

(* range decoder: no overflow / underflow for any source (any fragmentation, faults, limits)   [proved as rc_decode_bit_safe in Proofs/NoPanic.v] *)
Theorem C07_rc_decode_bit_safe : forall r p upd s,
  RcInv r -> p <= 2047 -> SrcBytes s ->
  match src_run (rc_decode_bit r p upd) s with
  | (Done (b, p', r'), s') =>
  RcInv r' /\ p' <= 2047 /\ (31 <= p <= 2017 -> 31 <= p' <= 2017) /\ SrcBytes s'
  | (Failed _, s') => SrcBytes s'
  | (Panicked _, _) => False
  end.
Proof. exact rc_decode_bit_safe. Qed.
Check C07_rc_decode_bit_safe : forall r p upd s,
  RcInv r -> p <= 2047 -> SrcBytes s ->
  match src_run (rc_decode_bit r p upd) s with
  | (Done (b, p', r'), s') =>
  RcInv r' /\ p' <= 2047 /\ (31 <= p <= 2017 -> 31 <= p' <= 2017) /\ SrcBytes s'
  | (Failed _, s') => SrcBytes s'
  | (Panicked _, _) => False
  end.
Print Assumptions C07_rc_decode_bit_safe.

(* probabilities stay in [31, 2017]   [proved as prob_step_range in Proofs/NoPanic.v] *)
Theorem C07_prob_range : forall p,
  31 <= p <= 2017 ->
  (31 <= p + N.shiftr (2048 - p) 5 <= 2017) /\ (31 <= p - N.shiftr p 5 <= 2017).
Proof. exact prob_step_range. Qed.
Check C07_prob_range : forall p,
  31 <= p <= 2017 ->
  (31 <= p + N.shiftr (2048 - p) 5 <= 2017) /\ (31 <= p - N.shiftr p 5 <= 2017).
Print Assumptions C07_prob_range.

(* every probability-table index is in bounds   [proved as process_next_inner_cells in Proofs/NoPanic.v] *)
Theorem C07_cells_in_bounds : forall p y upd,
  lc p <= 8 -> lp p <= 4 -> pb p <= 4 -> y_state y < 12 ->
  cells_ok (fun c => forall t, TabsStd t (lc p + lp p) -> cell_get t c <> None) (process_next_inner p y upd).
Proof. exact process_next_inner_cells. Qed.
Check C07_cells_in_bounds : forall p y upd,
  lc p <= 8 -> lp p <= 4 -> pb p <= 4 -> y_state y < 12 ->
  cells_ok (fun c => forall t, TabsStd t (lc p + lp p) -> cell_get t c <> None) (process_next_inner p y upd).
Print Assumptions C07_cells_in_bounds.

(* a symbol step advances the source by at most MAX_REQUIRED_INPUT = 20 bytes   [proved as run_sym_pos_20 in Proofs/Bound20Run.v] *)
Theorem C07_symbol_consumes_at_most_20_bytes : forall upd (w : lw),
  T24 <= r_range (l_rc w) < T32 -> tabs_ok (ds_tabs (l_ds w)) ->
  s_pos (l_src (snd (run_sym upd w))) <= s_pos (l_src w) + MAX_REQUIRED_INPUT.
Proof. exact run_sym_pos_20. Qed.
Check C07_symbol_consumes_at_most_20_bytes : forall upd (w : lw),
  T24 <= r_range (l_rc w) < T32 -> tabs_ok (ds_tabs (l_ds w)) ->
  s_pos (l_src (snd (run_sym upd w))) <= s_pos (l_src w) + MAX_REQUIRED_INPUT.
Print Assumptions C07_symbol_consumes_at_most_20_bytes.

From LZ Require Import Model.Lzma2 Model.Xz Model.Stream Proofs.StreamLatch Proofs.NoPanicLoops Proofs.NoPanicLzma2 Proofs.NoPanicStream Proofs.NoPanicXz Proofs.FuelAdequacy.

(* whole entry point, ARBITRARY input bytes, any fragmentation / faults / limits / options / memlimit: the only conceivable panic is the model artefact PFuel (fuel exhausted)   [proved as lzma_decompress_no_panic in Proofs/NoPanicLoops.v] *)
Theorem C07_lzma_decompress_never_panics :
  forall (fuel : BinNums.positive) (o : Lzma.options) (w : Io.io),
  NoPanic.SrcBytes (Io.i_src w) ->
  let (o0, w') := Lzma.lzma_decompress fuel o w in
  match o0 with
  | Prelude.Panicked p =>
      p = Prelude.PFuel (BinNums.Npos (BinNums.xO (BinNums.xI (BinNums.xO BinNums.xH)))) /\
      NoPanic.SrcBytes (Io.i_src w')
  | _ => NoPanic.SrcBytes (Io.i_src w')
  end.
Proof. exact (@lzma_decompress_no_panic). Qed.
Check C07_lzma_decompress_never_panics :
  forall (fuel : BinNums.positive) (o : Lzma.options) (w : Io.io),
  NoPanic.SrcBytes (Io.i_src w) ->
  let (o0, w') := Lzma.lzma_decompress fuel o w in
  match o0 with
  | Prelude.Panicked p =>
      p = Prelude.PFuel (BinNums.Npos (BinNums.xO (BinNums.xI (BinNums.xO BinNums.xH)))) /\
      NoPanic.SrcBytes (Io.i_src w')
  | _ => NoPanic.SrcBytes (Io.i_src w')
  end.
Print Assumptions C07_lzma_decompress_never_panics.

(* termination: with fuel >= 16913 * (input length + 21) the run is never Panicked at all - the decoder terminates on every input (potential: remaining bytes * 2^32 + range)   [proved as lzma_decompress_total in Proofs/FuelAdequacy.v] *)
Theorem C07_lzma_decompress_total :
  forall (fuel : BinNums.positive) (o : Lzma.options) (w : Io.io),
  NoPanic.SrcBytes (Io.i_src w) ->
  BinNat.N.le
    (BinNat.N.mul
       (BinNums.Npos
          (BinNums.xI
             (BinNums.xO
                (BinNums.xO
                   (BinNums.xO
                      (BinNums.xI
                         (BinNums.xO
                            (BinNums.xO
                               (BinNums.xO
                                  (BinNums.xO
                                     (BinNums.xI (BinNums.xO (BinNums.xO (BinNums.xO (BinNums.xO BinNums.xH)))))))))))))))
       (BinNat.N.add (Prelude.nlen (Io.s_rest (Io.i_src w)))
          (BinNums.Npos (BinNums.xI (BinNums.xO (BinNums.xI (BinNums.xO BinNums.xH))))))) 
    (BinNums.Npos fuel) ->
  let (o0, w') := Lzma.lzma_decompress fuel o w in
  match o0 with
  | Prelude.Panicked _ => False
  | _ => NoPanic.SrcBytes (Io.i_src w')
  end.
Proof. exact (@lzma_decompress_total). Qed.
Check C07_lzma_decompress_total :
  forall (fuel : BinNums.positive) (o : Lzma.options) (w : Io.io),
  NoPanic.SrcBytes (Io.i_src w) ->
  BinNat.N.le
    (BinNat.N.mul
       (BinNums.Npos
          (BinNums.xI
             (BinNums.xO
                (BinNums.xO
                   (BinNums.xO
                      (BinNums.xI
                         (BinNums.xO
                            (BinNums.xO
                               (BinNums.xO
                                  (BinNums.xO
                                     (BinNums.xI (BinNums.xO (BinNums.xO (BinNums.xO (BinNums.xO BinNums.xH)))))))))))))))
       (BinNat.N.add (Prelude.nlen (Io.s_rest (Io.i_src w)))
          (BinNums.Npos (BinNums.xI (BinNums.xO (BinNums.xI (BinNums.xO BinNums.xH))))))) 
    (BinNums.Npos fuel) ->
  let (o0, w') := Lzma.lzma_decompress fuel o w in
  match o0 with
  | Prelude.Panicked _ => False
  | _ => NoPanic.SrcBytes (Io.i_src w')
  end.
Print Assumptions C07_lzma_decompress_total.

(* raw LzmaDecoder with any accepted parameters, reusable afterwards   [proved as lzma_decoder_decompress_no_panic in Proofs/NoPanicLoops.v] *)
Theorem C07_raw_decoder_never_panics :
  forall (fuel : BinNums.positive) (dec : Lzma.lzma_decoder) (w : Io.io),
  DecInv dec ->
  NoPanic.SrcBytes (Io.i_src w) ->
  let (o, p0) := Lzma.lzma_decoder_decompress fuel dec w in
  match o with
  | Prelude.Panicked p =>
      let (dec', w') := p0 in
      p = Prelude.PFuel (BinNums.Npos (BinNums.xO (BinNums.xI (BinNums.xO BinNums.xH)))) /\
      DecInv dec' /\ NoPanic.SrcBytes (Io.i_src w')
  | _ => let (dec', w') := p0 in DecInv dec' /\ NoPanic.SrcBytes (Io.i_src w')
  end.
Proof. exact (@lzma_decoder_decompress_no_panic). Qed.
Check C07_raw_decoder_never_panics :
  forall (fuel : BinNums.positive) (dec : Lzma.lzma_decoder) (w : Io.io),
  DecInv dec ->
  NoPanic.SrcBytes (Io.i_src w) ->
  let (o, p0) := Lzma.lzma_decoder_decompress fuel dec w in
  match o with
  | Prelude.Panicked p =>
      let (dec', w') := p0 in
      p = Prelude.PFuel (BinNums.Npos (BinNums.xO (BinNums.xI (BinNums.xO BinNums.xH)))) /\
      DecInv dec' /\ NoPanic.SrcBytes (Io.i_src w')
  | _ => let (dec', w') := p0 in DecInv dec' /\ NoPanic.SrcBytes (Io.i_src w')
  end.
Print Assumptions C07_raw_decoder_never_panics.

(* LZMA2 entry point   [proved as lzma2_decompress_top_no_panic in Proofs/NoPanicLzma2.v] *)
Theorem C07_lzma2_never_panics :
  forall PB : BinNums.N -> Prop,
  (forall b : BinNums.N,
   BinNat.N.lt b
     (BinNums.Npos
        (BinNums.xO
           (BinNums.xO (BinNums.xO (BinNums.xO (BinNums.xO (BinNums.xO (BinNums.xO (BinNums.xO BinNums.xH))))))))) ->
   PB b) ->
  forall (fuel : BinNums.positive) (io0 : Io.io),
  NoPanic.SrcBytes (Io.i_src io0) ->
  SnkBytes PB (Io.i_snk io0) ->
  let (o, w') := lzma2_decompress_top fuel io0 in
  match o with
  | Prelude.Panicked p =>
      (p = Prelude.PFuel (BinNums.Npos (BinNums.xO (BinNums.xI (BinNums.xO BinNums.xH)))) \/
       p = Prelude.PFuel (BinNums.Npos (BinNums.xO (BinNums.xO (BinNums.xI (BinNums.xO BinNums.xH)))))) /\
      NoPanic.SrcBytes (Io.i_src w') /\ SnkBytes PB (Io.i_snk w')
  | _ => NoPanic.SrcBytes (Io.i_src w') /\ SnkBytes PB (Io.i_snk w')
  end.
Proof. exact (@lzma2_decompress_top_no_panic). Qed.
Check C07_lzma2_never_panics :
  forall PB : BinNums.N -> Prop,
  (forall b : BinNums.N,
   BinNat.N.lt b
     (BinNums.Npos
        (BinNums.xO
           (BinNums.xO (BinNums.xO (BinNums.xO (BinNums.xO (BinNums.xO (BinNums.xO (BinNums.xO BinNums.xH))))))))) ->
   PB b) ->
  forall (fuel : BinNums.positive) (io0 : Io.io),
  NoPanic.SrcBytes (Io.i_src io0) ->
  SnkBytes PB (Io.i_snk io0) ->
  let (o, w') := lzma2_decompress_top fuel io0 in
  match o with
  | Prelude.Panicked p =>
      (p = Prelude.PFuel (BinNums.Npos (BinNums.xO (BinNums.xI (BinNums.xO BinNums.xH)))) \/
       p = Prelude.PFuel (BinNums.Npos (BinNums.xO (BinNums.xO (BinNums.xI (BinNums.xO BinNums.xH)))))) /\
      NoPanic.SrcBytes (Io.i_src w') /\ SnkBytes PB (Io.i_snk w')
  | _ => NoPanic.SrcBytes (Io.i_src w') /\ SnkBytes PB (Io.i_snk w')
  end.
Print Assumptions C07_lzma2_never_panics.

(* XZ entry point, arbitrary CRC functions   [proved as xz_decompress_no_panic in Proofs/NoPanicXz.v] *)
Theorem C07_xz_never_panics :
  forall (crc32 crc64 : list BinNums.N -> BinNums.N) (fuel : BinNums.positive),
  m_safe (fun _ : unit => True) (xz_decompress crc32 crc64 fuel).
Proof. exact (@xz_decompress_no_panic). Qed.
Check C07_xz_never_panics :
  forall (crc32 crc64 : list BinNums.N -> BinNums.N) (fuel : BinNums.positive),
  m_safe (fun _ : unit => True) (xz_decompress crc32 crc64 fuel).
Print Assumptions C07_xz_never_panics.

(* streaming decoder: any sequence of write / flush calls followed by finish   [proved as stream_never_panics in Proofs/NoPanicStream.v] *)
Theorem C07_stream_never_panics :
  forall (o : Lzma.options) (k : Io.snk) (cs : list call),
  List.Forall call_bytes cs ->
  List.Forall cres_fuel_only (fst (run_calls (stream_new o k) cs)) /\
  fuel_only (fst (stream_finish (snd (run_calls (stream_new o k) cs)))).
Proof. exact (@stream_never_panics). Qed.
Check C07_stream_never_panics :
  forall (o : Lzma.options) (k : Io.snk) (cs : list call),
  List.Forall call_bytes cs ->
  List.Forall cres_fuel_only (fst (run_calls (stream_new o k) cs)) /\
  fuel_only (fst (stream_finish (snd (run_calls (stream_new o k) cs)))).
Print Assumptions C07_stream_never_panics.

From LZ Require Import Model.Lzma2 Model.Xz Model.Stream Proofs.StreamLatch Proofs.FuelAdequacy2 Proofs.FuelAdequacyXz Proofs.FuelAdequacyXzChain Proofs.FuelAdequacyStream.

(* termination of the LZMA2 decoder: with fuel >= 16913 * (remaining input + 21) the run is never Panicked (chunk loop and per-chunk symbol loop under the Take limit)   [proved as lzma2_decompress_total in Proofs/FuelAdequacy2.v] *)
Theorem C07_lzma2_decompress_total :
  forall (fuel : positive) (io0 : io),
  NoPanic.SrcBytes (i_src io0) ->
  16913 * (nlen (s_rest (i_src io0)) + 21) <= N.pos fuel ->
  let (o, w') := lzma2_decompress_top fuel io0 in
  match o with
  | Panicked _ => False
  | _ => NoPanic.SrcBytes (i_src w') /\ nlen (s_rest (i_src w')) <= nlen (s_rest (i_src io0))
  end.
Proof. exact (@lzma2_decompress_total). Qed.
Check C07_lzma2_decompress_total :
  forall (fuel : positive) (io0 : io),
  NoPanic.SrcBytes (i_src io0) ->
  16913 * (nlen (s_rest (i_src io0)) + 21) <= N.pos fuel ->
  let (o, w') := lzma2_decompress_top fuel io0 in
  match o with
  | Panicked _ => False
  | _ => NoPanic.SrcBytes (i_src w') /\ nlen (s_rest (i_src w')) <= nlen (s_rest (i_src io0))
  end.
Print Assumptions C07_lzma2_decompress_total.

(* termination of the XZ decoder with the same linear fuel when every block reached declares one filter   [proved as xz_decompress_total_single in Proofs/FuelAdequacyXz.v] *)
Theorem C07_xz_decompress_total_single_filter :
  forall (crc32 crc64 : list N -> N) (fuel : positive) (w : io),
  NoPanic.SrcBytes (i_src w) ->
  fuel_for fuel (nlen (s_rest (i_src w))) ->
  (forall (check : check_method) (w0 : io) (hs : N) (w1 : io),
   run_io (header_parse crc32) w = (Done check, w0) ->
   xz_visits crc32 crc64 fuel check w0 hs w1 -> header_single hs w1) ->
  let (o, w') := xz_decompress crc32 crc64 fuel w in
  match o with
  | Panicked _ => False
  | _ => NoPanic.SrcBytes (i_src w')
  end.
Proof. exact (@xz_decompress_total_single). Qed.
Check C07_xz_decompress_total_single_filter :
  forall (crc32 crc64 : list N -> N) (fuel : positive) (w : io),
  NoPanic.SrcBytes (i_src w) ->
  fuel_for fuel (nlen (s_rest (i_src w))) ->
  (forall (check : check_method) (w0 : io) (hs : N) (w1 : io),
   run_io (header_parse crc32) w = (Done check, w0) ->
   xz_visits crc32 crc64 fuel check w0 hs w1 -> header_single hs w1) ->
  let (o, w') := xz_decompress crc32 crc64 fuel w in
  match o with
  | Panicked _ => False
  | _ => NoPanic.SrcBytes (i_src w')
  end.
Print Assumptions C07_xz_decompress_total_single_filter.

(* unconditional termination of the XZ decoder (up to 4 chained filters: an LZMA2 output is at most 2^21 times its input)   [proved as xz_decompress_total in Proofs/FuelAdequacyXzChain.v] *)
Theorem C07_xz_decompress_total :
  forall (crc32 crc64 : list N -> N) (fuel : positive) (w : io),
  NoPanic.SrcBytes (i_src w) ->
  fuel_for fuel (CHAIN * nlen (s_rest (i_src w))) ->
  let (o, w') := xz_decompress crc32 crc64 fuel w in
  match o with
  | Panicked _ => False
  | _ => NoPanic.SrcBytes (i_src w')
  end.
Proof. exact (@xz_decompress_total). Qed.
Check C07_xz_decompress_total :
  forall (crc32 crc64 : list N -> N) (fuel : positive) (w : io),
  NoPanic.SrcBytes (i_src w) ->
  fuel_for fuel (CHAIN * nlen (s_rest (i_src w))) ->
  let (o, w') := xz_decompress crc32 crc64 fuel w in
  match o with
  | Panicked _ => False
  | _ => NoPanic.SrcBytes (i_src w')
  end.
Print Assumptions C07_xz_decompress_total.

(* the streaming decoder never panics and never runs out of its 2^62 fuel: any write / flush sequence with calls of up to 2.7e14 bytes each, followed by finish   [proved as stream_total in Proofs/FuelAdequacyStream.v] *)
Theorem C07_stream_total :
  forall (o : options) (k : snk) (cs : list call),
  Forall
    (fun c : call =>
     match c with
     | CWrite d => NoPanicLoops.Bytes d /\ nlen d <= 272671082506180
     | CFlush => True
     end) cs ->
  Forall cres_not_panicked (fst (run_calls (stream_new o k) cs)) /\
  NoPanicWorld.not_panicked (fst (stream_finish (snd (run_calls (stream_new o k) cs)))).
Proof. exact (@stream_total). Qed.
Check C07_stream_total :
  forall (o : options) (k : snk) (cs : list call),
  Forall
    (fun c : call =>
     match c with
     | CWrite d => NoPanicLoops.Bytes d /\ nlen d <= 272671082506180
     | CFlush => True
     end) cs ->
  Forall cres_not_panicked (fst (run_calls (stream_new o k) cs)) /\
  NoPanicWorld.not_panicked (fst (stream_finish (snd (run_calls (stream_new o k) cs)))).
Print Assumptions C07_stream_total.

From LZ Require Import Model.Lzma2 Model.Xz Model.Stream Proofs.ProgLemmas Proofs.StreamLatch Proofs.FootprintCore Proofs.FootprintLzma Proofs.FootprintStream Proofs.FootprintLzma2 Proofs.FootprintXz.

(* memory clause, ARBITRARY input: at every iteration of the decoding loop the window allocation is <= min(bytes produced, dictionary, memlimit), the staging buffer <= 20, tables <= TABS_MAX, total footprint <= FOOT_CONST + bytes produced   [proved as lzma_footprint_bounded in Proofs/FootprintLzma.v] *)
Theorem C07_lzma_footprint_bounded :
  forall (o : options) (w : io) (w0 : lw) (n : nat),
  lzma_start o w = Some w0 ->
  lzma_foot_ok (lzma_dict o w) (MemLimitRun.mem_of (o_memlimit o))
    (SizeRules.res_state (iter_step n (pm_body FinishMode) w0)).
Proof. exact (@lzma_footprint_bounded). Qed.
Check C07_lzma_footprint_bounded :
  forall (o : options) (w : io) (w0 : lw) (n : nat),
  lzma_start o w = Some w0 ->
  lzma_foot_ok (lzma_dict o w) (MemLimitRun.mem_of (o_memlimit o))
    (SizeRules.res_state (iter_step n (pm_body FinishMode) w0)).
Print Assumptions C07_lzma_footprint_bounded.

(* a header announcing dictionary 2^32-1 and size 2^63 costs nothing: window allocation 0 after construction   [proved as fresh_decoder_allocates_nothing in Proofs/FootprintLzma.v] *)
Theorem C07_fresh_decoder_allocates_nothing :
  forall (props : props) (ml : option N) (dec : lzma_decoder) (k : snk),
  lzma_decoder_new {| pr_props := props; pr_dict := 4294967295; pr_unpacked := Some 9223372036854775808 |} ml =
  Done dec ->
  win_alloc (WCirc (circ_new k (pr_dict (ld_params dec)) (ld_memlimit dec))) = 0 /\
  ds_pib (ld_state dec) = [] /\ tabs_size (ds_tabs (ld_state dec)) <= TABS_MAX.
Proof. exact (@fresh_decoder_allocates_nothing). Qed.
Check C07_fresh_decoder_allocates_nothing :
  forall (props : props) (ml : option N) (dec : lzma_decoder) (k : snk),
  lzma_decoder_new {| pr_props := props; pr_dict := 4294967295; pr_unpacked := Some 9223372036854775808 |} ml =
  Done dec ->
  win_alloc (WCirc (circ_new k (pr_dict (ld_params dec)) (ld_memlimit dec))) = 0 /\
  ds_pib (ld_state dec) = [] /\ tabs_size (ds_tabs (ld_state dec)) <= TABS_MAX.
Print Assumptions C07_fresh_decoder_allocates_nothing.

(* streaming decoder after any call sequence   [proved as stream_footprint_bounded in Proofs/FootprintStream.v] *)
Theorem C07_stream_footprint_bounded :
  forall (o : options) (k : snk) (cs : list call), stream_foot_ok (snd (run_calls (stream_new o k) cs)).
Proof. exact (@stream_footprint_bounded). Qed.
Check C07_stream_footprint_bounded :
  forall (o : options) (k : snk) (cs : list call), stream_foot_ok (snd (run_calls (stream_new o k) cs)).
Print Assumptions C07_stream_footprint_bounded.

(* LZMA2: the accumulating buffer holds exactly the bytes since the last dictionary reset; chunk headers allocate nothing   [proved as lzma2_footprint_bounded in Proofs/FootprintLzma2.v] *)
Theorem C07_lzma2_footprint_bounded :
  forall (fuel : positive) (dec : lzma2_decoder) (io0 : io) (n : nat),
  DsFoot (l2_state dec) -> w2_foot_ok (l2_res_state (iter_step n (l2_body fuel) (lzma2_start dec io0))).
Proof. exact (@lzma2_footprint_bounded). Qed.
Check C07_lzma2_footprint_bounded :
  forall (fuel : positive) (dec : lzma2_decoder) (io0 : io) (n : nat),
  DsFoot (l2_state dec) -> w2_foot_ok (l2_res_state (iter_step n (l2_body fuel) (lzma2_start dec io0))).
Print Assumptions C07_lzma2_footprint_bounded.

(* XZ: other declared packed / unpacked sizes give the same per-block buffer or an error - the buffer is the decoder output, declared sizes are only compared   [proved as block_decode_declared_sizes in Proofs/FootprintXz.v] *)
Theorem C07_xz_declared_sizes_allocate_nothing :
  forall (fuel : positive) (fs : list filter) (p1 u1 p2 u2 : option N) (w : io) (buf : list N) (w' : io),
  block_decode fuel {| bh_filters := fs; bh_packed := p1; bh_unpacked := u1 |} w = (Done buf, w') ->
  block_decode fuel {| bh_filters := fs; bh_packed := p2; bh_unpacked := u2 |} w = (Done buf, w') \/
  block_decode fuel {| bh_filters := fs; bh_packed := p2; bh_unpacked := u2 |} w = (Failed EXz, w').
Proof. exact (@block_decode_declared_sizes). Qed.
Check C07_xz_declared_sizes_allocate_nothing :
  forall (fuel : positive) (fs : list filter) (p1 u1 p2 u2 : option N) (w : io) (buf : list N) (w' : io),
  block_decode fuel {| bh_filters := fs; bh_packed := p1; bh_unpacked := u1 |} w = (Done buf, w') ->
  block_decode fuel {| bh_filters := fs; bh_packed := p2; bh_unpacked := u2 |} w = (Done buf, w') \/
  block_decode fuel {| bh_filters := fs; bh_packed := p2; bh_unpacked := u2 |} w = (Failed EXz, w').
Print Assumptions C07_xz_declared_sizes_allocate_nothing.
