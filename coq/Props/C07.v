(* C07 - Decoders are total: no panic (decoder core), bounded input per symbol
   This file only pins statements; the proofs live in the files named below. *)
From LZ Require Import Base.Prelude Base.Prog Model.Io Model.Tables Model.LzBuffer Model.RangeDec Model.Lzma Proofs.NoPanic Proofs.NoPanicWorld Proofs.Bound20 Proofs.Bound20Run.

(* for ARBITRARY input bytes: one symbol step on a world satisfying the invariant never panics and re-establishes the invariant   [proved as process_next_inner_world in Proofs/NoPanicWorld.v] *)
Theorem C07_symbol_step_never_panics : forall p y upd w,
  lc p <= 8 -> lp p <= 4 -> pb p <= 4 -> sym32 y -> WInv (lc p + lp p) w ->
  match interp dec_h (process_next_inner p y upd) w with
  | (Done (st, y'), w') => sym32 y' /\ WInv (lc p + lp p) w'
  | (Failed _, w') => WInv (lc p + lp p) w'
  | (Panicked _, _) => False
  end.
Proof. exact process_next_inner_world. Qed.
Check C07_symbol_step_never_panics : forall p y upd w,
  lc p <= 8 -> lp p <= 4 -> pb p <= 4 -> sym32 y -> WInv (lc p + lp p) w ->
  match interp dec_h (process_next_inner p y upd) w with
  | (Done (st, y'), w') => sym32 y' /\ WInv (lc p + lp p) w'
  | (Failed _, w') => WInv (lc p + lp p) w'
  | (Panicked _, _) => False
  end.
Print Assumptions C07_symbol_step_never_panics.

(* the same for run_sym on the objects of process_mode   [proved as run_sym_safe in Proofs/NoPanicWorld.v] *)
Theorem C07_run_sym_safe : forall upd w,
  LwInv w ->
  match run_sym upd w with
  | (Panicked _, _) => False
  | (_, w') => LwInv w'
  end.
Proof. exact run_sym_safe. Qed.
Check C07_run_sym_safe : forall upd w,
  LwInv w ->
  match run_sym upd w with
  | (Panicked _, _) => False
  | (_, w') => LwInv w'
  end.
Print Assumptions C07_run_sym_safe.

(* the invariant holds for a freshly constructed decoder, any dictionary size > 0, any memory limit   [proved as LwInv_init in Proofs/NoPanicWorld.v] *)
Theorem C07_invariant_holds_initially : forall p us d r s k dict mem,
  dstate_new p us = (Done d, tt) -> 0 < dict -> RcInv r -> SrcBytes s ->
  LwInv (mkLw d r s (WCirc (circ_new k dict mem))).
Proof. exact LwInv_init. Qed.
Check C07_invariant_holds_initially : forall p us d r s k dict mem,
  dstate_new p us = (Done d, tt) -> 0 < dict -> RcInv r -> SrcBytes s ->
  LwInv (mkLw d r s (WCirc (circ_new k dict mem))).
Print Assumptions C07_invariant_holds_initially.

(* range decoder: no overflow / underflow for any source (any fragmentation, faults, limits)   [proved as rc_decode_bit_safe in Proofs/NoPanic.v] *)
Theorem C07_rc_decode_bit_safe : forall r p upd s,
  RcInv r -> p <= 2047 -> SrcBytes s ->
  match src_run (rc_decode_bit r p upd) s with
  | (Done (b, p', r'), s') =>
  RcInv r' /\ p' <= 2047 /\ (31 <= p <= 2017 -> 31 <= p' <= 2017) /\ SrcBytes s'
  | (Failed _, s') => SrcBytes s'
  | (Panicked _, _) => False
  end.
Proof. exact rc_decode_bit_safe. Qed.
Check C07_rc_decode_bit_safe : forall r p upd s,
  RcInv r -> p <= 2047 -> SrcBytes s ->
  match src_run (rc_decode_bit r p upd) s with
  | (Done (b, p', r'), s') =>
  RcInv r' /\ p' <= 2047 /\ (31 <= p <= 2017 -> 31 <= p' <= 2017) /\ SrcBytes s'
  | (Failed _, s') => SrcBytes s'
  | (Panicked _, _) => False
  end.
Print Assumptions C07_rc_decode_bit_safe.

(* probabilities stay in [31, 2017]   [proved as prob_step_range in Proofs/NoPanic.v] *)
Theorem C07_prob_range : forall p,
  31 <= p <= 2017 ->
  (31 <= p + N.shiftr (2048 - p) 5 <= 2017) /\ (31 <= p - N.shiftr p 5 <= 2017).
Proof. exact prob_step_range. Qed.
Check C07_prob_range : forall p,
  31 <= p <= 2017 ->
  (31 <= p + N.shiftr (2048 - p) 5 <= 2017) /\ (31 <= p - N.shiftr p 5 <= 2017).
Print Assumptions C07_prob_range.

(* every probability-table index is in bounds   [proved as process_next_inner_cells in Proofs/NoPanic.v] *)
Theorem C07_cells_in_bounds : forall p y upd,
  lc p <= 8 -> lp p <= 4 -> pb p <= 4 -> y_state y < 12 ->
  cells_ok (fun c => forall t, TabsStd t (lc p + lp p) -> cell_get t c <> None) (process_next_inner p y upd).
Proof. exact process_next_inner_cells. Qed.
Check C07_cells_in_bounds : forall p y upd,
  lc p <= 8 -> lp p <= 4 -> pb p <= 4 -> y_state y < 12 ->
  cells_ok (fun c => forall t, TabsStd t (lc p + lp p) -> cell_get t c <> None) (process_next_inner p y upd).
Print Assumptions C07_cells_in_bounds.

(* a symbol step advances the source by at most MAX_REQUIRED_INPUT = 20 bytes   [proved as run_sym_pos_20 in Proofs/Bound20Run.v] *)
Theorem C07_symbol_consumes_at_most_20_bytes : forall upd (w : lw),
  T24 <= r_range (l_rc w) < T32 -> tabs_ok (ds_tabs (l_ds w)) ->
  s_pos (l_src (snd (run_sym upd w))) <= s_pos (l_src w) + MAX_REQUIRED_INPUT.
Proof. exact run_sym_pos_20. Qed.
Check C07_symbol_consumes_at_most_20_bytes : forall upd (w : lw),
  T24 <= r_range (l_rc w) < T32 -> tabs_ok (ds_tabs (l_ds w)) ->
  s_pos (l_src (snd (run_sym upd w))) <= s_pos (l_src w) + MAX_REQUIRED_INPUT.
Print Assumptions C07_symbol_consumes_at_most_20_bytes.
