(* C18 - Unsupported XZ features are refused explicitly.
   This file only pins statements; the proofs live in Proofs/XzUnsupported.v and Proofs/XzSound.v. *)
From LZ Require Import Base.Prelude Base.Prog Model.Io Model.Xz Proofs.IoInv Proofs.SrcMono Proofs.XzSound Proofs.XzUnsupported.

(* success => the input is exactly one stream with a supported check type whenever a block exists
   (SHA-256 with at least one block never succeeds), and nothing is left unread *)
Theorem C18_success_means_supported : forall (crc32 crc64 : list N -> N) fuel w w',
  xz_decompress crc32 crc64 fuel w = (Done tt, w') -> s_limit (i_src w) = None ->
  exists ck hdr blocks index footer,
    s_rest (i_src w) = hdr ++ concat (map blk_bytes blocks) ++ index ++ footer /\
    header_bytes_ok crc32 ck hdr /\
    (blocks <> [] -> ck <> CkSha256) /\
    s_rest (i_src w') = [].
Proof. exact success_means_supported_check. Qed.
Check C18_success_means_supported : forall (crc32 crc64 : list N -> N) fuel w w',
  xz_decompress crc32 crc64 fuel w = (Done tt, w') -> s_limit (i_src w) = None ->
  exists ck hdr blocks index footer,
    s_rest (i_src w) = hdr ++ concat (map blk_bytes blocks) ++ index ++ footer /\
    header_bytes_ok crc32 ck hdr /\
    (blocks <> [] -> ck <> CkSha256) /\
    s_rest (i_src w') = [].
Print Assumptions C18_success_means_supported.

(* a second stream or stream padding: success leaves no byte unread, the accepted input is one stream *)
Theorem C18_single_stream_only : forall (crc32 crc64 : list N -> N) fuel w w',
  xz_decompress crc32 crc64 fuel w = (Done tt, w') -> s_limit (i_src w) = None ->
  s_rest (i_src w') = [] /\ s_pos (i_src w') = s_pos (i_src w) + nlen (s_rest (i_src w)).
Proof. exact success_consumes_everything. Qed.
Check C18_single_stream_only : forall (crc32 crc64 : list N -> N) fuel w w',
  xz_decompress crc32 crc64 fuel w = (Done tt, w') -> s_limit (i_src w) = None ->
  s_rest (i_src w') = [] /\ s_pos (i_src w') = s_pos (i_src w) + nlen (s_rest (i_src w)).
Print Assumptions C18_single_stream_only.

Theorem C18_unassigned_check_id_refused : forall b1, b1 <> 0 -> b1 <> 1 -> b1 <> 4 -> b1 <> 10 -> flags_parse 0 b1 = Failed EXz.
Proof. exact flags_parse_unassigned. Qed.
Check C18_unassigned_check_id_refused : forall b1, b1 <> 0 -> b1 <> 1 -> b1 <> 4 -> b1 <> 10 -> flags_parse 0 b1 = Failed EXz.
Print Assumptions C18_unassigned_check_id_refused.

Theorem C18_reserved_stream_flag_refused : forall b0 b1, b0 <> 0 -> flags_parse b0 b1 = Failed EXz.
Proof. exact flags_parse_reserved. Qed.
Check C18_reserved_stream_flag_refused : forall b0 b1, b0 <> 0 -> flags_parse b0 b1 = Failed EXz.
Print Assumptions C18_reserved_stream_flag_refused.

Theorem C18_reserved_block_flag_refused : forall hs flags l, N.land flags 60 <> 0 -> read_block_header hs (flags :: l) = Failed EXz.
Proof. exact block_flags_reserved. Qed.
Check C18_reserved_block_flag_refused : forall hs flags l, N.land flags 60 <> 0 -> read_block_header hs (flags :: l) = Failed EXz.
Print Assumptions C18_reserved_block_flag_refused.

Theorem C18_other_filter_refused : forall n hs l acc id l1,
  lget_multibyte l = Done (id, l1) -> id <> 33 -> read_filters (S n) hs l acc = Failed EXz.
Proof. exact filter_id_unsupported. Qed.
Check C18_other_filter_refused : forall n hs l acc id l1,
  lget_multibyte l = Done (id, l1) -> id <> 33 -> read_filters (S n) hs l acc = Failed EXz.
Print Assumptions C18_other_filter_refused.

Theorem C18_sha256_block_refused : forall crc32 crc64 buf w,
  fst (run_io (validate_block_check crc32 crc64 buf CkSha256) w) = Failed EXz.
Proof. exact sha256_block_refused. Qed.
Check C18_sha256_block_refused : forall crc32 crc64 buf w,
  fst (run_io (validate_block_check crc32 crc64 buf CkSha256) w) = Failed EXz.
Print Assumptions C18_sha256_block_refused.
