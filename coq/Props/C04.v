(* C04 - Compression is format-conformant (range encoder = ideal encoder; end marker)
   This file only pins statements; the proofs live in the files named below. *)
From LZ Require Import Base.Prelude Base.Prog Model.Io Model.Tables Model.LzBuffer Model.RangeDec Model.Lzma Model.Enc Format.RefEnc Proofs.EncCarry.

(* for every sequence of (probability, bit) steps the Rust range encoder (cache / carry propagation through 0xFF runs) followed by finish() hands the sink exactly the canonical bytes of the ideal unbounded-precision encoder, for sinks accepting any number of bytes per write   [proved as dumb_encoder_payload in Proofs/EncCarry.v] *)
Theorem C04_range_encoder_emits_ideal_numeral : forall steps s k,
  Forall (fun pb => 31 <= fst pb <= 2017) steps -> nlen steps + 6 < 4294967296 -> k_wfail k = None ->
  exists e' k',
  run_io (bind (encode_steps steps renc_new) renc_finish) (mkIo s k) = (Done e', mkIo s k') /\
  k_wfail k' = None /\
  snk_bytes k' = snk_bytes k ++ ienc_bytes (ienc_steps steps ienc0) 0.
Proof. exact dumb_encoder_payload. Qed.
Check C04_range_encoder_emits_ideal_numeral : forall steps s k,
  Forall (fun pb => 31 <= fst pb <= 2017) steps -> nlen steps + 6 < 4294967296 -> k_wfail k = None ->
  exists e' k',
  run_io (bind (encode_steps steps renc_new) renc_finish) (mkIo s k) = (Done e', mkIo s k') /\
  k_wfail k' = None /\
  snk_bytes k' = snk_bytes k ++ ienc_bytes (ienc_steps steps ienc0) 0.
Print Assumptions C04_range_encoder_emits_ideal_numeral.

(* one encode_bit step refines one ideal step   [proved as encode_bit_refines in Proofs/EncCarry.v] *)
Theorem C04_encode_bit_refines : forall e out ie prob bit s k,
  EncR e out ie -> 31 <= prob <= 2017 -> e_cachesz e + 1 < 4294967296 -> k_wfail k = None ->
  exists e' add k',
  run_io (encode_bit e prob bit) (mkIo s k) = (Done (prob_upd prob bit, e'), mkIo s k') /\
  snk_app k add k' /\ EncR e' (out ++ add) (ienc_bit ie prob bit).
Proof. exact encode_bit_refines. Qed.
Check C04_encode_bit_refines : forall e out ie prob bit s k,
  EncR e out ie -> 31 <= prob <= 2017 -> e_cachesz e + 1 < 4294967296 -> k_wfail k = None ->
  exists e' add k',
  run_io (encode_bit e prob bit) (mkIo s k) = (Done (prob_upd prob bit, e'), mkIo s k') /\
  snk_app k add k' /\ EncR e' (out ++ add) (ienc_bit ie prob bit).
Print Assumptions C04_encode_bit_refines.

(* the carry lemma for write_low   [proved as write_low_spec in Proofs/EncCarry.v] *)
Theorem C04_write_low_carry : forall e out s k,
  wf e -> e_cachesz e + 1 < 4294967296 -> Val e out < Top e out -> k_wfail k = None ->
  exists e' add k',
  run_io (write_low e) (mkIo s k) = (Done e', mkIo s k') /\
  snk_bytes k' = snk_bytes k ++ add /\ k_wfail k' = None /\ bytes add /\
  let out' := out ++ add in
  Val e' out' = 256 * Val e out /\ wf e' /\ e_low e' < 4294967296 /\ Val e' out' < Top e' out' /\
  nlen out' + e_cachesz e' = nlen out + e_cachesz e + 1 /\ e_range e' = e_range e.
Proof. exact write_low_spec. Qed.
Check C04_write_low_carry : forall e out s k,
  wf e -> e_cachesz e + 1 < 4294967296 -> Val e out < Top e out -> k_wfail k = None ->
  exists e' add k',
  run_io (write_low e) (mkIo s k) = (Done e', mkIo s k') /\
  snk_bytes k' = snk_bytes k ++ add /\ k_wfail k' = None /\ bytes add /\
  let out' := out ++ add in
  Val e' out' = 256 * Val e out /\ wf e' /\ e_low e' < 4294967296 /\ Val e' out' < Top e' out' /\
  nlen out' + e_cachesz e' = nlen out + e_cachesz e + 1 /\ e_range e' = e_range e.
Print Assumptions C04_write_low_carry.

(* the end marker: coding the 26 direct bits as probability-0x400 bits (as dumbencoder.rs does) equals true direct-bit coding, whatever range the adaptive is_match bit left   [proved as marker_direct_equiv in Proofs/EncCarry.v] *)
Theorem C04_marker_bits_are_direct_bits : forall e,
  16777216 <= i_range e < 4294967296 ->
  let e1 := fold_left (fun x b => ienc_bit x 1024 b) marker_prefix_bits e in
  Nat.iter 26 (fun x => ienc_bit x 1024 true) e1 = Nat.iter 26 (fun x => ienc_direct x true) e1.
Proof. exact marker_direct_equiv. Qed.
Check C04_marker_bits_are_direct_bits : forall e,
  16777216 <= i_range e < 4294967296 ->
  let e1 := fold_left (fun x b => ienc_bit x 1024 b) marker_prefix_bits e in
  Nat.iter 26 (fun x => ienc_bit x 1024 true) e1 = Nat.iter 26 (fun x => ienc_direct x true) e1.
Print Assumptions C04_marker_bits_are_direct_bits.

(* the same for any number of bits once in a phase   [proved as marker_halving_exact in Proofs/EncCarry.v] *)
Theorem C04_marker_halving_exact : forall n,
  forall e, (exists i, Phase i (i_range e)) ->
  Nat.iter n (fun x => ienc_bit x 1024 true) e = Nat.iter n (fun x => ienc_direct x true) e /\
  exists i, Phase i (i_range (Nat.iter n (fun x => ienc_direct x true) e)).
Proof. exact marker_halving_exact. Qed.
Check C04_marker_halving_exact : forall n,
  forall e, (exists i, Phase i (i_range e)) ->
  Nat.iter n (fun x => ienc_bit x 1024 true) e = Nat.iter n (fun x => ienc_direct x true) e /\
  exists i, Phase i (i_range (Nat.iter n (fun x => ienc_direct x true) e)).
Print Assumptions C04_marker_halving_exact.

(* ---------- the composition through lzma_compress (proofs in Proofs/DumbEncConform.v) ---------- *)
From LZ Require Import Proofs.DumbEncConform.

(* for every byte string, every fragmentation of the input reader, every non-failing sink (any bytes-per-write) and each
   of the three options: lzma_compress succeeds and what the sink receives is header ++ the reference encoding of the
   literal program (with the end marker for WriteToHeader(None)) - empty input included *)
Theorem C04_lzma_compress_conformant : forall (fuel : positive) (o : enc_unpacked) (data : list N) (frag : N -> N) (k : snk),
  EncCarry.bytes data -> k_wfail k = None -> nlen data < N.pos fuel -> 9 * nlen data + 50 < 4294967296 ->
  exists (w' : io) (payload : list N),
    lzma_compress fuel o {| i_src := src_of data frag None; i_snk := k |} = (Done tt, w') /\
    snk_bytes (i_snk w') = snk_bytes k ++ header o ++ payload /\
    enc_payload_gen false {| f_lc := 3; f_lp := 0; f_pb := 2 |} (Some 8388608) (lit_program o data) 0 = Some (payload, data).
Proof. exact lzma_compress_conforms. Qed.
Check C04_lzma_compress_conformant : forall (fuel : positive) (o : enc_unpacked) (data : list N) (frag : N -> N) (k : snk),
  EncCarry.bytes data -> k_wfail k = None -> nlen data < N.pos fuel -> 9 * nlen data + 50 < 4294967296 ->
  exists (w' : io) (payload : list N),
    lzma_compress fuel o {| i_src := src_of data frag None; i_snk := k |} = (Done tt, w') /\
    snk_bytes (i_snk w') = snk_bytes k ++ header o ++ payload /\
    enc_payload_gen false {| f_lc := 3; f_lp := 0; f_pb := 2 |} (Some 8388608) (lit_program o data) 0 = Some (payload, data).
Print Assumptions C04_lzma_compress_conformant.
