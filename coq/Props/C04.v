(* C04 - Compression is format-conformant (range encoder = ideal encoder; end marker)
   This file only pins statements; the proofs live in the files named below. *)
From LZ Require Import Base.Prelude Base.Prog Model.Io Model.Tables Model.LzBuffer Model.RangeDec Model.Lzma Model.Enc Format.RefEnc Proofs.EncCarry.

(* for every sequence of (probability, bit) steps the Rust range encoder (cache / carry propagation through 0xFF runs) followed by finish() hands the sink exactly the canonical bytes of the ideal unbounded-precision encoder, for sinks accepting any number of bytes per write   [proved as dumb_encoder_payload in Proofs/EncCarry.v] *)
Theorem C04_range_encoder_emits_ideal_numeral : forall steps s k,
  Forall (fun pb => 31 <= fst pb <= 2017) steps -> nlen steps + 6 < 4294967296 -> k_wfail k = None ->
  exists e' k',
  run_io (bind (encode_steps steps renc_new) renc_finish) (mkIo s k) = (Done e', mkIo s k') /\
  k_wfail k' = None /\
  snk_bytes k' = snk_bytes k ++ ienc_bytes (ienc_steps steps ienc0) 0.
Proof. exact dumb_encoder_payload. Qed.
Check C04_range_encoder_emits_ideal_numeral : forall steps s k,
  Forall (fun pb => 31 <= fst pb <= 2017) steps -> nlen steps + 6 < 4294967296 -> k_wfail k = None ->
  exists e' k',
  run_io (bind (encode_steps steps renc_new) renc_finish) (mkIo s k) = (Done e', mkIo s k') /\
  k_wfail k' = None /\
  snk_bytes k' = snk_bytes k ++ ienc_bytes (ienc_steps steps ienc0) 0.
Print Assumptions C04_range_encoder_emits_ideal_numeral.

(* one encode_bit step refines one ideal step   [proved as encode_bit_refines in Proofs/EncCarry.v] *)
Theorem C04_encode_bit_refines : forall e out ie prob bit s k,
  EncR e out ie -> 31 <= prob <= 2017 -> e_cachesz e + 1 < 4294967296 -> k_wfail k = None ->
  exists e' add k',
  run_io (encode_bit e prob bit) (mkIo s k) = (Done (prob_upd prob bit, e'), mkIo s k') /\
  snk_app k add k' /\ EncR e' (out ++ add) (ienc_bit ie prob bit).
Proof. exact encode_bit_refines. Qed.
Check C04_encode_bit_refines : forall e out ie prob bit s k,
  EncR e out ie -> 31 <= prob <= 2017 -> e_cachesz e + 1 < 4294967296 -> k_wfail k = None ->
  exists e' add k',
  run_io (encode_bit e prob bit) (mkIo s k) = (Done (prob_upd prob bit, e'), mkIo s k') /\
  snk_app k add k' /\ EncR e' (out ++ add) (ienc_bit ie prob bit).
Print Assumptions C04_encode_bit_refines.

(* the carry lemma for write_low   [proved as write_low_spec in Proofs/EncCarry.v] *)
Theorem C04_write_low_carry : forall e out s k,
  wf e -> e_cachesz e + 1 < 4294967296 -> Val e out < Top e out -> k_wfail k = None ->
  exists e' add k',
  run_io (write_low e) (mkIo s k) = (Done e', mkIo s k') /\
  snk_bytes k' = snk_bytes k ++ add /\ k_wfail k' = None /\ bytes add /\
  let out' := out ++ add in
  Val e' out' = 256 * Val e out /\ wf e' /\ e_low e' < 4294967296 /\ Val e' out' < Top e' out' /\
  nlen out' + e_cachesz e' = nlen out + e_cachesz e + 1 /\ e_range e' = e_range e.
Proof. exact write_low_spec. Qed.
Check C04_write_low_carry : forall e out s k,
  wf e -> e_cachesz e + 1 < 4294967296 -> Val e out < Top e out -> k_wfail k = None ->
  exists e' add k',
  run_io (write_low e) (mkIo s k) = (Done e', mkIo s k') /\
  snk_bytes k' = snk_bytes k ++ add /\ k_wfail k' = None /\ bytes add /\
  let out' := out ++ add in
  Val e' out' = 256 * Val e out /\ wf e' /\ e_low e' < 4294967296 /\ Val e' out' < Top e' out' /\
  nlen out' + e_cachesz e' = nlen out + e_cachesz e + 1 /\ e_range e' = e_range e.
Print Assumptions C04_write_low_carry.

(* the end marker: coding the 26 direct bits as probability-0x400 bits (as dumbencoder.rs does) equals true direct-bit coding, whatever range the adaptive is_match bit left   [proved as marker_direct_equiv in Proofs/EncCarry.v] *)
Theorem C04_marker_bits_are_direct_bits : forall e,
  16777216 <= i_range e < 4294967296 ->
  let e1 := fold_left (fun x b => ienc_bit x 1024 b) marker_prefix_bits e in
  Nat.iter 26 (fun x => ienc_bit x 1024 true) e1 = Nat.iter 26 (fun x => ienc_direct x true) e1.
Proof. exact marker_direct_equiv. Qed.
Check C04_marker_bits_are_direct_bits : forall e,
  16777216 <= i_range e < 4294967296 ->
  let e1 := fold_left (fun x b => ienc_bit x 1024 b) marker_prefix_bits e in
  Nat.iter 26 (fun x => ienc_bit x 1024 true) e1 = Nat.iter 26 (fun x => ienc_direct x true) e1.
Print Assumptions C04_marker_bits_are_direct_bits.

(* the same for any number of bits once in a phase   [proved as marker_halving_exact in Proofs/EncCarry.v] *)
Theorem C04_marker_halving_exact : forall n,
  forall e, (exists i, Phase i (i_range e)) ->
  Nat.iter n (fun x => ienc_bit x 1024 true) e = Nat.iter n (fun x => ienc_direct x true) e /\
  exists i, Phase i (i_range (Nat.iter n (fun x => ienc_direct x true) e)).
Proof. exact marker_halving_exact. Qed.
Check C04_marker_halving_exact : forall n,
  forall e, (exists i, Phase i (i_range e)) ->
  Nat.iter n (fun x => ienc_bit x 1024 true) e = Nat.iter n (fun x => ienc_direct x true) e /\
  exists i, Phase i (i_range (Nat.iter n (fun x => ienc_direct x true) e)).
Print Assumptions C04_marker_halving_exact.

(* ---------- the composition through lzma_compress (proofs in Proofs/DumbEncConform.v) ---------- *)
From LZ Require Import Proofs.DumbEncConform.

(* for every byte string, every fragmentation of the input reader, every non-failing sink (any bytes-per-write) and each
   of the three options: lzma_compress succeeds and what the sink receives is header ++ the reference encoding of the
   literal program (with the end marker for WriteToHeader(None)) - empty input included *)
Theorem C04_lzma_compress_conformant : forall (fuel : positive) (o : enc_unpacked) (data : list N) (frag : N -> N) (k : snk),
  EncCarry.bytes data -> k_wfail k = None -> nlen data < N.pos fuel -> 9 * nlen data + 50 < 4294967296 ->
  exists (w' : io) (payload : list N),
    lzma_compress fuel o {| i_src := src_of data frag None; i_snk := k |} = (Done tt, w') /\
    snk_bytes (i_snk w') = snk_bytes k ++ header o ++ payload /\
    enc_payload_gen false {| f_lc := 3; f_lp := 0; f_pb := 2 |} (Some 8388608) (lit_program o data) 0 = Some (payload, data).
Proof. exact lzma_compress_conforms. Qed.
Check C04_lzma_compress_conformant : forall (fuel : positive) (o : enc_unpacked) (data : list N) (frag : N -> N) (k : snk),
  EncCarry.bytes data -> k_wfail k = None -> nlen data < N.pos fuel -> 9 * nlen data + 50 < 4294967296 ->
  exists (w' : io) (payload : list N),
    lzma_compress fuel o {| i_src := src_of data frag None; i_snk := k |} = (Done tt, w') /\
    snk_bytes (i_snk w') = snk_bytes k ++ header o ++ payload /\
    enc_payload_gen false {| f_lc := 3; f_lp := 0; f_pb := 2 |} (Some 8388608) (lit_program o data) 0 = Some (payload, data).
Print Assumptions C04_lzma_compress_conformant.

From LZ Require Import Model.Lzma2 Model.Xz Model.Enc Format.RefEnc Proofs.EncCarry Proofs.LzmaExactOpts Proofs.LzmaRoundTrip Proofs.Lzma2EncConform Proofs.XzSound Proofs.XzEncConform Proofs.XzRoundTrip.

(* WriteToHeader(None) -> ReadFromHeader: decode(encode(data)) = data for every data, every fragmentation on both sides, non-failing sinks   [proved as lzma_round_trip_marker in Proofs/LzmaRoundTrip.v] *)
Theorem C04_lzma_round_trip_marker :
  forall (fuel fuel' : positive) (ml : option N) (ai : bool) (data : list N) (frag1 frag2 : N -> N)
    (k1 k2 : snk),
  bytes data ->
  k_wfail k1 = None ->
  k_wfail k2 = None ->
  k_ffail k2 = false ->
  nlen data < N.pos fuel ->
  9 * nlen data + 50 < 4294967296 ->
  (length data + 2 <= Pos.to_nat fuel')%nat ->
  memlimit_ok ml 8388608 ->
  exists (file : list N) (w1 w2 : io),
    lzma_compress fuel (WriteToHeader None) {| i_src := src_of data frag1 None; i_snk := k1 |} = (Done tt, w1) /\
    snk_bytes (i_snk w1) = snk_bytes k1 ++ file /\
    lzma_decompress fuel' {| o_unpacked := ReadFromHeader; o_memlimit := ml; o_allow_incomplete := ai |}
      {| i_src := src_of file frag2 None; i_snk := k2 |} = (Done tt, w2) /\
    snk_bytes (i_snk w2) = snk_bytes k2 ++ data /\
    k_flushes (i_snk w2) = k_flushes k2 + 1 /\ s_pos (i_src w2) = nlen file /\ s_rest (i_src w2) = [].
Proof. exact (@lzma_round_trip_marker). Qed.
Check C04_lzma_round_trip_marker :
  forall (fuel fuel' : positive) (ml : option N) (ai : bool) (data : list N) (frag1 frag2 : N -> N)
    (k1 k2 : snk),
  bytes data ->
  k_wfail k1 = None ->
  k_wfail k2 = None ->
  k_ffail k2 = false ->
  nlen data < N.pos fuel ->
  9 * nlen data + 50 < 4294967296 ->
  (length data + 2 <= Pos.to_nat fuel')%nat ->
  memlimit_ok ml 8388608 ->
  exists (file : list N) (w1 w2 : io),
    lzma_compress fuel (WriteToHeader None) {| i_src := src_of data frag1 None; i_snk := k1 |} = (Done tt, w1) /\
    snk_bytes (i_snk w1) = snk_bytes k1 ++ file /\
    lzma_decompress fuel' {| o_unpacked := ReadFromHeader; o_memlimit := ml; o_allow_incomplete := ai |}
      {| i_src := src_of file frag2 None; i_snk := k2 |} = (Done tt, w2) /\
    snk_bytes (i_snk w2) = snk_bytes k2 ++ data /\
    k_flushes (i_snk w2) = k_flushes k2 + 1 /\ s_pos (i_src w2) = nlen file /\ s_rest (i_src w2) = [].
Print Assumptions C04_lzma_round_trip_marker.

(* WriteToHeader(Some len) -> ReadFromHeader   [proved as lzma_round_trip_sized in Proofs/LzmaRoundTrip.v] *)
Theorem C04_lzma_round_trip_sized :
  forall (fuel fuel' : positive) (ml : option N) (ai : bool) (data : list N) (frag1 frag2 : N -> N)
    (k1 k2 : snk),
  bytes data ->
  k_wfail k1 = None ->
  k_wfail k2 = None ->
  k_ffail k2 = false ->
  nlen data < N.pos fuel ->
  9 * nlen data + 50 < 4294967296 ->
  (length data + 2 <= Pos.to_nat fuel')%nat ->
  memlimit_ok ml 8388608 ->
  exists (file : list N) (w1 w2 : io),
    lzma_compress fuel (WriteToHeader (Some (nlen data))) {| i_src := src_of data frag1 None; i_snk := k1 |} =
    (Done tt, w1) /\
    snk_bytes (i_snk w1) = snk_bytes k1 ++ file /\
    lzma_decompress fuel' {| o_unpacked := ReadFromHeader; o_memlimit := ml; o_allow_incomplete := ai |}
      {| i_src := src_of file frag2 None; i_snk := k2 |} = (Done tt, w2) /\
    snk_bytes (i_snk w2) = snk_bytes k2 ++ data /\
    k_flushes (i_snk w2) = k_flushes k2 + 1 /\ s_pos (i_src w2) = nlen file /\ s_rest (i_src w2) = [].
Proof. exact (@lzma_round_trip_sized). Qed.
Check C04_lzma_round_trip_sized :
  forall (fuel fuel' : positive) (ml : option N) (ai : bool) (data : list N) (frag1 frag2 : N -> N)
    (k1 k2 : snk),
  bytes data ->
  k_wfail k1 = None ->
  k_wfail k2 = None ->
  k_ffail k2 = false ->
  nlen data < N.pos fuel ->
  9 * nlen data + 50 < 4294967296 ->
  (length data + 2 <= Pos.to_nat fuel')%nat ->
  memlimit_ok ml 8388608 ->
  exists (file : list N) (w1 w2 : io),
    lzma_compress fuel (WriteToHeader (Some (nlen data))) {| i_src := src_of data frag1 None; i_snk := k1 |} =
    (Done tt, w1) /\
    snk_bytes (i_snk w1) = snk_bytes k1 ++ file /\
    lzma_decompress fuel' {| o_unpacked := ReadFromHeader; o_memlimit := ml; o_allow_incomplete := ai |}
      {| i_src := src_of file frag2 None; i_snk := k2 |} = (Done tt, w2) /\
    snk_bytes (i_snk w2) = snk_bytes k2 ++ data /\
    k_flushes (i_snk w2) = k_flushes k2 + 1 /\ s_pos (i_src w2) = nlen file /\ s_rest (i_src w2) = [].
Print Assumptions C04_lzma_round_trip_sized.

(* SkipWritingToHeader -> UseProvided(Some len)   [proved as lzma_round_trip_skip in Proofs/LzmaRoundTrip.v] *)
Theorem C04_lzma_round_trip_skip :
  forall (fuel fuel' : positive) (ml : option N) (ai : bool) (data : list N) (frag1 frag2 : N -> N)
    (k1 k2 : snk),
  bytes data ->
  k_wfail k1 = None ->
  k_wfail k2 = None ->
  k_ffail k2 = false ->
  nlen data < N.pos fuel ->
  9 * nlen data + 50 < 4294967296 ->
  (length data + 2 <= Pos.to_nat fuel')%nat ->
  memlimit_ok ml 8388608 ->
  exists (file : list N) (w1 w2 : io),
    lzma_compress fuel SkipWritingToHeader {| i_src := src_of data frag1 None; i_snk := k1 |} = (Done tt, w1) /\
    snk_bytes (i_snk w1) = snk_bytes k1 ++ file /\
    lzma_decompress fuel'
      {| o_unpacked := UseProvided (Some (nlen data)); o_memlimit := ml; o_allow_incomplete := ai |}
      {| i_src := src_of file frag2 None; i_snk := k2 |} = (Done tt, w2) /\
    snk_bytes (i_snk w2) = snk_bytes k2 ++ data /\
    k_flushes (i_snk w2) = k_flushes k2 + 1 /\ s_pos (i_src w2) = nlen file /\ s_rest (i_src w2) = [].
Proof. exact (@lzma_round_trip_skip). Qed.
Check C04_lzma_round_trip_skip :
  forall (fuel fuel' : positive) (ml : option N) (ai : bool) (data : list N) (frag1 frag2 : N -> N)
    (k1 k2 : snk),
  bytes data ->
  k_wfail k1 = None ->
  k_wfail k2 = None ->
  k_ffail k2 = false ->
  nlen data < N.pos fuel ->
  9 * nlen data + 50 < 4294967296 ->
  (length data + 2 <= Pos.to_nat fuel')%nat ->
  memlimit_ok ml 8388608 ->
  exists (file : list N) (w1 w2 : io),
    lzma_compress fuel SkipWritingToHeader {| i_src := src_of data frag1 None; i_snk := k1 |} = (Done tt, w1) /\
    snk_bytes (i_snk w1) = snk_bytes k1 ++ file /\
    lzma_decompress fuel'
      {| o_unpacked := UseProvided (Some (nlen data)); o_memlimit := ml; o_allow_incomplete := ai |}
      {| i_src := src_of file frag2 None; i_snk := k2 |} = (Done tt, w2) /\
    snk_bytes (i_snk w2) = snk_bytes k2 ++ data /\
    k_flushes (i_snk w2) = k_flushes k2 + 1 /\ s_pos (i_src w2) = nlen file /\ s_rest (i_src w2) = [].
Print Assumptions C04_lzma_round_trip_skip.

(* any header size value, decoded with ReadHeaderButUseProvided   [proved as lzma_round_trip_override in Proofs/LzmaRoundTrip.v] *)
Theorem C04_lzma_round_trip_override :
  forall (fuel fuel' : positive) (x ml : option N) (ai : bool) (data : list N) (frag1 frag2 : N -> N)
    (k1 k2 : snk),
  bytes data ->
  k_wfail k1 = None ->
  k_wfail k2 = None ->
  k_ffail k2 = false ->
  nlen data < N.pos fuel ->
  9 * nlen data + 50 < 4294967296 ->
  (length data + 2 <= Pos.to_nat fuel')%nat ->
  memlimit_ok ml 8388608 ->
  exists (file : list N) (w1 w2 : io),
    lzma_compress fuel (WriteToHeader x) {| i_src := src_of data frag1 None; i_snk := k1 |} = (Done tt, w1) /\
    snk_bytes (i_snk w1) = snk_bytes k1 ++ file /\
    lzma_decompress fuel'
      {|
        o_unpacked := ReadHeaderButUseProvided (override_size x data);
        o_memlimit := ml;
        o_allow_incomplete := ai
      |} {| i_src := src_of file frag2 None; i_snk := k2 |} = (Done tt, w2) /\
    snk_bytes (i_snk w2) = snk_bytes k2 ++ data /\
    k_flushes (i_snk w2) = k_flushes k2 + 1 /\ s_pos (i_src w2) = nlen file /\ s_rest (i_src w2) = [].
Proof. exact (@lzma_round_trip_override). Qed.
Check C04_lzma_round_trip_override :
  forall (fuel fuel' : positive) (x ml : option N) (ai : bool) (data : list N) (frag1 frag2 : N -> N)
    (k1 k2 : snk),
  bytes data ->
  k_wfail k1 = None ->
  k_wfail k2 = None ->
  k_ffail k2 = false ->
  nlen data < N.pos fuel ->
  9 * nlen data + 50 < 4294967296 ->
  (length data + 2 <= Pos.to_nat fuel')%nat ->
  memlimit_ok ml 8388608 ->
  exists (file : list N) (w1 w2 : io),
    lzma_compress fuel (WriteToHeader x) {| i_src := src_of data frag1 None; i_snk := k1 |} = (Done tt, w1) /\
    snk_bytes (i_snk w1) = snk_bytes k1 ++ file /\
    lzma_decompress fuel'
      {|
        o_unpacked := ReadHeaderButUseProvided (override_size x data);
        o_memlimit := ml;
        o_allow_incomplete := ai
      |} {| i_src := src_of file frag2 None; i_snk := k2 |} = (Done tt, w2) /\
    snk_bytes (i_snk w2) = snk_bytes k2 ++ data /\
    k_flushes (i_snk w2) = k_flushes k2 + 1 /\ s_pos (i_src w2) = nlen file /\ s_rest (i_src w2) = [].
Print Assumptions C04_lzma_round_trip_override.

(* lzma2_compress emits one uncompressed dictionary-reset chunk per read (1..65536 bytes each, concatenation = input) and the end byte, for every reader fragmentation   [proved as lzma2_compress_spec in Proofs/Lzma2EncConform.v] *)
Theorem C04_lzma2_compress_conformant :
  forall (fuel : positive) (data : list N) (frag : N -> N) (k : snk),
  k_wfail k = None ->
  nlen data < N.pos fuel ->
  exists (w' : io) (chunks : list (list N)),
    lzma2_compress fuel {| i_src := src_of data frag None; i_snk := k |} = (Done tt, w') /\
    concat chunks = data /\
    Forall (fun c : list N => 1 <= nlen c <= 65536) chunks /\
    snk_bytes (i_snk w') =
    snk_bytes k ++ concat (map (fun c : list N => 1 :: be_bytes 2 (nlen c - 1) ++ c) chunks) ++ [0] /\
    s_rest (i_src w') = [] /\ k_wfail (i_snk w') = None.
Proof. exact (@lzma2_compress_spec). Qed.
Check C04_lzma2_compress_conformant :
  forall (fuel : positive) (data : list N) (frag : N -> N) (k : snk),
  k_wfail k = None ->
  nlen data < N.pos fuel ->
  exists (w' : io) (chunks : list (list N)),
    lzma2_compress fuel {| i_src := src_of data frag None; i_snk := k |} = (Done tt, w') /\
    concat chunks = data /\
    Forall (fun c : list N => 1 <= nlen c <= 65536) chunks /\
    snk_bytes (i_snk w') =
    snk_bytes k ++ concat (map (fun c : list N => 1 :: be_bytes 2 (nlen c - 1) ++ c) chunks) ++ [0] /\
    s_rest (i_src w') = [] /\ k_wfail (i_snk w') = None.
Print Assumptions C04_lzma2_compress_conformant.

(* LZMA2 round trip, any fragmentation on both sides   [proved as lzma2_round_trip in Proofs/Lzma2EncConform.v] *)
Theorem C04_lzma2_round_trip :
  forall (fuel fuel' : positive) (data : list N) (frag frag' : N -> N) (k k2 : snk) (trail : list N),
  k_wfail k = None ->
  k_wfail k2 = None ->
  k_ffail k2 = false ->
  nlen data < N.pos fuel ->
  nlen data < N.pos fuel' ->
  exists (w1 : io) (out : list N),
    lzma2_compress fuel {| i_src := src_of data frag None; i_snk := k |} = (Done tt, w1) /\
    snk_bytes (i_snk w1) = snk_bytes k ++ out /\
    (exists w2 : io,
       lzma2_decompress_top fuel' {| i_src := src_of (out ++ trail) frag' None; i_snk := k2 |} = (Done tt, w2) /\
       snk_bytes (i_snk w2) = snk_bytes k2 ++ data /\
       k_flushes (i_snk w2) = k_flushes k2 + 1 /\ s_rest (i_src w2) = trail).
Proof. exact (@lzma2_round_trip). Qed.
Check C04_lzma2_round_trip :
  forall (fuel fuel' : positive) (data : list N) (frag frag' : N -> N) (k k2 : snk) (trail : list N),
  k_wfail k = None ->
  k_wfail k2 = None ->
  k_ffail k2 = false ->
  nlen data < N.pos fuel ->
  nlen data < N.pos fuel' ->
  exists (w1 : io) (out : list N),
    lzma2_compress fuel {| i_src := src_of data frag None; i_snk := k |} = (Done tt, w1) /\
    snk_bytes (i_snk w1) = snk_bytes k ++ out /\
    (exists w2 : io,
       lzma2_decompress_top fuel' {| i_src := src_of (out ++ trail) frag' None; i_snk := k2 |} = (Done tt, w2) /\
       snk_bytes (i_snk w2) = snk_bytes k2 ++ data /\
       k_flushes (i_snk w2) = k_flushes k2 + 1 /\ s_rest (i_src w2) = trail).
Print Assumptions C04_lzma2_round_trip.

(* xz_compress emits hdr ++ block ++ index ++ footer satisfying exactly the validity predicates of the XZ soundness theorem   [proved as xz_compress_valid in Proofs/XzEncConform.v] *)
Theorem C04_xz_compress_valid :
  forall crc32 crc64 : list N -> N,
  (forall l : list N, crc32 l < 4294967296) ->
  forall (fuel fuel' : positive) (data : list N) (frag : N -> N) (k : snk),
  k_wfail k = None ->
  nlen data < N.pos fuel ->
  nlen data < N.pos fuel' ->
  nlen data < 1152921504606846976 ->
  exists (w' : io) (chunks : list (list N)) (hdr : list N) (b : blk) (index footer : list N),
    xz_compress crc32 fuel {| i_src := src_of data frag None; i_snk := k |} = (Done tt, w') /\
    snk_bytes (i_snk w') = snk_bytes k ++ hdr ++ blk_bytes b ++ index ++ footer /\
    s_rest (i_src w') = [] /\
    k_wfail (i_snk w') = None /\
    header_bytes_ok crc32 CkNone hdr /\
    concat chunks = data /\
    Forall (fun c : list N => 1 <= nlen c <= 65536) chunks /\
    b_hs b = 2 /\
    b_hdr b = [0; 33; 1; 22; 0; 0; 0] /\
    b_hcrc b = le_bytes 4 (crc32 xz_block_header) /\
    b_payload b = concat (map (fun c : list N => 1 :: be_bytes 2 (nlen c - 1) ++ c) chunks) ++ [0] /\
    b_pad b = repeat 0 (N.to_nat (padding_of (12 + nlen (b_payload b)))) /\
    b_chk b = [] /\
    b_out b = data /\
    blk_ok crc32 crc64 fuel' CkNone b /\
    index_bytes_ok crc32 [blk_record b] index /\ footer_bytes_ok crc32 CkNone (nlen index) footer.
Proof. exact (@xz_compress_valid). Qed.
Check C04_xz_compress_valid :
  forall crc32 crc64 : list N -> N,
  (forall l : list N, crc32 l < 4294967296) ->
  forall (fuel fuel' : positive) (data : list N) (frag : N -> N) (k : snk),
  k_wfail k = None ->
  nlen data < N.pos fuel ->
  nlen data < N.pos fuel' ->
  nlen data < 1152921504606846976 ->
  exists (w' : io) (chunks : list (list N)) (hdr : list N) (b : blk) (index footer : list N),
    xz_compress crc32 fuel {| i_src := src_of data frag None; i_snk := k |} = (Done tt, w') /\
    snk_bytes (i_snk w') = snk_bytes k ++ hdr ++ blk_bytes b ++ index ++ footer /\
    s_rest (i_src w') = [] /\
    k_wfail (i_snk w') = None /\
    header_bytes_ok crc32 CkNone hdr /\
    concat chunks = data /\
    Forall (fun c : list N => 1 <= nlen c <= 65536) chunks /\
    b_hs b = 2 /\
    b_hdr b = [0; 33; 1; 22; 0; 0; 0] /\
    b_hcrc b = le_bytes 4 (crc32 xz_block_header) /\
    b_payload b = concat (map (fun c : list N => 1 :: be_bytes 2 (nlen c - 1) ++ c) chunks) ++ [0] /\
    b_pad b = repeat 0 (N.to_nat (padding_of (12 + nlen (b_payload b)))) /\
    b_chk b = [] /\
    b_out b = data /\
    blk_ok crc32 crc64 fuel' CkNone b /\
    index_bytes_ok crc32 [blk_record b] index /\ footer_bytes_ok crc32 CkNone (nlen index) footer.
Print Assumptions C04_xz_compress_valid.

(* XZ round trip   [proved as xz_round_trip in Proofs/XzRoundTrip.v] *)
Theorem C04_xz_round_trip :
  forall crc32 crc64 : list N -> N,
  (forall l : list N, crc32 l < 4294967296) ->
  forall (fuel fuel' : positive) (data : list N) (frag frag' : N -> N) (k k2 : snk),
  k_wfail k = None ->
  k_wfail k2 = None ->
  nlen data < N.pos fuel ->
  nlen data < N.pos fuel' ->
  1 < N.pos fuel' ->
  nlen data < 1152921504606846976 ->
  exists (w1 : io) (out : list N),
    xz_compress crc32 fuel {| i_src := src_of data frag None; i_snk := k |} = (Done tt, w1) /\
    snk_bytes (i_snk w1) = snk_bytes k ++ out /\
    (exists w2 : io,
       xz_decompress crc32 crc64 fuel' {| i_src := src_of out frag' None; i_snk := k2 |} = (Done tt, w2) /\
       snk_bytes (i_snk w2) = snk_bytes k2 ++ data /\ s_rest (i_src w2) = []).
Proof. exact (@xz_round_trip). Qed.
Check C04_xz_round_trip :
  forall crc32 crc64 : list N -> N,
  (forall l : list N, crc32 l < 4294967296) ->
  forall (fuel fuel' : positive) (data : list N) (frag frag' : N -> N) (k k2 : snk),
  k_wfail k = None ->
  k_wfail k2 = None ->
  nlen data < N.pos fuel ->
  nlen data < N.pos fuel' ->
  1 < N.pos fuel' ->
  nlen data < 1152921504606846976 ->
  exists (w1 : io) (out : list N),
    xz_compress crc32 fuel {| i_src := src_of data frag None; i_snk := k |} = (Done tt, w1) /\
    snk_bytes (i_snk w1) = snk_bytes k ++ out /\
    (exists w2 : io,
       xz_decompress crc32 crc64 fuel' {| i_src := src_of out frag' None; i_snk := k2 |} = (Done tt, w2) /\
       snk_bytes (i_snk w2) = snk_bytes k2 ++ data /\ s_rest (i_src w2) = []).
Print Assumptions C04_xz_round_trip.

From LZ Require Import Model.Stream Model.Enc Proofs.StreamSimLoop Proofs.StreamSimData Proofs.LzmaRoundTrip Proofs.StreamExact.

(* round trip through the streaming decoder: lzma_compress output fed in every division into write calls decodes back to the input (all encoder/decoder option pairings of the one-shot round-trip theorems)   [proved as stream_round_trip_gen in Proofs/StreamExact.v] *)
Theorem C04_stream_round_trip :
  forall (fuel : positive) (o : enc_unpacked) (o' : options) (data : list N) (frag1 : N -> N) (k1 k2 : snk),
  Forall (fun b : N => b < 256) data ->
  k_wfail k1 = None ->
  k_wfail k2 = None ->
  k_ffail k2 = false ->
  nlen data < N.pos fuel ->
  9 * nlen data + 50 < 4294967296 ->
  nlen (enc_field o) = HeaderRules.size_field_len (o_unpacked o') ->
  LzmaExactOpts.memlimit_ok (o_memlimit o') 8388608 ->
  HeaderRules.size_in_effect (o_unpacked o') (le_num (enc_field o)) = size_needed o data ->
  o_allow_incomplete o' = false ->
  exists (file : list N) (w1 : io),
    lzma_compress fuel o {| i_src := src_of data frag1 None; i_snk := k1 |} = (Done tt, w1) /\
    snk_bytes (i_snk w1) = snk_bytes k1 ++ file /\
    (forall pieces : list (list N),
     concat pieces = file ->
     exists k' : snk,
       drive (stream_new o' k2) pieces = (Done tt, k') /\
       snk_bytes k' = snk_bytes k2 ++ data /\ k_flushes k' = k_flushes k2 + 1).
Proof. exact (@stream_round_trip_gen). Qed.
Check C04_stream_round_trip :
  forall (fuel : positive) (o : enc_unpacked) (o' : options) (data : list N) (frag1 : N -> N) (k1 k2 : snk),
  Forall (fun b : N => b < 256) data ->
  k_wfail k1 = None ->
  k_wfail k2 = None ->
  k_ffail k2 = false ->
  nlen data < N.pos fuel ->
  9 * nlen data + 50 < 4294967296 ->
  nlen (enc_field o) = HeaderRules.size_field_len (o_unpacked o') ->
  LzmaExactOpts.memlimit_ok (o_memlimit o') 8388608 ->
  HeaderRules.size_in_effect (o_unpacked o') (le_num (enc_field o)) = size_needed o data ->
  o_allow_incomplete o' = false ->
  exists (file : list N) (w1 : io),
    lzma_compress fuel o {| i_src := src_of data frag1 None; i_snk := k1 |} = (Done tt, w1) /\
    snk_bytes (i_snk w1) = snk_bytes k1 ++ file /\
    (forall pieces : list (list N),
     concat pieces = file ->
     exists k' : snk,
       drive (stream_new o' k2) pieces = (Done tt, k') /\
       snk_bytes k' = snk_bytes k2 ++ data /\ k_flushes k' = k_flushes k2 + 1).
Print Assumptions C04_stream_round_trip.

(* the compressor output is a non-empty byte string of at most 42 * len + 60 bytes   [proved as lzma_compress_file in Proofs/StreamExact.v] *)
Theorem C04_lzma_compress_output_size :
  forall (fuel : positive) (o : enc_unpacked) (data : list N) (frag : N -> N) (k : snk),
  Forall (fun b : N => b < 256) data ->
  k_wfail k = None ->
  nlen data < N.pos fuel ->
  9 * nlen data + 50 < 4294967296 ->
  exists (w' : io) (file : list N),
    lzma_compress fuel o {| i_src := src_of data frag None; i_snk := k |} = (Done tt, w') /\
    snk_bytes (i_snk w') = snk_bytes k ++ file /\
    Forall (fun b : N => b < 256) file /\ file <> [] /\ nlen file <= 42 * nlen data + 60.
Proof. exact (@lzma_compress_file). Qed.
Check C04_lzma_compress_output_size :
  forall (fuel : positive) (o : enc_unpacked) (data : list N) (frag : N -> N) (k : snk),
  Forall (fun b : N => b < 256) data ->
  k_wfail k = None ->
  nlen data < N.pos fuel ->
  9 * nlen data + 50 < 4294967296 ->
  exists (w' : io) (file : list N),
    lzma_compress fuel o {| i_src := src_of data frag None; i_snk := k |} = (Done tt, w') /\
    snk_bytes (i_snk w') = snk_bytes k ++ file /\
    Forall (fun b : N => b < 256) file /\ file <> [] /\ nlen file <= 42 * nlen data + 60.
Print Assumptions C04_lzma_compress_output_size.
