(* C11 - Decoders consume exactly the compressed payload and nothing after it
   This file only pins statements; the proofs live in the files named below. *)
From LZ Require Import Base.Prelude Base.Prog Model.Io Model.Tables Model.LzBuffer Model.RangeDec Model.Lzma Model.Xz Format.RefEnc Proofs.IoLemmas Proofs.SymDecode Proofs.LzmaExactLoop Proofs.LzmaExact Proofs.IoInv Proofs.SrcMono Proofs.XzSound Proofs.XzUnsupported.

(* size-bounded LZMA: s_pos = length of header+payload and s_rest = the trailing bytes, untouched, for every reader fragmentation   [proved as lzma_decode_exact in Proofs/LzmaExact.v] *)
Theorem C11_lzma_sized_leaves_reader_after_payload :
  forall (fp : fprops) (dict_field size_field : N) (prog : list sym) (bytes out : list N) 
    (delta : N) (trail : list N) (ief : ienc) (frag : N -> N) (k : snk) (fuel : positive),
  f_lc fp <= 8 ->
  f_lp fp <= 4 ->
  f_pb fp <= 4 ->
  dict_field < 2 ^ 32 ->
  enc_lzma_gen false fp dict_field size_field prog delta = Some (bytes, out) ->
  final_ienc fp (Some (N.max dict_field 4096)) prog = Some ief ->
  size_field = 2 ^ 64 - 1 /\ ends_with_marker prog /\ delta = 0 /\ trail = [] \/
  size_field = nlen out /\ nlen out < 2 ^ 64 - 1 /\ no_marker prog /\ delta < i_range ief ->
  k_wfail k = None ->
  k_ffail k = false ->
  (length prog + 1 <= Pos.to_nat fuel)%nat ->
  exists w' : io,
    lzma_decompress fuel {| o_unpacked := ReadFromHeader; o_memlimit := None; o_allow_incomplete := false |}
      {| i_src := src_of (bytes ++ trail) frag None; i_snk := k |} = (Done tt, w') /\
    snk_bytes (i_snk w') = snk_bytes k ++ out /\
    k_flushes (i_snk w') = k_flushes k + 1 /\ s_pos (i_src w') = nlen bytes /\ s_rest (i_src w') = trail.
Proof. exact (@lzma_decode_exact). Qed.
Check C11_lzma_sized_leaves_reader_after_payload :
  forall (fp : fprops) (dict_field size_field : N) (prog : list sym) (bytes out : list N) 
    (delta : N) (trail : list N) (ief : ienc) (frag : N -> N) (k : snk) (fuel : positive),
  f_lc fp <= 8 ->
  f_lp fp <= 4 ->
  f_pb fp <= 4 ->
  dict_field < 2 ^ 32 ->
  enc_lzma_gen false fp dict_field size_field prog delta = Some (bytes, out) ->
  final_ienc fp (Some (N.max dict_field 4096)) prog = Some ief ->
  size_field = 2 ^ 64 - 1 /\ ends_with_marker prog /\ delta = 0 /\ trail = [] \/
  size_field = nlen out /\ nlen out < 2 ^ 64 - 1 /\ no_marker prog /\ delta < i_range ief ->
  k_wfail k = None ->
  k_ffail k = false ->
  (length prog + 1 <= Pos.to_nat fuel)%nat ->
  exists w' : io,
    lzma_decompress fuel {| o_unpacked := ReadFromHeader; o_memlimit := None; o_allow_incomplete := false |}
      {| i_src := src_of (bytes ++ trail) frag None; i_snk := k |} = (Done tt, w') /\
    snk_bytes (i_snk w') = snk_bytes k ++ out /\
    k_flushes (i_snk w') = k_flushes k + 1 /\ s_pos (i_src w') = nlen bytes /\ s_rest (i_src w') = trail.
Print Assumptions C11_lzma_sized_leaves_reader_after_payload.

(* the raw decoder embedded in a larger container: position advanced by exactly the payload length   [proved as raw_lzma_decode_exact in Proofs/LzmaExact.v] *)
Theorem C11_raw_lzma_leaves_reader_after_payload :
  forall (fp : fprops) (pr : props) (dict : N) (us memlimit : option N) (prog : list sym) 
    (delta : N) (trail payload out : list N) (ief : ienc) (dec : lzma_decoder) (s : src) 
    (k : snk) (fuel : positive),
  props_match pr fp ->
  1 <= dict ->
  dict <= match memlimit with
          | Some m => m
          | None => USIZE - 1
          end ->
  enc_payload_gen false fp (Some dict) prog delta = Some (payload, out) ->
  final_ienc fp (Some dict) prog = Some ief ->
  match us with
  | Some size => no_marker prog /\ size = nlen out /\ delta < i_range ief
  | None => ends_with_marker prog /\ delta = 0 /\ trail = []
  end ->
  lzma_decoder_new {| pr_props := pr; pr_dict := dict; pr_unpacked := us |} memlimit = Done dec ->
  FaultFree s ->
  s_rest s = payload ++ trail ->
  k_wfail k = None ->
  k_ffail k = false ->
  (length prog + 1 <= Pos.to_nat fuel)%nat ->
  exists (dec' : lzma_decoder) (w' : io),
    lzma_decoder_decompress fuel dec {| i_src := s; i_snk := k |} = (Done tt, (dec', w')) /\
    snk_bytes (i_snk w') = snk_bytes k ++ out /\
    k_flushes (i_snk w') = k_flushes k + 1 /\
    s_pos (i_src w') = s_pos s + nlen payload /\ s_rest (i_src w') = trail.
Proof. exact (@raw_lzma_decode_exact). Qed.
Check C11_raw_lzma_leaves_reader_after_payload :
  forall (fp : fprops) (pr : props) (dict : N) (us memlimit : option N) (prog : list sym) 
    (delta : N) (trail payload out : list N) (ief : ienc) (dec : lzma_decoder) (s : src) 
    (k : snk) (fuel : positive),
  props_match pr fp ->
  1 <= dict ->
  dict <= match memlimit with
          | Some m => m
          | None => USIZE - 1
          end ->
  enc_payload_gen false fp (Some dict) prog delta = Some (payload, out) ->
  final_ienc fp (Some dict) prog = Some ief ->
  match us with
  | Some size => no_marker prog /\ size = nlen out /\ delta < i_range ief
  | None => ends_with_marker prog /\ delta = 0 /\ trail = []
  end ->
  lzma_decoder_new {| pr_props := pr; pr_dict := dict; pr_unpacked := us |} memlimit = Done dec ->
  FaultFree s ->
  s_rest s = payload ++ trail ->
  k_wfail k = None ->
  k_ffail k = false ->
  (length prog + 1 <= Pos.to_nat fuel)%nat ->
  exists (dec' : lzma_decoder) (w' : io),
    lzma_decoder_decompress fuel dec {| i_src := s; i_snk := k |} = (Done tt, (dec', w')) /\
    snk_bytes (i_snk w') = snk_bytes k ++ out /\
    k_flushes (i_snk w') = k_flushes k + 1 /\
    s_pos (i_src w') = s_pos s + nlen payload /\ s_rest (i_src w') = trail.
Print Assumptions C11_raw_lzma_leaves_reader_after_payload.

(* LZMA with end marker rejects trailing bytes   [proved as lzma_trailing_rejected in Proofs/LzmaExact.v] *)
Theorem C11_lzma_marker_trailing_rejected :
  forall (fp : fprops) (dict_field : N) (prog : list sym) (bytes out : list N) (delta : N) 
    (trail : list N) (ief : ienc) (frag : N -> N) (k : snk) (fuel : positive),
  f_lc fp <= 8 ->
  f_lp fp <= 4 ->
  f_pb fp <= 4 ->
  dict_field < 2 ^ 32 ->
  enc_lzma_gen false fp dict_field (2 ^ 64 - 1) prog delta = Some (bytes, out) ->
  final_ienc fp (Some (N.max dict_field 4096)) prog = Some ief ->
  delta < i_range ief ->
  ends_with_marker prog ->
  trail <> [] ->
  k_wfail k = None ->
  k_ffail k = false ->
  (length prog + 1 <= Pos.to_nat fuel)%nat ->
  exists w' : io,
    lzma_decompress fuel {| o_unpacked := ReadFromHeader; o_memlimit := None; o_allow_incomplete := false |}
      {| i_src := src_of (bytes ++ trail) frag None; i_snk := k |} = (Failed ELzma, w').
Proof. exact (@lzma_trailing_rejected). Qed.
Check C11_lzma_marker_trailing_rejected :
  forall (fp : fprops) (dict_field : N) (prog : list sym) (bytes out : list N) (delta : N) 
    (trail : list N) (ief : ienc) (frag : N -> N) (k : snk) (fuel : positive),
  f_lc fp <= 8 ->
  f_lp fp <= 4 ->
  f_pb fp <= 4 ->
  dict_field < 2 ^ 32 ->
  enc_lzma_gen false fp dict_field (2 ^ 64 - 1) prog delta = Some (bytes, out) ->
  final_ienc fp (Some (N.max dict_field 4096)) prog = Some ief ->
  delta < i_range ief ->
  ends_with_marker prog ->
  trail <> [] ->
  k_wfail k = None ->
  k_ffail k = false ->
  (length prog + 1 <= Pos.to_nat fuel)%nat ->
  exists w' : io,
    lzma_decompress fuel {| o_unpacked := ReadFromHeader; o_memlimit := None; o_allow_incomplete := false |}
      {| i_src := src_of (bytes ++ trail) frag None; i_snk := k |} = (Failed ELzma, w').
Print Assumptions C11_lzma_marker_trailing_rejected.

(* XZ: success implies nothing is left after the footer   [proved as success_consumes_everything in Proofs/XzUnsupported.v] *)
Theorem C11_xz_trailing_rejected :
  forall (crc32 crc64 : list N -> N) (fuel : positive) (w w' : io),
  xz_decompress crc32 crc64 fuel w = (Done tt, w') ->
  s_limit (i_src w) = None ->
  s_rest (i_src w') = [] /\ s_pos (i_src w') = s_pos (i_src w) + nlen (s_rest (i_src w)).
Proof. exact (@success_consumes_everything). Qed.
Check C11_xz_trailing_rejected :
  forall (crc32 crc64 : list N -> N) (fuel : positive) (w w' : io),
  xz_decompress crc32 crc64 fuel w = (Done tt, w') ->
  s_limit (i_src w) = None ->
  s_rest (i_src w') = [] /\ s_pos (i_src w') = s_pos (i_src w) + nlen (s_rest (i_src w)).
Print Assumptions C11_xz_trailing_rejected.

From LZ Require Import Model.Lzma2 Format.Lzma2Fmt Proofs.Lzma2ExactWf Proofs.Lzma2Exact.

(* LZMA2: after success the reader is positioned just after the end control byte and the trailing bytes are untouched, for every reader fragmentation   [proved as lzma2_decode_exact in Proofs/Lzma2Exact.v] *)
Theorem C11_lzma2_leaves_reader_after_end_byte :
  forall (cs : list chunk) (bytes out trail : list N) (frag : N -> N) (k : snk) (fuel : positive),
  ser2_gen false cs = Some (bytes, out) ->
  Lzma2ExactChunk.wf_seq cs ->
  k_wfail k = None ->
  k_ffail k = false ->
  fuel_ok fuel cs ->
  exists w' : io,
    lzma2_decompress_top fuel {| i_src := src_of (bytes ++ trail) frag None; i_snk := k |} = (Done tt, w') /\
    snk_bytes (i_snk w') = snk_bytes k ++ out /\
    k_flushes (i_snk w') = k_flushes k + 1 /\ s_pos (i_src w') = nlen bytes /\ s_rest (i_src w') = trail.
Proof. exact (@lzma2_decode_exact). Qed.
Check C11_lzma2_leaves_reader_after_end_byte :
  forall (cs : list chunk) (bytes out trail : list N) (frag : N -> N) (k : snk) (fuel : positive),
  ser2_gen false cs = Some (bytes, out) ->
  Lzma2ExactChunk.wf_seq cs ->
  k_wfail k = None ->
  k_ffail k = false ->
  fuel_ok fuel cs ->
  exists w' : io,
    lzma2_decompress_top fuel {| i_src := src_of (bytes ++ trail) frag None; i_snk := k |} = (Done tt, w') /\
    snk_bytes (i_snk w') = snk_bytes k ++ out /\
    k_flushes (i_snk w') = k_flushes k + 1 /\ s_pos (i_src w') = nlen bytes /\ s_rest (i_src w') = trail.
Print Assumptions C11_lzma2_leaves_reader_after_end_byte.
