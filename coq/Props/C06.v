(* C06 - XZ integrity: success implies every check passed.
   This file only pins statements; the proofs live in Proofs/XzSound.v (with Proofs/IoInv.v, Proofs/SrcMono.v).
   crc32 / crc64 are arbitrary functions: the theorems hold for the real CRCs in particular. *)
From LZ Require Import Base.Prelude Base.Prog Model.Io Model.Xz Proofs.IoInv Proofs.SrcMono Proofs.XzSound.

(* the whole statement: on success the complete remaining input IS one well-formed stream whose every integrity
   field agrees with the decoded data, nothing follows the footer, and the sink received exactly the blocks' outputs *)
Theorem C06_xz_sound : forall (crc32 crc64 : list N -> N) (fuel : positive) (w w' : io),
  xz_decompress crc32 crc64 fuel w = (Done tt, w') ->
  s_limit (i_src w) = None ->
  exists (ck : check_method) (hdr : list N) (blocks : list blk) (index footer : list N),
    s_rest (i_src w) = hdr ++ concat (map blk_bytes blocks) ++ index ++ footer /\
    s_rest (i_src w') = [] /\
    s_pos (i_src w') = s_pos (i_src w) + nlen (s_rest (i_src w)) /\
    header_bytes_ok crc32 ck hdr /\
    Forall (blk_ok crc32 crc64 fuel ck) blocks /\
    index_bytes_ok crc32 (map blk_record blocks) index /\
    footer_bytes_ok crc32 ck (nlen index) footer /\
    snk_bytes (i_snk w') = snk_bytes (i_snk w) ++ concat (map b_out blocks).
Proof. exact xz_decompress_sound. Qed.
Check C06_xz_sound : forall (crc32 crc64 : list N -> N) (fuel : positive) (w w' : io),
  xz_decompress crc32 crc64 fuel w = (Done tt, w') ->
  s_limit (i_src w) = None ->
  exists (ck : check_method) (hdr : list N) (blocks : list blk) (index footer : list N),
    s_rest (i_src w) = hdr ++ concat (map blk_bytes blocks) ++ index ++ footer /\
    s_rest (i_src w') = [] /\
    s_pos (i_src w') = s_pos (i_src w) + nlen (s_rest (i_src w)) /\
    header_bytes_ok crc32 ck hdr /\
    Forall (blk_ok crc32 crc64 fuel ck) blocks /\
    index_bytes_ok crc32 (map blk_record blocks) index /\
    footer_bytes_ok crc32 ck (nlen index) footer /\
    snk_bytes (i_snk w') = snk_bytes (i_snk w) ++ concat (map b_out blocks).
Print Assumptions C06_xz_sound.

(* footer: CRC32, equal flags, magic, and backward size against the real index size in unbounded arithmetic *)
Theorem C06_footer_checked : forall (crc32 crc64 : list N -> N) (ck : check_method) (index_size : N) (w w' : io),
  run_io (xz_footer crc32 ck index_size) w = (Done tt, w') ->
  exists (cb bs : list N) (b0 b1 : N),
    reads w w' (cb ++ bs ++ [b0; b1] ++ XZ_MAGIC_FOOTER) /\
    length cb = 4%nat /\ length bs = 4%nat /\
    index_size = 4 * (le_num bs + 1) /\
    b0 = 0 /\ check_of_id b1 = Some ck /\ le_num cb = crc32 (bs ++ [b0; b1]) /\
    (s_limit (i_src w) = None -> s_rest (i_src w') = []).
Proof. exact xz_footer_ok. Qed.
Check C06_footer_checked : forall (crc32 crc64 : list N -> N) (ck : check_method) (index_size : N) (w w' : io),
  run_io (xz_footer crc32 ck index_size) w = (Done tt, w') ->
  exists (cb bs : list N) (b0 b1 : N),
    reads w w' (cb ++ bs ++ [b0; b1] ++ XZ_MAGIC_FOOTER) /\
    length cb = 4%nat /\ length bs = 4%nat /\
    index_size = 4 * (le_num bs + 1) /\
    b0 = 0 /\ check_of_id b1 = Some ck /\ le_num cb = crc32 (bs ++ [b0; b1]) /\
    (s_limit (i_src w) = None -> s_rest (i_src w') = []).
Print Assumptions C06_footer_checked.

(* one block: header CRC, declared sizes, zero padding, block check = CRC of the output, sink receives the output *)
Theorem C06_block_checked : forall (crc32 crc64 : list N -> N) (fuel : positive) (start : N) (ck : check_method) (hs : N) (w : io) (r : record) (w' : io),
  read_block crc32 crc64 fuel start ck hs w = (Done r, w') ->
  s_limit (i_src w) = None ->
  exists b : blk,
    b_hs b = hs /\
    blk_ok_gen crc32 crc64 fuel ck (s_pos (i_src w) + nlen (b_hdr b ++ b_hcrc b ++ b_payload b) - start) b /\
    sadv (i_src w) (i_src w') (b_hdr b ++ b_hcrc b ++ b_payload b ++ b_pad b ++ b_chk b) /\
    snk_bytes (i_snk w') = snk_bytes (i_snk w) ++ b_out b /\
    r = {| rc_unpadded := s_pos (i_src w) + nlen (b_hdr b ++ b_hcrc b ++ b_payload b ++ b_chk b) - start; rc_unpacked := nlen (b_out b) |}.
Proof. exact read_block_ok. Qed.
Check C06_block_checked : forall (crc32 crc64 : list N -> N) (fuel : positive) (start : N) (ck : check_method) (hs : N) (w : io) (r : record) (w' : io),
  read_block crc32 crc64 fuel start ck hs w = (Done r, w') ->
  s_limit (i_src w) = None ->
  exists b : blk,
    b_hs b = hs /\
    blk_ok_gen crc32 crc64 fuel ck (s_pos (i_src w) + nlen (b_hdr b ++ b_hcrc b ++ b_payload b) - start) b /\
    sadv (i_src w) (i_src w') (b_hdr b ++ b_hcrc b ++ b_payload b ++ b_pad b ++ b_chk b) /\
    snk_bytes (i_snk w') = snk_bytes (i_snk w) ++ b_out b /\
    r = {| rc_unpadded := s_pos (i_src w) + nlen (b_hdr b ++ b_hcrc b ++ b_payload b ++ b_chk b) - start; rc_unpacked := nlen (b_out b) |}.
Print Assumptions C06_block_checked.

(* index: record count, per-block sizes, zero padding, CRC32 *)
Theorem C06_index_checked : forall (crc32 : list N -> N) (start : N) (records : list record) (w w' : io),
  run_io (check_index crc32 start records) w = (Done tt, w') ->
  exists (b0 : list N) (cs : list (list N)) (pad cb : list N),
    reads w w' (b0 ++ concat cs ++ pad ++ cb) /\
    mb_decodes b0 (nlen records) /\
    Forall2 rec_enc records cs /\
    (let count := s_pos (i_src w) + nlen (b0 ++ concat cs) - start in
     pad = repeat 0 (N.to_nat (padding_of count)) /\ (count + nlen pad) mod 4 = 0) /\
    length cb = 4%nat /\ le_num cb = crc32 (0 :: b0 ++ concat cs ++ pad).
Proof. exact check_index_ok. Qed.
Check C06_index_checked : forall (crc32 : list N -> N) (start : N) (records : list record) (w w' : io),
  run_io (check_index crc32 start records) w = (Done tt, w') ->
  exists (b0 : list N) (cs : list (list N)) (pad cb : list N),
    reads w w' (b0 ++ concat cs ++ pad ++ cb) /\
    mb_decodes b0 (nlen records) /\
    Forall2 rec_enc records cs /\
    (let count := s_pos (i_src w) + nlen (b0 ++ concat cs) - start in
     pad = repeat 0 (N.to_nat (padding_of count)) /\ (count + nlen pad) mod 4 = 0) /\
    length cb = 4%nat /\ le_num cb = crc32 (0 :: b0 ++ concat cs ++ pad).
Print Assumptions C06_index_checked.

From LZ Require Import Model.Crc Model.Xz Proofs.CrcDetect Proofs.CrcDetectXz.

(* the executable CRC-32 of the model (table driven, reflected 0xEDB88320) changes under EVERY single-bit flip of a message of any length   [proved as crc32_detects_single_bit in Proofs/CrcDetect.v] *)
Theorem C06_crc32_detects_single_bit :
  forall (m : list N) (p : N), p < 8 * nlen m -> crc32_exec (flip_bit m p) <> crc32_exec m.
Proof. exact (@crc32_detects_single_bit). Qed.
Check C06_crc32_detects_single_bit :
  forall (m : list N) (p : N), p < 8 * nlen m -> crc32_exec (flip_bit m p) <> crc32_exec m.
Print Assumptions C06_crc32_detects_single_bit.

(* the same for CRC-64/XZ   [proved as crc64_detects_single_bit in Proofs/CrcDetect.v] *)
Theorem C06_crc64_detects_single_bit :
  forall (m : list N) (p : N), p < 8 * nlen m -> crc64_exec (flip_bit m p) <> crc64_exec m.
Proof. exact (@crc64_detects_single_bit). Qed.
Check C06_crc64_detects_single_bit :
  forall (m : list N) (p : N), p < 8 * nlen m -> crc64_exec (flip_bit m p) <> crc64_exec m.
Print Assumptions C06_crc64_detects_single_bit.

(* and under every non-zero error pattern confined to 32 consecutive bits   [proved as crc32_detects_burst32 in Proofs/CrcDetect.v] *)
Theorem C06_crc32_detects_burst32 :
  forall (m : list N) (s B : N),
  0 < B ->
  B < 2 ^ 32 ->
  N.shiftl B s < 2 ^ (8 * nlen m) ->
  crc32_exec (lxor_list m (le_bytes (length m) (N.shiftl B s))) <> crc32_exec m.
Proof. exact (@crc32_detects_burst32). Qed.
Check C06_crc32_detects_burst32 :
  forall (m : list N) (s B : N),
  0 < B ->
  B < 2 ^ 32 ->
  N.shiftl B s < 2 ^ (8 * nlen m) ->
  crc32_exec (lxor_list m (le_bytes (length m) (N.shiftl B s))) <> crc32_exec m.
Print Assumptions C06_crc32_detects_burst32.

(* linearity (affine form) of CRC-32 over equal-length messages, by induction - the table step equals the bit-serial step   [proved as crc32_affine in Proofs/CrcDetect.v] *)
Theorem C06_crc32_affine :
  forall a b : list N,
  length a = length b ->
  crc32_exec (lxor_list a b) = N.lxor (N.lxor (crc32_exec a) (crc32_exec b)) (crc32_exec (repeat 0 (length a))).
Proof. exact (@crc32_affine). Qed.
Check C06_crc32_affine :
  forall a b : list N,
  length a = length b ->
  crc32_exec (lxor_list a b) = N.lxor (N.lxor (crc32_exec a) (crc32_exec b)) (crc32_exec (repeat 0 (length a))).
Print Assumptions C06_crc32_affine.

(* consequence for files: an accepted .xz file with ONE bit flipped in the stream header (incl. its CRC), in the first block header or its CRC, or anywhere in the index / footer (incl. their CRCs) is rejected   [proved as xz_bit_flip_rejected_header_index_footer in Proofs/CrcDetectXz.v] *)
Theorem C06_xz_bit_flip_rejected_header_index_footer :
  xz_bit_flip_rejected_in
    (fun (F : list N) (p : N) =>
     p < 96 \/
     nth 12 F 0 <> 0 /\ 8 * 13 <= p < 8 * (12 + 4 * nth 12 F 0 + 4) \/
     8 * (nlen F - 12 - xz_declared_index_size F) <= p < 8 * nlen F).
Proof. exact (@xz_bit_flip_rejected_header_index_footer). Qed.
Check C06_xz_bit_flip_rejected_header_index_footer :
  xz_bit_flip_rejected_in
    (fun (F : list N) (p : N) =>
     p < 96 \/
     nth 12 F 0 <> 0 /\ 8 * 13 <= p < 8 * (12 + 4 * nth 12 F 0 + 4) \/
     8 * (nlen F - 12 - xz_declared_index_size F) <= p < 8 * nlen F).
Print Assumptions C06_xz_bit_flip_rejected_header_index_footer.
