(* C02 - LZMA2 decoding is exact for every well-formed chunk sequence
   This file only pins statements; the proofs live in the files named below. *)
From LZ Require Import Base.Prelude Base.Prog Model.Io Model.Tables Model.LzBuffer Model.RangeDec Model.Lzma Model.Lzma2 Format.RefEnc Format.Lzma2Fmt Proofs.Lzma2ExactWf Proofs.Lzma2Exact.

(* every chunk sequence accepted by the reference serialiser ser2 and well formed (wf_seq: state reset in the first compressed chunk after a dictionary reset by an uncompressed chunk, no end marker inside chunks, flush offset inside the final interval): any mix of uncompressed and compressed chunks with every reset class, property changes, matches reaching into earlier chunks, sizes up to 64 KiB / 2 MiB; every reader fragmentation and non-failing sink: lzma2_decompress succeeds, the sink receives exactly the defined bytes, is flushed once, and the reader is left just after the end control byte (C11)   [proved as lzma2_decode_exact in Proofs/Lzma2Exact.v] *)
Theorem C02_lzma2_decode_exact :
  forall (cs : list chunk) (bytes out trail : list N) (frag : N -> N) (k : snk) (fuel : positive),
  ser2_gen false cs = Some (bytes, out) ->
  Lzma2ExactChunk.wf_seq cs ->
  k_wfail k = None ->
  k_ffail k = false ->
  fuel_ok fuel cs ->
  exists w' : io,
    lzma2_decompress_top fuel {| i_src := src_of (bytes ++ trail) frag None; i_snk := k |} = (Done tt, w') /\
    snk_bytes (i_snk w') = snk_bytes k ++ out /\
    k_flushes (i_snk w') = k_flushes k + 1 /\ s_pos (i_src w') = nlen bytes /\ s_rest (i_src w') = trail.
Proof. exact (@lzma2_decode_exact). Qed.
Check C02_lzma2_decode_exact :
  forall (cs : list chunk) (bytes out trail : list N) (frag : N -> N) (k : snk) (fuel : positive),
  ser2_gen false cs = Some (bytes, out) ->
  Lzma2ExactChunk.wf_seq cs ->
  k_wfail k = None ->
  k_ffail k = false ->
  fuel_ok fuel cs ->
  exists w' : io,
    lzma2_decompress_top fuel {| i_src := src_of (bytes ++ trail) frag None; i_snk := k |} = (Done tt, w') /\
    snk_bytes (i_snk w') = snk_bytes k ++ out /\
    k_flushes (i_snk w') = k_flushes k + 1 /\ s_pos (i_src w') = nlen bytes /\ s_rest (i_src w') = trail.
Print Assumptions C02_lzma2_decode_exact.

(* format-level: wf_seq establishes the matched-literal invariant at the start of every compressed chunk   [proved as wf_seq_rep0_ok in Proofs/Lzma2ExactWf.v] *)
Theorem C02_wf_seq_gives_rep0_ok :
  forall cs : list chunk, Lzma2ExactChunk.wf_seq cs -> starts_ok false l2state0 cs.
Proof. exact (@wf_seq_rep0_ok). Qed.
Check C02_wf_seq_gives_rep0_ok :
  forall cs : list chunk, Lzma2ExactChunk.wf_seq cs -> starts_ok false l2state0 cs.
Print Assumptions C02_wf_seq_gives_rep0_ok.
