(* C08 - LZMA size and end-of-stream rules
   This file only pins statements; the proofs live in the files named below. *)
From LZ Require Import Base.Prelude Base.Prog Model.Io Model.Tables Model.LzBuffer Model.RangeDec Model.Lzma Proofs.SizeRules.

(* size in effect: success implies exactly that many bytes went through the window (truncation, early marker and overshoot are therefore errors)   [proved as sized_success_is_exact in Proofs/SizeRules.v] *)
Theorem C08_sized_success_is_exact : forall fuel w w' n,
  ds_unpacked (l_ds w) = Some n ->
  process_mode FinishMode fuel w = (Done tt, w') ->
  win_len (l_win w') = n.
Proof. exact sized_success_is_exact. Qed.
Check C08_sized_success_is_exact : forall fuel w w' n,
  ds_unpacked (l_ds w) = Some n ->
  process_mode FinishMode fuel w = (Done tt, w') ->
  win_len (l_win w') = n.
Print Assumptions C08_sized_success_is_exact.

(* the same as a statement about every outcome   [proved as sized_mismatch_is_error in Proofs/SizeRules.v] *)
Theorem C08_sized_never_other : forall fuel w n,
  ds_unpacked (l_ds w) = Some n ->
  match process_mode FinishMode fuel w with
  | (Done _, w') => win_len (l_win w') = n
  | _ => True
  end.
Proof. exact sized_mismatch_is_error. Qed.
Check C08_sized_never_other : forall fuel w n,
  ds_unpacked (l_ds w) = Some n ->
  match process_mode FinishMode fuel w with
  | (Done _, w') => win_len (l_win w') = n
  | _ => True
  end.
Print Assumptions C08_sized_never_other.

(* no size in effect: success implies the end marker was decoded (rep0 = 0xFFFFFFFF) and the coder ended with code = 0   [proved as unsized_success_needs_marker in Proofs/SizeRules.v] *)
Theorem C08_unsized_success_needs_marker : forall fuel w w',
  ds_unpacked (l_ds w) = None ->
  process_mode FinishMode fuel w = (Done tt, w') ->
  rep0 (ds_rep (l_ds w')) = MARK /\ r_code (l_rc w') = 0.
Proof. exact unsized_success_needs_marker. Qed.
Check C08_unsized_success_needs_marker : forall fuel w w',
  ds_unpacked (l_ds w) = None ->
  process_mode FinishMode fuel w = (Done tt, w') ->
  rep0 (ds_rep (l_ds w')) = MARK /\ r_code (l_rc w') = 0.
Print Assumptions C08_unsized_success_needs_marker.

(* decoding never changes the size in effect   [proved as loop_unpacked in Proofs/SizeRules.v] *)
Theorem C08_size_in_effect_is_stable : forall mode fuel w,
  ds_unpacked (l_ds (res_state (loopN fuel (pm_body mode) w))) = ds_unpacked (l_ds w).
Proof. exact loop_unpacked. Qed.
Check C08_size_in_effect_is_stable : forall mode fuel w,
  ds_unpacked (l_ds (res_state (loopN fuel (pm_body mode) w))) = ds_unpacked (l_ds w).
Print Assumptions C08_size_in_effect_is_stable.
