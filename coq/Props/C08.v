(* C08 - LZMA size and end-of-stream rules
   This file only pins statements; the proofs live in the files named below. *)
From LZ Require Import Base.Prelude Base.Prog Model.Io Model.Tables Model.LzBuffer Model.RangeDec Model.Lzma Proofs.SizeRules.

(* size in effect: success implies exactly that many bytes went through the window (truncation, early marker and overshoot are therefore errors)   [proved as sized_success_is_exact in Proofs/SizeRules.v] *)
Theorem C08_sized_success_is_exact : forall fuel w w' n,
  ds_unpacked (l_ds w) = Some n ->
  process_mode FinishMode fuel w = (Done tt, w') ->
  win_len (l_win w') = n.
Proof. exact sized_success_is_exact. Qed.
Check C08_sized_success_is_exact : forall fuel w w' n,
  ds_unpacked (l_ds w) = Some n ->
  process_mode FinishMode fuel w = (Done tt, w') ->
  win_len (l_win w') = n.
Print Assumptions C08_sized_success_is_exact.

(* the same as a statement about every outcome   [proved as sized_mismatch_is_error in Proofs/SizeRules.v] *)
Theorem C08_sized_never_other : forall fuel w n,
  ds_unpacked (l_ds w) = Some n ->
  match process_mode FinishMode fuel w with
  | (Done _, w') => win_len (l_win w') = n
  | _ => True
  end.
Proof. exact sized_mismatch_is_error. Qed.
Check C08_sized_never_other : forall fuel w n,
  ds_unpacked (l_ds w) = Some n ->
  match process_mode FinishMode fuel w with
  | (Done _, w') => win_len (l_win w') = n
  | _ => True
  end.
Print Assumptions C08_sized_never_other.

(* no size in effect: success implies the end marker was decoded (rep0 = 0xFFFFFFFF) and the coder ended with code = 0   [proved as unsized_success_needs_marker in Proofs/SizeRules.v] *)
Theorem C08_unsized_success_needs_marker : forall fuel w w',
  ds_unpacked (l_ds w) = None ->
  process_mode FinishMode fuel w = (Done tt, w') ->
  rep0 (ds_rep (l_ds w')) = MARK /\ r_code (l_rc w') = 0.
Proof. exact unsized_success_needs_marker. Qed.
Check C08_unsized_success_needs_marker : forall fuel w w',
  ds_unpacked (l_ds w) = None ->
  process_mode FinishMode fuel w = (Done tt, w') ->
  rep0 (ds_rep (l_ds w')) = MARK /\ r_code (l_rc w') = 0.
Print Assumptions C08_unsized_success_needs_marker.

(* decoding never changes the size in effect   [proved as loop_unpacked in Proofs/SizeRules.v] *)
Theorem C08_size_in_effect_is_stable : forall mode fuel w,
  ds_unpacked (l_ds (res_state (loopN fuel (pm_body mode) w))) = ds_unpacked (l_ds w).
Proof. exact loop_unpacked. Qed.
Check C08_size_in_effect_is_stable : forall mode fuel w,
  ds_unpacked (l_ds (res_state (loopN fuel (pm_body mode) w))) = ds_unpacked (l_ds w).
Print Assumptions C08_size_in_effect_is_stable.

(* ---------- header options (proofs in Proofs/HeaderRules.v) ---------- *)
From LZ Require Import Proofs.IoLemmas Proofs.HeaderRules.

(* the three options consume 13 / 13 / 5 header bytes (header_len), whatever the fragmentation of the reader, and the size in
   effect is: the header field (all-ones = none) / the supplied value / the supplied value (size_in_effect) *)
Theorem C08_header_consumption_and_size_in_effect : forall (o : options) (s : src) (pbyte : N) (db ub t : list N),
  FaultFree s -> s_rest s = pbyte :: db ++ ub ++ t -> nlen db = 4 -> nlen ub = size_field_len (o_unpacked o) -> pbyte < 225 ->
  exists s' : src,
    src_run (map_io_err EHeaderTooShort (read_header o)) s =
    (Done {| pr_props := hdr_props pbyte; pr_dict := N.max 4096 (le_num db); pr_unpacked := size_in_effect (o_unpacked o) (le_num ub) |}, s') /\
    s_rest s' = t /\ s_pos s' = s_pos s + header_len (o_unpacked o) /\ FaultFree s'.
Proof. exact read_header_ok. Qed.
Check C08_header_consumption_and_size_in_effect : forall (o : options) (s : src) (pbyte : N) (db ub t : list N),
  FaultFree s -> s_rest s = pbyte :: db ++ ub ++ t -> nlen db = 4 -> nlen ub = size_field_len (o_unpacked o) -> pbyte < 225 ->
  exists s' : src,
    src_run (map_io_err EHeaderTooShort (read_header o)) s =
    (Done {| pr_props := hdr_props pbyte; pr_dict := N.max 4096 (le_num db); pr_unpacked := size_in_effect (o_unpacked o) (le_num ub) |}, s') /\
    s_rest s' = t /\ s_pos s' = s_pos s + header_len (o_unpacked o) /\ FaultFree s'.
Print Assumptions C08_header_consumption_and_size_in_effect.

(* end to end through lzma_decompress: with a size n in effect, success means the window saw exactly n bytes *)
Theorem C08_lzma_decompress_sized_exact : forall (fuel : positive) (o : options) (w w' : io) (pbyte : N) (db ub t : list N) (n : N),
  FaultFree (i_src w) -> s_rest (i_src w) = pbyte :: db ++ ub ++ t -> nlen db = 4 -> nlen ub = size_field_len (o_unpacked o) ->
  size_in_effect (o_unpacked o) (le_num ub) = Some n ->
  lzma_decompress fuel o w = (Done tt, w') ->
  pbyte < 225 /\
  (exists (s : src) (dec : lzma_decoder) (r : rc) (s2 : src) (x : lw) (c : circ),
     s_rest s = t /\ s_pos s = s_pos (i_src w) + header_len (o_unpacked o) /\
     lzma_decoder_new {| pr_props := hdr_props pbyte; pr_dict := N.max 4096 (le_num db); pr_unpacked := Some n |} (o_memlimit o) = Done dec /\
     src_run (map_io_err ELzma rc_new) s = (Done r, s2) /\
     process_mode FinishMode fuel
       {| l_ds := ld_state dec; l_rc := r; l_src := s2; l_win := WCirc (circ_new (i_snk w) (N.max 4096 (le_num db)) (ld_memlimit dec)) |} = (Done tt, x) /\
     l_win x = WCirc c /\ c_len c = n /\ circ_finish c = (Done tt, i_snk w') /\ i_src w' = l_src x).
Proof. exact lzma_decompress_sized_exact. Qed.
Check C08_lzma_decompress_sized_exact : forall (fuel : positive) (o : options) (w w' : io) (pbyte : N) (db ub t : list N) (n : N),
  FaultFree (i_src w) -> s_rest (i_src w) = pbyte :: db ++ ub ++ t -> nlen db = 4 -> nlen ub = size_field_len (o_unpacked o) ->
  size_in_effect (o_unpacked o) (le_num ub) = Some n ->
  lzma_decompress fuel o w = (Done tt, w') ->
  pbyte < 225 /\
  (exists (s : src) (dec : lzma_decoder) (r : rc) (s2 : src) (x : lw) (c : circ),
     s_rest s = t /\ s_pos s = s_pos (i_src w) + header_len (o_unpacked o) /\
     lzma_decoder_new {| pr_props := hdr_props pbyte; pr_dict := N.max 4096 (le_num db); pr_unpacked := Some n |} (o_memlimit o) = Done dec /\
     src_run (map_io_err ELzma rc_new) s = (Done r, s2) /\
     process_mode FinishMode fuel
       {| l_ds := ld_state dec; l_rc := r; l_src := s2; l_win := WCirc (circ_new (i_snk w) (N.max 4096 (le_num db)) (ld_memlimit dec)) |} = (Done tt, x) /\
     l_win x = WCirc c /\ c_len c = n /\ circ_finish c = (Done tt, i_snk w') /\ i_src w' = l_src x).
Print Assumptions C08_lzma_decompress_sized_exact.

From LZ Require Import Model.Stream Format.RefEnc Proofs.LzmaExactOpts Proofs.StreamSimLoop Proofs.StreamSimData Proofs.CutShortLzma Proofs.CutShort Proofs.StreamSize Proofs.StreamSizeFault.

(* "input that runs out first is an error": EVERY strict prefix of a well-formed .lzma file (cut in the header, the coder preamble, any symbol, the flush bytes) is rejected, for all three header options and every reader fragmentation   [proved as lzma_truncated_rejected_all_options in Proofs/CutShort.v] *)
Theorem C08_truncated_input_rejected :
  forall (fp : fprops) (dict_field : N) (field : list N) (prog : list sym) (payload out : list N) 
    (delta : N) (ief : ienc) (o : options) (frag : N -> N) (k : snk) (fuel : positive) 
    (cut : list N),
  f_lc fp <= 8 ->
  f_lp fp <= 4 ->
  f_pb fp <= 4 ->
  dict_field < 2 ^ 32 ->
  enc_payload_gen false fp (Some (N.max dict_field 4096)) prog delta = Some (payload, out) ->
  LzmaExact.final_ienc fp (Some (N.max dict_field 4096)) prog = Some ief ->
  nlen field = HeaderRules.size_field_len (o_unpacked o) ->
  memlimit_ok (o_memlimit o) (N.max dict_field 4096) ->
  stream_mode (HeaderRules.size_in_effect (o_unpacked o) (le_num field)) prog out delta [] ief ->
  k_wfail k = None ->
  k_ffail k = false ->
  (length prog + 1 <= Pos.to_nat fuel)%nat ->
  cut_of cut (hdr_bytes fp dict_field field ++ payload) ->
  exists (x : err) (w' : io),
    lzma_decompress fuel o {| i_src := src_of cut frag None; i_snk := k |} = (Failed x, w').
Proof. exact (@lzma_truncated_rejected_all_options). Qed.
Check C08_truncated_input_rejected :
  forall (fp : fprops) (dict_field : N) (field : list N) (prog : list sym) (payload out : list N) 
    (delta : N) (ief : ienc) (o : options) (frag : N -> N) (k : snk) (fuel : positive) 
    (cut : list N),
  f_lc fp <= 8 ->
  f_lp fp <= 4 ->
  f_pb fp <= 4 ->
  dict_field < 2 ^ 32 ->
  enc_payload_gen false fp (Some (N.max dict_field 4096)) prog delta = Some (payload, out) ->
  LzmaExact.final_ienc fp (Some (N.max dict_field 4096)) prog = Some ief ->
  nlen field = HeaderRules.size_field_len (o_unpacked o) ->
  memlimit_ok (o_memlimit o) (N.max dict_field 4096) ->
  stream_mode (HeaderRules.size_in_effect (o_unpacked o) (le_num field)) prog out delta [] ief ->
  k_wfail k = None ->
  k_ffail k = false ->
  (length prog + 1 <= Pos.to_nat fuel)%nat ->
  cut_of cut (hdr_bytes fp dict_field field ++ payload) ->
  exists (x : err) (w' : io),
    lzma_decompress fuel o {| i_src := src_of cut frag None; i_snk := k |} = (Failed x, w').
Print Assumptions C08_truncated_input_rejected.

(* format-independent form: if lzma_decompress accepts D ++ more having consumed more than |D| bytes then it rejects D (any options, any fragmentations)   [proved as lzma_cut_short_general in Proofs/CutShortLzma.v] *)
Theorem C08_accepted_input_cannot_be_cut :
  forall (fuel : positive) (o : options) (D more : list N) (frag frag' : N -> N) (k : snk) (w2' : io),
  lzma_decompress fuel o {| i_src := src_of (D ++ more) frag None; i_snk := k |} = (Done tt, w2') ->
  nlen D < s_pos (i_src w2') ->
  exists (x : err) (w1' : io),
    lzma_decompress fuel o {| i_src := src_of D frag' None; i_snk := k |} = (Failed x, w1').
Proof. exact (@lzma_cut_short_general). Qed.
Check C08_accepted_input_cannot_be_cut :
  forall (fuel : positive) (o : options) (D more : list N) (frag frag' : N -> N) (k : snk) (w2' : io),
  lzma_decompress fuel o {| i_src := src_of (D ++ more) frag None; i_snk := k |} = (Done tt, w2') ->
  nlen D < s_pos (i_src w2') ->
  exists (x : err) (w1' : io),
    lzma_decompress fuel o {| i_src := src_of D frag' None; i_snk := k |} = (Failed x, w1').
Print Assumptions C08_accepted_input_cannot_be_cut.

(* the size rule through the streaming API (via C05): drive Done with a size in effect means exactly that many bytes were produced, with no size in effect the end marker was decoded   [proved as stream_size_rule in Proofs/StreamSize.v] *)
Theorem C08_stream_size_rule :
  forall (o : options) (k : snk) (pieces : list (list N)) (pbyte : N) (db ub t : list N),
  o_allow_incomplete o = false ->
  concat pieces = pbyte :: db ++ ub ++ t ->
  nlen db = 4 ->
  nlen ub = HeaderRules.size_field_len (o_unpacked o) ->
  Forall (fun b : N => b < 256) (concat pieces) ->
  nlen (concat pieces) < 140737488355328 ->
  fst (drive (stream_new o k) pieces) = Done tt ->
  pbyte < 225 /\
  (exists (x : lw) (c : circ),
     oneshot_stages big_fuel o k (snd (drive (stream_new o k) pieces)) pbyte db
       (HeaderRules.size_in_effect (o_unpacked o) (le_num ub)) t x c /\
     (forall n : N, HeaderRules.size_in_effect (o_unpacked o) (le_num ub) = Some n -> c_len c = n) /\
     (HeaderRules.size_in_effect (o_unpacked o) (le_num ub) = None ->
      rep0 (ds_rep (l_ds x)) = SizeRules.MARK /\ r_code (l_rc x) = 0)).
Proof. exact (@stream_size_rule). Qed.
Check C08_stream_size_rule :
  forall (o : options) (k : snk) (pieces : list (list N)) (pbyte : N) (db ub t : list N),
  o_allow_incomplete o = false ->
  concat pieces = pbyte :: db ++ ub ++ t ->
  nlen db = 4 ->
  nlen ub = HeaderRules.size_field_len (o_unpacked o) ->
  Forall (fun b : N => b < 256) (concat pieces) ->
  nlen (concat pieces) < 140737488355328 ->
  fst (drive (stream_new o k) pieces) = Done tt ->
  pbyte < 225 /\
  (exists (x : lw) (c : circ),
     oneshot_stages big_fuel o k (snd (drive (stream_new o k) pieces)) pbyte db
       (HeaderRules.size_in_effect (o_unpacked o) (le_num ub)) t x c /\
     (forall n : N, HeaderRules.size_in_effect (o_unpacked o) (le_num ub) = Some n -> c_len c = n) /\
     (HeaderRules.size_in_effect (o_unpacked o) (le_num ub) = None ->
      rep0 (ds_rep (l_ds x)) = SizeRules.MARK /\ r_code (l_rc x) = 0)).
Print Assumptions C08_stream_size_rule.

(* the same down to the bytes that reached an arbitrary (short-writing, not yet failed) sink   [proved as stream_size_rule_any_sink in Proofs/StreamSizeFault.v] *)
Theorem C08_stream_size_rule_any_sink :
  forall (o : options) (k : snk) (pieces : list (list N)) (pbyte : N) (db ub t : list N),
  o_allow_incomplete o = false ->
  FaultTheorems.snk_hit k = false ->
  concat pieces = pbyte :: db ++ ub ++ t ->
  nlen db = 4 ->
  nlen ub = HeaderRules.size_field_len (o_unpacked o) ->
  Forall (fun b : N => b < 256) (concat pieces) ->
  nlen (concat pieces) < 140737488355328 ->
  fst (drive (stream_new o k) pieces) = Done tt ->
  exists out : list N,
    snk_bytes (snd (drive (stream_new o k) pieces)) = snk_bytes k ++ out /\
    (forall n : N, HeaderRules.size_in_effect (o_unpacked o) (le_num ub) = Some n -> nlen out = n).
Proof. exact (@stream_size_rule_any_sink). Qed.
Check C08_stream_size_rule_any_sink :
  forall (o : options) (k : snk) (pieces : list (list N)) (pbyte : N) (db ub t : list N),
  o_allow_incomplete o = false ->
  FaultTheorems.snk_hit k = false ->
  concat pieces = pbyte :: db ++ ub ++ t ->
  nlen db = 4 ->
  nlen ub = HeaderRules.size_field_len (o_unpacked o) ->
  Forall (fun b : N => b < 256) (concat pieces) ->
  nlen (concat pieces) < 140737488355328 ->
  fst (drive (stream_new o k) pieces) = Done tt ->
  exists out : list N,
    snk_bytes (snd (drive (stream_new o k) pieces)) = snk_bytes k ++ out /\
    (forall n : N, HeaderRules.size_in_effect (o_unpacked o) (le_num ub) = Some n -> nlen out = n).
Print Assumptions C08_stream_size_rule_any_sink.

(* the three header options consume 13 / 13 / 5 header bytes (+5 coder bytes) in the streaming API as well, for every chunking of the header   [proved as stream_header_bytes_count in Proofs/StreamSize.v] *)
Theorem C08_stream_header_bytes :
  forall (o : options) (k : snk) (ds : list (list N)) (pbyte : N) (db ub rcb t : list N),
  concat ds = pbyte :: db ++ ub ++ rcb ++ t ->
  pbyte < 225 ->
  nlen db = 4 ->
  nlen ub = HeaderRules.size_field_len (o_unpacked o) ->
  nlen rcb = 5 ->
  exists
    (ds1 : list (list N)) (d : list N) (ds2 : list (list N)) (s1 : stream) (n : N) (s2 : stream) 
  (r : run_state),
    ds = ds1 ++ d :: ds2 /\
    StreamFinish.fed (stream_new o k) ds1 s1 /\
    stream_write s1 d = (Done n, s2) /\
    n <= nlen d /\
    st_state s2 = Some (SData r) /\
    nlen (st_tmp s2) <= nlen (concat ds1) + n /\
    nlen (concat ds1) + n - nlen (st_tmp s2) = HeaderRules.header_len (o_unpacked o) + 5 /\
    HeaderRules.header_len (o_unpacked o) = match o_unpacked o with
                                            | UseProvided _ => 5
                                            | _ => 13
                                            end.
Proof. exact (@stream_header_bytes_count). Qed.
Check C08_stream_header_bytes :
  forall (o : options) (k : snk) (ds : list (list N)) (pbyte : N) (db ub rcb t : list N),
  concat ds = pbyte :: db ++ ub ++ rcb ++ t ->
  pbyte < 225 ->
  nlen db = 4 ->
  nlen ub = HeaderRules.size_field_len (o_unpacked o) ->
  nlen rcb = 5 ->
  exists
    (ds1 : list (list N)) (d : list N) (ds2 : list (list N)) (s1 : stream) (n : N) (s2 : stream) 
  (r : run_state),
    ds = ds1 ++ d :: ds2 /\
    StreamFinish.fed (stream_new o k) ds1 s1 /\
    stream_write s1 d = (Done n, s2) /\
    n <= nlen d /\
    st_state s2 = Some (SData r) /\
    nlen (st_tmp s2) <= nlen (concat ds1) + n /\
    nlen (concat ds1) + n - nlen (st_tmp s2) = HeaderRules.header_len (o_unpacked o) + 5 /\
    HeaderRules.header_len (o_unpacked o) = match o_unpacked o with
                                            | UseProvided _ => 5
                                            | _ => 13
                                            end.
Print Assumptions C08_stream_header_bytes.
