(* C08 - LZMA size and end-of-stream rules
   This file only pins statements; the proofs live in the files named below. *)
From LZ Require Import Base.Prelude Base.Prog Model.Io Model.Tables Model.LzBuffer Model.RangeDec Model.Lzma Proofs.SizeRules.

(* size in effect: success implies exactly that many bytes went through the window (truncation, early marker and overshoot are therefore errors)   [proved as sized_success_is_exact in Proofs/SizeRules.v] *)
Theorem C08_sized_success_is_exact : forall fuel w w' n,
  ds_unpacked (l_ds w) = Some n ->
  process_mode FinishMode fuel w = (Done tt, w') ->
  win_len (l_win w') = n.
Proof. exact sized_success_is_exact. Qed.
Check C08_sized_success_is_exact : forall fuel w w' n,
  ds_unpacked (l_ds w) = Some n ->
  process_mode FinishMode fuel w = (Done tt, w') ->
  win_len (l_win w') = n.
Print Assumptions C08_sized_success_is_exact.

(* the same as a statement about every outcome   [proved as sized_mismatch_is_error in Proofs/SizeRules.v] *)
Theorem C08_sized_never_other : forall fuel w n,
  ds_unpacked (l_ds w) = Some n ->
  match process_mode FinishMode fuel w with
  | (Done _, w') => win_len (l_win w') = n
  | _ => True
  end.
Proof. exact sized_mismatch_is_error. Qed.
Check C08_sized_never_other : forall fuel w n,
  ds_unpacked (l_ds w) = Some n ->
  match process_mode FinishMode fuel w with
  | (Done _, w') => win_len (l_win w') = n
  | _ => True
  end.
Print Assumptions C08_sized_never_other.

(* no size in effect: success implies the end marker was decoded (rep0 = 0xFFFFFFFF) and the coder ended with code = 0   [proved as unsized_success_needs_marker in Proofs/SizeRules.v] *)
Theorem C08_unsized_success_needs_marker : forall fuel w w',
  ds_unpacked (l_ds w) = None ->
  process_mode FinishMode fuel w = (Done tt, w') ->
  rep0 (ds_rep (l_ds w')) = MARK /\ r_code (l_rc w') = 0.
Proof. exact unsized_success_needs_marker. Qed.
Check C08_unsized_success_needs_marker : forall fuel w w',
  ds_unpacked (l_ds w) = None ->
  process_mode FinishMode fuel w = (Done tt, w') ->
  rep0 (ds_rep (l_ds w')) = MARK /\ r_code (l_rc w') = 0.
Print Assumptions C08_unsized_success_needs_marker.

(* decoding never changes the size in effect   [proved as loop_unpacked in Proofs/SizeRules.v] *)
Theorem C08_size_in_effect_is_stable : forall mode fuel w,
  ds_unpacked (l_ds (res_state (loopN fuel (pm_body mode) w))) = ds_unpacked (l_ds w).
Proof. exact loop_unpacked. Qed.
Check C08_size_in_effect_is_stable : forall mode fuel w,
  ds_unpacked (l_ds (res_state (loopN fuel (pm_body mode) w))) = ds_unpacked (l_ds w).
Print Assumptions C08_size_in_effect_is_stable.

(* ---------- header options (proofs in Proofs/HeaderRules.v) ---------- *)
From LZ Require Import Proofs.IoLemmas Proofs.HeaderRules.

(* the three options consume 13 / 13 / 5 header bytes (header_len), whatever the fragmentation of the reader, and the size in
   effect is: the header field (all-ones = none) / the supplied value / the supplied value (size_in_effect) *)
Theorem C08_header_consumption_and_size_in_effect : forall (o : options) (s : src) (pbyte : N) (db ub t : list N),
  FaultFree s -> s_rest s = pbyte :: db ++ ub ++ t -> nlen db = 4 -> nlen ub = size_field_len (o_unpacked o) -> pbyte < 225 ->
  exists s' : src,
    src_run (map_io_err EHeaderTooShort (read_header o)) s =
    (Done {| pr_props := hdr_props pbyte; pr_dict := N.max 4096 (le_num db); pr_unpacked := size_in_effect (o_unpacked o) (le_num ub) |}, s') /\
    s_rest s' = t /\ s_pos s' = s_pos s + header_len (o_unpacked o) /\ FaultFree s'.
Proof. exact read_header_ok. Qed.
Check C08_header_consumption_and_size_in_effect : forall (o : options) (s : src) (pbyte : N) (db ub t : list N),
  FaultFree s -> s_rest s = pbyte :: db ++ ub ++ t -> nlen db = 4 -> nlen ub = size_field_len (o_unpacked o) -> pbyte < 225 ->
  exists s' : src,
    src_run (map_io_err EHeaderTooShort (read_header o)) s =
    (Done {| pr_props := hdr_props pbyte; pr_dict := N.max 4096 (le_num db); pr_unpacked := size_in_effect (o_unpacked o) (le_num ub) |}, s') /\
    s_rest s' = t /\ s_pos s' = s_pos s + header_len (o_unpacked o) /\ FaultFree s'.
Print Assumptions C08_header_consumption_and_size_in_effect.

(* end to end through lzma_decompress: with a size n in effect, success means the window saw exactly n bytes *)
Theorem C08_lzma_decompress_sized_exact : forall (fuel : positive) (o : options) (w w' : io) (pbyte : N) (db ub t : list N) (n : N),
  FaultFree (i_src w) -> s_rest (i_src w) = pbyte :: db ++ ub ++ t -> nlen db = 4 -> nlen ub = size_field_len (o_unpacked o) ->
  size_in_effect (o_unpacked o) (le_num ub) = Some n ->
  lzma_decompress fuel o w = (Done tt, w') ->
  pbyte < 225 /\
  (exists (s : src) (dec : lzma_decoder) (r : rc) (s2 : src) (x : lw) (c : circ),
     s_rest s = t /\ s_pos s = s_pos (i_src w) + header_len (o_unpacked o) /\
     lzma_decoder_new {| pr_props := hdr_props pbyte; pr_dict := N.max 4096 (le_num db); pr_unpacked := Some n |} (o_memlimit o) = Done dec /\
     src_run (map_io_err ELzma rc_new) s = (Done r, s2) /\
     process_mode FinishMode fuel
       {| l_ds := ld_state dec; l_rc := r; l_src := s2; l_win := WCirc (circ_new (i_snk w) (N.max 4096 (le_num db)) (ld_memlimit dec)) |} = (Done tt, x) /\
     l_win x = WCirc c /\ c_len c = n /\ circ_finish c = (Done tt, i_snk w') /\ i_src w' = l_src x).
Proof. exact lzma_decompress_sized_exact. Qed.
Check C08_lzma_decompress_sized_exact : forall (fuel : positive) (o : options) (w w' : io) (pbyte : N) (db ub t : list N) (n : N),
  FaultFree (i_src w) -> s_rest (i_src w) = pbyte :: db ++ ub ++ t -> nlen db = 4 -> nlen ub = size_field_len (o_unpacked o) ->
  size_in_effect (o_unpacked o) (le_num ub) = Some n ->
  lzma_decompress fuel o w = (Done tt, w') ->
  pbyte < 225 /\
  (exists (s : src) (dec : lzma_decoder) (r : rc) (s2 : src) (x : lw) (c : circ),
     s_rest s = t /\ s_pos s = s_pos (i_src w) + header_len (o_unpacked o) /\
     lzma_decoder_new {| pr_props := hdr_props pbyte; pr_dict := N.max 4096 (le_num db); pr_unpacked := Some n |} (o_memlimit o) = Done dec /\
     src_run (map_io_err ELzma rc_new) s = (Done r, s2) /\
     process_mode FinishMode fuel
       {| l_ds := ld_state dec; l_rc := r; l_src := s2; l_win := WCirc (circ_new (i_snk w) (N.max 4096 (le_num db)) (ld_memlimit dec)) |} = (Done tt, x) /\
     l_win x = WCirc c /\ c_len c = n /\ circ_finish c = (Done tt, i_snk w') /\ i_src w' = l_src x).
Print Assumptions C08_lzma_decompress_sized_exact.
