(* C13 - Results do not depend on how the input reader fragments its data.
   This file only pins statements; the proofs live in Proofs/FragIo.v, FragLzma.v, FragLzma2.v, FragIndep.v. *)
From LZ Require Import Base.Prelude Base.Prog Model.Io Model.Lzma Model.Lzma2 Model.Xz Proofs.FragIo Proofs.FragIndep.

(* any two refill policies (buffer capacities, short-read patterns) over the same bytes: same verdict, same sink, same consumed count *)
Theorem C13_lzma_fragmentation_independent : forall (fuel : positive) (o : options) (data : list N) (frag1 frag2 : N -> N) (k : snk),
  let r1 := lzma_decompress fuel o {| i_src := src_of data frag1 None; i_snk := k |} in
  let r2 := lzma_decompress fuel o {| i_src := src_of data frag2 None; i_snk := k |} in
  fst r1 = fst r2 /\ i_snk (snd r1) = i_snk (snd r2) /\ s_pos (i_src (snd r1)) = s_pos (i_src (snd r2)).
Proof. exact lzma_frag_indep_src_of. Qed.
Check C13_lzma_fragmentation_independent : forall (fuel : positive) (o : options) (data : list N) (frag1 frag2 : N -> N) (k : snk),
  let r1 := lzma_decompress fuel o {| i_src := src_of data frag1 None; i_snk := k |} in
  let r2 := lzma_decompress fuel o {| i_src := src_of data frag2 None; i_snk := k |} in
  fst r1 = fst r2 /\ i_snk (snd r1) = i_snk (snd r2) /\ s_pos (i_src (snd r1)) = s_pos (i_src (snd r2)).
Print Assumptions C13_lzma_fragmentation_independent.

Theorem C13_lzma2_fragmentation_independent : forall (fuel : positive) (data : list N) (frag1 frag2 : N -> N) (k : snk),
  let r1 := lzma2_decompress_top fuel {| i_src := src_of data frag1 None; i_snk := k |} in
  let r2 := lzma2_decompress_top fuel {| i_src := src_of data frag2 None; i_snk := k |} in
  fst r1 = fst r2 /\ i_snk (snd r1) = i_snk (snd r2) /\ s_pos (i_src (snd r1)) = s_pos (i_src (snd r2)).
Proof. exact lzma2_frag_indep_src_of. Qed.
Check C13_lzma2_fragmentation_independent : forall (fuel : positive) (data : list N) (frag1 frag2 : N -> N) (k : snk),
  let r1 := lzma2_decompress_top fuel {| i_src := src_of data frag1 None; i_snk := k |} in
  let r2 := lzma2_decompress_top fuel {| i_src := src_of data frag2 None; i_snk := k |} in
  fst r1 = fst r2 /\ i_snk (snd r1) = i_snk (snd r2) /\ s_pos (i_src (snd r1)) = s_pos (i_src (snd r2)).
Print Assumptions C13_lzma2_fragmentation_independent.

Theorem C13_xz_fragmentation_independent : forall (crc32 crc64 : list N -> N) (fuel : positive) (data : list N) (frag1 frag2 : N -> N) (k : snk),
  let r1 := xz_decompress crc32 crc64 fuel {| i_src := src_of data frag1 None; i_snk := k |} in
  let r2 := xz_decompress crc32 crc64 fuel {| i_src := src_of data frag2 None; i_snk := k |} in
  fst r1 = fst r2 /\ i_snk (snd r1) = i_snk (snd r2) /\ s_pos (i_src (snd r1)) = s_pos (i_src (snd r2)).
Proof. exact xz_frag_indep_src_of. Qed.
Check C13_xz_fragmentation_independent : forall (crc32 crc64 : list N -> N) (fuel : positive) (data : list N) (frag1 frag2 : N -> N) (k : snk),
  let r1 := xz_decompress crc32 crc64 fuel {| i_src := src_of data frag1 None; i_snk := k |} in
  let r2 := xz_decompress crc32 crc64 fuel {| i_src := src_of data frag2 None; i_snk := k |} in
  fst r1 = fst r2 /\ i_snk (snd r1) = i_snk (snd r2) /\ s_pos (i_src (snd r1)) = s_pos (i_src (snd r2)).
Print Assumptions C13_xz_fragmentation_independent.

(* the general form: any two fault-free sources in any intermediate state (partly consumed buffers, Take limits) *)
Theorem C13_lzma_related_sources : forall (fuel : positive) (o : options) (w1 w2 : io),
  same_data (i_src w1) (i_src w2) -> i_snk w1 = i_snk w2 ->
  fst (lzma_decompress fuel o w1) = fst (lzma_decompress fuel o w2) /\
  i_snk (snd (lzma_decompress fuel o w1)) = i_snk (snd (lzma_decompress fuel o w2)) /\
  same_data (i_src (snd (lzma_decompress fuel o w1))) (i_src (snd (lzma_decompress fuel o w2))).
Proof. exact lzma_frag_indep. Qed.
Check C13_lzma_related_sources : forall (fuel : positive) (o : options) (w1 w2 : io),
  same_data (i_src w1) (i_src w2) -> i_snk w1 = i_snk w2 ->
  fst (lzma_decompress fuel o w1) = fst (lzma_decompress fuel o w2) /\
  i_snk (snd (lzma_decompress fuel o w1)) = i_snk (snd (lzma_decompress fuel o w2)) /\
  same_data (i_src (snd (lzma_decompress fuel o w1))) (i_src (snd (lzma_decompress fuel o w2))).
Print Assumptions C13_lzma_related_sources.
