(* C09 - Match references outside the produced window are always rejected
   This file only pins statements; the proofs live in the files named below. *)
From LZ Require Import Base.Prelude Base.Prog Model.Io Model.Tables Model.LzBuffer Model.RangeDec Model.Lzma Format.RefEnc Proofs.WinCirc Proofs.WinAccum.

(* circular window: a copy succeeds (and then equals the LZ77 copy of the history) iff 1 <= dist <= min(produced, dict); otherwise Err, window untouched   [proved as circ_append_lz_spec in Proofs/WinCirc.v] *)
Theorem C09_circ_copy_iff_in_window : forall pre b h len dist,
  CInv pre b h -> 1 <= dist ->
  if dist <=? N.min (nlen h) (c_dict b)
  then N.min (nlen h + len) (c_dict b) <= c_mem b ->
  exists b', circ_append_lz b len dist = (Done tt, b') /\
  CInv pre b' (lz_copy (N.to_nat len) h dist) /\
  c_dict b' = c_dict b /\ c_mem b' = c_mem b
  else circ_append_lz b len dist = (Failed ELzma, b).
Proof. exact circ_append_lz_spec. Qed.
Check C09_circ_copy_iff_in_window : forall pre b h len dist,
  CInv pre b h -> 1 <= dist ->
  if dist <=? N.min (nlen h) (c_dict b)
  then N.min (nlen h + len) (c_dict b) <= c_mem b ->
  exists b', circ_append_lz b len dist = (Done tt, b') /\
  CInv pre b' (lz_copy (N.to_nat len) h dist) /\
  c_dict b' = c_dict b /\ c_mem b' = c_mem b
  else circ_append_lz b len dist = (Failed ELzma, b).
Print Assumptions C09_circ_copy_iff_in_window.

(* circular window: the matched-literal read obeys the same guard; the zero default of get() is never observed   [proved as circ_last_n_spec in Proofs/WinCirc.v] *)
Theorem C09_circ_last_n_iff_in_window : forall pre b h dist,
  CInv pre b h -> 1 <= dist ->
  circ_last_n b dist =
  if dist <=? N.min (nlen h) (c_dict b)
  then (Done (nth (length h - N.to_nat dist) h 0), b) else (Failed ELzma, b).
Proof. exact circ_last_n_spec. Qed.
Check C09_circ_last_n_iff_in_window : forall pre b h dist,
  CInv pre b h -> 1 <= dist ->
  circ_last_n b dist =
  if dist <=? N.min (nlen h) (c_dict b)
  then (Done (nth (length h - N.to_nat dist) h 0), b) else (Failed ELzma, b).
Print Assumptions C09_circ_last_n_iff_in_window.

(* appending keeps the window equal to the history (no stale lap content can be read later)   [proved as circ_append_literal_spec in Proofs/WinCirc.v] *)
Theorem C09_circ_literal_refines : forall pre b h lit,
  CInv pre b h ->
  if N.min (nlen h + 1) (c_dict b) <=? c_mem b
  then exists b', circ_append_literal b lit = (Done tt, b') /\ CInv pre b' (h ++ [lit]) /\
  c_dict b' = c_dict b /\ c_mem b' = c_mem b
  else exists b', circ_append_literal b lit = (Failed ELzma, b') /\
  snk_bytes (c_snk b') = snk_bytes (c_snk b).
Proof. exact circ_append_literal_spec. Qed.
Check C09_circ_literal_refines : forall pre b h lit,
  CInv pre b h ->
  if N.min (nlen h + 1) (c_dict b) <=? c_mem b
  then exists b', circ_append_literal b lit = (Done tt, b') /\ CInv pre b' (h ++ [lit]) /\
  c_dict b' = c_dict b /\ c_mem b' = c_mem b
  else exists b', circ_append_literal b lit = (Failed ELzma, b') /\
  snk_bytes (c_snk b') = snk_bytes (c_snk b).
Print Assumptions C09_circ_literal_refines.

(* accumulating window (LZMA2): a copy succeeds iff 1 <= dist <= bytes since the last dictionary reset   [proved as accum_append_lz_spec in Proofs/WinAccum.v] *)
Theorem C09_accum_copy_iff_in_window : forall pre a h len dist,
  AInv pre a h -> 1 <= dist ->
  if dist <=? nlen h
  then exists a', accum_append_lz a len dist = (Done tt, a') /\
  AInv pre a' (lz_copy (N.to_nat len) h dist) /\ a_mem a' = a_mem a
  else accum_append_lz a len dist = (Failed ELzma, a).
Proof. exact accum_append_lz_spec. Qed.
Check C09_accum_copy_iff_in_window : forall pre a h len dist,
  AInv pre a h -> 1 <= dist ->
  if dist <=? nlen h
  then exists a', accum_append_lz a len dist = (Done tt, a') /\
  AInv pre a' (lz_copy (N.to_nat len) h dist) /\ a_mem a' = a_mem a
  else accum_append_lz a len dist = (Failed ELzma, a).
Print Assumptions C09_accum_copy_iff_in_window.

(* accumulating window: matched-literal read   [proved as accum_last_n_spec in Proofs/WinAccum.v] *)
Theorem C09_accum_last_n_iff_in_window : forall pre a h dist,
  AInv pre a h -> 1 <= dist ->
  accum_last_n a dist =
  if dist <=? nlen h then (Done (nth (length h - N.to_nat dist) h 0), a) else (Failed ELzma, a).
Proof. exact accum_last_n_spec. Qed.
Check C09_accum_last_n_iff_in_window : forall pre a h dist,
  AInv pre a h -> 1 <= dist ->
  accum_last_n a dist =
  if dist <=? nlen h then (Done (nth (length h - N.to_nat dist) h 0), a) else (Failed ELzma, a).
Print Assumptions C09_accum_last_n_iff_in_window.

(* a dictionary reset flushes and empties the history: earlier bytes are out of reach   [proved as accum_reset_spec in Proofs/WinAccum.v] *)
Theorem C09_accum_reset_forgets : forall pre a h,
  AInv pre a h ->
  exists a', accum_reset a = (Done tt, a') /\ AInv (pre ++ h) a' [] /\ a_mem a' = a_mem a /\
  k_ffail (a_snk a') = k_ffail (a_snk a) /\ k_flushes (a_snk a') = k_flushes (a_snk a).
Proof. exact accum_reset_spec. Qed.
Check C09_accum_reset_forgets : forall pre a h,
  AInv pre a h ->
  exists a', accum_reset a = (Done tt, a') /\ AInv (pre ++ h) a' [] /\ a_mem a' = a_mem a /\
  k_ffail (a_snk a') = k_ffail (a_snk a) /\ k_flushes (a_snk a') = k_flushes (a_snk a).
Print Assumptions C09_accum_reset_forgets.

From LZ Require Import Model.Lzma Format.RefEnc Proofs.SymDecode Proofs.OutOfWindowSym Proofs.OutOfWindow.

(* end to end: a well-formed program followed by a copy (match, short rep, rep0-3) whose distance exceeds min(bytes produced, dictionary) is rejected with Err by lzma_decompress for every reader fragmentation, and the sink holds a prefix of the well-formed part's output - no fabricated bytes   [proved as lzma_out_of_window_rejected in Proofs/OutOfWindow.v] *)
Theorem C09_lzma_out_of_window_rejected :
  forall (fp : fprops) (dict_field : N) (good : list sym) (bad : sym) (hg : hist) (bflag : bool)
    (bytes out_good trail : list N) (frag : N -> N) (k : snk) (fuel : positive) (ml : option N) 
    (ai : bool),
  f_lc fp <= 8 ->
  f_lp fp <= 4 ->
  f_pb fp <= 4 ->
  dict_field < 2 ^ 32 ->
  match ml with
  | Some m => N.max dict_field 4096 <= m
  | None => True
  end ->
  LzmaExact.no_marker good ->
  sem_from (Some (N.max dict_field 4096)) hist0 good = Some (hg, bflag) ->
  bad_copy (N.max dict_field 4096) hg bad ->
  enc_lzma_gen true fp dict_field (2 ^ 64 - 1) (good ++ [bad]) 0 = Some (bytes, out_good) ->
  k_wfail k = None ->
  k_ffail k = false ->
  (length good + 1 <= Pos.to_nat fuel)%nat ->
  exists w' : io,
    lzma_decompress fuel {| o_unpacked := ReadFromHeader; o_memlimit := ml; o_allow_incomplete := ai |}
      {| i_src := src_of (bytes ++ trail) frag None; i_snk := k |} = (Failed ELzma, w') /\
    sem (Some (N.max dict_field 4096)) good = Some out_good /\
    (exists t : list N, snk_bytes k ++ out_good = snk_bytes (i_snk w') ++ t).
Proof. exact (@lzma_out_of_window_rejected). Qed.
Check C09_lzma_out_of_window_rejected :
  forall (fp : fprops) (dict_field : N) (good : list sym) (bad : sym) (hg : hist) (bflag : bool)
    (bytes out_good trail : list N) (frag : N -> N) (k : snk) (fuel : positive) (ml : option N) 
    (ai : bool),
  f_lc fp <= 8 ->
  f_lp fp <= 4 ->
  f_pb fp <= 4 ->
  dict_field < 2 ^ 32 ->
  match ml with
  | Some m => N.max dict_field 4096 <= m
  | None => True
  end ->
  LzmaExact.no_marker good ->
  sem_from (Some (N.max dict_field 4096)) hist0 good = Some (hg, bflag) ->
  bad_copy (N.max dict_field 4096) hg bad ->
  enc_lzma_gen true fp dict_field (2 ^ 64 - 1) (good ++ [bad]) 0 = Some (bytes, out_good) ->
  k_wfail k = None ->
  k_ffail k = false ->
  (length good + 1 <= Pos.to_nat fuel)%nat ->
  exists w' : io,
    lzma_decompress fuel {| o_unpacked := ReadFromHeader; o_memlimit := ml; o_allow_incomplete := ai |}
      {| i_src := src_of (bytes ++ trail) frag None; i_snk := k |} = (Failed ELzma, w') /\
    sem (Some (N.max dict_field 4096)) good = Some out_good /\
    (exists t : list N, snk_bytes k ++ out_good = snk_bytes (i_snk w') ++ t).
Print Assumptions C09_lzma_out_of_window_rejected.

(* the same through the raw decoder for ANY dictionary size >= 1 (distances within the produced bytes but beyond a wrapped window)   [proved as raw_lzma_out_of_window_rejected in Proofs/OutOfWindow.v] *)
Theorem C09_raw_lzma_out_of_window_rejected :
  forall (fp : fprops) (pr : props) (dict : N) (us memlimit : option N) (good : list sym) 
    (bad : sym) (hg : hist) (bflag : bool) (trail payload out_good : list N) (dec : lzma_decoder) 
    (s : src) (k : snk) (fuel : positive),
  props_match pr fp ->
  1 <= dict ->
  dict <= match memlimit with
          | Some m => m
          | None => USIZE - 1
          end ->
  LzmaExact.no_marker good ->
  sem_from (Some dict) hist0 good = Some (hg, bflag) ->
  bad_copy dict hg bad ->
  enc_payload_gen true fp (Some dict) (good ++ [bad]) 0 = Some (payload, out_good) ->
  match us with
  | Some size => nlen out_good < size
  | None => True
  end ->
  lzma_decoder_new {| pr_props := pr; pr_dict := dict; pr_unpacked := us |} memlimit = Done dec ->
  IoLemmas.FaultFree s ->
  s_rest s = payload ++ trail ->
  k_wfail k = None ->
  k_ffail k = false ->
  (length good + 1 <= Pos.to_nat fuel)%nat ->
  exists (dec' : lzma_decoder) (w' : io),
    lzma_decoder_decompress fuel dec {| i_src := s; i_snk := k |} = (Failed ELzma, (dec', w')) /\
    sem (Some dict) good = Some out_good /\
    (exists t : list N, snk_bytes k ++ out_good = snk_bytes (i_snk w') ++ t).
Proof. exact (@raw_lzma_out_of_window_rejected). Qed.
Check C09_raw_lzma_out_of_window_rejected :
  forall (fp : fprops) (pr : props) (dict : N) (us memlimit : option N) (good : list sym) 
    (bad : sym) (hg : hist) (bflag : bool) (trail payload out_good : list N) (dec : lzma_decoder) 
    (s : src) (k : snk) (fuel : positive),
  props_match pr fp ->
  1 <= dict ->
  dict <= match memlimit with
          | Some m => m
          | None => USIZE - 1
          end ->
  LzmaExact.no_marker good ->
  sem_from (Some dict) hist0 good = Some (hg, bflag) ->
  bad_copy dict hg bad ->
  enc_payload_gen true fp (Some dict) (good ++ [bad]) 0 = Some (payload, out_good) ->
  match us with
  | Some size => nlen out_good < size
  | None => True
  end ->
  lzma_decoder_new {| pr_props := pr; pr_dict := dict; pr_unpacked := us |} memlimit = Done dec ->
  IoLemmas.FaultFree s ->
  s_rest s = payload ++ trail ->
  k_wfail k = None ->
  k_ffail k = false ->
  (length good + 1 <= Pos.to_nat fuel)%nat ->
  exists (dec' : lzma_decoder) (w' : io),
    lzma_decoder_decompress fuel dec {| i_src := s; i_snk := k |} = (Failed ELzma, (dec', w')) /\
    sem (Some dict) good = Some out_good /\
    (exists t : list N, snk_bytes k ++ out_good = snk_bytes (i_snk w') ++ t).
Print Assumptions C09_raw_lzma_out_of_window_rejected.

(* symbol level: the decoder consumes exactly the bad symbol's events and fails without touching the history   [proved as process_next_inner_rejects_bad_copy in Proofs/OutOfWindowSym.v] *)
Theorem C09_symbol_level_rejection :
  forall (dict : N) (p : props) (fp : fprops) (st : N) (h : hist) (s : sym) (rest : list ev),
  props_match p fp ->
  bad_copy dict h s ->
  interp (SymOracle.oracle (Some dict))
    (process_next_inner p {| y_state := st; y_rep := SymOracle.reps_of h |} true)
    (fst (sym_evs fp st h s) ++ rest, h) = (Failed ELzma, (rest, h)).
Proof. exact (@process_next_inner_rejects_bad_copy). Qed.
Check C09_symbol_level_rejection :
  forall (dict : N) (p : props) (fp : fprops) (st : N) (h : hist) (s : sym) (rest : list ev),
  props_match p fp ->
  bad_copy dict h s ->
  interp (SymOracle.oracle (Some dict))
    (process_next_inner p {| y_state := st; y_rep := SymOracle.reps_of h |} true)
    (fst (sym_evs fp st h s) ++ rest, h) = (Failed ELzma, (rest, h)).
Print Assumptions C09_symbol_level_rejection.

From LZ Require Import Model.Lzma2 Format.RefEnc Format.Lzma2Fmt Proofs.Lzma2Exact Proofs.OutOfWindowSym Proofs.OutOfWindowL2Sym Proofs.OutOfWindowL2Loop Proofs.OutOfWindowL2.

(* LZMA2 end to end, general position: after any well-formed chunk sequence, a compressed chunk whose program ends in a copy reaching beyond the bytes produced since the last dictionary reset is rejected (Failed) for ANY declared room >= 1 - also when the header leaves room for the whole copy - every fragmentation; the sink holds exactly the bytes before the last dictionary reset, a prefix of the legitimate output   [proved as lzma2_out_of_window_rejected in Proofs/OutOfWindowL2.v] *)
Theorem C09_lzma2_out_of_window_rejected :
  forall (cs1 : list chunk) (cls : N) (np : option fprops) (good : list sym) (bad : sym) 
    (delta room : N) (hg : hist) (bflag : bool) (b1 : list N) (s1 : l2state) (b2 : list N) 
    (s2 : l2state) (trail : list N) (frag : N -> N) (k : snk) (fuel : positive),
  Lzma2ExactChunk.wf_seq cs1 ->
  ser_chunks_gen false l2state0 cs1 = Some (b1, s1) ->
  (cls = 0 -> need_after false cs1 = false) ->
  Forall (fun x : sym => x <> EndMarker) good ->
  sem_from None (es_hist (Lzma2ExactChunk.c_es1 s1 cls np)) good = Some (hg, bflag) ->
  h_len hg <= 18446744073709551615 ->
  bad_copy2 hg bad ->
  1 <= room ->
  ser_lzma_room room s1 cls np (good ++ [bad]) delta = Some (b2, s2) ->
  delta_ok s1 cls np (good ++ [bad]) delta ->
  k_wfail k = None ->
  k_ffail k = false ->
  fuel_ok fuel (cs1 ++ [CLzma cls np good delta]) ->
  exists w' : io,
    lzma2_decompress_top fuel {| i_src := src_of ((b1 ++ b2) ++ trail) frag None; i_snk := k |} =
    (Failed ELzma, w') /\
    es_hist (l2_es s2) = hg /\
    snk_bytes (i_snk w') = snk_bytes k ++ lrev (l2_flushed s2) /\
    snk_bytes k ++ lrev (h_bytes hg ++ l2_flushed s2) = snk_bytes (i_snk w') ++ lrev (h_bytes hg).
Proof. exact (@lzma2_out_of_window_rejected). Qed.
Check C09_lzma2_out_of_window_rejected :
  forall (cs1 : list chunk) (cls : N) (np : option fprops) (good : list sym) (bad : sym) 
    (delta room : N) (hg : hist) (bflag : bool) (b1 : list N) (s1 : l2state) (b2 : list N) 
    (s2 : l2state) (trail : list N) (frag : N -> N) (k : snk) (fuel : positive),
  Lzma2ExactChunk.wf_seq cs1 ->
  ser_chunks_gen false l2state0 cs1 = Some (b1, s1) ->
  (cls = 0 -> need_after false cs1 = false) ->
  Forall (fun x : sym => x <> EndMarker) good ->
  sem_from None (es_hist (Lzma2ExactChunk.c_es1 s1 cls np)) good = Some (hg, bflag) ->
  h_len hg <= 18446744073709551615 ->
  bad_copy2 hg bad ->
  1 <= room ->
  ser_lzma_room room s1 cls np (good ++ [bad]) delta = Some (b2, s2) ->
  delta_ok s1 cls np (good ++ [bad]) delta ->
  k_wfail k = None ->
  k_ffail k = false ->
  fuel_ok fuel (cs1 ++ [CLzma cls np good delta]) ->
  exists w' : io,
    lzma2_decompress_top fuel {| i_src := src_of ((b1 ++ b2) ++ trail) frag None; i_snk := k |} =
    (Failed ELzma, w') /\
    es_hist (l2_es s2) = hg /\
    snk_bytes (i_snk w') = snk_bytes k ++ lrev (l2_flushed s2) /\
    snk_bytes k ++ lrev (h_bytes hg ++ l2_flushed s2) = snk_bytes (i_snk w') ++ lrev (h_bytes hg).
Print Assumptions C09_lzma2_out_of_window_rejected.

(* the instance where the declared size is exactly produced + copy length   [proved as lzma2_out_of_window_rejected_fit in Proofs/OutOfWindowL2.v] *)
Theorem C09_lzma2_out_of_window_rejected_fit :
  forall (cs1 : list chunk) (cls : N) (np : option fprops) (good : list sym) (bad : sym) 
    (delta : N) (hg : hist) (bflag : bool) (b1 : list N) (s1 : l2state) (b2 : list N) 
    (s2 : l2state) (trail : list N) (frag : N -> N) (k : snk) (fuel : positive),
  Lzma2ExactChunk.wf_seq cs1 ->
  ser_chunks_gen false l2state0 cs1 = Some (b1, s1) ->
  (cls = 0 -> need_after false cs1 = false) ->
  Forall (fun x : sym => x <> EndMarker) good ->
  sem_from None (es_hist (Lzma2ExactChunk.c_es1 s1 cls np)) good = Some (hg, bflag) ->
  h_len hg <= 18446744073709551615 ->
  bad_copy2 hg bad ->
  ser_lzma_room (copy_len bad) s1 cls np (good ++ [bad]) delta = Some (b2, s2) ->
  delta_ok s1 cls np (good ++ [bad]) delta ->
  k_wfail k = None ->
  k_ffail k = false ->
  fuel_ok fuel (cs1 ++ [CLzma cls np good delta]) ->
  exists w' : io,
    lzma2_decompress_top fuel {| i_src := src_of ((b1 ++ b2) ++ trail) frag None; i_snk := k |} =
    (Failed ELzma, w') /\
    es_hist (l2_es s2) = hg /\
    snk_bytes (i_snk w') = snk_bytes k ++ lrev (l2_flushed s2) /\
    snk_bytes k ++ lrev (h_bytes hg ++ l2_flushed s2) = snk_bytes (i_snk w') ++ lrev (h_bytes hg).
Proof. exact (@lzma2_out_of_window_rejected_fit). Qed.
Check C09_lzma2_out_of_window_rejected_fit :
  forall (cs1 : list chunk) (cls : N) (np : option fprops) (good : list sym) (bad : sym) 
    (delta : N) (hg : hist) (bflag : bool) (b1 : list N) (s1 : l2state) (b2 : list N) 
    (s2 : l2state) (trail : list N) (frag : N -> N) (k : snk) (fuel : positive),
  Lzma2ExactChunk.wf_seq cs1 ->
  ser_chunks_gen false l2state0 cs1 = Some (b1, s1) ->
  (cls = 0 -> need_after false cs1 = false) ->
  Forall (fun x : sym => x <> EndMarker) good ->
  sem_from None (es_hist (Lzma2ExactChunk.c_es1 s1 cls np)) good = Some (hg, bflag) ->
  h_len hg <= 18446744073709551615 ->
  bad_copy2 hg bad ->
  ser_lzma_room (copy_len bad) s1 cls np (good ++ [bad]) delta = Some (b2, s2) ->
  delta_ok s1 cls np (good ++ [bad]) delta ->
  k_wfail k = None ->
  k_ffail k = false ->
  fuel_ok fuel (cs1 ++ [CLzma cls np good delta]) ->
  exists w' : io,
    lzma2_decompress_top fuel {| i_src := src_of ((b1 ++ b2) ++ trail) frag None; i_snk := k |} =
    (Failed ELzma, w') /\
    es_hist (l2_es s2) = hg /\
    snk_bytes (i_snk w') = snk_bytes k ++ lrev (l2_flushed s2) /\
    snk_bytes k ++ lrev (h_bytes hg ++ l2_flushed s2) = snk_bytes (i_snk w') ++ lrev (h_bytes hg).
Print Assumptions C09_lzma2_out_of_window_rejected_fit.
