(* C09 - Match references outside the produced window are always rejected
   This file only pins statements; the proofs live in the files named below. *)
From LZ Require Import Base.Prelude Base.Prog Model.Io Model.Tables Model.LzBuffer Model.RangeDec Model.Lzma Format.RefEnc Proofs.WinCirc Proofs.WinAccum.

(* circular window: a copy succeeds (and then equals the LZ77 copy of the history) iff 1 <= dist <= min(produced, dict); otherwise Err, window untouched   [proved as circ_append_lz_spec in Proofs/WinCirc.v] *)
Theorem C09_circ_copy_iff_in_window : forall pre b h len dist,
  CInv pre b h -> 1 <= dist ->
  if dist <=? N.min (nlen h) (c_dict b)
  then N.min (nlen h + len) (c_dict b) <= c_mem b ->
  exists b', circ_append_lz b len dist = (Done tt, b') /\
  CInv pre b' (lz_copy (N.to_nat len) h dist) /\
  c_dict b' = c_dict b /\ c_mem b' = c_mem b
  else circ_append_lz b len dist = (Failed ELzma, b).
Proof. exact circ_append_lz_spec. Qed.
Check C09_circ_copy_iff_in_window : forall pre b h len dist,
  CInv pre b h -> 1 <= dist ->
  if dist <=? N.min (nlen h) (c_dict b)
  then N.min (nlen h + len) (c_dict b) <= c_mem b ->
  exists b', circ_append_lz b len dist = (Done tt, b') /\
  CInv pre b' (lz_copy (N.to_nat len) h dist) /\
  c_dict b' = c_dict b /\ c_mem b' = c_mem b
  else circ_append_lz b len dist = (Failed ELzma, b).
Print Assumptions C09_circ_copy_iff_in_window.

(* circular window: the matched-literal read obeys the same guard; the zero default of get() is never observed   [proved as circ_last_n_spec in Proofs/WinCirc.v] *)
Theorem C09_circ_last_n_iff_in_window : forall pre b h dist,
  CInv pre b h -> 1 <= dist ->
  circ_last_n b dist =
  if dist <=? N.min (nlen h) (c_dict b)
  then (Done (nth (length h - N.to_nat dist) h 0), b) else (Failed ELzma, b).
Proof. exact circ_last_n_spec. Qed.
Check C09_circ_last_n_iff_in_window : forall pre b h dist,
  CInv pre b h -> 1 <= dist ->
  circ_last_n b dist =
  if dist <=? N.min (nlen h) (c_dict b)
  then (Done (nth (length h - N.to_nat dist) h 0), b) else (Failed ELzma, b).
Print Assumptions C09_circ_last_n_iff_in_window.

(* appending keeps the window equal to the history (no stale lap content can be read later)   [proved as circ_append_literal_spec in Proofs/WinCirc.v] *)
Theorem C09_circ_literal_refines : forall pre b h lit,
  CInv pre b h ->
  if N.min (nlen h + 1) (c_dict b) <=? c_mem b
  then exists b', circ_append_literal b lit = (Done tt, b') /\ CInv pre b' (h ++ [lit]) /\
  c_dict b' = c_dict b /\ c_mem b' = c_mem b
  else exists b', circ_append_literal b lit = (Failed ELzma, b') /\
  snk_bytes (c_snk b') = snk_bytes (c_snk b).
Proof. exact circ_append_literal_spec. Qed.
Check C09_circ_literal_refines : forall pre b h lit,
  CInv pre b h ->
  if N.min (nlen h + 1) (c_dict b) <=? c_mem b
  then exists b', circ_append_literal b lit = (Done tt, b') /\ CInv pre b' (h ++ [lit]) /\
  c_dict b' = c_dict b /\ c_mem b' = c_mem b
  else exists b', circ_append_literal b lit = (Failed ELzma, b') /\
  snk_bytes (c_snk b') = snk_bytes (c_snk b).
Print Assumptions C09_circ_literal_refines.

(* accumulating window (LZMA2): a copy succeeds iff 1 <= dist <= bytes since the last dictionary reset   [proved as accum_append_lz_spec in Proofs/WinAccum.v] *)
Theorem C09_accum_copy_iff_in_window : forall pre a h len dist,
  AInv pre a h -> 1 <= dist ->
  if dist <=? nlen h
  then exists a', accum_append_lz a len dist = (Done tt, a') /\
  AInv pre a' (lz_copy (N.to_nat len) h dist) /\ a_mem a' = a_mem a
  else accum_append_lz a len dist = (Failed ELzma, a).
Proof. exact accum_append_lz_spec. Qed.
Check C09_accum_copy_iff_in_window : forall pre a h len dist,
  AInv pre a h -> 1 <= dist ->
  if dist <=? nlen h
  then exists a', accum_append_lz a len dist = (Done tt, a') /\
  AInv pre a' (lz_copy (N.to_nat len) h dist) /\ a_mem a' = a_mem a
  else accum_append_lz a len dist = (Failed ELzma, a).
Print Assumptions C09_accum_copy_iff_in_window.

(* accumulating window: matched-literal read   [proved as accum_last_n_spec in Proofs/WinAccum.v] *)
Theorem C09_accum_last_n_iff_in_window : forall pre a h dist,
  AInv pre a h -> 1 <= dist ->
  accum_last_n a dist =
  if dist <=? nlen h then (Done (nth (length h - N.to_nat dist) h 0), a) else (Failed ELzma, a).
Proof. exact accum_last_n_spec. Qed.
Check C09_accum_last_n_iff_in_window : forall pre a h dist,
  AInv pre a h -> 1 <= dist ->
  accum_last_n a dist =
  if dist <=? nlen h then (Done (nth (length h - N.to_nat dist) h 0), a) else (Failed ELzma, a).
Print Assumptions C09_accum_last_n_iff_in_window.

(* a dictionary reset flushes and empties the history: earlier bytes are out of reach   [proved as accum_reset_spec in Proofs/WinAccum.v] *)
Theorem C09_accum_reset_forgets : forall pre a h,
  AInv pre a h ->
  exists a', accum_reset a = (Done tt, a') /\ AInv (pre ++ h) a' [] /\ a_mem a' = a_mem a /\
  k_ffail (a_snk a') = k_ffail (a_snk a) /\ k_flushes (a_snk a') = k_flushes (a_snk a).
Proof. exact accum_reset_spec. Qed.
Check C09_accum_reset_forgets : forall pre a h,
  AInv pre a h ->
  exists a', accum_reset a = (Done tt, a') /\ AInv (pre ++ h) a' [] /\ a_mem a' = a_mem a /\
  k_ffail (a_snk a') = k_ffail (a_snk a) /\ k_flushes (a_snk a') = k_flushes (a_snk a).
Print Assumptions C09_accum_reset_forgets.
