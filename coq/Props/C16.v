(* C16 - A failed or completed stream stays failed or completed.
   This file only pins statements: proofs live in Proofs/StreamLatch.v. *)
From LZ Require Import Base.Prelude Base.Prog Model.Io Model.LzBuffer Model.Lzma Model.Stream Proofs.StreamLatch.

Theorem C16_failed_stays_failed : forall s d e s1 cs,
  stream_write s d = (Failed e, s1) ->
  Forall quiet (fst (run_calls s1 cs)) /\
  snd (run_calls s1 cs) = s1 /\
  stream_sink (snd (run_calls s1 cs)) = stream_sink s1 /\
  stream_finish (snd (run_calls s1 cs)) = (Failed ELzma, stream_sink s1).
Proof. exact failed_stays_failed. Qed.
Check C16_failed_stays_failed : forall s d e s1 cs,
  stream_write s d = (Failed e, s1) ->
  Forall quiet (fst (run_calls s1 cs)) /\
  snd (run_calls s1 cs) = s1 /\
  stream_sink (snd (run_calls s1 cs)) = stream_sink s1 /\
  stream_finish (snd (run_calls s1 cs)) = (Failed ELzma, stream_sink s1).
Print Assumptions C16_failed_stays_failed.

Theorem C16_failure_latches : forall s d r s',
  stream_write s d = (r, s') -> (forall n, r <> Done n) -> st_state s' = None.
Proof. exact write_not_ok_kills. Qed.
Check C16_failure_latches : forall s d r s',
  stream_write s d = (r, s') -> (forall n, r <> Done n) -> st_state s' = None.
Print Assumptions C16_failure_latches.

Theorem C16_completed_write_is_noop : forall s r d,
  st_state s = Some (SData r) -> size_reached r ->
  exists s', stream_write s d = (Done 0, s') /\ st_state s' = Some (SData r) /\ stream_sink s' = stream_sink s.
Proof. exact completed_stays_completed. Qed.
Check C16_completed_write_is_noop : forall s r d,
  st_state s = Some (SData r) -> size_reached r ->
  exists s', stream_write s d = (Done 0, s') /\ st_state s' = Some (SData r) /\ stream_sink s' = stream_sink s.
Print Assumptions C16_completed_write_is_noop.

Theorem C16_completed_stays_completed : forall cs s r,
  st_state s = Some (SData r) -> size_reached r -> k_ffail (c_snk (rs_out r)) = false ->
  Forall (fun x => x = RW (Done 0) \/ x = RF (Done tt)) (fst (run_calls s cs)) /\
  snk_bytes (stream_sink (snd (run_calls s cs))) = snk_bytes (stream_sink s).
Proof. exact completed_calls. Qed.
Check C16_completed_stays_completed : forall cs s r,
  st_state s = Some (SData r) -> size_reached r -> k_ffail (c_snk (rs_out r)) = false ->
  Forall (fun x => x = RW (Done 0) \/ x = RF (Done tt)) (fst (run_calls s cs)) /\
  snk_bytes (stream_sink (snd (run_calls s cs))) = snk_bytes (stream_sink s).
Print Assumptions C16_completed_stays_completed.

From LZ Require Import Proofs.NoPanicStream.

(* no sequence of write / flush calls followed by finish panics, for arbitrary input bytes, options and sink behaviour (fuel_only: the only conceivable Panicked value is the model artefact PFuel)   [proved as stream_never_panics in Proofs/NoPanicStream.v] *)
Theorem C16_no_call_sequence_panics :
  forall (o : Lzma.options) (k : Io.snk) (cs : list StreamLatch.call),
  List.Forall call_bytes cs ->
  List.Forall cres_fuel_only (fst (StreamLatch.run_calls (Stream.stream_new o k) cs)) /\
  fuel_only (fst (Stream.stream_finish (snd (StreamLatch.run_calls (Stream.stream_new o k) cs)))).
Proof. exact (@stream_never_panics). Qed.
Check C16_no_call_sequence_panics :
  forall (o : Lzma.options) (k : Io.snk) (cs : list StreamLatch.call),
  List.Forall call_bytes cs ->
  List.Forall cres_fuel_only (fst (StreamLatch.run_calls (Stream.stream_new o k) cs)) /\
  fuel_only (fst (Stream.stream_finish (snd (StreamLatch.run_calls (Stream.stream_new o k) cs)))).
Print Assumptions C16_no_call_sequence_panics.
