(* C03 - XZ container decoding is exact for every well-formed supported file
   This file only pins statements; the proofs live in the files named below. *)
From LZ Require Import Base.Prelude Base.Prog Model.Io Model.Tables Model.LzBuffer Model.RangeDec Model.Lzma Model.Lzma2 Model.Xz Proofs.IoLemmas Proofs.IoInv Proofs.SrcMono Proofs.XzSound Proofs.XzComplete Proofs.XzCompleteLink Proofs.XzAcceptBytes.

(* the converse of C06_xz_sound: every byte string of the form header ++ blocks ++ index ++ footer satisfying the validity predicates (any number of blocks incl. zero, check None/CRC32/CRC64, optional size fields, any legal header padding, any 1-9 byte multibyte encodings, block payloads that the LZMA2 decoder decodes) is accepted for every reader fragmentation and every short-writing sink, and the sink receives the blocks' outputs in order   [proved as xz_decompress_complete in Proofs/XzCompleteLink.v] *)
Theorem C03_xz_decompress_complete :
  forall (crc32 crc64 : list N -> N) (fuel : positive) (w : io) (ck : check_method) 
    (hdr : list N) (blocks : list blk) (index footer : list N),
  FaultFree (i_src w) ->
  k_wfail (i_snk w) = None ->
  s_rest (i_src w) = hdr ++ concat (map blk_bytes blocks) ++ index ++ footer ->
  header_bytes_ok crc32 ck hdr ->
  Forall (blk_ok_ff crc32 crc64 fuel ck) blocks ->
  index_bytes_ok crc32 (map blk_record blocks) index ->
  footer_bytes_ok crc32 ck (nlen index) footer ->
  (length blocks < Pos.to_nat fuel)%nat ->
  exists w' : io,
    xz_decompress crc32 crc64 fuel w = (Done tt, w') /\
    snk_bytes (i_snk w') = snk_bytes (i_snk w) ++ concat (map b_out blocks) /\
    s_rest (i_src w') = [] /\ s_pos (i_src w') = s_pos (i_src w) + nlen (s_rest (i_src w)).
Proof. exact (@xz_decompress_complete). Qed.
Check C03_xz_decompress_complete :
  forall (crc32 crc64 : list N -> N) (fuel : positive) (w : io) (ck : check_method) 
    (hdr : list N) (blocks : list blk) (index footer : list N),
  FaultFree (i_src w) ->
  k_wfail (i_snk w) = None ->
  s_rest (i_src w) = hdr ++ concat (map blk_bytes blocks) ++ index ++ footer ->
  header_bytes_ok crc32 ck hdr ->
  Forall (blk_ok_ff crc32 crc64 fuel ck) blocks ->
  index_bytes_ok crc32 (map blk_record blocks) index ->
  footer_bytes_ok crc32 ck (nlen index) footer ->
  (length blocks < Pos.to_nat fuel)%nat ->
  exists w' : io,
    xz_decompress crc32 crc64 fuel w = (Done tt, w') /\
    snk_bytes (i_snk w') = snk_bytes (i_snk w) ++ concat (map b_out blocks) /\
    s_rest (i_src w') = [] /\ s_pos (i_src w') = s_pos (i_src w) + nlen (s_rest (i_src w)).
Print Assumptions C03_xz_decompress_complete.

(* the same with the block predicate quantified over all fault-free sources (blk_wf)   [proved as xz_decompress_complete_wf in Proofs/XzComplete.v] *)
Theorem C03_xz_decompress_complete_wf :
  forall (crc32 crc64 : list N -> N) (fuel : positive) (w : io) (ck : check_method) 
    (hdr : list N) (blocks : list blk) (index footer : list N),
  FaultFree (i_src w) ->
  k_wfail (i_snk w) = None ->
  s_rest (i_src w) = hdr ++ concat (map blk_bytes blocks) ++ index ++ footer ->
  header_bytes_ok crc32 ck hdr ->
  Forall (blk_wf crc32 crc64 fuel ck) blocks ->
  index_bytes_ok crc32 (map blk_record blocks) index ->
  footer_bytes_ok crc32 ck (nlen index) footer ->
  (length blocks < Pos.to_nat fuel)%nat ->
  exists w' : io,
    xz_decompress crc32 crc64 fuel w = (Done tt, w') /\
    snk_bytes (i_snk w') = snk_bytes (i_snk w) ++ concat (map b_out blocks) /\
    s_rest (i_src w') = [] /\ s_pos (i_src w') = s_pos (i_src w) + nlen (s_rest (i_src w)).
Proof. exact (@xz_decompress_complete_wf). Qed.
Check C03_xz_decompress_complete_wf :
  forall (crc32 crc64 : list N -> N) (fuel : positive) (w : io) (ck : check_method) 
    (hdr : list N) (blocks : list blk) (index footer : list N),
  FaultFree (i_src w) ->
  k_wfail (i_snk w) = None ->
  s_rest (i_src w) = hdr ++ concat (map blk_bytes blocks) ++ index ++ footer ->
  header_bytes_ok crc32 ck hdr ->
  Forall (blk_wf crc32 crc64 fuel ck) blocks ->
  index_bytes_ok crc32 (map blk_record blocks) index ->
  footer_bytes_ok crc32 ck (nlen index) footer ->
  (length blocks < Pos.to_nat fuel)%nat ->
  exists w' : io,
    xz_decompress crc32 crc64 fuel w = (Done tt, w') /\
    snk_bytes (i_snk w') = snk_bytes (i_snk w) ++ concat (map b_out blocks) /\
    s_rest (i_src w') = [] /\ s_pos (i_src w') = s_pos (i_src w) + nlen (s_rest (i_src w)).
Print Assumptions C03_xz_decompress_complete_wf.

(* on fault-free sources acceptance and output depend only on the remaining bytes   [proved as xz_accept_bytes_only in Proofs/XzAcceptBytes.v] *)
Theorem C03_acceptance_depends_on_bytes_only :
  forall (crc32 crc64 : list N -> N) (fuel : positive) (w w' : io),
  xz_decompress crc32 crc64 fuel w = (Done tt, w') ->
  FaultFree (i_src w) ->
  exists out : list N,
    snk_bytes (i_snk w') = snk_bytes (i_snk w) ++ out /\
    (forall v : io,
     FaultFree (i_src v) ->
     k_wfail (i_snk v) = None ->
     s_rest (i_src v) = s_rest (i_src w) ->
     exists v' : io,
       xz_decompress crc32 crc64 fuel v = (Done tt, v') /\
       snk_bytes (i_snk v') = snk_bytes (i_snk v) ++ out /\ s_rest (i_src v') = []).
Proof. exact (@xz_accept_bytes_only). Qed.
Check C03_acceptance_depends_on_bytes_only :
  forall (crc32 crc64 : list N -> N) (fuel : positive) (w w' : io),
  xz_decompress crc32 crc64 fuel w = (Done tt, w') ->
  FaultFree (i_src w) ->
  exists out : list N,
    snk_bytes (i_snk w') = snk_bytes (i_snk w) ++ out /\
    (forall v : io,
     FaultFree (i_src v) ->
     k_wfail (i_snk v) = None ->
     s_rest (i_src v) = s_rest (i_src w) ->
     exists v' : io,
       xz_decompress crc32 crc64 fuel v = (Done tt, v') /\
       snk_bytes (i_snk v') = snk_bytes (i_snk v) ++ out /\ s_rest (i_src v') = []).
Print Assumptions C03_acceptance_depends_on_bytes_only.

(* every byte string that decodes to v (minimal or not, 1-9 bytes) is accepted by get_multibyte   [proved as get_multibyte_complete in Proofs/XzComplete.v] *)
Theorem C03_multibyte_any_encoding :
  forall (bs : list N) (v p0 : N), mb_decodes bs v -> rd get_multibyte p0 (v, bs) bs.
Proof. exact (@get_multibyte_complete). Qed.
Check C03_multibyte_any_encoding :
  forall (bs : list N) (v p0 : N), mb_decodes bs v -> rd get_multibyte p0 (v, bs) bs.
Print Assumptions C03_multibyte_any_encoding.

From LZ Require Import Model.Lzma2 Model.Xz Format.Lzma2Fmt Proofs.IoLemmas Proofs.XzSound Proofs.XzExact.

(* C03 in one statement (with C02): every byte string that is a well-formed supported .xz file - check None/CRC32/CRC64, any number of blocks, each block a legal header with one LZMA2 filter, optional true size fields, any padding and multibyte encodings, payload = reference-serialised well-formed chunk sequence - decodes, for every reader fragmentation and non-failing sink, to exactly the concatenation of the blocks' contents   [proved as xz_wellformed_decode_exact in Proofs/XzExact.v] *)
Theorem C03_xz_wellformed_decode_exact :
  forall (crc32 crc64 : list N -> N) (file : xz_file) (bytes : list N) (fuel : positive) (w : io),
  xz_file_bytes crc32 crc64 file bytes ->
  xz_fuel_ok fuel file ->
  FaultFree (i_src w) ->
  s_rest (i_src w) = bytes ->
  k_wfail (i_snk w) = None ->
  exists w' : io,
    xz_decompress crc32 crc64 fuel w = (Done tt, w') /\
    snk_bytes (i_snk w') = snk_bytes (i_snk w) ++ xz_contents file /\
    s_rest (i_src w') = [] /\ s_pos (i_src w') = s_pos (i_src w) + nlen bytes.
Proof. exact (@xz_wellformed_decode_exact). Qed.
Check C03_xz_wellformed_decode_exact :
  forall (crc32 crc64 : list N -> N) (file : xz_file) (bytes : list N) (fuel : positive) (w : io),
  xz_file_bytes crc32 crc64 file bytes ->
  xz_fuel_ok fuel file ->
  FaultFree (i_src w) ->
  s_rest (i_src w) = bytes ->
  k_wfail (i_snk w) = None ->
  exists w' : io,
    xz_decompress crc32 crc64 fuel w = (Done tt, w') /\
    snk_bytes (i_snk w') = snk_bytes (i_snk w) ++ xz_contents file /\
    s_rest (i_src w') = [] /\ s_pos (i_src w') = s_pos (i_src w) + nlen bytes.
Print Assumptions C03_xz_wellformed_decode_exact.
