(* C17 - Malformed LZMA2 framing is rejected.
   This file only pins statements; the proofs live in Proofs/Lzma2Inv.v and Proofs/Lzma2Framing.v.
   [malformed_chunk bytes] (Proofs/Lzma2Framing.v) lists the byte-level shapes: input ends where a control byte is expected;
   control byte in 0x03..0x7F; truncated chunk headers; uncompressed chunk shorter than declared; missing / >= 225 / lc+lp > 4
   property byte; declared packed size below the five coder bytes or fewer than five payload bytes present. *)
From LZ Require Import Base.Prelude Base.Prog Model.Io Model.LzBuffer Model.RangeDec Model.Lzma Model.Lzma2
  Proofs.ProgLemmas Proofs.IoLemmas Proofs.Lzma2Inv Proofs.Lzma2Framing.

(* Done implies: at every chunk position reached, the remaining input does not start with a malformed chunk *)
Theorem C17_done_implies_wellformed_framing : forall (fuel : positive) (dec : lzma2_decoder) (io0 : io) (x : lzma2_decoder * io),
  FaultFree (i_src io0) -> k_wfail (i_snk io0) = None ->
  lzma2_decompress fuel dec io0 = (Done tt, x) ->
  forall (n : nat) (w : w2), iter_step n (l2_body fuel) (l2_w0 dec io0) = Next w -> W2ok w /\ ~ malformed_chunk (s_rest (w_src w)).
Proof. exact lzma2_done_implies_wellformed. Qed.
Check C17_done_implies_wellformed_framing : forall (fuel : positive) (dec : lzma2_decoder) (io0 : io) (x : lzma2_decoder * io),
  FaultFree (i_src io0) -> k_wfail (i_snk io0) = None ->
  lzma2_decompress fuel dec io0 = (Done tt, x) ->
  forall (n : nat) (w : w2), iter_step n (l2_body fuel) (l2_w0 dec io0) = Next w -> W2ok w /\ ~ malformed_chunk (s_rest (w_src w)).
Print Assumptions C17_done_implies_wellformed_framing.

(* the contrapositive: a malformed chunk at any reachable chunk position makes the whole decode fail, for any
   fragmentation of the reader and any short-writing sink *)
Theorem C17_malformed_framing_rejected : forall (fuel : positive) (dec : lzma2_decoder) (io0 : io) (n : nat) (w : w2),
  FaultFree (i_src io0) -> k_wfail (i_snk io0) = None ->
  iter_step n (l2_body fuel) (l2_w0 dec io0) = Next w ->
  malformed_chunk (s_rest (w_src w)) -> fst (lzma2_decompress fuel dec io0) <> Done tt.
Proof. exact lzma2_malformed_fails. Qed.
Check C17_malformed_framing_rejected : forall (fuel : positive) (dec : lzma2_decoder) (io0 : io) (n : nat) (w : w2),
  FaultFree (i_src io0) -> k_wfail (i_snk io0) = None ->
  iter_step n (l2_body fuel) (l2_w0 dec io0) = Next w ->
  malformed_chunk (s_rest (w_src w)) -> fst (lzma2_decompress fuel dec io0) <> Done tt.
Print Assumptions C17_malformed_framing_rejected.

(* a compressed chunk is accepted only if its payload produced exactly the declared uncompressed size
   (an overshooting match or an end marker inside the chunk cannot succeed) - no assumption on source or sink *)
Theorem C17_unpacked_size_must_match : forall (fuel : positive) (status : N) (w w' : w2),
  parse_lzma fuel status w = (Done tt, w') ->
  exists (us16 : N) (s1 : src),
    src_run (map_io_err ELzma read_u16_be) (w_src w) = (Done us16, s1) /\
    a_len (w_acc w') = l2_unpacked status us16 + (if l2_cls status =? 3 then 0 else a_len (w_acc w)).
Proof. exact unpacked_mismatch_rejected. Qed.
Check C17_unpacked_size_must_match : forall (fuel : positive) (status : N) (w w' : w2),
  parse_lzma fuel status w = (Done tt, w') ->
  exists (us16 : N) (s1 : src),
    src_run (map_io_err ELzma read_u16_be) (w_src w) = (Done us16, s1) /\
    a_len (w_acc w') = l2_unpacked status us16 + (if l2_cls status =? 3 then 0 else a_len (w_acc w)).
Print Assumptions C17_unpacked_size_must_match.

(* a payload that still needs a byte after its declared compressed size has been consumed fails: reads beyond the Take limit are EOF *)
Theorem C17_reads_beyond_packed_size_fail : forall (s : src) (k : snk),
  s_limit s = Some 0 ->
  exists s' : src,
    run_io read_u8 {| i_src := s; i_snk := k |} = (Failed EIo, {| i_src := s'; i_snk := k |}) /\
    s_rest s' = s_rest s /\ s_pos s' = s_pos s /\ s_limit s' = Some 0.
Proof. exact take_limit_eof. Qed.
Check C17_reads_beyond_packed_size_fail : forall (s : src) (k : snk),
  s_limit s = Some 0 ->
  exists s' : src,
    run_io read_u8 {| i_src := s; i_snk := k |} = (Failed EIo, {| i_src := s'; i_snk := k |}) /\
    s_rest s' = s_rest s /\ s_pos s' = s_pos s /\ s_limit s' = Some 0.
Print Assumptions C17_reads_beyond_packed_size_fail.

Theorem C17_bad_control_byte_fails_stream : forall (fuel : positive) (dec : lzma2_decoder) (io0 : io) (n : nat) (w : w2) (c : N) (t : list N),
  iter_step n (l2_body fuel) (l2_w0 dec io0) = Next w -> (n < Pos.to_nat fuel)%nat ->
  FaultFree (w_src w) -> s_rest (w_src w) = c :: t -> 3 <= c <= 127 -> fst (lzma2_decompress fuel dec io0) = Failed ELzma.
Proof. exact bad_control_fails_stream. Qed.
Check C17_bad_control_byte_fails_stream : forall (fuel : positive) (dec : lzma2_decoder) (io0 : io) (n : nat) (w : w2) (c : N) (t : list N),
  iter_step n (l2_body fuel) (l2_w0 dec io0) = Next w -> (n < Pos.to_nat fuel)%nat ->
  FaultFree (w_src w) -> s_rest (w_src w) = c :: t -> 3 <= c <= 127 -> fst (lzma2_decompress fuel dec io0) = Failed ELzma.
Print Assumptions C17_bad_control_byte_fails_stream.

From LZ Require Import Model.Lzma2 Format.RefEnc Format.Lzma2Fmt Proofs.Lzma2Exact Proofs.CutShortLzma2 Proofs.CutShort.

(* "a compressed chunk whose payload needs more input than its declared compressed size": in a well-formed sequence, reduce the compressed-size field of a compressed chunk AT ANY POSITION to any m < payload length (all other bytes in place): the stream is rejected, every fragmentation   [proved as lzma2_short_packed_size_rejected in Proofs/CutShort.v] *)
Theorem C17_short_packed_size_rejected :
  forall (cs1 : list chunk) (cls : N) (np : option fprops) (prog : list sym) (delta : N) 
    (cs2 : list chunk) (b1 : list N) (s1 : l2state) (bc : list N) (s2 : l2state) (b3 : list N) 
    (s3 : l2state) (m : N) (trail : list N) (frag : N -> N) (k : snk) (fuel : positive),
  ser_chunks_gen false l2state0 cs1 = Some (b1, s1) ->
  ser_chunk_gen false s1 (CLzma cls np prog delta) = Some (bc, s2) ->
  ser_chunks_gen false s2 cs2 = Some (b3, s3) ->
  Lzma2ExactChunk.wf_seq (cs1 ++ CLzma cls np prog delta :: cs2) ->
  k_wfail k = None ->
  k_ffail k = false ->
  fuel_ok fuel (cs1 ++ CLzma cls np prog delta :: cs2) ->
  1 <= m ->
  m + chunk_hdr_len cls < nlen bc ->
  exists (x : err) (w' : io),
    lzma2_decompress_top fuel
      {| i_src := src_of ((b1 ++ with_packed_field bc m ++ b3 ++ [0]) ++ trail) frag None; i_snk := k |} =
    (Failed x, w').
Proof. exact (@lzma2_short_packed_size_rejected). Qed.
Check C17_short_packed_size_rejected :
  forall (cs1 : list chunk) (cls : N) (np : option fprops) (prog : list sym) (delta : N) 
    (cs2 : list chunk) (b1 : list N) (s1 : l2state) (bc : list N) (s2 : l2state) (b3 : list N) 
    (s3 : l2state) (m : N) (trail : list N) (frag : N -> N) (k : snk) (fuel : positive),
  ser_chunks_gen false l2state0 cs1 = Some (b1, s1) ->
  ser_chunk_gen false s1 (CLzma cls np prog delta) = Some (bc, s2) ->
  ser_chunks_gen false s2 cs2 = Some (b3, s3) ->
  Lzma2ExactChunk.wf_seq (cs1 ++ CLzma cls np prog delta :: cs2) ->
  k_wfail k = None ->
  k_ffail k = false ->
  fuel_ok fuel (cs1 ++ CLzma cls np prog delta :: cs2) ->
  1 <= m ->
  m + chunk_hdr_len cls < nlen bc ->
  exists (x : err) (w' : io),
    lzma2_decompress_top fuel
      {| i_src := src_of ((b1 ++ with_packed_field bc m ++ b3 ++ [0]) ++ trail) frag None; i_snk := k |} =
    (Failed x, w').
Print Assumptions C17_short_packed_size_rejected.

(* "the input ends before the end control byte": every strict prefix of a well-formed LZMA2 stream is rejected   [proved as lzma2_truncated_rejected in Proofs/CutShort.v] *)
Theorem C17_truncated_stream_rejected :
  forall (cs : list chunk) (bytes out : list N) (frag : N -> N) (k : snk) (fuel : positive) (cut : list N),
  ser2_gen false cs = Some (bytes, out) ->
  Lzma2ExactChunk.wf_seq cs ->
  k_wfail k = None ->
  k_ffail k = false ->
  fuel_ok fuel cs ->
  cut_of cut bytes ->
  exists (x : err) (w' : io),
    lzma2_decompress_top fuel {| i_src := src_of cut frag None; i_snk := k |} = (Failed x, w').
Proof. exact (@lzma2_truncated_rejected). Qed.
Check C17_truncated_stream_rejected :
  forall (cs : list chunk) (bytes out : list N) (frag : N -> N) (k : snk) (fuel : positive) (cut : list N),
  ser2_gen false cs = Some (bytes, out) ->
  Lzma2ExactChunk.wf_seq cs ->
  k_wfail k = None ->
  k_ffail k = false ->
  fuel_ok fuel cs ->
  cut_of cut bytes ->
  exists (x : err) (w' : io),
    lzma2_decompress_top fuel {| i_src := src_of cut frag None; i_snk := k |} = (Failed x, w').
Print Assumptions C17_truncated_stream_rejected.

(* format-independent form for lzma2_decompress   [proved as lzma2_cut_short_general in Proofs/CutShortLzma2.v] *)
Theorem C17_accepted_stream_cannot_be_cut :
  forall (fuel : positive) (D more : list N) (frag frag' : N -> N) (k : snk) (w2' : io),
  lzma2_decompress_top fuel {| i_src := src_of (D ++ more) frag None; i_snk := k |} = (Done tt, w2') ->
  nlen D < s_pos (i_src w2') ->
  exists (x : err) (w1' : io),
    lzma2_decompress_top fuel {| i_src := src_of D frag' None; i_snk := k |} = (Failed x, w1').
Proof. exact (@lzma2_cut_short_general). Qed.
Check C17_accepted_stream_cannot_be_cut :
  forall (fuel : positive) (D more : list N) (frag frag' : N -> N) (k : snk) (w2' : io),
  lzma2_decompress_top fuel {| i_src := src_of (D ++ more) frag None; i_snk := k |} = (Done tt, w2') ->
  nlen D < s_pos (i_src w2') ->
  exists (x : err) (w1' : io),
    lzma2_decompress_top fuel {| i_src := src_of D frag' None; i_snk := k |} = (Failed x, w1').
Print Assumptions C17_accepted_stream_cannot_be_cut.
