(* C17 - Malformed LZMA2 framing is rejected.
   This file only pins statements; the proofs live in Proofs/Lzma2Inv.v and Proofs/Lzma2Framing.v.
   [malformed_chunk bytes] (Proofs/Lzma2Framing.v) lists the byte-level shapes: input ends where a control byte is expected;
   control byte in 0x03..0x7F; truncated chunk headers; uncompressed chunk shorter than declared; missing / >= 225 / lc+lp > 4
   property byte; declared packed size below the five coder bytes or fewer than five payload bytes present. *)
From LZ Require Import Base.Prelude Base.Prog Model.Io Model.LzBuffer Model.RangeDec Model.Lzma Model.Lzma2
  Proofs.ProgLemmas Proofs.IoLemmas Proofs.Lzma2Inv Proofs.Lzma2Framing.

(* Done implies: at every chunk position reached, the remaining input does not start with a malformed chunk *)
Theorem C17_done_implies_wellformed_framing : forall (fuel : positive) (dec : lzma2_decoder) (io0 : io) (x : lzma2_decoder * io),
  FaultFree (i_src io0) -> k_wfail (i_snk io0) = None ->
  lzma2_decompress fuel dec io0 = (Done tt, x) ->
  forall (n : nat) (w : w2), iter_step n (l2_body fuel) (l2_w0 dec io0) = Next w -> W2ok w /\ ~ malformed_chunk (s_rest (w_src w)).
Proof. exact lzma2_done_implies_wellformed. Qed.
Check C17_done_implies_wellformed_framing : forall (fuel : positive) (dec : lzma2_decoder) (io0 : io) (x : lzma2_decoder * io),
  FaultFree (i_src io0) -> k_wfail (i_snk io0) = None ->
  lzma2_decompress fuel dec io0 = (Done tt, x) ->
  forall (n : nat) (w : w2), iter_step n (l2_body fuel) (l2_w0 dec io0) = Next w -> W2ok w /\ ~ malformed_chunk (s_rest (w_src w)).
Print Assumptions C17_done_implies_wellformed_framing.

(* the contrapositive: a malformed chunk at any reachable chunk position makes the whole decode fail, for any
   fragmentation of the reader and any short-writing sink *)
Theorem C17_malformed_framing_rejected : forall (fuel : positive) (dec : lzma2_decoder) (io0 : io) (n : nat) (w : w2),
  FaultFree (i_src io0) -> k_wfail (i_snk io0) = None ->
  iter_step n (l2_body fuel) (l2_w0 dec io0) = Next w ->
  malformed_chunk (s_rest (w_src w)) -> fst (lzma2_decompress fuel dec io0) <> Done tt.
Proof. exact lzma2_malformed_fails. Qed.
Check C17_malformed_framing_rejected : forall (fuel : positive) (dec : lzma2_decoder) (io0 : io) (n : nat) (w : w2),
  FaultFree (i_src io0) -> k_wfail (i_snk io0) = None ->
  iter_step n (l2_body fuel) (l2_w0 dec io0) = Next w ->
  malformed_chunk (s_rest (w_src w)) -> fst (lzma2_decompress fuel dec io0) <> Done tt.
Print Assumptions C17_malformed_framing_rejected.

(* a compressed chunk is accepted only if its payload produced exactly the declared uncompressed size
   (an overshooting match or an end marker inside the chunk cannot succeed) - no assumption on source or sink *)
Theorem C17_unpacked_size_must_match : forall (fuel : positive) (status : N) (w w' : w2),
  parse_lzma fuel status w = (Done tt, w') ->
  exists (us16 : N) (s1 : src),
    src_run (map_io_err ELzma read_u16_be) (w_src w) = (Done us16, s1) /\
    a_len (w_acc w') = l2_unpacked status us16 + (if l2_cls status =? 3 then 0 else a_len (w_acc w)).
Proof. exact unpacked_mismatch_rejected. Qed.
Check C17_unpacked_size_must_match : forall (fuel : positive) (status : N) (w w' : w2),
  parse_lzma fuel status w = (Done tt, w') ->
  exists (us16 : N) (s1 : src),
    src_run (map_io_err ELzma read_u16_be) (w_src w) = (Done us16, s1) /\
    a_len (w_acc w') = l2_unpacked status us16 + (if l2_cls status =? 3 then 0 else a_len (w_acc w)).
Print Assumptions C17_unpacked_size_must_match.

(* a payload that still needs a byte after its declared compressed size has been consumed fails: reads beyond the Take limit are EOF *)
Theorem C17_reads_beyond_packed_size_fail : forall (s : src) (k : snk),
  s_limit s = Some 0 ->
  exists s' : src,
    run_io read_u8 {| i_src := s; i_snk := k |} = (Failed EIo, {| i_src := s'; i_snk := k |}) /\
    s_rest s' = s_rest s /\ s_pos s' = s_pos s /\ s_limit s' = Some 0.
Proof. exact take_limit_eof. Qed.
Check C17_reads_beyond_packed_size_fail : forall (s : src) (k : snk),
  s_limit s = Some 0 ->
  exists s' : src,
    run_io read_u8 {| i_src := s; i_snk := k |} = (Failed EIo, {| i_src := s'; i_snk := k |}) /\
    s_rest s' = s_rest s /\ s_pos s' = s_pos s /\ s_limit s' = Some 0.
Print Assumptions C17_reads_beyond_packed_size_fail.

Theorem C17_bad_control_byte_fails_stream : forall (fuel : positive) (dec : lzma2_decoder) (io0 : io) (n : nat) (w : w2) (c : N) (t : list N),
  iter_step n (l2_body fuel) (l2_w0 dec io0) = Next w -> (n < Pos.to_nat fuel)%nat ->
  FaultFree (w_src w) -> s_rest (w_src w) = c :: t -> 3 <= c <= 127 -> fst (lzma2_decompress fuel dec io0) = Failed ELzma.
Proof. exact bad_control_fails_stream. Qed.
Check C17_bad_control_byte_fails_stream : forall (fuel : positive) (dec : lzma2_decoder) (io0 : io) (n : nat) (w : w2) (c : N) (t : list N),
  iter_step n (l2_body fuel) (l2_w0 dec io0) = Next w -> (n < Pos.to_nat fuel)%nat ->
  FaultFree (w_src w) -> s_rest (w_src w) = c :: t -> 3 <= c <= 127 -> fst (lzma2_decompress fuel dec io0) = Failed ELzma.
Print Assumptions C17_bad_control_byte_fails_stream.
