(* C01 - LZMA decoding is exact for every well-formed stream
   This file only pins statements; the proofs live in the files named below. *)
From LZ Require Import Base.Prelude Base.Prog Model.Io Model.Tables Model.LzBuffer Model.RangeDec Model.Lzma Format.RefEnc Proofs.IoLemmas Proofs.SymDecode Proofs.LzmaExactLoop Proofs.LzmaExact.

(* every well-formed program (any lc/lp/pb, any dictionary field, both termination styles, any V in the final interval and any trailer in the sized case), every reader fragmentation, every non-failing sink: lzma_decompress succeeds, the sink receives exactly the bytes sem defines, is flushed once, and the reader is left right after the payload   [proved as lzma_decode_exact in Proofs/LzmaExact.v] *)
Theorem C01_lzma_decode_exact :
  forall (fp : fprops) (dict_field size_field : N) (prog : list sym) (bytes out : list N) 
    (delta : N) (trail : list N) (ief : ienc) (frag : N -> N) (k : snk) (fuel : positive),
  f_lc fp <= 8 ->
  f_lp fp <= 4 ->
  f_pb fp <= 4 ->
  dict_field < 2 ^ 32 ->
  enc_lzma_gen false fp dict_field size_field prog delta = Some (bytes, out) ->
  final_ienc fp (Some (N.max dict_field 4096)) prog = Some ief ->
  size_field = 2 ^ 64 - 1 /\ ends_with_marker prog /\ delta = 0 /\ trail = [] \/
  size_field = nlen out /\ nlen out < 2 ^ 64 - 1 /\ no_marker prog /\ delta < i_range ief ->
  k_wfail k = None ->
  k_ffail k = false ->
  (length prog + 1 <= Pos.to_nat fuel)%nat ->
  exists w' : io,
    lzma_decompress fuel {| o_unpacked := ReadFromHeader; o_memlimit := None; o_allow_incomplete := false |}
      {| i_src := src_of (bytes ++ trail) frag None; i_snk := k |} = (Done tt, w') /\
    snk_bytes (i_snk w') = snk_bytes k ++ out /\
    k_flushes (i_snk w') = k_flushes k + 1 /\ s_pos (i_src w') = nlen bytes /\ s_rest (i_src w') = trail.
Proof. exact (@lzma_decode_exact). Qed.
Check C01_lzma_decode_exact :
  forall (fp : fprops) (dict_field size_field : N) (prog : list sym) (bytes out : list N) 
    (delta : N) (trail : list N) (ief : ienc) (frag : N -> N) (k : snk) (fuel : positive),
  f_lc fp <= 8 ->
  f_lp fp <= 4 ->
  f_pb fp <= 4 ->
  dict_field < 2 ^ 32 ->
  enc_lzma_gen false fp dict_field size_field prog delta = Some (bytes, out) ->
  final_ienc fp (Some (N.max dict_field 4096)) prog = Some ief ->
  size_field = 2 ^ 64 - 1 /\ ends_with_marker prog /\ delta = 0 /\ trail = [] \/
  size_field = nlen out /\ nlen out < 2 ^ 64 - 1 /\ no_marker prog /\ delta < i_range ief ->
  k_wfail k = None ->
  k_ffail k = false ->
  (length prog + 1 <= Pos.to_nat fuel)%nat ->
  exists w' : io,
    lzma_decompress fuel {| o_unpacked := ReadFromHeader; o_memlimit := None; o_allow_incomplete := false |}
      {| i_src := src_of (bytes ++ trail) frag None; i_snk := k |} = (Done tt, w') /\
    snk_bytes (i_snk w') = snk_bytes k ++ out /\
    k_flushes (i_snk w') = k_flushes k + 1 /\ s_pos (i_src w') = nlen bytes /\ s_rest (i_src w') = trail.
Print Assumptions C01_lzma_decode_exact.

(* the same through the raw LzmaDecoder for ANY dictionary size >= 1 (1-8 byte windows with wrap-around included) and any memory limit >= dict   [proved as raw_lzma_decode_exact in Proofs/LzmaExact.v] *)
Theorem C01_raw_lzma_decode_exact :
  forall (fp : fprops) (pr : props) (dict : N) (us memlimit : option N) (prog : list sym) 
    (delta : N) (trail payload out : list N) (ief : ienc) (dec : lzma_decoder) (s : src) 
    (k : snk) (fuel : positive),
  props_match pr fp ->
  1 <= dict ->
  dict <= match memlimit with
          | Some m => m
          | None => USIZE - 1
          end ->
  enc_payload_gen false fp (Some dict) prog delta = Some (payload, out) ->
  final_ienc fp (Some dict) prog = Some ief ->
  match us with
  | Some size => no_marker prog /\ size = nlen out /\ delta < i_range ief
  | None => ends_with_marker prog /\ delta = 0 /\ trail = []
  end ->
  lzma_decoder_new {| pr_props := pr; pr_dict := dict; pr_unpacked := us |} memlimit = Done dec ->
  FaultFree s ->
  s_rest s = payload ++ trail ->
  k_wfail k = None ->
  k_ffail k = false ->
  (length prog + 1 <= Pos.to_nat fuel)%nat ->
  exists (dec' : lzma_decoder) (w' : io),
    lzma_decoder_decompress fuel dec {| i_src := s; i_snk := k |} = (Done tt, (dec', w')) /\
    snk_bytes (i_snk w') = snk_bytes k ++ out /\
    k_flushes (i_snk w') = k_flushes k + 1 /\
    s_pos (i_src w') = s_pos s + nlen payload /\ s_rest (i_src w') = trail.
Proof. exact (@raw_lzma_decode_exact). Qed.
Check C01_raw_lzma_decode_exact :
  forall (fp : fprops) (pr : props) (dict : N) (us memlimit : option N) (prog : list sym) 
    (delta : N) (trail payload out : list N) (ief : ienc) (dec : lzma_decoder) (s : src) 
    (k : snk) (fuel : positive),
  props_match pr fp ->
  1 <= dict ->
  dict <= match memlimit with
          | Some m => m
          | None => USIZE - 1
          end ->
  enc_payload_gen false fp (Some dict) prog delta = Some (payload, out) ->
  final_ienc fp (Some dict) prog = Some ief ->
  match us with
  | Some size => no_marker prog /\ size = nlen out /\ delta < i_range ief
  | None => ends_with_marker prog /\ delta = 0 /\ trail = []
  end ->
  lzma_decoder_new {| pr_props := pr; pr_dict := dict; pr_unpacked := us |} memlimit = Done dec ->
  FaultFree s ->
  s_rest s = payload ++ trail ->
  k_wfail k = None ->
  k_ffail k = false ->
  (length prog + 1 <= Pos.to_nat fuel)%nat ->
  exists (dec' : lzma_decoder) (w' : io),
    lzma_decoder_decompress fuel dec {| i_src := s; i_snk := k |} = (Done tt, (dec', w')) /\
    snk_bytes (i_snk w') = snk_bytes k ++ out /\
    k_flushes (i_snk w') = k_flushes k + 1 /\
    s_pos (i_src w') = s_pos s + nlen payload /\ s_rest (i_src w') = trail.
Print Assumptions C01_raw_lzma_decode_exact.

(* a header dictionary field below 4096 behaves exactly as 4096   [proved as lzma_dict_clamp in Proofs/LzmaExact.v] *)
Theorem C01_dict_clamp :
  forall (fp : fprops) (dict_field size_field : N) (prog : list sym) (b1 out : list N) 
    (delta : N) (trail : list N) (ief : ienc) (frag : N -> N) (k : snk) (fuel : positive),
  f_lc fp <= 8 ->
  f_lp fp <= 4 ->
  f_pb fp <= 4 ->
  dict_field < 4096 ->
  enc_lzma_gen false fp dict_field size_field prog delta = Some (b1, out) ->
  final_ienc fp (Some 4096) prog = Some ief ->
  size_field = 2 ^ 64 - 1 /\ ends_with_marker prog /\ delta = 0 /\ trail = [] \/
  size_field = nlen out /\ nlen out < 2 ^ 64 - 1 /\ no_marker prog /\ delta < i_range ief ->
  k_wfail k = None ->
  k_ffail k = false ->
  (length prog + 1 <= Pos.to_nat fuel)%nat ->
  exists (b2 : list N) (w1 w2 : io),
    enc_lzma_gen false fp 4096 size_field prog delta = Some (b2, out) /\
    skipn 5 b1 = skipn 5 b2 /\
    nlen b1 = nlen b2 /\
    lzma_decompress fuel {| o_unpacked := ReadFromHeader; o_memlimit := None; o_allow_incomplete := false |}
      {| i_src := src_of (b1 ++ trail) frag None; i_snk := k |} = (Done tt, w1) /\
    lzma_decompress fuel {| o_unpacked := ReadFromHeader; o_memlimit := None; o_allow_incomplete := false |}
      {| i_src := src_of (b2 ++ trail) frag None; i_snk := k |} = (Done tt, w2) /\
    snk_bytes (i_snk w1) = snk_bytes k ++ out /\
    snk_bytes (i_snk w2) = snk_bytes k ++ out /\
    k_flushes (i_snk w1) = k_flushes (i_snk w2) /\ s_pos (i_src w1) = s_pos (i_src w2).
Proof. exact (@lzma_dict_clamp). Qed.
Check C01_dict_clamp :
  forall (fp : fprops) (dict_field size_field : N) (prog : list sym) (b1 out : list N) 
    (delta : N) (trail : list N) (ief : ienc) (frag : N -> N) (k : snk) (fuel : positive),
  f_lc fp <= 8 ->
  f_lp fp <= 4 ->
  f_pb fp <= 4 ->
  dict_field < 4096 ->
  enc_lzma_gen false fp dict_field size_field prog delta = Some (b1, out) ->
  final_ienc fp (Some 4096) prog = Some ief ->
  size_field = 2 ^ 64 - 1 /\ ends_with_marker prog /\ delta = 0 /\ trail = [] \/
  size_field = nlen out /\ nlen out < 2 ^ 64 - 1 /\ no_marker prog /\ delta < i_range ief ->
  k_wfail k = None ->
  k_ffail k = false ->
  (length prog + 1 <= Pos.to_nat fuel)%nat ->
  exists (b2 : list N) (w1 w2 : io),
    enc_lzma_gen false fp 4096 size_field prog delta = Some (b2, out) /\
    skipn 5 b1 = skipn 5 b2 /\
    nlen b1 = nlen b2 /\
    lzma_decompress fuel {| o_unpacked := ReadFromHeader; o_memlimit := None; o_allow_incomplete := false |}
      {| i_src := src_of (b1 ++ trail) frag None; i_snk := k |} = (Done tt, w1) /\
    lzma_decompress fuel {| o_unpacked := ReadFromHeader; o_memlimit := None; o_allow_incomplete := false |}
      {| i_src := src_of (b2 ++ trail) frag None; i_snk := k |} = (Done tt, w2) /\
    snk_bytes (i_snk w1) = snk_bytes k ++ out /\
    snk_bytes (i_snk w2) = snk_bytes k ++ out /\
    k_flushes (i_snk w1) = k_flushes (i_snk w2) /\ s_pos (i_src w1) = s_pos (i_src w2).
Print Assumptions C01_dict_clamp.

(* with an end marker, any byte after the marker is an error   [proved as lzma_trailing_rejected in Proofs/LzmaExact.v] *)
Theorem C01_trailing_bytes_rejected :
  forall (fp : fprops) (dict_field : N) (prog : list sym) (bytes out : list N) (delta : N) 
    (trail : list N) (ief : ienc) (frag : N -> N) (k : snk) (fuel : positive),
  f_lc fp <= 8 ->
  f_lp fp <= 4 ->
  f_pb fp <= 4 ->
  dict_field < 2 ^ 32 ->
  enc_lzma_gen false fp dict_field (2 ^ 64 - 1) prog delta = Some (bytes, out) ->
  final_ienc fp (Some (N.max dict_field 4096)) prog = Some ief ->
  delta < i_range ief ->
  ends_with_marker prog ->
  trail <> [] ->
  k_wfail k = None ->
  k_ffail k = false ->
  (length prog + 1 <= Pos.to_nat fuel)%nat ->
  exists w' : io,
    lzma_decompress fuel {| o_unpacked := ReadFromHeader; o_memlimit := None; o_allow_incomplete := false |}
      {| i_src := src_of (bytes ++ trail) frag None; i_snk := k |} = (Failed ELzma, w').
Proof. exact (@lzma_trailing_rejected). Qed.
Check C01_trailing_bytes_rejected :
  forall (fp : fprops) (dict_field : N) (prog : list sym) (bytes out : list N) (delta : N) 
    (trail : list N) (ief : ienc) (frag : N -> N) (k : snk) (fuel : positive),
  f_lc fp <= 8 ->
  f_lp fp <= 4 ->
  f_pb fp <= 4 ->
  dict_field < 2 ^ 32 ->
  enc_lzma_gen false fp dict_field (2 ^ 64 - 1) prog delta = Some (bytes, out) ->
  final_ienc fp (Some (N.max dict_field 4096)) prog = Some ief ->
  delta < i_range ief ->
  ends_with_marker prog ->
  trail <> [] ->
  k_wfail k = None ->
  k_ffail k = false ->
  (length prog + 1 <= Pos.to_nat fuel)%nat ->
  exists w' : io,
    lzma_decompress fuel {| o_unpacked := ReadFromHeader; o_memlimit := None; o_allow_incomplete := false |}
      {| i_src := src_of (bytes ++ trail) frag None; i_snk := k |} = (Failed ELzma, w').
Print Assumptions C01_trailing_bytes_rejected.

From LZ Require Import Format.RefEnc Proofs.HeaderRules Proofs.LzmaExact Proofs.LzmaExactOpts.

(* the exact-decoding theorem for EVERY option whose size in effect matches the stream (ReadFromHeader, ReadHeaderButUseProvided with arbitrary header field bytes, UseProvided with the 5-byte header), any memory limit >= the dictionary   [proved as lzma_decode_exact_opts in Proofs/LzmaExactOpts.v] *)
Theorem C01_lzma_decode_exact_all_options :
  forall (fp : fprops) (dict_field : N) (field : list N) (prog : list sym) (payload out : list N) 
    (delta : N) (trail : list N) (ief : ienc) (o : options) (frag : N -> N) (k : snk) 
    (fuel : positive),
  f_lc fp <= 8 ->
  f_lp fp <= 4 ->
  f_pb fp <= 4 ->
  dict_field < 2 ^ 32 ->
  enc_payload_gen false fp (Some (N.max dict_field 4096)) prog delta = Some (payload, out) ->
  final_ienc fp (Some (N.max dict_field 4096)) prog = Some ief ->
  nlen field = size_field_len (o_unpacked o) ->
  memlimit_ok (o_memlimit o) (N.max dict_field 4096) ->
  stream_mode (size_in_effect (o_unpacked o) (le_num field)) prog out delta trail ief ->
  k_wfail k = None ->
  k_ffail k = false ->
  (length prog + 1 <= Pos.to_nat fuel)%nat ->
  exists w' : io,
    lzma_decompress fuel o
      {| i_src := src_of ((hdr_bytes fp dict_field field ++ payload) ++ trail) frag None; i_snk := k |} =
    (Done tt, w') /\
    snk_bytes (i_snk w') = snk_bytes k ++ out /\
    k_flushes (i_snk w') = k_flushes k + 1 /\
    s_pos (i_src w') = nlen (hdr_bytes fp dict_field field ++ payload) /\
    s_pos (i_src w') = header_len (o_unpacked o) + nlen payload /\ s_rest (i_src w') = trail.
Proof. exact (@lzma_decode_exact_opts). Qed.
Check C01_lzma_decode_exact_all_options :
  forall (fp : fprops) (dict_field : N) (field : list N) (prog : list sym) (payload out : list N) 
    (delta : N) (trail : list N) (ief : ienc) (o : options) (frag : N -> N) (k : snk) 
    (fuel : positive),
  f_lc fp <= 8 ->
  f_lp fp <= 4 ->
  f_pb fp <= 4 ->
  dict_field < 2 ^ 32 ->
  enc_payload_gen false fp (Some (N.max dict_field 4096)) prog delta = Some (payload, out) ->
  final_ienc fp (Some (N.max dict_field 4096)) prog = Some ief ->
  nlen field = size_field_len (o_unpacked o) ->
  memlimit_ok (o_memlimit o) (N.max dict_field 4096) ->
  stream_mode (size_in_effect (o_unpacked o) (le_num field)) prog out delta trail ief ->
  k_wfail k = None ->
  k_ffail k = false ->
  (length prog + 1 <= Pos.to_nat fuel)%nat ->
  exists w' : io,
    lzma_decompress fuel o
      {| i_src := src_of ((hdr_bytes fp dict_field field ++ payload) ++ trail) frag None; i_snk := k |} =
    (Done tt, w') /\
    snk_bytes (i_snk w') = snk_bytes k ++ out /\
    k_flushes (i_snk w') = k_flushes k + 1 /\
    s_pos (i_src w') = nlen (hdr_bytes fp dict_field field ++ payload) /\
    s_pos (i_src w') = header_len (o_unpacked o) + nlen payload /\ s_rest (i_src w') = trail.
Print Assumptions C01_lzma_decode_exact_all_options.

From LZ Require Import Model.Stream Format.RefEnc Proofs.LzmaExactOpts Proofs.StreamSimLoop Proofs.StreamSimData Proofs.StreamExact.

(* exact decoding through the STREAMING decoder (C01 x C05): a well-formed file, any header option, fed in EVERY division into write calls, then finish: Done, the sink holds exactly the defined bytes, flushed once   [proved as stream_decodes_wellformed_exactly in Proofs/StreamExact.v] *)
Theorem C01_stream_decodes_wellformed_exactly :
  forall (fp : fprops) (dict_field : N) (field : list N) (prog : list sym) (payload out : list N) 
    (delta : N) (trail : list N) (ief : ienc) (o : options) (k : snk) (pieces : list (list N)),
  f_lc fp <= 8 ->
  f_lp fp <= 4 ->
  f_pb fp <= 4 ->
  dict_field < 2 ^ 32 ->
  enc_payload_gen false fp (Some (N.max dict_field 4096)) prog delta = Some (payload, out) ->
  LzmaExact.final_ienc fp (Some (N.max dict_field 4096)) prog = Some ief ->
  nlen field = HeaderRules.size_field_len (o_unpacked o) ->
  memlimit_ok (o_memlimit o) (N.max dict_field 4096) ->
  stream_mode (HeaderRules.size_in_effect (o_unpacked o) (le_num field)) prog out delta trail ief ->
  k_wfail k = None ->
  k_ffail k = false ->
  o_allow_incomplete o = false ->
  Forall (fun b : N => b < 256) field ->
  Forall (fun b : N => b < 256) trail ->
  nlen ((hdr_bytes fp dict_field field ++ payload) ++ trail) < 140737488355328 ->
  nlen prog + 1 <= 4611686018427387904 ->
  concat pieces = (hdr_bytes fp dict_field field ++ payload) ++ trail ->
  exists k' : snk,
    drive (stream_new o k) pieces = (Done tt, k') /\
    snk_bytes k' = snk_bytes k ++ out /\ k_flushes k' = k_flushes k + 1.
Proof. exact (@stream_decodes_wellformed_exactly). Qed.
Check C01_stream_decodes_wellformed_exactly :
  forall (fp : fprops) (dict_field : N) (field : list N) (prog : list sym) (payload out : list N) 
    (delta : N) (trail : list N) (ief : ienc) (o : options) (k : snk) (pieces : list (list N)),
  f_lc fp <= 8 ->
  f_lp fp <= 4 ->
  f_pb fp <= 4 ->
  dict_field < 2 ^ 32 ->
  enc_payload_gen false fp (Some (N.max dict_field 4096)) prog delta = Some (payload, out) ->
  LzmaExact.final_ienc fp (Some (N.max dict_field 4096)) prog = Some ief ->
  nlen field = HeaderRules.size_field_len (o_unpacked o) ->
  memlimit_ok (o_memlimit o) (N.max dict_field 4096) ->
  stream_mode (HeaderRules.size_in_effect (o_unpacked o) (le_num field)) prog out delta trail ief ->
  k_wfail k = None ->
  k_ffail k = false ->
  o_allow_incomplete o = false ->
  Forall (fun b : N => b < 256) field ->
  Forall (fun b : N => b < 256) trail ->
  nlen ((hdr_bytes fp dict_field field ++ payload) ++ trail) < 140737488355328 ->
  nlen prog + 1 <= 4611686018427387904 ->
  concat pieces = (hdr_bytes fp dict_field field ++ payload) ++ trail ->
  exists k' : snk,
    drive (stream_new o k) pieces = (Done tt, k') /\
    snk_bytes k' = snk_bytes k ++ out /\ k_flushes k' = k_flushes k + 1.
Print Assumptions C01_stream_decodes_wellformed_exactly.

(* every byte of a reference-encoded file is < 256   [proved as enc_lzma_bytes in Proofs/StreamExact.v] *)
Theorem C01_reference_encoding_is_a_byte_string :
  forall (lenient : bool) (fp : fprops) (dict_field size_field : N) (prog : list sym) 
    (delta : N) (file out : list N),
  f_lc fp <= 8 ->
  f_lp fp <= 4 ->
  f_pb fp <= 4 ->
  enc_lzma_gen lenient fp dict_field size_field prog delta = Some (file, out) ->
  Forall (fun b : N => b < 256) file.
Proof. exact (@enc_lzma_bytes). Qed.
Check C01_reference_encoding_is_a_byte_string :
  forall (lenient : bool) (fp : fprops) (dict_field size_field : N) (prog : list sym) 
    (delta : N) (file out : list N),
  f_lc fp <= 8 ->
  f_lp fp <= 4 ->
  f_pb fp <= 4 ->
  enc_lzma_gen lenient fp dict_field size_field prog delta = Some (file, out) ->
  Forall (fun b : N => b < 256) file.
Print Assumptions C01_reference_encoding_is_a_byte_string.
