(* C14 - A reset raw decoder is indistinguishable from a new one (raw LzmaDecoder).
   This file only pins statements: proofs live in Proofs/ResetFresh.v. *)
From LZ Require Import Base.Prelude Base.Prog Model.Io Model.LzBuffer Model.Lzma Proofs.ResetFresh.

Theorem C14_lzma_reset_equals_new : forall p mem dec0 ops us fuel w,
  lzma_decoder_new p mem = Done dec0 ->
  let dec := fold_left do_rop ops dec0 in
  exists dec' fresh,
    lzma_decoder_reset dec us = Done dec' /\
    lzma_decoder_new (mkParams (pr_props p) (pr_dict p) (size_after_reset dec us)) (Some (ld_memlimit dec0)) = Done fresh /\
    fst (lzma_decoder_decompress fuel dec' w) = fst (lzma_decoder_decompress fuel fresh w) /\
    snd (snd (lzma_decoder_decompress fuel dec' w)) = snd (snd (lzma_decoder_decompress fuel fresh w)).
Proof. exact reset_equals_new. Qed.
Check C14_lzma_reset_equals_new : forall p mem dec0 ops us fuel w,
  lzma_decoder_new p mem = Done dec0 ->
  let dec := fold_left do_rop ops dec0 in
  exists dec' fresh,
    lzma_decoder_reset dec us = Done dec' /\
    lzma_decoder_new (mkParams (pr_props p) (pr_dict p) (size_after_reset dec us)) (Some (ld_memlimit dec0)) = Done fresh /\
    fst (lzma_decoder_decompress fuel dec' w) = fst (lzma_decoder_decompress fuel fresh w) /\
    snd (snd (lzma_decoder_decompress fuel dec' w)) = snd (snd (lzma_decoder_decompress fuel fresh w)).
Print Assumptions C14_lzma_reset_equals_new.

Theorem C14_reset_state_is_fresh : forall dec us, DecWf dec ->
  exists dec' fresh,
    lzma_decoder_reset dec us = Done dec' /\
    lzma_decoder_new (mkParams (pr_props (ld_params dec)) (pr_dict (ld_params dec)) (size_after_reset dec us))
                     (Some (ld_memlimit dec)) = Done fresh /\
    ld_state dec' = ld_state fresh /\
    pr_dict (ld_params dec') = pr_dict (ld_params fresh) /\
    ld_memlimit dec' = ld_memlimit fresh /\
    DecWf dec'.
Proof. exact reset_state_is_fresh. Qed.
Check C14_reset_state_is_fresh : forall dec us, DecWf dec ->
  exists dec' fresh,
    lzma_decoder_reset dec us = Done dec' /\
    lzma_decoder_new (mkParams (pr_props (ld_params dec)) (pr_dict (ld_params dec)) (size_after_reset dec us))
                     (Some (ld_memlimit dec)) = Done fresh /\
    ld_state dec' = ld_state fresh /\
    pr_dict (ld_params dec') = pr_dict (ld_params fresh) /\
    ld_memlimit dec' = ld_memlimit fresh /\
    DecWf dec'.
Print Assumptions C14_reset_state_is_fresh.

Theorem C14_history_preserves_wf : forall ops dec, DecWf dec -> DecWf (fold_left do_rop ops dec).
Proof. exact history_wf. Qed.
Check C14_history_preserves_wf : forall ops dec, DecWf dec -> DecWf (fold_left do_rop ops dec).
Print Assumptions C14_history_preserves_wf.
