(* C14 - A reset raw decoder is indistinguishable from a new one (raw LzmaDecoder).
   This file only pins statements: proofs live in Proofs/ResetFresh.v. *)
From LZ Require Import Base.Prelude Base.Prog Model.Io Model.LzBuffer Model.Lzma Proofs.ResetFresh.

Theorem C14_lzma_reset_equals_new : forall p mem dec0 ops us fuel w,
  lzma_decoder_new p mem = Done dec0 ->
  let dec := fold_left do_rop ops dec0 in
  exists dec' fresh,
    lzma_decoder_reset dec us = Done dec' /\
    lzma_decoder_new (mkParams (pr_props p) (pr_dict p) (size_after_reset dec us)) (Some (ld_memlimit dec0)) = Done fresh /\
    fst (lzma_decoder_decompress fuel dec' w) = fst (lzma_decoder_decompress fuel fresh w) /\
    snd (snd (lzma_decoder_decompress fuel dec' w)) = snd (snd (lzma_decoder_decompress fuel fresh w)).
Proof. exact reset_equals_new. Qed.
Check C14_lzma_reset_equals_new : forall p mem dec0 ops us fuel w,
  lzma_decoder_new p mem = Done dec0 ->
  let dec := fold_left do_rop ops dec0 in
  exists dec' fresh,
    lzma_decoder_reset dec us = Done dec' /\
    lzma_decoder_new (mkParams (pr_props p) (pr_dict p) (size_after_reset dec us)) (Some (ld_memlimit dec0)) = Done fresh /\
    fst (lzma_decoder_decompress fuel dec' w) = fst (lzma_decoder_decompress fuel fresh w) /\
    snd (snd (lzma_decoder_decompress fuel dec' w)) = snd (snd (lzma_decoder_decompress fuel fresh w)).
Print Assumptions C14_lzma_reset_equals_new.

Theorem C14_reset_state_is_fresh : forall dec us, DecWf dec ->
  exists dec' fresh,
    lzma_decoder_reset dec us = Done dec' /\
    lzma_decoder_new (mkParams (pr_props (ld_params dec)) (pr_dict (ld_params dec)) (size_after_reset dec us))
                     (Some (ld_memlimit dec)) = Done fresh /\
    ld_state dec' = ld_state fresh /\
    pr_dict (ld_params dec') = pr_dict (ld_params fresh) /\
    ld_memlimit dec' = ld_memlimit fresh /\
    DecWf dec'.
Proof. exact reset_state_is_fresh. Qed.
Check C14_reset_state_is_fresh : forall dec us, DecWf dec ->
  exists dec' fresh,
    lzma_decoder_reset dec us = Done dec' /\
    lzma_decoder_new (mkParams (pr_props (ld_params dec)) (pr_dict (ld_params dec)) (size_after_reset dec us))
                     (Some (ld_memlimit dec)) = Done fresh /\
    ld_state dec' = ld_state fresh /\
    pr_dict (ld_params dec') = pr_dict (ld_params fresh) /\
    ld_memlimit dec' = ld_memlimit fresh /\
    DecWf dec'.
Print Assumptions C14_reset_state_is_fresh.

Theorem C14_history_preserves_wf : forall ops dec, DecWf dec -> DecWf (fold_left do_rop ops dec).
Proof. exact history_wf. Qed.
Check C14_history_preserves_wf : forall ops dec, DecWf dec -> DecWf (fold_left do_rop ops dec).
Print Assumptions C14_history_preserves_wf.

(* ---------- the raw LZMA2 decoder (proofs in Proofs/ResetFresh2.v) ---------- *)
From LZ Require Import Model.Lzma2 Proofs.ResetFresh2.

Theorem C14_lzma2_reset_equals_new : forall (d0 : lzma2_decoder) (ops : list rop2) (fuel : positive) (w : io),
  lzma2_new = Done d0 ->
  let dec := fold_left do_rop2 ops d0 in
  exists dec' : lzma2_decoder,
    lzma2_reset dec = Done dec' /\
    fst (lzma2_decompress fuel dec' w) = fst (lzma2_decompress fuel d0 w) /\
    snd (snd (lzma2_decompress fuel dec' w)) = snd (snd (lzma2_decompress fuel d0 w)).
Proof. exact lzma2_reset_equals_new. Qed.
Check C14_lzma2_reset_equals_new : forall (d0 : lzma2_decoder) (ops : list rop2) (fuel : positive) (w : io),
  lzma2_new = Done d0 ->
  let dec := fold_left do_rop2 ops d0 in
  exists dec' : lzma2_decoder,
    lzma2_reset dec = Done dec' /\
    fst (lzma2_decompress fuel dec' w) = fst (lzma2_decompress fuel d0 w) /\
    snd (snd (lzma2_decompress fuel dec' w)) = snd (snd (lzma2_decompress fuel d0 w)).
Print Assumptions C14_lzma2_reset_equals_new.

(* the stale size field that survives a reset is dead for LZMA2 *)
Theorem C14_lzma2_stale_size_is_dead : forall (fuel : positive) (d1 d2 : lzma2_decoder) (w : io),
  (exists u : option N, l2_state d1 = set_unpacked_size (l2_state d2) u) ->
  fst (lzma2_decompress fuel d1 w) = fst (lzma2_decompress fuel d2 w) /\
  snd (snd (lzma2_decompress fuel d1 w)) = snd (snd (lzma2_decompress fuel d2 w)).
Proof. exact lzma2_decompress_unpacked_dead. Qed.
Check C14_lzma2_stale_size_is_dead : forall (fuel : positive) (d1 d2 : lzma2_decoder) (w : io),
  (exists u : option N, l2_state d1 = set_unpacked_size (l2_state d2) u) ->
  fst (lzma2_decompress fuel d1 w) = fst (lzma2_decompress fuel d2 w) /\
  snd (snd (lzma2_decompress fuel d1 w)) = snd (snd (lzma2_decompress fuel d2 w)).
Print Assumptions C14_lzma2_stale_size_is_dead.
