(* C12 - I/O failures propagate as errors and never corrupt what was already written
   This file only pins statements; the proofs live in the files named below. *)
From LZ Require Import Base.Prelude Base.Prog Model.Io Model.Tables Model.LzBuffer Model.RangeDec Model.Lzma Model.Lzma2 Model.Xz Model.Enc Proofs.FaultProp Proofs.FaultTheorems Proofs.FaultLockstep.

(* (a) a newly hit read/write fault makes lzma_decompress return exactly Failed EIo - never Done, never a panic (Propagates: no_hit w -> no_hit w' \/ r = Failed EIo)   [proved as lzma_fault_propagates in Proofs/FaultTheorems.v] *)
Theorem C12_lzma_fault_propagates :
  forall (fuel : positive) (o : options) (w : io) (r : outcome unit) (w' : io),
  lzma_decompress fuel o w = (r, w') -> Propagates w r w'.
Proof. exact (@lzma_fault_propagates). Qed.
Check C12_lzma_fault_propagates :
  forall (fuel : positive) (o : options) (w : io) (r : outcome unit) (w' : io),
  lzma_decompress fuel o w = (r, w') -> Propagates w r w'.
Print Assumptions C12_lzma_fault_propagates.

(* (a) LZMA2 decoder   [proved as lzma2_fault_propagates in Proofs/FaultTheorems.v] *)
Theorem C12_lzma2_fault_propagates :
  forall (fuel : positive) (w : io) (r : outcome unit) (w' : io),
  lzma2_decompress_top fuel w = (r, w') -> Propagates w r w'.
Proof. exact (@lzma2_fault_propagates). Qed.
Check C12_lzma2_fault_propagates :
  forall (fuel : positive) (w : io) (r : outcome unit) (w' : io),
  lzma2_decompress_top fuel w = (r, w') -> Propagates w r w'.
Print Assumptions C12_lzma2_fault_propagates.

(* (a) XZ decoder   [proved as xz_fault_propagates in Proofs/FaultTheorems.v] *)
Theorem C12_xz_fault_propagates :
  forall (crc32 crc64 : list N -> N) (fuel : positive) (w : io) (r : outcome unit) (w' : io),
  xz_decompress crc32 crc64 fuel w = (r, w') -> Propagates w r w'.
Proof. exact (@xz_fault_propagates). Qed.
Check C12_xz_fault_propagates :
  forall (crc32 crc64 : list N -> N) (fuel : positive) (w : io) (r : outcome unit) (w' : io),
  xz_decompress crc32 crc64 fuel w = (r, w') -> Propagates w r w'.
Print Assumptions C12_xz_fault_propagates.

(* (a) LZMA encoder   [proved as lzma_compress_fault_propagates in Proofs/FaultTheorems.v] *)
Theorem C12_lzma_compress_fault_propagates :
  forall (fuel : positive) (o : enc_unpacked) (w : io) (r : outcome unit) (w' : io),
  lzma_compress fuel o w = (r, w') -> Propagates w r w'.
Proof. exact (@lzma_compress_fault_propagates). Qed.
Check C12_lzma_compress_fault_propagates :
  forall (fuel : positive) (o : enc_unpacked) (w : io) (r : outcome unit) (w' : io),
  lzma_compress fuel o w = (r, w') -> Propagates w r w'.
Print Assumptions C12_lzma_compress_fault_propagates.

(* (a) LZMA2 encoder   [proved as lzma2_compress_fault_propagates in Proofs/FaultTheorems.v] *)
Theorem C12_lzma2_compress_fault_propagates :
  forall (fuel : positive) (w : io) (r : outcome unit) (w' : io),
  lzma2_compress fuel w = (r, w') -> Propagates w r w'.
Proof. exact (@lzma2_compress_fault_propagates). Qed.
Check C12_lzma2_compress_fault_propagates :
  forall (fuel : positive) (w : io) (r : outcome unit) (w' : io),
  lzma2_compress fuel w = (r, w') -> Propagates w r w'.
Print Assumptions C12_lzma2_compress_fault_propagates.

(* (a) XZ encoder   [proved as xz_compress_fault_propagates in Proofs/FaultTheorems.v] *)
Theorem C12_xz_compress_fault_propagates :
  forall (crc32 : list N -> N) (fuel : positive) (w : io) (r : outcome unit) (w' : io),
  xz_compress crc32 fuel w = (r, w') -> Propagates w r w'.
Proof. exact (@xz_compress_fault_propagates). Qed.
Check C12_xz_compress_fault_propagates :
  forall (crc32 : list N -> N) (fuel : positive) (w : io) (r : outcome unit) (w' : io),
  xz_compress crc32 fuel w = (r, w') -> Propagates w r w'.
Print Assumptions C12_xz_compress_fault_propagates.

(* (c) Done implies the sink was flushed exactly once more and flush did not fail; any other outcome leaves the flush count unchanged   [proved as lzma_flush in Proofs/FaultTheorems.v] *)
Theorem C12_lzma_success_flushes :
  forall (fuel : positive) (o : options) (w : io) (r : outcome unit) (w' : io),
  lzma_decompress fuel o w = (r, w') -> FlushPost w r w'.
Proof. exact (@lzma_flush). Qed.
Check C12_lzma_success_flushes :
  forall (fuel : positive) (o : options) (w : io) (r : outcome unit) (w' : io),
  lzma_decompress fuel o w = (r, w') -> FlushPost w r w'.
Print Assumptions C12_lzma_success_flushes.

(* (c) LZMA2   [proved as lzma2_flush in Proofs/FaultTheorems.v] *)
Theorem C12_lzma2_success_flushes :
  forall (fuel : positive) (w : io) (r : outcome unit) (w' : io),
  lzma2_decompress_top fuel w = (r, w') -> FlushPost w r w'.
Proof. exact (@lzma2_flush). Qed.
Check C12_lzma2_success_flushes :
  forall (fuel : positive) (w : io) (r : outcome unit) (w' : io),
  lzma2_decompress_top fuel w = (r, w') -> FlushPost w r w'.
Print Assumptions C12_lzma2_success_flushes.

(* (b) the faulty run either agrees with the fault-free run or returns Failed EIo, and the bytes its sink accepted are a prefix of the fault-free output   [proved as lzma_faulty_vs_free in Proofs/FaultLockstep.v] *)
Theorem C12_lzma_prefix_of_fault_free :
  forall (fuel : positive) (o : options) (w : io),
  no_hit w -> FaultyVsFree (lzma_decompress fuel o w) (lzma_decompress fuel o (clrIo w)).
Proof. exact (@lzma_faulty_vs_free). Qed.
Check C12_lzma_prefix_of_fault_free :
  forall (fuel : positive) (o : options) (w : io),
  no_hit w -> FaultyVsFree (lzma_decompress fuel o w) (lzma_decompress fuel o (clrIo w)).
Print Assumptions C12_lzma_prefix_of_fault_free.

(* (b) LZMA2   [proved as lzma2_faulty_vs_free in Proofs/FaultLockstep.v] *)
Theorem C12_lzma2_prefix_of_fault_free :
  forall (fuel : positive) (w : io),
  no_hit w -> FaultyVsFree (lzma2_decompress_top fuel w) (lzma2_decompress_top fuel (clrIo w)).
Proof. exact (@lzma2_faulty_vs_free). Qed.
Check C12_lzma2_prefix_of_fault_free :
  forall (fuel : positive) (w : io),
  no_hit w -> FaultyVsFree (lzma2_decompress_top fuel w) (lzma2_decompress_top fuel (clrIo w)).
Print Assumptions C12_lzma2_prefix_of_fault_free.

(* (b) XZ   [proved as xz_faulty_vs_free in Proofs/FaultLockstep.v] *)
Theorem C12_xz_prefix_of_fault_free :
  forall (crc32 crc64 : list N -> N) (fuel : positive) (w : io),
  no_hit w -> FaultyVsFree (xz_decompress crc32 crc64 fuel w) (xz_decompress crc32 crc64 fuel (clrIo w)).
Proof. exact (@xz_faulty_vs_free). Qed.
Check C12_xz_prefix_of_fault_free :
  forall (crc32 crc64 : list N -> N) (fuel : positive) (w : io),
  no_hit w -> FaultyVsFree (xz_decompress crc32 crc64 fuel w) (xz_decompress crc32 crc64 fuel (clrIo w)).
Print Assumptions C12_xz_prefix_of_fault_free.

(* the sink only ever grows, unconditionally   [proved as lzma_sink_grows in Proofs/FaultTheorems.v] *)
Theorem C12_lzma_sink_only_grows :
  forall (fuel : positive) (o : options) (w : io), Grows w (snd (lzma_decompress fuel o w)).
Proof. exact (@lzma_sink_grows). Qed.
Check C12_lzma_sink_only_grows :
  forall (fuel : positive) (o : options) (w : io), Grows w (snd (lzma_decompress fuel o w)).
Print Assumptions C12_lzma_sink_only_grows.

From LZ Require Import Model.Stream Proofs.FaultProp Proofs.FaultStreamProp Proofs.FaultStreamRel Proofs.FaultStreamDrive Proofs.FaultStream.

(* streaming decoder, any sequence of write / flush calls followed by finish: a sink fault newly hit during the sequence makes some write or finish return Failed EIo - never swallowed, never a panic   [proved as stream_fault_propagates in Proofs/FaultStreamProp.v] *)
Theorem C12_stream_fault_propagates :
  forall (s : stream) (cs : list StreamLatch.call) (rs : list StreamLatch.cres) (s' : stream) 
    (r : outcome unit) (k : snk),
  StreamLatch.run_calls s cs = (rs, s') ->
  stream_finish s' = (r, k) ->
  FaultTheorems.snk_hit (stream_sink s) = false ->
  FaultTheorems.snk_hit k = false \/ In (StreamLatch.RW (Failed EIo)) rs \/ r = Failed EIo.
Proof. exact (@stream_fault_propagates). Qed.
Check C12_stream_fault_propagates :
  forall (s : stream) (cs : list StreamLatch.call) (rs : list StreamLatch.cres) (s' : stream) 
    (r : outcome unit) (k : snk),
  StreamLatch.run_calls s cs = (rs, s') ->
  stream_finish s' = (r, k) ->
  FaultTheorems.snk_hit (stream_sink s) = false ->
  FaultTheorems.snk_hit k = false \/ In (StreamLatch.RW (Failed EIo)) rs \/ r = Failed EIo.
Print Assumptions C12_stream_fault_propagates.

(* sharper: the first hit is a write returning exactly Failed EIo; afterwards the stream is dead   [proved as stream_first_hit in Proofs/FaultStreamProp.v] *)
Theorem C12_stream_first_hit :
  forall (cs : list StreamLatch.call) (s : stream),
  FaultTheorems.snk_hit (stream_sink s) = false ->
  FaultTheorems.snk_hit (stream_sink (snd (StreamLatch.run_calls s cs))) = true ->
  exists (cs1 : list StreamLatch.call) (d : list N) (cs2 : list StreamLatch.call),
    cs = cs1 ++ StreamLatch.CWrite d :: cs2 /\
    FaultTheorems.snk_hit (stream_sink (snd (StreamLatch.run_calls s cs1))) = false /\
    fst (StreamLatch.do_call (snd (StreamLatch.run_calls s cs1)) (StreamLatch.CWrite d)) =
    StreamLatch.RW (Failed EIo) /\
    FaultTheorems.snk_hit
      (stream_sink (snd (StreamLatch.do_call (snd (StreamLatch.run_calls s cs1)) (StreamLatch.CWrite d)))) =
    true /\
    st_state (snd (StreamLatch.do_call (snd (StreamLatch.run_calls s cs1)) (StreamLatch.CWrite d))) = None /\
    Forall StreamLatch.quiet
      (fst
         (StreamLatch.run_calls
            (snd (StreamLatch.do_call (snd (StreamLatch.run_calls s cs1)) (StreamLatch.CWrite d))) cs2)) /\
    snd (StreamLatch.run_calls s cs) =
    snd (StreamLatch.do_call (snd (StreamLatch.run_calls s cs1)) (StreamLatch.CWrite d)) /\
    fst (stream_finish (snd (StreamLatch.run_calls s cs))) = Failed ELzma.
Proof. exact (@stream_first_hit). Qed.
Check C12_stream_first_hit :
  forall (cs : list StreamLatch.call) (s : stream),
  FaultTheorems.snk_hit (stream_sink s) = false ->
  FaultTheorems.snk_hit (stream_sink (snd (StreamLatch.run_calls s cs))) = true ->
  exists (cs1 : list StreamLatch.call) (d : list N) (cs2 : list StreamLatch.call),
    cs = cs1 ++ StreamLatch.CWrite d :: cs2 /\
    FaultTheorems.snk_hit (stream_sink (snd (StreamLatch.run_calls s cs1))) = false /\
    fst (StreamLatch.do_call (snd (StreamLatch.run_calls s cs1)) (StreamLatch.CWrite d)) =
    StreamLatch.RW (Failed EIo) /\
    FaultTheorems.snk_hit
      (stream_sink (snd (StreamLatch.do_call (snd (StreamLatch.run_calls s cs1)) (StreamLatch.CWrite d)))) =
    true /\
    st_state (snd (StreamLatch.do_call (snd (StreamLatch.run_calls s cs1)) (StreamLatch.CWrite d))) = None /\
    Forall StreamLatch.quiet
      (fst
         (StreamLatch.run_calls
            (snd (StreamLatch.do_call (snd (StreamLatch.run_calls s cs1)) (StreamLatch.CWrite d))) cs2)) /\
    snd (StreamLatch.run_calls s cs) =
    snd (StreamLatch.do_call (snd (StreamLatch.run_calls s cs1)) (StreamLatch.CWrite d)) /\
    fst (stream_finish (snd (StreamLatch.run_calls s cs))) = Failed ELzma.
Print Assumptions C12_stream_first_hit.

(* under ANY sink behaviour the bytes the sink accepted, after any call prefix and after finish, are a prefix of what a never-failing twin sink receives from the same calls   [proved as stream_faulty_prefix in Proofs/FaultStream.v] *)
Theorem C12_stream_prefix_of_fault_free :
  forall (o : options) (k k' : snk) (cs : list StreamLatch.call),
  twin k k' ->
  StreamPrefix.ext (stream_sink (snd (StreamLatch.run_calls (stream_new o k) cs)))
    (stream_sink (snd (StreamLatch.run_calls (stream_new o k') cs))) /\
  StreamPrefix.ext (snd (stream_finish (snd (StreamLatch.run_calls (stream_new o k) cs))))
    (snd (stream_finish (snd (StreamLatch.run_calls (stream_new o k') cs)))).
Proof. exact (@stream_faulty_prefix). Qed.
Check C12_stream_prefix_of_fault_free :
  forall (o : options) (k k' : snk) (cs : list StreamLatch.call),
  twin k k' ->
  StreamPrefix.ext (stream_sink (snd (StreamLatch.run_calls (stream_new o k) cs)))
    (stream_sink (snd (StreamLatch.run_calls (stream_new o k') cs))) /\
  StreamPrefix.ext (snd (stream_finish (snd (StreamLatch.run_calls (stream_new o k) cs))))
    (snd (stream_finish (snd (StreamLatch.run_calls (stream_new o k') cs)))).
Print Assumptions C12_stream_prefix_of_fault_free.

(* sinks that accept only part of each write (never failing): identical call results, bytes, finish verdict and flush count as the accept-all sink - the complete data arrives   [proved as stream_short_writes_complete in Proofs/FaultStream.v] *)
Theorem C12_stream_short_writes_complete :
  forall (o : options) (k k' : snk) (cs : list StreamLatch.call),
  same_data k k' -> StreamSameVerdicts (stream_new o k) (stream_new o k') cs.
Proof. exact (@stream_short_writes_complete). Qed.
Check C12_stream_short_writes_complete :
  forall (o : options) (k k' : snk) (cs : list StreamLatch.call),
  same_data k k' -> StreamSameVerdicts (stream_new o k) (stream_new o k') cs.
Print Assumptions C12_stream_short_writes_complete.
