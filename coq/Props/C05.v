(* C05 - Streaming decoder equals one-shot decoder under every chunking
   This file only pins statements; the proofs live in the files named below. *)
From LZ Require Import Base.Prelude Base.Prog Model.Io Model.Tables Model.LzBuffer Model.RangeDec Model.Lzma Format.RefEnc Proofs.Bound20 Proofs.Bound20Run Proofs.SymOracle Proofs.SymDecode.

(* F4: with MAX_REQUIRED_INPUT = 20 bytes staged a symbol step cannot run out of input   [proved as run_sym_pos_20 in Proofs/Bound20Run.v] *)
Theorem C05_symbol_needs_at_most_20_bytes : forall upd (w : lw),
  T24 <= r_range (l_rc w) < T32 -> tabs_ok (ds_tabs (l_ds w)) ->
  s_pos (l_src (snd (run_sym upd w))) <= s_pos (l_src w) + MAX_REQUIRED_INPUT.
Proof. exact run_sym_pos_20. Qed.
Check C05_symbol_needs_at_most_20_bytes : forall upd (w : lw),
  T24 <= r_range (l_rc w) < T32 -> tabs_ok (ds_tabs (l_ds w)) ->
  s_pos (l_src (snd (run_sym upd w))) <= s_pos (l_src w) + MAX_REQUIRED_INPUT.
Print Assumptions C05_symbol_needs_at_most_20_bytes.

(* the per-symbol operation budget is 23 probability-coded and 26 direct bits (22/26 as in the source comment is exceeded by slot-12/13 matches, which however carry no direct bits)   [proved as process_next_inner_bounded in Proofs/Bound20.v] *)
Theorem C05_20_is_needed_for_23_bit_paths : forall p y upd,
  bounded 23 26 (process_next_inner p y upd).
Proof. exact process_next_inner_bounded. Qed.
Check C05_20_is_needed_for_23_bit_paths : forall p y upd,
  bounded 23 26 (process_next_inner p y upd).
Print Assumptions C05_20_is_needed_for_23_bit_paths.

(* F3 on the event level: the dry run (update = false) consumes exactly the events of the real run and changes nothing   [proved as process_next_inner_dry in Proofs/SymDecode.v] *)
Theorem C05_dry_run_consumes_the_same_events : forall w p fp st h s rest,
  props_match p fp -> st < 12 -> Forall (fun b => b < 256) (h_bytes h) -> rep0_ok w st h ->
  (s = EndMarker \/ exists h', sem_sym w h s = Some h') ->
  interp (oracle w) (process_next_inner p (mkSym st (reps_of h)) false) (fst (sym_evs fp st h s) ++ rest, h)
  = (Done (Continue, mkSym st (reps_of h)), (rest, h)).
Proof. exact process_next_inner_dry. Qed.
Check C05_dry_run_consumes_the_same_events : forall w p fp st h s rest,
  props_match p fp -> st < 12 -> Forall (fun b => b < 256) (h_bytes h) -> rep0_ok w st h ->
  (s = EndMarker \/ exists h', sem_sym w h s = Some h') ->
  interp (oracle w) (process_next_inner p (mkSym st (reps_of h)) false) (fst (sym_evs fp st h s) ++ rest, h)
  = (Done (Continue, mkSym st (reps_of h)), (rest, h)).
Print Assumptions C05_dry_run_consumes_the_same_events.

From LZ Require Import Model.Stream Proofs.StreamSimAbs Proofs.StreamSimDry Proofs.StreamSimLoop Proofs.StreamSimData Proofs.StreamSimFull Proofs.StreamSimTotal.

(* THE property: for every option set (allow_incomplete off), every sink, every non-empty input below 2^47 bytes and EVERY division into pieces (empty and single-byte pieces, cuts inside header / preamble / symbols), writing the pieces (re-offering what a write did not take) and finishing gives the same verdict as lzma_decompress on the concatenation and, on success, the identical sink   [proved as stream_equals_oneshot_every_chunking in Proofs/StreamSimTotal.v] *)
Theorem C05_stream_equals_oneshot :
  forall (o : options) (k : snk) (bs : list N) (pieces : list (list N)),
  o_allow_incomplete o = false ->
  Forall (fun b : N => b < 256) bs ->
  bs <> [] ->
  concat pieces = bs ->
  nlen bs < 140737488355328 ->
  same_verdict (fst (drive (stream_new o k) pieces))
    (fst (lzma_decompress big_fuel o {| i_src := cursor_of bs; i_snk := k |})) /\
  (fst (drive (stream_new o k) pieces) = Done tt ->
   snd (drive (stream_new o k) pieces) =
   i_snk (snd (lzma_decompress big_fuel o {| i_src := cursor_of bs; i_snk := k |}))).
Proof. exact (@stream_equals_oneshot_every_chunking). Qed.
Check C05_stream_equals_oneshot :
  forall (o : options) (k : snk) (bs : list N) (pieces : list (list N)),
  o_allow_incomplete o = false ->
  Forall (fun b : N => b < 256) bs ->
  bs <> [] ->
  concat pieces = bs ->
  nlen bs < 140737488355328 ->
  same_verdict (fst (drive (stream_new o k) pieces))
    (fst (lzma_decompress big_fuel o {| i_src := cursor_of bs; i_snk := k |})) /\
  (fst (drive (stream_new o k) pieces) = Done tt ->
   snd (drive (stream_new o k) pieces) =
   i_snk (snd (lzma_decompress big_fuel o {| i_src := cursor_of bs; i_snk := k |}))).
Print Assumptions C05_stream_equals_oneshot.

(* the stated exception: zero total input finishes successfully with nothing written   [proved as stream_zero_input_finishes_ok in Proofs/StreamSimTotal.v] *)
Theorem C05_zero_input_finishes_ok :
  forall (o : options) (k : snk), stream_finish (stream_new o k) = (Done tt, k).
Proof. exact (@stream_zero_input_finishes_ok). Qed.
Check C05_zero_input_finishes_ok :
  forall (o : options) (k : snk), stream_finish (stream_new o k) = (Done tt, k).
Print Assumptions C05_zero_input_finishes_ok.

(* the same up to 2^62 bytes, assuming the one-shot model run does not exhaust its loop fuel   [proved as stream_equals_oneshot in Proofs/StreamSimFull.v] *)
Theorem C05_stream_equals_oneshot_modulo_fuel :
  forall (o : options) (k : snk) (bs : list N) (pieces : list (list N)),
  o_allow_incomplete o = false ->
  is_byte_string bs ->
  bs <> [] ->
  concat pieces = bs ->
  nlen bs < BIG ->
  fst (lzma_decompress big_fuel o {| i_src := cursor_of bs; i_snk := k |}) <> Panicked (PFuel 10) ->
  same_verdict (fst (drive (stream_new o k) pieces))
    (fst (lzma_decompress big_fuel o {| i_src := cursor_of bs; i_snk := k |})) /\
  (fst (drive (stream_new o k) pieces) = Done tt ->
   snd (drive (stream_new o k) pieces) =
   i_snk (snd (lzma_decompress big_fuel o {| i_src := cursor_of bs; i_snk := k |}))).
Proof. exact (@stream_equals_oneshot). Qed.
Check C05_stream_equals_oneshot_modulo_fuel :
  forall (o : options) (k : snk) (bs : list N) (pieces : list (list N)),
  o_allow_incomplete o = false ->
  is_byte_string bs ->
  bs <> [] ->
  concat pieces = bs ->
  nlen bs < BIG ->
  fst (lzma_decompress big_fuel o {| i_src := cursor_of bs; i_snk := k |}) <> Panicked (PFuel 10) ->
  same_verdict (fst (drive (stream_new o k) pieces))
    (fst (lzma_decompress big_fuel o {| i_src := cursor_of bs; i_snk := k |})) /\
  (fst (drive (stream_new o k) pieces) = Done tt ->
   snd (drive (stream_new o k) pieces) =
   i_snk (snd (lzma_decompress big_fuel o {| i_src := cursor_of bs; i_snk := k |}))).
Print Assumptions C05_stream_equals_oneshot_modulo_fuel.

(* F1: a decoding program whose run never saw the end of its input behaves identically when more input is appended   [proved as dec_h_prefix_stable in Proofs/StreamSimAbs.v] *)
Theorem C05_prefix_stability :
  forall (A : Type) (p : dprog A) (t : ptabs) (r : rc) (v : win) (bs more : list N),
  nlen (bs ++ more) <= BIG ->
  let w1 := {| d_tabs := t; d_rc := r; d_src := cursor_of bs; d_win := v |} in
  let w2 := {| d_tabs := t; d_rc := r; d_src := cursor_of (bs ++ more); d_win := v |} in
  fst (interp dec_h p w1) <> Failed EIo ->
  s_rest (d_src (snd (interp dec_h p w1))) <> [] ->
  fst (interp dec_h p w2) = fst (interp dec_h p w1) /\
  d_tabs (snd (interp dec_h p w2)) = d_tabs (snd (interp dec_h p w1)) /\
  d_rc (snd (interp dec_h p w2)) = d_rc (snd (interp dec_h p w1)) /\
  d_win (snd (interp dec_h p w2)) = d_win (snd (interp dec_h p w1)) /\
  s_pos (d_src (snd (interp dec_h p w2))) = s_pos (d_src (snd (interp dec_h p w1))) /\
  s_rest (d_src (snd (interp dec_h p w2))) = s_rest (d_src (snd (interp dec_h p w1))) ++ more.
Proof. exact (@dec_h_prefix_stable). Qed.
Check C05_prefix_stability :
  forall (A : Type) (p : dprog A) (t : ptabs) (r : rc) (v : win) (bs more : list N),
  nlen (bs ++ more) <= BIG ->
  let w1 := {| d_tabs := t; d_rc := r; d_src := cursor_of bs; d_win := v |} in
  let w2 := {| d_tabs := t; d_rc := r; d_src := cursor_of (bs ++ more); d_win := v |} in
  fst (interp dec_h p w1) <> Failed EIo ->
  s_rest (d_src (snd (interp dec_h p w1))) <> [] ->
  fst (interp dec_h p w2) = fst (interp dec_h p w1) /\
  d_tabs (snd (interp dec_h p w2)) = d_tabs (snd (interp dec_h p w1)) /\
  d_rc (snd (interp dec_h p w2)) = d_rc (snd (interp dec_h p w1)) /\
  d_win (snd (interp dec_h p w2)) = d_win (snd (interp dec_h p w1)) /\
  s_pos (d_src (snd (interp dec_h p w2))) = s_pos (d_src (snd (interp dec_h p w1))) /\
  s_rest (d_src (snd (interp dec_h p w2))) = s_rest (d_src (snd (interp dec_h p w1))) ++ more.
Print Assumptions C05_prefix_stability.

(* F3: if the dry run (try_process_next) of a symbol succeeds, the real run on the same bytes does not run out of input   [proved as dry_run_ok_real_run_fed in Proofs/StreamSimDry.v] *)
Theorem C05_dry_run_ok_implies_real_run_fed :
  forall (p : props) (y : sym_st) (w : aw) (a : psym) (w' : aw),
  a_rf w = false ->
  interp ah (process_next_inner p y false) w = (Done a, w') ->
  a_rf (snd (interp ah (process_next_inner p y true) w)) = false.
Proof. exact (@dry_run_ok_real_run_fed). Qed.
Check C05_dry_run_ok_implies_real_run_fed :
  forall (p : props) (y : sym_st) (w : aw) (a : psym) (w' : aw),
  a_rf w = false ->
  interp ah (process_next_inner p y false) w = (Done a, w') ->
  a_rf (snd (interp ah (process_next_inner p y true) w)) = false.
Print Assumptions C05_dry_run_ok_implies_real_run_fed.
