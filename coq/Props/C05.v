(* C05 - Streaming decoder: look-ahead soundness lemmas (partial)
   This file only pins statements; the proofs live in the files named below. *)
From LZ Require Import Base.Prelude Base.Prog Model.Io Model.Tables Model.LzBuffer Model.RangeDec Model.Lzma Format.RefEnc Proofs.Bound20 Proofs.Bound20Run Proofs.SymOracle Proofs.SymDecode.

(* F4: with MAX_REQUIRED_INPUT = 20 bytes staged a symbol step cannot run out of input   [proved as run_sym_pos_20 in Proofs/Bound20Run.v] *)
Theorem C05_partial_symbol_needs_at_most_20_bytes : forall upd (w : lw),
  T24 <= r_range (l_rc w) < T32 -> tabs_ok (ds_tabs (l_ds w)) ->
  s_pos (l_src (snd (run_sym upd w))) <= s_pos (l_src w) + MAX_REQUIRED_INPUT.
Proof. exact run_sym_pos_20. Qed.
Check C05_partial_symbol_needs_at_most_20_bytes : forall upd (w : lw),
  T24 <= r_range (l_rc w) < T32 -> tabs_ok (ds_tabs (l_ds w)) ->
  s_pos (l_src (snd (run_sym upd w))) <= s_pos (l_src w) + MAX_REQUIRED_INPUT.
Print Assumptions C05_partial_symbol_needs_at_most_20_bytes.

(* the per-symbol operation budget is 23 probability-coded and 26 direct bits (22/26 as in the source comment is exceeded by slot-12/13 matches, which however carry no direct bits)   [proved as process_next_inner_bounded in Proofs/Bound20.v] *)
Theorem C05_partial_20_is_needed_for_23_bit_paths : forall p y upd,
  bounded 23 26 (process_next_inner p y upd).
Proof. exact process_next_inner_bounded. Qed.
Check C05_partial_20_is_needed_for_23_bit_paths : forall p y upd,
  bounded 23 26 (process_next_inner p y upd).
Print Assumptions C05_partial_20_is_needed_for_23_bit_paths.

(* F3 on the event level: the dry run (update = false) consumes exactly the events of the real run and changes nothing   [proved as process_next_inner_dry in Proofs/SymDecode.v] *)
Theorem C05_partial_dry_run_consumes_the_same_events : forall w p fp st h s rest,
  props_match p fp -> st < 12 -> Forall (fun b => b < 256) (h_bytes h) -> rep0_ok w st h ->
  (s = EndMarker \/ exists h', sem_sym w h s = Some h') ->
  interp (oracle w) (process_next_inner p (mkSym st (reps_of h)) false) (fst (sym_evs fp st h s) ++ rest, h)
  = (Done (Continue, mkSym st (reps_of h)), (rest, h)).
Proof. exact process_next_inner_dry. Qed.
Check C05_partial_dry_run_consumes_the_same_events : forall w p fp st h s rest,
  props_match p fp -> st < 12 -> Forall (fun b => b < 256) (h_bytes h) -> rep0_ok w st h ->
  (s = EndMarker \/ exists h', sem_sym w h s = Some h') ->
  interp (oracle w) (process_next_inner p (mkSym st (reps_of h)) false) (fst (sym_evs fp st h s) ++ rest, h)
  = (Done (Continue, mkSym st (reps_of h)), (rest, h)).
Print Assumptions C05_partial_dry_run_consumes_the_same_events.
