(* C10 - The memory limit is honoured exactly
   This file only pins statements; the proofs live in the files named below. *)
From LZ Require Import Base.Prelude Base.Prog Model.Io Model.Tables Model.LzBuffer Model.RangeDec Model.Lzma Proofs.WinCirc.

(* in every reachable state the window buffer holds at most memlimit (and at most dict) bytes   [proved as circ_never_exceeds in Proofs/WinCirc.v] *)
Theorem C10_never_exceeds : forall pre b h,
  CInv pre b h -> c_blen b <= c_mem b /\ c_blen b <= c_dict b.
Proof. exact circ_never_exceeds. Qed.
Check C10_never_exceeds : forall pre b h,
  CInv pre b h -> c_blen b <= c_mem b /\ c_blen b <= c_dict b.
Print Assumptions C10_never_exceeds.

(* a literal succeeds exactly when min(produced+1, dict) <= memlimit, else Err with the sink untouched   [proved as circ_append_literal_spec in Proofs/WinCirc.v] *)
Theorem C10_literal_exact : forall pre b h lit,
  CInv pre b h ->
  if N.min (nlen h + 1) (c_dict b) <=? c_mem b
  then exists b', circ_append_literal b lit = (Done tt, b') /\ CInv pre b' (h ++ [lit]) /\
  c_dict b' = c_dict b /\ c_mem b' = c_mem b
  else exists b', circ_append_literal b lit = (Failed ELzma, b') /\
  snk_bytes (c_snk b') = snk_bytes (c_snk b).
Proof. exact circ_append_literal_spec. Qed.
Check C10_literal_exact : forall pre b h lit,
  CInv pre b h ->
  if N.min (nlen h + 1) (c_dict b) <=? c_mem b
  then exists b', circ_append_literal b lit = (Done tt, b') /\ CInv pre b' (h ++ [lit]) /\
  c_dict b' = c_dict b /\ c_mem b' = c_mem b
  else exists b', circ_append_literal b lit = (Failed ELzma, b') /\
  snk_bytes (c_snk b') = snk_bytes (c_snk b).
Print Assumptions C10_literal_exact.

(* a copy whose final window need min(produced+len, dict) is within the limit behaves as without a limit   [proved as circ_append_lz_spec in Proofs/WinCirc.v] *)
Theorem C10_copy_within_limit : forall pre b h len dist,
  CInv pre b h -> 1 <= dist ->
  if dist <=? N.min (nlen h) (c_dict b)
  then N.min (nlen h + len) (c_dict b) <= c_mem b ->
  exists b', circ_append_lz b len dist = (Done tt, b') /\
  CInv pre b' (lz_copy (N.to_nat len) h dist) /\
  c_dict b' = c_dict b /\ c_mem b' = c_mem b
  else circ_append_lz b len dist = (Failed ELzma, b).
Proof. exact circ_append_lz_spec. Qed.
Check C10_copy_within_limit : forall pre b h len dist,
  CInv pre b h -> 1 <= dist ->
  if dist <=? N.min (nlen h) (c_dict b)
  then N.min (nlen h + len) (c_dict b) <= c_mem b ->
  exists b', circ_append_lz b len dist = (Done tt, b') /\
  CInv pre b' (lz_copy (N.to_nat len) h dist) /\
  c_dict b' = c_dict b /\ c_mem b' = c_mem b
  else circ_append_lz b len dist = (Failed ELzma, b).
Print Assumptions C10_copy_within_limit.

(* a copy that would need more than memlimit fails with Err and the sink holds a prefix of the output   [proved as circ_append_lz_memlimit in Proofs/WinCirc.v] *)
Theorem C10_copy_over_limit : forall pre b h len dist,
  CInv pre b h ->
  1 <= dist <= N.min (nlen h) (c_dict b) -> c_mem b < N.min (nlen h + len) (c_dict b) ->
  exists b', circ_append_lz b len dist = (Failed ELzma, b') /\
  exists t, pre ++ h = snk_bytes (c_snk b') ++ t.
Proof. exact circ_append_lz_memlimit. Qed.
Check C10_copy_over_limit : forall pre b h len dist,
  CInv pre b h ->
  1 <= dist <= N.min (nlen h) (c_dict b) -> c_mem b < N.min (nlen h + len) (c_dict b) ->
  exists b', circ_append_lz b len dist = (Failed ELzma, b') /\
  exists t, pre ++ h = snk_bytes (c_snk b') ++ t.
Print Assumptions C10_copy_over_limit.

(* the invariant holds initially for every dictionary size > 0 and every limit   [proved as circ_new_inv in Proofs/WinCirc.v] *)
Theorem C10_initial_state : forall k dict mem,
  0 < dict -> k_wfail k = None ->
  CInv (snk_bytes k) (circ_new k dict mem) [].
Proof. exact circ_new_inv. Qed.
Check C10_initial_state : forall k dict mem,
  0 < dict -> k_wfail k = None ->
  CInv (snk_bytes k) (circ_new k dict mem) [].
Print Assumptions C10_initial_state.
