(* C10 - The memory limit is honoured exactly
   This file only pins statements; the proofs live in the files named below. *)
From LZ Require Import Base.Prelude Base.Prog Model.Io Model.Tables Model.LzBuffer Model.RangeDec Model.Lzma Proofs.WinCirc.

(* in every reachable state the window buffer holds at most memlimit (and at most dict) bytes   [proved as circ_never_exceeds in Proofs/WinCirc.v] *)
Theorem C10_never_exceeds : forall pre b h,
  CInv pre b h -> c_blen b <= c_mem b /\ c_blen b <= c_dict b.
Proof. exact circ_never_exceeds. Qed.
Check C10_never_exceeds : forall pre b h,
  CInv pre b h -> c_blen b <= c_mem b /\ c_blen b <= c_dict b.
Print Assumptions C10_never_exceeds.

(* a literal succeeds exactly when min(produced+1, dict) <= memlimit, else Err with the sink untouched   [proved as circ_append_literal_spec in Proofs/WinCirc.v] *)
Theorem C10_literal_exact : forall pre b h lit,
  CInv pre b h ->
  if N.min (nlen h + 1) (c_dict b) <=? c_mem b
  then exists b', circ_append_literal b lit = (Done tt, b') /\ CInv pre b' (h ++ [lit]) /\
  c_dict b' = c_dict b /\ c_mem b' = c_mem b
  else exists b', circ_append_literal b lit = (Failed ELzma, b') /\
  snk_bytes (c_snk b') = snk_bytes (c_snk b).
Proof. exact circ_append_literal_spec. Qed.
Check C10_literal_exact : forall pre b h lit,
  CInv pre b h ->
  if N.min (nlen h + 1) (c_dict b) <=? c_mem b
  then exists b', circ_append_literal b lit = (Done tt, b') /\ CInv pre b' (h ++ [lit]) /\
  c_dict b' = c_dict b /\ c_mem b' = c_mem b
  else exists b', circ_append_literal b lit = (Failed ELzma, b') /\
  snk_bytes (c_snk b') = snk_bytes (c_snk b).
Print Assumptions C10_literal_exact.

(* a copy whose final window need min(produced+len, dict) is within the limit behaves as without a limit   [proved as circ_append_lz_spec in Proofs/WinCirc.v] *)
Theorem C10_copy_within_limit : forall pre b h len dist,
  CInv pre b h -> 1 <= dist ->
  if dist <=? N.min (nlen h) (c_dict b)
  then N.min (nlen h + len) (c_dict b) <= c_mem b ->
  exists b', circ_append_lz b len dist = (Done tt, b') /\
  CInv pre b' (lz_copy (N.to_nat len) h dist) /\
  c_dict b' = c_dict b /\ c_mem b' = c_mem b
  else circ_append_lz b len dist = (Failed ELzma, b).
Proof. exact circ_append_lz_spec. Qed.
Check C10_copy_within_limit : forall pre b h len dist,
  CInv pre b h -> 1 <= dist ->
  if dist <=? N.min (nlen h) (c_dict b)
  then N.min (nlen h + len) (c_dict b) <= c_mem b ->
  exists b', circ_append_lz b len dist = (Done tt, b') /\
  CInv pre b' (lz_copy (N.to_nat len) h dist) /\
  c_dict b' = c_dict b /\ c_mem b' = c_mem b
  else circ_append_lz b len dist = (Failed ELzma, b).
Print Assumptions C10_copy_within_limit.

(* a copy that would need more than memlimit fails with Err and the sink holds a prefix of the output   [proved as circ_append_lz_memlimit in Proofs/WinCirc.v] *)
Theorem C10_copy_over_limit : forall pre b h len dist,
  CInv pre b h ->
  1 <= dist <= N.min (nlen h) (c_dict b) -> c_mem b < N.min (nlen h + len) (c_dict b) ->
  exists b', circ_append_lz b len dist = (Failed ELzma, b') /\
  exists t, pre ++ h = snk_bytes (c_snk b') ++ t.
Proof. exact circ_append_lz_memlimit. Qed.
Check C10_copy_over_limit : forall pre b h len dist,
  CInv pre b h ->
  1 <= dist <= N.min (nlen h) (c_dict b) -> c_mem b < N.min (nlen h + len) (c_dict b) ->
  exists b', circ_append_lz b len dist = (Failed ELzma, b') /\
  exists t, pre ++ h = snk_bytes (c_snk b') ++ t.
Print Assumptions C10_copy_over_limit.

(* the invariant holds initially for every dictionary size > 0 and every limit   [proved as circ_new_inv in Proofs/WinCirc.v] *)
Theorem C10_initial_state : forall k dict mem,
  0 < dict -> k_wfail k = None ->
  CInv (snk_bytes k) (circ_new k dict mem) [].
Proof. exact circ_new_inv. Qed.
Check C10_initial_state : forall k dict mem,
  0 < dict -> k_wfail k = None ->
  CInv (snk_bytes k) (circ_new k dict mem) [].
Print Assumptions C10_initial_state.

From LZ Require Import Model.Stream Proofs.StreamLatch Proofs.MemLimitRun Proofs.MemLimitStream.

(* whole runs on ARBITRARY input: with peak = the largest window buffer length of the run under the larger limit, peak <= m makes the run with limit m equal to it (verdict, sink, source position); peak > m makes it Failed ELzma with a prefix of the output in the sink   [proved as mem_limit_exact in Proofs/MemLimitRun.v] *)
Theorem C10_memlimit_exact_whole_run :
  forall (fuel : positive) (o : options) (ml2 : option N) (m : N) (w : io),
  m <= mem_of ml2 ->
  let r1 := lzma_decompress fuel (with_mem o (Some m)) w in
  let r2 := lzma_decompress fuel (with_mem o ml2) w in
  let peak := lzma_peak fuel (with_mem o ml2) w in
  (peak <= m -> r1 = r2) /\
  (m < peak ->
   fst r1 = Failed ELzma /\ (exists t : list N, snk_bytes (i_snk (snd r2)) = snk_bytes (i_snk (snd r1)) ++ t)).
Proof. exact (@mem_limit_exact). Qed.
Check C10_memlimit_exact_whole_run :
  forall (fuel : positive) (o : options) (ml2 : option N) (m : N) (w : io),
  m <= mem_of ml2 ->
  let r1 := lzma_decompress fuel (with_mem o (Some m)) w in
  let r2 := lzma_decompress fuel (with_mem o ml2) w in
  let peak := lzma_peak fuel (with_mem o ml2) w in
  (peak <= m -> r1 = r2) /\
  (m < peak ->
   fst r1 = Failed ELzma /\ (exists t : list N, snk_bytes (i_snk (snd r2)) = snk_bytes (i_snk (snd r1)) ++ t)).
Print Assumptions C10_memlimit_exact_whole_run.

(* the verdict form   [proved as mem_limit_verdict in Proofs/MemLimitRun.v] *)
Theorem C10_memlimit_verdict :
  forall (fuel : positive) (o : options) (ml2 : option N) (m : N) (w : io),
  m <= mem_of ml2 ->
  fst (lzma_decompress fuel (with_mem o (Some m)) w) = fst (lzma_decompress fuel (with_mem o ml2) w) \/
  fst (lzma_decompress fuel (with_mem o (Some m)) w) = Failed ELzma.
Proof. exact (@mem_limit_verdict). Qed.
Check C10_memlimit_verdict :
  forall (fuel : positive) (o : options) (ml2 : option N) (m : N) (w : io),
  m <= mem_of ml2 ->
  fst (lzma_decompress fuel (with_mem o (Some m)) w) = fst (lzma_decompress fuel (with_mem o ml2) w) \/
  fst (lzma_decompress fuel (with_mem o (Some m)) w) = Failed ELzma.
Print Assumptions C10_memlimit_verdict.

(* the window buffer never exceeds the limit, for any input whatsoever   [proved as mem_never_exceeded in Proofs/MemLimitRun.v] *)
Theorem C10_never_exceeded_any_input :
  forall (m : N) (mode : pmode) (k : snk) (dict : N) (d : dstate) (r : rc) (s : src) (n : nat),
  match
    ProgLemmas.iter_step n (pm_body mode)
      {| l_ds := d; l_rc := r; l_src := s; l_win := WCirc (circ_new k dict m) |}
  with
  | Next w' => blen_ok m (l_win w')
  | Break res => blen_ok m (l_win (snd res))
  end.
Proof. exact (@mem_never_exceeded). Qed.
Check C10_never_exceeded_any_input :
  forall (m : N) (mode : pmode) (k : snk) (dict : N) (d : dstate) (r : rc) (s : src) (n : nat),
  match
    ProgLemmas.iter_step n (pm_body mode)
      {| l_ds := d; l_rc := r; l_src := s; l_win := WCirc (circ_new k dict m) |}
  with
  | Next w' => blen_ok m (l_win w')
  | Break res => blen_ok m (l_win (snd res))
  end.
Print Assumptions C10_never_exceeded_any_input.

(* the same for the streaming decoder under any sequence of write / flush calls and finish   [proved as stream_mem_limit_exact in Proofs/MemLimitStream.v] *)
Theorem C10_stream_memlimit_exact :
  forall (o : options) (ml2 : option N) (m : N) (k : snk) (cs : list call),
  m <= mem_of ml2 ->
  let run := fun ml : option N => run_calls (stream_new (with_mem o ml) k) cs in
  let fin := fun ml : option N => stream_finish (snd (run ml)) in
  fst (run (Some m)) = fst (run ml2) /\ fin (Some m) = fin ml2 \/
  (In (RW (Failed ELzma)) (fst (run (Some m))) \/ fst (run (Some m)) = fst (run ml2)) /\
  fst (fin (Some m)) = Failed ELzma /\
  (exists t : list N, snk_bytes (snd (fin ml2)) = snk_bytes (snd (fin (Some m))) ++ t).
Proof. exact (@stream_mem_limit_exact). Qed.
Check C10_stream_memlimit_exact :
  forall (o : options) (ml2 : option N) (m : N) (k : snk) (cs : list call),
  m <= mem_of ml2 ->
  let run := fun ml : option N => run_calls (stream_new (with_mem o ml) k) cs in
  let fin := fun ml : option N => stream_finish (snd (run ml)) in
  fst (run (Some m)) = fst (run ml2) /\ fin (Some m) = fin ml2 \/
  (In (RW (Failed ELzma)) (fst (run (Some m))) \/ fst (run (Some m)) = fst (run ml2)) /\
  fst (fin (Some m)) = Failed ELzma /\
  (exists t : list N, snk_bytes (snd (fin ml2)) = snk_bytes (snd (fin (Some m))) ++ t).
Print Assumptions C10_stream_memlimit_exact.

(* streaming: the buffer never exceeds the limit   [proved as stream_never_exceeds in Proofs/MemLimitStream.v] *)
Theorem C10_stream_never_exceeds :
  forall (o : options) (k : snk) (cs : list call),
  match st_state (snd (run_calls (stream_new o k) cs)) with
  | Some (SData r) => c_blen (rs_out r) <= mem_of (o_memlimit o)
  | _ => True
  end.
Proof. exact (@stream_never_exceeds). Qed.
Check C10_stream_never_exceeds :
  forall (o : options) (k : snk) (cs : list call),
  match st_state (snd (run_calls (stream_new o k) cs)) with
  | Some (SData r) => c_blen (rs_out r) <= mem_of (o_memlimit o)
  | _ => True
  end.
Print Assumptions C10_stream_never_exceeds.
