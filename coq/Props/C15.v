(* C15 - Streaming output is always a prefix and finish(allow_incomplete) succeeds after header + 5 bytes
   This file only pins statements; the proofs live in the files named below. *)
From LZ Require Import Base.Prelude Base.Prog Model.Io Model.Tables Model.LzBuffer Model.RangeDec Model.Lzma Model.Stream Proofs.StreamLatch Proofs.WinCirc Proofs.StreamPrefix Proofs.StreamFinish Proofs.StreamInv.

(* for every call sequence, whatever fails: what finish leaves in the sink extends what the sink held at any earlier moment   [proved as C15_sink_monotone in Proofs/StreamPrefix.v] *)
Theorem C15_sink_only_grows :
  forall (s : stream) (cs1 cs2 : list call) (r : outcome unit) (k : snk),
  stream_finish (snd (run_calls (snd (run_calls s cs1)) cs2)) = (r, k) ->
  exists t : list N, snk_bytes k = snk_bytes (stream_sink (snd (run_calls s cs1))) ++ t.
Proof. exact (@C15_sink_monotone). Qed.
Check C15_sink_only_grows :
  forall (s : stream) (cs1 cs2 : list call) (r : outcome unit) (k : snk),
  stream_finish (snd (run_calls (snd (run_calls s cs1)) cs2)) = (r, k) ->
  exists t : list N, snk_bytes k = snk_bytes (stream_sink (snd (run_calls s cs1))) ++ t.
Print Assumptions C15_sink_only_grows.

(* one write: the sink content after is the content before plus a suffix (any outcome, short-writing or failing sinks)   [proved as stream_write_grows in Proofs/StreamPrefix.v] *)
Theorem C15_write_extends_sink :
  forall (s : stream) (d : list N) (r : outcome N) (s' : stream),
  stream_write s d = (r, s') -> exists t : list N, snk_bytes (stream_sink s') = snk_bytes (stream_sink s) ++ t.
Proof. exact (@stream_write_grows). Qed.
Check C15_write_extends_sink :
  forall (s : stream) (d : list N) (r : outcome N) (s' : stream),
  stream_write s d = (r, s') -> exists t : list N, snk_bytes (stream_sink s') = snk_bytes (stream_sink s) ++ t.
Print Assumptions C15_write_extends_sink.

(* in the data state with allow_incomplete, finish succeeds and returns exactly everything decoded so far   [proved as finish_allow_incomplete in Proofs/StreamFinish.v] *)
Theorem C15_finish_incomplete_succeeds :
  forall (s : stream) (r : run_state) (pre h : list N),
  st_state s = Some (SData r) ->
  o_allow_incomplete (st_opts s) = true ->
  CInv pre (rs_out r) h ->
  k_ffail (c_snk (rs_out r)) = false -> exists k : snk, stream_finish s = (Done tt, k) /\ snk_bytes k = pre ++ h.
Proof. exact (@finish_allow_incomplete). Qed.
Check C15_finish_incomplete_succeeds :
  forall (s : stream) (r : run_state) (pre h : list N),
  st_state s = Some (SData r) ->
  o_allow_incomplete (st_opts s) = true ->
  CInv pre (rs_out r) h ->
  k_ffail (c_snk (rs_out r)) = false -> exists k : snk, stream_finish s = (Done tt, k) /\ snk_bytes k = pre ++ h.
Print Assumptions C15_finish_incomplete_succeeds.

(* the data state is entered as soon as header + 5 coder bytes have been offered, for EVERY division into write calls   [proved as data_state_any_chunking in Proofs/StreamFinish.v] *)
Theorem C15_data_state_after_header_any_chunking :
  forall (o : options) (k : snk) (ds : list (list N)),
  need o <= nlen (concat ds) ->
  head_ok (concat ds) ->
  exists (ds1 : list (list N)) (d : list N) (ds2 : list (list N)) (s1 : stream) (n : N) 
  (s2 : stream),
    ds = ds1 ++ d :: ds2 /\
    fed (stream_new o k) ds1 s1 /\
    stream_write s1 d = (Done n, s2) /\ n <= nlen d /\ st_opts s2 = o /\ entered k s2.
Proof. exact (@data_state_any_chunking). Qed.
Check C15_data_state_after_header_any_chunking :
  forall (o : options) (k : snk) (ds : list (list N)),
  need o <= nlen (concat ds) ->
  head_ok (concat ds) ->
  exists (ds1 : list (list N)) (d : list N) (ds2 : list (list N)) (s1 : stream) (n : N) 
  (s2 : stream),
    ds = ds1 ++ d :: ds2 /\
    fed (stream_new o k) ds1 s1 /\
    stream_write s1 d = (Done n, s2) /\ n <= nlen d /\ st_opts s2 = o /\ entered k s2.
Print Assumptions C15_data_state_after_header_any_chunking.

(* from a fresh stream: after the header in any chunking and any further successful writes, finish(allow_incomplete) returns the initial sink content followed by the decoded history   [proved as C15_incomplete_stream in Proofs/StreamInv.v] *)
Theorem C15_incomplete_stream :
  forall (o : options) (k : snk) (ds : list (list N)),
  need o <= nlen (concat ds) ->
  head_ok (concat ds) ->
  o_allow_incomplete o = true ->
  k_wfail k = None ->
  k_ffail k = false ->
  exists (ds1 : list (list N)) (d : list N) (ds2 : list (list N)) (s1 : stream) (n : N) 
  (s2 : stream),
    ds = ds1 ++ d :: ds2 /\
    fed (stream_new o k) ds1 s1 /\
    stream_write s1 d = (Done n, s2) /\
    n <= nlen d /\
    StreamInv (snk_bytes k) s2 [] /\
    (forall (more : list (list N)) (s3 : stream),
     all_done s2 more s3 ->
     exists (h : list N) (kf : snk),
       StreamInv (snk_bytes k) s3 h /\ stream_finish s3 = (Done tt, kf) /\ snk_bytes kf = snk_bytes k ++ h).
Proof. exact (@C15_incomplete_stream). Qed.
Check C15_incomplete_stream :
  forall (o : options) (k : snk) (ds : list (list N)),
  need o <= nlen (concat ds) ->
  head_ok (concat ds) ->
  o_allow_incomplete o = true ->
  k_wfail k = None ->
  k_ffail k = false ->
  exists (ds1 : list (list N)) (d : list N) (ds2 : list (list N)) (s1 : stream) (n : N) 
  (s2 : stream),
    ds = ds1 ++ d :: ds2 /\
    fed (stream_new o k) ds1 s1 /\
    stream_write s1 d = (Done n, s2) /\
    n <= nlen d /\
    StreamInv (snk_bytes k) s2 [] /\
    (forall (more : list (list N)) (s3 : stream),
     all_done s2 more s3 ->
     exists (h : list N) (kf : snk),
       StreamInv (snk_bytes k) s3 h /\ stream_finish s3 = (Done tt, kf) /\ snk_bytes kf = snk_bytes k ++ h).
Print Assumptions C15_incomplete_stream.

(* a successful write keeps the window invariant and only extends the decoded history   [proved as stream_write_inv in Proofs/StreamInv.v] *)
Theorem C15_write_preserves_history_invariant :
  forall (pre : list N) (s : stream) (h d : list N) (n : N) (s' : stream),
  StreamInv pre s h -> stream_write s d = (Done n, s') -> exists t : list N, StreamInv pre s' (h ++ t).
Proof. exact (@stream_write_inv). Qed.
Check C15_write_preserves_history_invariant :
  forall (pre : list N) (s : stream) (h d : list N) (n : N) (s' : stream),
  StreamInv pre s h -> stream_write s d = (Done n, s') -> exists t : list N, StreamInv pre s' (h ++ t).
Print Assumptions C15_write_preserves_history_invariant.
