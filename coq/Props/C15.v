(* C15 - Streaming output is always a prefix and finish(allow_incomplete) succeeds after header + 5 bytes
   This file only pins statements; the proofs live in the files named below. *)
From LZ Require Import Base.Prelude Base.Prog Model.Io Model.Tables Model.LzBuffer Model.RangeDec Model.Lzma Model.Stream Proofs.StreamLatch Proofs.WinCirc Proofs.StreamPrefix Proofs.StreamFinish Proofs.StreamInv.

(* for every call sequence, whatever fails: what finish leaves in the sink extends what the sink held at any earlier moment   [proved as C15_sink_monotone in Proofs/StreamPrefix.v] *)
Theorem C15_sink_only_grows :
  forall (s : stream) (cs1 cs2 : list call) (r : outcome unit) (k : snk),
  stream_finish (snd (run_calls (snd (run_calls s cs1)) cs2)) = (r, k) ->
  exists t : list N, snk_bytes k = snk_bytes (stream_sink (snd (run_calls s cs1))) ++ t.
Proof. exact (@C15_sink_monotone). Qed.
Check C15_sink_only_grows :
  forall (s : stream) (cs1 cs2 : list call) (r : outcome unit) (k : snk),
  stream_finish (snd (run_calls (snd (run_calls s cs1)) cs2)) = (r, k) ->
  exists t : list N, snk_bytes k = snk_bytes (stream_sink (snd (run_calls s cs1))) ++ t.
Print Assumptions C15_sink_only_grows.

(* one write: the sink content after is the content before plus a suffix (any outcome, short-writing or failing sinks)   [proved as stream_write_grows in Proofs/StreamPrefix.v] *)
Theorem C15_write_extends_sink :
  forall (s : stream) (d : list N) (r : outcome N) (s' : stream),
  stream_write s d = (r, s') -> exists t : list N, snk_bytes (stream_sink s') = snk_bytes (stream_sink s) ++ t.
Proof. exact (@stream_write_grows). Qed.
Check C15_write_extends_sink :
  forall (s : stream) (d : list N) (r : outcome N) (s' : stream),
  stream_write s d = (r, s') -> exists t : list N, snk_bytes (stream_sink s') = snk_bytes (stream_sink s) ++ t.
Print Assumptions C15_write_extends_sink.

(* in the data state with allow_incomplete, finish succeeds and returns exactly everything decoded so far   [proved as finish_allow_incomplete in Proofs/StreamFinish.v] *)
Theorem C15_finish_incomplete_succeeds :
  forall (s : stream) (r : run_state) (pre h : list N),
  st_state s = Some (SData r) ->
  o_allow_incomplete (st_opts s) = true ->
  CInv pre (rs_out r) h ->
  k_ffail (c_snk (rs_out r)) = false -> exists k : snk, stream_finish s = (Done tt, k) /\ snk_bytes k = pre ++ h.
Proof. exact (@finish_allow_incomplete). Qed.
Check C15_finish_incomplete_succeeds :
  forall (s : stream) (r : run_state) (pre h : list N),
  st_state s = Some (SData r) ->
  o_allow_incomplete (st_opts s) = true ->
  CInv pre (rs_out r) h ->
  k_ffail (c_snk (rs_out r)) = false -> exists k : snk, stream_finish s = (Done tt, k) /\ snk_bytes k = pre ++ h.
Print Assumptions C15_finish_incomplete_succeeds.

(* the data state is entered as soon as header + 5 coder bytes have been offered, for EVERY division into write calls   [proved as data_state_any_chunking in Proofs/StreamFinish.v] *)
Theorem C15_data_state_after_header_any_chunking :
  forall (o : options) (k : snk) (ds : list (list N)),
  need o <= nlen (concat ds) ->
  head_ok (concat ds) ->
  exists (ds1 : list (list N)) (d : list N) (ds2 : list (list N)) (s1 : stream) (n : N) 
  (s2 : stream),
    ds = ds1 ++ d :: ds2 /\
    fed (stream_new o k) ds1 s1 /\
    stream_write s1 d = (Done n, s2) /\ n <= nlen d /\ st_opts s2 = o /\ entered k s2.
Proof. exact (@data_state_any_chunking). Qed.
Check C15_data_state_after_header_any_chunking :
  forall (o : options) (k : snk) (ds : list (list N)),
  need o <= nlen (concat ds) ->
  head_ok (concat ds) ->
  exists (ds1 : list (list N)) (d : list N) (ds2 : list (list N)) (s1 : stream) (n : N) 
  (s2 : stream),
    ds = ds1 ++ d :: ds2 /\
    fed (stream_new o k) ds1 s1 /\
    stream_write s1 d = (Done n, s2) /\ n <= nlen d /\ st_opts s2 = o /\ entered k s2.
Print Assumptions C15_data_state_after_header_any_chunking.

(* from a fresh stream: after the header in any chunking and any further successful writes, finish(allow_incomplete) returns the initial sink content followed by the decoded history   [proved as C15_incomplete_stream in Proofs/StreamInv.v] *)
Theorem C15_incomplete_stream :
  forall (o : options) (k : snk) (ds : list (list N)),
  need o <= nlen (concat ds) ->
  head_ok (concat ds) ->
  o_allow_incomplete o = true ->
  k_wfail k = None ->
  k_ffail k = false ->
  exists (ds1 : list (list N)) (d : list N) (ds2 : list (list N)) (s1 : stream) (n : N) 
  (s2 : stream),
    ds = ds1 ++ d :: ds2 /\
    fed (stream_new o k) ds1 s1 /\
    stream_write s1 d = (Done n, s2) /\
    n <= nlen d /\
    StreamInv (snk_bytes k) s2 [] /\
    (forall (more : list (list N)) (s3 : stream),
     all_done s2 more s3 ->
     exists (h : list N) (kf : snk),
       StreamInv (snk_bytes k) s3 h /\ stream_finish s3 = (Done tt, kf) /\ snk_bytes kf = snk_bytes k ++ h).
Proof. exact (@C15_incomplete_stream). Qed.
Check C15_incomplete_stream :
  forall (o : options) (k : snk) (ds : list (list N)),
  need o <= nlen (concat ds) ->
  head_ok (concat ds) ->
  o_allow_incomplete o = true ->
  k_wfail k = None ->
  k_ffail k = false ->
  exists (ds1 : list (list N)) (d : list N) (ds2 : list (list N)) (s1 : stream) (n : N) 
  (s2 : stream),
    ds = ds1 ++ d :: ds2 /\
    fed (stream_new o k) ds1 s1 /\
    stream_write s1 d = (Done n, s2) /\
    n <= nlen d /\
    StreamInv (snk_bytes k) s2 [] /\
    (forall (more : list (list N)) (s3 : stream),
     all_done s2 more s3 ->
     exists (h : list N) (kf : snk),
       StreamInv (snk_bytes k) s3 h /\ stream_finish s3 = (Done tt, kf) /\ snk_bytes kf = snk_bytes k ++ h).
Print Assumptions C15_incomplete_stream.

(* a successful write keeps the window invariant and only extends the decoded history   [proved as stream_write_inv in Proofs/StreamInv.v] *)
Theorem C15_write_preserves_history_invariant :
  forall (pre : list N) (s : stream) (h d : list N) (n : N) (s' : stream),
  StreamInv pre s h -> stream_write s d = (Done n, s') -> exists t : list N, StreamInv pre s' (h ++ t).
Proof. exact (@stream_write_inv). Qed.
Check C15_write_preserves_history_invariant :
  forall (pre : list N) (s : stream) (h d : list N) (n : N) (s' : stream),
  StreamInv pre s h -> stream_write s d = (Done n, s') -> exists t : list N, StreamInv pre s' (h ++ t).
Print Assumptions C15_write_preserves_history_invariant.

From LZ Require Import Model.Stream Proofs.StreamSimAbs Proofs.StreamSimLoop Proofs.StreamSimData Proofs.StreamPrefix2Sync Proofs.StreamPrefix2Hist Proofs.StreamPrefix2Trace Proofs.StreamPrefix2 Proofs.StreamPrefix2Examples.

(* if the complete stream decodes (one-shot Done with output out) then after EVERY single write call of any write trace over any prefix of the input (any piece sizes, re-offered data, empty writes; any sink) the bytes in the sink are a prefix of out   [proved as C15_sink_is_prefix_of_final_output in Proofs/StreamPrefix2.v] *)
Theorem C15_sink_is_prefix_of_final_output :
  forall (o : options) (k0 : snk) (bs : list N) (w : io),
  StreamSimFull.is_byte_string bs ->
  nlen bs < 4611686018427387904 ->
  lzma_decompress big_fuel o {| i_src := cursor_of bs; i_snk := k0 |} = (Done tt, w) ->
  forall (s' : stream) (rem' : list N),
  wtrace (stream_new o k0) bs s' rem' -> prefix_of (snk_bytes (stream_sink s')) (snk_bytes (i_snk w)).
Proof. exact (@C15_sink_is_prefix_of_final_output). Qed.
Check C15_sink_is_prefix_of_final_output :
  forall (o : options) (k0 : snk) (bs : list N) (w : io),
  StreamSimFull.is_byte_string bs ->
  nlen bs < 4611686018427387904 ->
  lzma_decompress big_fuel o {| i_src := cursor_of bs; i_snk := k0 |} = (Done tt, w) ->
  forall (s' : stream) (rem' : list N),
  wtrace (stream_new o k0) bs s' rem' -> prefix_of (snk_bytes (stream_sink s')) (snk_bytes (i_snk w)).
Print Assumptions C15_sink_is_prefix_of_final_output.

(* with allow_incomplete, once header + 5 coder bytes are consumed finish succeeds and returns a prefix of out (all of out once the declared size is reached)   [proved as C15_finish_incomplete_returns_prefix_of_final_output in Proofs/StreamPrefix2.v] *)
Theorem C15_finish_incomplete_returns_prefix_of_final_output :
  forall (o : options) (k0 : snk) (bs : list N) (w : io),
  StreamSimFull.is_byte_string bs ->
  nlen bs < 4611686018427387904 ->
  lzma_decompress big_fuel o {| i_src := cursor_of bs; i_snk := k0 |} = (Done tt, w) ->
  o_allow_incomplete o = true ->
  well_behaved k0 ->
  forall (s' : stream) (rem' : list N),
  wtrace (stream_new o k0) bs s' rem' ->
  18 + nlen rem' <= nlen bs ->
  exists (r0 : run_state) (k' : snk),
    st_state s' = Some (SData r0) /\
    stream_finish s' = (Done tt, k') /\
    prefix_of (snk_bytes k') (snk_bytes (i_snk w)) /\
    (StreamLatch.size_reached r0 -> snk_bytes k' = snk_bytes (i_snk w)).
Proof. exact (@C15_finish_incomplete_returns_prefix_of_final_output). Qed.
Check C15_finish_incomplete_returns_prefix_of_final_output :
  forall (o : options) (k0 : snk) (bs : list N) (w : io),
  StreamSimFull.is_byte_string bs ->
  nlen bs < 4611686018427387904 ->
  lzma_decompress big_fuel o {| i_src := cursor_of bs; i_snk := k0 |} = (Done tt, w) ->
  o_allow_incomplete o = true ->
  well_behaved k0 ->
  forall (s' : stream) (rem' : list N),
  wtrace (stream_new o k0) bs s' rem' ->
  18 + nlen rem' <= nlen bs ->
  exists (r0 : run_state) (k' : snk),
    st_state s' = Some (SData r0) /\
    stream_finish s' = (Done tt, k') /\
    prefix_of (snk_bytes k') (snk_bytes (i_snk w)) /\
    (StreamLatch.size_reached r0 -> snk_bytes k' = snk_bytes (i_snk w)).
Print Assumptions C15_finish_incomplete_returns_prefix_of_final_output.

(* after every write in the data state the decoder state, registers and window equal those of the one-shot loop after k symbol steps, and the unread input is staged ++ unconsumed with fewer than 20 staged bytes (or the size is reached / the end marker passed): never more than one symbol look-ahead behind   [proved as C15_keeps_up_with_input in Proofs/StreamPrefix2.v] *)
Theorem C15_keeps_up_with_input :
  forall (o : options) (k0 : snk) (bs : list N) (w : io),
  StreamSimFull.is_byte_string bs ->
  nlen bs < 4611686018427387904 ->
  lzma_decompress big_fuel o {| i_src := cursor_of bs; i_snk := k0 |} = (Done tt, w) ->
  forall (s' : stream) (rem' : list N) (r0 : run_state),
  wtrace (stream_new o k0) bs s' rem' ->
  st_state s' = Some (SData r0) ->
  exists A0 : StreamSimSym.ast,
    oneshot_start o k0 bs A0 /\
    keeps_up A0 r0 (ds_pib (rs_dec r0) ++ st_tmp s') rem' /\
    (forall (j : nat) (Aj : StreamSimSym.ast),
     osteps A0 j Aj ->
     20 + nlen rem' <= nlen (StreamSimSym.x_in Aj) -> win_len (StreamSimSym.x_win Aj) <= c_len (rs_out r0)).
Proof. exact (@C15_keeps_up_with_input). Qed.
Check C15_keeps_up_with_input :
  forall (o : options) (k0 : snk) (bs : list N) (w : io),
  StreamSimFull.is_byte_string bs ->
  nlen bs < 4611686018427387904 ->
  lzma_decompress big_fuel o {| i_src := cursor_of bs; i_snk := k0 |} = (Done tt, w) ->
  forall (s' : stream) (rem' : list N) (r0 : run_state),
  wtrace (stream_new o k0) bs s' rem' ->
  st_state s' = Some (SData r0) ->
  exists A0 : StreamSimSym.ast,
    oneshot_start o k0 bs A0 /\
    keeps_up A0 r0 (ds_pib (rs_dec r0) ++ st_tmp s') rem' /\
    (forall (j : nat) (Aj : StreamSimSym.ast),
     osteps A0 j Aj ->
     20 + nlen rem' <= nlen (StreamSimSym.x_in Aj) -> win_len (StreamSimSym.x_win Aj) <= c_len (rs_out r0)).
Print Assumptions C15_keeps_up_with_input.

(* finish(allow_incomplete) returns at least the one-shot history up to 20 bytes before the end of the consumed input   [proved as C15_finish_incomplete_keeps_up in Proofs/StreamPrefix2.v] *)
Theorem C15_finish_incomplete_keeps_up :
  forall (o : options) (k0 : snk) (bs : list N) (w : io),
  StreamSimFull.is_byte_string bs ->
  nlen bs < 4611686018427387904 ->
  lzma_decompress big_fuel o {| i_src := cursor_of bs; i_snk := k0 |} = (Done tt, w) ->
  o_allow_incomplete o = true ->
  well_behaved k0 ->
  forall (s' : stream) (rem' : list N) (r0 : run_state),
  wtrace (stream_new o k0) bs s' rem' ->
  st_state s' = Some (SData r0) ->
  exists A0 : StreamSimSym.ast,
    oneshot_start o k0 bs A0 /\
    (forall (j : nat) (Aj : StreamSimSym.ast),
     osteps A0 j Aj ->
     20 + nlen rem' <= nlen (StreamSimSym.x_in Aj) ->
     exists (cj : circ) (hj : list N) (k' : snk) (t : list N),
       StreamSimSym.x_win Aj = WCirc cj /\
       WinCirc.CInv (snk_bytes k0) cj hj /\
       stream_finish s' = (Done tt, k') /\ snk_bytes k' = snk_bytes k0 ++ hj ++ t).
Proof. exact (@C15_finish_incomplete_keeps_up). Qed.
Check C15_finish_incomplete_keeps_up :
  forall (o : options) (k0 : snk) (bs : list N) (w : io),
  StreamSimFull.is_byte_string bs ->
  nlen bs < 4611686018427387904 ->
  lzma_decompress big_fuel o {| i_src := cursor_of bs; i_snk := k0 |} = (Done tt, w) ->
  o_allow_incomplete o = true ->
  well_behaved k0 ->
  forall (s' : stream) (rem' : list N) (r0 : run_state),
  wtrace (stream_new o k0) bs s' rem' ->
  st_state s' = Some (SData r0) ->
  exists A0 : StreamSimSym.ast,
    oneshot_start o k0 bs A0 /\
    (forall (j : nat) (Aj : StreamSimSym.ast),
     osteps A0 j Aj ->
     20 + nlen rem' <= nlen (StreamSimSym.x_in Aj) ->
     exists (cj : circ) (hj : list N) (k' : snk) (t : list N),
       StreamSimSym.x_win Aj = WCirc cj /\
       WinCirc.CInv (snk_bytes k0) cj hj /\
       stream_finish s' = (Done tt, k') /\ snk_bytes k' = snk_bytes k0 ++ hj ++ t).
Print Assumptions C15_finish_incomplete_keeps_up.

(* REFUTED stronger reading: "everything written => finish(allow_incomplete) returns the whole output" is false (payload bytes still staged with the header are not decoded by finish); the property only promises a prefix   [proved as C15_finish_incomplete_may_lose_staged_bytes in Proofs/StreamPrefix2Examples.v] *)
Theorem C15_finish_incomplete_may_lose_staged_bytes :
  ~ c15_prefix_statement.
Proof. exact (@C15_finish_incomplete_may_lose_staged_bytes). Qed.
Check C15_finish_incomplete_may_lose_staged_bytes :
  ~ c15_prefix_statement.
Print Assumptions C15_finish_incomplete_may_lose_staged_bytes.
